(* Proofs about Model/AutoEq.v (C15). *)
From Coq Require Import List ZArith QArith Qpower Qring Bool Arith Ring_polynom BinList Lqa Lia Setoid Morphisms Permutation.
From GV Require Import Lib.Tree Lib.PolyRefl15 Lib.Graph15 Model.AutoEq.
Import ListNotations.
Local Open Scope nat_scope.

(* ================================================================== *)
(* 1. homomorphisms of the abstract arithmetic *)
Record alg_hom {S T} (A : alg S) (B : alg T) (h : S -> T) : Prop := mk_hom {
  h_0 : h (a0 A) = a0 B;
  h_1 : h (a1 A) = a1 B;
  h_add : forall x y, h (aadd A x y) = aadd B (h x) (h y);
  h_mul : forall x y, h (amul A x y) = amul B (h x) (h y);
  h_sub : forall x y, h (asub A x y) = asub B (h x) (h y);
  h_pow : forall x n, h (apow A x n) = apow B (h x) n }.

Section Hom.
  Context {S T : Type} (A : alg S) (B : alg T) (h : S -> T) (H : alg_hom A B h).

  Lemma fold_add_hom : forall l acc,
      h (fold_left (aadd A) l acc) = fold_left (aadd B) (map h l) (h acc).
  Proof.
    induction l as [|x l IH]; intros acc; cbn [fold_left map]; [reflexivity|].
    rewrite IH, (h_add _ _ _ H). reflexivity.
  Qed.
  Lemma fold_mul_hom : forall l acc,
      h (fold_left (amul A) l acc) = fold_left (amul B) (map h l) (h acc).
  Proof.
    induction l as [|x l IH]; intros acc; cbn [fold_left map]; [reflexivity|].
    rewrite IH, (h_mul _ _ _ H). reflexivity.
  Qed.
  Lemma asum_hom : forall l, h (asum A l) = asum B (map h l).
  Proof. intros l. unfold asum. rewrite fold_add_hom, (h_0 _ _ _ H). reflexivity. Qed.
  Lemma aprod_hom : forall l, h (aprod A l) = aprod B (map h l).
  Proof. intros l. unfold aprod. rewrite fold_mul_hom, (h_1 _ _ _ H). reflexivity. Qed.

  Lemma term_of_hom : forall g root phi u c combos,
      h (term_of A g root phi u c combos) = term_of B g root (h phi) (fun v => h (u v)) c combos.
  Proof.
    intros g root phi u c combos.
    assert (Hgen :
      h (asum A (map (fun n => amul A (amul A (amul A (apow A phi (length (internal_edges (g_edges g) c) - n))
                 (apow A (asub A (a1 A) phi) n)) (apow A (asub A (a1 A) phi) (n_interface (g_edges g) c)))
                 (aprod A (map u (filter (fun v => negb (Nat.eqb v root))
                                         (live_nodes (g_nodes g) (internal_edges (g_edges g) c)))))) combos)) =
      asum B (map (fun n => amul B (amul B (amul B (apow B (h phi) (length (internal_edges (g_edges g) c) - n))
                 (apow B (asub B (a1 B) (h phi)) n)) (apow B (asub B (a1 B) (h phi)) (n_interface (g_edges g) c)))
                 (aprod B (map (fun v => h (u v)) (filter (fun v => negb (Nat.eqb v root))
                                         (live_nodes (g_nodes g) (internal_edges (g_edges g) c)))))) combos)).
    { rewrite asum_hom, map_map. f_equal. apply map_ext. intros n.
      rewrite !(h_mul _ _ _ H), !(h_pow _ _ _ H), !(h_sub _ _ _ H), (h_1 _ _ _ H), aprod_hom, map_map.
      reflexivity. }
    unfold term_of. destruct c as [|v [|w c']].
    - exact Hgen.
    - rewrite (h_pow _ _ _ H), (h_sub _ _ _ H), (h_1 _ _ _ H). reflexivity.
    - exact Hgen.
  Qed.

  Lemma auto_gen_hom : forall g root phi u,
      h (auto_gen A g root phi u) = auto_gen B g root (h phi) (fun v => h (u v)).
  Proof.
    intros. unfold auto_gen. rewrite asum_hom, map_map. f_equal. apply map_ext.
    intros c. apply term_of_hom.
  Qed.

  Lemma exact_rec_hom : forall nodes root phi u es kept,
      h (exact_rec A nodes root phi u es kept) = exact_rec B nodes root (h phi) (fun v => h (u v)) es kept.
  Proof.
    intros nodes root phi u es. induction es as [|e es IH]; intros kept; cbn [exact_rec].
    - rewrite aprod_hom, map_map. reflexivity.
    - rewrite (h_add _ _ _ H), !(h_mul _ _ _ H), (h_sub _ _ _ H), (h_1 _ _ _ H), !IH. reflexivity.
  Qed.
  Lemma exact_gen_hom : forall g root phi u,
      h (exact_gen A g root phi u) = exact_gen B g root (h phi) (fun v => h (u v)).
  Proof. intros. unfold exact_gen. apply exact_rec_hom. Qed.
End Hom.

(* evaluation of expressions in Q is a homomorphism alg_pe -> alg_q (Leibniz equalities) *)
Lemma peval_hom : forall env, alg_hom alg_pe alg_q (peval env).
Proof.
  intros env. constructor; try reflexivity.
  intros x n. cbn [apow alg_pe alg_q]. unfold peval. cbn [PEeval]. rewrite nat_N_Z. reflexivity.
Qed.

(* ================================================================== *)
(* 2. variables: BinList.nth versus List.nth *)
Lemma jump_nil : forall (A : Type) p, jump p (@nil A) = [].
Proof. induction p as [p IH|p IH|]; cbn [jump tl]; rewrite ?IH; reflexivity. Qed.
Lemma bnth_nil : forall (A : Type) (d : A) p, BinList.nth d p [] = d.
Proof. induction p as [p IH|p IH|]; cbn [BinList.nth tl hd]; rewrite ?jump_nil; auto. Qed.
Lemma bnth_succ : forall (A : Type) (d a : A) p l,
    BinList.nth d (Pos.succ p) (a :: l) = BinList.nth d p l.
Proof.
  intros A d a p l.
  change (a :: l) with (tl (d :: a :: l)).
  rewrite nth_jump, jump_succ. cbn [jump]. rewrite jump_tl, <- nth_jump. reflexivity.
Qed.
Lemma bnth_of_succ_nat : forall (A : Type) (d : A) v l,
    BinList.nth d (Pos.of_succ_nat v) l = List.nth v l d.
Proof.
  induction v as [|v IH]; intros l.
  - destruct l; reflexivity.
  - cbn [Pos.of_succ_nat]. destruct l as [|a l].
    + rewrite bnth_nil. reflexivity.
    + rewrite bnth_succ, IH. reflexivity.
Qed.

Definition env_of (phi : Q) (us : list Q) : list Q := phi :: us.
Lemma peval_ephi0 : forall phi us, peval (env_of phi us) ephi0 = phi.
Proof. reflexivity. Qed.
Lemma peval_eu0 : forall phi us v, peval (env_of phi us) (eu0 v) = List.nth v us 0%Q.
Proof.
  intros. unfold eu0, vpos, peval, env_of. cbn [PEeval Pos.of_succ_nat].
  rewrite bnth_succ. apply bnth_of_succ_nat.
Qed.

(* ================================================================== *)
(* 3. sums and products in Q *)
Local Open Scope Q_scope.
Lemma qsum_acc : forall l a, fold_left Qplus l a == a + qsum l.
Proof.
  unfold qsum. induction l as [|x l IH]; intros a; cbn [fold_left].
  - ring.
  - rewrite IH, (IH (0 + x)%Q). ring.
Qed.
Lemma qsum_cons : forall x l, qsum (x :: l) == x + qsum l.
Proof. intros. unfold qsum at 1. cbn [fold_left]. rewrite qsum_acc. ring. Qed.
Lemma qsum_app : forall l1 l2, qsum (l1 ++ l2) == qsum l1 + qsum l2.
Proof.
  induction l1 as [|x l1 IH]; intros l2.
  - cbn [app]. unfold qsum at 2. cbn [fold_left]. ring.
  - cbn [app]. rewrite !qsum_cons, IH. ring.
Qed.
Lemma qsum_scale : forall {X} (f : X -> Q) k l, qsum (map (fun x => k * f x) l) == k * qsum (map f l).
Proof.
  intros X f k. induction l as [|x l IH]; cbn [map].
  - unfold qsum. cbn [fold_left]. ring.
  - rewrite !qsum_cons, IH. ring.
Qed.
Lemma qsum_ext : forall {X} (f g : X -> Q) l,
    (forall x, In x l -> f x == g x) -> qsum (map f l) == qsum (map g l).
Proof.
  intros X f g. induction l as [|x l IH]; intros Hfg; cbn [map]; [reflexivity|].
  rewrite !qsum_cons, IH, (Hfg x); [reflexivity|left; reflexivity|].
  intros y Hy. apply Hfg. right. exact Hy.
Qed.

Lemma qpow_S : forall (q : Q) n, Qpower q (Z.of_nat (S n)) == q * Qpower q (Z.of_nat n).
Proof.
  intros q n. rewrite Nat2Z.inj_succ. unfold Z.succ. rewrite Z.add_comm.
  rewrite Qpower_plus' by lia. reflexivity.
Qed.

(* ================================================================== *)
(* 4. the edge-recursive form equals the explicit sum over edge subsets *)
Lemma sublists_length : forall {X} (l S : list X), In S (sublists l) -> (length S <= length l)%nat.
Proof.
  intros X. induction l as [|x l IH]; intros S HS; cbn [sublists] in HS.
  - destruct HS as [<-|[]]. auto.
  - apply in_app_or in HS. destruct HS as [HS|HS].
    + apply in_map_iff in HS. destruct HS as [S' [<- HS']]. cbn [length]. apply le_n_S, IH, HS'.
    + cbn [length]. apply le_S, IH, HS.
Qed.

Section ExactFlat.
  Variables (nodes : list nat) (root : nat) (phi : Q) (u : nat -> Q).
  Let leaf (K : list edge) : Q :=
    qprod (map u (filter (fun v => negb (Nat.eqb v root)) (comp nodes K root))).
  Let flat (es kept : list edge) : Q :=
    qsum (map (fun S0 : list edge =>
                 Qpower phi (Z.of_nat (length S0)) * Qpower (1 - phi) (Z.of_nat (length es - length S0)%nat)
                 * leaf (kept ++ S0))%Q (sublists es)).

  Lemma exact_rec_flat : forall es kept, exact_rec alg_q nodes root phi u es kept == flat es kept.
  Proof.
    induction es as [|e es IH]; intros kept.
    - cbn [exact_rec]. unfold flat. cbn [sublists map length Nat.sub]. rewrite qsum_cons.
      unfold qsum. cbn [fold_left]. rewrite app_nil_r. unfold leaf, aprod, qprod.
      cbn [alg_q amul a1 Z.of_nat Qpower]. ring.
    - cbn [exact_rec]. cbn [alg_q aadd amul asub a1]. rewrite !IH.
      unfold flat. cbn [sublists]. rewrite map_app, qsum_app, map_map.
      apply Qplus_comp.
      + rewrite <- qsum_scale. apply qsum_ext. intros S0 HS.
        cbn [length Nat.sub]. rewrite qpow_S, <- app_assoc. cbn [app]. ring.
      + rewrite <- qsum_scale. apply qsum_ext. intros S0 HS.
        apply sublists_length in HS. cbn [length].
        replace (S (length es) - length S0)%nat with (S (length es - length S0))%nat by lia.
        rewrite qpow_S. ring.
  Qed.
End ExactFlat.

Theorem expectation_rec : forall g root phi u,
    exact_gen alg_q g root phi u == expectation g root phi u.
Proof.
  intros g root phi u. unfold exact_gen. rewrite exact_rec_flat. unfold expectation.
  apply qsum_ext. intros S0 HS. cbn [app]. reflexivity.
Qed.

(* ================================================================== *)
(* 5. 0 <= expectation <= 1 on the unit cube *)
Lemma qprod_unit : forall l acc,
    (0 <= acc <= 1)%Q -> (forall x, In x l -> (0 <= x <= 1)%Q) -> (0 <= fold_left Qmult l acc <= 1)%Q.
Proof.
  induction l as [|x l IH]; intros acc Hacc Hl; cbn [fold_left]; [exact Hacc|].
  apply IH.
  - assert (Hx : (0 <= x <= 1)%Q) by (apply Hl; left; reflexivity). nra.
  - intros y Hy. apply Hl. right. exact Hy.
Qed.

Lemma exact_rec_unit : forall nodes root phi u,
    (0 <= phi <= 1)%Q -> (forall v, (0 <= u v <= 1)%Q) ->
    forall es kept, (0 <= exact_rec alg_q nodes root phi u es kept <= 1)%Q.
Proof.
  intros nodes root phi u Hphi Hu. induction es as [|e es IH]; intros kept; cbn [exact_rec].
  - unfold aprod. cbn [alg_q amul a1]. apply qprod_unit; [lra|].
    intros x Hx. apply in_map_iff in Hx. destruct Hx as [v [<- _]]. apply Hu.
  - cbn [alg_q aadd amul asub a1].
    pose proof (IH (kept ++ [e])) as H1. pose proof (IH kept) as H2. nra.
Qed.

Theorem exact_in_unit : forall g root phi u,
    (0 <= phi <= 1)%Q -> (forall v, (0 <= u v <= 1)%Q) ->
    (0 <= expectation g root phi u <= 1)%Q.
Proof.
  intros g root phi u Hphi Hu. rewrite <- expectation_rec. unfold exact_gen.
  apply exact_rec_unit; assumption.
Qed.

(* ================================================================== *)
(* 6. the verified checker is sound *)
Theorem c15_check_sound : forall g root ephi eu ms,
    c15_checkb g root ephi eu ms = true ->
    forall env, peval env (monos_expr ms)
                == expectation g root (peval env ephi) (fun v => peval env (eu v)).
Proof.
  intros g root ephi eu ms Hc env. unfold c15_checkb in Hc.
  rewrite (peq_sound _ _ Hc env).
  rewrite (exact_gen_hom alg_pe alg_q (peval env) (peval_hom env)).
  apply expectation_rec.
Qed.

(* ================================================================== *)
(* 7. the evaluator with its two caches: history independence *)
Local Close Scope Q_scope.
Local Open Scope nat_scope.

Lemma list_eqb_eq : forall a b, list_eqb a b = true -> a = b.
Proof.
  induction a as [|x a IH]; destruct b as [|y b]; cbn [list_eqb]; intros Hab; try discriminate; auto.
  apply andb_true_iff in Hab. destruct Hab as [Hxy Hab]. apply Nat.eqb_eq in Hxy. f_equal; auto.
Qed.
Lemma mname_eqb_eq : forall a b, mname_eqb a b = true -> a = b.
Proof.
  intros [a1 a2] [b1 b2] Hab. unfold mname_eqb in Hab. cbn [fst snd] in Hab.
  apply andb_true_iff in Hab. destruct Hab as [H1 H2]. apply Nat.eqb_eq in H1, H2. congruence.
Qed.
Lemma mname_eqb_refl : forall a, mname_eqb a a = true.
Proof. intros [a1 a2]. unfold mname_eqb. cbn [fst snd]. rewrite !Nat.eqb_refl. reflexivity. Qed.
Lemma key_sub_eqb_eq : forall a b, key_sub_eqb a b = true -> a = b.
Proof.
  intros [a1 a2] [b1 b2] Hab. unfold key_sub_eqb in Hab. cbn [fst snd] in Hab.
  apply andb_true_iff in Hab. destruct Hab as [H1 H2]. apply Nat.eqb_eq in H1. apply mname_eqb_eq in H2. congruence.
Qed.
Lemma key_edge_eqb_eq : forall a b, key_edge_eqb a b = true -> a = b.
Proof.
  intros [a1 a2] [b1 b2] Hab. unfold key_edge_eqb in Hab. cbn [fst snd] in Hab.
  apply andb_true_iff in Hab. destruct Hab as [H1 H2]. apply mname_eqb_eq in H2. apply list_eqb_eq in H1. congruence.
Qed.

(* every cache entry equals the fresh computation for the graph its key's name denotes *)
Definition cache_inv (naming : mname -> graph) (st : caches) : Prop :=
  (forall k v, alookup key_sub_eqb k (cc_sub st) = Some v -> v = enum (naming (snd k)) (fst k)) /\
  (forall k v, alookup key_edge_eqb k (cc_edge st) = Some v -> v = combos_for (naming (snd k)) (fst k)).

Lemma cache_inv_empty : forall naming, cache_inv naming caches_empty.
Proof. intros naming. split; intros k v Hk; discriminate Hk. Qed.

Lemma get_sub_inv : forall naming st name root,
    cache_inv naming st ->
    fst (get_connected_subgraphs st name (naming name) root) = enum (naming name) root /\
    cache_inv naming (snd (get_connected_subgraphs st name (naming name) root)).
Proof.
  intros naming st name root [I1 I2]. unfold get_connected_subgraphs.
  destruct (alookup key_sub_eqb (root, name) (cc_sub st)) as [r|] eqn:E; cbn [fst snd].
  - split; [exact (I1 _ _ E)|split; assumption].
  - split; [reflexivity|]. split; cbn [cc_sub cc_edge]; [|exact I2].
    intros k v Hk. cbn [alookup] in Hk.
    destruct (key_sub_eqb k (root, name)) eqn:Ek.
    + apply key_sub_eqb_eq in Ek. subst k. injection Hk as <-. reflexivity.
    + exact (I1 _ _ Hk).
Qed.

Lemma get_edge_inv : forall naming st name c,
    cache_inv naming st ->
    fst (get_edge_combinations st name (naming name) c) = combos_for (naming name) c /\
    cache_inv naming (snd (get_edge_combinations st name (naming name) c)).
Proof.
  intros naming st name c [I1 I2]. unfold get_edge_combinations.
  destruct (alookup key_edge_eqb (c, name) (cc_edge st)) as [r|] eqn:E; cbn [fst snd].
  - split; [exact (I2 _ _ E)|split; assumption].
  - split; [reflexivity|]. split; cbn [cc_sub cc_edge]; [exact I1|].
    intros k v Hk. cbn [alookup] in Hk.
    destruct (key_edge_eqb k (c, name)) eqn:Ek.
    + apply key_edge_eqb_eq in Ek. subst k. injection Hk as <-. reflexivity.
    + exact (I2 _ _ Hk).
Qed.

Section History.
  Context {T : Type} (A : alg T).

  Lemma term_of_single : forall g root phi u v l1 l2,
      term_of A g root phi u [v] l1 = term_of A g root phi u [v] l2.
  Proof. reflexivity. Qed.

  Definition fold_fun (name : mname) (g : graph) (root : nat) (phi : T) (u : nat -> T)
             (as_ : T * caches) (c : list nat) : T * caches :=
    let '(acc, s) := as_ in
    match c with
    | [_] => (aadd A acc (term_of A g root phi u c []), s)
    | _ => let '(cmb, s') := get_edge_combinations s name g c in
           (aadd A acc (term_of A g root phi u c cmb), s')
    end.

  Lemma fold_inv : forall naming name root phi u comps acc s,
      cache_inv naming s ->
      fst (fold_left (fold_fun name (naming name) root phi u) comps (acc, s))
      = fold_left (aadd A) (map (fun c => term_of A (naming name) root phi u c (combos_for (naming name) c)) comps) acc
      /\ cache_inv naming (snd (fold_left (fold_fun name (naming name) root phi u) comps (acc, s))).
  Proof.
    intros naming name root phi u. induction comps as [|c comps IH]; intros acc s Hs.
    - cbn [fold_left map fst snd]. split; [reflexivity|exact Hs].
    - cbn [fold_left map].
      assert (Hstep : exists s', fold_fun name (naming name) root phi u (acc, s) c
                                 = (aadd A acc (term_of A (naming name) root phi u c (combos_for (naming name) c)), s')
                                 /\ cache_inv naming s').
      { unfold fold_fun.
        destruct (get_edge_inv naming s name c Hs) as [Hv Hi].
        destruct (get_edge_combinations s name (naming name) c) as [cmb s'] eqn:E. cbn [fst snd] in Hv, Hi.
        destruct c as [|v [|w c']].
        - exists s'. subst cmb. split; [reflexivity|exact Hi].
        - exists s. split; [reflexivity|exact Hs].
        - exists s'. subst cmb. split; [reflexivity|exact Hi]. }
      destruct Hstep as [s' [-> Hs']]. apply IH. exact Hs'.
  Qed.

  Lemma auto_step_unfold : forall st name g root phi u,
      auto_step A st name g root phi u =
      if negb (memb root (g_nodes g)) then (None, st)
      else let r := fold_left (fold_fun name g root phi u)
                              (fst (get_connected_subgraphs st name g root))
                              (a0 A, snd (get_connected_subgraphs st name g root)) in
           (Some (fst r), snd r).
  Proof.
    intros. unfold auto_step. destruct (negb (memb root (g_nodes g))); [reflexivity|].
    destruct (get_connected_subgraphs st name g root) as [comps st1]. cbn [fst snd].
    unfold fold_fun.
    destruct (fold_left _ comps (a0 A, st1)) as [acc st2]. reflexivity.
  Qed.

  (* value returned by a fresh evaluator *)
  Definition fresh_value (g : graph) (root : nat) (phi : T) (u : nat -> T) : option T :=
    if memb root (g_nodes g) then Some (auto_gen A g root phi u) else None.

  Lemma auto_step_inv : forall naming st name root phi u,
      cache_inv naming st ->
      fst (auto_step A st name (naming name) root phi u) = fresh_value (naming name) root phi u /\
      cache_inv naming (snd (auto_step A st name (naming name) root phi u)).
  Proof.
    intros naming st name root phi u Hst. rewrite auto_step_unfold. unfold fresh_value.
    destruct (memb root (g_nodes (naming name))); cbn [negb fst snd]; [|split; [reflexivity|exact Hst]].
    destruct (get_sub_inv naming st name root Hst) as [Hc Hi]. rewrite Hc.
    destruct (fold_inv naming name root phi u (enum (naming name) root) (a0 A) _ Hi) as [Hv Hi2].
    split; [|exact Hi2]. rewrite Hv. reflexivity.
  Qed.

  Lemma fresh_is_fresh : forall name g root phi u,
      fst (auto_step A caches_empty name g root phi u) = fresh_value g root phi u.
  Proof.
    intros name g root phi u.
    pose (naming := fun _ : mname => g).
    exact (proj1 (auto_step_inv naming caches_empty name root phi u (cache_inv_empty naming))).
  Qed.

  (* a call = (name, graph, root, phi, u); a history = list of calls on one evaluator *)
  Record call := mk_call { c_name : mname; c_graph : graph; c_root : nat; c_phi : T; c_u : nat -> T }.

  Fixpoint run_history (st : caches) (calls : list call) : list (option T) :=
    match calls with
    | [] => []
    | c :: rest =>
        let r := auto_step A st (c_name c) (c_graph c) (c_root c) (c_phi c) (c_u c) in
        fst r :: run_history (snd r) rest
    end.

  (* equal names denote equal motifs *)
  Definition distinctly_named (calls : list call) : Prop :=
    forall c1 c2, In c1 calls -> In c2 calls -> c_name c1 = c_name c2 -> c_graph c1 = c_graph c2.

  Lemma run_history_inv : forall naming calls st,
      cache_inv naming st ->
      (forall c, In c calls -> c_graph c = naming (c_name c)) ->
      run_history st calls
      = map (fun c => fst (auto_step A caches_empty (c_name c) (c_graph c) (c_root c) (c_phi c) (c_u c))) calls.
  Proof.
    intros naming. induction calls as [|c calls IH]; intros st Hst Hn; cbn [run_history map]; [reflexivity|].
    assert (Hg : c_graph c = naming (c_name c)) by (apply Hn; left; reflexivity).
    destruct (auto_step_inv naming st (c_name c) (c_root c) (c_phi c) (c_u c) Hst) as [Hv Hi].
    rewrite fresh_is_fresh. rewrite Hg at 1 2. rewrite Hv. rewrite <- Hg. f_equal.
    rewrite Hg at 1. apply IH; [exact Hi|]. intros c' Hc'. apply Hn. right. exact Hc'.
  Qed.

  Lemma naming_exists : forall calls, distinctly_named calls ->
      exists naming, forall c, In c calls -> c_graph c = naming (c_name c).
  Proof.
    induction calls as [|c calls IH]; intros Hd.
    - exists (fun _ => ([], [])). intros c [].
    - destruct IH as [nm Hnm].
      { intros c1 c2 H1 H2. apply Hd; right; assumption. }
      exists (fun n => if mname_eqb n (c_name c) then c_graph c else nm n).
      intros c' [<-|Hc'].
      + rewrite mname_eqb_refl. reflexivity.
      + destruct (mname_eqb (c_name c') (c_name c)) eqn:E.
        * apply mname_eqb_eq in E. apply Hd; [right; exact Hc'|left; reflexivity|exact E].
        * apply Hnm. exact Hc'.
  Qed.

  Theorem history_independent : forall calls,
      distinctly_named calls ->
      run_history caches_empty calls
      = map (fun c => fst (auto_step A caches_empty (c_name c) (c_graph c) (c_root c) (c_phi c) (c_u c))) calls.
  Proof.
    intros calls Hd. destruct (naming_exists calls Hd) as [naming Hn].
    apply (run_history_inv naming); [apply cache_inv_empty|exact Hn].
  Qed.
End History.

(* ================================================================== *)
(* 8. only the values of u on the motif's own vertices matter *)
Section Ext.
  Context {T : Type} (A : alg T).
  Lemma term_of_ext : forall g root phi u u' c combos,
      (forall v, In v (g_nodes g) -> u v = u' v) ->
      term_of A g root phi u c combos = term_of A g root phi u' c combos.
  Proof.
    intros g root phi u u' c combos Hu.
    assert (Hm : forall ec, map u (filter (fun v => negb (Nat.eqb v root)) (live_nodes (g_nodes g) ec))
                          = map u' (filter (fun v => negb (Nat.eqb v root)) (live_nodes (g_nodes g) ec))).
    { intros ec. apply map_ext_in. intros v Hv. apply filter_In in Hv. destruct Hv as [Hv _].
      unfold live_nodes in Hv. apply filter_In in Hv. apply Hu, Hv. }
    unfold term_of. destruct c as [|v [|w c']]; rewrite ?Hm; reflexivity.
  Qed.
  Lemma auto_gen_ext : forall g root phi u u',
      (forall v, In v (g_nodes g) -> u v = u' v) ->
      auto_gen A g root phi u = auto_gen A g root phi u'.
  Proof.
    intros g root phi u u' Hu. unfold auto_gen. f_equal. apply map_ext. intros c.
    apply term_of_ext, Hu.
  Qed.
  Lemma exact_rec_ext : forall nodes root phi u u',
      (forall v, In v nodes -> u v = u' v) ->
      forall es kept, exact_rec A nodes root phi u es kept = exact_rec A nodes root phi u' es kept.
  Proof.
    intros nodes root phi u u' Hu. induction es as [|e es IH]; intros kept; cbn [exact_rec].
    - f_equal. apply map_ext_in. intros v Hv. apply filter_In in Hv. destruct Hv as [Hv _].
      unfold comp in Hv. apply filter_In in Hv. apply Hu, Hv.
    - rewrite !IH. reflexivity.
  Qed.
  Lemma exact_gen_ext : forall g root phi u u',
      (forall v, In v (g_nodes g) -> u v = u' v) ->
      exact_gen A g root phi u = exact_gen A g root phi u'.
  Proof. intros. unfold exact_gen. apply exact_rec_ext. assumption. Qed.
End Ext.

(* from the boolean polynomial identity to the statement about all rational phi, u *)
Lemma peq_identity_lift : forall k es r,
    peq (auto_expr (seq 0 k, es) r) (exact_expr (seq 0 k, es) r) = true ->
    forall (phi : Q) (u : nat -> Q),
      (auto_q (seq 0 k, es) r phi u == expectation (seq 0 k, es) r phi u)%Q.
Proof.
  intros k es r Hp phi u.
  pose (env := env_of phi (map u (seq 0 k))).
  assert (Hu : forall v, In v (g_nodes (seq 0 k, es)) -> peval env (eu0 v) = u v).
  { intros v Hv. cbn [g_nodes fst] in Hv. apply in_seq in Hv. unfold env. rewrite peval_eu0.
    rewrite (nth_indep _ 0%Q (u 0)) by (rewrite map_length, seq_length; lia).
    rewrite map_nth, seq_nth by lia. reflexivity. }
  pose proof (peq_sound _ _ Hp env) as He.
  unfold auto_expr, exact_expr in He.
  rewrite (auto_gen_hom alg_pe alg_q (peval env) (peval_hom env)) in He.
  rewrite (exact_gen_hom alg_pe alg_q (peval env) (peval_hom env)) in He.
  rewrite (auto_gen_ext alg_q _ r _ _ u Hu) in He.
  rewrite (exact_gen_ext alg_q _ r _ _ u Hu) in He.
  change (peval env ephi0) with phi in He.
  unfold auto_q. rewrite He. apply expectation_rec.
Qed.

Lemma graphs_upto_in : forall n k es,
    k <= n -> In es (sublists (all_pairs k)) -> In (seq 0 k, es) (graphs_upto n).
Proof.
  intros n k es Hk He. unfold graphs_upto. apply in_flat_map. exists k. split.
  - apply in_seq. lia.
  - unfold graphs_on. apply (in_map (fun es0 => (seq 0 k, es0))). exact He.
Qed.

(* ================================================================== *)

(* ================================================================== *)
(* 9. related arithmetics compute related values (used for: reduced fractions in the extracted
   model, and compatibility of the rational model with Qeq) *)
Record alg_rel {S T} (A : alg S) (B : alg T) (R : S -> T -> Prop) : Prop := mk_rel {
  r_0 : R (a0 A) (a0 B);
  r_1 : R (a1 A) (a1 B);
  r_add : forall x x' y y', R x x' -> R y y' -> R (aadd A x y) (aadd B x' y');
  r_mul : forall x x' y y', R x x' -> R y y' -> R (amul A x y) (amul B x' y');
  r_sub : forall x x' y y', R x x' -> R y y' -> R (asub A x y) (asub B x' y');
  r_pow : forall x x' n, R x x' -> R (apow A x n) (apow B x' n) }.

Section Rel.
  Context {S T : Type} (A : alg S) (B : alg T) (R : S -> T -> Prop) (H : alg_rel A B R).

  Lemma fold_add_rel : forall l l', Forall2 R l l' -> forall acc acc', R acc acc' ->
      R (fold_left (aadd A) l acc) (fold_left (aadd B) l' acc').
  Proof.
    induction 1 as [|x x' l l' Hx Hl IH]; intros acc acc' Hacc; cbn [fold_left]; [exact Hacc|].
    apply IH. apply (r_add _ _ _ H); assumption.
  Qed.
  Lemma fold_mul_rel : forall l l', Forall2 R l l' -> forall acc acc', R acc acc' ->
      R (fold_left (amul A) l acc) (fold_left (amul B) l' acc').
  Proof.
    induction 1 as [|x x' l l' Hx Hl IH]; intros acc acc' Hacc; cbn [fold_left]; [exact Hacc|].
    apply IH. apply (r_mul _ _ _ H); assumption.
  Qed.
  Lemma Forall2_map_rel : forall {X} (f : X -> S) (f' : X -> T) l,
      (forall x, R (f x) (f' x)) -> Forall2 R (map f l) (map f' l).
  Proof. intros X f f' l Hf. induction l; cbn [map]; constructor; auto. Qed.

  Lemma term_of_rel : forall g root phi phi' u u' c combos,
      R phi phi' -> (forall v, R (u v) (u' v)) ->
      R (term_of A g root phi u c combos) (term_of B g root phi' u' c combos).
  Proof.
    intros g root phi phi' u u' c combos Hphi Hu.
    assert (H1m : R (asub A (a1 A) phi) (asub B (a1 B) phi')).
    { apply (r_sub _ _ _ H); [apply (r_1 _ _ _ H)|exact Hphi]. }
    assert (Hgen : forall ec ni,
      R (asum A (map (fun n => amul A (amul A (amul A (apow A phi (length ec - n))
                 (apow A (asub A (a1 A) phi) n)) (apow A (asub A (a1 A) phi) ni))
                 (aprod A (map u (filter (fun v => negb (Nat.eqb v root)) (live_nodes (g_nodes g) ec))))) combos))
        (asum B (map (fun n => amul B (amul B (amul B (apow B phi' (length ec - n))
                 (apow B (asub B (a1 B) phi') n)) (apow B (asub B (a1 B) phi') ni))
                 (aprod B (map u' (filter (fun v => negb (Nat.eqb v root)) (live_nodes (g_nodes g) ec))))) combos))).
    { intros ec ni. unfold asum. apply fold_add_rel; [|apply (r_0 _ _ _ H)].
      apply Forall2_map_rel. intros n.
      apply (r_mul _ _ _ H); [apply (r_mul _ _ _ H); [apply (r_mul _ _ _ H)|]|].
      1-3: apply (r_pow _ _ _ H); assumption.
      unfold aprod. apply fold_mul_rel; [|apply (r_1 _ _ _ H)].
      apply Forall2_map_rel. exact Hu. }
    unfold term_of. destruct c as [|v [|w c']].
    - apply Hgen.
    - apply (r_pow _ _ _ H). exact H1m.
    - apply Hgen.
  Qed.

  Lemma auto_gen_rel : forall g root phi phi' u u',
      R phi phi' -> (forall v, R (u v) (u' v)) ->
      R (auto_gen A g root phi u) (auto_gen B g root phi' u').
  Proof.
    intros. unfold auto_gen, asum. apply fold_add_rel; [|apply (r_0 _ _ _ H)].
    apply Forall2_map_rel. intros c. apply term_of_rel; assumption.
  Qed.

  Lemma exact_rec_rel : forall nodes root phi phi' u u',
      R phi phi' -> (forall v, R (u v) (u' v)) ->
      forall es kept, R (exact_rec A nodes root phi u es kept) (exact_rec B nodes root phi' u' es kept).
  Proof.
    intros nodes root phi phi' u u' Hphi Hu. induction es as [|e es IH]; intros kept; cbn [exact_rec].
    - unfold aprod. apply fold_mul_rel; [|apply (r_1 _ _ _ H)].
      apply Forall2_map_rel. exact Hu.
    - apply (r_add _ _ _ H); apply (r_mul _ _ _ H); try apply IH; try assumption.
      apply (r_sub _ _ _ H); [apply (r_1 _ _ _ H)|exact Hphi].
  Qed.
  Lemma exact_gen_rel : forall g root phi phi' u u',
      R phi phi' -> (forall v, R (u v) (u' v)) ->
      R (exact_gen A g root phi u) (exact_gen B g root phi' u').
  Proof. intros. unfold exact_gen. apply exact_rec_rel; assumption. Qed.
End Rel.

Lemma alg_q_proper : alg_rel alg_q alg_q Qeq.
Proof.
  constructor; cbn [alg_q a0 a1 aadd amul asub apow]; try reflexivity.
  - intros x x' y y' Hx Hy. rewrite Hx, Hy. reflexivity.
  - intros x x' y y' Hx Hy. rewrite Hx, Hy. reflexivity.
  - intros x x' y y' Hx Hy. rewrite Hx, Hy. reflexivity.
  - intros x x' n Hx. rewrite Hx. reflexivity.
Qed.
Lemma alg_qr_q : alg_rel alg_qr alg_q Qeq.
Proof.
  constructor; cbn [alg_qr alg_q a0 a1 aadd amul asub apow]; try reflexivity.
  - intros x x' y y' Hx Hy. rewrite Qred_correct, Hx, Hy. reflexivity.
  - intros x x' y y' Hx Hy. rewrite Hx, Hy. reflexivity.
  - intros x x' y y' Hx Hy. rewrite Hx, Hy. reflexivity.
  - intros x x' n Hx. rewrite Hx. reflexivity.
Qed.

Lemma expectation_proper : forall g r phi phi' u u',
    (phi == phi')%Q -> (forall v, (u v == u' v)%Q) ->
    (expectation g r phi u == expectation g r phi' u')%Q.
Proof.
  intros g r phi phi' u u' Hphi Hu. rewrite <- !expectation_rec.
  apply (exact_gen_rel alg_q alg_q Qeq alg_q_proper); assumption.
Qed.

(* the lifting for a motif with arbitrary vertex labels (used by C17) *)
Lemma peq_identity_lift_gen : forall g r,
    peq (auto_expr g r) (exact_expr g r) = true ->
    forall (phi : Q) (u : nat -> Q), (auto_q g r phi u == expectation g r phi u)%Q.
Proof.
  intros g r Hp phi u.
  pose (n := S (list_max (g_nodes g))).
  pose (env := env_of phi (map u (seq 0 n))).
  assert (Hu : forall v, In v (g_nodes g) -> peval env (eu0 v) = u v).
  { intros v Hv.
    assert (Hle : v <= list_max (g_nodes g)).
    { pose proof (proj1 (list_max_le (g_nodes g) (list_max (g_nodes g))) (le_n _)) as Hf.
      rewrite Forall_forall in Hf. apply Hf, Hv. }
    unfold env. rewrite peval_eu0.
    rewrite (nth_indep _ 0%Q (u 0)) by (rewrite map_length, seq_length; unfold n; lia).
    rewrite map_nth, seq_nth by (unfold n; lia). reflexivity. }
  pose proof (peq_sound _ _ Hp env) as He.
  unfold auto_expr, exact_expr in He.
  rewrite (auto_gen_hom alg_pe alg_q (peval env) (peval_hom env)) in He.
  rewrite (exact_gen_hom alg_pe alg_q (peval env) (peval_hom env)) in He.
  rewrite (auto_gen_ext alg_q _ r _ _ u Hu) in He.
  rewrite (exact_gen_ext alg_q _ r _ _ u Hu) in He.
  change (peval env ephi0) with phi in He.
  unfold auto_q. rewrite He. apply expectation_rec.
Qed.

(* ================================================================== *)
(* 10. the edge combinations of a component do not depend on the root: a table shared by all roots
   of a graph (used to make the reflection over all graphs cheaper; pure optimisation) *)
Definition combos_tbl (g : graph) : list (list nat * list nat) :=
  map (fun s => (s, combos_for g s)) (sublists (g_nodes g)).
Definition tbl_combos (tbl : list (list nat * list nat)) (g : graph) (c : list nat) : list nat :=
  match find (fun e => same_setb c (fst e)) tbl with Some e => snd e | None => combos_for g c end.
Definition auto_tbl {T} (A : alg T) (tbl : list (list nat * list nat)) (g : graph) (root : nat) (phi : T) (u : nat -> T) : T :=
  asum A (map (fun c => term_of A g root phi u c (tbl_combos tbl g c)) (enum g root)).

Lemma memb_subsetb : forall a b v, subsetb a b = true -> memb v a = true -> memb v b = true.
Proof.
  intros a b v Hs Hv. unfold subsetb in Hs. rewrite forallb_forall in Hs.
  unfold memb in Hv. apply existsb_exists in Hv. destruct Hv as [x [Hx Hvx]].
  apply Nat.eqb_eq in Hvx. subst x. apply Hs, Hx.
Qed.
Lemma same_setb_memb : forall a b, same_setb a b = true -> forall v, memb v a = memb v b.
Proof.
  intros a b Hs v. unfold same_setb in Hs. apply andb_true_iff in Hs. destruct Hs as [Hab Hba].
  destruct (memb v a) eqn:Ea, (memb v b) eqn:Eb; auto.
  - rewrite (memb_subsetb a b v Hab Ea) in Eb. discriminate.
  - rewrite (memb_subsetb b a v Hba Eb) in Ea. discriminate.
Qed.
Lemma combos_for_same_set : forall g c s, same_setb c s = true -> combos_for g c = combos_for g s.
Proof.
  intros g c s Hs. unfold combos_for.
  assert (E : internal_edges (g_edges g) c = internal_edges (g_edges g) s).
  { unfold internal_edges. apply filter_ext. intros e. unfold in_c. rewrite !(same_setb_memb c s Hs). reflexivity. }
  rewrite E. reflexivity.
Qed.
Lemma tbl_combos_ok : forall g c, tbl_combos (combos_tbl g) g c = combos_for g c.
Proof.
  intros g c. unfold tbl_combos. destruct (find _ (combos_tbl g)) as [e|] eqn:F; [|reflexivity].
  apply find_some in F. destruct F as [Hin Hs]. unfold combos_tbl in Hin. apply in_map_iff in Hin.
  destruct Hin as [s [<- _]]. cbn [fst snd] in *. symmetry. apply combos_for_same_set, Hs.
Qed.
Lemma auto_tbl_ok : forall {T} (A : alg T) g root phi u,
    auto_tbl A (combos_tbl g) g root phi u = auto_gen A g root phi u.
Proof.
  intros. unfold auto_tbl, auto_gen. f_equal. apply map_ext. intros c. rewrite tbl_combos_ok. reflexivity.
Qed.


Lemma in_combine_map : forall {X Y} (f : X -> Y) (l : list X) x, In x l -> In (x, f x) (combine l (map f l)).
Proof.
  intros X Y f. induction l as [|y l IH]; intros x Hx; [contradiction|].
  cbn [map combine]. destruct Hx as [<-|Hx]; [left; reflexivity|right; apply IH, Hx].
Qed.
Lemma filter_map_length : forall {X Y} (p : Y -> bool) (f : X -> Y) l,
    length (filter p (map f l)) = length (filter (fun x => p (f x)) l).
Proof.
  intros X Y p f. induction l as [|x l IH]; [reflexivity|]. cbn [map filter].
  destruct (p (f x)); cbn [length]; rewrite IH; reflexivity.
Qed.

(* ################################################################## *)
(* 11. monotonicity of the expectation (used by C17_monotone) *)
Local Open Scope nat_scope.
(* ================================================================== *)
(* A. reachability is monotone in the edge set *)
Definition sub (a b : list nat) : Prop := forall v, memb v a = true -> memb v b = true.
Definition step (es : list edge) (seen : list nat) : list nat :=
  fold_left (fun acc v => unionv acc (nbrs es v)) seen seen.

Lemma memb_app : forall v a b, memb v (a ++ b) = memb v a || memb v b.
Proof. intros. unfold memb. apply existsb_app. Qed.
Lemma memb_addv : forall v w l, memb v (addv w l) = Nat.eqb v w || memb v l.
Proof.
  intros v w l. unfold addv. destruct (memb w l) eqn:E.
  - destruct (Nat.eqb v w) eqn:Evw; [|reflexivity]. apply Nat.eqb_eq in Evw. subst. rewrite E. reflexivity.
  - rewrite memb_app. cbn. rewrite orb_false_r. apply orb_comm.
Qed.
Lemma memb_unionv : forall b a v, memb v (unionv a b) = memb v a || memb v b.
Proof.
  unfold unionv. induction b as [|x b IH]; intros a v; cbn [fold_left].
  - cbn. rewrite orb_false_r. reflexivity.
  - rewrite IH, memb_addv. cbn [memb existsb]. destruct (Nat.eqb v x), (memb v a); reflexivity.
Qed.
Lemma memb_fold_union : forall es l acc v,
    memb v (fold_left (fun acc w => unionv acc (nbrs es w)) l acc)
    = memb v acc || existsb (fun w => memb v (nbrs es w)) l.
Proof.
  intros es. induction l as [|x l IH]; intros acc v; cbn [fold_left existsb].
  - rewrite orb_false_r. reflexivity.
  - rewrite IH, memb_unionv. rewrite orb_assoc. reflexivity.
Qed.
Lemma memb_step : forall es seen v,
    memb v (step es seen) = memb v seen || existsb (fun w => memb v (nbrs es w)) seen.
Proof. intros. apply memb_fold_union. Qed.

Lemma addv_len : forall v l, length l <= length (addv v l) /\ (length (addv v l) = length l -> addv v l = l).
Proof.
  intros v l. unfold addv. destruct (memb v l); [split; auto|].
  rewrite app_length. cbn [length]. split; [lia|intros; lia].
Qed.
Lemma unionv_len : forall b a, length a <= length (unionv a b) /\ (length (unionv a b) = length a -> unionv a b = a).
Proof.
  unfold unionv. induction b as [|x b IH]; intros a; cbn [fold_left]; [split; auto|].
  destruct (addv_len x a) as [L1 E1]. destruct (IH (addv x a)) as [L2 E2].
  split; [lia|]. intros Hlen.
  assert (Ha : length (addv x a) = length a) by lia.
  rewrite E2 by lia. apply E1, Ha.
Qed.
Lemma fold_union_len : forall es l acc,
    length acc <= length (fold_left (fun acc w => unionv acc (nbrs es w)) l acc)
    /\ (length (fold_left (fun acc w => unionv acc (nbrs es w)) l acc) = length acc ->
        fold_left (fun acc w => unionv acc (nbrs es w)) l acc = acc).
Proof.
  intros es. induction l as [|x l IH]; intros acc; cbn [fold_left]; [split; auto|].
  destruct (unionv_len (nbrs es x) acc) as [L1 E1]. destruct (IH (unionv acc (nbrs es x))) as [L2 E2].
  split; [lia|]. intros Hlen.
  assert (Ha : length (unionv acc (nbrs es x)) = length acc) by lia.
  rewrite E2 by lia. apply E1, Ha.
Qed.

Lemma reach_unfold : forall f es seen,
    reach (S f) es seen = if Nat.eqb (length (step es seen)) (length seen) then seen else reach f es (step es seen).
Proof. reflexivity. Qed.

Lemma memb_nbrs_mono : forall es1 es2 w v,
    (forall e, In e es1 -> In e es2) -> memb v (nbrs es1 w) = true -> memb v (nbrs es2 w) = true.
Proof.
  intros es1 es2 w v Hsub Hv. unfold memb in *. apply existsb_exists in Hv. destruct Hv as [x [Hx Hvx]].
  apply existsb_exists. exists x. split; [|exact Hvx].
  unfold nbrs in *. apply in_flat_map in Hx. destruct Hx as [e [He Hx]].
  apply in_flat_map. exists e. split; [apply Hsub, He|exact Hx].
Qed.

Lemma step_mono : forall es1 es2 s1 s2,
    (forall e, In e es1 -> In e es2) -> sub s1 s2 -> sub (step es1 s1) (step es2 s2).
Proof.
  intros es1 es2 s1 s2 He Hs v Hv. rewrite memb_step in *. apply orb_true_iff in Hv.
  apply orb_true_iff. destruct Hv as [Hv|Hv]; [left; apply Hs, Hv|right].
  apply existsb_exists in Hv. destruct Hv as [w [Hw Hvw]]. apply existsb_exists.
  exists w. split.
  - assert (Hm : memb w s1 = true) by (unfold memb; apply existsb_exists; exists w; split; [exact Hw|apply Nat.eqb_refl]).
    apply Hs in Hm. unfold memb in Hm. apply existsb_exists in Hm. destruct Hm as [w' [Hw' E]].
    apply Nat.eqb_eq in E. subst w'. exact Hw'.
  - apply (memb_nbrs_mono es1 es2); assumption.
Qed.

Lemma step_ext : forall es s, sub s (step es s).
Proof. intros es s v Hv. rewrite memb_step, Hv. reflexivity. Qed.
Lemma reach_ext : forall f es s, sub s (reach f es s).
Proof.
  induction f as [|f IH]; intros es s v Hv; [exact Hv|]. rewrite reach_unfold.
  destruct (Nat.eqb _ _); [exact Hv|]. apply IH, step_ext, Hv.
Qed.

(* a set closed under es2 absorbs every run over fewer edges started inside it *)
Lemma reach_in_closed : forall f es1 es2 s C,
    (forall e, In e es1 -> In e es2) -> step es2 C = C -> sub s C -> sub (reach f es1 s) C.
Proof.
  induction f as [|f IH]; intros es1 es2 s C He HC Hs; [exact Hs|]. rewrite reach_unfold.
  destruct (Nat.eqb _ _); [exact Hs|]. apply (IH es1 es2); [exact He|exact HC|].
  rewrite <- HC. apply step_mono; assumption.
Qed.

Lemma reach_mono : forall f es1 es2 s1 s2,
    (forall e, In e es1 -> In e es2) -> sub s1 s2 -> sub (reach f es1 s1) (reach f es2 s2).
Proof.
  induction f as [|f IH]; intros es1 es2 s1 s2 He Hs; [exact Hs|].
  rewrite (reach_unfold f es2 s2).
  destruct (Nat.eqb (length (step es2 s2)) (length s2)) eqn:E2.
  - apply Nat.eqb_eq in E2. apply (proj2 (fold_union_len es2 s2 s2)) in E2. fold (step es2 s2) in E2.
    apply (reach_in_closed (S f) es1 es2); assumption.
  - rewrite (reach_unfold f es1 s1). destruct (Nat.eqb (length (step es1 s1)) (length s1)) eqn:E1.
    + intros v Hv. apply reach_ext, step_ext, Hs, Hv.
    + apply IH; [exact He|]. apply step_mono; assumption.
Qed.

Lemma sub_refl : forall s, sub s s.
Proof. intros s v H. exact H. Qed.

(* ================================================================== *)
(* B. products over filtered lists *)
Local Open Scope Q_scope.

Lemma qprod_acc : forall l a, fold_left Qmult l a == a * qprod l.
Proof.
  unfold qprod. induction l as [|x l IH]; intros a; cbn [fold_left]; [ring|].
  rewrite IH, (IH (1 * x)). ring.
Qed.
Lemma qprod_cons : forall x l, qprod (x :: l) == x * qprod l.
Proof. intros. unfold qprod at 1. cbn [fold_left]. rewrite qprod_acc. ring. Qed.
Lemma qprod_nil : qprod [] == 1.
Proof. reflexivity. Qed.

(* more factors from [0,1] make the product smaller; larger factors make it larger *)
Lemma qprod_filter_mono : forall (u u' : nat -> Q) (p p' : nat -> bool) l,
    (forall v, 0 <= u' v <= u v) -> (forall v, u v <= 1) ->
    (forall v, p v = true -> p' v = true) ->
    0 <= qprod (map u' (filter p' l)) <= qprod (map u (filter p l)) /\ qprod (map u (filter p l)) <= 1.
Proof.
  intros u u' p p' l Hu Hu1 Hp. induction l as [|x l IH]; cbn [filter map].
  - rewrite qprod_nil. lra.
  - destruct IH as [[I0 I1] I2]. pose proof (Hu x) as Hx. pose proof (Hu1 x) as Hx1.
    destruct (p x) eqn:Ep.
    + rewrite (Hp x Ep). cbn [map]. rewrite !qprod_cons. nra.
    + destruct (p' x); cbn [map]; rewrite ?qprod_cons; nra.
Qed.

Lemma filter_filter_and : forall {X} (p q : X -> bool) l, filter q (filter p l) = filter (fun x => p x && q x) l.
Proof.
  intros X p q. induction l as [|x l IH]; [reflexivity|]. cbn [filter].
  destruct (p x); cbn [filter andb]; [destruct (q x)|]; rewrite IH; reflexivity.
Qed.

(* ================================================================== *)
(* C. the expectation: decreasing in the kept edges and in phi, increasing in u *)
Definition esub (k1 k2 : list edge) : Prop := forall e, In e k1 -> In e k2.

Lemma leaf_mono : forall nodes root (u u' : nat -> Q) k1 k2,
    (forall v, 0 <= u' v <= u v) -> (forall v, u v <= 1) -> esub k1 k2 ->
    0 <= qprod (map u' (filter (fun v => negb (Nat.eqb v root)) (comp nodes k2 root)))
      <= qprod (map u (filter (fun v => negb (Nat.eqb v root)) (comp nodes k1 root))) /\
    qprod (map u (filter (fun v => negb (Nat.eqb v root)) (comp nodes k1 root))) <= 1.
Proof.
  intros nodes root u u' k1 k2 Hu Hu1 Hk. unfold comp. rewrite !filter_filter_and.
  apply qprod_filter_mono; [exact Hu|exact Hu1|].
  intros v Hv. apply andb_true_iff in Hv. destruct Hv as [Hm Hr]. apply andb_true_iff. split; [|exact Hr].
  apply (reach_mono (length nodes) k1 k2 [root] [root] Hk (sub_refl _)), Hm.
Qed.

(* joint monotonicity: more kept edges, larger phi, smaller u  =>  smaller value *)
Lemma exact_rec_mono : forall nodes root (phi phi' : Q) (u u' : nat -> Q),
    0 <= phi -> phi <= phi' -> phi' <= 1 ->
    (forall v, 0 <= u' v <= u v) -> (forall v, u v <= 1) ->
    forall es k1 k2, esub k1 k2 ->
      0 <= exact_rec alg_q nodes root phi' u' es k2 <= exact_rec alg_q nodes root phi u es k1
      /\ exact_rec alg_q nodes root phi u es k1 <= 1.
Proof.
  intros nodes root phi phi' u u' H0 Hpp H1 Hu Hu1. induction es as [|e es IH]; intros k1 k2 Hk; cbn [exact_rec].
  - unfold aprod. cbn [alg_q amul a1]. apply leaf_mono; assumption.
  - cbn [alg_q aadd amul asub a1].
    assert (Hk11 : esub (k1 ++ [e]) (k2 ++ [e])).
    { intros x Hx. apply in_app_or in Hx. apply in_or_app. destruct Hx as [Hx|Hx]; [left; apply Hk, Hx|right; exact Hx]. }
    assert (Hk01 : esub k1 (k1 ++ [e])) by (intros x Hx; apply in_or_app; left; exact Hx).
    destruct (IH (k1 ++ [e]) (k2 ++ [e]) Hk11) as [[A0 A1] A2].
    destruct (IH k1 k2 Hk) as [[B0 B1] B2].
    (* at (phi, u): adding e to the kept edges can only decrease *)
    assert (Hsame : exact_rec alg_q nodes root phi u es (k1 ++ [e]) <= exact_rec alg_q nodes root phi u es k1).
    { clear A0 A1 A2 B0 B1 B2 IH Hk11.
      assert (G : forall es k1 k2, esub k1 k2 ->
                 0 <= exact_rec alg_q nodes root phi u es k2 <= exact_rec alg_q nodes root phi u es k1
                 /\ exact_rec alg_q nodes root phi u es k1 <= 1).
      { clear es k1 k2 Hk Hk01. induction es as [|e' es IH']; intros k1 k2 Hk; cbn [exact_rec].
        - unfold aprod. cbn [alg_q amul a1]. apply leaf_mono; try assumption.
          intros v. specialize (Hu v). lra.
        - cbn [alg_q aadd amul asub a1].
          assert (Hk11 : esub (k1 ++ [e']) (k2 ++ [e'])).
          { intros x Hx. apply in_app_or in Hx. apply in_or_app. destruct Hx as [Hx|Hx]; [left; apply Hk, Hx|right; exact Hx]. }
          destruct (IH' (k1 ++ [e']) (k2 ++ [e']) Hk11) as [[A0 A1] A2].
          destruct (IH' k1 k2 Hk) as [[B0 B1] B2].
          assert (Hphi1 : phi <= 1) by lra. nra. }
      apply (G es k1 (k1 ++ [e]) Hk01). }
    set (A' := exact_rec alg_q nodes root phi' u' es (k2 ++ [e])) in *.
    set (A := exact_rec alg_q nodes root phi u es (k1 ++ [e])) in *.
    set (B' := exact_rec alg_q nodes root phi' u' es k2) in *.
    set (B := exact_rec alg_q nodes root phi u es k1) in *.
    assert (Hphi1 : phi <= 1) by lra. assert (Hphi'0 : 0 <= phi') by lra.
    split; [split|]; nra.
Qed.

Theorem expectation_mono : forall g r (phi phi' : Q) (u u' : nat -> Q),
    0 <= phi -> phi <= phi' -> phi' <= 1 ->
    (forall v, 0 <= u' v <= u v) -> (forall v, u v <= 1) ->
    expectation g r phi' u' <= expectation g r phi u.
Proof.
  intros g r phi phi' u u' H0 Hpp H1 Hu Hu1. rewrite <- !expectation_rec. unfold exact_gen.
  apply (exact_rec_mono (g_nodes g) r phi phi' u u' H0 Hpp H1 Hu Hu1 (g_edges g) [] []).
  intros e He. exact He.
Qed.

Local Close Scope Q_scope.
Local Open Scope nat_scope.
(* ================================================================== *)
(* 12. the backtracking enumeration, for graphs of any size and any iteration-order schedule *)
Lemma memb_In : forall v l, memb v l = true <-> In v l.
Proof.
  intros v l. unfold memb. rewrite existsb_exists. split.
  - intros [x [Hx E]]. apply Nat.eqb_eq in E. subst. exact Hx.
  - intros H. exists v. split; [exact H|apply Nat.eqb_refl].
Qed.
Lemma memb_diffv : forall v a b, memb v (diffv a b) = memb v a && negb (memb v b).
Proof.
  intros v a b. unfold diffv. induction a as [|x a IH]; [reflexivity|]. cbn [filter].
  destruct (memb x b) eqn:E; cbn [negb].
  - rewrite IH. cbn [memb existsb]. fold (memb v a). destruct (Nat.eqb v x) eqn:Evx; [|reflexivity].
    apply Nat.eqb_eq in Evx. subst. rewrite E. cbn. rewrite andb_false_r. reflexivity.
  - cbn [memb existsb]. fold (memb v a) (memb v (filter (fun v0 => negb (memb v0 b)) a)). rewrite IH.
    destruct (Nat.eqb v x) eqn:Evx; [|reflexivity].
    apply Nat.eqb_eq in Evx. subst. rewrite E. reflexivity.
Qed.
Lemma same_setb_iff : forall a b, same_setb a b = true <-> (sub a b /\ sub b a).
Proof.
  intros a b. unfold same_setb, subsetb, sub. rewrite andb_true_iff, !forallb_forall. split.
  - intros [H1 H2]. split; intros v Hv; [apply H1|apply H2]; apply memb_In, Hv.
  - intros [H1 H2]. split; intros v Hv; [apply H1|apply H2]; apply memb_In, Hv.
Qed.
Lemma NoDup_addv : forall v l, NoDup l -> NoDup (addv v l).
Proof.
  intros v l Hl. unfold addv. destruct (memb v l) eqn:E; [exact Hl|].
  apply (Permutation_NoDup (Permutation_cons_append l v)). constructor; [|exact Hl].
  intros Hin. apply memb_In in Hin. congruence.
Qed.
Lemma NoDup_unionv : forall b a, NoDup a -> NoDup (unionv a b).
Proof. unfold unionv. induction b as [|x b IH]; intros a Ha; cbn [fold_left]; [exact Ha|]. apply IH, NoDup_addv, Ha. Qed.
Lemma NoDup_diffv : forall a b, NoDup a -> NoDup (diffv a b).
Proof. intros. unfold diffv. apply NoDup_filter. assumption. Qed.

Definition cnt (T : list nat) (out : list (list nat)) : nat := length (filter (same_setb T) out).
Lemma cnt_app : forall T a b, cnt T (a ++ b) = cnt T a + cnt T b.
Proof. intros. unfold cnt. rewrite filter_app, app_length. reflexivity. Qed.
Lemma cnt_cons : forall T c out, cnt T (c :: out) = (if same_setb T c then 1 else 0) + cnt T out.
Proof. intros. unfold cnt. cbn [filter]. destruct (same_setb T c); reflexivity. Qed.

Section Enum.
  Variables (ord : list nat -> list nat) (es : list edge) (nodes : list nat) (root : nat).
  Hypothesis Hord : forall l, Permutation (ord l) l.
  Let maxsize := length nodes.

  (* vertex lists grown from the root by repeatedly adding a vertex adjacent to the list *)
  Definition inN (S : list nat) (v : nat) : Prop := exists w, memb w S = true /\ memb v (nbrs es w) = true.
  Inductive grown : list nat -> Prop :=
  | g_root : grown [root]
  | g_add : forall S j, grown S -> memb j S = false -> inN S j -> grown (addv j S).

  Lemma grown_root : forall S, grown S -> memb root S = true.
  Proof.
    induction 1 as [|S j HS IH Hj HN]; [cbn; rewrite Nat.eqb_refl; reflexivity|].
    rewrite memb_addv, IH. apply orb_true_r.
  Qed.
  Lemma grown_NoDup : forall S, grown S -> NoDup S.
  Proof. induction 1; [repeat constructor; intros []|apply NoDup_addv; assumption]. Qed.

  (* a grown list not inside S has a vertex outside S adjacent to S (S containing the root) *)
  Lemma grown_exit : forall T, grown T -> forall S, memb root S = true -> ~ sub T S ->
      exists j, memb j T = true /\ memb j S = false /\ inN S j.
  Proof.
    induction 1 as [|T0 j HT IH Hj HN]; intros S Hr Hns.
    - exfalso. apply Hns. intros v Hv. cbn in Hv. rewrite orb_false_r in Hv. apply Nat.eqb_eq in Hv. subst. exact Hr.
    - destruct (subsetb T0 S) eqn:E.
      + assert (HT0 : sub T0 S).
        { intros v Hv. unfold subsetb in E. rewrite forallb_forall in E. apply E, memb_In, Hv. }
        exists j. split; [rewrite memb_addv, Nat.eqb_refl; reflexivity|]. split.
        * destruct (memb j S) eqn:Ej; [|reflexivity]. exfalso. apply Hns. intros v Hv.
          rewrite memb_addv in Hv. apply orb_true_iff in Hv. destruct Hv as [Hv|Hv]; [apply Nat.eqb_eq in Hv; subst; exact Ej|apply HT0, Hv].
        * destruct HN as [w [Hw Hjw]]. exists w. split; [apply HT0, Hw|exact Hjw].
      + destruct (IH S Hr) as [j' [H1 [H2 H3]]].
        { intros Hs. unfold subsetb in E. assert (forallb (fun v => memb v S) T0 = true); [|congruence].
          apply forallb_forall. intros v Hv. apply Hs, memb_In, Hv. }
        exists j'. split; [rewrite memb_addv, H1; apply orb_true_r|split; assumption].
  Qed.

  (* the inner loop as a function of its own *)
  Fixpoint enum_loop (rec : list nat -> list nat -> list nat -> list (list nat)) (subl poss : list nat)
           (cands excl : list nat) : list (list nat) :=
    match cands with
    | [] => []
    | j :: cs => let excl' := addv j excl in
                 rec (addv j subl) (diffv (unionv poss (nbrs es j)) excl') excl' ++ enum_loop rec subl poss cs excl'
    end.
  Lemma enum_rec_S : forall f subl poss excl,
      enum_rec ord (S f) es maxsize subl poss excl
      = subl :: (if Nat.eqb (length subl) maxsize then []
                 else enum_loop (enum_rec ord f es maxsize) subl poss (ord (diffv poss excl)) excl).
  Proof.
    intros f subl poss excl. cbn [enum_rec]. f_equal.
    destruct (Nat.eqb (length subl) maxsize); [reflexivity|].
    generalize (ord (diffv poss excl)). intros cands. generalize excl.
    induction cands as [|j cs IH]; intros ex; [reflexivity|].
    cbn [enum_loop]. rewrite <- IH. reflexivity.
  Qed.
  Lemma enum_rec_0 : forall subl poss excl, enum_rec ord 0 es maxsize subl poss excl = [subl].
  Proof. reflexivity. Qed.

  Definition Cond (subl excl T : list nat) : Prop :=
    sub subl T /\ (forall v, memb v T = true -> memb v excl = true -> memb v subl = true).
  Definition Inv (subl poss excl : list nat) : Prop :=
    grown subl /\ sub subl excl
    /\ (forall v, memb v poss = true <-> (inN subl v /\ memb v excl = false)) /\ NoDup poss.

  Lemma length_addv_new : forall j l, memb j l = false -> length (addv j l) = S (length l).
  Proof. intros j l H. unfold addv. rewrite H, app_length. cbn. lia. Qed.

  Lemma Inv_step : forall subl poss excl0 ex j,
      Inv subl poss excl0 -> sub excl0 ex -> memb j poss = true -> memb j ex = false ->
      Inv (addv j subl) (diffv (unionv poss (nbrs es j)) (addv j ex)) (addv j ex) /\ memb j subl = false.
  Proof.
    intros subl poss excl0 ex j [Hg [Hse [Hp Hnd]]] Hex Hjp Hjx.
    assert (Hjs : memb j subl = false).
    { destruct (memb j subl) eqn:E; [|reflexivity]. apply Hse, Hex in E. congruence. }
    split; [|exact Hjs]. split; [|split; [|split]].
    - apply g_add; [exact Hg|exact Hjs|apply Hp, Hjp].
    - intros v Hv. rewrite memb_addv in Hv. rewrite memb_addv. apply orb_true_iff in Hv. destruct Hv as [Hv|Hv]; [rewrite Hv; reflexivity|].
      rewrite (Hex v (Hse v Hv)). apply orb_true_r.
    - intros v. rewrite memb_diffv, memb_unionv. split.
      + intros H. apply andb_true_iff in H. destruct H as [H1 H2]. apply negb_true_iff in H2.
        split; [|exact H2]. apply orb_true_iff in H1. destruct H1 as [H1|H1].
        * apply Hp in H1. destruct H1 as [[w [Hw Hvw]] _]. exists w. split; [rewrite memb_addv, Hw; apply orb_true_r|exact Hvw].
        * exists j. split; [rewrite memb_addv, Nat.eqb_refl; reflexivity|exact H1].
      + intros [[w [Hw Hvw]] Hx]. rewrite Hx. cbn [negb]. rewrite andb_true_r. rewrite memb_addv in Hx.
        rewrite memb_addv in Hw. apply orb_true_iff in Hw. apply orb_true_iff. destruct Hw as [Hw|Hw].
        * apply Nat.eqb_eq in Hw. subst w. right. exact Hvw.
        * left. apply Hp. split; [exists w; split; assumption|].
          apply orb_false_iff in Hx. destruct Hx as [_ Hx].
          destruct (memb v excl0) eqn:E; [|reflexivity]. apply Hex in E. congruence.
    - apply NoDup_diffv, NoDup_unionv, Hnd.
  Qed.

  Section Step.
    Variable f : nat.
    Hypothesis IHf : forall subl poss excl, Inv subl poss excl -> f + length subl = maxsize + 1 ->
      forall T, grown T -> (forall v, memb v T = true -> In v nodes) ->
        (Cond subl excl T -> cnt T (enum_rec ord f es maxsize subl poss excl) = 1) /\
        (~ Cond subl excl T -> cnt T (enum_rec ord f es maxsize subl poss excl) = 0).

    Lemma loop_count : forall subl poss excl0, Inv subl poss excl0 -> f + S (length subl) = maxsize + 1 ->
      forall T, grown T -> (forall v, memb v T = true -> In v nodes) ->
      forall cs ex, NoDup cs -> (forall j, In j cs -> memb j poss = true /\ memb j ex = false) -> sub excl0 ex ->
        (Cond subl ex T -> cnt T (enum_loop (enum_rec ord f es maxsize) subl poss cs ex)
                           = if existsb (fun j => memb j T) cs then 1 else 0) /\
        (~ Cond subl ex T -> cnt T (enum_loop (enum_rec ord f es maxsize) subl poss cs ex) = 0).
    Proof.
      intros subl poss excl0 HI Hlen T HT HTn. induction cs as [|j cs IH]; intros ex Hnd Hcs Hex.
      - split; intros _; reflexivity.
      - cbn [enum_loop existsb]. rewrite cnt_app.
        assert (Hj : memb j poss = true /\ memb j ex = false) by (apply Hcs; left; reflexivity).
        destruct Hj as [Hjp Hjx].
        destruct (Inv_step subl poss excl0 ex j HI Hex Hjp Hjx) as [HI' Hjs].
        assert (Hlen' : f + length (addv j subl) = maxsize + 1) by (rewrite (length_addv_new j subl Hjs); lia).
        destruct (IHf _ _ _ HI' Hlen' T HT HTn) as [R1 R0].
        inversion Hnd as [|j' cs' Hjn Hnd']. subst.
        assert (Hcs' : forall j', In j' cs -> memb j' poss = true /\ memb j' (addv j ex) = false).
        { intros j' Hj'. destruct (Hcs j' (or_intror Hj')) as [A B]. split; [exact A|].
          rewrite memb_addv, B, orb_false_r. apply Nat.eqb_neq. intros ->. contradiction. }
        assert (Hex' : sub excl0 (addv j ex)).
        { intros v Hv. rewrite memb_addv, (Hex v Hv). apply orb_true_r. }
        destruct (IH (addv j ex) Hnd' Hcs' Hex') as [L1 L0].
        split.
        + intros [Hs Hc]. destruct (memb j T) eqn:EjT; cbn [orb].
          * rewrite R1, L0; [reflexivity| |].
            -- intros [_ Hc']. specialize (Hc' j EjT). rewrite memb_addv, Nat.eqb_refl in Hc'. specialize (Hc' eq_refl). congruence.
            -- split.
               ++ intros v Hv. rewrite memb_addv in Hv. apply orb_true_iff in Hv. destruct Hv as [Hv|Hv]; [apply Nat.eqb_eq in Hv; subst; exact EjT|apply Hs, Hv].
               ++ intros v HvT Hvx. rewrite memb_addv in Hvx. rewrite memb_addv. apply orb_true_iff in Hvx. destruct Hvx as [Hvx|Hvx]; [rewrite Hvx; reflexivity|].
                  rewrite (Hc v HvT Hvx). apply orb_true_r.
          * rewrite R0, L1; [reflexivity| |].
            -- split; [exact Hs|]. intros v HvT Hvx. rewrite memb_addv in Hvx. apply orb_true_iff in Hvx.
               destruct Hvx as [Hvx|Hvx]; [apply Nat.eqb_eq in Hvx; subst; congruence|apply Hc; assumption].
            -- intros [Hs' _]. assert (memb j T = true); [|congruence]. apply Hs'. rewrite memb_addv, Nat.eqb_refl. reflexivity.
        + intros Hn. rewrite R0, L0; [reflexivity| |].
          * intros [Hs Hc]. apply Hn. split; [exact Hs|]. intros v HvT Hvx. apply Hc; [exact HvT|].
            rewrite memb_addv, Hvx. apply orb_true_r.
          * intros [Hs Hc]. apply Hn. split.
            -- intros v Hv. apply Hs. rewrite memb_addv, Hv. apply orb_true_r.
            -- intros v HvT Hvx. assert (Hv' : memb v (addv j subl) = true).
               { apply Hc; [exact HvT|]. rewrite memb_addv, Hvx. apply orb_true_r. }
               rewrite memb_addv in Hv'. apply orb_true_iff in Hv'. destruct Hv' as [Hv'|Hv']; [|exact Hv'].
               apply Nat.eqb_eq in Hv'. subst. congruence.
    Qed.
  End Step.

  Lemma sub_incl_nodes : forall subl T, sub subl T -> (forall v, memb v T = true -> In v nodes) -> incl subl nodes.
  Proof. intros subl T Hs HT v Hv. apply HT, Hs, memb_In, Hv. Qed.

  Lemma enum_rec_count : forall f subl poss excl, Inv subl poss excl -> f + length subl = maxsize + 1 ->
      forall T, grown T -> (forall v, memb v T = true -> In v nodes) ->
        (Cond subl excl T -> cnt T (enum_rec ord f es maxsize subl poss excl) = 1) /\
        (~ Cond subl excl T -> cnt T (enum_rec ord f es maxsize subl poss excl) = 0).
  Proof.
    induction f as [|f IHf]; intros subl poss excl HI Hlen T HT HTn.
    - (* fuel exhausted: impossible for a list inside the vertex set *)
      rewrite enum_rec_0.
      assert (Himp : sub subl T -> False).
      { intros Hs. destruct HI as [Hg _].
        pose proof (NoDup_incl_length (grown_NoDup _ Hg) (sub_incl_nodes subl T Hs HTn)) as Hl.
        unfold maxsize in Hlen. lia. }
      split.
      + intros [Hs _]. contradiction.
      + intros _. rewrite cnt_cons. destruct (same_setb T subl) eqn:E; [|reflexivity].
        apply same_setb_iff in E. destruct E as [_ Hs]. contradiction.
    - rewrite enum_rec_S, cnt_cons. pose proof HI as HI2. destruct HI2 as [Hg [Hse [Hp Hnd]]].
      assert (Hsame_cond : same_setb T subl = true -> Cond subl excl T).
      { intros E. apply same_setb_iff in E. destruct E as [HTs HsT]. split; [exact HsT|]. intros v Hv _. apply HTs, Hv. }
      destruct (Nat.eqb (length subl) maxsize) eqn:Emax.
      + (* all vertices used *)
        apply Nat.eqb_eq in Emax. split.
        * intros [Hs Hc].
          assert (Hin : incl nodes subl).
          { apply NoDup_length_incl; [apply grown_NoDup, Hg|unfold maxsize in Emax; lia|apply (sub_incl_nodes subl T Hs HTn)]. }
          assert (E : same_setb T subl = true).
          { apply same_setb_iff. split; [|exact Hs]. intros v Hv. apply memb_In, Hin, HTn, Hv. }
          rewrite E. reflexivity.
        * intros Hn. destruct (same_setb T subl) eqn:E; [exfalso; apply Hn, Hsame_cond; reflexivity|reflexivity].
      + assert (Hlen' : f + S (length subl) = maxsize + 1) by lia.
        assert (Hcnd : NoDup (ord (diffv poss excl))).
        { apply (Permutation_NoDup (Permutation_sym (Hord _))), NoDup_diffv, Hnd. }
        assert (Hcs : forall j, In j (ord (diffv poss excl)) -> memb j poss = true /\ memb j excl = false).
        { intros j Hj. apply (Permutation_in _ (Hord _)) in Hj. apply memb_In in Hj. rewrite memb_diffv in Hj.
          apply andb_true_iff in Hj. destruct Hj as [A B]. apply negb_true_iff in B. split; assumption. }
        destruct (loop_count f IHf subl poss excl HI Hlen' T HT HTn (ord (diffv poss excl)) excl Hcnd Hcs (sub_refl excl))
          as [L1 L0].
        split.
        * intros HC. rewrite (L1 HC). destruct HC as [Hs Hc].
          destruct (same_setb T subl) eqn:E.
          -- apply same_setb_iff in E. destruct E as [HTs _].
             assert (Ex : existsb (fun j => memb j T) (ord (diffv poss excl)) = false).
             { apply not_true_is_false. intros Ex. apply existsb_exists in Ex. destruct Ex as [j [Hj HjT]].
               destruct (Hcs j Hj) as [_ Hjx]. apply HTs, Hse in HjT. congruence. }
             rewrite Ex. reflexivity.
          -- assert (Hns : ~ sub T subl).
             { intros HTs. assert (same_setb T subl = true); [apply same_setb_iff; split; assumption|congruence]. }
             destruct (grown_exit T HT subl (grown_root _ Hg) Hns) as [j [HjT [Hjs HjN]]].
             assert (Hjx : memb j excl = false).
             { destruct (memb j excl) eqn:Ex; [|reflexivity]. rewrite (Hc j HjT Ex) in Hjs. discriminate. }
             assert (Ex : existsb (fun j => memb j T) (ord (diffv poss excl)) = true).
             { apply existsb_exists. exists j. split; [|exact HjT].
               apply (Permutation_in _ (Permutation_sym (Hord _))). apply memb_In. rewrite memb_diffv, Hjx.
               cbn [negb]. rewrite andb_true_r. apply Hp. split; assumption. }
             rewrite Ex. reflexivity.
        * intros Hn. rewrite (L0 Hn).
          destruct (same_setb T subl) eqn:E; [exfalso; apply Hn, Hsame_cond; reflexivity|reflexivity].
  Qed.

  (* soundness: everything enumerated is a grown list *)
  Lemma loop_grown : forall f,
      (forall subl poss excl, Inv subl poss excl ->
         forall c, In c (enum_rec ord f es maxsize subl poss excl) -> grown c) ->
      forall subl poss excl0, Inv subl poss excl0 ->
      forall cs ex, NoDup cs -> (forall j, In j cs -> memb j poss = true /\ memb j ex = false) -> sub excl0 ex ->
      forall c, In c (enum_loop (enum_rec ord f es maxsize) subl poss cs ex) -> grown c.
  Proof.
    intros f IHf subl poss excl0 HI. induction cs as [|j cs IH]; intros ex Hnd Hcs Hex c Hc; [contradiction|].
    cbn [enum_loop] in Hc. apply in_app_or in Hc.
    destruct (Hcs j (or_introl eq_refl)) as [Hjp Hjx].
    destruct (Inv_step subl poss excl0 ex j HI Hex Hjp Hjx) as [HI' _].
    destruct Hc as [Hc|Hc]; [apply (IHf _ _ _ HI' c Hc)|].
    inversion Hnd as [|j' cs' Hjn Hnd']. subst.
    apply (IH (addv j ex)); [exact Hnd'| | |exact Hc].
    - intros j' Hj'. destruct (Hcs j' (or_intror Hj')) as [A B]. split; [exact A|].
      rewrite memb_addv, B, orb_false_r. apply Nat.eqb_neq. intros ->. contradiction.
    - intros v Hv. rewrite memb_addv, (Hex v Hv). apply orb_true_r.
  Qed.

  Lemma enum_rec_grown : forall f subl poss excl, Inv subl poss excl ->
      forall c, In c (enum_rec ord f es maxsize subl poss excl) -> grown c.
  Proof.
    induction f as [|f IHf]; intros subl poss excl HI c Hc.
    - rewrite enum_rec_0 in Hc. destruct Hc as [<-|[]]. apply HI.
    - rewrite enum_rec_S in Hc. destruct Hc as [<-|Hc]; [apply HI|].
      destruct (Nat.eqb (length subl) maxsize); [contradiction|].
      apply (loop_grown f IHf subl poss excl HI (ord (diffv poss excl)) excl); [| |apply sub_refl|exact Hc].
      + apply (Permutation_NoDup (Permutation_sym (Hord _))), NoDup_diffv, HI.
      + intros j Hj. apply (Permutation_in _ (Hord _)) in Hj. apply memb_In in Hj. rewrite memb_diffv in Hj.
        apply andb_true_iff in Hj. destruct Hj as [A B]. apply negb_true_iff in B. split; assumption.
  Qed.

  (* THE GENERAL THEOREM: for a graph of any size and any iteration-order schedule, the enumeration
     returns only lists grown from the root, and every such vertex set inside the node list exactly once *)
  Theorem enum_general :
    NoDup (nbrs es root) -> memb root (nbrs es root) = false ->
    (forall c, In c (enum_ord ord (nodes, es) root) -> grown c) /\
    (forall T, grown T -> (forall v, memb v T = true -> In v nodes) -> cnt T (enum_ord ord (nodes, es) root) = 1).
  Proof.
    intros Hnd Hloop.
    assert (HI : Inv [root] (nbrs es root) [root]).
    { split; [apply g_root|split; [apply sub_refl|split; [|exact Hnd]]].
      intros v. split.
      - intros Hv. split; [exists root; split; [cbn; rewrite Nat.eqb_refl; reflexivity|exact Hv]|].
        cbn [memb existsb]. rewrite orb_false_r. apply Nat.eqb_neq. intros ->. congruence.
      - intros [[w [Hw Hvw]] _]. cbn [memb existsb] in Hw. rewrite orb_false_r in Hw. apply Nat.eqb_eq in Hw. subst. exact Hvw. }
    unfold enum_ord. cbn [g_nodes g_edges fst snd]. split.
    - apply (enum_rec_grown _ _ _ _ HI).
    - intros T HT HTn.
      apply (enum_rec_count (length nodes) [root] (nbrs es root) [root] HI); [unfold maxsize; cbn [length]; lia|exact HT|exact HTn|].
      split.
      + intros v Hv. cbn [memb existsb] in Hv. rewrite orb_false_r in Hv. apply Nat.eqb_eq in Hv. subst. apply grown_root, HT.
      + intros v _ Hv. exact Hv.
  Qed.
End Enum.

(* well-formed graphs satisfy the side conditions of enum_general *)
Lemma edge_mem_In : forall e l, edge_mem e l = true <-> In e l.
Proof.
  intros [a b] l. unfold edge_mem. rewrite existsb_exists. split.
  - intros [[c d] [Hin E]]. unfold edge_eqb in E. cbn [fst snd] in E. apply andb_true_iff in E.
    destruct E as [E1 E2]. apply Nat.eqb_eq in E1, E2. subst. exact Hin.
  - intros Hin. exists (a, b). split; [exact Hin|]. unfold edge_eqb. cbn [fst snd]. rewrite !Nat.eqb_refl. reflexivity.
Qed.

Lemma in_nbrs : forall es r x, In x (nbrs es r) -> In (r, x) es \/ In (x, r) es.
Proof.
  intros es r x H. unfold nbrs in H. apply in_flat_map in H. destruct H as [[a b] [He Hx]].
  unfold adj in Hx. cbn [fst snd] in Hx. destruct (Nat.eqb a r) eqn:Ea.
  - destruct Hx as [<-|[]]. apply Nat.eqb_eq in Ea. subst. left. exact He.
  - destruct (Nat.eqb b r) eqn:Eb; [|contradiction]. destruct Hx as [<-|[]]. apply Nat.eqb_eq in Eb. subst. right. exact He.
Qed.

Lemma wf_nbrs : forall nodes es r, edges_okb nodes es = true -> NoDup (nbrs es r) /\ ~ In r (nbrs es r).
Proof.
  intros nodes es r. induction es as [|[a b] es IH]; intros H; cbn [edges_okb] in H.
  - split; [constructor|intros []].
  - repeat (apply andb_true_iff in H; destruct H as [H ?]).
    cbn [fst snd] in *. destruct (IH H0) as [Hnd Hnr].
    apply negb_true_iff in H1, H2, H3. apply Nat.eqb_neq in H3.
    assert (N1 : ~ In (a, b) es) by (intros Hi; apply edge_mem_In in Hi; congruence).
    assert (N2 : ~ In (b, a) es) by (intros Hi; apply edge_mem_In in Hi; congruence).
    unfold nbrs. cbn [flat_map]. fold (nbrs es r). unfold adj. cbn [fst snd].
    destruct (Nat.eqb a r) eqn:Ea.
    + apply Nat.eqb_eq in Ea. subst a. cbn [app]. split.
      * constructor; [|exact Hnd]. intros Hi. apply in_nbrs in Hi. tauto.
      * intros [Hi|Hi]; [congruence|contradiction].
    + destruct (Nat.eqb b r) eqn:Eb.
      * apply Nat.eqb_eq in Eb. subst b. cbn [app]. split.
        -- constructor; [|exact Hnd]. intros Hi. apply in_nbrs in Hi. tauto.
        -- intros [Hi|Hi]; [congruence|contradiction].
      * cbn [app]. split; assumption.
Qed.

Lemma wf_graph_enum_hyps : forall g r, wf_graph g = true ->
    NoDup (nbrs (g_edges g) r) /\ memb r (nbrs (g_edges g) r) = false.
Proof.
  intros g r H. unfold wf_graph in H. apply andb_true_iff in H. destruct H as [_ H].
  destruct (wf_nbrs _ _ r H) as [A B]. split; [exact A|].
  destruct (memb r (nbrs (g_edges g) r)) eqn:E; [|reflexivity]. apply memb_In in E. contradiction.
Qed.

Theorem enum_general_wf : forall (ord : list nat -> list nat) (g : graph) (root : nat),
    (forall l, Permutation (ord l) l) -> wf_graph g = true ->
    (forall c, In c (enum_ord ord g root) -> grown (g_edges g) root c) /\
    (forall T, grown (g_edges g) root T -> (forall v, memb v T = true -> In v (g_nodes g)) ->
               cnt T (enum_ord ord g root) = 1).
Proof.
  intros ord [nodes es] root Hord Hwf. destruct (wf_graph_enum_hyps (nodes, es) root Hwf) as [A B].
  exact (enum_general ord es nodes root Hord A B).
Qed.
