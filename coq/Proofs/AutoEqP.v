(* Proofs about Model/AutoEq.v (C15). *)
From Coq Require Import List ZArith QArith Qpower Qring Bool Arith Ring_polynom BinList Lqa Lia Setoid Morphisms.
From GV Require Import Lib.Tree Lib.PolyRefl15 Lib.Graph15 Model.AutoEq.
Import ListNotations.
Local Open Scope nat_scope.

(* ================================================================== *)
(* 1. homomorphisms of the abstract arithmetic *)
Record alg_hom {S T} (A : alg S) (B : alg T) (h : S -> T) : Prop := mk_hom {
  h_0 : h (a0 A) = a0 B;
  h_1 : h (a1 A) = a1 B;
  h_add : forall x y, h (aadd A x y) = aadd B (h x) (h y);
  h_mul : forall x y, h (amul A x y) = amul B (h x) (h y);
  h_sub : forall x y, h (asub A x y) = asub B (h x) (h y);
  h_pow : forall x n, h (apow A x n) = apow B (h x) n }.

Section Hom.
  Context {S T : Type} (A : alg S) (B : alg T) (h : S -> T) (H : alg_hom A B h).

  Lemma fold_add_hom : forall l acc,
      h (fold_left (aadd A) l acc) = fold_left (aadd B) (map h l) (h acc).
  Proof.
    induction l as [|x l IH]; intros acc; cbn [fold_left map]; [reflexivity|].
    rewrite IH, (h_add _ _ _ H). reflexivity.
  Qed.
  Lemma fold_mul_hom : forall l acc,
      h (fold_left (amul A) l acc) = fold_left (amul B) (map h l) (h acc).
  Proof.
    induction l as [|x l IH]; intros acc; cbn [fold_left map]; [reflexivity|].
    rewrite IH, (h_mul _ _ _ H). reflexivity.
  Qed.
  Lemma asum_hom : forall l, h (asum A l) = asum B (map h l).
  Proof. intros l. unfold asum. rewrite fold_add_hom, (h_0 _ _ _ H). reflexivity. Qed.
  Lemma aprod_hom : forall l, h (aprod A l) = aprod B (map h l).
  Proof. intros l. unfold aprod. rewrite fold_mul_hom, (h_1 _ _ _ H). reflexivity. Qed.

  Lemma term_of_hom : forall g root phi u c combos,
      h (term_of A g root phi u c combos) = term_of B g root (h phi) (fun v => h (u v)) c combos.
  Proof.
    intros g root phi u c combos.
    assert (Hgen :
      h (asum A (map (fun n => amul A (amul A (amul A (apow A phi (length (internal_edges (g_edges g) c) - n))
                 (apow A (asub A (a1 A) phi) n)) (apow A (asub A (a1 A) phi) (n_interface (g_edges g) c)))
                 (aprod A (map u (filter (fun v => negb (Nat.eqb v root))
                                         (live_nodes (g_nodes g) (internal_edges (g_edges g) c)))))) combos)) =
      asum B (map (fun n => amul B (amul B (amul B (apow B (h phi) (length (internal_edges (g_edges g) c) - n))
                 (apow B (asub B (a1 B) (h phi)) n)) (apow B (asub B (a1 B) (h phi)) (n_interface (g_edges g) c)))
                 (aprod B (map (fun v => h (u v)) (filter (fun v => negb (Nat.eqb v root))
                                         (live_nodes (g_nodes g) (internal_edges (g_edges g) c)))))) combos)).
    { rewrite asum_hom, map_map. f_equal. apply map_ext. intros n.
      rewrite !(h_mul _ _ _ H), !(h_pow _ _ _ H), !(h_sub _ _ _ H), (h_1 _ _ _ H), aprod_hom, map_map.
      reflexivity. }
    unfold term_of. destruct c as [|v [|w c']].
    - exact Hgen.
    - rewrite (h_pow _ _ _ H), (h_sub _ _ _ H), (h_1 _ _ _ H). reflexivity.
    - exact Hgen.
  Qed.

  Lemma auto_gen_hom : forall g root phi u,
      h (auto_gen A g root phi u) = auto_gen B g root (h phi) (fun v => h (u v)).
  Proof.
    intros. unfold auto_gen. rewrite asum_hom, map_map. f_equal. apply map_ext.
    intros c. apply term_of_hom.
  Qed.

  Lemma exact_rec_hom : forall nodes root phi u es kept,
      h (exact_rec A nodes root phi u es kept) = exact_rec B nodes root (h phi) (fun v => h (u v)) es kept.
  Proof.
    intros nodes root phi u es. induction es as [|e es IH]; intros kept; cbn [exact_rec].
    - rewrite aprod_hom, map_map. reflexivity.
    - rewrite (h_add _ _ _ H), !(h_mul _ _ _ H), (h_sub _ _ _ H), (h_1 _ _ _ H), !IH. reflexivity.
  Qed.
  Lemma exact_gen_hom : forall g root phi u,
      h (exact_gen A g root phi u) = exact_gen B g root (h phi) (fun v => h (u v)).
  Proof. intros. unfold exact_gen. apply exact_rec_hom. Qed.
End Hom.

(* evaluation of expressions in Q is a homomorphism alg_pe -> alg_q (Leibniz equalities) *)
Lemma peval_hom : forall env, alg_hom alg_pe alg_q (peval env).
Proof.
  intros env. constructor; try reflexivity.
  intros x n. cbn [apow alg_pe alg_q]. unfold peval. cbn [PEeval]. rewrite nat_N_Z. reflexivity.
Qed.

(* ================================================================== *)
(* 2. variables: BinList.nth versus List.nth *)
Lemma jump_nil : forall (A : Type) p, jump p (@nil A) = [].
Proof. induction p as [p IH|p IH|]; cbn [jump tl]; rewrite ?IH; reflexivity. Qed.
Lemma bnth_nil : forall (A : Type) (d : A) p, BinList.nth d p [] = d.
Proof. induction p as [p IH|p IH|]; cbn [BinList.nth tl hd]; rewrite ?jump_nil; auto. Qed.
Lemma bnth_succ : forall (A : Type) (d a : A) p l,
    BinList.nth d (Pos.succ p) (a :: l) = BinList.nth d p l.
Proof.
  intros A d a p l.
  change (a :: l) with (tl (d :: a :: l)).
  rewrite nth_jump, jump_succ. cbn [jump]. rewrite jump_tl, <- nth_jump. reflexivity.
Qed.
Lemma bnth_of_succ_nat : forall (A : Type) (d : A) v l,
    BinList.nth d (Pos.of_succ_nat v) l = List.nth v l d.
Proof.
  induction v as [|v IH]; intros l.
  - destruct l; reflexivity.
  - cbn [Pos.of_succ_nat]. destruct l as [|a l].
    + rewrite bnth_nil. reflexivity.
    + rewrite bnth_succ, IH. reflexivity.
Qed.

Definition env_of (phi : Q) (us : list Q) : list Q := phi :: us.
Lemma peval_ephi0 : forall phi us, peval (env_of phi us) ephi0 = phi.
Proof. reflexivity. Qed.
Lemma peval_eu0 : forall phi us v, peval (env_of phi us) (eu0 v) = List.nth v us 0%Q.
Proof.
  intros. unfold eu0, vpos, peval, env_of. cbn [PEeval Pos.of_succ_nat].
  rewrite bnth_succ. apply bnth_of_succ_nat.
Qed.

(* ================================================================== *)
(* 3. sums and products in Q *)
Local Open Scope Q_scope.
Lemma qsum_acc : forall l a, fold_left Qplus l a == a + qsum l.
Proof.
  unfold qsum. induction l as [|x l IH]; intros a; cbn [fold_left].
  - ring.
  - rewrite IH, (IH (0 + x)%Q). ring.
Qed.
Lemma qsum_cons : forall x l, qsum (x :: l) == x + qsum l.
Proof. intros. unfold qsum at 1. cbn [fold_left]. rewrite qsum_acc. ring. Qed.
Lemma qsum_app : forall l1 l2, qsum (l1 ++ l2) == qsum l1 + qsum l2.
Proof.
  induction l1 as [|x l1 IH]; intros l2.
  - cbn [app]. unfold qsum at 2. cbn [fold_left]. ring.
  - cbn [app]. rewrite !qsum_cons, IH. ring.
Qed.
Lemma qsum_scale : forall {X} (f : X -> Q) k l, qsum (map (fun x => k * f x) l) == k * qsum (map f l).
Proof.
  intros X f k. induction l as [|x l IH]; cbn [map].
  - unfold qsum. cbn [fold_left]. ring.
  - rewrite !qsum_cons, IH. ring.
Qed.
Lemma qsum_ext : forall {X} (f g : X -> Q) l,
    (forall x, In x l -> f x == g x) -> qsum (map f l) == qsum (map g l).
Proof.
  intros X f g. induction l as [|x l IH]; intros Hfg; cbn [map]; [reflexivity|].
  rewrite !qsum_cons, IH, (Hfg x); [reflexivity|left; reflexivity|].
  intros y Hy. apply Hfg. right. exact Hy.
Qed.

Lemma qpow_S : forall (q : Q) n, Qpower q (Z.of_nat (S n)) == q * Qpower q (Z.of_nat n).
Proof.
  intros q n. rewrite Nat2Z.inj_succ. unfold Z.succ. rewrite Z.add_comm.
  rewrite Qpower_plus' by lia. reflexivity.
Qed.

(* ================================================================== *)
(* 4. the edge-recursive form equals the explicit sum over edge subsets *)
Lemma sublists_length : forall {X} (l S : list X), In S (sublists l) -> (length S <= length l)%nat.
Proof.
  intros X. induction l as [|x l IH]; intros S HS; cbn [sublists] in HS.
  - destruct HS as [<-|[]]. auto.
  - apply in_app_or in HS. destruct HS as [HS|HS].
    + apply in_map_iff in HS. destruct HS as [S' [<- HS']]. cbn [length]. apply le_n_S, IH, HS'.
    + cbn [length]. apply le_S, IH, HS.
Qed.

Section ExactFlat.
  Variables (nodes : list nat) (root : nat) (phi : Q) (u : nat -> Q).
  Let leaf (K : list edge) : Q :=
    qprod (map u (filter (fun v => negb (Nat.eqb v root)) (comp nodes K root))).
  Let flat (es kept : list edge) : Q :=
    qsum (map (fun S0 : list edge =>
                 Qpower phi (Z.of_nat (length S0)) * Qpower (1 - phi) (Z.of_nat (length es - length S0)%nat)
                 * leaf (kept ++ S0))%Q (sublists es)).

  Lemma exact_rec_flat : forall es kept, exact_rec alg_q nodes root phi u es kept == flat es kept.
  Proof.
    induction es as [|e es IH]; intros kept.
    - cbn [exact_rec]. unfold flat. cbn [sublists map length Nat.sub]. rewrite qsum_cons.
      unfold qsum. cbn [fold_left]. rewrite app_nil_r. unfold leaf, aprod, qprod.
      cbn [alg_q amul a1 Z.of_nat Qpower]. ring.
    - cbn [exact_rec]. cbn [alg_q aadd amul asub a1]. rewrite !IH.
      unfold flat. cbn [sublists]. rewrite map_app, qsum_app, map_map.
      apply Qplus_comp.
      + rewrite <- qsum_scale. apply qsum_ext. intros S0 HS.
        cbn [length Nat.sub]. rewrite qpow_S, <- app_assoc. cbn [app]. ring.
      + rewrite <- qsum_scale. apply qsum_ext. intros S0 HS.
        apply sublists_length in HS. cbn [length].
        replace (S (length es) - length S0)%nat with (S (length es - length S0))%nat by lia.
        rewrite qpow_S. ring.
  Qed.
End ExactFlat.

Theorem expectation_rec : forall g root phi u,
    exact_gen alg_q g root phi u == expectation g root phi u.
Proof.
  intros g root phi u. unfold exact_gen. rewrite exact_rec_flat. unfold expectation.
  apply qsum_ext. intros S0 HS. cbn [app]. reflexivity.
Qed.

(* ================================================================== *)
(* 5. 0 <= expectation <= 1 on the unit cube *)
Lemma qprod_unit : forall l acc,
    (0 <= acc <= 1)%Q -> (forall x, In x l -> (0 <= x <= 1)%Q) -> (0 <= fold_left Qmult l acc <= 1)%Q.
Proof.
  induction l as [|x l IH]; intros acc Hacc Hl; cbn [fold_left]; [exact Hacc|].
  apply IH.
  - assert (Hx : (0 <= x <= 1)%Q) by (apply Hl; left; reflexivity). nra.
  - intros y Hy. apply Hl. right. exact Hy.
Qed.

Lemma exact_rec_unit : forall nodes root phi u,
    (0 <= phi <= 1)%Q -> (forall v, (0 <= u v <= 1)%Q) ->
    forall es kept, (0 <= exact_rec alg_q nodes root phi u es kept <= 1)%Q.
Proof.
  intros nodes root phi u Hphi Hu. induction es as [|e es IH]; intros kept; cbn [exact_rec].
  - unfold aprod. cbn [alg_q amul a1]. apply qprod_unit; [lra|].
    intros x Hx. apply in_map_iff in Hx. destruct Hx as [v [<- _]]. apply Hu.
  - cbn [alg_q aadd amul asub a1].
    pose proof (IH (kept ++ [e])) as H1. pose proof (IH kept) as H2. nra.
Qed.

Theorem exact_in_unit : forall g root phi u,
    (0 <= phi <= 1)%Q -> (forall v, (0 <= u v <= 1)%Q) ->
    (0 <= expectation g root phi u <= 1)%Q.
Proof.
  intros g root phi u Hphi Hu. rewrite <- expectation_rec. unfold exact_gen.
  apply exact_rec_unit; assumption.
Qed.

(* ================================================================== *)
(* 6. the verified checker is sound *)
Theorem c15_check_sound : forall g root ephi eu ms,
    c15_checkb g root ephi eu ms = true ->
    forall env, peval env (monos_expr ms)
                == expectation g root (peval env ephi) (fun v => peval env (eu v)).
Proof.
  intros g root ephi eu ms Hc env. unfold c15_checkb in Hc.
  rewrite (peq_sound _ _ Hc env).
  rewrite (exact_gen_hom alg_pe alg_q (peval env) (peval_hom env)).
  apply expectation_rec.
Qed.

(* ================================================================== *)
(* 7. the evaluator with its two caches: history independence *)
Local Close Scope Q_scope.
Local Open Scope nat_scope.

Lemma list_eqb_eq : forall a b, list_eqb a b = true -> a = b.
Proof.
  induction a as [|x a IH]; destruct b as [|y b]; cbn [list_eqb]; intros Hab; try discriminate; auto.
  apply andb_true_iff in Hab. destruct Hab as [Hxy Hab]. apply Nat.eqb_eq in Hxy. f_equal; auto.
Qed.
Lemma mname_eqb_eq : forall a b, mname_eqb a b = true -> a = b.
Proof.
  intros [a1 a2] [b1 b2] Hab. unfold mname_eqb in Hab. cbn [fst snd] in Hab.
  apply andb_true_iff in Hab. destruct Hab as [H1 H2]. apply Nat.eqb_eq in H1, H2. congruence.
Qed.
Lemma mname_eqb_refl : forall a, mname_eqb a a = true.
Proof. intros [a1 a2]. unfold mname_eqb. cbn [fst snd]. rewrite !Nat.eqb_refl. reflexivity. Qed.
Lemma key_sub_eqb_eq : forall a b, key_sub_eqb a b = true -> a = b.
Proof.
  intros [a1 a2] [b1 b2] Hab. unfold key_sub_eqb in Hab. cbn [fst snd] in Hab.
  apply andb_true_iff in Hab. destruct Hab as [H1 H2]. apply Nat.eqb_eq in H1. apply mname_eqb_eq in H2. congruence.
Qed.
Lemma key_edge_eqb_eq : forall a b, key_edge_eqb a b = true -> a = b.
Proof.
  intros [a1 a2] [b1 b2] Hab. unfold key_edge_eqb in Hab. cbn [fst snd] in Hab.
  apply andb_true_iff in Hab. destruct Hab as [H1 H2]. apply mname_eqb_eq in H2. apply list_eqb_eq in H1. congruence.
Qed.

(* every cache entry equals the fresh computation for the graph its key's name denotes *)
Definition cache_inv (naming : mname -> graph) (st : caches) : Prop :=
  (forall k v, alookup key_sub_eqb k (cc_sub st) = Some v -> v = enum (naming (snd k)) (fst k)) /\
  (forall k v, alookup key_edge_eqb k (cc_edge st) = Some v -> v = combos_for (naming (snd k)) (fst k)).

Lemma cache_inv_empty : forall naming, cache_inv naming caches_empty.
Proof. intros naming. split; intros k v Hk; discriminate Hk. Qed.

Lemma get_sub_inv : forall naming st name root,
    cache_inv naming st ->
    fst (get_connected_subgraphs st name (naming name) root) = enum (naming name) root /\
    cache_inv naming (snd (get_connected_subgraphs st name (naming name) root)).
Proof.
  intros naming st name root [I1 I2]. unfold get_connected_subgraphs.
  destruct (alookup key_sub_eqb (root, name) (cc_sub st)) as [r|] eqn:E; cbn [fst snd].
  - split; [exact (I1 _ _ E)|split; assumption].
  - split; [reflexivity|]. split; cbn [cc_sub cc_edge]; [|exact I2].
    intros k v Hk. cbn [alookup] in Hk.
    destruct (key_sub_eqb k (root, name)) eqn:Ek.
    + apply key_sub_eqb_eq in Ek. subst k. injection Hk as <-. reflexivity.
    + exact (I1 _ _ Hk).
Qed.

Lemma get_edge_inv : forall naming st name c,
    cache_inv naming st ->
    fst (get_edge_combinations st name (naming name) c) = combos_for (naming name) c /\
    cache_inv naming (snd (get_edge_combinations st name (naming name) c)).
Proof.
  intros naming st name c [I1 I2]. unfold get_edge_combinations.
  destruct (alookup key_edge_eqb (c, name) (cc_edge st)) as [r|] eqn:E; cbn [fst snd].
  - split; [exact (I2 _ _ E)|split; assumption].
  - split; [reflexivity|]. split; cbn [cc_sub cc_edge]; [exact I1|].
    intros k v Hk. cbn [alookup] in Hk.
    destruct (key_edge_eqb k (c, name)) eqn:Ek.
    + apply key_edge_eqb_eq in Ek. subst k. injection Hk as <-. reflexivity.
    + exact (I2 _ _ Hk).
Qed.

Section History.
  Context {T : Type} (A : alg T).

  Lemma term_of_single : forall g root phi u v l1 l2,
      term_of A g root phi u [v] l1 = term_of A g root phi u [v] l2.
  Proof. reflexivity. Qed.

  Definition fold_fun (name : mname) (g : graph) (root : nat) (phi : T) (u : nat -> T)
             (as_ : T * caches) (c : list nat) : T * caches :=
    let '(acc, s) := as_ in
    match c with
    | [_] => (aadd A acc (term_of A g root phi u c []), s)
    | _ => let '(cmb, s') := get_edge_combinations s name g c in
           (aadd A acc (term_of A g root phi u c cmb), s')
    end.

  Lemma fold_inv : forall naming name root phi u comps acc s,
      cache_inv naming s ->
      fst (fold_left (fold_fun name (naming name) root phi u) comps (acc, s))
      = fold_left (aadd A) (map (fun c => term_of A (naming name) root phi u c (combos_for (naming name) c)) comps) acc
      /\ cache_inv naming (snd (fold_left (fold_fun name (naming name) root phi u) comps (acc, s))).
  Proof.
    intros naming name root phi u. induction comps as [|c comps IH]; intros acc s Hs.
    - cbn [fold_left map fst snd]. split; [reflexivity|exact Hs].
    - cbn [fold_left map].
      assert (Hstep : exists s', fold_fun name (naming name) root phi u (acc, s) c
                                 = (aadd A acc (term_of A (naming name) root phi u c (combos_for (naming name) c)), s')
                                 /\ cache_inv naming s').
      { unfold fold_fun.
        destruct (get_edge_inv naming s name c Hs) as [Hv Hi].
        destruct (get_edge_combinations s name (naming name) c) as [cmb s'] eqn:E. cbn [fst snd] in Hv, Hi.
        destruct c as [|v [|w c']].
        - exists s'. subst cmb. split; [reflexivity|exact Hi].
        - exists s. split; [reflexivity|exact Hs].
        - exists s'. subst cmb. split; [reflexivity|exact Hi]. }
      destruct Hstep as [s' [-> Hs']]. apply IH. exact Hs'.
  Qed.

  Lemma auto_step_unfold : forall st name g root phi u,
      auto_step A st name g root phi u =
      if negb (memb root (g_nodes g)) then (None, st)
      else let r := fold_left (fold_fun name g root phi u)
                              (fst (get_connected_subgraphs st name g root))
                              (a0 A, snd (get_connected_subgraphs st name g root)) in
           (Some (fst r), snd r).
  Proof.
    intros. unfold auto_step. destruct (negb (memb root (g_nodes g))); [reflexivity|].
    destruct (get_connected_subgraphs st name g root) as [comps st1]. cbn [fst snd].
    unfold fold_fun.
    destruct (fold_left _ comps (a0 A, st1)) as [acc st2]. reflexivity.
  Qed.

  (* value returned by a fresh evaluator *)
  Definition fresh_value (g : graph) (root : nat) (phi : T) (u : nat -> T) : option T :=
    if memb root (g_nodes g) then Some (auto_gen A g root phi u) else None.

  Lemma auto_step_inv : forall naming st name root phi u,
      cache_inv naming st ->
      fst (auto_step A st name (naming name) root phi u) = fresh_value (naming name) root phi u /\
      cache_inv naming (snd (auto_step A st name (naming name) root phi u)).
  Proof.
    intros naming st name root phi u Hst. rewrite auto_step_unfold. unfold fresh_value.
    destruct (memb root (g_nodes (naming name))); cbn [negb fst snd]; [|split; [reflexivity|exact Hst]].
    destruct (get_sub_inv naming st name root Hst) as [Hc Hi]. rewrite Hc.
    destruct (fold_inv naming name root phi u (enum (naming name) root) (a0 A) _ Hi) as [Hv Hi2].
    split; [|exact Hi2]. rewrite Hv. reflexivity.
  Qed.

  Lemma fresh_is_fresh : forall name g root phi u,
      fst (auto_step A caches_empty name g root phi u) = fresh_value g root phi u.
  Proof.
    intros name g root phi u.
    pose (naming := fun _ : mname => g).
    exact (proj1 (auto_step_inv naming caches_empty name root phi u (cache_inv_empty naming))).
  Qed.

  (* a call = (name, graph, root, phi, u); a history = list of calls on one evaluator *)
  Record call := mk_call { c_name : mname; c_graph : graph; c_root : nat; c_phi : T; c_u : nat -> T }.

  Fixpoint run_history (st : caches) (calls : list call) : list (option T) :=
    match calls with
    | [] => []
    | c :: rest =>
        let r := auto_step A st (c_name c) (c_graph c) (c_root c) (c_phi c) (c_u c) in
        fst r :: run_history (snd r) rest
    end.

  (* equal names denote equal motifs *)
  Definition distinctly_named (calls : list call) : Prop :=
    forall c1 c2, In c1 calls -> In c2 calls -> c_name c1 = c_name c2 -> c_graph c1 = c_graph c2.

  Lemma run_history_inv : forall naming calls st,
      cache_inv naming st ->
      (forall c, In c calls -> c_graph c = naming (c_name c)) ->
      run_history st calls
      = map (fun c => fst (auto_step A caches_empty (c_name c) (c_graph c) (c_root c) (c_phi c) (c_u c))) calls.
  Proof.
    intros naming. induction calls as [|c calls IH]; intros st Hst Hn; cbn [run_history map]; [reflexivity|].
    assert (Hg : c_graph c = naming (c_name c)) by (apply Hn; left; reflexivity).
    destruct (auto_step_inv naming st (c_name c) (c_root c) (c_phi c) (c_u c) Hst) as [Hv Hi].
    rewrite fresh_is_fresh. rewrite Hg at 1 2. rewrite Hv. rewrite <- Hg. f_equal.
    rewrite Hg at 1. apply IH; [exact Hi|]. intros c' Hc'. apply Hn. right. exact Hc'.
  Qed.

  Lemma naming_exists : forall calls, distinctly_named calls ->
      exists naming, forall c, In c calls -> c_graph c = naming (c_name c).
  Proof.
    induction calls as [|c calls IH]; intros Hd.
    - exists (fun _ => ([], [])). intros c [].
    - destruct IH as [nm Hnm].
      { intros c1 c2 H1 H2. apply Hd; right; assumption. }
      exists (fun n => if mname_eqb n (c_name c) then c_graph c else nm n).
      intros c' [<-|Hc'].
      + rewrite mname_eqb_refl. reflexivity.
      + destruct (mname_eqb (c_name c') (c_name c)) eqn:E.
        * apply mname_eqb_eq in E. apply Hd; [right; exact Hc'|left; reflexivity|exact E].
        * apply Hnm. exact Hc'.
  Qed.

  Theorem history_independent : forall calls,
      distinctly_named calls ->
      run_history caches_empty calls
      = map (fun c => fst (auto_step A caches_empty (c_name c) (c_graph c) (c_root c) (c_phi c) (c_u c))) calls.
  Proof.
    intros calls Hd. destruct (naming_exists calls Hd) as [naming Hn].
    apply (run_history_inv naming); [apply cache_inv_empty|exact Hn].
  Qed.
End History.

(* ================================================================== *)
(* 8. only the values of u on the motif's own vertices matter *)
Section Ext.
  Context {T : Type} (A : alg T).
  Lemma term_of_ext : forall g root phi u u' c combos,
      (forall v, In v (g_nodes g) -> u v = u' v) ->
      term_of A g root phi u c combos = term_of A g root phi u' c combos.
  Proof.
    intros g root phi u u' c combos Hu.
    assert (Hm : forall ec, map u (filter (fun v => negb (Nat.eqb v root)) (live_nodes (g_nodes g) ec))
                          = map u' (filter (fun v => negb (Nat.eqb v root)) (live_nodes (g_nodes g) ec))).
    { intros ec. apply map_ext_in. intros v Hv. apply filter_In in Hv. destruct Hv as [Hv _].
      unfold live_nodes in Hv. apply filter_In in Hv. apply Hu, Hv. }
    unfold term_of. destruct c as [|v [|w c']]; rewrite ?Hm; reflexivity.
  Qed.
  Lemma auto_gen_ext : forall g root phi u u',
      (forall v, In v (g_nodes g) -> u v = u' v) ->
      auto_gen A g root phi u = auto_gen A g root phi u'.
  Proof.
    intros g root phi u u' Hu. unfold auto_gen. f_equal. apply map_ext. intros c.
    apply term_of_ext, Hu.
  Qed.
  Lemma exact_rec_ext : forall nodes root phi u u',
      (forall v, In v nodes -> u v = u' v) ->
      forall es kept, exact_rec A nodes root phi u es kept = exact_rec A nodes root phi u' es kept.
  Proof.
    intros nodes root phi u u' Hu. induction es as [|e es IH]; intros kept; cbn [exact_rec].
    - f_equal. apply map_ext_in. intros v Hv. apply filter_In in Hv. destruct Hv as [Hv _].
      unfold comp in Hv. apply filter_In in Hv. apply Hu, Hv.
    - rewrite !IH. reflexivity.
  Qed.
  Lemma exact_gen_ext : forall g root phi u u',
      (forall v, In v (g_nodes g) -> u v = u' v) ->
      exact_gen A g root phi u = exact_gen A g root phi u'.
  Proof. intros. unfold exact_gen. apply exact_rec_ext. assumption. Qed.
End Ext.

(* from the boolean polynomial identity to the statement about all rational phi, u *)
Lemma peq_identity_lift : forall k es r,
    peq (auto_expr (seq 0 k, es) r) (exact_expr (seq 0 k, es) r) = true ->
    forall (phi : Q) (u : nat -> Q),
      (auto_q (seq 0 k, es) r phi u == expectation (seq 0 k, es) r phi u)%Q.
Proof.
  intros k es r Hp phi u.
  pose (env := env_of phi (map u (seq 0 k))).
  assert (Hu : forall v, In v (g_nodes (seq 0 k, es)) -> peval env (eu0 v) = u v).
  { intros v Hv. cbn [g_nodes fst] in Hv. apply in_seq in Hv. unfold env. rewrite peval_eu0.
    rewrite (nth_indep _ 0%Q (u 0)) by (rewrite map_length, seq_length; lia).
    rewrite map_nth, seq_nth by lia. reflexivity. }
  pose proof (peq_sound _ _ Hp env) as He.
  unfold auto_expr, exact_expr in He.
  rewrite (auto_gen_hom alg_pe alg_q (peval env) (peval_hom env)) in He.
  rewrite (exact_gen_hom alg_pe alg_q (peval env) (peval_hom env)) in He.
  rewrite (auto_gen_ext alg_q _ r _ _ u Hu) in He.
  rewrite (exact_gen_ext alg_q _ r _ _ u Hu) in He.
  change (peval env ephi0) with phi in He.
  unfold auto_q. rewrite He. apply expectation_rec.
Qed.

Lemma graphs_upto_in : forall n k es,
    k <= n -> In es (sublists (all_pairs k)) -> In (seq 0 k, es) (graphs_upto n).
Proof.
  intros n k es Hk He. unfold graphs_upto. apply in_flat_map. exists k. split.
  - apply in_seq. lia.
  - unfold graphs_on. apply (in_map (fun es0 => (seq 0 k, es0))). exact He.
Qed.

(* ================================================================== *)

(* ================================================================== *)
(* 9. related arithmetics compute related values (used for: reduced fractions in the extracted
   model, and compatibility of the rational model with Qeq) *)
Record alg_rel {S T} (A : alg S) (B : alg T) (R : S -> T -> Prop) : Prop := mk_rel {
  r_0 : R (a0 A) (a0 B);
  r_1 : R (a1 A) (a1 B);
  r_add : forall x x' y y', R x x' -> R y y' -> R (aadd A x y) (aadd B x' y');
  r_mul : forall x x' y y', R x x' -> R y y' -> R (amul A x y) (amul B x' y');
  r_sub : forall x x' y y', R x x' -> R y y' -> R (asub A x y) (asub B x' y');
  r_pow : forall x x' n, R x x' -> R (apow A x n) (apow B x' n) }.

Section Rel.
  Context {S T : Type} (A : alg S) (B : alg T) (R : S -> T -> Prop) (H : alg_rel A B R).

  Lemma fold_add_rel : forall l l', Forall2 R l l' -> forall acc acc', R acc acc' ->
      R (fold_left (aadd A) l acc) (fold_left (aadd B) l' acc').
  Proof.
    induction 1 as [|x x' l l' Hx Hl IH]; intros acc acc' Hacc; cbn [fold_left]; [exact Hacc|].
    apply IH. apply (r_add _ _ _ H); assumption.
  Qed.
  Lemma fold_mul_rel : forall l l', Forall2 R l l' -> forall acc acc', R acc acc' ->
      R (fold_left (amul A) l acc) (fold_left (amul B) l' acc').
  Proof.
    induction 1 as [|x x' l l' Hx Hl IH]; intros acc acc' Hacc; cbn [fold_left]; [exact Hacc|].
    apply IH. apply (r_mul _ _ _ H); assumption.
  Qed.
  Lemma Forall2_map_rel : forall {X} (f : X -> S) (f' : X -> T) l,
      (forall x, R (f x) (f' x)) -> Forall2 R (map f l) (map f' l).
  Proof. intros X f f' l Hf. induction l; cbn [map]; constructor; auto. Qed.

  Lemma term_of_rel : forall g root phi phi' u u' c combos,
      R phi phi' -> (forall v, R (u v) (u' v)) ->
      R (term_of A g root phi u c combos) (term_of B g root phi' u' c combos).
  Proof.
    intros g root phi phi' u u' c combos Hphi Hu.
    assert (H1m : R (asub A (a1 A) phi) (asub B (a1 B) phi')).
    { apply (r_sub _ _ _ H); [apply (r_1 _ _ _ H)|exact Hphi]. }
    assert (Hgen : forall ec ni,
      R (asum A (map (fun n => amul A (amul A (amul A (apow A phi (length ec - n))
                 (apow A (asub A (a1 A) phi) n)) (apow A (asub A (a1 A) phi) ni))
                 (aprod A (map u (filter (fun v => negb (Nat.eqb v root)) (live_nodes (g_nodes g) ec))))) combos))
        (asum B (map (fun n => amul B (amul B (amul B (apow B phi' (length ec - n))
                 (apow B (asub B (a1 B) phi') n)) (apow B (asub B (a1 B) phi') ni))
                 (aprod B (map u' (filter (fun v => negb (Nat.eqb v root)) (live_nodes (g_nodes g) ec))))) combos))).
    { intros ec ni. unfold asum. apply fold_add_rel; [|apply (r_0 _ _ _ H)].
      apply Forall2_map_rel. intros n.
      apply (r_mul _ _ _ H); [apply (r_mul _ _ _ H); [apply (r_mul _ _ _ H)|]|].
      1-3: apply (r_pow _ _ _ H); assumption.
      unfold aprod. apply fold_mul_rel; [|apply (r_1 _ _ _ H)].
      apply Forall2_map_rel. exact Hu. }
    unfold term_of. destruct c as [|v [|w c']].
    - apply Hgen.
    - apply (r_pow _ _ _ H). exact H1m.
    - apply Hgen.
  Qed.

  Lemma auto_gen_rel : forall g root phi phi' u u',
      R phi phi' -> (forall v, R (u v) (u' v)) ->
      R (auto_gen A g root phi u) (auto_gen B g root phi' u').
  Proof.
    intros. unfold auto_gen, asum. apply fold_add_rel; [|apply (r_0 _ _ _ H)].
    apply Forall2_map_rel. intros c. apply term_of_rel; assumption.
  Qed.

  Lemma exact_rec_rel : forall nodes root phi phi' u u',
      R phi phi' -> (forall v, R (u v) (u' v)) ->
      forall es kept, R (exact_rec A nodes root phi u es kept) (exact_rec B nodes root phi' u' es kept).
  Proof.
    intros nodes root phi phi' u u' Hphi Hu. induction es as [|e es IH]; intros kept; cbn [exact_rec].
    - unfold aprod. apply fold_mul_rel; [|apply (r_1 _ _ _ H)].
      apply Forall2_map_rel. exact Hu.
    - apply (r_add _ _ _ H); apply (r_mul _ _ _ H); try apply IH; try assumption.
      apply (r_sub _ _ _ H); [apply (r_1 _ _ _ H)|exact Hphi].
  Qed.
  Lemma exact_gen_rel : forall g root phi phi' u u',
      R phi phi' -> (forall v, R (u v) (u' v)) ->
      R (exact_gen A g root phi u) (exact_gen B g root phi' u').
  Proof. intros. unfold exact_gen. apply exact_rec_rel; assumption. Qed.
End Rel.

Lemma alg_q_proper : alg_rel alg_q alg_q Qeq.
Proof.
  constructor; cbn [alg_q a0 a1 aadd amul asub apow]; try reflexivity.
  - intros x x' y y' Hx Hy. rewrite Hx, Hy. reflexivity.
  - intros x x' y y' Hx Hy. rewrite Hx, Hy. reflexivity.
  - intros x x' y y' Hx Hy. rewrite Hx, Hy. reflexivity.
  - intros x x' n Hx. rewrite Hx. reflexivity.
Qed.
Lemma alg_qr_q : alg_rel alg_qr alg_q Qeq.
Proof.
  constructor; cbn [alg_qr alg_q a0 a1 aadd amul asub apow]; try reflexivity.
  - intros x x' y y' Hx Hy. rewrite Qred_correct, Hx, Hy. reflexivity.
  - intros x x' y y' Hx Hy. rewrite Hx, Hy. reflexivity.
  - intros x x' y y' Hx Hy. rewrite Hx, Hy. reflexivity.
  - intros x x' n Hx. rewrite Hx. reflexivity.
Qed.

Lemma expectation_proper : forall g r phi phi' u u',
    (phi == phi')%Q -> (forall v, (u v == u' v)%Q) ->
    (expectation g r phi u == expectation g r phi' u')%Q.
Proof.
  intros g r phi phi' u u' Hphi Hu. rewrite <- !expectation_rec.
  apply (exact_gen_rel alg_q alg_q Qeq alg_q_proper); assumption.
Qed.

(* the lifting for a motif with arbitrary vertex labels (used by C17) *)
Lemma peq_identity_lift_gen : forall g r,
    peq (auto_expr g r) (exact_expr g r) = true ->
    forall (phi : Q) (u : nat -> Q), (auto_q g r phi u == expectation g r phi u)%Q.
Proof.
  intros g r Hp phi u.
  pose (n := S (list_max (g_nodes g))).
  pose (env := env_of phi (map u (seq 0 n))).
  assert (Hu : forall v, In v (g_nodes g) -> peval env (eu0 v) = u v).
  { intros v Hv.
    assert (Hle : v <= list_max (g_nodes g)).
    { pose proof (proj1 (list_max_le (g_nodes g) (list_max (g_nodes g))) (le_n _)) as Hf.
      rewrite Forall_forall in Hf. apply Hf, Hv. }
    unfold env. rewrite peval_eu0.
    rewrite (nth_indep _ 0%Q (u 0)) by (rewrite map_length, seq_length; unfold n; lia).
    rewrite map_nth, seq_nth by (unfold n; lia). reflexivity. }
  pose proof (peq_sound _ _ Hp env) as He.
  unfold auto_expr, exact_expr in He.
  rewrite (auto_gen_hom alg_pe alg_q (peval env) (peval_hom env)) in He.
  rewrite (exact_gen_hom alg_pe alg_q (peval env) (peval_hom env)) in He.
  rewrite (auto_gen_ext alg_q _ r _ _ u Hu) in He.
  rewrite (exact_gen_ext alg_q _ r _ _ u Hu) in He.
  change (peval env ephi0) with phi in He.
  unfold auto_q. rewrite He. apply expectation_rec.
Qed.

(* ================================================================== *)
(* 10. the edge combinations of a component do not depend on the root: a table shared by all roots
   of a graph (used to make the reflection over all graphs cheaper; pure optimisation) *)
Definition combos_tbl (g : graph) : list (list nat * list nat) :=
  map (fun s => (s, combos_for g s)) (sublists (g_nodes g)).
Definition tbl_combos (tbl : list (list nat * list nat)) (g : graph) (c : list nat) : list nat :=
  match find (fun e => same_setb c (fst e)) tbl with Some e => snd e | None => combos_for g c end.
Definition auto_tbl {T} (A : alg T) (tbl : list (list nat * list nat)) (g : graph) (root : nat) (phi : T) (u : nat -> T) : T :=
  asum A (map (fun c => term_of A g root phi u c (tbl_combos tbl g c)) (enum g root)).

Lemma memb_subsetb : forall a b v, subsetb a b = true -> memb v a = true -> memb v b = true.
Proof.
  intros a b v Hs Hv. unfold subsetb in Hs. rewrite forallb_forall in Hs.
  unfold memb in Hv. apply existsb_exists in Hv. destruct Hv as [x [Hx Hvx]].
  apply Nat.eqb_eq in Hvx. subst x. apply Hs, Hx.
Qed.
Lemma same_setb_memb : forall a b, same_setb a b = true -> forall v, memb v a = memb v b.
Proof.
  intros a b Hs v. unfold same_setb in Hs. apply andb_true_iff in Hs. destruct Hs as [Hab Hba].
  destruct (memb v a) eqn:Ea, (memb v b) eqn:Eb; auto.
  - rewrite (memb_subsetb a b v Hab Ea) in Eb. discriminate.
  - rewrite (memb_subsetb b a v Hba Eb) in Ea. discriminate.
Qed.
Lemma combos_for_same_set : forall g c s, same_setb c s = true -> combos_for g c = combos_for g s.
Proof.
  intros g c s Hs. unfold combos_for.
  assert (E : internal_edges (g_edges g) c = internal_edges (g_edges g) s).
  { unfold internal_edges. apply filter_ext. intros e. unfold in_c. rewrite !(same_setb_memb c s Hs). reflexivity. }
  rewrite E. reflexivity.
Qed.
Lemma tbl_combos_ok : forall g c, tbl_combos (combos_tbl g) g c = combos_for g c.
Proof.
  intros g c. unfold tbl_combos. destruct (find _ (combos_tbl g)) as [e|] eqn:F; [|reflexivity].
  apply find_some in F. destruct F as [Hin Hs]. unfold combos_tbl in Hin. apply in_map_iff in Hin.
  destruct Hin as [s [<- _]]. cbn [fst snd] in *. symmetry. apply combos_for_same_set, Hs.
Qed.
Lemma auto_tbl_ok : forall {T} (A : alg T) g root phi u,
    auto_tbl A (combos_tbl g) g root phi u = auto_gen A g root phi u.
Proof.
  intros. unfold auto_tbl, auto_gen. f_equal. apply map_ext. intros c. rewrite tbl_combos_ok. reflexivity.
Qed.


Lemma in_combine_map : forall {X Y} (f : X -> Y) (l : list X) x, In x l -> In (x, f x) (combine l (map f l)).
Proof.
  intros X Y f. induction l as [|y l IH]; intros x Hx; [contradiction|].
  cbn [map combine]. destruct Hx as [<-|Hx]; [left; reflexivity|right; apply IH, Hx].
Qed.
Lemma filter_map_length : forall {X Y} (p : Y -> bool) (f : X -> Y) l,
    length (filter p (map f l)) = length (filter (fun x => p (f x)) l).
Proof.
  intros X Y p f. induction l as [|x l IH]; [reflexivity|]. cbn [map filter].
  destruct (p (f x)); cbn [length]; rewrite IH; reflexivity.
Qed.
