(* Growth of C11: COMPLETENESS of the verified checkers check_hard / check_shape (soundness is in
   Proofs/McmcP.v), hence both checkers DECIDE the Prop-level clauses Hard / Shape. *)
From Coq Require Import List ZArith QArith Bool Arith Lia Permutation Sorting.Sorted Orders Mergesort.
From GV Require Import Lib.Tree Model.DrawSet Proofs.DrawSetP Model.Mcmc Proofs.McmcP.
Import ListNotations.
Local Open Scope Z_scope.

(* ================================================================== sorting: canonical forms *)
Definition lebR (x y : Z) : Prop := is_true (x <=? y).

Lemma lebR_le x y : lebR x y <-> x <= y.
Proof. unfold lebR, is_true. apply Z.leb_le. Qed.

Lemma sort_strongly l : StronglySorted lebR (ZSort.sort l).
Proof.
  apply ZSort.StronglySorted_sort. intros x y z H1 H2.
  apply lebR_le in H1, H2. apply lebR_le. lia.
Qed.

Lemma sorted_perm_eq l1 : forall l2,
  StronglySorted lebR l1 -> StronglySorted lebR l2 -> Permutation l1 l2 -> l1 = l2.
Proof.
  induction l1 as [|x l1 IH]; intros l2 H1 H2 HP.
  - apply Permutation_nil in HP. now subst.
  - destruct l2 as [|y l2]; [apply Permutation_sym, Permutation_nil in HP; discriminate|].
    inversion H1 as [|? ? S1 F1]; subst. inversion H2 as [|? ? S2 F2]; subst.
    rewrite Forall_forall in F1, F2.
    assert (Exy : x = y).
    { assert (Hx : In x (y :: l2)) by (eapply Permutation_in; [exact HP|now left]).
      assert (Hy : In y (x :: l1)) by (eapply Permutation_in; [apply Permutation_sym; exact HP|now left]).
      destruct Hx as [->|Hx]; [reflexivity|]. destruct Hy as [->|Hy]; [reflexivity|].
      apply F2, lebR_le in Hx. apply F1, lebR_le in Hy. lia. }
    subst y. f_equal. apply IH; [exact S1|exact S2|]. eapply Permutation_cons_inv; exact HP.
Qed.

Lemma sort_perm_eq l1 l2 : Permutation l1 l2 -> ZSort.sort l1 = ZSort.sort l2.
Proof.
  intros H. apply sorted_perm_eq; [apply sort_strongly|apply sort_strongly|].
  eapply Permutation_trans; [apply Permutation_sym, ZSort.Permuted_sort|].
  eapply Permutation_trans; [exact H|apply ZSort.Permuted_sort].
Qed.

Lemma strict_inc_complete l : StronglySorted lebR l -> NoDup l -> strict_inc l = true.
Proof.
  induction l as [|x r IH]; intros HS HN; [reflexivity|].
  inversion HS as [|? ? S F]; subst. inversion HN as [|? ? Hn N']; subst.
  cbn [strict_inc]. destruct r as [|y r']; [reflexivity|].
  rewrite (IH S N'), andb_true_r. apply Z.ltb_lt.
  rewrite Forall_forall in F. assert (Hy : lebR x y) by (apply F; now left). apply lebR_le in Hy.
  assert (x <> y) by (intros ->; apply Hn; now left). lia.
Qed.

Lemma strongly_lt_lebR l : StronglySorted Z.lt l -> StronglySorted lebR l.
Proof.
  induction 1 as [|x l S IH F]; constructor; [exact IH|].
  eapply Forall_impl; [|exact F]. intros y Hy. apply lebR_le. cbv beta in Hy. lia.
Qed.

Lemma strict_sorted_ext l1 l2 :
  StronglySorted Z.lt l1 -> StronglySorted Z.lt l2 -> (forall x, In x l1 <-> In x l2) -> l1 = l2.
Proof.
  intros H1 H2 HE. apply sorted_perm_eq; [now apply strongly_lt_lebR|now apply strongly_lt_lebR|].
  apply NoDup_Permutation; [now apply strongly_sorted_lt_nodup|now apply strongly_sorted_lt_nodup|exact HE].
Qed.

Lemma uniq_strict l : StronglySorted lebR l -> StronglySorted Z.lt (uniq l).
Proof.
  induction l as [|x r IH]; intros HS; [constructor|].
  inversion HS as [|? ? S F]; subst. destruct r as [|y r'].
  - cbn. constructor; constructor.
  - change (uniq (x :: y :: r')) with (if x =? y then uniq (y :: r') else x :: uniq (y :: r')).
    destruct (Z.eqb_spec x y) as [->|Hne]; [exact (IH S)|].
    constructor; [exact (IH S)|]. apply Forall_forall. intros z Hz. apply (proj1 (uniq_In _ _)) in Hz.
    rewrite Forall_forall in F.
    assert (Hxy : lebR x y) by (apply F; now left). apply lebR_le in Hxy.
    inversion S as [|? ? S' F']; subst. rewrite Forall_forall in F'.
    destruct Hz as [<-|Hz]; [lia|]. apply F', lebR_le in Hz. lia.
Qed.

Lemma ids_strict es : StronglySorted Z.lt (ids es).
Proof. unfold ids. apply uniq_strict, sort_strongly. Qed.

Lemma ids_ext es1 es2 : (forall m, In m (ids es1) <-> In m (ids es2)) -> ids es1 = ids es2.
Proof. intros H. apply strict_sorted_ext; [apply ids_strict|apply ids_strict|exact H]. Qed.

(* ================================================================== well-formedness *)
Lemma enc_key_inj N e1 e2 :
  0 <= eb e1 < N -> 0 <= eb e2 < N -> enc N e1 = enc N e2 -> key e1 = key e2.
Proof.
  unfold enc, key. intros H1 H2 H. assert (ea e1 = ea e2) by nia. f_equal; [assumption|nia].
Qed.

Lemma NoDup_map_enc N es :
  (forall e, In e es -> 0 <= ea e /\ ea e < eb e /\ eb e < N) -> NoDup (map key es) -> NoDup (map (enc N) es).
Proof.
  induction es as [|e es IH]; intros HR HN; [constructor|]. cbn [map] in *.
  inversion HN as [|? ? Hn N']; subst. constructor.
  - intros Hin. apply in_map_iff in Hin. destruct Hin as [e' [E He']]. apply Hn.
    apply in_map_iff. exists e'. split; [|exact He'].
    apply (enc_key_inj N); [| |exact E].
    + specialize (HR e' (or_intror He')). lia.
    + specialize (HR e (or_introl eq_refl)). lia.
  - apply IH; [|exact N']. intros e' He'. apply HR. now right.
Qed.

Lemma wfb_complete N es : WF N es -> wfb N es = true.
Proof.
  intros [HR HN]. unfold wfb. apply andb_true_iff. split.
  - apply forallb_forall. intros e He. apply wf_edge_spec. now apply HR.
  - apply strict_inc_complete; [apply sort_strongly|].
    eapply Permutation_NoDup; [apply ZSort.Permuted_sort|]. now apply NoDup_map_enc.
Qed.

Theorem wfb_iff N es : wfb N es = true <-> WF N es.
Proof. split; [apply wfb_sound|apply wfb_complete]. Qed.

(* ================================================================== multisets of (Z, nat) pairs *)
Definition stub_dec (p q : Z * nat) : {p = q} + {p <> q}.
Proof. decide equality; [apply Nat.eq_dec|apply Z.eq_dec]. Defined.

Lemma count_stub_occ s l : count_stub s l = count_occ stub_dec l s.
Proof.
  induction l as [|p l IH]; [reflexivity|]. rewrite count_stub_cons, IH. cbn [count_occ].
  destruct (stub_dec p s) as [->|Hne].
  - rewrite (proj2 (stub_eqb_eq s s) eq_refl). reflexivity.
  - destruct (stub_eqb s p) eqn:E; [|reflexivity]. apply stub_eqb_eq in E. congruence.
Qed.

Lemma count_stub_perm_iff l l0 : (forall s, count_stub s l = count_stub s l0) -> Permutation l l0.
Proof.
  intros H. apply (Permutation_count_occ stub_dec). intros s. rewrite <- !count_stub_occ. apply H.
Qed.

Lemma count_stub_pos_In s l : (0 < count_stub s l)%nat <-> In s l.
Proof. rewrite count_stub_occ. symmetry. apply count_occ_In. Qed.

Lemma pairs_eqb_complete K l l0 :
  (forall s, count_stub s l = count_stub s l0) -> (forall p, In p l0 -> (snd p < K)%nat) ->
  pairs_eqb K l l0 = true.
Proof.
  intros H Hl0. pose proof (count_stub_perm_iff l l0 H) as HP.
  unfold pairs_eqb. apply andb_true_iff. split.
  - apply forallb_forall. intros s Hs. apply Nat.ltb_lt. apply Hl0. eapply Permutation_in; eauto.
  - apply zs_eqb_eq. apply sort_perm_eq. now apply Permutation_map.
Qed.

Lemma stubs_bound es0 p : In p (stubs es0) -> (snd p < topo_bound es0)%nat.
Proof.
  intros Hp. unfold stubs in Hp. apply in_flat_map in Hp. destruct Hp as [e [He Hp]].
  cbn in Hp. destruct Hp as [<-|[<-|[]]]; cbn; now apply topo_bound_gt.
Qed.

Lemma labels_bound es0 p : In p (labels es0) -> (snd p < topo_bound es0)%nat.
Proof.
  intros Hp. unfold labels in Hp. apply in_map_iff in Hp. destruct Hp as [e [<- He]]. cbn. now apply topo_bound_gt.
Qed.

Lemma degrees_eqb_complete es0 es :
  (forall v t, tdeg es v t = tdeg es0 v t) -> degrees_eqb es0 es = true.
Proof.
  intros H. apply pairs_eqb_complete; [|apply stubs_bound]. intros [v t]. apply (H v t).
Qed.

Lemma classes_eqb_complete es0 es :
  (forall m t, class_count es m t = class_count es0 m t) -> classes_eqb es0 es = true.
Proof.
  intros H. apply pairs_eqb_complete; [|apply labels_bound]. intros [m t]. apply (H m t).
Qed.

Theorem check_hard_complete nodes0 es0 nodes es :
  Hard nodes0 es0 nodes es -> check_hard nodes0 es0 nodes es = true.
Proof.
  intros [Hn [Hw [Hl [Hd Hc]]]]. unfold check_hard. rewrite !andb_true_iff. repeat split.
  - now apply zss_eqb_eq.
  - now apply wfb_complete.
  - now apply Nat.eqb_eq.
  - now apply degrees_eqb_complete.
  - now apply classes_eqb_complete.
Qed.

Theorem check_hard_iff nodes0 es0 nodes es :
  check_hard nodes0 es0 nodes es = true <-> Hard nodes0 es0 nodes es.
Proof. split; [apply check_hard_sound|apply check_hard_complete]. Qed.

(* ================================================================== the shape checker *)
Lemma assigns_complete dom : forall cod (f : Z -> Z),
  NoDup dom -> inj_on f dom -> (forall x, In x dom -> In (f x) cod) ->
  In (map (fun x => (x, f x)) dom) (assigns dom cod).
Proof.
  induction dom as [|x dom IH]; intros cod f HN HI HC; [now left|].
  inversion HN as [|? ? Hn N']; subst. cbn [assigns map].
  apply in_flat_map. exists (f x). split; [apply HC; now left|].
  apply in_map. apply IH; [exact N'| |].
  - intros a b Ha Hb. apply HI; now right.
  - intros a Ha. apply removez_In. split; [apply HC; now right|].
    intros E. apply HI in E; [|now right|now left]. subst a. contradiction.
Qed.

Lemma rho_app_graph (f : Z -> Z) dom x :
  NoDup dom -> In x dom -> rho_app (map (fun y => (y, f y)) dom) x = f x.
Proof.
  intros HN Hx. apply rho_app_in.
  - rewrite map_map. cbn [fst]. now rewrite map_id.
  - apply in_map_iff. exists x. now split.
Qed.

Lemma ends_in_verts l e : In e l -> In (ea e) (verts l) /\ In (eb e) (verts l).
Proof.
  intros He. unfold verts. rewrite !dedup_In, !in_flat_map.
  split; exists e; (split; [exact He|cbn; tauto]).
Qed.

Lemma motif_edges_nonempty es m : In m (ids es) <-> motif_edges es m <> [].
Proof.
  rewrite ids_In. unfold motif_edges. split.
  - intros [e [He E]] Hnil.
    assert (Hin : In e (filter (fun e0 => em e0 =? m) es)) by (apply filter_In; split; [exact He|now apply Z.eqb_eq]).
    rewrite Hnil in Hin. destruct Hin.
  - intros H. destruct (filter (fun e0 => em e0 =? m) es) as [|e r] eqn:E; [congruence|].
    assert (Hin : In e (filter (fun e0 => em e0 =? m) es)) by (rewrite E; now left).
    apply filter_In in Hin. destruct Hin as [He Hm]. exists e. split; [exact He|now apply Z.eqb_eq].
Qed.

Lemma Shape_ids es0 es : Shape es0 es -> forall m, In m (ids es) <-> In m (ids es0).
Proof.
  intros HS m. destruct (HS m) as [rho [_ Hiff]]. rewrite !motif_edges_nonempty. split; intros H Hnil; apply H.
  - destruct (motif_edges es m) as [|e r] eqn:E; [reflexivity|]. exfalso.
    assert (Hin : In (item_of e) (map item_of (e :: r))) by (now left).
    apply Hiff in Hin. rewrite Hnil in Hin. destruct Hin.
  - destruct (motif_edges es0 m) as [|e r] eqn:E; [reflexivity|]. exfalso.
    assert (Hin : In (rename_item rho e) (map (rename_item rho) (e :: r))) by (now left).
    apply Hiff in Hin. rewrite Hnil in Hin. destruct Hin.
Qed.

Lemma shape_ok_complete es0 es m (rho : Z -> Z) :
  inj_on rho (verts (motif_edges es0 m)) ->
  (forall it, In it (map item_of (motif_edges es m)) <-> In it (map (rename_item rho) (motif_edges es0 m))) ->
  shape_ok es0 es m = true.
Proof.
  intros HI Hiff. unfold shape_ok. cbv zeta.
  set (E0 := motif_edges es0 m) in *. set (E1 := motif_edges es m) in *.
  set (r := map (fun x => (x, rho x)) (verts E0)).
  assert (HND : NoDup (verts E0)) by apply dedup_NoDup.
  (* rho maps the old motif's vertices into the new motif's vertices *)
  assert (Hcod : forall x, In x (verts E0) -> In (rho x) (verts E1)).
  { intros x Hx. apply verts_touch in Hx. destruct Hx as [e [He Ht]].
    assert (Hin : In (rename_item rho e) (map (rename_item rho) E0)) by (now apply in_map).
    apply Hiff in Hin. apply in_map_iff in Hin. destruct Hin as [e' [E' He']].
    destruct (ends_in_verts E1 e' He') as [Va Vb].
    unfold rename_item, item_of in E'. injection E' as Ea Eb _.
    apply touches_iff in Ht.
    destruct (norm_cases (rho (ea e)) (rho (eb e))) as [En|En]; rewrite En in Ea, Eb; cbn [fst snd] in Ea, Eb;
      destruct Ht as [<-|<-]; congruence. }
  apply existsb_exists. exists r. split; [now apply assigns_complete|].
  apply same_items_iff. intros it.
  assert (Emap : map (rename_item (rho_app r)) E0 = map (rename_item rho) E0).
  { apply map_ext_in. intros e He. destruct (ends_in_verts E0 e He) as [Va Vb].
    unfold rename_item, r. now rewrite !rho_app_graph by assumption. }
  rewrite Emap. symmetry. apply Hiff.
Qed.

Theorem check_shape_complete es0 es : Shape es0 es -> check_shape es0 es = true.
Proof.
  intros HS. unfold check_shape. apply andb_true_iff. split.
  - apply zs_eqb_eq. apply ids_ext. now apply Shape_ids.
  - apply forallb_forall. intros m _. destruct (HS m) as [rho [HI Hiff]].
    now apply (shape_ok_complete es0 es m rho).
Qed.

Theorem check_shape_iff es0 es : check_shape es0 es = true <-> Shape es0 es.
Proof. split; [apply check_shape_sound|apply check_shape_complete]. Qed.

Theorem check_inv_iff nodes0 es0 nodes es :
  check_inv nodes0 es0 nodes es = true <-> Hard nodes0 es0 nodes es /\ Shape es0 es.
Proof. unfold check_inv. rewrite andb_true_iff, check_hard_iff, check_shape_iff. tauto. Qed.

(* consequences for the model: the checkers accept every state of every run *)
Theorem rewire_passes_check_hard fixed nodes tg es0 sl cl evs :
  WF (Z.of_nat (length nodes)) es0 ->
  let C := mk_cfg fixed nodes tg es0 sl cl in
  let '(r, sf, tr) := rewire C es0 evs in
  Forall (fun s => check_hard nodes es0 nodes (s_es s) = true) (sf :: tr).
Proof.
  intros HW. cbv zeta. pose proof (rewire_inv fixed nodes tg es0 sl cl evs HW) as H. cbv zeta in H.
  destruct (rewire (mk_cfg fixed nodes tg es0 sl cl) es0 evs) as [[r sf] tr].
  destruct H as [H1 H2]. constructor.
  - apply check_hard_complete. apply H1.
  - rewrite Forall_forall in *. intros s Hs. apply check_hard_complete. apply (H2 s Hs).
Qed.

Theorem rewire_fixed_passes_check_inv nodes tg es0 sl cl evs :
  WF (Z.of_nat (length nodes)) es0 ->
  let C := mk_cfg true nodes tg es0 sl cl in
  let '(r, sf, tr) := rewire C es0 evs in
  Forall (fun s => check_inv nodes es0 nodes (s_es s) = true) (sf :: tr).
Proof.
  intros HW. cbv zeta. pose proof (rewire_shape_fixed nodes tg es0 sl cl evs HW) as H. cbv zeta in H.
  destruct (rewire (mk_cfg true nodes tg es0 sl cl) es0 evs) as [[r sf] tr].
  eapply Forall_impl; [|exact H]. intros s Hs. now apply check_inv_iff.
Qed.
