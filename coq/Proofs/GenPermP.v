(* Counting results behind C03: the sample space of the shuffles (Model/Gen.v: inserts, perms,
   prod_lists, schedules) is complete, duplicate-free on labelled stubs, and every vertex-level
   arrangement has the same multiplicity; product over topologies; checker soundness. *)
From Coq Require Import List ZArith Bool Arith Lia Permutation.
From GV Require Import Lib.Tree Lib.GenList Model.Gen Proofs.GenP.
Import ListNotations.

(* number of occurrences of a list in a list of lists *)
Fixpoint cnt (a : list nat) (L : list (list nat)) : nat :=
  match L with [] => 0 | x :: t => (if list_eqb a x then 1 else 0) + cnt a t end.

Lemma list_eqb_refl : forall a, list_eqb a a = true.
Proof. intros. now apply list_eqb_eq. Qed.

Lemma list_eqb_neq : forall a b, a <> b -> list_eqb a b = false.
Proof. intros a b H. destruct (list_eqb a b) eqn:E; [|reflexivity]. apply list_eqb_eq in E. contradiction. Qed.

Lemma cnt_app : forall a L1 L2, cnt a (L1 ++ L2) = cnt a L1 + cnt a L2.
Proof. intros a L1 L2. induction L1 as [|x t IH]; cbn; [reflexivity|]. rewrite IH. lia. Qed.

Lemma cnt_pos_In : forall a L, cnt a L > 0 <-> In a L.
Proof.
  intros a L. induction L as [|x t IH]; cbn; [split; [lia|tauto]|].
  destruct (list_eqb a x) eqn:E.
  - apply list_eqb_eq in E. subst. split; [now left|lia].
  - rewrite Nat.add_0_l, IH. split; [now right|]. intros [H|H]; [|exact H].
    subst. rewrite list_eqb_refl in E. discriminate.
Qed.

Lemma cnt_map_cons : forall y L a,
  cnt a (map (cons y) L) = match a with [] => 0 | z :: a' => if Nat.eqb z y then cnt a' L else 0 end.
Proof.
  intros y L a. induction L as [|p L IH]; cbn [map cnt].
  - destruct a as [|z a']; [reflexivity|]. now destruct (Nat.eqb z y).
  - rewrite IH. destruct a as [|z a']; cbn [list_eqb]; [reflexivity|].
    destruct (Nat.eqb z y); cbn [andb]; reflexivity.
Qed.

Lemma cnt_flat_map : forall (f : list nat -> list (list nat)) a L,
  cnt a (flat_map f L) = fold_right (fun p acc => cnt a (f p) + acc) 0 L.
Proof. intros f a L. induction L as [|p L IH]; cbn; [reflexivity|]. now rewrite cnt_app, IH. Qed.

Lemma fold_ext : forall (g h : list nat -> nat) R, (forall q, g q = h q) ->
  fold_right (fun q acc => g q + acc) 0 R = fold_right (fun q acc => h q + acc) 0 R.
Proof. intros g h R H. induction R as [|q R IH]; cbn [fold_right]; [reflexivity|]. now rewrite H, IH. Qed.

Lemma fold_add : forall (g h : list nat -> nat) R,
  fold_right (fun q acc => (g q + h q) + acc) 0 R =
  fold_right (fun q acc => g q + acc) 0 R + fold_right (fun q acc => h q + acc) 0 R.
Proof. intros g h R. induction R as [|q R IH]; cbn [fold_right]; [reflexivity|]. rewrite IH. lia. Qed.

Lemma fold_indicator : forall p R,
  fold_right (fun q acc => (if list_eqb q p then 1 else 0) + acc) 0 R = cnt p R.
Proof.
  intros p R. induction R as [|q R IH]; cbn [fold_right cnt]; [reflexivity|]. rewrite IH.
  destruct (list_eqb q p) eqn:E.
  - apply list_eqb_eq in E. subst. now rewrite list_eqb_refl.
  - destruct (list_eqb p q) eqn:E2; [|reflexivity]. apply list_eqb_eq in E2. subst.
    rewrite list_eqb_refl in E. discriminate.
Qed.

(* double counting: sum over L of occurrences in R = sum over R of occurrences in L *)
Lemma cnt_swap : forall L R,
  fold_right (fun p acc => cnt p R + acc) 0 L = fold_right (fun q acc => cnt q L + acc) 0 R.
Proof.
  induction L as [|p L IH]; intros R.
  - cbn [fold_right]. induction R as [|q R IHR]; [reflexivity|]. cbn [fold_right cnt Nat.add]. exact IHR.
  - cbn [fold_right]. rewrite IH.
    rewrite (fold_ext (fun q => cnt q (p :: L)) (fun q => (if list_eqb q p then 1 else 0) + cnt q L))
      by (intros q; reflexivity).
    now rewrite fold_add, fold_indicator.
Qed.

Lemma fold_const : forall (g : list nat -> nat) c R,
  (forall q, In q R -> g q = c) -> fold_right (fun q acc => g q + acc) 0 R = length R * c.
Proof.
  intros g c R H. induction R as [|q R IH]; cbn; [reflexivity|].
  rewrite H by now left. rewrite IH; [reflexivity|]. intros q' Hq'. apply H. now right.
Qed.

(* all ways of deleting one occurrence of x from a *)
Fixpoint removals (x : nat) (a : list nat) : list (list nat) :=
  match a with
  | [] => []
  | y :: a' => (if Nat.eqb y x then [a'] else []) ++ map (cons y) (removals x a')
  end.

Lemma removals_length : forall x a, length (removals x a) = count x a.
Proof.
  intros x a. induction a as [|y a IH]; cbn; [reflexivity|].
  rewrite app_length, map_length, IH. rewrite (Nat.eqb_sym x y). now destruct (Nat.eqb y x).
Qed.

Lemma removals_perm : forall x a q, In q (removals x a) -> Permutation a (x :: q).
Proof.
  intros x a. induction a as [|y a IH]; intros q H; cbn in H; [contradiction|].
  apply in_app_or in H. destruct H as [H|H].
  - destruct (Nat.eqb_spec y x) as [->|]; [|contradiction]. destruct H as [<-|[]]. apply Permutation_refl.
  - apply in_map_iff in H. destruct H as [q' [<- Hq']]. specialize (IH q' Hq').
    eapply Permutation_trans; [apply perm_skip; exact IH|]. apply perm_swap.
Qed.

(* the key identity: occurrences of a among the insertions of x into p
   = occurrences of p among the removals of x from a *)
Lemma cnt_inserts_removals : forall x p a, cnt a (inserts x p) = cnt p (removals x a).
Proof.
  intros x p. induction p as [|y p IH]; intros a.
  - cbn [inserts cnt]. destruct a as [|z a']; [reflexivity|].
    cbn [removals]. rewrite cnt_app, cnt_map_cons. cbn [list_eqb].
    destruct (Nat.eqb_spec z x) as [->|Hne].
    + destruct a' as [|w a'']; cbn; reflexivity.
    + cbn. reflexivity.
  - cbn [inserts cnt]. rewrite cnt_map_cons. destruct a as [|z a'].
    + reflexivity.
    + cbn [removals]. rewrite cnt_app, cnt_map_cons. cbn [list_eqb]. rewrite IH.
      destruct (Nat.eqb_spec z x) as [->|Hne].
      * cbn [cnt]. rewrite Nat.add_0_r.
        replace (list_eqb (y :: p) a') with (list_eqb a' (y :: p)).
        2:{ destruct (list_eqb a' (y :: p)) eqn:E1.
            - apply list_eqb_eq in E1. subst a'. now rewrite list_eqb_refl.
            - symmetry. apply list_eqb_neq. intro; subst. rewrite list_eqb_refl in E1. discriminate. }
        rewrite (Nat.eqb_sym y x). reflexivity.
      * cbn [cnt]. rewrite (Nat.eqb_sym y z). reflexivity.
Qed.

(* multiplicity of any arrangement: product over positions of the number of equal later-or-same entries *)
Fixpoint mult (s : list nat) : nat :=
  match s with [] => 1 | x :: t => count x (x :: t) * mult t end.

Lemma mult_pos : forall s, mult s > 0.
Proof. induction s as [|x t IH]; cbn; [lia|]. rewrite Nat.eqb_refl. nia. Qed.

Lemma count_perm : forall a b v, Permutation a b -> count v a = count v b.
Proof. intros a b v H. now apply perm_count. Qed.

(* every arrangement of s occurs exactly mult s times among perms s *)
Theorem perms_multiplicity : forall s a, Permutation a s -> cnt a (perms s) = mult s.
Proof.
  induction s as [|x t IH]; intros a H.
  - apply Permutation_sym, Permutation_nil in H. subst. reflexivity.
  - cbn [perms mult]. rewrite cnt_flat_map.
    rewrite (fold_ext (fun p => cnt a (inserts x p)) (fun p => cnt p (removals x a)))
      by (intros p; apply cnt_inserts_removals).
    rewrite cnt_swap.
    rewrite (fold_const (fun q => cnt q (perms t)) (mult t)).
    + rewrite removals_length. now rewrite (count_perm _ _ x H).
    + intros q Hq. apply IH. apply removals_perm in Hq.
      apply Permutation_cons_inv with (a := x).
      eapply Permutation_trans; [apply Permutation_sym; exact Hq|exact H].
Qed.

(* ------------------------------------------------------------------ completeness, no duplicates *)
Lemma inserts_perm : forall x p a, In a (inserts x p) -> Permutation a (x :: p).
Proof.
  intros x p. induction p as [|y p IH]; intros a H; cbn in H.
  - destruct H as [<-|[]]. apply Permutation_refl.
  - destruct H as [<-|H]; [apply Permutation_refl|].
    apply in_map_iff in H. destruct H as [a' [<- Ha']].
    eapply Permutation_trans; [apply perm_skip, IH, Ha'|]. apply perm_swap.
Qed.

Theorem perms_complete : forall s a, In a (perms s) <-> Permutation a s.
Proof.
  intros s a. split.
  - revert a. induction s as [|x t IH]; intros a H; cbn in H.
    + destruct H as [<-|[]]. constructor.
    + apply in_flat_map in H. destruct H as [p [Hp Ha]].
      eapply Permutation_trans; [apply inserts_perm, Ha|]. apply perm_skip. now apply IH.
  - intros H. apply cnt_pos_In. rewrite (perms_multiplicity s a H). apply mult_pos.
Qed.

Lemma mult_nodup : forall s, NoDup s -> mult s = 1.
Proof.
  induction s as [|x t IH]; intros H; [reflexivity|]. inversion H as [|? ? Hn Hd]; subst.
  cbn [mult count]. rewrite Nat.eqb_refl, (count_zero_notin x t Hn), (IH Hd). reflexivity.
Qed.

Lemma cnt_one_nodup : forall L, (forall a, In a L -> cnt a L = 1) -> NoDup L.
Proof.
  induction L as [|x L IH]; intros H; [constructor|]. constructor.
  - intro Hin. specialize (H x (or_introl eq_refl)). cbn in H. rewrite list_eqb_refl in H.
    apply cnt_pos_In in Hin. lia.
  - apply IH. intros a Ha. specialize (H a (or_intror Ha)). cbn in H.
    destruct (list_eqb a x); [|exact H]. apply cnt_pos_In in Ha. lia.
Qed.

(* on labelled (pairwise distinct) stubs every assignment occurs exactly once *)
Theorem perms_nodup : forall s, NoDup s -> NoDup (perms s).
Proof.
  intros s H. apply cnt_one_nodup. intros a Ha. apply perms_complete in Ha.
  rewrite (perms_multiplicity s a Ha). now apply mult_nodup.
Qed.

(* the schedules of one shuffle: exactly the position permutations, each once *)
Theorem schedule_space : forall n,
  NoDup (perms (seq 0 n)) /\ forall pi, In pi (perms (seq 0 n)) <-> is_perm pi n.
Proof. intros n. split; [apply perms_nodup, seq_NoDup|intros pi; apply perms_complete]. Qed.

(* ------------------------------------------------------------------ push-forward along the shuffle *)
Lemma inserts_map : forall (f : nat -> nat) x p, inserts (f x) (map f p) = map (map f) (inserts x p).
Proof.
  intros f x p. induction p as [|y p IH]; cbn; [reflexivity|].
  rewrite IH, !map_map. reflexivity.
Qed.

Theorem perms_map : forall (f : nat -> nat) s, perms (map f s) = map (map f) (perms s).
Proof.
  intros f s. induction s as [|x t IH]; cbn; [reflexivity|].
  rewrite IH, !flat_map_concat_map, concat_map, !map_map. f_equal.
  apply map_ext. intros p. apply inserts_map.
Qed.

(* running the shuffle over all position permutations yields exactly perms of the stub list *)
Theorem shuffle_pushforward : forall s,
  map (fun pi => arrange pi s) (perms (seq 0 (length s))) = perms s.
Proof.
  intros s. unfold arrange. rewrite <- (perms_map (fun i => nth i s 0)). now rewrite map_nth_seq.
Qed.

(* uniformity: every arrangement of the stub list is produced by the same number (mult s) of
   the equally likely shuffle outcomes *)
Theorem shuffle_uniform : forall s a, Permutation a s ->
  cnt a (map (fun pi => arrange pi s) (perms (seq 0 (length s)))) = mult s.
Proof. intros s a H. rewrite shuffle_pushforward. now apply perms_multiplicity. Qed.

(* ------------------------------------------------------------------ product over topologies *)
Fixpoint cntl (t : list (list nat)) (L : list (list (list nat))) : nat :=
  match L with [] => 0 | x :: r => (if lists_eqb t x then 1 else 0) + cntl t r end.

Lemma cntl_app : forall t L1 L2, cntl t (L1 ++ L2) = cntl t L1 + cntl t L2.
Proof. intros t L1 L2. induction L1 as [|x r IH]; cbn; [reflexivity|]. rewrite IH. lia. Qed.

Lemma cntl_map_cons : forall a L t,
  cntl t (map (cons a) L) = match t with [] => 0 | b :: t' => if list_eqb b a then cntl t' L else 0 end.
Proof.
  intros a L t. induction L as [|p L IH]; cbn [map cntl].
  - destruct t as [|b t']; [reflexivity|]. now destruct (list_eqb b a).
  - rewrite IH. destruct t as [|b t']; cbn [lists_eqb]; [reflexivity|].
    destruct (list_eqb b a); cbn [andb]; reflexivity.
Qed.

Lemma cntl_prod_cons : forall l rest b t',
  cntl (b :: t') (prod_lists (l :: rest)) = cnt b l * cntl t' (prod_lists rest).
Proof.
  intros l rest b t'. cbn [prod_lists]. induction l as [|a l IH]; cbn [flat_map cnt]; [reflexivity|].
  rewrite cntl_app, cntl_map_cons, IH. destruct (list_eqb b a); lia.
Qed.

Fixpoint multl (sl : list (list nat)) : nat :=
  match sl with [] => 1 | s :: r => mult s * multl r end.

Lemma multl_pos : forall sl, multl sl > 0.
Proof. induction sl as [|s r IH]; cbn; [lia|]. pose proof (mult_pos s). nia. Qed.

(* independence: the joint multiplicity of a placement is the product of the per-topology ones,
   hence the same for every placement *)
Theorem joint_multiplicity : forall sl t,
  Forall2 (fun a s => Permutation a s) t sl ->
  cntl t (prod_lists (map perms sl)) = multl sl.
Proof.
  intros sl t H. induction H as [|a s t sl Ha H IH]; [reflexivity|].
  cbn [map multl]. rewrite cntl_prod_cons, IH. now rewrite (perms_multiplicity s a Ha).
Qed.

Lemma prod_lists_In : forall ls t, In t (prod_lists ls) <-> Forall2 (fun a l => In a l) t ls.
Proof.
  induction ls as [|l rest IH]; intros t; cbn [prod_lists].
  - split; [intros [<-|[]]; constructor|intros H; inversion H; now left].
  - rewrite in_flat_map. split.
    + intros [a [Ha Ht]]. apply in_map_iff in Ht. destruct Ht as [t' [<- Ht']].
      constructor; [exact Ha|now apply IH].
    + intros H. inversion H as [|a l' t' rest' Ha Ht']; subst. exists a. split; [exact Ha|].
      apply in_map. now apply IH.
Qed.

(* the joint outcome of all shuffles over the whole schedule space is the product space *)
Theorem schedules_pushforward : forall sl,
  map (fun pis => shuffle_all pis sl) (prod_lists (map (fun s => perms (seq 0 (length s))) sl)) =
  prod_lists (map perms sl).
Proof.
  induction sl as [|s sl IH]; [reflexivity|].
  cbn [map prod_lists]. rewrite <- (shuffle_pushforward s), <- IH.
  rewrite !flat_map_concat_map, concat_map, !map_map. f_equal.
  apply map_ext. intros pi. rewrite !map_map. apply map_ext. intros pis. reflexivity.
Qed.

(* C03 for the model: over the whole sample space of the shuffles (all topologies), every
   placement = tuple of arrangements of the stub lists occurs the same number of times *)
Theorem schedules_uniform : forall jds t,
  Forall2 (fun a s => Permutation a s) t (all_stubs jds) ->
  cntl t (map (fun pis => shuffle_all pis (all_stubs jds)) (schedules jds)) = multl (all_stubs jds).
Proof.
  intros jds t H. unfold schedules. rewrite schedules_pushforward. now apply joint_multiplicity.
Qed.

Theorem schedules_only_arrangements : forall jds pis,
  In pis (schedules jds) ->
  Forall2 (fun a s => Permutation a s) (shuffle_all pis (all_stubs jds)) (all_stubs jds).
Proof.
  intros jds pis H.
  assert (Hin : In (shuffle_all pis (all_stubs jds)) (prod_lists (map perms (all_stubs jds)))).
  { rewrite <- schedules_pushforward. now apply (in_map (fun pis => shuffle_all pis (all_stubs jds))). }
  apply prod_lists_In in Hin. clear H. revert Hin. generalize (shuffle_all pis (all_stubs jds)).
  induction (all_stubs jds) as [|s sl IH]; intros t Ht; inversion Ht; subst; constructor.
  - now apply perms_complete.
  - now apply IH.
Qed.

(* ------------------------------------------------------------------ relabelling *)
Lemma mult_perm : forall s s', Permutation s s' -> mult s = mult s'.
Proof.
  intros s s' H. induction H as [|x t t' H IH|x y t|s1 s2 s3 H1 IH1 H2 IH2].
  - reflexivity.
  - cbn [mult]. rewrite IH. f_equal. apply count_perm. now apply perm_skip.
  - destruct (Nat.eqb_spec x y) as [->|Hne]; [reflexivity|].
    cbn [mult count]. rewrite !Nat.eqb_refl.
    replace (Nat.eqb y x) with false by (symmetry; apply Nat.eqb_neq; congruence).
    replace (Nat.eqb x y) with false by (symmetry; now apply Nat.eqb_neq).
    ring.
  - congruence.
Qed.

Theorem perms_perm : forall s s', Permutation s s' -> forall a, cnt a (perms s) = cnt a (perms s').
Proof.
  intros s s' H a.
  destruct (cnt a (perms s)) as [|n] eqn:E1.
  - destruct (cnt a (perms s')) as [|m] eqn:E2; [reflexivity|]. exfalso.
    assert (Hin : In a (perms s')) by (apply cnt_pos_In; lia).
    apply perms_complete in Hin.
    assert (Hin2 : In a (perms s)).
    { apply perms_complete. eapply Permutation_trans; [exact Hin|now apply Permutation_sym]. }
    apply cnt_pos_In in Hin2. lia.
  - assert (Hin : In a (perms s)) by (apply cnt_pos_In; lia).
    apply perms_complete in Hin. rewrite <- E1.
    rewrite (perms_multiplicity s a Hin).
    rewrite (perms_multiplicity s' a (Permutation_trans Hin H)). now apply mult_perm.
Qed.

(* no dependence on vertex order / names: the sample space of a relabelled stub list is the
   relabelled sample space (same multiplicity of every element) *)
Theorem perms_relabel : forall (f : nat -> nat) s s', Permutation s' (map f s) ->
  forall a, cnt a (perms s') = cnt a (map (map f) (perms s)).
Proof. intros f s s' H a. rewrite <- perms_map. now apply perms_perm. Qed.

(* ------------------------------------------------------------------ the C03 checker *)
Definition IsPlacement (jds : list (list nat)) (t : list (list nat)) : Prop :=
  Forall2 (fun a s => Permutation a s) t (all_stubs jds).

(* flat and complete histogram of placements *)
Definition Spec_C03 (jds : list (list nat)) (obs : list (list (list nat) * nat)) : Prop :=
  (forall o, In o obs -> IsPlacement jds (fst o)) /\
  exists c, c > 0 /\ forall t, IsPlacement jds t -> wcount t obs = c.

Lemma memlb_In : forall a l, memlb a l = true <-> In a l.
Proof.
  intros a l. induction l as [|x t IH]; cbn; [split; [discriminate|tauto]|].
  rewrite orb_true_iff, list_eqb_eq, IH. split; intros [H|H]; auto.
Qed.

Lemma memllb_In : forall a l, memllb a l = true <-> In a l.
Proof.
  intros a l. induction l as [|x t IH]; cbn; [split; [discriminate|tauto]|].
  rewrite orb_true_iff, lists_eqb_eq, IH. split; intros [H|H]; auto.
Qed.

Lemma dedup_In : forall a l, In a (dedup l) <-> In a l.
Proof.
  intros a l. induction l as [|x t IH]; cbn; [tauto|].
  destruct (memlb x t) eqn:E.
  - rewrite IH. split; [now right|]. intros [<-|H]; [now apply memlb_In|exact H].
  - cbn. now rewrite IH.
Qed.

Lemma placement_space_In : forall jds t, In t (placement_space jds) <-> IsPlacement jds t.
Proof.
  intros jds. unfold placement_space, IsPlacement. induction (all_stubs jds) as [|s sl IH]; intros t.
  - cbn. split; [intros [<-|[]]; constructor|intros H; inversion H; now left].
  - cbn [map prod_lists]. rewrite in_flat_map. split.
    + intros [a [Ha Ht]]. apply in_map_iff in Ht. destruct Ht as [t' [<- Ht']].
      constructor; [now apply perms_complete, dedup_In|now apply IH].
    + intros H. inversion H as [|a s' t' sl' Ha Ht']; subst. exists a. split.
      * now apply dedup_In, perms_complete.
      * apply in_map. now apply IH.
Qed.

Theorem c03_okb_sound : forall jds obs, c03_okb jds obs = true -> Spec_C03 jds obs.
Proof.
  intros jds obs H. unfold c03_okb in H. cbv zeta in H.
  apply andb_true_iff in H. destruct H as [H H3]. apply andb_true_iff in H. destruct H as [H1 H2].
  rewrite forallb_forall in H2, H3. apply Nat.ltb_lt in H1. split.
  - intros o Ho. now apply placement_space_In, memllb_In, H2.
  - eexists. split; [exact H1|]. intros t Ht. now apply Nat.eqb_eq, H3, placement_space_In.
Qed.

(* the model's histogram: every schedule of the sample space with weight 1 *)
Definition obs_model (jds : list (list nat)) : list (list (list nat) * nat) :=
  map (fun pis => (shuffle_all pis (all_stubs jds), 1)) (schedules jds).

Lemma wcount_ones : forall t (L : list (list (list nat))),
  wcount t (map (fun o => (o, 1)) L) = cntl t L.
Proof. intros t L. induction L as [|x r IH]; cbn; [reflexivity|]. now rewrite IH. Qed.

Theorem model_satisfies_C03 : forall jds, Spec_C03 jds (obs_model jds).
Proof.
  intros jds. split.
  - intros o Ho. unfold obs_model in Ho. apply in_map_iff in Ho. destruct Ho as [pis [<- Hp]].
    cbn [fst]. now apply schedules_only_arrangements.
  - exists (multl (all_stubs jds)). split; [apply multl_pos|]. intros t Ht.
    unfold obs_model.
    rewrite <- (map_map (fun pis => shuffle_all pis (all_stubs jds)) (fun o => (o, 1))).
    rewrite wcount_ones. now apply schedules_uniform.
Qed.

(* ------------------------------------------------------------------ the textbook instance *)
Definition norm_pair (g : list nat) : nat * nat :=
  match g with [a; b] => (Nat.min a b, Nat.max a b) | _ => (0, 0) end.
Definition matching_of (cs : list ccall) : list (nat * nat) :=
  map (fun c => norm_pair (concat (snd c))) cs.
Definition has_edge (m : list (nat * nat)) (e : nat * nat) : bool := existsb (pair_eqb e) m.
Definition same_matching (m1 m2 : list (nat * nat)) : bool :=
  forallb (has_edge m2) m1 && forallb (has_edge m1) m2.
Definition matchings_of_all_schedules (jds : list (list nat)) : list (list (nat * nat)) :=
  map (fun pis => matching_of (fst (plan_fast [2] jds pis))) (schedules jds).
