(* Counting results behind C03: the sample space of the shuffles (Model/Gen.v: inserts, perms,
   prod_lists, schedules) is complete, duplicate-free on labelled stubs, and every vertex-level
   arrangement has the same multiplicity; product over topologies; checker soundness. *)
From Coq Require Import List ZArith Bool Arith Lia Permutation.
From GV Require Import Lib.Tree Lib.GenList Model.Gen Proofs.GenP.
Import ListNotations.

(* number of occurrences of a list in a list of lists *)
Fixpoint cnt (a : list nat) (L : list (list nat)) : nat :=
  match L with [] => 0 | x :: t => (if list_eqb a x then 1 else 0) + cnt a t end.

Lemma list_eqb_refl : forall a, list_eqb a a = true.
Proof. intros. now apply list_eqb_eq. Qed.

Lemma list_eqb_neq : forall a b, a <> b -> list_eqb a b = false.
Proof. intros a b H. destruct (list_eqb a b) eqn:E; [|reflexivity]. apply list_eqb_eq in E. contradiction. Qed.

Lemma cnt_app : forall a L1 L2, cnt a (L1 ++ L2) = cnt a L1 + cnt a L2.
Proof. intros a L1 L2. induction L1 as [|x t IH]; cbn; [reflexivity|]. rewrite IH. lia. Qed.

Lemma cnt_pos_In : forall a L, cnt a L > 0 <-> In a L.
Proof.
  intros a L. induction L as [|x t IH]; cbn; [split; [lia|tauto]|].
  destruct (list_eqb a x) eqn:E.
  - apply list_eqb_eq in E. subst. split; [now left|lia].
  - rewrite Nat.add_0_l, IH. split; [now right|]. intros [H|H]; [|exact H].
    subst. rewrite list_eqb_refl in E. discriminate.
Qed.

Lemma cnt_map_cons : forall y L a,
  cnt a (map (cons y) L) = match a with [] => 0 | z :: a' => if Nat.eqb z y then cnt a' L else 0 end.
Proof.
  intros y L a. induction L as [|p L IH]; cbn [map cnt].
  - destruct a as [|z a']; [reflexivity|]. now destruct (Nat.eqb z y).
  - rewrite IH. destruct a as [|z a']; cbn [list_eqb]; [reflexivity|].
    destruct (Nat.eqb z y); cbn [andb]; reflexivity.
Qed.

Lemma cnt_flat_map : forall (f : list nat -> list (list nat)) a L,
  cnt a (flat_map f L) = fold_right (fun p acc => cnt a (f p) + acc) 0 L.
Proof. intros f a L. induction L as [|p L IH]; cbn; [reflexivity|]. now rewrite cnt_app, IH. Qed.

Lemma fold_ext : forall (g h : list nat -> nat) R, (forall q, g q = h q) ->
  fold_right (fun q acc => g q + acc) 0 R = fold_right (fun q acc => h q + acc) 0 R.
Proof. intros g h R H. induction R as [|q R IH]; cbn [fold_right]; [reflexivity|]. now rewrite H, IH. Qed.

Lemma fold_add : forall (g h : list nat -> nat) R,
  fold_right (fun q acc => (g q + h q) + acc) 0 R =
  fold_right (fun q acc => g q + acc) 0 R + fold_right (fun q acc => h q + acc) 0 R.
Proof. intros g h R. induction R as [|q R IH]; cbn [fold_right]; [reflexivity|]. rewrite IH. lia. Qed.

Lemma fold_indicator : forall p R,
  fold_right (fun q acc => (if list_eqb q p then 1 else 0) + acc) 0 R = cnt p R.
Proof.
  intros p R. induction R as [|q R IH]; cbn [fold_right cnt]; [reflexivity|]. rewrite IH.
  destruct (list_eqb q p) eqn:E.
  - apply list_eqb_eq in E. subst. now rewrite list_eqb_refl.
  - destruct (list_eqb p q) eqn:E2; [|reflexivity]. apply list_eqb_eq in E2. subst.
    rewrite list_eqb_refl in E. discriminate.
Qed.

(* double counting: sum over L of occurrences in R = sum over R of occurrences in L *)
Lemma cnt_swap : forall L R,
  fold_right (fun p acc => cnt p R + acc) 0 L = fold_right (fun q acc => cnt q L + acc) 0 R.
Proof.
  induction L as [|p L IH]; intros R.
  - cbn [fold_right]. induction R as [|q R IHR]; [reflexivity|]. cbn [fold_right cnt Nat.add]. exact IHR.
  - cbn [fold_right]. rewrite IH.
    rewrite (fold_ext (fun q => cnt q (p :: L)) (fun q => (if list_eqb q p then 1 else 0) + cnt q L))
      by (intros q; reflexivity).
    now rewrite fold_add, fold_indicator.
Qed.

Lemma fold_const : forall (g : list nat -> nat) c R,
  (forall q, In q R -> g q = c) -> fold_right (fun q acc => g q + acc) 0 R = length R * c.
Proof.
  intros g c R H. induction R as [|q R IH]; cbn; [reflexivity|].
  rewrite H by now left. rewrite IH; [reflexivity|]. intros q' Hq'. apply H. now right.
Qed.

(* all ways of deleting one occurrence of x from a *)
Fixpoint removals (x : nat) (a : list nat) : list (list nat) :=
  match a with
  | [] => []
  | y :: a' => (if Nat.eqb y x then [a'] else []) ++ map (cons y) (removals x a')
  end.

Lemma removals_length : forall x a, length (removals x a) = count x a.
Proof.
  intros x a. induction a as [|y a IH]; cbn; [reflexivity|].
  rewrite app_length, map_length, IH. rewrite (Nat.eqb_sym x y). now destruct (Nat.eqb y x).
Qed.

Lemma removals_perm : forall x a q, In q (removals x a) -> Permutation a (x :: q).
Proof.
  intros x a. induction a as [|y a IH]; intros q H; cbn in H; [contradiction|].
  apply in_app_or in H. destruct H as [H|H].
  - destruct (Nat.eqb_spec y x) as [->|]; [|contradiction]. destruct H as [<-|[]]. apply Permutation_refl.
  - apply in_map_iff in H. destruct H as [q' [<- Hq']]. specialize (IH q' Hq').
    eapply Permutation_trans; [apply perm_skip; exact IH|]. apply perm_swap.
Qed.

(* the key identity: occurrences of a among the insertions of x into p
   = occurrences of p among the removals of x from a *)
Lemma cnt_inserts_removals : forall x p a, cnt a (inserts x p) = cnt p (removals x a).
Proof.
  intros x p. induction p as [|y p IH]; intros a.
  - cbn [inserts cnt]. destruct a as [|z a']; [reflexivity|].
    cbn [removals]. rewrite cnt_app, cnt_map_cons. cbn [list_eqb].
    destruct (Nat.eqb_spec z x) as [->|Hne].
    + destruct a' as [|w a'']; cbn; reflexivity.
    + cbn. reflexivity.
  - cbn [inserts cnt]. rewrite cnt_map_cons. destruct a as [|z a'].
    + reflexivity.
    + cbn [removals]. rewrite cnt_app, cnt_map_cons. cbn [list_eqb]. rewrite IH.
      destruct (Nat.eqb_spec z x) as [->|Hne].
      * cbn [cnt]. rewrite Nat.add_0_r.
        replace (list_eqb (y :: p) a') with (list_eqb a' (y :: p)).
        2:{ destruct (list_eqb a' (y :: p)) eqn:E1.
            - apply list_eqb_eq in E1. subst a'. now rewrite list_eqb_refl.
            - symmetry. apply list_eqb_neq. intro; subst. rewrite list_eqb_refl in E1. discriminate. }
        rewrite (Nat.eqb_sym y x). reflexivity.
      * cbn [cnt]. rewrite (Nat.eqb_sym y z). reflexivity.
Qed.

(* multiplicity of any arrangement: product over positions of the number of equal later-or-same entries *)
Fixpoint mult (s : list nat) : nat :=
  match s with [] => 1 | x :: t => count x (x :: t) * mult t end.

Lemma mult_pos : forall s, mult s > 0.
Proof. induction s as [|x t IH]; cbn; [lia|]. rewrite Nat.eqb_refl. nia. Qed.

Lemma count_perm : forall a b v, Permutation a b -> count v a = count v b.
Proof. intros a b v H. now apply perm_count. Qed.

(* every arrangement of s occurs exactly mult s times among perms s *)
Theorem perms_multiplicity : forall s a, Permutation a s -> cnt a (perms s) = mult s.
Proof.
  induction s as [|x t IH]; intros a H.
  - apply Permutation_sym, Permutation_nil in H. subst. reflexivity.
  - cbn [perms mult]. rewrite cnt_flat_map.
    rewrite (fold_ext (fun p => cnt a (inserts x p)) (fun p => cnt p (removals x a)))
      by (intros p; apply cnt_inserts_removals).
    rewrite cnt_swap.
    rewrite (fold_const (fun q => cnt q (perms t)) (mult t)).
    + rewrite removals_length. now rewrite (count_perm _ _ x H).
    + intros q Hq. apply IH. apply removals_perm in Hq.
      apply Permutation_cons_inv with (a := x).
      eapply Permutation_trans; [apply Permutation_sym; exact Hq|exact H].
Qed.
