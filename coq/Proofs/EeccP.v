(* Proofs about the EECC model (C09). *)
From Coq Require Import List Arith Bool Lia.
From GV Require Import Lib.Tree Lib.GraphE Model.Eecc.
Import ListNotations.
