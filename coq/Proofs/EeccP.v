(* Proofs about the EECC model (C09).
   Part 1: Prop-level specification and soundness+completeness of the verified checker.
   Part 2: every scripted run is one of the outcomes enumerated by eecc_all.
   Part 3: reflection over the small-graph domain. *)
From Coq Require Import List Arith Bool Lia Sorted.
From GV Require Import Lib.Tree Lib.GraphE Model.Eecc.
Import ListNotations.

(* ------------------------------------------------------------------ specification *)
Definition adj (g : graph) (u v : nat) : Prop := In (u, v) g \/ In (v, u) g.

Definition is_clique (g : graph) (c : clique) : Prop :=
  NoDup c /\ forall u v, In u c -> In v c -> u <> v -> adj g u v.

Definition covers (e : edge) (m : clique) : Prop := In (fst e) m /\ In (snd e) m.

(* exactly one POSITION of the list satisfies P (so a member listed twice counts twice) *)
Definition exactly_one {A} (P : A -> Prop) (l : list A) : Prop :=
  exists l1 x l2, l = l1 ++ x :: l2 /\ P x /\
                  (forall y, In y l1 -> ~ P y) /\ (forall y, In y l2 -> ~ P y).

Definition ExactCover (g : graph) (m0 : nat) (cover : list clique) : Prop :=
  (forall m, In m cover -> is_clique g m /\ 2 <= length m <= m0) /\
  (forall e, In e g -> exactly_one (covers e) cover).

(* ------------------------------------------------------------------ basic reflections *)
Lemma memb_In : forall x l, memb x l = true <-> In x l.
Proof.
  intros x l. unfold memb. rewrite existsb_exists. split.
  - intros [y [Hy He]]. apply Nat.eqb_eq in He. subst. exact Hy.
  - intros H. exists x. split; [exact H | apply Nat.eqb_refl].
Qed.

Lemma memb_false : forall x l, memb x l = false <-> ~ In x l.
Proof.
  intros x l. rewrite <- memb_In. destruct (memb x l); split; intros H; try reflexivity; try discriminate.
  exfalso. apply H. reflexivity.
Qed.

Lemma edge_is_spec : forall u v e, edge_is u v e = true <-> e = (u, v) \/ e = (v, u).
Proof.
  intros u v [a b]. unfold edge_is. cbn [fst snd].
  rewrite orb_true_iff, !andb_true_iff, !Nat.eqb_eq. split.
  - intros [[H1 H2] | [H1 H2]]; subst; auto.
  - intros [H | H]; inversion H; subst; auto.
Qed.

Lemma adjb_spec : forall g u v, adjb g u v = true <-> adj g u v.
Proof.
  intros g u v. unfold adjb, adj. rewrite existsb_exists. split.
  - intros [e [He Hs]]. apply edge_is_spec in Hs. destruct Hs; subst; auto.
  - intros [H | H]; [exists (u, v) | exists (v, u)]; (split; [exact H | apply edge_is_spec; auto]).
Qed.

Lemma adj_sym : forall g u v, adj g u v -> adj g v u.
Proof. unfold adj. intros g u v [H | H]; auto. Qed.

Lemma nodupb_spec : forall l, nodupb l = true <-> NoDup l.
Proof.
  induction l as [| x t IH]; cbn [nodupb].
  - split; [constructor | reflexivity].
  - rewrite andb_true_iff, negb_true_iff, memb_false, IH. split.
    + intros [H1 H2]. constructor; assumption.
    + intros H. inversion H; subst. split; assumption.
Qed.

Lemma pairs_of_In : forall c u v, In (u, v) (pairs_of c) -> In u c /\ In v c.
Proof.
  induction c as [| x r IH]; cbn [pairs_of]; intros u v H.
  - destruct H.
  - apply in_app_or in H. destruct H as [H | H].
    + apply in_map_iff in H. destruct H as [y [Hy Hin]]. inversion Hy; subst. split; [left; reflexivity | right; exact Hin].
    + apply IH in H. destruct H. split; right; assumption.
Qed.

Lemma pairs_of_neq : forall c u v, NoDup c -> In (u, v) (pairs_of c) -> u <> v.
Proof.
  induction c as [| x r IH]; cbn [pairs_of]; intros u v Hnd H.
  - destruct H.
  - inversion Hnd as [| ? ? Hx Hr]; subst. apply in_app_or in H. destruct H as [H | H].
    + apply in_map_iff in H. destruct H as [y [Hy Hin]]. inversion Hy; subst. intros E. subst. contradiction.
    + apply IH; assumption.
Qed.

Lemma pairs_of_complete : forall c u v, In u c -> In v c -> u <> v ->
  In (u, v) (pairs_of c) \/ In (v, u) (pairs_of c).
Proof.
  induction c as [| x r IH]; cbn [pairs_of]; intros u v Hu Hv Hne.
  - destruct Hu.
  - destruct Hu as [Hu | Hu]; destruct Hv as [Hv | Hv]; subst.
    + contradiction.
    + left. apply in_or_app. left. apply in_map. exact Hv.
    + right. apply in_or_app. left. apply in_map. exact Hu.
    + destruct (IH u v Hu Hv Hne) as [H | H]; [left | right]; apply in_or_app; right; exact H.
Qed.

Lemma is_cliqueb_spec : forall g c, is_cliqueb g c = true <-> is_clique g c.
Proof.
  intros g c. unfold is_cliqueb, is_clique. rewrite andb_true_iff, nodupb_spec, forallb_forall. split.
  - intros [Hnd H]. split; [exact Hnd |]. intros u v Hu Hv Hne.
    destruct (pairs_of_complete c u v Hu Hv Hne) as [Hp | Hp].
    + specialize (H _ Hp). cbn [fst snd] in H. apply adjb_spec. exact H.
    + specialize (H _ Hp). cbn [fst snd] in H. apply adj_sym. apply adjb_spec. exact H.
  - intros [Hnd H]. split; [exact Hnd |]. intros [u v] Hp. cbn [fst snd]. apply adjb_spec.
    destruct (pairs_of_In _ _ _ Hp) as [Hu Hv]. apply H; try assumption.
    eapply pairs_of_neq; eassumption.
Qed.

Lemma subset2b_spec : forall e m, subset2b e m = true <-> covers e m.
Proof. intros e m. unfold subset2b, covers. rewrite andb_true_iff, !memb_In. reflexivity. Qed.

(* counting = exactly one position *)
Lemma count_one_spec : forall {A} (f : A -> bool) (l : list A),
  length (filter f l) = 1 <-> exactly_one (fun x => f x = true) l.
Proof.
  intros A f. induction l as [| x r IH]; cbn [filter].
  - split; [discriminate |]. intros [l1 [y [l2 [H _]]]]. destruct l1; discriminate.
  - destruct (f x) eqn:Fx.
    + cbn [length]. split.
      * intros H. assert (Hz : length (filter f r) = 0) by lia.
        exists [], x, r. split; [reflexivity |]. split; [exact Fx |]. split; [intros y [] |].
        intros y Hy Fy. assert (Hin : In y (filter f r)) by (apply filter_In; split; assumption).
        destruct (filter f r); [destruct Hin | discriminate].
      * intros [l1 [y [l2 [E [Py [H1 H2]]]]]]. destruct l1 as [| z l1].
        -- cbn in E. inversion E; subst. f_equal.
           destruct (filter f l2) as [| w ws] eqn:Fw; [reflexivity |].
           assert (Hin : In w (filter f l2)) by (rewrite Fw; left; reflexivity).
           apply filter_In in Hin. destruct Hin as [Hin Fw']. exfalso. exact (H2 w Hin Fw').
        -- cbn in E. inversion E; subst. exfalso. apply (H1 z); [left; reflexivity | exact Fx].
    + rewrite IH. split.
      * intros [l1 [y [l2 [E [Py [H1 H2]]]]]]. exists (x :: l1), y, l2. subst. split; [reflexivity |].
        split; [exact Py |]. split; [| exact H2]. intros z [Hz | Hz]; [subst; rewrite Fx; discriminate | apply H1; exact Hz].
      * intros [l1 [y [l2 [E [Py [H1 H2]]]]]]. destruct l1 as [| z l1].
        -- cbn in E. inversion E; subst. rewrite Fx in Py. discriminate.
        -- cbn in E. inversion E; subst. exists l1, y, l2. split; [reflexivity |]. split; [exact Py |].
           split; [| exact H2]. intros w Hw. apply H1. right. exact Hw.
Qed.

Lemma exactly_one_ext : forall {A} (P Q : A -> Prop) l,
  (forall x, P x <-> Q x) -> exactly_one P l -> exactly_one Q l.
Proof.
  intros A P Q l H [l1 [x [l2 [E [Px [H1 H2]]]]]]. exists l1, x, l2. split; [exact E |].
  split; [apply H; exact Px |]. split; intros y Hy Qy; [apply (H1 y Hy) | apply (H2 y Hy)]; apply H; exact Qy.
Qed.

(* ------------------------------------------------------------------ the checker is the specification *)
Theorem check_cover_sound : forall g m0 c, exact_cover_b g m0 c = true <-> ExactCover g m0 c.
Proof.
  intros g m0 c. unfold exact_cover_b, ExactCover. rewrite andb_true_iff, !forallb_forall. split.
  - intros [Hm He]. split.
    + intros m Hin. specialize (Hm m Hin). unfold member_okb in Hm.
      rewrite !andb_true_iff in Hm. destruct Hm as [[H1 H2] H3].
      apply is_cliqueb_spec in H1. apply Nat.leb_le in H2. apply Nat.leb_le in H3. split; [exact H1 | lia].
    + intros e Hin. specialize (He e Hin). apply Nat.eqb_eq in He. unfold count_cover in He.
      apply count_one_spec in He. eapply exactly_one_ext; [| exact He]. intros x. apply subset2b_spec.
  - intros [Hm He]. split.
    + intros m Hin. destruct (Hm m Hin) as [H1 H2]. unfold member_okb. rewrite !andb_true_iff.
      split; [split |]; [apply is_cliqueb_spec; exact H1 | apply Nat.leb_le; lia | apply Nat.leb_le; lia].
    + intros e Hin. apply Nat.eqb_eq. unfold count_cover. apply count_one_spec.
      eapply exactly_one_ext; [| exact (He e Hin)]. intros x. symmetry. apply subset2b_spec.
Qed.

(* ------------------------------------------------------------------ scripted runs are enumerated *)
Definition out_triple (o : outcome) : list clique * graph * nat := (o_cover o, o_graph o, o_status o).

Lemma loop_in_all : forall fuel m0 g EC N rs tr,
  In (out_triple (loop fuel m0 g EC N rs tr)) (loop_all fuel m0 g EC N).
Proof.
  induction fuel as [| f IH]; intros m0 g EC N rs tr.
  - destruct g; cbn [loop loop_all]; left; reflexivity.
  - destruct g as [| e g']; [cbn [loop loop_all]; left; reflexivity |].
    cbn [loop loop_all].
    destruct (nth_error (candidates N) (hd 0 rs mod length (candidates N))) as [cli |] eqn:Hn.
    + assert (Hin : In cli (candidates N)) by (eapply nth_error_In; exact Hn).
      destruct (candidates N) as [| c0 cs] eqn:Hc; [destruct Hin |].
      apply in_flat_map. exists cli. split; [exact Hin |].
      destruct (step_state (e :: g') m0 EC cli) as [[g2 EC2] N2]. apply IH.
    + destruct (candidates N) as [| c0 cs] eqn:Hc; [left; reflexivity |].
      exfalso. apply nth_error_None in Hn.
      assert (hd 0 rs mod length (c0 :: cs) < length (c0 :: cs)) by (apply Nat.mod_upper_bound; discriminate).
      lia.
Qed.

Theorem run_in_all : forall g m0 rs, In (out_triple (eecc_run g m0 rs)) (eecc_all g m0).
Proof.
  intros g m0 rs. unfold eecc_run, eecc_all.
  destruct (absorb g [] (limited g m0)) as [[g1 EC1] N1]. apply loop_in_all.
Qed.

(* the enumerated domain, characterised: g is a subsequence of the ascending pair list of K_n *)
Inductive subseq {A} : list A -> list A -> Prop :=
| sub_nil : forall l, subseq [] l
| sub_take : forall x a l, subseq a l -> subseq (x :: a) (x :: l)
| sub_skip : forall x a l, subseq a l -> subseq a (x :: l).

Lemma sublists_spec : forall {A} (l a : list A), In a (sublists l) <-> subseq a l.
Proof.
  intros A. induction l as [| x r IH]; intros a; cbn [sublists].
  - split.
    + intros [H | []]. subst. constructor.
    + intros H. inversion H; subst. left. reflexivity.
  - rewrite in_app_iff, in_map_iff. split.
    + intros [[b [Hb Hin]] | Hin].
      * subst. apply sub_take. apply IH. exact Hin.
      * apply sub_skip. apply IH. exact Hin.
    + intros H. inversion H; subst.
      * right. apply IH. constructor.
      * left. exists a0. split; [reflexivity | apply IH; assumption].
      * right. apply IH. assumption.
Qed.

(* ------------------------------------------------------------------ vertices, cliques, maximal cliques *)
Definition vertex (g : graph) (v : nat) : Prop := exists e, In e g /\ (fst e = v \/ snd e = v).

Definition asc (l : list nat) : Prop := StronglySorted lt l.

Lemma insert_nat_In : forall x l y, In y (insert_nat x l) <-> y = x \/ In y l.
Proof.
  intros x. induction l as [| z r IH]; intros y; cbn [insert_nat].
  - cbn. intuition.
  - destruct (Nat.eqb x z) eqn:E.
    + apply Nat.eqb_eq in E. subst. cbn. intuition.
    + destruct (Nat.ltb x z) eqn:L.
      * cbn. intuition.
      * cbn [In]. rewrite IH. intuition.
Qed.

Lemma insert_nat_asc : forall x l, asc l -> asc (insert_nat x l).
Proof.
  intros x. unfold asc. induction l as [| z r IH]; intros H; cbn [insert_nat].
  - constructor; constructor.
  - destruct (Nat.eqb x z) eqn:E; [exact H |].
    apply Nat.eqb_neq in E. inversion H as [| ? ? Hr Hz]; subst.
    destruct (Nat.ltb x z) eqn:L.
    + apply Nat.ltb_lt in L. constructor; [exact H |]. constructor; [exact L |].
      eapply Forall_impl; [| exact Hz]. intros a Ha. cbn in Ha. lia.
    + apply Nat.ltb_ge in L. constructor; [apply IH; exact Hr |].
      apply Forall_forall. intros a Ha. apply insert_nat_In in Ha. destruct Ha as [Ha | Ha].
      * subst. lia.
      * rewrite Forall_forall in Hz. apply Hz. exact Ha.
Qed.

Lemma asc_NoDup : forall l, asc l -> NoDup l.
Proof.
  unfold asc. induction l as [| x r IH]; intros H; [constructor |].
  inversion H as [| ? ? Hr Hx]; subst. constructor; [| apply IH; exact Hr].
  intros Hin. rewrite Forall_forall in Hx. specialize (Hx x Hin). lia.
Qed.

Lemma verts_asc : forall g, asc (verts g).
Proof.
  induction g as [| e g IH]; cbn [verts fold_right].
  - constructor.
  - apply insert_nat_asc. apply insert_nat_asc. exact IH.
Qed.

Lemma verts_spec : forall g v, In v (verts g) <-> vertex g v.
Proof.
  induction g as [| e g IH]; intros v; cbn [verts fold_right].
  - split; [intros [] | intros [e [[] _]]].
  - fold (verts g). rewrite !insert_nat_In, IH. unfold vertex. split.
    + intros [H | [H | [e' [Hin He']]]].
      * exists e. split; [left; reflexivity | left; symmetry; exact H].
      * exists e. split; [left; reflexivity | right; symmetry; exact H].
      * exists e'. split; [right; exact Hin | exact He'].
    + intros [e' [[Hin | Hin] He']].
      * subst. destruct He' as [H | H]; [left | right; left]; symmetry; exact H.
      * right. right. exists e'. split; assumption.
Qed.

Lemma adj_vertex : forall g u v, adj g u v -> vertex g u /\ vertex g v.
Proof.
  intros g u v [H | H]; split.
  - exists (u, v). split; [exact H | left; reflexivity].
  - exists (u, v). split; [exact H | right; reflexivity].
  - exists (v, u). split; [exact H | right; reflexivity].
  - exists (v, u). split; [exact H | left; reflexivity].
Qed.

Lemma subseq_In : forall {A} (a l : list A) x, subseq a l -> In x a -> In x l.
Proof.
  intros A a l x H. induction H as [l | y a l H IH | y a l H IH]; intros Hin.
  - destruct Hin.
  - destruct Hin as [Hin | Hin]; [left; exact Hin | right; apply IH; exact Hin].
  - right. apply IH. exact Hin.
Qed.

Lemma subseq_NoDup : forall {A} (a l : list A), subseq a l -> NoDup l -> NoDup a.
Proof.
  intros A a l H. induction H as [l | y a l H IH | y a l H IH]; intros Hnd.
  - constructor.
  - inversion Hnd; subst. constructor; [| apply IH; assumption].
    intros Hin. apply (subseq_In _ _ _ H) in Hin. contradiction.
  - inversion Hnd; subst. apply IH. assumption.
Qed.

Lemma subseq_refl : forall {A} (l : list A), subseq l l.
Proof. induction l; constructor; assumption. Qed.

(* two subsequences of a duplicate-free list with the same elements are equal *)
Lemma subseq_same_set : forall {A} (l a b : list A),
  NoDup l -> subseq a l -> subseq b l -> (forall x, In x a <-> In x b) -> a = b.
Proof.
  intros A. induction l as [| y l IH]; intros a b Hnd Ha Hb Hs.
  - inversion Ha; subst. inversion Hb; subst. reflexivity.
  - inversion Hnd as [| ? ? Hy Hl]; subst.
    assert (Hcase : forall c, subseq c (y :: l) ->
              (exists c', c = y :: c' /\ subseq c' l) \/ (subseq c l /\ ~ In y c)).
    { intros c Hc. inversion Hc; subst.
      - right. split; [constructor | intros []].
      - left. eexists. split; [reflexivity | assumption].
      - right. split; [assumption |]. intros Hin. apply Hy. exact (subseq_In _ _ _ H1 Hin). }
    destruct (Hcase a Ha) as [[a' [Ea Ha']] | [Ha' Hna]]; destruct (Hcase b Hb) as [[b' [Eb Hb']] | [Hb' Hnb]]; subst.
    + f_equal. apply IH; try assumption. intros x.
      assert (Hxa : In x a' -> x <> y) by (intros H1 H2; subst x; apply Hy; exact (subseq_In _ _ _ Ha' H1)).
      assert (Hxb : In x b' -> x <> y) by (intros H1 H2; subst x; apply Hy; exact (subseq_In _ _ _ Hb' H1)).
      split; intros Hx.
      * assert (H1 : In x (y :: b')) by (apply Hs; right; exact Hx). destruct H1 as [H1 | H1]; [| exact H1].
        exfalso. apply (Hxa Hx). symmetry. exact H1.
      * assert (H1 : In x (y :: a')) by (apply Hs; right; exact Hx). destruct H1 as [H1 | H1]; [| exact H1].
        exfalso. apply (Hxb Hx). symmetry. exact H1.
    + exfalso. apply Hnb. apply Hs. left. reflexivity.
    + exfalso. apply Hna. apply Hs. left. reflexivity.
    + apply IH; assumption.
Qed.

Definition pairwise_adj (g : graph) (c : clique) : Prop :=
  forall u v, In u c -> In v c -> u <> v -> adj g u v.

Lemma forallb_adjb : forall g v c, forallb (adjb g v) c = true <-> forall u, In u c -> adj g v u.
Proof.
  intros g v c. rewrite forallb_forall. split; intros H u Hu; [apply adjb_spec | apply adjb_spec]; apply H; exact Hu.
Qed.

Lemma cliques_of_sound : forall g vs c, In c (cliques_of g vs) -> subseq c vs /\ pairwise_adj g c.
Proof.
  intros g. induction vs as [| v r IH]; intros c Hin; cbn [cliques_of] in Hin.
  - destruct Hin as [Hin | []]. subst. split; [constructor | intros u w []].
  - apply in_app_or in Hin. destruct Hin as [Hin | Hin].
    + apply in_map_iff in Hin. destruct Hin as [c' [E Hin]]. subst.
      apply filter_In in Hin. destruct Hin as [Hin Hf]. destruct (IH _ Hin) as [Hs Hp].
      rewrite forallb_adjb in Hf. split; [constructor; exact Hs |].
      intros u w Hu Hw Hne. destruct Hu as [Hu | Hu]; destruct Hw as [Hw | Hw]; subst.
      * contradiction.
      * apply Hf. exact Hw.
      * apply adj_sym. apply Hf. exact Hu.
      * apply Hp; assumption.
    + destruct (IH _ Hin) as [Hs Hp]. split; [constructor; exact Hs | exact Hp].
Qed.

Lemma filter_subseq : forall {A} (f : A -> bool) l, subseq (filter f l) l.
Proof.
  intros A f. induction l as [| x r IH]; cbn [filter]; [constructor |].
  destruct (f x); constructor; exact IH.
Qed.

Lemma cliques_of_complete : forall g vs K, NoDup vs -> pairwise_adj g K ->
  In (filter (fun v => memb v K) vs) (cliques_of g vs).
Proof.
  intros g vs K. induction vs as [| v r IH]; intros Hnd Hp; cbn [filter cliques_of].
  - left. reflexivity.
  - inversion Hnd as [| ? ? Hv Hr]; subst. apply in_or_app. destruct (memb v K) eqn:Mv.
    + left. apply in_map. apply filter_In. split; [apply IH; assumption |].
      apply forallb_adjb. intros u Hu. apply filter_In in Hu. destruct Hu as [Hu Mu].
      apply memb_In in Mv. apply memb_In in Mu. apply Hp; try assumption.
      intros E. subst. contradiction.
    + right. apply IH; assumption.
Qed.

(* a maximal clique: non-empty, duplicate-free, pairwise adjacent, made of vertices of g, and no
   further vertex of g is adjacent to all its members *)
Definition max_clique (g : graph) (K : clique) : Prop :=
  K <> [] /\ is_clique g K /\ (forall v, In v K -> vertex g v) /\
  (forall w, vertex g w -> ~ In w K -> exists u, In u K /\ ~ adj g w u).

Lemma maximalb_spec : forall g c, maximalb g (verts g) c = true <->
  (forall w, vertex g w -> ~ In w c -> exists u, In u c /\ ~ adj g w u).
Proof.
  intros g c. unfold maximalb. rewrite negb_true_iff. split.
  - intros H w Hw Hn.
    destruct (forallb (adjb g w) c) eqn:F.
    + exfalso. assert (Hex : existsb (fun w => negb (memb w c) && forallb (adjb g w) c) (verts g) = true).
      { apply existsb_exists. exists w. split; [apply verts_spec; exact Hw |].
        rewrite F. apply memb_false in Hn. rewrite Hn. reflexivity. }
      rewrite Hex in H. discriminate.
    + assert (Hex : exists u, In u c /\ adjb g w u = false).
      { clear - F. induction c as [| x r IH]; cbn [forallb] in F; [discriminate |].
        destruct (adjb g w x) eqn:A.
        - cbn in F. destruct (IH F) as [u [Hu Au]]. exists u. split; [right; exact Hu | exact Au].
        - exists x. split; [left; reflexivity | exact A]. }
      destruct Hex as [u [Hu Au]]. exists u. split; [exact Hu |]. intros Ha. apply adjb_spec in Ha.
      rewrite Ha in Au. discriminate.
  - intros H. destruct (existsb _ (verts g)) eqn:Ex; [| reflexivity]. exfalso.
    apply existsb_exists in Ex. destruct Ex as [w [Hw Hc]]. apply andb_true_iff in Hc. destruct Hc as [Hn Hf].
    apply negb_true_iff in Hn. apply memb_false in Hn. apply verts_spec in Hw.
    destruct (H w Hw Hn) as [u [Hu Na]]. apply Na. rewrite forallb_adjb in Hf. apply Hf. exact Hu.
Qed.

Lemma max_cliques_sound : forall g K, In K (max_cliques g) -> max_clique g K /\ subseq K (verts g).
Proof.
  intros g K H. unfold max_cliques in H. apply filter_In in H. destruct H as [Hin Hf].
  apply andb_true_iff in Hf. destruct Hf as [Hne Hmx].
  destruct (cliques_of_sound _ _ _ Hin) as [Hs Hp]. split; [| exact Hs].
  split; [destruct K; [discriminate | discriminate] |].
  split; [split; [eapply subseq_NoDup; [exact Hs | apply asc_NoDup; apply verts_asc] | exact Hp] |].
  split; [intros v Hv; apply verts_spec; eapply subseq_In; eassumption |].
  apply maximalb_spec. exact Hmx.
Qed.

Definition same_set (a b : clique) : Prop := forall x, In x a <-> In x b.

Lemma max_cliques_complete : forall g K, max_clique g K ->
  exists K', In K' (max_cliques g) /\ same_set K' K.
Proof.
  intros g K [Hne [[Hnd Hp] [Hv Hmx]]].
  exists (filter (fun v => memb v K) (verts g)).
  assert (Hs : same_set (filter (fun v => memb v K) (verts g)) K).
  { intros x. rewrite filter_In, memb_In, verts_spec. split; [intros [_ H]; exact H |].
    intros H. split; [apply Hv; exact H | exact H]. }
  split; [| exact Hs].
  unfold max_cliques. apply filter_In. split.
  - apply cliques_of_complete; [apply asc_NoDup; apply verts_asc | exact Hp].
  - apply andb_true_iff. split.
    + destruct K as [| k K']; [contradiction |].
      assert (Hk : In k (filter (fun v => memb v (k :: K')) (verts g))) by (apply Hs; left; reflexivity).
      destruct (filter (fun v => memb v (k :: K')) (verts g)); [destruct Hk | reflexivity].
    + apply maximalb_spec. intros w Hw Hn.
      assert (Hn' : ~ In w K) by (intros H; apply Hn; apply Hs; exact H).
      destruct (Hmx w Hw Hn') as [u [Hu Na]]. exists u. split; [apply Hs; exact Hu | exact Na].
Qed.

(* ------------------------------------------------------------------ isolated maximal cliques stay intact *)
Definition share_edge (K K' : clique) : Prop :=
  exists u v, u <> v /\ In u K /\ In v K /\ In u K' /\ In v K'.

(* every maximal clique with at most m0 vertices that shares no edge with a different maximal
   clique is (as a vertex set) a member of the cover *)
Definition IsolatedIntact (g : graph) (m0 : nat) (cover : list clique) : Prop :=
  forall K, max_clique g K -> length K <= m0 ->
    (forall K', max_clique g K' -> share_edge K K' -> same_set K' K) ->
    exists m, In m cover /\ same_set m K.

Lemma list_eqb_spec : forall a b, list_eqb a b = true <-> a = b.
Proof.
  induction a as [| x a IH]; intros [| y b]; cbn [list_eqb]; try (split; [discriminate | discriminate]).
  - split; reflexivity.
  - rewrite andb_true_iff, Nat.eqb_eq, IH. split; [intros [H1 H2]; subst; reflexivity | intros H; inversion H; auto].
Qed.

Lemma same_setb_spec : forall a b, same_setb a b = true <-> same_set a b.
Proof.
  intros a b. unfold same_setb, same_set. rewrite andb_true_iff, !forallb_forall. split.
  - intros [H1 H2] x. split; intros Hx; apply memb_In; [apply H1 | apply H2]; exact Hx.
  - intros H. split; intros x Hx; apply memb_In; apply H; exact Hx.
Qed.

Lemma share_edgeb_spec : forall a b, NoDup a -> (share_edgeb a b = true <-> share_edge a b).
Proof.
  intros a b Hnd. unfold share_edgeb, share_edge. rewrite existsb_exists. split.
  - intros [[u v] [Hp Hs]]. apply subset2b_spec in Hs. destruct Hs as [Hu Hv]. cbn [fst snd] in *.
    destruct (pairs_of_In _ _ _ Hp) as [Hua Hva]. exists u, v.
    split; [eapply pairs_of_neq; eassumption |]. repeat split; assumption.
  - intros [u [v [Hne [Hua [Hva [Hub Hvb]]]]]].
    destruct (pairs_of_complete a u v Hua Hva Hne) as [Hp | Hp].
    + exists (u, v). split; [exact Hp | apply subset2b_spec; split; assumption].
    + exists (v, u). split; [exact Hp | apply subset2b_spec; split; assumption].
Qed.

Lemma same_set_length : forall a b, NoDup a -> NoDup b -> same_set a b -> length a = length b.
Proof.
  intros a b Ha Hb Hs. apply Nat.le_antisymm; apply NoDup_incl_length; try assumption; intros x Hx; apply Hs; exact Hx.
Qed.

Lemma share_edge_same_set : forall K K1 K2, same_set K1 K2 -> share_edge K1 K -> share_edge K2 K.
Proof.
  intros K K1 K2 Hs [u [v [Hne [H1 [H2 [H3 H4]]]]]]. exists u, v.
  split; [exact Hne |]. split; [apply Hs; exact H1 |]. split; [apply Hs; exact H2 |]. split; assumption.
Qed.

Lemma share_edge_same_set_r : forall K K1 K2, same_set K1 K2 -> share_edge K K1 -> share_edge K K2.
Proof.
  intros K K1 K2 Hs [u [v [Hne [H1 [H2 [H3 H4]]]]]]. exists u, v.
  split; [exact Hne |]. split; [exact H1 |]. split; [exact H2 |]. split; apply Hs; assumption.
Qed.

Theorem isolated_ok_sound : forall g m0 c, isolated_ok_b g m0 c = true <-> IsolatedIntact g m0 c.
Proof.
  intros g m0 c. unfold isolated_ok_b, IsolatedIntact. rewrite forallb_forall. split.
  - intros H K HK Hlen Hiso.
    destruct (max_cliques_complete g K HK) as [K' [Hin Hs]].
    destruct (max_cliques_sound g K' Hin) as [HK' Hsub'].
    specialize (H K' Hin).
    assert (Hprem : Nat.leb (length K') m0 &&
              forallb (fun K'' => list_eqb K'' K' || negb (share_edgeb K' K'')) (max_cliques g) = true).
    { apply andb_true_iff. split.
      - apply Nat.leb_le. destruct HK as [_ [[HndK _] _]]. destruct HK' as [_ [[HndK' _] _]].
        rewrite (same_set_length K' K HndK' HndK Hs). exact Hlen.
      - apply forallb_forall. intros K'' Hin''. destruct (share_edgeb K' K'') eqn:Sh; [| apply orb_true_r].
        rewrite orb_false_r. apply list_eqb_spec.
        destruct (max_cliques_sound g K'' Hin'') as [HK'' Hsub''].
        destruct HK' as [_ [[HndK' _] _]]. apply share_edgeb_spec in Sh; [| exact HndK'].
        assert (Hs'' : same_set K'' K) by (apply Hiso; [exact HK'' | eapply share_edge_same_set; eassumption]).
        eapply subseq_same_set; [apply asc_NoDup; apply verts_asc | exact Hsub'' | exact Hsub' |].
        intros x. rewrite (Hs'' x). symmetry. apply Hs. }
    rewrite Hprem in H. cbn [implb] in H. apply existsb_exists in H. destruct H as [m [Hm Hsm]].
    apply same_setb_spec in Hsm. exists m. split; [exact Hm |]. intros x. rewrite <- (Hs x). symmetry. apply Hsm.
  - intros H K' Hin.
    destruct (Nat.leb (length K') m0 &&
              forallb (fun K'' => list_eqb K'' K' || negb (share_edgeb K' K'')) (max_cliques g)) eqn:Hprem;
      [| reflexivity].
    cbn [implb]. apply andb_true_iff in Hprem. destruct Hprem as [Hlen Hall]. apply Nat.leb_le in Hlen.
    rewrite forallb_forall in Hall.
    destruct (max_cliques_sound g K' Hin) as [HK' Hsub'].
    assert (HndK' : NoDup K') by (destruct HK' as [_ [[Hn _] _]]; exact Hn).
    destruct (H K' HK' Hlen) as [m [Hm Hsm]].
    + intros K2 HK2 Hsh. destruct (max_cliques_complete g K2 HK2) as [K3 [Hin3 Hs3]].
      specialize (Hall K3 Hin3).
      assert (Sh3 : share_edgeb K' K3 = true).
      { apply share_edgeb_spec; [exact HndK' |]. eapply share_edge_same_set_r; [| exact Hsh].
        intros x. symmetry. apply Hs3. }
      rewrite Sh3 in Hall. cbn [negb] in Hall. rewrite orb_false_r in Hall. apply list_eqb_spec in Hall. subst K3.
      intros x. symmetry. apply Hs3.
    + apply existsb_exists. exists m. split; [exact Hm |]. apply same_setb_spec. intros x. symmetry. apply Hsm.
Qed.
