(* Monotone coupling for the bond-percolation model (C18): with the SAME draws, a larger phi
   keeps a superset of the edges, hence every component and the largest component can only
   grow.  This is the direction of the comparison (edges are kept with probability phi, not
   1 - phi) stated for every graph, every pair phi <= phi' and every draw sequence. *)
From Coq Require Import List ZArith QArith Bool Arith Lia Permutation.
From GV Require Import Lib.Tree Model.Perc Proofs.PercP.
Import ListNotations.
Local Open Scope nat_scope.

Lemma keep_mono es phi phi' rs : (phi <= phi')%Q -> incl (keep es phi rs) (keep es phi' rs).
Proof.
  intros Hle. revert rs. induction es as [|e es IH]; intros rs; cbn; [intros x []|].
  destruct rs as [|r rs]; [intros x []|].
  destruct (Qle_bool r phi) eqn:E1.
  - assert (E2 : Qle_bool r phi' = true).
    { apply Qle_bool_iff. apply Qle_bool_iff in E1. eapply Qle_trans; eassumption. }
    rewrite E2. intros x [->|Hx]; [left; reflexivity|right; apply IH; exact Hx].
  - destruct (Qle_bool r phi'); [intros x Hx; right; apply IH; exact Hx|apply IH].
Qed.

Lemma adj_mono es es' u w : incl es es' -> adj es u w -> adj es' u w.
Proof. intros Hi [H|H]; [left|right]; apply Hi; exact H. Qed.

Lemma conn_mono es es' v w : incl es es' -> conn es v w -> conn es' v w.
Proof.
  intros Hi H. induction H as [v|u w x _ IH Ha]; [constructor|].
  eapply conn_step; [exact IH|eapply adj_mono; eassumption].
Qed.

Lemma wf_incl nodes es es' : incl es es' -> wf nodes es' -> wf nodes es.
Proof. intros Hi Hwf e He. apply Hwf. apply Hi. exact He. Qed.

Lemma comp_mono nodes es es' v :
  wf nodes es' -> incl es es' -> In v nodes -> incl (comp nodes es v) (comp nodes es' v).
Proof.
  intros Hwf Hi Hv w Hw.
  apply (comp_spec nodes es' v w Hwf Hv).
  apply (conn_mono es es' v w Hi).
  apply (comp_spec nodes es v w (wf_incl nodes es es' Hi Hwf) Hv). exact Hw.
Qed.

Lemma largest_mono nodes es es' : wf nodes es' -> incl es es' -> largest nodes es <= largest nodes es'.
Proof.
  intros Hwf Hi. unfold largest. apply largest_le. intros v Hv.
  eapply Nat.le_trans; [|apply (largest_ge nodes es' nodes v Hv)].
  apply NoDup_incl_length; [apply comp_NoDup|apply comp_mono; assumption].
Qed.

(* the coupling statement: same draws, phi <= phi' *)
Theorem percolate_mono nodes es phi phi' rs :
  wf nodes es -> (phi <= phi')%Q ->
  incl (keep es phi rs) (keep es phi' rs) /\
  fst (percolate nodes es phi rs) <= fst (percolate nodes es phi' rs) /\
  snd (percolate nodes es phi rs) = snd (percolate nodes es phi' rs).
Proof.
  intros Hwf Hle. split; [apply keep_mono; exact Hle|]. split; [|reflexivity].
  unfold percolate. cbn [fst]. apply largest_mono; [apply keep_wf; exact Hwf|apply keep_mono; exact Hle].
Qed.

(* adding edges never shrinks a component or the largest component (the graph-level fact) *)
Theorem largest_mono_edges nodes es es' :
  wf nodes es' -> incl es es' ->
  largest nodes es <= largest nodes es' /\
  (forall v, In v nodes -> incl (comp nodes es v) (comp nodes es' v)).
Proof.
  intros Hwf Hi. split; [apply largest_mono; assumption|]. intros v Hv. apply comp_mono; assumption.
Qed.

(* ---------- the value depends only on the undirected edge SET and the vertex SET ---------- *)
Lemma conn_mono_adj es es' v w :
  (forall u x, adj es u x -> adj es' u x) -> conn es v w -> conn es' v w.
Proof.
  intros Hi H. induction H as [v|u w x _ IH Ha]; [constructor|].
  eapply conn_step; [exact IH|apply Hi; exact Ha].
Qed.

Lemma comp_mono_adj nodes es es' v :
  wf nodes es -> wf nodes es' -> (forall u x, adj es u x -> adj es' u x) -> In v nodes ->
  incl (comp nodes es v) (comp nodes es' v).
Proof.
  intros Hwf Hwf' Hi Hv w Hw.
  apply (comp_spec nodes es' v w Hwf' Hv).
  apply (conn_mono_adj es es' v w Hi).
  apply (comp_spec nodes es v w Hwf Hv). exact Hw.
Qed.

Lemma largest_mono_adj nodes es es' :
  wf nodes es -> wf nodes es' -> (forall u x, adj es u x -> adj es' u x) ->
  largest nodes es <= largest nodes es'.
Proof.
  intros Hwf Hwf' Hi. unfold largest. apply largest_le. intros v Hv.
  eapply Nat.le_trans; [|apply (largest_ge nodes es' nodes v Hv)].
  apply NoDup_incl_length; [apply comp_NoDup|apply comp_mono_adj; assumption].
Qed.

(* same adjacency relation (edge order, orientation and multiplicity are irrelevant) => same value *)
Theorem largest_adj_ext nodes es es' :
  wf nodes es -> wf nodes es' -> (forall u x, adj es u x <-> adj es' u x) ->
  largest nodes es = largest nodes es'.
Proof.
  intros Hwf Hwf' H. apply Nat.le_antisymm; apply largest_mono_adj; try assumption; intros u x; apply H.
Qed.

Lemma fold_max_perm (f : nat -> nat) l l' : Permutation l l' ->
  fold_right (fun v m => Nat.max (f v) m) 0 l = fold_right (fun v m => Nat.max (f v) m) 0 l'.
Proof.
  intros HP. induction HP as [|x l l' _ IH|x y l|l l' l'' _ IH1 _ IH2]; cbn; [reflexivity|rewrite IH; reflexivity|lia|congruence].
Qed.

(* the order in which G.nodes() lists the vertices is irrelevant *)
Theorem largest_nodes_perm nodes nodes' es : Permutation nodes nodes' -> largest nodes es = largest nodes' es.
Proof.
  intros HP. unfold largest, comp. rewrite (Permutation_length HP).
  apply (fold_max_perm (fun v => length (iter_expand es (length nodes') [v]))). exact HP.
Qed.

(* ---------- components are the classes of an equivalence relation ---------- *)
Lemma conn_trans es u v w : conn es u v -> conn es v w -> conn es u w.
Proof.
  intros Huv Hvw. induction Hvw as [v|v w x _ IH Ha]; [exact Huv|].
  eapply conn_step; [apply IH; exact Huv|exact Ha].
Qed.

Lemma adj_sym es u w : adj es u w -> adj es w u.
Proof. intros [H|H]; [right|left]; exact H. Qed.

Lemma conn_sym es u v : conn es u v -> conn es v u.
Proof.
  intros H. induction H as [v|u w x _ IH Ha]; [constructor|].
  eapply conn_trans; [|exact IH].
  eapply conn_step; [apply conn_refl|apply adj_sym; exact Ha].
Qed.

Theorem comp_classes nodes es v w :
  wf nodes es -> In v nodes -> In w nodes ->
  (In w (comp nodes es v) -> forall x, In x (comp nodes es v) <-> In x (comp nodes es w)) /\
  (~ In w (comp nodes es v) -> forall x, In x (comp nodes es v) -> ~ In x (comp nodes es w)).
Proof.
  intros Hwf Hv Hw. split.
  - intros Hvw x. apply (comp_spec nodes es v w Hwf Hv) in Hvw.
    rewrite (comp_spec nodes es v x Hwf Hv), (comp_spec nodes es w x Hwf Hw). split; intros H.
    + eapply conn_trans; [apply conn_sym; exact Hvw|exact H].
    + eapply conn_trans; [exact Hvw|exact H].
  - intros Hn x Hx Hx'. apply Hn.
    apply (comp_spec nodes es v w Hwf Hv).
    apply (comp_spec nodes es v x Hwf Hv) in Hx. apply (comp_spec nodes es w x Hwf Hw) in Hx'.
    eapply conn_trans; [exact Hx|apply conn_sym; exact Hx'].
Qed.
