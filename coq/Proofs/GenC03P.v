(* Growth of C03 (Proofs/GenPermP.v is untouched):
   (a) the histogram checker [c03_okb] is COMPLETE for [Spec_C03] (so it decides it), hence it
       accepts the model's own histogram for every joint degree sequence;
   (b) the map "callback calls -> placement" ([placement], used by c03_check) is tied to
       [shuffle_all]: for the fast plan the placement IS the tuple of shuffled stub lists, for
       the custom plan it is the block-reversed tuple (a fixed bijection on arrangements), and in
       both cases the histogram of placements over the whole schedule space passes the checker. *)
From Coq Require Import List ZArith Bool Arith Lia Permutation.
From GV Require Import Lib.Tree Lib.GenList Model.Gen Proofs.GenP Proofs.GenPermP.
Import ListNotations.

(* ------------------------------------------------------------------ counting in the placement space *)
Lemma cnt_zero_notin : forall a L, ~ In a L -> cnt a L = 0.
Proof. intros a L H. destruct (cnt a L) eqn:E; [reflexivity|]. exfalso. apply H, cnt_pos_In. lia. Qed.

Lemma cnt_dedup : forall a l, In a l -> cnt a (dedup l) = 1.
Proof.
  intros a l. induction l as [|x t IH]; intros H; [destruct H|]. cbn [dedup].
  destruct (memlb x t) eqn:E.
  - apply IH. destruct H as [<-|H]; [now apply memlb_In|exact H].
  - cbn [cnt]. destruct (list_eqb a x) eqn:Eax.
    + apply list_eqb_eq in Eax. subst x. rewrite cnt_zero_notin; [reflexivity|].
      rewrite dedup_In. intro Hin. apply memlb_In in Hin. congruence.
    + destruct H as [<-|H]; [rewrite list_eqb_refl in Eax; discriminate|]. now apply IH.
Qed.

Lemma lists_eqb_refl : forall a, lists_eqb a a = true.
Proof. intros. now apply lists_eqb_eq. Qed.

Lemma lists_eqb_sym : forall a b, lists_eqb a b = lists_eqb b a.
Proof.
  intros a b. destruct (lists_eqb a b) eqn:E.
  - apply lists_eqb_eq in E. subst. now rewrite lists_eqb_refl.
  - destruct (lists_eqb b a) eqn:E2; [|reflexivity]. apply lists_eqb_eq in E2. subst.
    rewrite lists_eqb_refl in E. discriminate.
Qed.

Lemma cntl_pos_In : forall t L, cntl t L > 0 <-> In t L.
Proof.
  intros t L. induction L as [|x r IH]; cbn; [split; [lia|tauto]|].
  destruct (lists_eqb t x) eqn:E.
  - apply lists_eqb_eq in E. subst. split; [now left|lia].
  - rewrite Nat.add_0_l, IH. split; [now right|]. intros [H|H]; [|exact H].
    subst. rewrite lists_eqb_refl in E. discriminate.
Qed.

(* every placement occurs exactly once in the (deduplicated) placement space *)
Lemma cntl_placement_space : forall jds t, IsPlacement jds t -> cntl t (placement_space jds) = 1.
Proof.
  intros jds t H. unfold placement_space, IsPlacement in *.
  induction H as [|a s t sl Ha H IH]; [reflexivity|].
  cbn [map]. rewrite cntl_prod_cons, IH, Nat.mul_1_r.
  apply cnt_dedup. now apply perms_complete.
Qed.

Lemma all_stubs_IsPlacement : forall jds, IsPlacement jds (all_stubs jds).
Proof.
  intros jds. unfold IsPlacement. induction (all_stubs jds); constructor; [apply Permutation_refl|assumption].
Qed.

Lemma placement_space_nonempty : forall jds, 0 < length (placement_space jds).
Proof.
  intros jds. pose proof (proj2 (placement_space_In jds _) (all_stubs_IsPlacement jds)) as H.
  destruct (placement_space jds); [destruct H|cbn; lia].
Qed.

(* ------------------------------------------------------------------ double counting of the weights *)
Fixpoint sumf (f : list (list nat) -> nat) (S : list (list (list nat))) : nat :=
  match S with [] => 0 | t :: S' => f t + sumf f S' end.

Lemma sumf_ext : forall f g S, (forall t, In t S -> f t = g t) -> sumf f S = sumf g S.
Proof.
  intros f g S H. induction S as [|t S IH]; cbn; [reflexivity|].
  rewrite H by now left. rewrite IH; [reflexivity|]. intros u Hu. apply H. now right.
Qed.

Lemma sumf_add : forall f g S, sumf (fun t => f t + g t) S = sumf f S + sumf g S.
Proof. intros f g S. induction S as [|t S IH]; cbn; [reflexivity|]. rewrite IH. lia. Qed.

Lemma sumf_const : forall c S, sumf (fun _ => c) S = length S * c.
Proof. intros c S. induction S as [|t S IH]; cbn; [reflexivity|]. now rewrite IH. Qed.

Lemma sumf_indicator : forall o w S,
  sumf (fun t => if lists_eqb t o then w else 0) S = w * cntl o S.
Proof.
  intros o w S. induction S as [|t S IH]; cbn [sumf cntl]; [lia|].
  rewrite IH, (lists_eqb_sym o t).
  destruct (lists_eqb t o); lia.
Qed.

(* total weight = sum over the space of the per-placement weights, when every observation
   lies in the space and the space lists every element once *)
Lemma sumf_wcount : forall S obs,
  (forall o, In o obs -> cntl (fst o) S = 1) ->
  sumf (fun t => wcount t obs) S = sum (map snd obs).
Proof.
  intros S obs. induction obs as [|[o w] obs IH]; intros H.
  - cbn [wcount map sum]. rewrite sumf_const. lia.
  - cbn [wcount map sum snd]. rewrite sumf_add, sumf_indicator, IH.
    + pose proof (H (o, w) (or_introl eq_refl)) as Ho. cbn [fst] in Ho. rewrite Ho. lia.
    + intros o' Ho'. apply H. now right.
Qed.

(* ------------------------------------------------------------------ the checker decides Spec_C03 *)
Theorem c03_okb_complete : forall jds obs, Spec_C03 jds obs -> c03_okb jds obs = true.
Proof.
  intros jds obs [H1 [c [Hc H2]]]. unfold c03_okb. cbv zeta.
  set (S := placement_space jds).
  assert (HW : sum (map snd obs) = length S * c).
  { rewrite <- (sumf_wcount S obs).
    - rewrite <- sumf_const. apply sumf_ext. intros t Ht. apply H2. now apply placement_space_In.
    - intros o Ho. apply cntl_placement_space. now apply H1. }
  assert (HS : 0 < length S) by apply placement_space_nonempty.
  assert (Hq : sum (map snd obs) / length S = c).
  { rewrite HW, Nat.mul_comm. apply Nat.div_mul. lia. }
  rewrite Hq. rewrite !andb_true_iff, !forallb_forall. repeat split.
  - now apply Nat.ltb_lt.
  - intros o Ho. apply memllb_In. apply placement_space_In. now apply H1.
  - intros t Ht. apply Nat.eqb_eq. apply H2. now apply placement_space_In.
Qed.

Theorem c03_okb_iff : forall jds obs, c03_okb jds obs = true <-> Spec_C03 jds obs.
Proof. intros. split; [apply c03_okb_sound|apply c03_okb_complete]. Qed.

(* (a): the verified checker accepts the model's own histogram, for EVERY jds *)
Theorem model_passes_c03_okb : forall jds, c03_okb jds (obs_model jds) = true.
Proof. intros. apply c03_okb_complete, model_satisfies_C03. Qed.

(* the common weight the checker computes is the multiplicity of the counting theorems *)
Theorem model_histogram_weight : forall jds,
  length (schedules jds) = length (placement_space jds) * multl (all_stubs jds).
Proof.
  intros jds. destruct (model_satisfies_C03 jds) as [H1 _].
  assert (E : sum (map snd (obs_model jds)) = length (schedules jds)).
  { unfold obs_model. rewrite map_map. cbn [snd]. induction (schedules jds); cbn; [reflexivity|]. now rewrite IHl. }
  rewrite <- E, <- (sumf_wcount (placement_space jds)).
  - rewrite <- sumf_const. apply sumf_ext. intros t Ht. apply placement_space_In in Ht.
    unfold obs_model. rewrite <- (map_map (fun pis => shuffle_all pis (all_stubs jds)) (fun o => (o, 1))).
    rewrite wcount_ones. now apply schedules_uniform.
  - intros o Ho. apply cntl_placement_space. now apply H1.
Qed.

(* ================================================================== (b) calls -> placement *)
(* slots of a structured call list: the p-th segments of the calls of motif type j *)
Lemma slots_structured : forall sizes mis jds cs j p,
  Structured sizes mis jds cs ->
  slots sizes (nth j mis []) j p (map flat_call cs) =
  concat (map (fun c => nth p (snd c) []) (filter (fun c => fst c =? j) cs)).
Proof.
  intros sizes mis jds cs j p [S1 _].
  unfold slots. rewrite calls_of_flat, map_map. f_equal. apply map_ext_in.
  intros c Hc. apply filter_In in Hc. destruct Hc as [Hc Hf]. apply Nat.eqb_eq in Hf.
  destruct (S1 c Hc) as [_ HF]. rewrite Hf in HF.
  unfold seg_of, seg_sizes. cbn [flat_call snd].
  now rewrite (proj1 (split_by_concat (size_of sizes) _ _ HF)).
Qed.

(* where_is finds the (motif type, orbit position) of a topology *)
Lemma posn_some : forall i l p0 p, posn i l p0 = Some p ->
  p0 <= p /\ p - p0 < length l /\ nth (p - p0) l 0 = i.
Proof.
  intros i l. induction l as [|x t IH]; intros p0 p H; cbn in H; [discriminate|].
  destruct (Nat.eqb_spec x i) as [->|Hne].
  - inversion H; subst. rewrite Nat.sub_diag. cbn. repeat split; lia.
  - destruct (IH _ _ H) as [H1 [H2 H3]]. split; [lia|]. split; [cbn; lia|].
    replace (p - p0) with (S (p - S p0)) by lia. exact H3.
Qed.

Lemma posn_none : forall i l p0, posn i l p0 = None -> ~ In i l.
Proof.
  intros i l. induction l as [|x t IH]; intros p0 H; cbn in H; [tauto|].
  destruct (Nat.eqb_spec x i) as [->|Hne]; [discriminate|].
  intros [E|Hin]; [congruence|]. exact (IH _ H Hin).
Qed.

Lemma where_from_spec : forall i m j0, In i (concat m) ->
  j0 <= fst (where_from i m j0) /\ fst (where_from i m j0) - j0 < length m /\
  snd (where_from i m j0) < length (nth (fst (where_from i m j0) - j0) m []) /\
  nth (snd (where_from i m j0)) (nth (fst (where_from i m j0) - j0) m []) 0 = i.
Proof.
  intros i m. induction m as [|idxs rest IH]; intros j0 H; [destruct H|].
  cbn [where_from]. destruct (posn i idxs 0) as [p|] eqn:E.
  - apply posn_some in E. rewrite Nat.sub_0_r in E. destruct E as [_ [E1 E2]].
    cbn [fst snd]. rewrite Nat.sub_diag. cbn [nth length]. repeat split; try lia; assumption.
  - apply posn_none in E. cbn [concat] in H. apply in_app_or in H. destruct H as [H|H]; [contradiction|].
    destruct (IH (S j0) H) as [H1 [H2 [H3 H4]]].
    set (w := where_from i rest (S j0)) in *.
    replace (fst w - j0) with (S (fst w - S j0)) by lia. cbn [nth length].
    repeat split; try lia; assumption.
Qed.

Lemma where_is_spec : forall mis i, In i (concat mis) ->
  fst (where_is mis i) < length mis /\
  snd (where_is mis i) < length (nth (fst (where_is mis i)) mis []) /\
  nth (snd (where_is mis i)) (nth (fst (where_is mis i)) mis []) 0 = i.
Proof.
  intros mis i H. unfold where_is. destruct (where_from_spec i mis 0 H) as [_ [H2 [H3 H4]]].
  rewrite Nat.sub_0_r in *. auto.
Qed.

Lemma where_is_singleton : forall T i, i < T -> where_is (singleton_mis T) i = (i, 0).
Proof.
  intros T i Hi.
  destruct (where_is_spec (singleton_mis T) i) as [H1 [H2 H3]].
  { rewrite concat_singleton_mis. now apply in_seq0. }
  destruct (where_is (singleton_mis T) i) as [j p]. cbn [fst snd] in *.
  rewrite singleton_mis_length in H1. rewrite singleton_mis_nth in H2, H3 by exact H1.
  cbn in H2. assert (p = 0) by lia. subst p. cbn in H3. now subst.
Qed.

(* ------------------------------------------------------------------ the fast plan: placement = the shuffled stub lists *)
Theorem placement_fast : forall sizes jds pis,
  Valid sizes (singleton_mis (ncols jds)) jds -> PisOk jds pis ->
  placement sizes (singleton_mis (ncols jds)) (ncols jds)
            (map flat_call (fst (plan_fast sizes jds pis))) =
  shuffle_all pis (all_stubs jds).
Proof.
  intros sizes jds pis V HP.
  destruct (plan_fast_structured sizes jds pis V HP) as [_ ST].
  set (T := ncols jds) in *. set (sl := shuffle_all pis (all_stubs jds)).
  assert (Hlen : length sl = T) by (unfold sl; now rewrite shuffle_all_length, all_stubs_length).
  destruct (plan_fast_from_spec sl 0 sizes) as [cs [E [B F]]].
  { intros i Hi. cbn. apply (v_sizes _ _ _ V). rewrite Hlen in Hi. exact Hi. }
  unfold plan_fast in *. fold sl in ST |- *. rewrite E in *. cbn [fst] in *.
  transitivity (map (fun i => nth i sl []) (seq 0 (length sl))); [|apply map_nth_seq].
  rewrite Hlen. unfold placement.
  apply map_ext_in. intros i Hi. apply in_seq0 in Hi.
  rewrite where_is_singleton by exact Hi.
  rewrite (slots_structured _ _ _ _ _ _ ST).
  specialize (F i). rewrite Hlen in F. cbn [Nat.add] in F. rewrite F by exact Hi.
  rewrite map_map. cbn [snd nth]. rewrite map_id.
  apply chunks_concat. now apply (v_sizes _ _ _ V).
Qed.

(* ------------------------------------------------------------------ the custom plan *)
(* list.pop() takes the LAST partition first: orbit i's slots are its stub list with the
   consecutive groups of size n in reverse order *)
Definition block_rev (n : nat) (a : list nat) : list nat := concat (rev (chunks n a)).

Fixpoint block_rev_from (k : nat) (sizes : list nat) (sl : list (list nat)) : list (list nat) :=
  match sl with
  | [] => []
  | s :: r => block_rev (size_of sizes k) s :: block_rev_from (S k) sizes r
  end.
Definition block_rev_all (sizes : list nat) (sl : list (list nat)) : list (list nat) :=
  block_rev_from 0 sizes sl.

Lemma block_rev_from_map : forall sl k sizes,
  block_rev_from k sizes sl =
  map (fun i => block_rev (size_of sizes (k + i)) (nth i sl [])) (seq 0 (length sl)).
Proof.
  induction sl as [|s r IH]; intros k sizes; [reflexivity|].
  cbn [block_rev_from length seq map nth]. rewrite Nat.add_0_r. f_equal.
  rewrite IH, <- seq_shift, map_map. apply map_ext. intros i. now rewrite Nat.add_succ_r.
Qed.

(* the calls of motif type j, as in the proof of plan_custom_structured *)
Lemma plan_custom_filter : forall sizes mis jds pis,
  Valid sizes mis jds -> PisOk jds pis ->
  let sl := shuffle_all pis (all_stubs jds) in
  let P := fun i => rev (chunks (size_of sizes i) (nth i sl [])) in
  forall j, j < length mis ->
    filter (fun c => fst c =? j) (fst (plan_custom sizes mis jds pis)) =
    map (fun r => (j, map (fun i => nth r (P i) []) (nth j mis [])))
        (seq 0 (length (P (hd 0 (nth j mis []))))) /\
    forall i, In i (nth j mis []) -> length (P i) = length (P (hd 0 (nth j mis []))).
Proof.
  intros sizes mis jds pis V HP sl P.
  assert (Hlen : length sl = ncols jds) by (unfold sl; now rewrite shuffle_all_length, all_stubs_length).
  destruct (partitions_from_spec sl 0 sizes) as [parts [E [L F]]].
  { intros i Hi. cbn. apply (v_sizes _ _ _ V). rewrite Hlen in Hi. exact Hi. }
  assert (Hfacts : forall idxs i, In idxs mis -> In i idxs ->
            i < ncols jds /\
            length (P i) = sum (col (hd 0 idxs) jds) / size_of sizes (hd 0 idxs)).
  { intros idxs i Hidxs Hi. destruct (v_idxs _ _ _ V idxs Hidxs) as [_ Hlt].
    specialize (Hlt i Hi). split; [exact Hlt|].
    assert (Hc : In i (concat mis)) by (apply in_concat; exists idxs; now split).
    destruct (chunks_div (size_of sizes i) (nth i sl [])) as [H1 H2].
    - now apply (v_sizes _ _ _ V).
    - unfold sl. rewrite shuffled_length by assumption. now apply (v_div _ _ _ V).
    - unfold P. rewrite rev_length, H1. unfold sl. rewrite shuffled_length by assumption.
      now apply (v_orbits _ _ _ V). }
  destruct (plan_custom_from_spec mis 0 sizes (map (@length nat) sl) parts P) as [cs [E' [B' F']]].
  { exact (v_nodup _ _ _ V). }
  { now rewrite map_length, L. }
  { intros idxs Hidxs. destruct (v_idxs _ _ _ V idxs Hidxs) as [Hne Hlt]. split; [exact Hne|].
    intros i Hi. destruct (Hfacts idxs i Hidxs Hi) as [Hi1 Hi2].
    rewrite L, Hlen. split; [exact Hi1|]. split; [now apply (v_sizes _ _ _ V)|]. split.
    - rewrite F by now rewrite Hlen. reflexivity.
    - rewrite Hi2. f_equal.
      assert (Hh : hd 0 idxs < ncols jds) by (apply Hlt; now apply hd_In).
      rewrite (nth_map_in _ _ _ _ _ [] 0) by now rewrite Hlen.
      unfold sl. now rewrite shuffled_length. }
  intros j Hj. unfold plan_custom. fold sl. rewrite E, E'. cbn [fst]. cbn [Nat.add] in F'.
  split; [now apply F'|].
  intros i Hi. set (idxs := nth j mis []) in *.
  assert (Hidxs : In idxs mis) by (apply nth_In; exact Hj).
  destruct (Hfacts idxs i Hidxs Hi) as [_ Hl].
  destruct (Hfacts idxs (hd 0 idxs) Hidxs) as [_ Hl0].
  { apply hd_In. now apply (v_idxs _ _ _ V). }
  congruence.
Qed.

Theorem placement_custom : forall sizes mis jds pis,
  Valid sizes mis jds -> PisOk jds pis ->
  placement sizes mis (ncols jds) (map flat_call (fst (plan_custom sizes mis jds pis))) =
  block_rev_all sizes (shuffle_all pis (all_stubs jds)).
Proof.
  intros sizes mis jds pis V HP.
  destruct (plan_custom_structured sizes mis jds pis V HP) as [_ ST].
  pose proof (plan_custom_filter sizes mis jds pis V HP) as PF. cbv zeta in PF.
  set (sl := shuffle_all pis (all_stubs jds)) in *.
  assert (Hlen : length sl = ncols jds) by (unfold sl; now rewrite shuffle_all_length, all_stubs_length).
  unfold block_rev_all. rewrite block_rev_from_map, Hlen. unfold placement.
  apply map_ext_in. intros i Hi. apply in_seq0 in Hi. cbn [Nat.add].
  destruct (where_is_spec mis i (v_cover _ _ _ V i Hi)) as [Hj [Hp Hnth]].
  destruct (where_is mis i) as [j p]. cbn [fst snd] in *.
  rewrite (slots_structured _ _ _ _ _ _ ST).
  destruct (PF j Hj) as [Ef Hl]. rewrite Ef, map_map. cbn [snd].
  set (idxs := nth j mis []) in *.
  set (P := fun i0 => rev (chunks (size_of sizes i0) (nth i0 sl []))) in *.
  assert (Hip : In (nth p idxs 0) idxs) by now apply nth_In.
  assert (Em : map (fun r => nth p (map (fun i0 => nth r (P i0) []) idxs) [])
                   (seq 0 (length (P (hd 0 idxs)))) = P (nth p idxs 0)).
  { assert (Hl' : length (P (nth p idxs 0)) = length (P (hd 0 idxs))) by (apply Hl; exact Hip).
    rewrite <- Hl'. rewrite <- (map_nth_seq _ [] (P (nth p idxs 0))) at 2.
    apply map_ext. intros r. now rewrite (nth_map_in _ _ _ _ _ 0 []) by exact Hp. }
  unfold P in Em. rewrite Em, Hnth. reflexivity.
Qed.

(* ------------------------------------------------------------------ block reversal is a bijection on arrangements *)
Lemma chunks_aux_concat_blocks : forall gs fuel n,
  0 < n -> Forall (fun g => length g = n) gs -> length gs <= fuel ->
  chunks_aux fuel n (concat gs) = gs.
Proof.
  induction gs as [|g gs IH]; intros fuel n Hn HF Hf.
  - destruct fuel; reflexivity.
  - inversion HF as [|? ? Hg HF']; subst. destruct fuel as [|f]; [cbn in Hf; lia|].
    cbn [concat chunks_aux].
    destruct (firstn_skipn_app g (concat gs) (length g) eq_refl) as [H1 H2].
    destruct g as [|x g']; [cbn in Hn; lia|].
    change ((x :: g') ++ concat gs) with (x :: (g' ++ concat gs)) at 1.
    cbv iota. change (x :: g' ++ concat gs) with ((x :: g') ++ concat gs).
    rewrite H1, H2. f_equal. apply IH; [exact Hn|exact HF'|cbn in Hf; lia].
Qed.

Lemma concat_blocks_length : forall (gs : list (list nat)) n,
  Forall (fun g => length g = n) gs -> length (concat gs) = length gs * n.
Proof.
  induction gs as [|g gs IH]; intros n HF; [reflexivity|]. inversion HF; subst.
  cbn. rewrite app_length, (IH (length g)) by assumption. reflexivity.
Qed.

Lemma chunks_concat_blocks : forall gs n,
  0 < n -> Forall (fun g => length g = n) gs -> chunks n (concat gs) = gs.
Proof.
  intros gs n Hn HF. unfold chunks. apply chunks_aux_concat_blocks; [exact Hn|exact HF|].
  rewrite (concat_blocks_length gs n HF). nia.
Qed.

Lemma block_rev_perm : forall n a, 0 < n -> Permutation (block_rev n a) a.
Proof.
  intros n a Hn. unfold block_rev. eapply Permutation_trans; [apply concat_perm_rev|].
  rewrite chunks_concat by exact Hn. apply Permutation_refl.
Qed.

Lemma block_rev_invol : forall n a, 0 < n -> length a mod n = 0 ->
  block_rev n (block_rev n a) = a.
Proof.
  intros n a Hn Hm. unfold block_rev.
  destruct (chunks_div n a Hn Hm) as [_ HF].
  rewrite chunks_concat_blocks; [|exact Hn|].
  - rewrite rev_involutive. now apply chunks_concat.
  - rewrite Forall_forall in *. intros g Hg. apply HF. now apply in_rev.
Qed.

Lemma block_rev_invol_perm : forall n a, 0 < n -> length a mod n = 0 ->
  block_rev n (block_rev n a) = a /\ Permutation (block_rev n a) a.
Proof. intros n a Hn Hm. split; [now apply block_rev_invol|now apply block_rev_perm]. Qed.

(* divisibility of every component by its group size *)
Definition Divs (k : nat) (sizes : list nat) (t : list (list nat)) : Prop :=
  forall i, i < length t ->
    0 < size_of sizes (k + i) /\ length (nth i t []) mod size_of sizes (k + i) = 0.

Lemma Divs_tail : forall k sizes a t, Divs k sizes (a :: t) -> Divs (S k) sizes t.
Proof.
  intros k sizes a t H i Hi. specialize (H (S i)). cbn [length nth] in H.
  rewrite Nat.add_succ_r in H. apply H. lia.
Qed.

Lemma block_rev_from_invol : forall t k sizes, Divs k sizes t ->
  block_rev_from k sizes (block_rev_from k sizes t) = t.
Proof.
  induction t as [|a t IH]; intros k sizes H; [reflexivity|].
  cbn [block_rev_from]. destruct (H 0) as [Hn Hm]; [cbn; lia|]. rewrite Nat.add_0_r in Hn, Hm.
  cbn [nth] in Hm. rewrite block_rev_invol by assumption. f_equal. apply IH. eapply Divs_tail; eauto.
Qed.

Lemma block_rev_from_perm : forall t sl k sizes,
  (forall i, i < length t -> 0 < size_of sizes (k + i)) ->
  Forall2 (fun a s => Permutation a s) t sl ->
  Forall2 (fun a s => Permutation a s) (block_rev_from k sizes t) sl.
Proof.
  intros t sl k sizes Hs H. revert k Hs. induction H as [|a s t sl Ha H IH]; intros k Hs; [constructor|].
  cbn [block_rev_from]. constructor.
  - eapply Permutation_trans; [apply block_rev_perm|exact Ha].
    specialize (Hs 0). rewrite Nat.add_0_r in Hs. apply Hs. cbn. lia.
  - apply IH. intros i Hi. specialize (Hs (S i)). rewrite Nat.add_succ_r in Hs. apply Hs. cbn. lia.
Qed.

Lemma placement_Divs : forall sizes mis jds t,
  Valid sizes mis jds -> IsPlacement jds t -> Divs 0 sizes t.
Proof.
  intros sizes mis jds t V H i Hi. cbn [Nat.add].
  pose proof (Forall2_len _ _ _ _ _ H) as HL. rewrite all_stubs_length in HL.
  assert (Hi' : i < ncols jds) by lia.
  destruct (v_sizes _ _ _ V i Hi') as [_ Hn]. split; [exact Hn|].
  pose proof (Forall2_nth _ _ _ _ _ [] [] i H Hi) as Hp. cbv beta in Hp.
  rewrite (Permutation_length Hp), all_stubs_nth, stubs_length by exact Hi'.
  apply (v_div _ _ _ V). now apply (v_cover _ _ _ V).
Qed.

Lemma block_rev_all_placement : forall sizes mis jds t,
  Valid sizes mis jds -> IsPlacement jds t -> IsPlacement jds (block_rev_all sizes t).
Proof.
  intros sizes mis jds t V H. unfold IsPlacement, block_rev_all in *.
  apply block_rev_from_perm; [|exact H].
  intros i Hi. now apply (placement_Divs sizes mis jds t V H i Hi).
Qed.

Lemma cntl_map_invol : forall (G : list (list nat) -> list (list nat)) t L,
  (forall x, In x L -> G (G x) = x) -> G (G t) = t ->
  cntl t (map G L) = cntl (G t) L.
Proof.
  intros G t L HL Ht. induction L as [|x L IH]; [reflexivity|].
  cbn [map cntl]. rewrite IH by (intros y Hy; apply HL; now right). f_equal.
  destruct (lists_eqb t (G x)) eqn:E1; destruct (lists_eqb (G t) x) eqn:E2; try reflexivity; exfalso.
  - apply lists_eqb_eq in E1. subst t. rewrite HL in E2 by now left.
    rewrite lists_eqb_refl in E2. discriminate.
  - apply lists_eqb_eq in E2. subst x. rewrite Ht, lists_eqb_refl in E1. discriminate.
Qed.

(* ------------------------------------------------------------------ histograms of placements read off the calls *)
Lemma schedules_PisOk : forall jds pis, In pis (schedules jds) -> PisOk jds pis.
Proof.
  intros jds pis H k Hk. unfold schedules in H. apply prod_lists_In in H.
  assert (Hl : k < length pis).
  { rewrite (Forall2_len _ _ _ _ _ H), map_length, all_stubs_length. exact Hk. }
  pose proof (Forall2_nth _ _ _ _ _ [] [] k H Hl) as Hn. cbv beta in Hn.
  rewrite (nth_map_in _ _ _ _ _ [] []) in Hn by now rewrite all_stubs_length.
  rewrite all_stubs_nth in Hn by exact Hk. now apply perms_complete in Hn.
Qed.

(* what c03_check computes from the call lists of ALL runs of the sample space *)
Definition obs_calls_fast (sizes : list nat) (jds : list (list nat)) : list (list (list nat) * nat) :=
  map (fun pis => (placement sizes (singleton_mis (ncols jds)) (ncols jds)
                             (map flat_call (fst (plan_fast sizes jds pis))), 1)) (schedules jds).

Definition obs_calls_custom (sizes : list nat) (mis jds : list (list nat)) : list (list (list nat) * nat) :=
  map (fun pis => (placement sizes mis (ncols jds)
                             (map flat_call (fst (plan_custom sizes mis jds pis))), 1)) (schedules jds).

Theorem obs_calls_fast_is_model : forall sizes jds,
  Valid sizes (singleton_mis (ncols jds)) jds -> obs_calls_fast sizes jds = obs_model jds.
Proof.
  intros sizes jds V. unfold obs_calls_fast, obs_model. apply map_ext_in. intros pis Hp.
  now rewrite placement_fast by (try exact V; now apply schedules_PisOk).
Qed.

Theorem fast_calls_pass_c03_okb : forall sizes jds,
  Valid sizes (singleton_mis (ncols jds)) jds -> c03_okb jds (obs_calls_fast sizes jds) = true.
Proof. intros sizes jds V. rewrite obs_calls_fast_is_model by exact V. apply model_passes_c03_okb. Qed.

Theorem obs_calls_custom_is_model : forall sizes mis jds,
  Valid sizes mis jds ->
  obs_calls_custom sizes mis jds =
  map (fun pis => (block_rev_all sizes (shuffle_all pis (all_stubs jds)), 1)) (schedules jds).
Proof.
  intros sizes mis jds V. unfold obs_calls_custom. apply map_ext_in. intros pis Hp.
  now rewrite placement_custom by (try exact V; now apply schedules_PisOk).
Qed.

Theorem custom_calls_satisfy_C03 : forall sizes mis jds,
  Valid sizes mis jds -> Spec_C03 jds (obs_calls_custom sizes mis jds).
Proof.
  intros sizes mis jds V. rewrite obs_calls_custom_is_model by exact V. split.
  - intros o Ho. apply in_map_iff in Ho. destruct Ho as [pis [<- Hp]]. cbn [fst].
    apply (block_rev_all_placement sizes mis jds _ V). now apply schedules_only_arrangements.
  - exists (multl (all_stubs jds)). split; [apply multl_pos|]. intros t Ht.
    rewrite <- (map_map (fun pis => block_rev_all sizes (shuffle_all pis (all_stubs jds))) (fun o => (o, 1))).
    rewrite wcount_ones.
    rewrite <- (map_map (fun pis => shuffle_all pis (all_stubs jds)) (block_rev_all sizes)).
    rewrite cntl_map_invol.
    + apply schedules_uniform. apply (block_rev_all_placement sizes mis jds _ V Ht).
    + intros x Hx. apply in_map_iff in Hx. destruct Hx as [pis [<- Hp]].
      apply block_rev_from_invol. apply (placement_Divs sizes mis jds _ V).
      now apply schedules_only_arrangements.
    + apply block_rev_from_invol. now apply (placement_Divs sizes mis jds _ V).
Qed.

Theorem custom_calls_pass_c03_okb : forall sizes mis jds,
  Valid sizes mis jds -> c03_okb jds (obs_calls_custom sizes mis jds) = true.
Proof. intros. now apply c03_okb_complete, custom_calls_satisfy_C03. Qed.

(* ================================================================== (c) no handshake condition (fast / network) *)
(* grouper() hands the short last group to the callback as it is: every group has at most n entries, so the
   first (only) segment of a call of the fast plan is the whole group, and the concatenated groups are the whole
   shuffled stub list -- whatever its length *)
Lemma chunks_aux_short : forall fuel n l g, In g (chunks_aux fuel n l) -> length g <= n.
Proof.
  induction fuel as [|f IH]; intros n l g H; cbn in H; [contradiction|].
  destruct l as [|x t]; [contradiction|].
  destruct H as [<-|H]; [apply firstn_le_length|exact (IH _ _ _ H)].
Qed.

Lemma chunks_short : forall n l g, In g (chunks n l) -> length g <= n.
Proof. intros n l g. apply chunks_aux_short. Qed.

Record ValidNH (sizes : list nat) (jds : list (list nat)) : Prop := mk_ValidNH {
  vn_rect : forall r, In r jds -> length r = ncols jds;
  vn_sizes : forall k, k < ncols jds -> k < length sizes /\ 0 < size_of sizes k
}.

Lemma validb_nohs_ValidNH : forall sizes jds, validb_nohs sizes jds = true <-> ValidNH sizes jds.
Proof.
  intros sizes jds. unfold validb_nohs. rewrite andb_true_iff, !forallb_forall. split.
  - intros [H1 H2]. constructor.
    + intros r Hr. now apply Nat.eqb_eq, H1.
    + intros k Hk. specialize (H2 k (proj2 (in_seq0 _ _) Hk)).
      apply andb_true_iff in H2. destruct H2 as [Ha Hb]. apply Nat.ltb_lt in Ha, Hb. now split.
  - intros [V1 V2]. split.
    + intros r Hr. now apply Nat.eqb_eq, V1.
    + intros k Hk. apply in_seq0 in Hk. destruct (V2 k Hk) as [Ha Hb].
      apply andb_true_iff. split; now apply Nat.ltb_lt.
Qed.

(* the handshake-consistent hypotheses are a special case *)
Lemma Valid_ValidNH : forall sizes mis jds, Valid sizes mis jds -> ValidNH sizes jds.
Proof. intros sizes mis jds V. constructor; [exact (v_rect _ _ _ V)|exact (v_sizes _ _ _ V)]. Qed.

Theorem placement_fast_nohs : forall sizes jds pis,
  ValidNH sizes jds ->
  placement sizes (singleton_mis (ncols jds)) (ncols jds)
            (map flat_call (fst (plan_fast sizes jds pis))) =
  shuffle_all pis (all_stubs jds).
Proof.
  intros sizes jds pis V.
  set (T := ncols jds) in *. set (sl := shuffle_all pis (all_stubs jds)).
  assert (Hlen : length sl = T) by (unfold sl; now rewrite shuffle_all_length, all_stubs_length).
  destruct (plan_fast_from_spec sl 0 sizes) as [cs [E [B F]]].
  { intros i Hi. cbn. apply (vn_sizes _ _ V). rewrite Hlen in Hi. exact Hi. }
  unfold plan_fast. fold sl. rewrite E. cbn [fst].
  transitivity (map (fun i => nth i sl []) (seq 0 (length sl))); [|apply map_nth_seq].
  rewrite Hlen. unfold placement.
  apply map_ext_in. intros i Hi. apply in_seq0 in Hi.
  rewrite where_is_singleton by exact Hi.
  rewrite singleton_mis_nth by exact Hi.
  unfold slots. rewrite calls_of_flat.
  specialize (F i). rewrite Hlen in F. cbn [Nat.add] in F. rewrite F by exact Hi.
  rewrite !map_map.
  transitivity (concat (chunks (size_of sizes i) (nth i sl []))).
  - f_equal. rewrite <- (map_id (chunks (size_of sizes i) (nth i sl []))) at 2.
    apply map_ext_in. intros g Hg. apply chunks_short in Hg.
    unfold seg_of, seg_sizes. cbn [flat_call snd fst concat map split_by nth]. rewrite app_nil_r.
    now apply firstn_all2.
  - apply chunks_concat. now apply (vn_sizes _ _ V).
Qed.

Theorem obs_calls_fast_is_model_nohs : forall sizes jds,
  ValidNH sizes jds -> obs_calls_fast sizes jds = obs_model jds.
Proof.
  intros sizes jds V. unfold obs_calls_fast, obs_model. apply map_ext_in. intros pis _.
  now rewrite placement_fast_nohs.
Qed.

Theorem fast_calls_pass_c03_okb_nohs : forall sizes jds,
  ValidNH sizes jds -> c03_okb jds (obs_calls_fast sizes jds) = true.
Proof. intros sizes jds V. rewrite obs_calls_fast_is_model_nohs by exact V. apply model_passes_c03_okb. Qed.
