(* C15, general identity, part 2: connectivity.
   [conn S a b]: b is joined to a by a path of edges of S.  The executable reachability closure
   [reach] (hence [comp], [connectedb]) computes exactly this relation when its fuel suffices, which
   it does for edge lists over the node list.  Consequences:
   - the component of the root under an edge subset S is a vertex set [grown] from the root
     (so the enumeration lists it exactly once),
   - "the component of the root under S is C" factorises into "no interface edge of C is in S" and
     "the internal edges of C that are in S connect C",
   - networkx.is_connected on the reduced graph of C is that second condition. *)
From Coq Require Import List ZArith Bool Arith Lia Permutation.
From GV Require Import Lib.Tree Lib.PolyRefl15 Lib.Graph15 Model.AutoEq Proofs.AutoEqP Proofs.AutoEqW.
Import ListNotations.
Local Open Scope nat_scope.

(* ------------------------------------------------------------------ *)
(* adjacency *)
Lemma memb_nbrs_iff : forall S a b, memb b (nbrs S a) = true <-> In (a, b) S \/ In (b, a) S.
Proof.
  intros S a b. rewrite memb_In. split; [apply in_nbrs|].
  intros [H|H]; unfold nbrs; apply in_flat_map.
  - exists (a, b). split; [exact H|]. unfold adj. cbn [fst snd]. rewrite Nat.eqb_refl. left; reflexivity.
  - exists (b, a). split; [exact H|]. unfold adj. cbn [fst snd].
    destruct (Nat.eqb b a) eqn:E.
    + apply Nat.eqb_eq in E. subst. left; reflexivity.
    + rewrite Nat.eqb_refl. left; reflexivity.
Qed.

Lemma adj_sym : forall S a b, memb b (nbrs S a) = true -> memb a (nbrs S b) = true.
Proof. intros S a b H. apply memb_nbrs_iff. apply memb_nbrs_iff in H. tauto. Qed.

Lemma memb_filter : forall v (p : nat -> bool) l, memb v (filter p l) = memb v l && p v.
Proof.
  intros v p. induction l as [|x l IH]; [reflexivity|]. cbn [filter].
  destruct (p x) eqn:Ep; cbn [memb existsb]; fold (memb v l); fold (memb v (filter p l)); rewrite IH.
  - destruct (Nat.eqb v x) eqn:E; [|reflexivity]. apply Nat.eqb_eq in E. subst. rewrite Ep. reflexivity.
  - destruct (Nat.eqb v x) eqn:E; [|reflexivity]. apply Nat.eqb_eq in E. subst. rewrite Ep.
    cbn. rewrite andb_false_r. reflexivity.
Qed.

(* all end points of the edges lie in the node list *)
Definition ends_in (nodes : list nat) (S : list edge) : Prop :=
  forall e, In e S -> In (fst e) nodes /\ In (snd e) nodes.

Lemma ends_in_incl : forall nodes S S', incl S S' -> ends_in nodes S' -> ends_in nodes S.
Proof. intros nodes S S' Hi H e He. apply H, Hi, He. Qed.

Lemma adj_in_nodes : forall nodes S v w, ends_in nodes S -> memb w (nbrs S v) = true -> In w nodes.
Proof.
  intros nodes S v w He H. apply memb_nbrs_iff in H. destruct H as [H|H]; apply He in H; cbn [fst snd] in H; tauto.
Qed.

(* ------------------------------------------------------------------ *)
(* paths *)
Inductive conn (S : list edge) (a : nat) : nat -> Prop :=
| conn_refl : conn S a a
| conn_step : forall b c, conn S a b -> memb c (nbrs S b) = true -> conn S a c.

Lemma conn_trans : forall S a b c, conn S a b -> conn S b c -> conn S a c.
Proof.
  intros S a b c Hab Hbc. induction Hbc as [|x y Hbx IH Hxy]; [exact Hab|].
  exact (conn_step S a x y IH Hxy).
Qed.

Lemma conn_edge : forall S a b, memb b (nbrs S a) = true -> conn S a b.
Proof. intros S a b H. exact (conn_step S a a b (conn_refl S a) H). Qed.

Lemma conn_sym : forall S a b, conn S a b -> conn S b a.
Proof.
  intros S a b H. induction H as [|x y Hax IH Hxy]; [apply conn_refl|].
  apply (conn_trans S y x a); [|exact IH]. apply conn_edge, adj_sym, Hxy.
Qed.

Lemma conn_mono : forall S S' a b, incl S S' -> conn S a b -> conn S' a b.
Proof.
  intros S S' a b Hi H. induction H as [|x y Hax IH Hxy]; [apply conn_refl|].
  apply (conn_step S' a x y IH). apply (memb_nbrs_mono S S' x y Hi Hxy).
Qed.

Lemma conn_in_nodes : forall nodes S a b, ends_in nodes S -> In a nodes -> conn S a b -> In b nodes.
Proof.
  intros nodes S a b He Ha H. induction H as [|x y Hax IH Hxy]; [exact Ha|].
  apply (adj_in_nodes nodes S x y He Hxy).
Qed.

Lemma conn_nil : forall a b, conn [] a b -> b = a.
Proof. intros a b H. induction H as [|x y Hax IH Hxy]; [reflexivity|]. discriminate Hxy. Qed.

(* ------------------------------------------------------------------ *)
(* the reachability closure computes [conn] *)
Lemma NoDup_fold_union : forall es l acc, NoDup acc ->
    NoDup (fold_left (fun acc w => unionv acc (nbrs es w)) l acc).
Proof.
  intros es. induction l as [|x l IH]; intros acc Ha; cbn [fold_left]; [exact Ha|].
  apply IH, NoDup_unionv, Ha.
Qed.
Lemma NoDup_step : forall es seen, NoDup seen -> NoDup (step es seen).
Proof. intros. unfold step. apply NoDup_fold_union. assumption. Qed.

Lemma reach_sound : forall f S seen v,
    memb v (reach f S seen) = true -> exists a, memb a seen = true /\ conn S a v.
Proof.
  induction f as [|f IH]; intros S seen v Hv.
  - exists v. split; [exact Hv|apply conn_refl].
  - rewrite reach_unfold in Hv. destruct (Nat.eqb (length (step S seen)) (length seen)).
    + exists v. split; [exact Hv|apply conn_refl].
    + destruct (IH _ _ _ Hv) as [a [Ha Hc]]. rewrite memb_step in Ha. apply orb_true_iff in Ha.
      destruct Ha as [Ha|Ha].
      * exists a. split; assumption.
      * apply existsb_exists in Ha. destruct Ha as [w [Hw Haw]]. exists w. split; [apply memb_In, Hw|].
        apply (conn_trans S w a v); [|exact Hc]. apply conn_edge, Haw.
Qed.

(* with enough fuel the result is closed under adjacency *)
Lemma reach_closed : forall U S, NoDup U ->
    (forall v w, In v U -> memb w (nbrs S v) = true -> In w U) ->
    forall f seen, NoDup seen -> incl seen U -> length U + 1 <= f + length seen ->
      step S (reach f S seen) = reach f S seen.
Proof.
  intros U S HU Hcl. induction f as [|f IH]; intros seen Hnd Hin Hlen.
  - exfalso. pose proof (NoDup_incl_length Hnd Hin). lia.
  - rewrite reach_unfold. destruct (Nat.eqb (length (step S seen)) (length seen)) eqn:E.
    + apply Nat.eqb_eq in E. apply (proj2 (fold_union_len S seen seen)) in E. exact E.
    + apply Nat.eqb_neq in E. apply IH.
      * apply NoDup_step, Hnd.
      * intros v Hv. apply memb_In in Hv. rewrite memb_step in Hv. apply orb_true_iff in Hv.
        destruct Hv as [Hv|Hv].
        -- apply Hin, memb_In, Hv.
        -- apply existsb_exists in Hv. destruct Hv as [w [Hw Hvw]]. apply (Hcl w v); [apply Hin, Hw|exact Hvw].
      * pose proof (proj1 (fold_union_len S seen seen)) as Hle. fold (step S seen) in Hle. lia.
Qed.

Lemma closed_conn : forall S R, step S R = R ->
    forall a v, memb a R = true -> conn S a v -> memb v R = true.
Proof.
  intros S R HR a v Ha Hc. induction Hc as [|x y Hax IH Hxy]; [exact Ha|].
  rewrite <- HR, memb_step. apply orb_true_iff. right. apply existsb_exists.
  exists x. split; [apply memb_In, IH|exact Hxy].
Qed.

Lemma reach_spec : forall U S a, NoDup U ->
    (forall v w, In v U -> memb w (nbrs S v) = true -> In w U) -> In a U ->
    forall v, memb v (reach (length U) S [a]) = true <-> conn S a v.
Proof.
  intros U S a HU Hcl Ha v. split.
  - intros Hv. destruct (reach_sound _ _ _ _ Hv) as [a' [Ha' Hc]].
    cbn in Ha'. rewrite orb_false_r in Ha'. apply Nat.eqb_eq in Ha'. subst a'. exact Hc.
  - intros Hc.
    assert (Hclosed : step S (reach (length U) S [a]) = reach (length U) S [a]).
    { apply (reach_closed U S HU Hcl).
      - repeat constructor. intros [].
      - intros x [<-|[]]. exact Ha.
      - cbn [length]. lia. }
    apply (closed_conn S _ Hclosed a v); [|exact Hc].
    apply reach_ext. cbn. rewrite Nat.eqb_refl. reflexivity.
Qed.

Lemma ends_closed : forall nodes S, ends_in nodes S ->
    forall v w, In v nodes -> memb w (nbrs S v) = true -> In w nodes.
Proof. intros nodes S He v w _ H. apply (adj_in_nodes nodes S v w He H). Qed.

Lemma comp_spec : forall nodes S r, NoDup nodes -> ends_in nodes S -> In r nodes ->
    forall v, memb v (comp nodes S r) = true <-> In v nodes /\ conn S r v.
Proof.
  intros nodes S r Hnd He Hr v. unfold comp. rewrite memb_filter, andb_true_iff, memb_In.
  rewrite (reach_spec nodes S r Hnd (ends_closed nodes S He) Hr). reflexivity.
Qed.

(* networkx.is_connected (all nodes reached from the first one), from any base point *)
Lemma connectedb_iff : forall U S r, NoDup U ->
    (forall v w, In v U -> memb w (nbrs S v) = true -> In w U) -> In r U ->
    (connectedb U S = true <-> forall w, In w U -> conn S r w).
Proof.
  intros U S r HU Hcl Hr. destruct U as [|v0 U']; [contradiction|].
  set (U := v0 :: U') in *. unfold connectedb. fold U. cbv iota.
  change (match U with [] => false | v :: _ => forallb (fun w => memb w (reach (length U) S [v])) U end)
    with (forallb (fun w => memb w (reach (length U) S [v0])) U).
  rewrite forallb_forall.
  assert (H0 : In v0 U) by (left; reflexivity).
  split.
  - intros H w Hw.
    assert (C0 : forall x, In x U -> conn S v0 x).
    { intros x Hx. apply (reach_spec U S v0 HU Hcl H0). apply H, Hx. }
    apply (conn_trans S r v0 w); [apply conn_sym, C0, Hr|apply C0, Hw].
  - intros H w Hw. apply (reach_spec U S v0 HU Hcl H0).
    apply (conn_trans S v0 r w); [apply conn_sym, H, H0|apply H, Hw].
Qed.

(* ------------------------------------------------------------------ *)
(* the component of the root under S is a set grown from the root *)
Lemma inN_mono : forall es S S' j, sub S S' -> inN es S j -> inN es S' j.
Proof. intros es S S' j Hs [w [Hw Hj]]. exists w. split; [apply Hs, Hw|exact Hj]. Qed.

Lemma sub_addv : forall j S, sub S (addv j S).
Proof. intros j S v Hv. rewrite memb_addv, Hv. apply orb_true_r. Qed.

Lemma unionv_grown : forall es r b acc, grown es r acc ->
    (forall j, In j b -> memb j acc = true \/ inN es acc j) -> grown es r (unionv acc b).
Proof.
  intros es r. unfold unionv. induction b as [|x b IH]; intros acc Hg Hb; cbn [fold_left]; [exact Hg|].
  apply IH.
  - destruct (memb x acc) eqn:E.
    + unfold addv. rewrite E. exact Hg.
    + apply g_add; [exact Hg|exact E|]. destruct (Hb x (or_introl eq_refl)) as [H|H]; [congruence|exact H].
  - intros j Hj. destruct (Hb j (or_intror Hj)) as [H|H].
    + left. apply sub_addv, H.
    + right. apply (inN_mono es acc _ j (sub_addv x acc) H).
Qed.

Lemma sub_unionv : forall a b, sub a (unionv a b).
Proof. intros a b v Hv. rewrite memb_unionv, Hv. reflexivity. Qed.

Lemma fold_union_grown : forall es r l acc, grown es r acc -> (forall v, In v l -> memb v acc = true) ->
    grown es r (fold_left (fun acc v => unionv acc (nbrs es v)) l acc).
Proof.
  intros es r. induction l as [|x l IH]; intros acc Hg Hl; cbn [fold_left]; [exact Hg|].
  apply IH.
  - apply unionv_grown; [exact Hg|]. intros j Hj. right. exists x. split; [apply Hl; left; reflexivity|].
    apply memb_In, Hj.
  - intros v Hv. apply sub_unionv, Hl. right. exact Hv.
Qed.

Lemma step_grown : forall es r seen, grown es r seen -> grown es r (step es seen).
Proof. intros es r seen Hg. unfold step. apply fold_union_grown; [exact Hg|]. intros v Hv. apply memb_In, Hv. Qed.

Lemma reach_grown : forall es r f seen, grown es r seen -> grown es r (reach f es seen).
Proof.
  intros es r. induction f as [|f IH]; intros seen Hg; [exact Hg|]. rewrite reach_unfold.
  destruct (Nat.eqb _ _); [exact Hg|]. apply IH, step_grown, Hg.
Qed.

Lemma grown_mono : forall S es r T, incl S es -> grown S r T -> grown es r T.
Proof.
  intros S es r T Hi H. induction H as [|T0 j HT IH Hj HN]; [apply g_root|].
  apply g_add; [exact IH|exact Hj|]. destruct HN as [w [Hw Hjw]]. exists w. split; [exact Hw|].
  apply (memb_nbrs_mono S es w j Hi Hjw).
Qed.

Lemma grown_in_nodes : forall nodes es r c, ends_in nodes es -> In r nodes -> grown es r c ->
    forall v, memb v c = true -> In v nodes.
Proof.
  intros nodes es r c He Hr H. induction H as [|T0 j HT IH Hj HN]; intros v Hv.
  - cbn in Hv. rewrite orb_false_r in Hv. apply Nat.eqb_eq in Hv. subst. exact Hr.
  - rewrite memb_addv in Hv. apply orb_true_iff in Hv. destruct Hv as [Hv|Hv]; [|apply IH, Hv].
    apply Nat.eqb_eq in Hv. subst v. destruct HN as [w [_ Hjw]]. apply (adj_in_nodes nodes es w j He Hjw).
Qed.

Lemma comp_grown : forall nodes es S r, NoDup nodes -> ends_in nodes S -> In r nodes -> incl S es ->
    exists T, grown es r T /\ (forall v, memb v T = true -> In v nodes)
              /\ (forall v, memb v T = memb v (comp nodes S r)).
Proof.
  intros nodes es S r Hnd He Hr Hi. exists (reach (length nodes) S [r]).
  assert (Hin : forall v, memb v (reach (length nodes) S [r]) = true -> In v nodes).
  { intros v Hv. apply (reach_spec nodes S r Hnd (ends_closed nodes S He) Hr) in Hv.
    apply (conn_in_nodes nodes S r v He Hr Hv). }
  split; [|split; [exact Hin|]].
  - apply (grown_mono S es r _ Hi). apply reach_grown, g_root.
  - intros v. unfold comp. rewrite memb_filter.
    destruct (memb v (reach (length nodes) S [r])) eqn:E; [|apply eq_sym, andb_false_r].
    rewrite andb_true_r. symmetry. apply memb_In, Hin, E.
Qed.

(* ------------------------------------------------------------------ *)
(* "the component of the root under S is c", semantically *)
Definition compP (nodes : list nat) (S : list edge) (r : nat) (c : list nat) : Prop :=
  (forall v, In v nodes -> conn S r v -> memb v c = true) /\ (forall v, memb v c = true -> conn S r v).

Lemma same_comp_iff : forall nodes S r c, NoDup nodes -> ends_in nodes S -> In r nodes ->
    (forall v, memb v c = true -> In v nodes) ->
    (same_setb (comp nodes S r) c = true <-> compP nodes S r c).
Proof.
  intros nodes S r c Hnd He Hr Hc. rewrite same_setb_iff. unfold compP, sub. split.
  - intros [H1 H2]. split.
    + intros v Hv Hcv. apply H1. apply (comp_spec nodes S r Hnd He Hr). split; assumption.
    + intros v Hv. apply H2 in Hv. apply (comp_spec nodes S r Hnd He Hr) in Hv. apply Hv.
  - intros [H1 H2]. split.
    + intros v Hv. apply (comp_spec nodes S r Hnd He Hr) in Hv. destruct Hv as [A B]. apply H1; assumption.
    + intros v Hv. apply (comp_spec nodes S r Hnd He Hr). split; [apply Hc, Hv|apply H2, Hv].
Qed.

(* classification of an edge with respect to the vertex set c *)
Definition intb (c : list nat) (e : edge) : bool := in_c c (fst e) && in_c c (snd e).
Definition ifaceb (c : list nat) (e : edge) : bool := xorb (in_c c (fst e)) (in_c c (snd e)).

Lemma nilb_filter_iff : forall {X} (q : X -> bool) l, nilb (filter q l) = true <-> forall e, In e l -> q e = false.
Proof.
  intros X q. induction l as [|x l IH]; cbn [filter].
  - split; [intros _ e []|reflexivity].
  - destruct (q x) eqn:E; cbn [nilb].
    + split; [discriminate|]. intros H. specialize (H x (or_introl eq_refl)). congruence.
    + rewrite IH. split.
      * intros H e [<-|He]; [exact E|apply H, He].
      * intros H e He. apply H. right. exact He.
Qed.

(* a path all of whose vertices lie in c only uses internal edges *)
Lemma conn_int : forall S r c, (forall x, conn S r x -> memb x c = true) ->
    forall v, conn S r v -> conn (filter (intb c) S) r v.
Proof.
  intros S r c Hin v H. induction H as [|x y Hrx IH Hxy]; [apply conn_refl|].
  apply (conn_step _ r x y IH).
  assert (Hx : memb x c = true) by (apply Hin, Hrx).
  assert (Hy : memb y c = true) by (apply Hin, (conn_step S r x y Hrx Hxy)).
  apply memb_nbrs_iff. apply memb_nbrs_iff in Hxy.
  destruct Hxy as [H|H]; [left|right]; apply filter_In; (split; [exact H|]);
    unfold intb, in_c; cbn [fst snd]; rewrite Hx, Hy; reflexivity.
Qed.

(* without interface edges a path from inside c stays inside c *)
Lemma conn_noiface : forall S r c, (forall e, In e S -> ifaceb c e = false) -> memb r c = true ->
    forall v, conn S r v -> memb v c = true.
Proof.
  intros S r c Hno Hr v H. induction H as [|x y Hrx IH Hxy]; [exact Hr|].
  apply memb_nbrs_iff in Hxy. destruct Hxy as [H|H]; apply Hno in H; unfold ifaceb, in_c in H; cbn [fst snd] in H;
    rewrite IH in H; destruct (memb y c); [reflexivity|discriminate H|reflexivity|discriminate H].
Qed.

Lemma ends_in_filter : forall nodes (p : edge -> bool) S, ends_in nodes S -> ends_in nodes (filter p S).
Proof. intros nodes p S He e H. apply filter_In in H. apply He, H. Qed.

(* THE FACTORISATION of the indicator *)
Lemma ind_factor : forall nodes S r c, NoDup nodes -> ends_in nodes S -> In r nodes -> memb r c = true ->
    (forall v, memb v c = true -> In v nodes) ->
    same_setb (comp nodes S r) c
    = nilb (filter (ifaceb c) S) && same_setb (comp nodes (filter (intb c) S) r) c.
Proof.
  intros nodes S r c Hnd He Hr Hrc Hc. apply eq_iff_eq_true.
  rewrite andb_true_iff, nilb_filter_iff.
  rewrite (same_comp_iff nodes S r c Hnd He Hr Hc).
  rewrite (same_comp_iff nodes (filter (intb c) S) r c Hnd (ends_in_filter nodes _ S He) Hr Hc).
  assert (Hsub : incl (filter (intb c) S) S) by (intros e H; apply filter_In in H; apply H).
  unfold compP. split.
  - intros [H1 H2].
    assert (Hall : forall x, conn S r x -> memb x c = true).
    { intros x Hx. apply H1; [|exact Hx]. apply (conn_in_nodes nodes S r x He Hr Hx). }
    split; [|split].
    + intros [a b] Hab. unfold ifaceb, in_c. cbn [fst snd].
      destruct (memb a c) eqn:Ea, (memb b c) eqn:Eb; try reflexivity; exfalso.
      * assert (Hb : conn S r b).
        { apply (conn_step S r a b (H2 a Ea)). apply memb_nbrs_iff. left. exact Hab. }
        apply Hall in Hb. congruence.
      * assert (Ha : conn S r a).
        { apply (conn_step S r b a (H2 b Eb)). apply memb_nbrs_iff. right. exact Hab. }
        apply Hall in Ha. congruence.
    + intros v Hv Hcv. apply H1; [exact Hv|]. apply (conn_mono _ S r v Hsub Hcv).
    + intros v Hv. apply (conn_int S r c Hall v), H2, Hv.
  - intros [Hno [H1 H2]]. split.
    + intros v _ Hcv. apply (conn_noiface S r c Hno Hrc v Hcv).
    + intros v Hv. apply (conn_mono _ S r v Hsub). apply H2, Hv.
Qed.

(* ------------------------------------------------------------------ *)
(* the reduced graph of a grown vertex set with at least two vertices *)
Lemma grown_cases : forall es r c, grown es r c ->
    c = [r] \/ (forall v, memb v c = true -> exists w, memb w c = true /\ memb w (nbrs es v) = true).
Proof.
  intros es r c H. induction H as [|T0 j HT IH Hj HN].
  - left. reflexivity.
  - right. intros v Hv. rewrite memb_addv in Hv. apply orb_true_iff in Hv.
    destruct HN as [w0 [Hw0 Hjw0]].
    destruct Hv as [Hv|Hv].
    + apply Nat.eqb_eq in Hv. subst v. exists w0. split; [apply sub_addv, Hw0|apply adj_sym, Hjw0].
    + destruct IH as [->|IH].
      * cbn in Hv, Hw0. rewrite orb_false_r in Hv, Hw0. apply Nat.eqb_eq in Hv, Hw0. subst v w0.
        exists j. split; [rewrite memb_addv, Nat.eqb_refl; reflexivity|exact Hjw0].
      * destruct (IH v Hv) as [w [Hw Hvw]]. exists w. split; [apply sub_addv, Hw|exact Hvw].
Qed.

Lemma live_iff_c : forall nodes es c, ends_in nodes es ->
    (forall v, memb v c = true -> In v nodes) ->
    (forall v, memb v c = true -> exists w, memb w c = true /\ memb w (nbrs es v) = true) ->
    forall v, In v (live_nodes nodes (internal_edges es c)) <-> memb v c = true.
Proof.
  intros nodes es c He Hc Hn v. unfold live_nodes. rewrite filter_In. split.
  - intros [_ H]. destruct (nbrs (internal_edges es c) v) as [|x l] eqn:E; [discriminate|].
    assert (Hx : In x (nbrs (internal_edges es c) v)) by (rewrite E; left; reflexivity).
    apply in_nbrs in Hx. unfold internal_edges in Hx.
    destruct Hx as [Hx|Hx]; apply filter_In in Hx; destruct Hx as [_ Hx]; cbn [fst snd] in Hx;
      apply andb_true_iff in Hx; unfold in_c in Hx; tauto.
  - intros Hv. split; [apply Hc, Hv|].
    destruct (Hn v Hv) as [w [Hw Hvw]].
    assert (Hin : memb w (nbrs (internal_edges es c) v) = true).
    { apply memb_nbrs_iff. apply memb_nbrs_iff in Hvw. unfold internal_edges.
      destruct Hvw as [H|H]; [left|right]; apply filter_In; (split; [exact H|]);
        unfold in_c; cbn [fst snd]; rewrite Hv, Hw; reflexivity. }
    destruct (nbrs (internal_edges es c) v); [discriminate Hin|reflexivity].
Qed.

Lemma conn_internal : forall s c, (forall e, In e s -> intb c e = true) ->
    forall a v, memb a c = true -> conn s a v -> memb v c = true.
Proof.
  intros s c Hs a v Ha H. induction H as [|x y Hax IH Hxy]; [exact Ha|].
  apply memb_nbrs_iff in Hxy. destruct Hxy as [H|H]; apply Hs in H; unfold intb, in_c in H; cbn [fst snd] in H;
    apply andb_true_iff in H; tauto.
Qed.

(* is_connected of the reduced graph after removing edges = "the kept internal edges connect c" *)
Lemma combo_conn_eq : forall nodes es r c s, NoDup nodes -> ends_in nodes es -> In r nodes -> memb r c = true ->
    (forall v, In v (live_nodes nodes (internal_edges es c)) <-> memb v c = true) ->
    incl s (internal_edges es c) ->
    connectedb (live_nodes nodes (internal_edges es c)) s = same_setb (comp nodes s r) c.
Proof.
  intros nodes es r c s Hnd He Hr Hrc Hlive Hs. apply eq_iff_eq_true.
  set (ec := internal_edges es c) in *. set (live := live_nodes nodes ec) in *.
  assert (Hec : incl ec es) by (intros e H; unfold ec, internal_edges in H; apply filter_In in H; apply H).
  assert (Hse : ends_in nodes s) by (apply (ends_in_incl nodes s es); [intros e H; apply Hec, Hs, H|exact He]).
  assert (Hint : forall e, In e s -> intb c e = true).
  { intros e H. apply Hs in H. unfold ec, internal_edges in H. apply filter_In in H. apply H. }
  assert (Hc : forall v, memb v c = true -> In v nodes).
  { intros v Hv. apply Hlive in Hv. unfold live, live_nodes in Hv. apply filter_In in Hv. apply Hv. }
  assert (Hlnd : NoDup live) by (apply NoDup_filter, Hnd).
  assert (Hlcl : forall v w, In v live -> memb w (nbrs s v) = true -> In w live).
  { intros v w Hv Hvw. apply Hlive. apply Hlive in Hv.
    apply (conn_internal s c Hint v w Hv). apply conn_edge, Hvw. }
  rewrite (connectedb_iff live s r Hlnd Hlcl (proj2 (Hlive r) Hrc)).
  rewrite (same_comp_iff nodes s r c Hnd Hse Hr Hc). unfold compP. split.
  - intros H. split.
    + intros v _ Hv. apply (conn_internal s c Hint r v Hrc Hv).
    + intros v Hv. apply H, Hlive, Hv.
  - intros [_ H] w Hw. apply H, Hlive, Hw.
Qed.
