(* Proofs about Model/QCount.v:
   - the Pascal table equals the factorial binomial of the code (general);
   - the memoised table Qv equals the recursion as written, Qcode (general);
   - number_of_connected_graphs / the brute-force count are cardinalities of the sets the
     property names (general, on top of Graph16.connectedb_spec);
   - Q = QQ = brute force for n <= 6 and Q = exponential-formula recurrence for n <= 12 (reflection). *)
From Coq Require Import List ZArith Bool Arith Lia FinFun.
From GV Require Import Lib.Tree Lib.Graph16 Model.QCount.
Import ListNotations.
Local Open Scope Z_scope.

(* ================================================================== ranges *)
Lemma zrange_length lo hi : length (zrange lo hi) = Z.to_nat (hi - lo).
Proof. unfold zrange. rewrite map_length, seq_length. reflexivity. Qed.

Lemma In_zrange lo hi k : In k (zrange lo hi) <-> lo <= k < hi.
Proof.
  unfold zrange. rewrite in_map_iff. split.
  - intros [i [<- Hi]]. apply in_seq in Hi. lia.
  - intros H. exists (Z.to_nat (k - lo)). split; [lia|]. apply in_seq. lia.
Qed.

Lemma nth_zrange lo hi i d : (i < Z.to_nat (hi - lo))%nat -> nth i (zrange lo hi) d = lo + Z.of_nat i.
Proof.
  intros H. unfold zrange.
  rewrite (nth_indep _ d (lo + Z.of_nat 0)) by (rewrite map_length, seq_length; exact H).
  rewrite (map_nth (fun i => lo + Z.of_nat i)). rewrite seq_nth by exact H. reflexivity.
Qed.

Lemma nth_map_lt {A B} (f : A -> B) l i d d' : (i < length l)%nat -> nth i (map f l) d = f (nth i l d').
Proof.
  intros H. rewrite (nth_indep _ d (f d')) by (rewrite map_length; exact H). apply map_nth.
Qed.

(* ================================================================== binomial *)
Lemma fact_pos n : 0 < fact n.
Proof. induction n; cbn [fact]; lia. Qed.

Lemma Cn_gt : forall n k, (n < k)%nat -> Cn n k = 0.
Proof.
  induction n as [|n IH]; intros k H; destruct k; try lia; [reflexivity|].
  cbn [Cn]. rewrite !IH by lia. reflexivity.
Qed.

Lemma Cn_fact : forall n k, (k <= n)%nat -> Cn n k * fact k * fact (n - k) = fact n.
Proof.
  induction n as [|n IH]; intros k Hk.
  - assert (k = O) by lia. subst. reflexivity.
  - destruct k as [|k].
    + cbn [Cn]. change (fact 0) with 1. rewrite Nat.sub_0_r. lia.
    + cbn [Cn]. replace (S n - S k)%nat with (n - k)%nat by lia.
      destruct (Nat.eq_dec k n) as [->|Hne].
      * rewrite (Cn_gt n (S n)) by lia. rewrite Nat.sub_diag.
        pose proof (IH n (Nat.le_refl n)) as H. rewrite Nat.sub_diag in H.
        change (fact 0) with 1 in *.
        change (fact (S n)) with (Z.of_nat (S n) * fact n). nia.
      * pose proof (IH k ltac:(lia)) as H1. pose proof (IH (S k) ltac:(lia)) as H2.
        replace (n - k)%nat with (S (n - S k)) in * by lia.
        change (fact (S (n - S k))) with (Z.of_nat (S (n - S k)) * fact (n - S k)) in *.
        change (fact (S k)) with (Z.of_nat (S k) * fact k) in *.
        change (fact (S n)) with (Z.of_nat (S n) * fact n).
        assert (E : Z.of_nat (S n) = Z.of_nat (S k) + Z.of_nat (S (n - S k))) by lia.
        rewrite E. set (a := Z.of_nat (S k)) in *. set (b := Z.of_nat (S (n - S k))) in *.
        set (fk := fact k) in *. set (fd := fact (n - S k)) in *.
        set (c1 := Cn n k) in *. set (c2 := Cn n (S k)) in *. set (fn := fact n) in *.
        transitivity (a * (c1 * fk * (b * fd)) + b * (c2 * (a * fk) * fd)); [ring|].
        rewrite H1, H2. ring.
Qed.

(* the code's factorial(n) // factorial(k) // factorial(n-k) is Pascal's binomial *)
Lemma binomial_Cn n k : 0 <= n -> 0 <= k -> binomial n k = Cn (Z.to_nat n) (Z.to_nat k).
Proof.
  intros Hn Hk. unfold binomial. destruct (Z.ltb_spec (n - k) 0) as [H|H].
  - symmetry. apply Cn_gt. lia.
  - replace (Z.to_nat (n - k)) with (Z.to_nat n - Z.to_nat k)%nat by lia.
    rewrite <- (Cn_fact (Z.to_nat n) (Z.to_nat k)) by lia.
    pose proof (fact_pos (Z.to_nat k)). pose proof (fact_pos (Z.to_nat n - Z.to_nat k)).
    rewrite <- Z.mul_assoc, (Z.mul_comm (fact (Z.to_nat k))), Z.mul_assoc.
    rewrite Z.div_mul by lia. rewrite Z.div_mul by lia. reflexivity.
Qed.

Lemma nth_map2_add : forall a b k, length a = length b ->
  nth k (map2 Z.add a b) 0 = nth k a 0 + nth k b 0.
Proof.
  induction a as [|x a IH]; intros b k H; destruct b as [|y b]; try discriminate.
  - destruct k; reflexivity.
  - destruct k; cbn; [reflexivity|]. apply IH. cbn in H. congruence.
Qed.

Lemma nth_app_zero : forall (r : list Z) j, nth j (r ++ [0]) 0 = nth j r 0.
Proof.
  induction r as [|x r IH]; intros j; destruct j; cbn; try reflexivity.
  - destruct j; reflexivity.
  - apply IH.
Qed.

Lemma nth_pnext r k :
  nth k (pnext r) 0 = match k with O => nth 0%nat r 0 | S k' => nth k' r 0 + nth k r 0 end.
Proof.
  unfold pnext. rewrite nth_map2_add by (cbn; rewrite app_length; cbn; lia).
  rewrite nth_app_zero. destruct k; reflexivity.
Qed.

Lemma nth_iter_rows : forall N r a n,
  (forall k, nth k r 0 = Cn a k) -> (n < N)%nat ->
  forall k, nth k (nth n (iter_rows N r) []) 0 = Cn (a + n) k.
Proof.
  induction N as [|N IH]; intros r a n Hr Hn k; [lia|].
  destruct n as [|n]; cbn [iter_rows nth].
  - rewrite Nat.add_0_r. apply Hr.
  - replace (a + S n)%nat with (S a + n)%nat by lia.
    apply IH; [|lia]. intros j. rewrite nth_pnext.
    destruct j; cbn [Cn]; rewrite !Hr; [destruct a|]; reflexivity.
Qed.

Lemma ptab_length N : length (ptab N) = N.
Proof. unfold ptab. generalize [1]. induction N; intros r; cbn; [reflexivity|]. rewrite IHN. reflexivity. Qed.

(* GENERAL: the memo table never differs from the binomial of the code *)
Lemma binom_t_correct N n k : binom_t (ptab N) n k = binomial n k.
Proof.
  unfold binom_t.
  destruct (Z.leb_spec 0 n) as [Hn|Hn]; cbn [andb]; [|reflexivity].
  destruct (Z.leb_spec 0 k) as [Hk|Hk]; cbn [andb]; [|reflexivity].
  destruct (Nat.ltb_spec (Z.to_nat n) (length (ptab N))) as [Hl|Hl]; [|reflexivity].
  rewrite ptab_length in Hl. unfold ptab.
  rewrite (nth_iter_rows N [1] 0%nat (Z.to_nat n)); [|intros [|[|j]]; reflexivity | exact Hl].
  rewrite binomial_Cn by assumption. reflexivity.
Qed.

(* ================================================================== table = recursion *)
Lemma Qstep_ext C1 C2 p1 p2 n k :
  (forall a b, C1 a b = C2 a b) ->
  (forall m j, (1 <= m < n)%nat -> p1 m j = p2 m j) ->
  Qstep C1 p1 n k = Qstep C2 p2 n k.
Proof.
  intros HC Hp. unfold Qstep.
  destruct ((k <? Z.of_nat n - 1) || (tri (Z.of_nat n) <? k)); [reflexivity|].
  destruct (k =? Z.of_nat n - 1); [reflexivity|].
  rewrite HC. f_equal. f_equal. apply map_ext_in. intros m Hm. apply in_seq in Hm.
  rewrite HC. f_equal. f_equal. apply map_ext. intros p. rewrite HC. f_equal. apply Hp. lia.
Qed.

Lemma Qrec_fuel : forall f1 f2 n k, (n < f1)%nat -> (n < f2)%nat -> Qrec f1 n k = Qrec f2 n k.
Proof.
  induction f1 as [|f1 IH]; intros f2 n k H1 H2; [lia|].
  destruct f2 as [|f2]; [lia|]. cbn [Qrec].
  apply Qstep_ext; [reflexivity|]. intros m j Hm. apply IH; lia.
Qed.

Lemma Qcode_unfold n k : Qcode n k = Qstep binomial Qcode n k.
Proof.
  unfold Qcode at 1. cbn [Qrec]. apply Qstep_ext; [reflexivity|].
  intros m j Hm. unfold Qcode. apply Qrec_fuel; lia.
Qed.

Lemma Qcode_out_of_range n k : k < Z.of_nat n - 1 \/ tri (Z.of_nat n) < k -> Qcode n k = 0.
Proof.
  intros H. rewrite Qcode_unfold. unfold Qstep.
  destruct (Z.ltb_spec k (Z.of_nat n - 1)); destruct (Z.ltb_spec (tri (Z.of_nat n)) k); cbn [orb]; try reflexivity; lia.
Qed.

Lemma Qrows_length T N : length (Qrows T N) = N.
Proof. induction N; cbn [Qrows]; [reflexivity|]. rewrite app_length, IHN. cbn. lia. Qed.

Lemma tri_nonneg n : 0 <= tri (Z.of_nat n).
Proof. unfold tri. apply Z.div_pos; [nia | lia]. Qed.

Lemma Qrows_spec M : forall N n j, (n < N)%nat -> ((1 <= n)%nat \/ 0 <= j) ->
  qlook (Qrows (ptab M) N) n j = Qcode n j.
Proof.
  induction N as [|N IH]; intros n j Hn Hj; [lia|].
  cbn [Qrows]. unfold qlook.
  destruct (Nat.eq_dec n N) as [->|Hne].
  - (* the new row *)
    rewrite app_nth2 by (rewrite Qrows_length; lia). rewrite Qrows_length, Nat.sub_diag. cbn [nth].
    destruct (Z.ltb_spec j 0) as [Hneg|Hpos].
    + symmetry. apply Qcode_out_of_range. lia.
    + unfold Qrow. pose proof (tri_nonneg N) as Ht.
      destruct (Z_lt_le_dec (tri (Z.of_nat N)) j) as [Hbig|Hsmall].
      * rewrite nth_overflow by (rewrite map_length, zrange_length; lia).
        symmetry. apply Qcode_out_of_range. lia.
      * rewrite (nth_map_lt _ _ _ _ 0) by (rewrite zrange_length; lia).
        rewrite nth_zrange by lia. rewrite Z.add_0_l, Z2Nat.id by lia.
        rewrite Qcode_unfold. apply Qstep_ext; [apply binom_t_correct|].
        intros m i Hm. fold (qlook (Qrows (ptab M) N) m i). apply IH; lia.
  - rewrite app_nth1 by (rewrite Qrows_length; lia).
    fold (qlook (Qrows (ptab M) N) n j). apply IH; lia.
Qed.

(* GENERAL: the memoised evaluation is the recursion as written in the code *)
Theorem Qv_is_code n k : (1 <= n)%nat \/ 0 <= k -> Qv n k = Qcode n k.
Proof. intros H. unfold Qv. apply Qrows_spec; [lia | exact H]. Qed.

Theorem Qtable_is_code N n k : (n < N)%nat -> 0 <= k -> nth (Z.to_nat k) (nth n (Qtable N) []) 0 = Qcode n k.
Proof.
  intros Hn Hk. unfold Qtable. set (M := (Z.to_nat (tri (Z.of_nat N)) + N + 1)%nat).
  rewrite <- (Qrows_spec M N n k Hn (or_intror Hk)).
  unfold qlook. destruct (Z.ltb_spec k 0); [lia | reflexivity].
Qed.

(* ================================================================== cardinalities *)
(* [Card P c]: the set {x | P x} is finite with exactly c elements *)
Definition Card {A} (P : A -> Prop) (c : Z) : Prop :=
  exists l, NoDup l /\ (forall x, In x l <-> P x) /\ Z.of_nat (length l) = c.

Lemma edge_eqb_eq a b : edge_eqb a b = true <-> a = b.
Proof.
  destruct a as [a1 a2], b as [b1 b2]. unfold edge_eqb. cbn.
  rewrite andb_true_iff, !Nat.eqb_eq. split; [intros [-> ->]; reflexivity | intros [= -> ->]; auto].
Qed.

Lemma emem_In e l : emem e l = true <-> In e l.
Proof.
  unfold emem. rewrite existsb_exists. split.
  - intros [x [Hx E]]. apply edge_eqb_eq in E. subst. exact Hx.
  - intros H. exists e. split; [exact H | apply edge_eqb_eq; reflexivity].
Qed.

Lemma nmem_In v l : nmem v l = true <-> In v l.
Proof. apply existsb_eqb_In. Qed.

Lemma ediff_incl es T : incl (ediff es T) es.
Proof. intros e He. apply filter_In in He. tauto. Qed.

Lemma edges_in_incl vs es es' : incl es' es -> edges_in vs es -> edges_in vs es'.
Proof. intros Hi H e He. apply H, Hi, He. Qed.

(* GENERAL: the counter = number of k-subsets T of the edges whose removal leaves (vs, es) connected *)
Theorem ncg_count_spec vs es k :
  NoDup es -> edges_in vs es ->
  Card (fun T => subl T es /\ length T = k /\ Connected vs (ediff es T)) (ncg_count vs es k).
Proof.
  intros Hnd Hin. unfold ncg_count.
  exists (filter (fun T => connectedb vs (ediff es T)) (combs k es)). split; [|split].
  - apply NoDup_filter, combs_NoDup, Hnd.
  - intros T. rewrite filter_In, combs_spec.
    rewrite (connectedb_spec vs (ediff es T)) by (eapply edges_in_incl; [apply ediff_incl | exact Hin]).
    tauto.
  - reflexivity.
Qed.

Lemma dedup_e_In e l : In e (dedup_e l) <-> In e l.
Proof.
  induction l as [|x t IH]; cbn; [tauto|].
  destruct (emem x t) eqn:E.
  - rewrite IH. split; [auto|]. intros [<-|H]; [apply emem_In, E | exact H].
  - cbn. rewrite IH. tauto.
Qed.

Lemma dedup_e_NoDup l : NoDup (dedup_e l).
Proof.
  induction l as [|x t IH]; cbn; [constructor|].
  destruct (emem x t) eqn:E; [exact IH|].
  constructor; [|exact IH]. rewrite dedup_e_In. intros H. apply emem_In in H. congruence.
Qed.

Lemma induced_es_in vs edges : edges_in vs (induced_es vs edges).
Proof.
  intros e He. unfold induced_es in He. apply (proj1 (dedup_e_In _ _)) in He.
  apply in_map_iff in He. destruct He as [[a b] [<- Hf]]. apply filter_In in Hf.
  destruct Hf as [_ Hf]. apply andb_true_iff in Hf. cbn [fst snd] in Hf.
  destruct Hf as [Ha Hb]. apply nmem_In in Ha. apply nmem_In in Hb.
  unfold orient. cbn [fst snd]. destruct (a <=? b)%nat; cbn; auto.
Qed.

(* GENERAL: number_of_connected_graphs on every substrate, vertex subset, focal vertex and k >= 0:
   a value (no exception) whenever the induced vertex set is not empty, and that value is the
   number of k-subsets of the induced edges whose deletion keeps the induced subgraph connected *)
Theorem ncg_spec nodes edges ak i k :
  0 <= k ->
  let vs := induced_vs nodes ak i in
  let es := induced_es vs edges in
  vs <> [] ->
  exists c, ncg_model nodes edges ak i k = Val c /\
            Card (fun T => subl T es /\ length T = Z.to_nat k /\ Connected vs (ediff es T)) c.
Proof.
  intros Hk vs es Hne. exists (ncg_count vs es (Z.to_nat k)). split.
  - unfold ncg_model. fold vs. fold es.
    destruct (Z.ltb_spec k 0); [lia|].
    destruct (Z.ltb_spec (Z.of_nat (length es)) k) as [Hbig|Hsmall].
    + unfold ncg_count. rewrite combs_too_many by lia. reflexivity.
    + destruct vs; [contradiction Hne; reflexivity | reflexivity].
  - apply ncg_count_spec; [apply dedup_e_NoDup | apply induced_es_in].
Qed.

(* ---- the complete graph *)
Lemma all_edges_In n a b : In (a, b) (all_edges n) <-> (a < b < n)%nat.
Proof.
  unfold all_edges. rewrite in_flat_map. split.
  - intros [x [Hx H]]. apply in_seq in Hx. apply in_map_iff in H. destruct H as [y [E Hy]].
    inversion E; subst. apply in_seq in Hy. lia.
  - intros H. exists a. split; [apply in_seq; lia|]. apply in_map_iff. exists b.
    split; [reflexivity | apply in_seq; lia].
Qed.

Lemma all_edges_NoDup n : NoDup (all_edges n).
Proof.
  unfold all_edges.
  assert (H : forall l, NoDup l ->
            NoDup (flat_map (fun a => map (fun b => (a, b)) (seq (S a) (n - S a))) l)).
  { induction l as [|x l IH]; intros Hl; cbn; [constructor|]. inversion Hl; subst.
    apply NoDup_app_intro.
    - apply Injective_map_NoDup; [intros u v E; congruence | apply seq_NoDup].
    - apply IH; assumption.
    - intros [p q] Hp Hq. apply in_map_iff in Hp. destruct Hp as [y [E _]]. inversion E; subst.
      apply in_flat_map in Hq. destruct Hq as [z [Hz Hq]]. apply in_map_iff in Hq.
      destruct Hq as [w [E' _]]. inversion E'; subst. contradiction. }
  apply H, seq_NoDup.
Qed.

Lemma all_edges_in n : edges_in (seq 0 n) (all_edges n).
Proof.
  intros [a b] H. apply all_edges_In in H. cbn. split; apply in_seq; lia.
Qed.

(* GENERAL: the brute-force count is the number of connected labelled graphs on {0..n-1} with k
   edges (edge sets = sublists of the ordered list of all pairs a < b < n) *)
Theorem brute_spec n k :
  Card (fun S => subl S (all_edges n) /\ length S = k /\ Connected (seq 0 n) S) (brute n k).
Proof.
  unfold brute. exists (filter (fun S => connectedb (seq 0 n) S) (combs k (all_edges n))).
  split; [|split].
  - apply NoDup_filter, combs_NoDup, all_edges_NoDup.
  - intros S. rewrite filter_In, combs_spec. split.
    + intros [[Hs Hl] Hc]. split; [exact Hs|]. split; [exact Hl|].
      apply connectedb_spec; [|exact Hc].
      eapply edges_in_incl; [apply subl_incl, Hs | apply all_edges_in].
    + intros [Hs [Hl Hc]]. split; [tauto|].
      apply connectedb_spec; [|exact Hc].
      eapply edges_in_incl; [apply subl_incl, Hs | apply all_edges_in].
  - reflexivity.
Qed.

(* QQ(n, k) = the counter on K_n with n(n-1)/2 - k deletions: a cardinality as well *)
Theorem QQ_spec n k :
  (1 <= n)%nat -> 0 <= k <= tri (Z.of_nat n) ->
  QQ_model n k = Val (QQv n k) /\
  Card (fun T => subl T (all_edges n) /\ length T = Z.to_nat (tri (Z.of_nat n) - k) /\
                 Connected (seq 0 n) (ediff (all_edges n) T)) (QQv n k).
Proof.
  intros Hn Hk. split.
  - unfold QQ_model. destruct (Z.ltb_spec (tri (Z.of_nat n)) k); [lia|].
    destruct (Z.ltb_spec k 0); [lia|]. destruct n; [lia | reflexivity].
  - apply ncg_count_spec; [apply all_edges_NoDup | apply all_edges_in].
Qed.

(* ================================================================== bounded results (reflection) *)
Definition grid_ok (f : nat -> Z -> bool) (N : nat) : bool :=
  forallb (fun n => forallb (f n) (zrange 0 (tri (Z.of_nat n) + 1))) (seq 1 N).

Lemma grid_lift f N : grid_ok f N = true ->
  forall n k, (1 <= n <= N)%nat -> 0 <= k <= tri (Z.of_nat n) -> f n k = true.
Proof.
  unfold grid_ok. intros H n k Hn Hk.
  rewrite forallb_forall in H. specialize (H n ltac:(apply in_seq; lia)).
  rewrite forallb_forall in H. apply H. apply In_zrange. lia.
Qed.

Definition count_ok (n : nat) (k : Z) : bool :=
  (Qv n k =? QQv n k) && (QQv n k =? brute n (Z.to_nat k)).

Lemma count_ok_upto_6 : grid_ok count_ok 6 = true.
Proof. vm_compute. reflexivity. Qed.

Theorem Q_count_upto_6 : forall n k, (1 <= n <= 6)%nat -> 0 <= k <= tri (Z.of_nat n) ->
  Qv n k = QQv n k /\ QQv n k = brute n (Z.to_nat k).
Proof.
  intros n k Hn Hk. pose proof (grid_lift count_ok 6 count_ok_upto_6 n k Hn Hk) as H.
  unfold count_ok in H. apply andb_true_iff in H. destruct H as [H1 H2].
  apply Z.eqb_eq in H1. apply Z.eqb_eq in H2. auto.
Qed.

Theorem Q_code_count_upto_6 : forall n k, (1 <= n <= 6)%nat -> 0 <= k <= tri (Z.of_nat n) ->
  Qcode n k = brute n (Z.to_nat k) /\ QQv n k = brute n (Z.to_nat k).
Proof.
  intros n k Hn Hk. destruct (Q_count_upto_6 n k Hn Hk) as [H1 H2].
  rewrite <- Qv_is_code by lia. split; congruence.
Qed.

(* cross_rows only grows at the end *)
Lemma cross_rows_S N : exists x, cross_rows (S N) = cross_rows N ++ [x].
Proof. cbn [cross_rows]. cbv zeta. eexists. reflexivity. Qed.

Lemma cross_rows_length N : length (cross_rows N) = N.
Proof.
  induction N as [|N IH]; [reflexivity|]. destruct (cross_rows_S N) as [x ->].
  rewrite app_length, IH. cbn. lia.
Qed.

Lemma cross_rows_prefix : forall N n i, (i < n <= N)%nat -> nth i (cross_rows N) [] = nth i (cross_rows n) [].
Proof.
  induction N as [|N IH]; intros n i H; [lia|].
  destruct (Nat.eq_dec n (S N)) as [->|Hne]; [reflexivity|].
  destruct (cross_rows_S N) as [x ->]. rewrite app_nth1 by (rewrite cross_rows_length; lia).
  apply IH. lia.
Qed.

(* one Q table and one table of the recurrence, compared entry by entry *)
Definition cross_grid (N : nat) : bool :=
  let QT := Qtable (S N) in
  let CR := cross_rows N in
  grid_ok (fun n k => nth (Z.to_nat k) (nth n QT []) 0 =? nth (Z.to_nat k) (nth (n - 1) CR []) 0) N.

Lemma cross_grid_12 : cross_grid 12 = true.
Proof. vm_compute. reflexivity. Qed.

Lemma cross_grid_lift N : cross_grid N = true ->
  forall n k, (1 <= n <= N)%nat -> 0 <= k <= tri (Z.of_nat n) -> Qv n k = cross n k.
Proof.
  unfold cross_grid. cbv zeta. intros H n k Hn Hk.
  pose proof (grid_lift _ N H n k Hn Hk) as E. cbv beta in E. apply Z.eqb_eq in E.
  rewrite Qtable_is_code in E by lia.
  rewrite Qv_is_code by lia. rewrite E. unfold cross.
  destruct (Z.ltb_spec k 0); [lia|]. rewrite (cross_rows_prefix N n) by lia. reflexivity.
Qed.

Theorem Q_cross_upto_12 : forall n k, (1 <= n <= 12)%nat -> 0 <= k <= tri (Z.of_nat n) ->
  Qv n k = cross n k.
Proof. exact (cross_grid_lift 12 cross_grid_12). Qed.

(* outside 0..n(n-1)/2 both are 0 (general) *)
Theorem Qv_out_of_range n k : (1 <= n)%nat -> k < Z.of_nat n - 1 \/ tri (Z.of_nat n) < k -> Qv n k = 0.
Proof. intros Hn H. rewrite Qv_is_code by (left; exact Hn). apply Qcode_out_of_range, H. Qed.

