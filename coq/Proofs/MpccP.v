(* Proofs about the MPCC model (Model/Mpcc.v) and the C10 checker. *)
From Coq Require Import List Arith Bool Lia Permutation Sorted.
From GV Require Import Lib.Tree Lib.GraphM Model.Mpcc.
Import ListNotations.

(* ================================================================== 1. booleans and lists *)
Lemma bool_eq_iff (a b : bool) : (a = true <-> b = true) -> a = b.
Proof. destruct a, b; intuition congruence. Qed.

Lemma forallb_false {A} (f : A -> bool) l :
  forallb f l = false -> exists x, In x l /\ f x = false.
Proof.
  induction l as [|a l IH]; cbn; [discriminate|].
  destruct (f a) eqn:Fa; cbn; intros H.
  - destruct (IH H) as [x [Hx Hf]]. exists x; auto.
  - exists a; auto.
Qed.

Lemma existsb_false {A} (f : A -> bool) l :
  existsb f l = false <-> forall x, In x l -> f x = false.
Proof.
  split.
  - intros H x Hx. destruct (f x) eqn:Fx; auto.
    assert (existsb f l = true) by (apply existsb_exists; eauto). congruence.
  - intros H. destruct (existsb f l) eqn:E; auto.
    apply existsb_exists in E. destruct E as [x [Hx Fx]]. rewrite (H x Hx) in Fx. discriminate.
Qed.

Lemma memb_In x l : memb x l = true <-> In x l.
Proof.
  unfold memb. rewrite existsb_exists. split.
  - intros [y [Hy E]]. apply Nat.eqb_eq in E. subst; auto.
  - intros H. exists x. split; auto. apply Nat.eqb_refl.
Qed.

Lemma memb_false x l : memb x l = false <-> ~ In x l.
Proof. rewrite <- memb_In. destruct (memb x l); intuition congruence. Qed.

Lemma nodupb_NoDup l : nodupb l = true <-> NoDup l.
Proof.
  induction l as [|a l IH]; cbn.
  - split; auto using NoDup_nil.
  - rewrite andb_true_iff, negb_true_iff, memb_false, IH. split.
    + intros [H1 H2]. constructor; auto.
    + intros H. inversion H; auto.
Qed.

Lemma list_eqb_eq a b : list_eqb a b = true <-> a = b.
Proof.
  revert b. induction a as [|x a IH]; destruct b as [|y b]; cbn; try (split; congruence).
  rewrite andb_true_iff, Nat.eqb_eq, IH. split; [intros [-> ->]; auto | intros H; inversion H; auto].
Qed.

Lemma label_eqb_eq (a b : label) : label_eqb a b = true <-> a = b.
Proof.
  destruct a as [[sa ma] ia], b as [[sb mb] ib]. unfold label_eqb, lab_size, lab_mem, lab_id. cbn.
  rewrite !andb_true_iff, !Nat.eqb_eq, list_eqb_eq. split.
  - intros [[-> ->] ->]; auto.
  - intros H; inversion H; auto.
Qed.

(* ================================================================== 2. undirected edges *)
Lemma eqe_spec a b :
  eqe a b = true <-> (fst a = fst b /\ snd a = snd b) \/ (fst a = snd b /\ snd a = fst b).
Proof. unfold eqe. rewrite orb_true_iff, !andb_true_iff, !Nat.eqb_eq. tauto. Qed.

Lemma eqe_refl a : eqe a a = true.
Proof. apply eqe_spec; auto. Qed.

Lemma eqe_sym a b : eqe a b = eqe b a.
Proof. apply bool_eq_iff. rewrite !eqe_spec. intuition. Qed.

Lemma eqe_trans a b c : eqe a b = true -> eqe b c = true -> eqe a c = true.
Proof. rewrite !eqe_spec. intuition congruence. Qed.

Lemma eqe_swap u v : eqe (u, v) (v, u) = true.
Proof. apply eqe_spec; cbn; auto. Qed.

Lemma eqe_pair u v e : eqe (u, v) e = true <-> e = (u, v) \/ e = (v, u).
Proof.
  rewrite eqe_spec. destruct e as [a b]; cbn. split.
  - intros [[-> ->]|[-> ->]]; auto.
  - intros [H|H]; inversion H; auto.
Qed.

Lemma adj_spec es u v : adj es u v = true <-> exists e, In e es /\ eqe (u, v) e = true.
Proof. unfold adj. apply existsb_exists. Qed.

Lemma adj_sym es u v : adj es u v = adj es v u.
Proof.
  apply bool_eq_iff. rewrite !adj_spec.
  split; intros [e [He E]]; exists e; split; auto; eapply eqe_trans; [apply eqe_swap|exact E|apply eqe_swap|exact E].
Qed.

Lemma adj_eqe es e e' : eqe e e' = true -> adj es (fst e) (snd e) = adj es (fst e') (snd e').
Proof.
  intros E. apply bool_eq_iff. rewrite !adj_spec. destruct e as [a b], e' as [a' b']; cbn.
  split; intros [x [Hx Ex]]; exists x; split; auto.
  - eapply eqe_trans; [rewrite eqe_sym; exact E|exact Ex].
  - eapply eqe_trans; [exact E|exact Ex].
Qed.

Lemma adj_del_edge es d u v :
  adj (del_edge es d) u v = true <-> adj es u v = true /\ eqe (u, v) d = false.
Proof.
  unfold del_edge. rewrite !adj_spec. split.
  - intros [e [He E]]. apply filter_In in He. destruct He as [He Hd]. split; [eauto|].
    apply negb_true_iff in Hd. destruct (eqe (u, v) d) eqn:X; auto.
    rewrite eqe_sym in X. rewrite (eqe_trans _ _ _ X E) in Hd. discriminate.
  - intros [[e [He E]] Hd]. exists e. split; auto. apply filter_In. split; auto.
    apply negb_true_iff. destruct (eqe d e) eqn:X; auto.
    rewrite eqe_sym in X. rewrite (eqe_trans _ _ _ E X) in Hd. discriminate.
Qed.

Lemma adj_del_edges ds : forall es u v,
  adj (del_edges es ds) u v = true <-> adj es u v = true /\ existsb (eqe (u, v)) ds = false.
Proof.
  unfold del_edges. induction ds as [|d ds IH]; intros es u v; cbn [fold_left existsb].
  - tauto.
  - rewrite IH, adj_del_edge, orb_false_iff. tauto.
Qed.

(* ================================================================== 3. pairs of a member list *)
Definition inpair (c : list nat) (u v : nat) : Prop := In u c /\ In v c /\ u <> v.

Lemma inpairb_spec c u v : inpairb c u v = true <-> inpair c u v.
Proof.
  unfold inpairb, inpair. rewrite !andb_true_iff, !memb_In, negb_true_iff, Nat.eqb_neq. tauto.
Qed.

Lemma inpair_sym c u v : inpair c u v -> inpair c v u.
Proof. unfold inpair. intuition. Qed.

Lemma pairs_In c e : In e (pairs c) -> In (fst e) c /\ In (snd e) c.
Proof.
  induction c as [|x t IH]; cbn; [tauto|]. rewrite in_app_iff, in_map_iff.
  intros [[y [<- Hy]]|H]; cbn; auto. destruct (IH H); auto.
Qed.

Lemma pairs_neq c e : NoDup c -> In e (pairs c) -> fst e <> snd e.
Proof.
  induction c as [|x t IH]; cbn; [tauto|]. intros ND. inversion ND as [|? ? Hx NDt]; subst.
  rewrite in_app_iff, in_map_iff. intros [[y [<- Hy]]|H]; cbn; auto.
  intros ->. contradiction.
Qed.

Lemma pairs_inpair c e : NoDup c -> In e (pairs c) -> inpair c (fst e) (snd e).
Proof. intros ND He. destruct (pairs_In _ _ He). split; [|split]; auto. apply (pairs_neq c); auto. Qed.

Lemma pairs_complete c u v : inpair c u v -> exists e, In e (pairs c) /\ eqe (u, v) e = true.
Proof.
  induction c as [|x t IH]; intros [Hu [Hv Hn]]; [inversion Hu|].
  cbn in Hu, Hv. cbn [pairs].
  destruct Hu as [->|Hu], Hv as [->|Hv].
  - congruence.
  - exists (u, v). split; [|apply eqe_refl]. apply in_or_app. left. apply in_map. auto.
  - exists (v, u). split; [|apply eqe_swap]. apply in_or_app. left. apply in_map. auto.
  - destruct IH as [e [He E]]; [split; auto|]. exists e. split; auto. apply in_or_app. auto.
Qed.

Lemma existsb_pairs c u v : NoDup c -> existsb (eqe (u, v)) (pairs c) = inpairb c u v.
Proof.
  intros ND. apply bool_eq_iff. rewrite existsb_exists, inpairb_spec. split.
  - intros [e [He E]]. pose proof (pairs_inpair _ _ ND He) as [H1 [H2 H3]].
    apply eqe_pair in E. destruct E as [->| ->]; cbn in *; split; auto.
  - intros H. destruct (pairs_complete _ _ _ H) as [e [He E]]. eauto.
Qed.

Lemma accepts_spec rem c : NoDup c ->
  (accepts rem c = true <-> forall u v, inpair c u v -> adj rem u v = true).
Proof.
  intros ND. unfold accepts. rewrite forallb_forall. split.
  - intros H u v Huv. destruct (pairs_complete _ _ _ Huv) as [e [He E]].
    specialize (H e He). rewrite <- (adj_eqe rem (u, v) e E) in H. exact H.
  - intros H e He. apply H. apply pairs_inpair; auto.
Qed.

Lemma accepts_false rem c : NoDup c -> accepts rem c = false ->
  exists u v, inpair c u v /\ adj rem u v = false.
Proof.
  intros ND H. apply forallb_false in H. destruct H as [e [He Hf]].
  exists (fst e), (snd e). split; auto using pairs_inpair.
Qed.

Lemma inpair_exists c : NoDup c -> 2 <= length c -> exists u v, inpair c u v.
Proof.
  destruct c as [|x [|y t]]; cbn; try lia. intros ND _. exists x, y.
  split; [|split]; cbn; auto. inversion ND as [|? ? Hx _]; subst. intros ->. apply Hx. cbn; auto.
Qed.

(* ================================================================== 4. the stable descending sort *)
Definition desc : list (list nat) -> Prop := StronglySorted (fun a b : list nat => length b <= length a).

Lemma insert_desc_perm x l : Permutation (insert_desc x l) (x :: l).
Proof.
  induction l as [|y t IH]; cbn; auto.
  destruct (Nat.leb (length y) (length x)); auto.
  rewrite IH. apply perm_swap.
Qed.

Lemma sort_desc_perm l : Permutation (sort_desc l) l.
Proof.
  induction l as [|x t IH]; cbn; auto. rewrite insert_desc_perm. auto.
Qed.

Lemma sort_desc_In l c : In c (sort_desc l) <-> In c l.
Proof. split; apply Permutation_in; [|symmetry]; apply sort_desc_perm. Qed.

Lemma insert_desc_sorted x l : desc l -> desc (insert_desc x l).
Proof.
  unfold desc. induction l as [|y t IH]; cbn; intros S.
  - constructor; auto.
  - inversion S as [|? ? St Fy]; subst.
    destruct (Nat.leb (length y) (length x)) eqn:Le.
    + apply Nat.leb_le in Le. constructor; auto. constructor; auto.
      rewrite Forall_forall in *. intros b Hb. specialize (Fy b Hb). lia.
    + apply Nat.leb_gt in Le. constructor; auto.
      rewrite Forall_forall in *. intros b Hb.
      apply (Permutation_in _ (insert_desc_perm x t)) in Hb. destruct Hb as [<-|Hb]; [lia|auto].
Qed.

Lemma sort_desc_sorted l : desc (sort_desc l).
Proof.
  induction l as [|x t IH]; cbn; [constructor|]. apply insert_desc_sorted; auto.
Qed.

Lemma desc_app_mid P c rest : desc (P ++ c :: rest) -> forall c', In c' P -> length c <= length c'.
Proof.
  unfold desc. induction P as [|p P IH]; cbn; intros S c' H; [tauto|].
  inversion S as [|? ? St Fp]; subst. destruct H as [<-|H]; auto.
  rewrite Forall_forall in Fp. apply Fp. apply in_or_app. right. cbn; auto.
Qed.

(* ================================================================== 5. the invariant of the acceptance loop *)
Definition coveredb (cover : list (list nat)) (u v : nat) : bool := existsb (fun c => inpairb c u v) cover.
Definition edge_disjoint (a b : list nat) : Prop := forall u v, inpair a u v -> ~ inpair b u v.

(* what the proof needs to know about the processed list *)
Definition cliques_of_edges (E : list edge) (order : list (list nat)) : Prop :=
  forall c, In c order -> NoDup c /\ forall u v, inpair c u v -> adj E u v = true.

Record Inv (E : list edge) (ms : nat) (P : list (list nat)) (st : mstate) : Prop := {
  inv_sub : forall c, In c (snd st) -> In c P /\ within ms (length c) = true;
  inv_rem : forall u v, adj (fst st) u v = true <-> adj E u v = true /\ coveredb (snd st) u v = false;
  inv_disj : forall i j a b, nth_error (snd st) i = Some a -> nth_error (snd st) j = Some b -> i <> j ->
             edge_disjoint a b;
  inv_max : forall c, In c P -> within ms (length c) = true -> 2 <= length c ->
            exists c' u v, In c' (snd st) /\ length c <= length c' /\ inpair c u v /\ inpair c' u v
}.

Lemma Inv_init E ms : Inv E ms [] (E, []).
Proof.
  constructor; cbn.
  - tauto.
  - intros u v. intuition.
  - intros i j a b H. destruct i; discriminate.
  - tauto.
Qed.

Lemma coveredb_true cover u v : coveredb cover u v = true <-> exists c, In c cover /\ inpair c u v.
Proof.
  unfold coveredb. rewrite existsb_exists. split; intros [c [H1 H2]]; exists c; split; auto; apply inpairb_spec; auto.
Qed.

Lemma coveredb_false cover u v : coveredb cover u v = false <-> forall c, In c cover -> ~ inpair c u v.
Proof.
  unfold coveredb. rewrite existsb_false. split; intros H c Hc.
  - rewrite <- inpairb_spec, (H c Hc). discriminate.
  - specialize (H c Hc). rewrite <- inpairb_spec in H. destruct (inpairb c u v); congruence.
Qed.

Lemma nth_error_snoc {A} (l : list A) (x : A) i a :
  nth_error (l ++ [x]) i = Some a -> (i < length l /\ nth_error l i = Some a) \/ (i = length l /\ a = x).
Proof.
  intros H. destruct (Nat.lt_ge_cases i (length l)) as [Lt|Ge].
  - rewrite nth_error_app1 in H; auto.
  - rewrite nth_error_app2 in H; auto. right.
    destruct (i - length l) as [|k] eqn:K; cbn in H.
    + inversion H. split; auto. lia.
    + destruct k; discriminate.
Qed.

Lemma step_inv E ms P c st :
  (forall c', In c' P -> length c <= length c') ->
  NoDup c -> (forall u v, inpair c u v -> adj E u v = true) ->
  Inv E ms P st -> Inv E ms (P ++ [c]) (step ms st c).
Proof.
  intros Hlen ND Hc [Hsub Hrem Hdisj Hmax]. unfold step.
  destruct (within ms (length c)) eqn:W; [destruct (accepts (fst st) c) eqn:A|].
  - (* accepted *)
    pose proof (proj1 (accepts_spec _ _ ND) A) as Hacc.
    constructor; cbn [fst snd].
    + intros c0 H0. apply in_app_or in H0. destruct H0 as [H0|[<-|[]]].
      * destruct (Hsub _ H0). split; auto. apply in_or_app; auto.
      * split; auto. apply in_or_app; cbn; auto.
    + intros u v. rewrite adj_del_edges, Hrem, (existsb_pairs c u v ND).
      unfold coveredb. rewrite existsb_app. cbn. rewrite orb_false_r, orb_false_iff. tauto.
    + intros i j a b Hi Hj Hij.
      apply nth_error_snoc in Hi. apply nth_error_snoc in Hj.
      destruct Hi as [[Li Hi]|[Ei ->]], Hj as [[Lj Hj]|[Ej ->]].
      * eapply Hdisj; eauto.
      * intros u v Ha Hb. specialize (Hacc u v Hb). apply Hrem in Hacc. destruct Hacc as [_ Hcov].
        rewrite coveredb_false in Hcov. apply (Hcov a); auto. eapply nth_error_In; eauto.
      * intros u v Ha Hb. specialize (Hacc u v Ha). apply Hrem in Hacc. destruct Hacc as [_ Hcov].
        rewrite coveredb_false in Hcov. apply (Hcov b); auto. eapply nth_error_In; eauto.
      * lia.
    + intros c0 H0 W0 L0. apply in_app_or in H0. destruct H0 as [H0|[<-|[]]].
      * destruct (Hmax c0 H0 W0 L0) as [c' [u [v [H1 H2]]]]. exists c', u, v. split; auto. apply in_or_app; auto.
      * destruct (inpair_exists c ND L0) as [u [v Huv]]. exists c, u, v.
        split; [apply in_or_app; cbn; auto|]. auto.
  - (* rejected: one of its pairs is already claimed by an earlier, hence not smaller, clique *)
    destruct (accepts_false _ _ ND A) as [u [v [Huv Hadj]]].
    constructor; auto.
    + intros c0 H0. destruct (Hsub _ H0). split; auto. apply in_or_app; auto.
    + intros c0 H0 W0 L0. apply in_app_or in H0. destruct H0 as [H0|[<-|[]]]; auto.
      assert (Hcov : coveredb (snd st) u v = true).
      { destruct (coveredb (snd st) u v) eqn:C; auto.
        assert (adj (fst st) u v = true) by (apply Hrem; split; auto). congruence. }
      apply coveredb_true in Hcov. destruct Hcov as [c' [Hc' Hp]].
      exists c', u, v. split; auto. split; auto. apply Hlen. apply Hsub; auto.
  - (* over the size limit: skipped *)
    constructor; auto.
    + intros c0 H0. destruct (Hsub _ H0). split; auto. apply in_or_app; auto.
    + intros c0 H0 W0 L0. apply in_app_or in H0. destruct H0 as [H0|[<-|[]]]; auto. congruence.
Qed.

Lemma fold_inv E ms : forall rest P st,
  desc (P ++ rest) -> cliques_of_edges E (P ++ rest) ->
  Inv E ms P st -> Inv E ms (P ++ rest) (fold_left (step ms) rest st).
Proof.
  induction rest as [|c rest IH]; intros P st S HC HI; cbn.
  - rewrite app_nil_r. auto.
  - replace (P ++ c :: rest) with ((P ++ [c]) ++ rest) in * by (rewrite <- app_assoc; reflexivity).
    apply IH; auto.
    assert (Hc : In c ((P ++ [c]) ++ rest)) by (apply in_or_app; left; apply in_or_app; cbn; auto).
    destruct (HC c Hc) as [ND Hadj].
    apply step_inv; auto.
    rewrite <- app_assoc in S. cbn in S. apply (desc_app_mid _ _ _ S).
Qed.

Theorem greedy_inv E ms order :
  desc order -> cliques_of_edges E order -> Inv E ms order (greedy ms E order).
Proof.
  intros S HC. unfold greedy. apply (fold_inv E ms order [] (E, [])); auto. apply Inv_init.
Qed.

(* ================================================================== 6. the labelling loop *)
Lemma labels_from_In cover : forall i e l,
  In (e, l) (labels_from i cover) <->
  exists k c, nth_error cover k = Some c /\ In e (pairs c) /\ l = (length c, c, i + k).
Proof.
  induction cover as [|c t IH]; intros i e l; cbn [labels_from].
  - split; [intros []|]. intros [k [c [H _]]]. destruct k; discriminate.
  - rewrite in_app_iff, in_map_iff, IH. split.
    + intros [[e0 [E He0]]|[k [c0 [Hk [He Hl]]]]].
      * inversion E; subst. exists 0, c. cbn. rewrite Nat.add_0_r. auto.
      * exists (S k), c0. cbn. rewrite Nat.add_succ_r. auto.
    + intros [k [c0 [Hk [He Hl]]]]. destruct k as [|k]; cbn in Hk.
      * inversion Hk; subst. left. exists e. rewrite Nat.add_0_r. auto.
      * right. exists k, c0. rewrite Nat.add_succ_r in Hl. auto.
Qed.

Lemma label_of_Some labs e l : label_of labs e = Some l -> exists e', In (e', l) labs /\ eqe e e' = true.
Proof.
  unfold label_of. destruct (find _ (rev labs)) as [p|] eqn:F; [|discriminate].
  intros H. inversion H; subst. apply find_some in F. destruct F as [Hin E].
  apply in_rev in Hin. exists (fst p). destruct p; auto.
Qed.

Lemma label_of_None labs e : label_of labs e = None -> forall e' l, In (e', l) labs -> eqe e e' = false.
Proof.
  unfold label_of. destruct (find _ (rev labs)) as [p|] eqn:F; [discriminate|].
  intros _ e' l Hin. apply (find_none _ _ F (e', l)). apply in_rev. rewrite rev_involutive. auto.
Qed.

(* ================================================================== 7. the specification of C10 *)
Definition CliqueP (g : graph) (c : list nat) : Prop :=
  NoDup c /\ (forall v, In v c -> In v (g_nodes g)) /\ (forall u v, inpair c u v -> adj (g_edges g) u v = true).

(* the row of the (undirected) edge {u,v} carries label l *)
Definition has_row (rows : list row) (u v : nat) (l : label) : Prop :=
  exists e, In (e, Some l) rows /\ eqe (u, v) e = true.

(* no loop, no undirected edge listed twice *)
Definition SimpleP (es : list edge) : Prop :=
  (forall e, In e es -> fst e <> snd e) /\ ForallOrdPairs (fun a b => eqe a b = false) es.

Definition Within (ms n : nat) : Prop := ms = 0 \/ n <= ms.

Record Spec (g : graph) (ms : nat) (o : obs) : Prop := {
  (* the graph is unchanged *)
  sp_nodes : forall v, In v (o_nodes o) <-> In v (g_nodes g);
  sp_nodes_nodup : NoDup (o_nodes o);
  sp_edges : forall u v, adj (map fst (o_rows o)) u v = adj (g_edges g) u v;
  sp_simple : SimpleP (map fst (o_rows o));
  (* every edge carries a label (one row per edge, one label per row: exactly one) *)
  sp_labelled : forall e, ~ In (e, None) (o_rows o);
  (* size = |members|, members distinct, size limit, rows sharing the label = all pairs of the member list *)
  sp_label : forall e l, In (e, Some l) (o_rows o) ->
      lab_size l = length (lab_mem l) /\ NoDup (lab_mem l) /\ (0 < ms -> lab_size l <= ms) /\
      (forall u v, has_row (o_rows o) u v l <-> inpair (lab_mem l) u v);
  (* ids are unique per clique *)
  sp_ids : forall e1 l1 e2 l2, In (e1, Some l1) (o_rows o) -> In (e2, Some l2) (o_rows o) ->
      lab_id l1 = lab_id l2 -> l1 = l2;
  (* greedy-maximality *)
  sp_greedy : forall K, CliqueP g K -> 2 <= length K -> Within ms (length K) ->
      exists u v l, inpair K u v /\ has_row (o_rows o) u v l /\ length K <= lab_size l
}.

Lemma within_spec ms n : within ms n = true <-> Within ms n.
Proof.
  unfold within, Within. rewrite negb_true_iff, andb_false_iff, !Nat.ltb_ge. lia.
Qed.

Lemma simpleb_spec es : simpleb es = true <-> SimpleP es.
Proof.
  unfold SimpleP. induction es as [|e t IH]; cbn.
  - split; auto. intros _. split; [tauto|constructor].
  - rewrite !andb_true_iff, !negb_true_iff, Nat.eqb_neq, existsb_false, IH. split.
    + intros [[H1 H2] [H3 H4]]. split.
      * intros x [<-|Hx]; auto.
      * constructor; auto. apply Forall_forall. auto.
    + intros [H1 H2]. inversion H2 as [|? ? F FO]; subst. rewrite Forall_forall in F.
      repeat split; auto.
Qed.

Lemma SimpleP_neq es u v : SimpleP es -> adj es u v = true -> u <> v.
Proof.
  intros [H _] A. apply adj_spec in A. destruct A as [e [He E]]. specialize (H e He).
  apply eqe_pair in E. destruct E as [->| ->]; cbn in H; auto.
Qed.

Lemma inpair_eqe c u v e : eqe (u, v) e = true -> (inpair c u v <-> inpair c (fst e) (snd e)).
Proof.
  intros E. apply eqe_pair in E. destruct E as [->| ->]; cbn; [tauto|]. split; apply inpair_sym.
Qed.

Lemma inpair_seteq a b u v : (forall x, In x a <-> In x b) -> (inpair a u v <-> inpair b u v).
Proof. intros H. unfold inpair. rewrite !H. tauto. Qed.

Lemma seteq_length (a b : list nat) : NoDup a -> NoDup b -> (forall x, In x a <-> In x b) -> length a = length b.
Proof. intros Ha Hb H. apply Permutation_length. apply NoDup_Permutation; auto. Qed.

Lemma In_adj es e : In e es -> adj es (fst e) (snd e) = true.
Proof. intros H. apply adj_spec. exists e. split; auto. destruct e; apply eqe_refl. Qed.

Definition ValidGraph (g : graph) : Prop :=
  NoDup (g_nodes g) /\ SimpleP (g_edges g) /\
  (forall e, In e (g_edges g) -> In (fst e) (g_nodes g) /\ In (snd e) (g_nodes g)).

Lemma valid_graph_spec g : valid_graph g = true <-> ValidGraph g.
Proof.
  unfold valid_graph, ValidGraph. rewrite !andb_true_iff, nodupb_NoDup, simpleb_spec, forallb_forall.
  split.
  - intros [[H1 H2] H3]. split; [auto|split; [auto|]]. intros e He. specialize (H3 e He).
    apply andb_true_iff in H3. rewrite !memb_In in H3. exact H3.
  - intros [H1 [H2 H3]]. split; [split; auto|]. intros e He. rewrite andb_true_iff, !memb_In. auto.
Qed.

(* the three facts about the processing order that the proof uses *)
Record GoodOrder (g : graph) (order : list (list nat)) : Prop := {
  go_cliques : forall c, In c order -> CliqueP g c;                       (* members are cliques *)
  go_all : forall K, CliqueP g K -> 2 <= length K ->                      (* all cliques present (as sets) *)
           exists c, In c order /\ forall x, In x c <-> In x K;
  go_sorted : desc order                                                  (* sorted by length, descending *)
}.

Section Core.
  Variable g : graph.
  Variable ms : nat.
  Variable order : list (list nat).
  Hypothesis Hg : ValidGraph g.
  Hypothesis Hms : ms = 0 \/ 2 <= ms.
  Hypothesis Hord : GoodOrder g order.

  Let E := g_edges g.
  Let st := greedy ms E order.
  Let cover := snd st.
  Let labs := labels_from 0 cover.

  Lemma core_inv : Inv E ms order st.
  Proof.
    apply greedy_inv; [apply (go_sorted _ _ Hord)|].
    intros c Hc. destruct (go_cliques _ _ Hord c Hc) as [ND [_ A]]. auto.
  Qed.

  Lemma cover_member c : In c cover -> CliqueP g c /\ Within ms (length c).
  Proof.
    intros Hc. destruct (inv_sub _ _ _ _ core_inv c Hc) as [H1 H2].
    split; [apply (go_cliques _ _ Hord); auto | apply within_spec; auto].
  Qed.

  (* every edge lies in an accepted clique ... *)
  Lemma cover_covers u v : adj E u v = true -> exists i c, nth_error cover i = Some c /\ inpair c u v.
  Proof.
    intros A. destruct Hg as [NDn [Simp Ends]].
    assert (Huv : u <> v) by (eapply SimpleP_neq; eauto).
    assert (HK : CliqueP g [u; v]).
    { split; [|split].
      - constructor; [cbn; intuition|constructor; [cbn; tauto|constructor]].
      - apply adj_spec in A. destruct A as [e [He Ee]]. destruct (Ends e He) as [E1 E2].
        apply eqe_pair in Ee. intros x [<-|[<-|[]]]; destruct Ee as [->| ->]; cbn in *; auto.
      - intros a b [Ha [Hb Hab]]. cbn in Ha, Hb. fold E.
        destruct Ha as [<-|[<-|[]]], Hb as [<-|[<-|[]]]; try congruence. rewrite adj_sym. auto. }
    destruct (go_all _ _ Hord [u; v] HK) as [c [Hc Hset]]; [cbn; lia|].
    destruct (go_cliques _ _ Hord c Hc) as [NDc _].
    assert (Lc : length c = 2).
    { rewrite (seteq_length c [u; v]); auto. destruct HK; auto. }
    destruct (inv_max _ _ _ _ core_inv c Hc) as [c' [a [b [Hc' [_ [Hab Hab']]]]]].
    { apply within_spec. unfold Within. lia. }
    { lia. }
    apply In_nth_error in Hc'. destruct Hc' as [i Hi]. exists i, c'. split; auto.
    apply (inpair_seteq _ _ a b Hset) in Hab. destruct Hab as [Ha [Hb Hn]]. cbn in Ha, Hb.
    destruct Ha as [<-|[<-|[]]], Hb as [<-|[<-|[]]]; try congruence. apply inpair_sym; auto.
  Qed.

  (* ... and in only one *)
  Lemma cover_unique i j a b u v :
    nth_error cover i = Some a -> nth_error cover j = Some b -> inpair a u v -> inpair b u v -> i = j /\ a = b.
  Proof.
    intros Hi Hj Ha Hb. destruct (Nat.eq_dec i j) as [->|N].
    - split; congruence.
    - exfalso. exact (inv_disj _ _ _ _ core_inv i j a b Hi Hj N u v Ha Hb).
  Qed.

  (* the label of an edge is the label of the accepted clique containing it *)
  Lemma label_char e : In e E ->
    exists i c, nth_error cover i = Some c /\ inpair c (fst e) (snd e) /\
                label_of labs e = Some (length c, c, i).
  Proof.
    intros He. pose proof (In_adj _ _ He) as A.
    destruct (cover_covers _ _ A) as [i [c [Hi Hp]]]. exists i, c. split; auto. split; auto.
    assert (Ee : eqe (fst e, snd e) e = true) by (destruct e; apply eqe_refl).
    destruct (label_of labs e) as [l|] eqn:L.
    - apply label_of_Some in L. destruct L as [e' [Hin E']].
      apply labels_from_In in Hin. destruct Hin as [k [c' [Hk [He' ->]]]]. cbn [Nat.add].
      assert (NDc' : NoDup c').
      { apply nth_error_In in Hk. destruct (cover_member _ Hk) as [[ND _] _]. auto. }
      pose proof (pairs_inpair _ _ NDc' He') as Hp'.
      assert (Hp'' : inpair c' (fst e) (snd e)).
      { assert (X : eqe (fst e, snd e) e' = true) by exact (eqe_trans _ _ _ Ee E').
        apply (proj2 (inpair_eqe c' (fst e) (snd e) e' X)). exact Hp'. }
      destruct (cover_unique _ _ _ _ _ _ Hi Hk Hp Hp'') as [-> ->]. reflexivity.
    - exfalso. destruct (pairs_complete _ _ _ Hp) as [e' [He' E']].
      assert (Hin : In (e', (length c, c, 0 + i)) labs).
      { apply labels_from_In. exists i, c. auto. }
      pose proof (label_of_None _ _ L _ _ Hin) as X.
      rewrite (eqe_trans _ _ _ (eq_trans (eqe_sym _ _) Ee) E') in X. discriminate.
  Qed.

  Lemma rows_In e ol : In (e, ol) (rows_of_cover g cover) <-> In e E /\ ol = label_of labs e.
  Proof.
    unfold rows_of_cover. fold labs. fold E. rewrite in_map_iff. split.
    - intros [x [Hx Hin]]. inversion Hx; subst. auto.
    - intros [H ->]. exists e. auto.
  Qed.

  Lemma rows_fst : map fst (rows_of_cover g cover) = E.
  Proof. unfold rows_of_cover. rewrite map_map. cbn. apply map_id. Qed.

  Lemma row_label e l : In (e, Some l) (rows_of_cover g cover) ->
    In e E /\ exists i c, nth_error cover i = Some c /\ inpair c (fst e) (snd e) /\ l = (length c, c, i).
  Proof.
    intros H. apply rows_In in H. destruct H as [He L]. split; auto.
    destruct (label_char e He) as [i [c [Hi [Hp L']]]]. exists i, c. split; auto. split; auto. congruence.
  Qed.

  Lemma adj_row u v : adj E u v = true ->
    exists e i c, In e E /\ eqe (u, v) e = true /\ nth_error cover i = Some c /\ inpair c u v /\
                  In (e, Some (length c, c, i)) (rows_of_cover g cover).
  Proof.
    intros A. apply adj_spec in A. destruct A as [e [He Ee]].
    destruct (label_char e He) as [i [c [Hi [Hp L]]]]. exists e, i, c.
    split; [auto|]. split; [auto|]. split; [auto|]. split.
    - apply (proj2 (inpair_eqe c u v e Ee)). exact Hp.
    - apply rows_In. auto.
  Qed.

  Theorem core_spec : Spec g ms (mpcc_core g ms order).
  Proof.
    unfold mpcc_core, mpcc_cover. fold E. fold st. fold cover.
    destruct Hg as [NDn [Simp Ends]].
    constructor; cbn [o_nodes o_rows].
    - tauto.
    - auto.
    - rewrite rows_fst. reflexivity.
    - rewrite rows_fst. auto.
    - intros e H. apply rows_In in H. destruct H as [He L].
      destruct (label_char e He) as [i [c [_ [_ L']]]]. congruence.
    - intros e l H. destruct (row_label _ _ H) as [He [i [c [Hi [Hp ->]]]]].
      unfold lab_size, lab_mem. cbn [fst snd].
      pose proof (nth_error_In _ _ Hi) as Hc. destruct (cover_member c Hc) as [[NDc [Vc Ac]] Wc].
      split; [reflexivity|]. split; [auto|]. split; [unfold Within in Wc; lia|].
      intros u v. split.
      + intros [e2 [H2 E2]]. destruct (row_label _ _ H2) as [He2 [i2 [c2 [Hi2 [Hp2 X]]]]].
        inversion X; subst. apply (inpair_eqe c2 u v e2); auto.
      + intros Huv. destruct (adj_row u v (Ac u v Huv)) as [e2 [i2 [c2 [He2 [E2 [Hi2 [Hp2 R2]]]]]]].
        destruct (cover_unique _ _ _ _ _ _ Hi Hi2 Huv Hp2) as [-> ->]. exists e2. auto.
    - intros e1 l1 e2 l2 H1 H2 Hid.
      destruct (row_label _ _ H1) as [_ [i1 [c1 [Hi1 [_ ->]]]]].
      destruct (row_label _ _ H2) as [_ [i2 [c2 [Hi2 [_ ->]]]]].
      unfold lab_id in Hid. cbn in Hid. subst i2. congruence.
    - intros K HK LK WK. destruct (go_all _ _ Hord K HK LK) as [c [Hc Hset]].
      destruct (go_cliques _ _ Hord c Hc) as [NDc _]. destruct HK as [NDK [VK AK]].
      assert (Lc : length c = length K) by (apply seteq_length; auto).
      destruct (inv_max _ _ _ _ core_inv c Hc) as [c' [u [v [Hc' [Hlen [Hp Hp']]]]]].
      { apply within_spec. rewrite Lc. auto. }
      { lia. }
      apply (inpair_seteq _ _ u v Hset) in Hp.
      apply In_nth_error in Hc'. destruct Hc' as [i' Hi'].
      destruct (adj_row u v (AK u v Hp)) as [e2 [i2 [c2 [He2 [E2 [Hi2 [Hp2 R2]]]]]]].
      destruct (cover_unique _ _ _ _ _ _ Hi' Hi2 Hp' Hp2) as [-> ->].
      exists u, v, (length c2, c2, i2). split; auto. split; [exists e2; auto|].
      unfold lab_size. cbn. lia.
  Qed.

  (* stand-alone facts about the cover *)
  Theorem cover_disjoint i j a b :
    nth_error cover i = Some a -> nth_error cover j = Some b -> i <> j -> edge_disjoint a b.
  Proof. apply (inv_disj _ _ _ _ core_inv). Qed.

  Theorem cover_exact u v : adj E u v = true ->
    exists i c, nth_error cover i = Some c /\ inpair c u v /\
      forall j b, nth_error cover j = Some b -> inpair b u v -> j = i /\ b = c.
  Proof.
    intros A. destruct (cover_covers u v A) as [i [c [Hi Hp]]]. exists i, c. split; auto. split; auto.
    intros j b Hj Hb. destruct (cover_unique _ _ _ _ _ _ Hi Hj Hp Hb). auto.
  Qed.

  (* the working copy ends up without edges *)
  Theorem working_copy_empty u v : adj (fst st) u v = false.
  Proof.
    destruct (adj (fst st) u v) eqn:A; auto. exfalso.
    apply (inv_rem _ _ _ _ core_inv) in A. destruct A as [A C].
    destruct (cover_covers u v A) as [i [c [Hi Hp]]].
    rewrite coveredb_false in C. apply (C c); auto. eapply nth_error_In; eauto.
  Qed.
End Core.
