(* Proofs about the MPCC model (Model/Mpcc.v) and the C10 checker. *)
From Coq Require Import List Arith Bool Lia Permutation Sorted.
From GV Require Import Lib.Tree Lib.GraphM Model.Mpcc.
Import ListNotations.

(* ================================================================== 1. booleans and lists *)
Lemma bool_eq_iff (a b : bool) : (a = true <-> b = true) -> a = b.
Proof. destruct a, b; intuition congruence. Qed.

Lemma forallb_false {A} (f : A -> bool) l :
  forallb f l = false -> exists x, In x l /\ f x = false.
Proof.
  induction l as [|a l IH]; cbn; [discriminate|].
  destruct (f a) eqn:Fa; cbn; intros H.
  - destruct (IH H) as [x [Hx Hf]]. exists x; auto.
  - exists a; auto.
Qed.

Lemma existsb_false {A} (f : A -> bool) l :
  existsb f l = false <-> forall x, In x l -> f x = false.
Proof.
  split.
  - intros H x Hx. destruct (f x) eqn:Fx; auto.
    assert (existsb f l = true) by (apply existsb_exists; eauto). congruence.
  - intros H. destruct (existsb f l) eqn:E; auto.
    apply existsb_exists in E. destruct E as [x [Hx Fx]]. rewrite (H x Hx) in Fx. discriminate.
Qed.

Lemma memb_In x l : memb x l = true <-> In x l.
Proof.
  unfold memb. rewrite existsb_exists. split.
  - intros [y [Hy E]]. apply Nat.eqb_eq in E. subst; auto.
  - intros H. exists x. split; auto. apply Nat.eqb_refl.
Qed.

Lemma memb_false x l : memb x l = false <-> ~ In x l.
Proof. rewrite <- memb_In. destruct (memb x l); intuition congruence. Qed.

Lemma nodupb_NoDup l : nodupb l = true <-> NoDup l.
Proof.
  induction l as [|a l IH]; cbn.
  - split; auto using NoDup_nil.
  - rewrite andb_true_iff, negb_true_iff, memb_false, IH. split.
    + intros [H1 H2]. constructor; auto.
    + intros H. inversion H; auto.
Qed.

Lemma list_eqb_eq a b : list_eqb a b = true <-> a = b.
Proof.
  revert b. induction a as [|x a IH]; destruct b as [|y b]; cbn; try (split; congruence).
  rewrite andb_true_iff, Nat.eqb_eq, IH. split; [intros [-> ->]; auto | intros H; inversion H; auto].
Qed.

Lemma label_eqb_eq (a b : label) : label_eqb a b = true <-> a = b.
Proof.
  destruct a as [[sa ma] ia], b as [[sb mb] ib]. unfold label_eqb, lab_size, lab_mem, lab_id. cbn.
  rewrite !andb_true_iff, !Nat.eqb_eq, list_eqb_eq. split.
  - intros [[-> ->] ->]; auto.
  - intros H; inversion H; auto.
Qed.

(* ================================================================== 2. undirected edges *)
Lemma eqe_spec a b :
  eqe a b = true <-> (fst a = fst b /\ snd a = snd b) \/ (fst a = snd b /\ snd a = fst b).
Proof. unfold eqe. rewrite orb_true_iff, !andb_true_iff, !Nat.eqb_eq. tauto. Qed.

Lemma eqe_refl a : eqe a a = true.
Proof. apply eqe_spec; auto. Qed.

Lemma eqe_sym a b : eqe a b = eqe b a.
Proof. apply bool_eq_iff. rewrite !eqe_spec. intuition. Qed.

Lemma eqe_trans a b c : eqe a b = true -> eqe b c = true -> eqe a c = true.
Proof. rewrite !eqe_spec. intuition congruence. Qed.

Lemma eqe_swap u v : eqe (u, v) (v, u) = true.
Proof. apply eqe_spec; cbn; auto. Qed.

Lemma eqe_pair u v e : eqe (u, v) e = true <-> e = (u, v) \/ e = (v, u).
Proof.
  rewrite eqe_spec. destruct e as [a b]; cbn. split.
  - intros [[-> ->]|[-> ->]]; auto.
  - intros [H|H]; inversion H; auto.
Qed.

Lemma adj_spec es u v : adj es u v = true <-> exists e, In e es /\ eqe (u, v) e = true.
Proof. unfold adj. apply existsb_exists. Qed.

Lemma adj_sym es u v : adj es u v = adj es v u.
Proof.
  apply bool_eq_iff. rewrite !adj_spec.
  split; intros [e [He E]]; exists e; split; auto; eapply eqe_trans; [apply eqe_swap|exact E|apply eqe_swap|exact E].
Qed.

Lemma adj_eqe es e e' : eqe e e' = true -> adj es (fst e) (snd e) = adj es (fst e') (snd e').
Proof.
  intros E. apply bool_eq_iff. rewrite !adj_spec. destruct e as [a b], e' as [a' b']; cbn.
  split; intros [x [Hx Ex]]; exists x; split; auto.
  - eapply eqe_trans; [rewrite eqe_sym; exact E|exact Ex].
  - eapply eqe_trans; [exact E|exact Ex].
Qed.

Lemma adj_del_edge es d u v :
  adj (del_edge es d) u v = true <-> adj es u v = true /\ eqe (u, v) d = false.
Proof.
  unfold del_edge. rewrite !adj_spec. split.
  - intros [e [He E]]. apply filter_In in He. destruct He as [He Hd]. split; [eauto|].
    apply negb_true_iff in Hd. destruct (eqe (u, v) d) eqn:X; auto.
    rewrite eqe_sym in X. rewrite (eqe_trans _ _ _ X E) in Hd. discriminate.
  - intros [[e [He E]] Hd]. exists e. split; auto. apply filter_In. split; auto.
    apply negb_true_iff. destruct (eqe d e) eqn:X; auto.
    rewrite eqe_sym in X. rewrite (eqe_trans _ _ _ E X) in Hd. discriminate.
Qed.

Lemma adj_del_edges ds : forall es u v,
  adj (del_edges es ds) u v = true <-> adj es u v = true /\ existsb (eqe (u, v)) ds = false.
Proof.
  unfold del_edges. induction ds as [|d ds IH]; intros es u v; cbn [fold_left existsb].
  - tauto.
  - rewrite IH, adj_del_edge, orb_false_iff. tauto.
Qed.

(* ================================================================== 3. pairs of a member list *)
Definition inpair (c : list nat) (u v : nat) : Prop := In u c /\ In v c /\ u <> v.

Lemma inpairb_spec c u v : inpairb c u v = true <-> inpair c u v.
Proof.
  unfold inpairb, inpair. rewrite !andb_true_iff, !memb_In, negb_true_iff, Nat.eqb_neq. tauto.
Qed.

Lemma inpair_sym c u v : inpair c u v -> inpair c v u.
Proof. unfold inpair. intuition. Qed.

Lemma pairs_In c e : In e (pairs c) -> In (fst e) c /\ In (snd e) c.
Proof.
  induction c as [|x t IH]; cbn; [tauto|]. rewrite in_app_iff, in_map_iff.
  intros [[y [<- Hy]]|H]; cbn; auto. destruct (IH H); auto.
Qed.

Lemma pairs_neq c e : NoDup c -> In e (pairs c) -> fst e <> snd e.
Proof.
  induction c as [|x t IH]; cbn; [tauto|]. intros ND. inversion ND as [|? ? Hx NDt]; subst.
  rewrite in_app_iff, in_map_iff. intros [[y [<- Hy]]|H]; cbn; auto.
  intros ->. contradiction.
Qed.

Lemma pairs_inpair c e : NoDup c -> In e (pairs c) -> inpair c (fst e) (snd e).
Proof. intros ND He. destruct (pairs_In _ _ He). split; [|split]; auto. apply (pairs_neq c); auto. Qed.

Lemma pairs_complete c u v : inpair c u v -> exists e, In e (pairs c) /\ eqe (u, v) e = true.
Proof.
  induction c as [|x t IH]; intros [Hu [Hv Hn]]; [inversion Hu|].
  cbn in Hu, Hv. cbn [pairs].
  destruct Hu as [->|Hu], Hv as [->|Hv].
  - congruence.
  - exists (u, v). split; [|apply eqe_refl]. apply in_or_app. left. apply in_map. auto.
  - exists (v, u). split; [|apply eqe_swap]. apply in_or_app. left. apply in_map. auto.
  - destruct IH as [e [He E]]; [split; auto|]. exists e. split; auto. apply in_or_app. auto.
Qed.

Lemma existsb_pairs c u v : NoDup c -> existsb (eqe (u, v)) (pairs c) = inpairb c u v.
Proof.
  intros ND. apply bool_eq_iff. rewrite existsb_exists, inpairb_spec. split.
  - intros [e [He E]]. pose proof (pairs_inpair _ _ ND He) as [H1 [H2 H3]].
    apply eqe_pair in E. destruct E as [->| ->]; cbn in *; split; auto.
  - intros H. destruct (pairs_complete _ _ _ H) as [e [He E]]. eauto.
Qed.

Lemma accepts_spec rem c : NoDup c ->
  (accepts rem c = true <-> forall u v, inpair c u v -> adj rem u v = true).
Proof.
  intros ND. unfold accepts. rewrite forallb_forall. split.
  - intros H u v Huv. destruct (pairs_complete _ _ _ Huv) as [e [He E]].
    specialize (H e He). rewrite <- (adj_eqe rem (u, v) e E) in H. exact H.
  - intros H e He. apply H. apply pairs_inpair; auto.
Qed.

Lemma accepts_false rem c : NoDup c -> accepts rem c = false ->
  exists u v, inpair c u v /\ adj rem u v = false.
Proof.
  intros ND H. apply forallb_false in H. destruct H as [e [He Hf]].
  exists (fst e), (snd e). split; auto using pairs_inpair.
Qed.

Lemma inpair_exists c : NoDup c -> 2 <= length c -> exists u v, inpair c u v.
Proof.
  destruct c as [|x [|y t]]; cbn; try lia. intros ND _. exists x, y.
  split; [|split]; cbn; auto. inversion ND as [|? ? Hx _]; subst. intros ->. apply Hx. cbn; auto.
Qed.

(* ================================================================== 4. the stable descending sort *)
Definition desc : list (list nat) -> Prop := StronglySorted (fun a b : list nat => length b <= length a).

Lemma insert_desc_perm x l : Permutation (insert_desc x l) (x :: l).
Proof.
  induction l as [|y t IH]; cbn; auto.
  destruct (Nat.leb (length y) (length x)); auto.
  rewrite IH. apply perm_swap.
Qed.

Lemma sort_desc_perm l : Permutation (sort_desc l) l.
Proof.
  induction l as [|x t IH]; cbn; auto. rewrite insert_desc_perm. auto.
Qed.

Lemma sort_desc_In l c : In c (sort_desc l) <-> In c l.
Proof. split; apply Permutation_in; [|symmetry]; apply sort_desc_perm. Qed.

Lemma insert_desc_sorted x l : desc l -> desc (insert_desc x l).
Proof.
  unfold desc. induction l as [|y t IH]; cbn; intros S.
  - constructor; auto.
  - inversion S as [|? ? St Fy]; subst.
    destruct (Nat.leb (length y) (length x)) eqn:Le.
    + apply Nat.leb_le in Le. constructor; auto. constructor; auto.
      rewrite Forall_forall in *. intros b Hb. specialize (Fy b Hb). lia.
    + apply Nat.leb_gt in Le. constructor; auto.
      rewrite Forall_forall in *. intros b Hb.
      apply (Permutation_in _ (insert_desc_perm x t)) in Hb. destruct Hb as [<-|Hb]; [lia|auto].
Qed.

Lemma sort_desc_sorted l : desc (sort_desc l).
Proof.
  induction l as [|x t IH]; cbn; [constructor|]. apply insert_desc_sorted; auto.
Qed.

Lemma desc_app_mid P c rest : desc (P ++ c :: rest) -> forall c', In c' P -> length c <= length c'.
Proof.
  unfold desc. induction P as [|p P IH]; cbn; intros S c' H; [tauto|].
  inversion S as [|? ? St Fp]; subst. destruct H as [<-|H]; auto.
  rewrite Forall_forall in Fp. apply Fp. apply in_or_app. right. cbn; auto.
Qed.

(* ================================================================== 5. the invariant of the acceptance loop *)
Definition coveredb (cover : list (list nat)) (u v : nat) : bool := existsb (fun c => inpairb c u v) cover.
Definition edge_disjoint (a b : list nat) : Prop := forall u v, inpair a u v -> ~ inpair b u v.

(* what the proof needs to know about the processed list *)
Definition cliques_of_edges (E : list edge) (order : list (list nat)) : Prop :=
  forall c, In c order -> NoDup c /\ forall u v, inpair c u v -> adj E u v = true.

Record Inv (E : list edge) (ms : nat) (P : list (list nat)) (st : mstate) : Prop := {
  inv_sub : forall c, In c (snd st) -> In c P /\ within ms (length c) = true;
  inv_rem : forall u v, adj (fst st) u v = true <-> adj E u v = true /\ coveredb (snd st) u v = false;
  inv_disj : forall i j a b, nth_error (snd st) i = Some a -> nth_error (snd st) j = Some b -> i <> j ->
             edge_disjoint a b;
  inv_max : forall c, In c P -> within ms (length c) = true -> 2 <= length c ->
            exists c' u v, In c' (snd st) /\ length c <= length c' /\ inpair c u v /\ inpair c' u v
}.

Lemma Inv_init E ms : Inv E ms [] (E, []).
Proof.
  constructor; cbn.
  - tauto.
  - intros u v. intuition.
  - intros i j a b H. destruct i; discriminate.
  - tauto.
Qed.

Lemma coveredb_true cover u v : coveredb cover u v = true <-> exists c, In c cover /\ inpair c u v.
Proof.
  unfold coveredb. rewrite existsb_exists. split; intros [c [H1 H2]]; exists c; split; auto; apply inpairb_spec; auto.
Qed.

Lemma coveredb_false cover u v : coveredb cover u v = false <-> forall c, In c cover -> ~ inpair c u v.
Proof.
  unfold coveredb. rewrite existsb_false. split; intros H c Hc.
  - rewrite <- inpairb_spec, (H c Hc). discriminate.
  - specialize (H c Hc). rewrite <- inpairb_spec in H. destruct (inpairb c u v); congruence.
Qed.

Lemma nth_error_snoc {A} (l : list A) (x : A) i a :
  nth_error (l ++ [x]) i = Some a -> (i < length l /\ nth_error l i = Some a) \/ (i = length l /\ a = x).
Proof.
  intros H. destruct (Nat.lt_ge_cases i (length l)) as [Lt|Ge].
  - rewrite nth_error_app1 in H; auto.
  - rewrite nth_error_app2 in H; auto. right.
    destruct (i - length l) as [|k] eqn:K; cbn in H.
    + inversion H. split; auto. lia.
    + destruct k; discriminate.
Qed.

Lemma step_inv E ms P c st :
  (forall c', In c' P -> length c <= length c') ->
  NoDup c -> (forall u v, inpair c u v -> adj E u v = true) ->
  Inv E ms P st -> Inv E ms (P ++ [c]) (step ms st c).
Proof.
  intros Hlen ND Hc [Hsub Hrem Hdisj Hmax]. unfold step.
  destruct (within ms (length c)) eqn:W; [destruct (accepts (fst st) c) eqn:A|].
  - (* accepted *)
    pose proof (proj1 (accepts_spec _ _ ND) A) as Hacc.
    constructor; cbn [fst snd].
    + intros c0 H0. apply in_app_or in H0. destruct H0 as [H0|[<-|[]]].
      * destruct (Hsub _ H0). split; auto. apply in_or_app; auto.
      * split; auto. apply in_or_app; cbn; auto.
    + intros u v. rewrite adj_del_edges, Hrem, (existsb_pairs c u v ND).
      unfold coveredb. rewrite existsb_app. cbn. rewrite orb_false_r, orb_false_iff. tauto.
    + intros i j a b Hi Hj Hij.
      apply nth_error_snoc in Hi. apply nth_error_snoc in Hj.
      destruct Hi as [[Li Hi]|[Ei ->]], Hj as [[Lj Hj]|[Ej ->]].
      * eapply Hdisj; eauto.
      * intros u v Ha Hb. specialize (Hacc u v Hb). apply Hrem in Hacc. destruct Hacc as [_ Hcov].
        rewrite coveredb_false in Hcov. apply (Hcov a); auto. eapply nth_error_In; eauto.
      * intros u v Ha Hb. specialize (Hacc u v Ha). apply Hrem in Hacc. destruct Hacc as [_ Hcov].
        rewrite coveredb_false in Hcov. apply (Hcov b); auto. eapply nth_error_In; eauto.
      * lia.
    + intros c0 H0 W0 L0. apply in_app_or in H0. destruct H0 as [H0|[<-|[]]].
      * destruct (Hmax c0 H0 W0 L0) as [c' [u [v [H1 H2]]]]. exists c', u, v. split; auto. apply in_or_app; auto.
      * destruct (inpair_exists c ND L0) as [u [v Huv]]. exists c, u, v.
        split; [apply in_or_app; cbn; auto|]. auto.
  - (* rejected: one of its pairs is already claimed by an earlier, hence not smaller, clique *)
    destruct (accepts_false _ _ ND A) as [u [v [Huv Hadj]]].
    constructor; auto.
    + intros c0 H0. destruct (Hsub _ H0). split; auto. apply in_or_app; auto.
    + intros c0 H0 W0 L0. apply in_app_or in H0. destruct H0 as [H0|[<-|[]]]; auto.
      assert (Hcov : coveredb (snd st) u v = true).
      { destruct (coveredb (snd st) u v) eqn:C; auto.
        assert (adj (fst st) u v = true) by (apply Hrem; split; auto). congruence. }
      apply coveredb_true in Hcov. destruct Hcov as [c' [Hc' Hp]].
      exists c', u, v. split; auto. split; auto. apply Hlen. apply Hsub; auto.
  - (* over the size limit: skipped *)
    constructor; auto.
    + intros c0 H0. destruct (Hsub _ H0). split; auto. apply in_or_app; auto.
    + intros c0 H0 W0 L0. apply in_app_or in H0. destruct H0 as [H0|[<-|[]]]; auto. congruence.
Qed.

Lemma fold_inv E ms : forall rest P st,
  desc (P ++ rest) -> cliques_of_edges E (P ++ rest) ->
  Inv E ms P st -> Inv E ms (P ++ rest) (fold_left (step ms) rest st).
Proof.
  induction rest as [|c rest IH]; intros P st S HC HI; cbn.
  - rewrite app_nil_r. auto.
  - replace (P ++ c :: rest) with ((P ++ [c]) ++ rest) in * by (rewrite <- app_assoc; reflexivity).
    apply IH; auto.
    assert (Hc : In c ((P ++ [c]) ++ rest)) by (apply in_or_app; left; apply in_or_app; cbn; auto).
    destruct (HC c Hc) as [ND Hadj].
    apply step_inv; auto.
    rewrite <- app_assoc in S. cbn in S. apply (desc_app_mid _ _ _ S).
Qed.

Theorem greedy_inv E ms order :
  desc order -> cliques_of_edges E order -> Inv E ms order (greedy ms E order).
Proof.
  intros S HC. unfold greedy. apply (fold_inv E ms order [] (E, [])); auto. apply Inv_init.
Qed.

(* ================================================================== 6. the labelling loop *)
Lemma labels_from_In cover : forall i e l,
  In (e, l) (labels_from i cover) <->
  exists k c, nth_error cover k = Some c /\ In e (pairs c) /\ l = (length c, c, i + k).
Proof.
  induction cover as [|c t IH]; intros i e l; cbn [labels_from].
  - split; [intros []|]. intros [k [c [H _]]]. destruct k; discriminate.
  - rewrite in_app_iff, in_map_iff, IH. split.
    + intros [[e0 [E He0]]|[k [c0 [Hk [He Hl]]]]].
      * inversion E; subst. exists 0, c. cbn. rewrite Nat.add_0_r. auto.
      * exists (S k), c0. cbn. rewrite Nat.add_succ_r. auto.
    + intros [k [c0 [Hk [He Hl]]]]. destruct k as [|k]; cbn in Hk.
      * inversion Hk; subst. left. exists e. rewrite Nat.add_0_r. auto.
      * right. exists k, c0. rewrite Nat.add_succ_r in Hl. auto.
Qed.

Lemma label_of_Some labs e l : label_of labs e = Some l -> exists e', In (e', l) labs /\ eqe e e' = true.
Proof.
  unfold label_of. destruct (find _ (rev labs)) as [p|] eqn:F; [|discriminate].
  intros H. inversion H; subst. apply find_some in F. destruct F as [Hin E].
  apply in_rev in Hin. exists (fst p). destruct p; auto.
Qed.

Lemma label_of_None labs e : label_of labs e = None -> forall e' l, In (e', l) labs -> eqe e e' = false.
Proof.
  unfold label_of. destruct (find _ (rev labs)) as [p|] eqn:F; [discriminate|].
  intros _ e' l Hin. apply (find_none _ _ F (e', l)). apply in_rev. rewrite rev_involutive. auto.
Qed.

(* ================================================================== 7. the specification of C10 *)
Definition CliqueP (g : graph) (c : list nat) : Prop :=
  NoDup c /\ (forall v, In v c -> In v (g_nodes g)) /\ (forall u v, inpair c u v -> adj (g_edges g) u v = true).

(* the row of the (undirected) edge {u,v} carries label l *)
Definition has_row (rows : list row) (u v : nat) (l : label) : Prop :=
  exists e, In (e, Some l) rows /\ eqe (u, v) e = true.

(* no loop, no undirected edge listed twice *)
Definition SimpleP (es : list edge) : Prop :=
  (forall e, In e es -> fst e <> snd e) /\ ForallOrdPairs (fun a b => eqe a b = false) es.

Definition Within (ms n : nat) : Prop := ms = 0 \/ n <= ms.

Record Spec (g : graph) (ms : nat) (o : obs) : Prop := {
  (* the graph is unchanged *)
  sp_nodes : forall v, In v (o_nodes o) <-> In v (g_nodes g);
  sp_nodes_nodup : NoDup (o_nodes o);
  sp_edges : forall u v, adj (map fst (o_rows o)) u v = adj (g_edges g) u v;
  sp_simple : SimpleP (map fst (o_rows o));
  (* every edge carries a label (one row per edge, one label per row: exactly one) *)
  sp_labelled : forall e, ~ In (e, None) (o_rows o);
  (* size = |members|, members distinct, size limit, rows sharing the label = all pairs of the member list *)
  sp_label : forall e l, In (e, Some l) (o_rows o) ->
      lab_size l = length (lab_mem l) /\ NoDup (lab_mem l) /\ (0 < ms -> lab_size l <= ms) /\
      (forall u v, has_row (o_rows o) u v l <-> inpair (lab_mem l) u v);
  (* ids are unique per clique *)
  sp_ids : forall e1 l1 e2 l2, In (e1, Some l1) (o_rows o) -> In (e2, Some l2) (o_rows o) ->
      lab_id l1 = lab_id l2 -> l1 = l2;
  (* greedy-maximality *)
  sp_greedy : forall K, CliqueP g K -> 2 <= length K -> Within ms (length K) ->
      exists u v l, inpair K u v /\ has_row (o_rows o) u v l /\ length K <= lab_size l
}.

Lemma within_spec ms n : within ms n = true <-> Within ms n.
Proof.
  unfold within, Within. rewrite negb_true_iff, andb_false_iff, !Nat.ltb_ge. lia.
Qed.

Lemma simpleb_spec es : simpleb es = true <-> SimpleP es.
Proof.
  unfold SimpleP. induction es as [|e t IH]; cbn.
  - split; auto. intros _. split; [tauto|constructor].
  - rewrite !andb_true_iff, !negb_true_iff, Nat.eqb_neq, existsb_false, IH. split.
    + intros [[H1 H2] [H3 H4]]. split.
      * intros x [<-|Hx]; auto.
      * constructor; auto. apply Forall_forall. auto.
    + intros [H1 H2]. inversion H2 as [|? ? F FO]; subst. rewrite Forall_forall in F.
      repeat split; auto.
Qed.

Lemma SimpleP_neq es u v : SimpleP es -> adj es u v = true -> u <> v.
Proof.
  intros [H _] A. apply adj_spec in A. destruct A as [e [He E]]. specialize (H e He).
  apply eqe_pair in E. destruct E as [->| ->]; cbn in H; auto.
Qed.

Lemma inpair_eqe c u v e : eqe (u, v) e = true -> (inpair c u v <-> inpair c (fst e) (snd e)).
Proof.
  intros E. apply eqe_pair in E. destruct E as [->| ->]; cbn; [tauto|]. split; apply inpair_sym.
Qed.

Lemma inpair_seteq a b u v : (forall x, In x a <-> In x b) -> (inpair a u v <-> inpair b u v).
Proof. intros H. unfold inpair. rewrite !H. tauto. Qed.

Lemma seteq_length (a b : list nat) : NoDup a -> NoDup b -> (forall x, In x a <-> In x b) -> length a = length b.
Proof. intros Ha Hb H. apply Permutation_length. apply NoDup_Permutation; auto. Qed.

Lemma In_adj es e : In e es -> adj es (fst e) (snd e) = true.
Proof. intros H. apply adj_spec. exists e. split; auto. destruct e; apply eqe_refl. Qed.

Definition ValidGraph (g : graph) : Prop :=
  NoDup (g_nodes g) /\ SimpleP (g_edges g) /\
  (forall e, In e (g_edges g) -> In (fst e) (g_nodes g) /\ In (snd e) (g_nodes g)).

Lemma valid_graph_spec g : valid_graph g = true <-> ValidGraph g.
Proof.
  unfold valid_graph, ValidGraph. rewrite !andb_true_iff, nodupb_NoDup, simpleb_spec, forallb_forall.
  split.
  - intros [[H1 H2] H3]. split; [auto|split; [auto|]]. intros e He. specialize (H3 e He).
    apply andb_true_iff in H3. rewrite !memb_In in H3. exact H3.
  - intros [H1 [H2 H3]]. split; [split; auto|]. intros e He. rewrite andb_true_iff, !memb_In. auto.
Qed.

(* the three facts about the processing order that the proof uses *)
Record GoodOrder (g : graph) (order : list (list nat)) : Prop := {
  go_cliques : forall c, In c order -> CliqueP g c;                       (* members are cliques *)
  go_all : forall K, CliqueP g K -> 2 <= length K ->                      (* all cliques present (as sets) *)
           exists c, In c order /\ forall x, In x c <-> In x K;
  go_sorted : desc order                                                  (* sorted by length, descending *)
}.

Section Core.
  Variable g : graph.
  Variable ms : nat.
  Variable order : list (list nat).
  Hypothesis Hg : ValidGraph g.
  Hypothesis Hms : ms = 0 \/ 2 <= ms.
  Hypothesis Hord : GoodOrder g order.

  Let E := g_edges g.
  Let st := greedy ms E order.
  Let cover := snd st.
  Let labs := labels_from 0 cover.

  Lemma core_inv : Inv E ms order st.
  Proof.
    apply greedy_inv; [apply (go_sorted _ _ Hord)|].
    intros c Hc. destruct (go_cliques _ _ Hord c Hc) as [ND [_ A]]. auto.
  Qed.

  Lemma cover_member c : In c cover -> CliqueP g c /\ Within ms (length c).
  Proof.
    intros Hc. destruct (inv_sub _ _ _ _ core_inv c Hc) as [H1 H2].
    split; [apply (go_cliques _ _ Hord); auto | apply within_spec; auto].
  Qed.

  (* every edge lies in an accepted clique ... *)
  Lemma cover_covers u v : adj E u v = true -> exists i c, nth_error cover i = Some c /\ inpair c u v.
  Proof.
    intros A. destruct Hg as [NDn [Simp Ends]].
    assert (Huv : u <> v) by (eapply SimpleP_neq; eauto).
    assert (HK : CliqueP g [u; v]).
    { split; [|split].
      - constructor; [cbn; intuition|constructor; [cbn; tauto|constructor]].
      - apply adj_spec in A. destruct A as [e [He Ee]]. destruct (Ends e He) as [E1 E2].
        apply eqe_pair in Ee. intros x [<-|[<-|[]]]; destruct Ee as [->| ->]; cbn in *; auto.
      - intros a b [Ha [Hb Hab]]. cbn in Ha, Hb. fold E.
        destruct Ha as [<-|[<-|[]]], Hb as [<-|[<-|[]]]; try congruence. rewrite adj_sym. auto. }
    destruct (go_all _ _ Hord [u; v] HK) as [c [Hc Hset]]; [cbn; lia|].
    destruct (go_cliques _ _ Hord c Hc) as [NDc _].
    assert (Lc : length c = 2).
    { rewrite (seteq_length c [u; v]); auto. destruct HK; auto. }
    destruct (inv_max _ _ _ _ core_inv c Hc) as [c' [a [b [Hc' [_ [Hab Hab']]]]]].
    { apply within_spec. unfold Within. lia. }
    { lia. }
    apply In_nth_error in Hc'. destruct Hc' as [i Hi]. exists i, c'. split; auto.
    apply (inpair_seteq _ _ a b Hset) in Hab. destruct Hab as [Ha [Hb Hn]]. cbn in Ha, Hb.
    destruct Ha as [<-|[<-|[]]], Hb as [<-|[<-|[]]]; try congruence. apply inpair_sym; auto.
  Qed.

  (* ... and in only one *)
  Lemma cover_unique i j a b u v :
    nth_error cover i = Some a -> nth_error cover j = Some b -> inpair a u v -> inpair b u v -> i = j /\ a = b.
  Proof.
    intros Hi Hj Ha Hb. destruct (Nat.eq_dec i j) as [->|N].
    - split; congruence.
    - exfalso. exact (inv_disj _ _ _ _ core_inv i j a b Hi Hj N u v Ha Hb).
  Qed.

  (* the label of an edge is the label of the accepted clique containing it *)
  Lemma label_char e : In e E ->
    exists i c, nth_error cover i = Some c /\ inpair c (fst e) (snd e) /\
                label_of labs e = Some (length c, c, i).
  Proof.
    intros He. pose proof (In_adj _ _ He) as A.
    destruct (cover_covers _ _ A) as [i [c [Hi Hp]]]. exists i, c. split; auto. split; auto.
    assert (Ee : eqe (fst e, snd e) e = true) by (destruct e; apply eqe_refl).
    destruct (label_of labs e) as [l|] eqn:L.
    - apply label_of_Some in L. destruct L as [e' [Hin E']].
      apply labels_from_In in Hin. destruct Hin as [k [c' [Hk [He' ->]]]]. cbn [Nat.add].
      assert (NDc' : NoDup c').
      { apply nth_error_In in Hk. destruct (cover_member _ Hk) as [[ND _] _]. auto. }
      pose proof (pairs_inpair _ _ NDc' He') as Hp'.
      assert (Hp'' : inpair c' (fst e) (snd e)).
      { assert (X : eqe (fst e, snd e) e' = true) by exact (eqe_trans _ _ _ Ee E').
        apply (proj2 (inpair_eqe c' (fst e) (snd e) e' X)). exact Hp'. }
      destruct (cover_unique _ _ _ _ _ _ Hi Hk Hp Hp'') as [-> ->]. reflexivity.
    - exfalso. destruct (pairs_complete _ _ _ Hp) as [e' [He' E']].
      assert (Hin : In (e', (length c, c, 0 + i)) labs).
      { apply labels_from_In. exists i, c. auto. }
      pose proof (label_of_None _ _ L _ _ Hin) as X.
      rewrite (eqe_trans _ _ _ (eq_trans (eqe_sym _ _) Ee) E') in X. discriminate.
  Qed.

  Lemma rows_In e ol : In (e, ol) (rows_of_cover g cover) <-> In e E /\ ol = label_of labs e.
  Proof.
    unfold rows_of_cover. fold labs. fold E. rewrite in_map_iff. split.
    - intros [x [Hx Hin]]. inversion Hx; subst. auto.
    - intros [H ->]. exists e. auto.
  Qed.

  Lemma rows_fst : map fst (rows_of_cover g cover) = E.
  Proof. unfold rows_of_cover. rewrite map_map. cbn. apply map_id. Qed.

  Lemma row_label e l : In (e, Some l) (rows_of_cover g cover) ->
    In e E /\ exists i c, nth_error cover i = Some c /\ inpair c (fst e) (snd e) /\ l = (length c, c, i).
  Proof.
    intros H. apply rows_In in H. destruct H as [He L]. split; auto.
    destruct (label_char e He) as [i [c [Hi [Hp L']]]]. exists i, c. split; auto. split; auto. congruence.
  Qed.

  Lemma adj_row u v : adj E u v = true ->
    exists e i c, In e E /\ eqe (u, v) e = true /\ nth_error cover i = Some c /\ inpair c u v /\
                  In (e, Some (length c, c, i)) (rows_of_cover g cover).
  Proof.
    intros A. apply adj_spec in A. destruct A as [e [He Ee]].
    destruct (label_char e He) as [i [c [Hi [Hp L]]]]. exists e, i, c.
    split; [auto|]. split; [auto|]. split; [auto|]. split.
    - apply (proj2 (inpair_eqe c u v e Ee)). exact Hp.
    - apply rows_In. auto.
  Qed.

  Theorem core_spec : Spec g ms (mpcc_core g ms order).
  Proof.
    unfold mpcc_core, mpcc_cover. fold E. fold st. fold cover.
    destruct Hg as [NDn [Simp Ends]].
    constructor; cbn [o_nodes o_rows].
    - tauto.
    - auto.
    - rewrite rows_fst. reflexivity.
    - rewrite rows_fst. auto.
    - intros e H. apply rows_In in H. destruct H as [He L].
      destruct (label_char e He) as [i [c [_ [_ L']]]]. congruence.
    - intros e l H. destruct (row_label _ _ H) as [He [i [c [Hi [Hp ->]]]]].
      unfold lab_size, lab_mem. cbn [fst snd].
      pose proof (nth_error_In _ _ Hi) as Hc. destruct (cover_member c Hc) as [[NDc [Vc Ac]] Wc].
      split; [reflexivity|]. split; [auto|]. split; [unfold Within in Wc; lia|].
      intros u v. split.
      + intros [e2 [H2 E2]]. destruct (row_label _ _ H2) as [He2 [i2 [c2 [Hi2 [Hp2 X]]]]].
        inversion X; subst. apply (inpair_eqe c2 u v e2); auto.
      + intros Huv. destruct (adj_row u v (Ac u v Huv)) as [e2 [i2 [c2 [He2 [E2 [Hi2 [Hp2 R2]]]]]]].
        destruct (cover_unique _ _ _ _ _ _ Hi Hi2 Huv Hp2) as [-> ->]. exists e2. auto.
    - intros e1 l1 e2 l2 H1 H2 Hid.
      destruct (row_label _ _ H1) as [_ [i1 [c1 [Hi1 [_ ->]]]]].
      destruct (row_label _ _ H2) as [_ [i2 [c2 [Hi2 [_ ->]]]]].
      unfold lab_id in Hid. cbn in Hid. subst i2. congruence.
    - intros K HK LK WK. destruct (go_all _ _ Hord K HK LK) as [c [Hc Hset]].
      destruct (go_cliques _ _ Hord c Hc) as [NDc _]. destruct HK as [NDK [VK AK]].
      assert (Lc : length c = length K) by (apply seteq_length; auto).
      destruct (inv_max _ _ _ _ core_inv c Hc) as [c' [u [v [Hc' [Hlen [Hp Hp']]]]]].
      { apply within_spec. rewrite Lc. auto. }
      { lia. }
      apply (inpair_seteq _ _ u v Hset) in Hp.
      apply In_nth_error in Hc'. destruct Hc' as [i' Hi'].
      destruct (adj_row u v (AK u v Hp)) as [e2 [i2 [c2 [He2 [E2 [Hi2 [Hp2 R2]]]]]]].
      destruct (cover_unique _ _ _ _ _ _ Hi' Hi2 Hp' Hp2) as [-> ->].
      exists u, v, (length c2, c2, i2). split; auto. split; [exists e2; auto|].
      unfold lab_size. cbn. lia.
  Qed.

  (* stand-alone facts about the cover *)
  Theorem cover_disjoint i j a b :
    nth_error cover i = Some a -> nth_error cover j = Some b -> i <> j -> edge_disjoint a b.
  Proof. apply (inv_disj _ _ _ _ core_inv). Qed.

  Theorem cover_exact u v : adj E u v = true ->
    exists i c, nth_error cover i = Some c /\ inpair c u v /\
      forall j b, nth_error cover j = Some b -> inpair b u v -> j = i /\ b = c.
  Proof.
    intros A. destruct (cover_covers u v A) as [i [c [Hi Hp]]]. exists i, c. split; auto. split; auto.
    intros j b Hj Hb. destruct (cover_unique _ _ _ _ _ _ Hi Hj Hp Hb). auto.
  Qed.

  (* greedy-maximality on the cover: every clique within the limit shares an edge with an accepted clique
     at least as large *)
  Theorem cover_greedy K : CliqueP g K -> 2 <= length K -> Within ms (length K) ->
    exists c' u v, In c' cover /\ inpair K u v /\ inpair c' u v /\ length K <= length c'.
  Proof.
    clear Hms. intros HK LK WK. destruct (go_all _ _ Hord K HK LK) as [c [Hc Hset]].
    destruct (go_cliques _ _ Hord c Hc) as [NDc _]. destruct HK as [NDK _].
    assert (Lc : length c = length K) by (apply seteq_length; auto).
    destruct (inv_max _ _ _ _ core_inv c Hc) as [c' [u [v [Hc' [Hlen [Hp Hp']]]]]].
    { apply within_spec. rewrite Lc. auto. }
    { lia. }
    exists c', u, v. split; auto. split; [apply (proj1 (inpair_seteq _ _ u v Hset)); auto|]. split; auto. lia.
  Qed.

  (* the working copy ends up without edges *)
  Theorem working_copy_empty u v : adj (fst st) u v = false.
  Proof.
    destruct (adj (fst st) u v) eqn:A; auto. exfalso.
    apply (inv_rem _ _ _ _ core_inv) in A. destruct A as [A C].
    destruct (cover_covers u v A) as [i [c [Hi Hp]]].
    rewrite coveredb_false in C. apply (C c); auto. eapply nth_error_In; eauto.
  Qed.
End Core.

(* ================================================================== 8. the clique enumeration and the schedule *)
Lemma is_cliqueb_spec g c : is_cliqueb g c = true <-> CliqueP g c.
Proof.
  unfold is_cliqueb, CliqueP. rewrite !andb_true_iff, nodupb_NoDup, forallb_forall. split.
  - intros [[ND V] A]. split; auto. split.
    + intros v Hv. apply memb_In. auto.
    + apply (accepts_spec (g_edges g) c ND). exact A.
  - intros [ND [V A]]. split; [split; auto|].
    + intros v Hv. apply memb_In. auto.
    + apply (accepts_spec (g_edges g) c ND). exact A.
Qed.

Lemma cliques_on_sound es : forall vs c, NoDup vs -> In c (cliques_on es vs) ->
  NoDup c /\ (forall x, In x c -> In x vs) /\ (forall u v, inpair c u v -> adj es u v = true).
Proof.
  induction vs as [|x t IH]; intros c ND Hc; cbn in Hc.
  - destruct Hc as [<-|[]]. split; [constructor|]. split; [tauto|]. intros u v [[] _].
  - inversion ND as [|? ? Hx NDt]; subst. apply in_app_or in Hc. destruct Hc as [Hc|Hc].
    + apply in_map_iff in Hc. destruct Hc as [c0 [<- Hc0]]. apply filter_In in Hc0.
      destruct Hc0 as [Hc0 Fa]. rewrite forallb_forall in Fa.
      destruct (IH c0 NDt Hc0) as [ND0 [V0 A0]]. split; [|split].
      * constructor; auto.
      * intros y [<-|Hy]; cbn; auto.
      * intros u v [Hu [Hv Hn]]. cbn in Hu, Hv.
        destruct Hu as [<-|Hu], Hv as [<-|Hv]; try congruence; auto.
        -- rewrite adj_sym. auto.
        -- apply A0. split; auto.
    + destruct (IH c NDt Hc) as [ND0 [V0 A0]]. split; auto. split; auto. intros y Hy. cbn. auto.
Qed.

Lemma cliques_on_complete es K : (forall u v, inpair K u v -> adj es u v = true) ->
  forall vs, NoDup vs -> In (filter (fun x => memb x K) vs) (cliques_on es vs).
Proof.
  intros A. induction vs as [|x t IH]; intros ND; cbn; auto.
  inversion ND as [|? ? Hx NDt]; subst. apply in_or_app.
  destruct (memb x K) eqn:M.
  - left. apply in_map. apply filter_In. split; auto.
    apply forallb_forall. intros y Hy. apply filter_In in Hy. destruct Hy as [Hy My].
    apply A. split; [apply memb_In; auto|]. split; [apply memb_In; auto|]. intros ->. contradiction.
  - right. auto.
Qed.

Lemma filter_memb_seteq K vs : (forall x, In x K -> In x vs) ->
  forall x, In x (filter (fun y => memb y K) vs) <-> In x K.
Proof.
  intros H x. rewrite filter_In, memb_In. split; [tauto|]. intros Hx. auto.
Qed.

(* every clique of g has its set in the model's enumeration *)
Lemma all_cliques_complete g K : ValidGraph g -> CliqueP g K -> K <> [] ->
  exists k, In k (all_cliques g) /\ NoDup k /\ forall x, In x k <-> In x K.
Proof.
  intros [NDn _] [NDK [VK AK]] NE. exists (filter (fun y => memb y K) (g_nodes g)).
  pose proof (filter_memb_seteq K (g_nodes g) VK) as Hset.
  split; [|split; auto].
  - unfold all_cliques. apply filter_In. split; [apply cliques_on_complete; auto|].
    unfold nonemptyb. apply negb_true_iff, Nat.eqb_neq.
    destruct K as [|a K']; [congruence|]. intros L. apply length_zero_iff_nil in L.
    assert (In a (filter (fun y => memb y (a :: K')) (g_nodes g))) by (apply Hset; cbn; auto).
    rewrite L in H. inversion H.
  - apply NoDup_filter. auto.
Qed.

Lemma all_cliques_sound g k : ValidGraph g -> In k (all_cliques g) -> CliqueP g k /\ k <> [].
Proof.
  intros [NDn _] H. unfold all_cliques in H. apply filter_In in H. destruct H as [H NE].
  split; [apply (cliques_on_sound _ _ _ NDn H)|].
  intros ->. discriminate.
Qed.

Lemma set_eqb_spec a b : set_eqb a b = true <-> forall x, In x a <-> In x b.
Proof.
  unfold set_eqb. rewrite andb_true_iff, !forallb_forall. split.
  - intros [H1 H2] x. split; intros Hx; apply memb_In; auto.
  - intros H. split; intros x Hx; apply memb_In; apply H; auto.
Qed.

(* a valid schedule, once sorted, has the three properties the invariant proof needs *)
Theorem valid_sched_good g sh : ValidGraph g -> valid_sched g sh = true -> GoodOrder g (mpcc_order sh).
Proof.
  intros Hg V. unfold valid_sched in V. apply andb_true_iff in V. destruct V as [V _].
  apply andb_true_iff in V. destruct V as [V1 V2]. rewrite forallb_forall in V1, V2.
  unfold mpcc_order. constructor.
  - intros c Hc. apply (proj1 (sort_desc_In _ _)) in Hc. specialize (V1 c Hc). apply andb_true_iff in V1.
    apply is_cliqueb_spec. tauto.
  - intros K HK LK. destruct (all_cliques_complete g K Hg HK) as [k [Hk [NDk Hset]]].
    { intros ->. cbn in LK. lia. }
    specialize (V2 k Hk). apply existsb_exists in V2. destruct V2 as [c [Hc S]].
    rewrite set_eqb_spec in S. exists c. split; [apply (proj2 (sort_desc_In _ _)); auto|].
    intros x. rewrite <- Hset. symmetry. apply S.
  - apply sort_desc_sorted.
Qed.

(* the model's own enumeration is a valid schedule (and so is any arrangement the validator accepts) *)
Lemma set_eqb_refl a : set_eqb a a = true.
Proof. apply set_eqb_spec. tauto. Qed.

Theorem own_enumeration_valid g : ValidGraph g -> valid_sched g (all_cliques g) = true.
Proof.
  intros Hg. unfold valid_sched. rewrite !andb_true_iff, Nat.eqb_refl, !forallb_forall. split; [split|]; auto.
  - intros c Hc. destruct (all_cliques_sound g c Hg Hc) as [HC NE]. apply andb_true_iff. split.
    + apply is_cliqueb_spec. auto.
    + unfold nonemptyb. apply negb_true_iff, Nat.eqb_neq. intros L. apply length_zero_iff_nil in L. auto.
  - intros k Hk. apply existsb_exists. exists k. split; auto. apply set_eqb_refl.
Qed.

(* validity of a schedule only depends on it as a multiset: every permutation the shuffle can return is valid *)
Theorem valid_sched_perm g sh sh' : Permutation sh sh' -> valid_sched g sh = valid_sched g sh'.
Proof.
  intros P. unfold valid_sched. rewrite (Permutation_length P). f_equal. f_equal.
  - apply bool_eq_iff. rewrite !forallb_forall. split; intros H c Hc; apply H.
    + eapply Permutation_in; [symmetry; exact P|auto].
    + eapply Permutation_in; [exact P|auto].
  - apply bool_eq_iff. rewrite !forallb_forall.
    split; intros H k Hk; specialize (H k Hk); rewrite existsb_exists in *;
      destruct H as [c [Hc S]]; exists c; split; auto.
    + eapply Permutation_in; [exact P|auto].
    + eapply Permutation_in; [symmetry; exact P|auto].
Qed.

(* ================================================================== 9. the property theorem for the model *)
Theorem mpcc_spec g ms sh :
  valid_graph g = true -> (ms = 0 \/ 2 <= ms) -> valid_sched g sh = true -> Spec g ms (mpcc g ms sh).
Proof.
  intros Hg Hms V. apply valid_graph_spec in Hg. unfold mpcc.
  apply core_spec; auto. apply valid_sched_good; auto.
Qed.

(* ================================================================== 10. the checker decides the specification *)
Lemma adj_incl A B :
  forallb (fun e => adj B (fst e) (snd e)) A = true <-> forall u v, adj A u v = true -> adj B u v = true.
Proof.
  rewrite forallb_forall. split.
  - intros H u v Auv. apply adj_spec in Auv. destruct Auv as [e [He E]]. specialize (H e He).
    pose proof (adj_eqe B (u, v) e E) as X. cbn in X. rewrite X. exact H.
  - intros H e He. apply H. apply In_adj; auto.
Qed.

Lemma ck_nodes_spec g o :
  ck_nodes g o = true <-> (forall v, In v (o_nodes o) <-> In v (g_nodes g)) /\ NoDup (o_nodes o).
Proof.
  unfold ck_nodes. rewrite !andb_true_iff, !forallb_forall, nodupb_NoDup. split.
  - intros [[H1 H2] H3]. split; auto. intros v. split; intros Hv; apply memb_In; auto.
  - intros [H1 H2]. split; auto. split; intros v Hv; apply memb_In; apply H1; auto.
Qed.

Lemma ck_edges_spec g o :
  ck_edges g o = true <->
  (forall u v, adj (map fst (o_rows o)) u v = adj (g_edges g) u v) /\ SimpleP (map fst (o_rows o)).
Proof.
  unfold ck_edges. cbv zeta. rewrite !andb_true_iff, !adj_incl, simpleb_spec. split.
  - intros [[H1 H2] H3]. split; auto. intros u v. apply bool_eq_iff. split; auto.
  - intros [H S]. split; auto. split; intros u v; rewrite H; auto.
Qed.

Lemma ck_labelled_spec o : ck_labelled o = true <-> forall e, ~ In (e, None) (o_rows o).
Proof.
  unfold ck_labelled. rewrite forallb_forall. split.
  - intros H e Hin. specialize (H _ Hin). cbn in H. discriminate.
  - intros H [e [l|]] Hin; cbn; auto. exfalso. eapply H; eauto.
Qed.

Lemma has_label_spec l r : has_label l r = true <-> snd r = Some l.
Proof.
  unfold has_label. destruct (snd r) as [l'|].
  - rewrite label_eqb_eq. split; congruence.
  - split; discriminate.
Qed.

Lemma ck_label_spec ms rows l :
  ck_label ms rows l = true <->
  lab_size l = length (lab_mem l) /\ NoDup (lab_mem l) /\ (0 < ms -> lab_size l <= ms) /\
  (forall u v, has_row rows u v l <-> inpair (lab_mem l) u v).
Proof.
  unfold ck_label.
  rewrite !andb_true_iff, Nat.eqb_eq, nodupb_NoDup, orb_true_iff, Nat.eqb_eq, Nat.leb_le, !forallb_forall.
  split.
  - intros [[[[H1 H2] H3] H4] H5]. split; auto. split; auto. split; [lia|]. intros u v. split.
    + intros [e [Hin E]]. specialize (H5 (e, Some l) Hin).
      assert (X : has_label l (e, Some l) = true) by (apply has_label_spec; reflexivity).
      rewrite X in H5. cbn in H5. apply inpairb_spec in H5.
      apply (proj2 (inpair_eqe _ u v e E)). exact H5.
    + intros Huv. destruct (pairs_complete _ _ _ Huv) as [p [Hp E]]. specialize (H4 p Hp).
      apply existsb_exists in H4. destruct H4 as [r [Hr X]]. apply andb_true_iff in X.
      destruct X as [X1 X2]. apply has_label_spec in X1. destruct r as [e ol]. cbn in X1, X2. subst ol.
      exists e. split; auto. eapply eqe_trans; [exact E|]. rewrite eqe_sym. exact X2.
  - intros [H1 [H2 [H3 H4]]]. split; [split; [split; [split|]|]|]; auto.
    + destruct ms; [left; auto|right; apply H3; lia].
    + intros p Hp. pose proof (pairs_inpair _ _ H2 Hp) as Hpp. apply H4 in Hpp.
      destruct Hpp as [e [Hin E]]. apply existsb_exists. exists (e, Some l). split; auto.
      apply andb_true_iff. split; [apply has_label_spec; reflexivity|]. cbn.
      rewrite eqe_sym. destruct p; exact E.
    + intros r Hr. destruct (has_label l r) eqn:X; auto. apply has_label_spec in X.
      destruct r as [e ol]. cbn in X. subst ol. cbn. apply inpairb_spec. apply H4.
      exists e. split; auto. destruct e; apply eqe_refl.
Qed.

Lemma ck_labels_spec ms o :
  ck_labels ms o = true <->
  forall e l, In (e, Some l) (o_rows o) ->
    lab_size l = length (lab_mem l) /\ NoDup (lab_mem l) /\ (0 < ms -> lab_size l <= ms) /\
    (forall u v, has_row (o_rows o) u v l <-> inpair (lab_mem l) u v).
Proof.
  unfold ck_labels. rewrite forallb_forall. split.
  - intros H e l Hin. specialize (H _ Hin). cbn in H. apply ck_label_spec. exact H.
  - intros H [e [l|]] Hin; cbn; auto. apply ck_label_spec. eauto.
Qed.

Lemma ck_ids_spec o :
  ck_ids o = true <->
  forall e1 l1 e2 l2, In (e1, Some l1) (o_rows o) -> In (e2, Some l2) (o_rows o) ->
    lab_id l1 = lab_id l2 -> l1 = l2.
Proof.
  unfold ck_ids. rewrite forallb_forall. split.
  - intros H e1 l1 e2 l2 H1 H2 Hid. specialize (H _ H1). rewrite forallb_forall in H.
    specialize (H _ H2). cbn in H. rewrite Hid, Nat.eqb_refl in H. apply label_eqb_eq. exact H.
  - intros H [e1 [l1|]] H1; apply forallb_forall; intros [e2 [l2|]] H2; cbn; auto.
    destruct (Nat.eqb (lab_id l1) (lab_id l2)) eqn:X; auto. apply Nat.eqb_eq in X.
    apply label_eqb_eq. eapply H; eauto.
Qed.

Lemma ck_greedy_spec g ms o : ValidGraph g ->
  (ck_greedy g ms o = true <->
   forall K, CliqueP g K -> 2 <= length K -> Within ms (length K) ->
     exists u v l, inpair K u v /\ has_row (o_rows o) u v l /\ length K <= lab_size l).
Proof.
  intros [NDn _]. unfold ck_greedy. rewrite forallb_forall. split.
  - intros H K [NDK [VK AK]] LK WK.
    set (K' := filter (fun y => memb y K) (g_nodes g)).
    pose proof (filter_memb_seteq K (g_nodes g) VK) as Hset. fold K' in Hset.
    assert (HK' : In K' (cliques_on (g_edges g) (g_nodes g))) by (apply cliques_on_complete; auto).
    assert (LK' : length K' = length K) by (apply seteq_length; auto; apply NoDup_filter; auto).
    specialize (H K' HK'). rewrite LK' in H.
    assert (C : Nat.leb 2 (length K) && within ms (length K) = true).
    { apply andb_true_iff. split; [apply Nat.leb_le; auto|apply within_spec; auto]. }
    rewrite C in H. apply existsb_exists in H. destruct H as [[e [l|]] [Hr X]]; cbn in X; [|discriminate].
    apply andb_true_iff in X. destruct X as [X1 X2]. apply inpairb_spec in X1. apply Nat.leb_le in X2.
    exists (fst e), (snd e), l. split; [apply (proj1 (inpair_seteq K' K _ _ Hset)); auto|]. split; auto.
    exists e. split; auto. destruct e; apply eqe_refl.
  - intros H K HK. destruct (cliques_on_sound _ _ _ NDn HK) as [NDK [VK AK]].
    destruct (Nat.leb 2 (length K) && within ms (length K)) eqn:C; auto.
    apply andb_true_iff in C. destruct C as [C1 C2]. apply Nat.leb_le in C1. apply within_spec in C2.
    destruct (H K) as [u [v [l [Huv [[e [Hin E]] Hl]]]]]; auto.
    { split; auto. }
    apply existsb_exists. exists (e, Some l). split; auto. cbn.
    apply andb_true_iff. split; [|apply Nat.leb_le; auto].
    apply inpairb_spec. apply (proj1 (inpair_eqe K u v e E)). exact Huv.
Qed.

Theorem check_spec g ms o : valid_graph g = true -> (check g ms o = true <-> Spec g ms o).
Proof.
  intros Hg. apply valid_graph_spec in Hg. unfold check.
  rewrite !andb_true_iff, ck_nodes_spec, ck_edges_spec, ck_labelled_spec, ck_labels_spec, ck_ids_spec,
    (ck_greedy_spec g ms o Hg).
  split.
  - intros [[[[[[N1 N2] [E1 E2]] Lb] Ls] Id] Gr]. constructor; auto.
  - intros [N1 N2 E1 E2 Lb Ls Id Gr].
    split; [|exact Gr]. split; [|exact Id]. split; [|exact Ls]. split; [|exact Lb].
    split; split; assumption.
Qed.

(* the model's output passes the checker, for all valid inputs and all schedules *)
Theorem mpcc_check g ms sh :
  valid_graph g = true -> (ms = 0 \/ 2 <= ms) -> valid_sched g sh = true -> check g ms (mpcc g ms sh) = true.
Proof. intros Hg Hms V. apply (check_spec g ms _ Hg). apply mpcc_spec; auto. Qed.

(* ================================================================== 11. corollaries in the vocabulary of the property *)
(* the caller's graph is returned with the same vertices and the same edges, whatever the inputs *)
Theorem mpcc_graph_unchanged g ms sh :
  o_nodes (mpcc g ms sh) = g_nodes g /\ map fst (o_rows (mpcc g ms sh)) = g_edges g.
Proof.
  split; [reflexivity|]. unfold mpcc, mpcc_core, rows_of_cover. cbn [o_rows]. rewrite map_map. cbn. apply map_id.
Qed.

(* every outcome of shuffling the model's own enumeration is a valid schedule *)
Theorem perm_enumeration_valid g sh :
  valid_graph g = true -> Permutation sh (all_cliques g) -> valid_sched g sh = true.
Proof.
  intros Hg P. rewrite (valid_sched_perm g sh (all_cliques g) P). apply own_enumeration_valid.
  apply valid_graph_spec; auto.
Qed.

Theorem mpcc_spec_all_shuffles g ms sh :
  valid_graph g = true -> (ms = 0 \/ 2 <= ms) -> Permutation sh (all_cliques g) -> Spec g ms (mpcc g ms sh).
Proof. intros Hg Hms P. apply mpcc_spec; auto. apply perm_enumeration_valid; auto. Qed.

Section Cover.
  Variable g : graph.
  Variable ms : nat.
  Variable sh : list (list nat).
  Hypothesis Hg : valid_graph g = true.
  Hypothesis Hms : ms = 0 \/ 2 <= ms.
  Hypothesis Hsh : valid_sched g sh = true.
  Let cover := mpcc_cover g ms (mpcc_order sh).

  Lemma sched_good : GoodOrder g (mpcc_order sh).
  Proof. apply valid_sched_good; auto. apply valid_graph_spec; auto. Qed.

  (* accepted entries are cliques of g within the size limit *)
  Theorem mpcc_cover_cliques c : In c cover -> CliqueP g c /\ Within ms (length c).
  Proof. apply (cover_member g ms _ sched_good). Qed.

  (* accepted cliques are pairwise edge-disjoint *)
  Theorem mpcc_cover_disjoint i j a b :
    nth_error cover i = Some a -> nth_error cover j = Some b -> i <> j -> edge_disjoint a b.
  Proof. apply (cover_disjoint g ms _ sched_good). Qed.

  (* every edge of g lies in exactly one accepted clique *)
  Theorem mpcc_cover_exact u v : adj (g_edges g) u v = true ->
    exists i c, nth_error cover i = Some c /\ inpair c u v /\
      forall j b, nth_error cover j = Some b -> inpair b u v -> j = i /\ b = c.
  Proof. apply (cover_exact g ms _ (proj1 (valid_graph_spec g) Hg) Hms sched_good). Qed.

  (* greedy-maximality *)
  Theorem mpcc_cover_greedy K : CliqueP g K -> 2 <= length K -> Within ms (length K) ->
    exists c' u v, In c' cover /\ inpair K u v /\ inpair c' u v /\ length K <= length c'.
  Proof. apply (cover_greedy g ms _ sched_good). Qed.

  (* every edge of the working copy has been claimed when the loop ends *)
  Theorem mpcc_working_copy_empty u v : adj (fst (greedy ms (g_edges g) (mpcc_order sh))) u v = false.
  Proof. apply (working_copy_empty g ms _ (proj1 (valid_graph_spec g) Hg) Hms sched_good). Qed.
End Cover.

(* ================================================================== 12. what any labelling accepted by the checker enjoys *)
Lemma SimpleP_tail e t : SimpleP (e :: t) -> SimpleP t.
Proof.
  intros [H1 H2]. inversion H2; subst. split; auto. intros x Hx. apply H1. cbn; auto.
Qed.

Lemma simple_rows_unique (rows : list row) ea x eb y :
  SimpleP (map fst rows) -> In (ea, x) rows -> In (eb, y) rows -> eqe ea eb = true -> (ea, x) = (eb, y).
Proof.
  induction rows as [|r t IH]; cbn [map]; intros S Ha Hb E; [inversion Ha|].
  pose proof (SimpleP_tail _ _ S) as St. destruct S as [_ FO]. inversion FO as [|? ? F _]; subst.
  rewrite Forall_forall in F.
  destruct Ha as [Ha|Ha], Hb as [Hb|Hb].
  - congruence.
  - subst r. cbn in F. assert (X : eqe ea eb = false) by (apply F; apply in_map_iff; exists (eb, y); auto).
    congruence.
  - subst r. cbn in F. assert (X : eqe eb ea = false) by (apply F; apply in_map_iff; exists (ea, x); auto).
    rewrite eqe_sym in X. congruence.
  - auto.
Qed.

Lemma inpair_length c u v : inpair c u v -> 2 <= length c.
Proof.
  intros [Hu [Hv Hn]]. destruct c as [|a [|b t]]; cbn in *; try tauto; try lia.
Qed.

Section SpecFacts.
  Variable g : graph.
  Variable ms : nat.
  Variable o : obs.
  Hypothesis Hg : ValidGraph g.
  Hypothesis S : Spec g ms o.
  Let rows := o_rows o.

  (* an edge carries one label only *)
  Lemma spec_row_unique u v l1 l2 : has_row rows u v l1 -> has_row rows u v l2 -> l1 = l2.
  Proof.
    intros [e1 [H1 E1]] [e2 [H2 E2]].
    assert (E : eqe e1 e2 = true) by (eapply eqe_trans; [rewrite eqe_sym; exact E1|exact E2]).
    pose proof (simple_rows_unique rows _ _ _ _ (sp_simple _ _ _ S) H1 H2 E) as X. congruence.
  Qed.

  (* every edge of g carries exactly one label *)
  Theorem spec_edge_label u v : adj (g_edges g) u v = true ->
    exists l, has_row rows u v l /\ forall l', has_row rows u v l' -> l' = l.
  Proof.
    intros A. rewrite <- (sp_edges _ _ _ S) in A. apply adj_spec in A. destruct A as [e [He E]].
    apply in_map_iff in He. destruct He as [[e' ol] [<- Hr]]. cbn in E.
    destruct ol as [l|]; [|exfalso; exact (sp_labelled _ _ _ S _ Hr)].
    exists l. split; [exists e'; auto|]. intros l' H'. eapply spec_row_unique; eauto. exists e'; auto.
  Qed.

  Lemma spec_label_big e l : In (e, Some l) rows ->
    inpair (lab_mem l) (fst e) (snd e) /\ 2 <= length (lab_mem l).
  Proof.
    intros H. destruct (sp_label _ _ _ S e l H) as [_ [_ [_ R]]].
    assert (P : inpair (lab_mem l) (fst e) (snd e)).
    { apply R. exists e. split; auto. destruct e; apply eqe_refl. }
    split; auto. eapply inpair_length; eauto.
  Qed.

  Lemma spec_has_row_adj u v l : has_row rows u v l -> adj (g_edges g) u v = true.
  Proof.
    intros [e [H E]]. rewrite <- (sp_edges _ _ _ S). apply adj_spec. exists e. split; auto.
    apply in_map_iff. exists (e, Some l). auto.
  Qed.

  (* the member list of every label is a clique of g *)
  Theorem spec_label_clique e l : In (e, Some l) rows -> CliqueP g (lab_mem l).
  Proof.
    intros H. destruct (sp_label _ _ _ S e l H) as [_ [ND [_ R]]].
    destruct (spec_label_big e l H) as [[Hu [Hv Hn]] _].
    assert (Adj : forall a b, inpair (lab_mem l) a b -> adj (g_edges g) a b = true).
    { intros a b Hab. apply (spec_has_row_adj a b l). apply R. exact Hab. }
    split; auto. split; auto.
    intros x Hx. destruct Hg as [_ [_ Ends]].
    assert (exists y, inpair (lab_mem l) x y) as [y Hxy].
    { destruct (Nat.eq_dec x (fst e)) as [->|N]; [exists (snd e)|exists (fst e)]; split; auto. }
    pose proof (Adj x y Hxy) as A. apply adj_spec in A. destruct A as [e' [He' E']].
    destruct (Ends e' He') as [E1 E2]. apply eqe_pair in E'. destruct E' as [->| ->]; cbn in *; auto.
  Qed.

  (* two different labels are edge-disjoint cliques: the labels partition the edges *)
  Theorem spec_labels_disjoint e1 l1 e2 l2 :
    In (e1, Some l1) rows -> In (e2, Some l2) rows -> l1 <> l2 ->
    forall u v, inpair (lab_mem l1) u v -> ~ inpair (lab_mem l2) u v.
  Proof.
    intros H1 H2 N u v P1 P2.
    destruct (sp_label _ _ _ S e1 l1 H1) as [_ [_ [_ R1]]].
    destruct (sp_label _ _ _ S e2 l2 H2) as [_ [_ [_ R2]]].
    apply N. apply (spec_row_unique u v); [apply R1|apply R2]; auto.
  Qed.

  (* a clique has one id only *)
  Theorem spec_one_id_per_clique e1 l1 e2 l2 :
    In (e1, Some l1) rows -> In (e2, Some l2) rows ->
    (forall x, In x (lab_mem l1) <-> In x (lab_mem l2)) -> l1 = l2.
  Proof.
    intros H1 H2 Hset.
    destruct (sp_label _ _ _ S e1 l1 H1) as [_ [_ [_ R1]]].
    destruct (sp_label _ _ _ S e2 l2 H2) as [_ [_ [_ R2]]].
    destruct (spec_label_big e1 l1 H1) as [P _].
    apply (spec_row_unique (fst e1) (snd e1)); [apply R1; auto|apply R2].
    apply (proj1 (inpair_seteq _ _ _ _ Hset)). exact P.
  Qed.
End SpecFacts.

(* ================================================================== 13. a valid schedule IS an arrangement of the enumeration *)
Definition seteq (a b : list nat) : Prop := forall x, In x a <-> In x b.

Lemma seteq_sym a b : seteq a b -> seteq b a.
Proof. unfold seteq. intros H x. symmetry. auto. Qed.
Lemma seteq_trans a b c : seteq a b -> seteq b c -> seteq a c.
Proof. unfold seteq. intros H1 H2 x. rewrite H1. auto. Qed.

Lemma FOP_app {A} (R : A -> A -> Prop) l1 l2 :
  ForallOrdPairs R l1 -> ForallOrdPairs R l2 -> (forall a b, In a l1 -> In b l2 -> R a b) ->
  ForallOrdPairs R (l1 ++ l2).
Proof.
  induction l1 as [|x l1 IH]; cbn; intros H1 H2 H; auto.
  inversion H1 as [|? ? F FO]; subst. constructor.
  - apply Forall_app. split; auto. apply Forall_forall. intros b Hb. apply H; cbn; auto.
  - apply IH; auto; intros a b Ha Hb; apply H; cbn; auto.
Qed.

Lemma FOP_filter {A} (R : A -> A -> Prop) (p : A -> bool) l :
  ForallOrdPairs R l -> ForallOrdPairs R (filter p l).
Proof.
  induction l as [|x l IH]; cbn; intros H; auto. inversion H as [|? ? F FO]; subst.
  destruct (p x); auto. constructor; auto.
  rewrite Forall_forall in *. intros b Hb. apply filter_In in Hb. apply F. tauto.
Qed.

Lemma FOP_map_in {A B} (R : A -> A -> Prop) (R' : B -> B -> Prop) (f : A -> B) l :
  (forall a b, In a l -> In b l -> R a b -> R' (f a) (f b)) ->
  ForallOrdPairs R l -> ForallOrdPairs R' (map f l).
Proof.
  induction l as [|x l IH]; cbn; intros H FO; [constructor|].
  inversion FO as [|? ? F FO']; subst. constructor.
  - rewrite Forall_forall in *. intros b Hb. apply in_map_iff in Hb. destruct Hb as [b0 [<- Hb0]].
    apply H; cbn; auto.
  - apply IH; auto; intros a b Ha Hb; apply H; cbn; auto.
Qed.

Lemma cliques_on_distinct es : forall vs, NoDup vs ->
  ForallOrdPairs (fun a b => ~ seteq a b) (cliques_on es vs).
Proof.
  induction vs as [|v t IH]; intros ND; cbn.
  - constructor; [constructor|constructor].
  - inversion ND as [|? ? Hv NDt]; subst. specialize (IH NDt).
    assert (Sub : forall c, In c (cliques_on es t) -> ~ In v c).
    { intros c Hc Hin. destruct (cliques_on_sound es t c NDt Hc) as [_ [V _]]. apply Hv. auto. }
    apply FOP_app; auto.
    + apply (FOP_map_in (fun a b => ~ seteq a b)); [|apply FOP_filter; auto].
      intros a b Ha Hb N S. apply N. apply filter_In in Ha. apply filter_In in Hb.
      intros x. split; intros Hx.
      * assert (In x (v :: b)) by (apply S; cbn; auto). destruct H as [<-|H]; auto.
        exfalso. apply (Sub a); tauto.
      * assert (In x (v :: a)) by (apply S; cbn; auto). destruct H as [<-|H]; auto.
        exfalso. apply (Sub b); tauto.
    + intros a b Ha Hb S. apply in_map_iff in Ha. destruct Ha as [a0 [<- _]].
      apply (Sub b Hb). apply S. cbn; auto.
Qed.

Lemma all_cliques_distinct g : ValidGraph g -> ForallOrdPairs (fun a b => ~ seteq a b) (all_cliques g).
Proof. intros [ND _]. unfold all_cliques. apply FOP_filter. apply cliques_on_distinct; auto. Qed.

(* pigeonhole: a list as long as a pairwise-inequivalent list A and meeting every class of A is, class by class,
   a permutation of A *)
Lemma arrangement_of_distinct (A : list (list nat)) : forall sh,
  ForallOrdPairs (fun a b => ~ seteq a b) A ->
  (forall a, In a A -> exists c, In c sh /\ seteq c a) ->
  length sh = length A ->
  exists sh', Permutation sh' A /\ Forall2 seteq sh sh'.
Proof.
  induction A as [|a A' IH]; intros sh FO Hit Len.
  - destruct sh; [|discriminate]. exists []. split; constructor.
  - inversion FO as [|? ? F FO']; subst. rewrite Forall_forall in F.
    destruct (Hit a) as [c [Hc Sc]]; [cbn; auto|].
    apply in_split in Hc. destruct Hc as [s1 [s2 ->]].
    destruct (IH (s1 ++ s2) FO') as [sh0 [P F2]].
    + intros a' Ha'. destruct (Hit a') as [c' [Hc' Sc']]; [cbn; auto|]. exists c'. split; auto.
      apply in_app_or in Hc'. apply in_or_app. destruct Hc' as [H|[H|H]]; auto.
      subst c'. exfalso. apply (F a' Ha'). eapply seteq_trans; [apply seteq_sym; exact Sc|exact Sc'].
    + rewrite app_length in *. cbn in Len. lia.
    + apply Forall2_app_inv_l in F2. destruct F2 as [t1 [t2 [F1 [F2 ->]]]].
      exists (t1 ++ a :: t2). split.
      * rewrite <- P. symmetry. apply Permutation_middle.
      * apply Forall2_app; auto.
Qed.

Theorem valid_sched_arrangement g sh : ValidGraph g -> valid_sched g sh = true ->
  exists sh', Permutation sh' (all_cliques g) /\ Forall2 seteq sh sh'.
Proof.
  intros Hg V. unfold valid_sched in V. apply andb_true_iff in V. destruct V as [V Len].
  apply andb_true_iff in V. destruct V as [_ V2]. rewrite forallb_forall in V2. apply Nat.eqb_eq in Len.
  apply arrangement_of_distinct; auto.
  - apply all_cliques_distinct; auto.
  - intros a Ha. specialize (V2 a Ha). apply existsb_exists in V2. destruct V2 as [c [Hc S]].
    exists c. split; auto. apply seteq_sym. exact (proj1 (set_eqb_spec a c) S).
Qed.
