(* C15, general identity, part 1: weighted sums over the sublists of a list (independent edges).
     wsr a b l f = sum over the sublists S of l of a^|S| b^(|l|-|S|) f(S)
   in its edge-by-edge recursive form, with the algebra needed to regroup such sums:
   extensionality on the sublists, linearity, factorisation over a partition of the list
   ("sum over subsets of a product of independent factors = product of sums"), the total weight 1,
   sum over k of the k-combinations = sum over the sublists, and complementation. *)
From Coq Require Import List ZArith QArith Qpower Qring Bool Arith Lia Lqa Setoid Morphisms.
From GV Require Import Lib.Tree Lib.PolyRefl15 Lib.Graph15 Model.AutoEq Proofs.AutoEqP.
Import ListNotations.
Local Open Scope Q_scope.

(* ------------------------------------------------------------------ *)
(* more about qsum *)
Lemma qsum_nil : qsum [] == 0.
Proof. reflexivity. Qed.

Lemma qsum_zero : forall {X} (l : list X), qsum (map (fun _ => 0) l) == 0.
Proof.
  intros X. induction l as [|x l IH]; cbn [map]; [reflexivity|]. rewrite qsum_cons, IH. ring.
Qed.

Lemma qsum_add : forall {X} (f g : X -> Q) l,
    qsum (map (fun x => f x + g x) l) == qsum (map f l) + qsum (map g l).
Proof.
  intros X f g. induction l as [|x l IH]; cbn [map].
  - rewrite !qsum_nil. ring.
  - rewrite !qsum_cons, IH. ring.
Qed.

Lemma qsum_flat_map : forall {X Y} (h : Y -> Q) (f : X -> list Y) l,
    qsum (map h (flat_map f l)) == qsum (map (fun x => qsum (map h (f x))) l).
Proof.
  intros X Y h f. induction l as [|x l IH]; cbn [flat_map map]; [reflexivity|].
  rewrite map_app, qsum_app, qsum_cons, IH. reflexivity.
Qed.

(* sum of an indicator times a constant = (number of hits) * constant *)
Lemma qsum_indicator : forall {X} (p : X -> bool) (k : Q) l,
    qsum (map (fun c => if p c then k else 0) l) == inject_Z (Z.of_nat (length (filter p l))) * k.
Proof.
  intros X p k. induction l as [|x l IH]; cbn [map filter].
  - rewrite qsum_nil. cbn. ring.
  - rewrite qsum_cons, IH. destruct (p x); cbn [length].
    + rewrite Nat2Z.inj_succ. unfold Z.succ. rewrite inject_Z_plus. ring.
    + ring.
Qed.

Lemma qsum_indicator_1 : forall {X} (p : X -> bool) (k : Q) l,
    length (filter p l) = 1%nat -> qsum (map (fun c => if p c then k else 0) l) == k.
Proof. intros X p k l H. rewrite qsum_indicator, H. cbn. ring. Qed.

(* ------------------------------------------------------------------ *)
Section WS.
  Context {X : Type}.
  Variables (a b : Q).

  Fixpoint wsr (l : list X) (f : list X -> Q) : Q :=
    match l with
    | [] => f []
    | x :: l' => a * wsr l' (fun S => f (x :: S)) + b * wsr l' f
    end.

  (* only the values on lists drawn from l matter *)
  Lemma wsr_ext : forall l f g, (forall S, incl S l -> f S == g S) -> wsr l f == wsr l g.
  Proof.
    induction l as [|x l IH]; intros f g H; cbn [wsr].
    - apply H. intros y [].
    - rewrite (IH (fun S => f (x :: S)) (fun S => g (x :: S))), (IH f g); [reflexivity| |].
      + intros S HS. apply H. apply incl_tl, HS.
      + intros S HS. apply H. apply incl_cons; [left; reflexivity|apply incl_tl, HS].
  Qed.

  (* the explicit form *)
  Lemma wsr_flat : forall l f,
      wsr l f == qsum (map (fun S => Qpower a (Z.of_nat (length S))
                                     * Qpower b (Z.of_nat (length l - length S)) * f S) (sublists l)).
  Proof.
    induction l as [|x l IH]; intros f.
    - cbn [wsr sublists map length Nat.sub]. rewrite qsum_cons, qsum_nil. cbn [Z.of_nat Qpower]. ring.
    - cbn [wsr]. rewrite !IH. cbn [sublists]. rewrite map_app, qsum_app, map_map.
      apply Qplus_comp.
      + rewrite <- qsum_scale. apply qsum_ext. intros S0 HS.
        cbn [length Nat.sub]. rewrite qpow_S. ring.
      + rewrite <- qsum_scale. apply qsum_ext. intros S0 HS.
        apply sublists_length in HS. cbn [length].
        replace (S (length l) - length S0)%nat with (S (length l - length S0))%nat by lia.
        rewrite qpow_S. ring.
  Qed.

  Lemma wsr_zero : forall l, wsr l (fun _ => 0) == 0.
  Proof. induction l as [|x l IH]; cbn [wsr]; [reflexivity|]. rewrite IH. ring. Qed.

  Lemma wsr_add : forall l f g, wsr l (fun S => f S + g S) == wsr l f + wsr l g.
  Proof.
    induction l as [|x l IH]; intros f g; cbn [wsr]; [reflexivity|].
    rewrite (IH (fun S => f (x :: S)) (fun S => g (x :: S))), (IH f g). ring.
  Qed.

  Lemma wsr_scale : forall l k f, wsr l (fun S => k * f S) == k * wsr l f.
  Proof.
    induction l as [|x l IH]; intros k f; cbn [wsr]; [reflexivity|].
    rewrite (IH k (fun S => f (x :: S))), (IH k f). ring.
  Qed.

  Lemma wsr_scale_r : forall l k f, wsr l (fun S => f S * k) == wsr l f * k.
  Proof.
    intros l k f. rewrite (wsr_ext l _ (fun S => k * f S)) by (intros; ring).
    rewrite wsr_scale. ring.
  Qed.

  (* linearity over a finite family *)
  Lemma wsr_qsum : forall {Y} (cs : list Y) (k : Y -> Q) (F : Y -> list X -> Q) l,
      wsr l (fun S => qsum (map (fun c => k c * F c S) cs)) == qsum (map (fun c => k c * wsr l (F c)) cs).
  Proof.
    intros Y. induction cs as [|c cs IH]; intros k F l; cbn [map].
    - rewrite qsum_nil. rewrite (wsr_ext l _ (fun _ => 0)) by (intros; apply qsum_nil). apply wsr_zero.
    - rewrite qsum_cons, <- IH, <- wsr_scale, <- wsr_add. apply wsr_ext. intros S _. apply qsum_cons.
  Qed.

  (* independent factors over a partition of the list *)
  Lemma wsr_split : forall (p : X -> bool) l (h1 h2 : list X -> Q),
      wsr l (fun S => h1 (filter p S) * h2 (filter (fun x => negb (p x)) S))
      == wsr (filter p l) h1 * wsr (filter (fun x => negb (p x)) l) h2.
  Proof.
    intros p. induction l as [|x l IH]; intros h1 h2; cbn [wsr filter]; [reflexivity|].
    destruct (p x) eqn:Ep; cbn [negb wsr].
    - pose proof (IH (fun T => h1 (x :: T)) h2) as E1. cbv beta in E1. rewrite E1, (IH h1 h2). ring.
    - pose proof (IH h1 (fun T => h2 (x :: T))) as E1. cbv beta in E1. rewrite E1, (IH h1 h2). ring.
  Qed.

  Hypothesis Hab : a + b == 1.

  (* total weight 1 *)
  Lemma wsr_const : forall l k, wsr l (fun _ => k) == k.
  Proof.
    induction l as [|x l IH]; intros k; cbn [wsr]; [reflexivity|].
    rewrite IH. transitivity ((a + b) * k); [ring|]. rewrite Hab. ring.
  Qed.

  (* none of the elements selected by q is taken: every such element contributes the factor b,
     all other elements are free *)
  Definition nilb (l : list X) : bool := match l with [] => true | _ => false end.
  Lemma wsr_none : forall (q : X -> bool) l,
      wsr l (fun S => if nilb (filter q S) then 1 else 0)
      == Qpower b (Z.of_nat (length (filter q l))).
  Proof.
    intros q. induction l as [|x l IH]; cbn [wsr filter]; [reflexivity|].
    destruct (q x) eqn:Eq; cbv iota.
    - cbn [length nilb]. rewrite qpow_S, IH, wsr_zero. ring.
    - rewrite IH. transitivity ((a + b) * Qpower b (Z.of_nat (length (filter q l)))); [ring|].
      rewrite Hab. ring.
  Qed.
End WS.

(* ------------------------------------------------------------------ *)
(* sum over k = 0..|l| of the k-combinations = sum over the sublists *)
Lemma combs_nil_gt : forall {X} (l : list X) k, (length l < k)%nat -> combs k l = [].
Proof.
  intros X. induction l as [|x l IH]; intros k Hk; destruct k as [|k]; cbn [length] in Hk; try lia; cbn [combs]; [reflexivity|].
  rewrite (IH k), (IH (S k)) by lia. reflexivity.
Qed.

Lemma combs_length : forall {X} k (l t : list X), In t (combs k l) -> length t = k.
Proof.
  intros X. induction k as [|k IHk]; intros l t Ht.
  - destruct l; cbn [combs] in Ht; destruct Ht as [<-|[]]; reflexivity.
  - induction l as [|x l IHl]; cbn [combs] in Ht; [contradiction|].
    apply in_app_or in Ht. destruct Ht as [Ht|Ht].
    + apply in_map_iff in Ht. destruct Ht as [t' [<- Ht']]. cbn [length]. f_equal. apply (IHk l), Ht'.
    + apply IHl, Ht.
Qed.

Lemma qsum_seq_shift : forall (f : nat -> Q) n s,
    qsum (map f (seq (S s) n)) == qsum (map (fun k => f (S k)) (seq s n)).
Proof. intros f n s. rewrite <- seq_shift, map_map. reflexivity. Qed.

Lemma qsum_seq_last : forall (f : nat -> Q) n,
    qsum (map f (seq 0 (S n))) == qsum (map f (seq 0 n)) + f n.
Proof. intros f n. rewrite seq_S, map_app, qsum_app. cbn [map plus]. rewrite qsum_cons, qsum_nil. ring. Qed.

Lemma qsum_combs_sublists : forall {X} (f : list X -> Q) l,
    qsum (map (fun k => qsum (map f (combs k l))) (seq 0 (S (length l)))) == qsum (map f (sublists l)).
Proof.
  intros X f l. revert f. induction l as [|x l IH]; intros f.
  - cbn [length seq map combs sublists]. rewrite !qsum_cons, !qsum_nil. ring.
  - cbn [length sublists]. rewrite map_app, qsum_app, map_map.
    rewrite <- (IH (fun S => f (x :: S))), <- (IH f).
    (* split off k = 0 on the left, shift, distribute *)
    change (seq 0 (S (S (length l)))) with (0%nat :: seq 1 (S (length l))).
    cbn [map]. rewrite qsum_cons, qsum_seq_shift.
    rewrite (qsum_ext (fun k => qsum (map f (combs (S k) (x :: l))))
                      (fun k => qsum (map (fun S => f (x :: S)) (combs k l)) + qsum (map f (combs (S k) l)))).
    2:{ intros k _. cbn [combs]. rewrite map_app, qsum_app, map_map. reflexivity. }
    rewrite qsum_add.
    (* the second family, shifted back, with the k = 0 term, and the empty last term *)
    assert (E : qsum (map f (combs 0 (x :: l))) + qsum (map (fun k => qsum (map f (combs (S k) l))) (seq 0 (S (length l))))
                == qsum (map (fun k => qsum (map f (combs k l))) (seq 0 (S (length l))))).
    { rewrite <- (qsum_seq_shift (fun k => qsum (map f (combs k l)))).
      rewrite seq_S, map_app, qsum_app. cbn [map plus].
      rewrite (combs_nil_gt l (S (length l))) by lia. cbn [map]. rewrite qsum_cons, !qsum_nil.
      change (seq 0 (S (length l))) with (0%nat :: seq 1 (length l)). cbn [map]. rewrite qsum_cons.
      destruct l; cbn [combs]; ring. }
    rewrite <- E. ring.
Qed.

(* ------------------------------------------------------------------ *)
(* complementation inside a duplicate-free edge list: removing the sublist t with weight
   b^|t| a^(rest) is keeping the complement with weight a^|kept| b^(rest) *)
Lemma edge_mem_false_notin : forall e l, ~ In e l -> edge_mem e l = false.
Proof.
  intros e l H. destruct (edge_mem e l) eqn:E; [|reflexivity]. apply edge_mem_In in E. contradiction.
Qed.

Lemma edge_eqb_eq : forall x y, edge_eqb x y = true <-> x = y.
Proof.
  intros [x1 x2] [y1 y2]. unfold edge_eqb. cbn [fst snd]. rewrite andb_true_iff, !Nat.eqb_eq.
  split; [intros [-> ->]; reflexivity|intros H; injection H; auto].
Qed.

Lemma edges_minus_cons_in : forall x l t, ~ In x l -> edges_minus (x :: l) (x :: t) = edges_minus l t.
Proof.
  intros x l t Hx. unfold edges_minus. cbn [filter edge_mem existsb].
  assert (Exx : edge_eqb x x = true) by (apply edge_eqb_eq; reflexivity).
  rewrite Exx. cbn [orb negb]. apply filter_ext_in. intros e He.
  destruct (edge_eqb e x) eqn:E; [|reflexivity].
  apply edge_eqb_eq in E. subst e. contradiction.
Qed.

Lemma edges_minus_cons_out : forall x l t, ~ In x t -> edges_minus (x :: l) t = x :: edges_minus l t.
Proof.
  intros x l t Hx. unfold edges_minus. cbn [filter]. rewrite (edge_mem_false_notin x t Hx). reflexivity.
Qed.

Lemma wsr_complement : forall (a b : Q) (l : list edge) (P : list edge -> Q),
    NoDup l -> wsr b a l (fun t => P (edges_minus l t)) == wsr a b l P.
Proof.
  intros a b. induction l as [|x l IH]; intros P Hnd; cbn [wsr]; [reflexivity|].
  inversion Hnd as [|x' l' Hx Hnd']. subst.
  rewrite (wsr_ext b a l (fun S => P (edges_minus (x :: l) (x :: S))) (fun S => P (edges_minus l S))).
  2:{ intros S _. rewrite edges_minus_cons_in by exact Hx. reflexivity. }
  rewrite (wsr_ext b a l (fun S => P (edges_minus (x :: l) S)) (fun S => (fun T => P (x :: T)) (edges_minus l S))).
  2:{ intros S HS. rewrite edges_minus_cons_out; [reflexivity|]. intros Hin. apply Hx, HS, Hin. }
  rewrite (IH P Hnd'), (IH (fun T => P (x :: T)) Hnd'). ring.
Qed.
