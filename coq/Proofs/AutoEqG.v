(* C15, general identity, part 3: the regrouping identity for every well-formed motif, any size.

     auto_q g r phi u == expectation g r phi u

   Proof: write the expectation as a weighted sum over the edge subsets S ([wsr]); for every S the
   component of the root is exactly one of the enumerated vertex sets c (general correctness of the
   enumeration), so the sum regroups by c; for a fixed c the weight of "the component of the root is c"
   factorises into (1-phi)^(number of interface edges) times the weight of "the kept internal edges
   connect c", the edges outside being free (total weight 1); the latter is the code's sum over
   removed-edge combinations (combinations by size = sublists, complementation). *)
From Coq Require Import List ZArith QArith Qpower Qring Bool Arith Lia Lqa Setoid Morphisms Permutation.
From GV Require Import Lib.Tree Lib.PolyRefl15 Lib.Graph15 Model.AutoEq Proofs.AutoEqP Proofs.AutoEqW Proofs.AutoEqC.
Import ListNotations.
Local Open Scope nat_scope.

(* ------------------------------------------------------------------ *)
(* what a well-formed graph gives *)
Lemma nodupb15_NoDup : forall l, nodupb l = true -> NoDup l.
Proof.
  induction l as [|x l IH]; intros H; [constructor|]. cbn [nodupb] in H.
  apply andb_true_iff in H. destruct H as [H1 H2]. apply negb_true_iff in H1.
  constructor; [|apply IH, H2]. intros Hi. apply memb_In in Hi. congruence.
Qed.

Lemma edges_okb_parts : forall nodes es, edges_okb nodes es = true ->
    ends_in nodes es /\ NoDup es /\ (forall e, In e es -> fst e <> snd e).
Proof.
  intros nodes. induction es as [|e es IH]; intros H.
  - split; [intros e []|split; [constructor|intros e []]].
  - cbn [edges_okb] in H. repeat (apply andb_true_iff in H; destruct H as [H ?]).
    destruct (IH H0) as [I1 [I2 I3]].
    apply negb_true_iff in H1, H2, H3. apply Nat.eqb_neq in H3. apply memb_In in H, H4.
    split; [|split].
    + intros e' [<-|He']; [split; assumption|apply I1, He'].
    + constructor; [|exact I2]. intros Hi. apply edge_mem_In in Hi. congruence.
    + intros e' [<-|He']; [exact H3|apply I3, He'].
Qed.

Lemma wf_graph_parts : forall g, wf_graph g = true ->
    NoDup (g_nodes g) /\ ends_in (g_nodes g) (g_edges g) /\ NoDup (g_edges g)
    /\ (forall e, In e (g_edges g) -> fst e <> snd e).
Proof.
  intros g H. unfold wf_graph in H. apply andb_true_iff in H. destruct H as [H1 H2].
  split; [apply nodupb15_NoDup, H1|apply edges_okb_parts, H2].
Qed.

(* same_setb only looks at membership *)
Lemma same_setb_ext_l : forall a a' c, (forall v, memb v a = memb v a') -> same_setb a c = same_setb a' c.
Proof.
  intros a a' c H. apply eq_iff_eq_true. rewrite !same_setb_iff. unfold sub.
  split; intros [H1 H2]; split; intros v Hv.
  - apply H1. rewrite H. exact Hv.
  - rewrite <- H. apply H2, Hv.
  - apply H1. rewrite <- H. exact Hv.
  - rewrite H. apply H2, Hv.
Qed.

(* the singleton component *)
Lemma internal_single_nil : forall es r, (forall e, In e es -> fst e <> snd e) -> internal_edges es [r] = [].
Proof.
  intros es r Hl. unfold internal_edges. induction es as [|e es IH]; [reflexivity|]. cbn [filter].
  assert (E : in_c [r] (fst e) && in_c [r] (snd e) = false).
  { unfold in_c. cbn [memb existsb]. rewrite !orb_false_r.
    destruct (Nat.eqb (fst e) r) eqn:E1, (Nat.eqb (snd e) r) eqn:E2; try reflexivity.
    apply Nat.eqb_eq in E1, E2. exfalso. apply (Hl e (or_introl eq_refl)). congruence. }
  rewrite E. apply IH. intros e' He'. apply Hl. right. exact He'.
Qed.

Lemma iface_single_nbrs : forall es r, (forall e, In e es -> fst e <> snd e) ->
    n_interface es [r] = length (nbrs es r).
Proof.
  intros es r Hl. unfold n_interface, nbrs. induction es as [|e es IH]; [reflexivity|].
  cbn [filter flat_map]. rewrite app_length, <- IH by (intros e' He'; apply Hl; right; exact He').
  assert (Hne : fst e <> snd e) by (apply Hl; left; reflexivity).
  unfold in_c, adj. cbn [memb existsb]. rewrite !orb_false_r.
  destruct (Nat.eqb (fst e) r) eqn:E1, (Nat.eqb (snd e) r) eqn:E2; cbn [xorb length]; try reflexivity.
  apply Nat.eqb_eq in E1, E2. congruence.
Qed.

(* ------------------------------------------------------------------ *)
Local Open Scope Q_scope.

Lemma asum_q_qsum : forall l, asum alg_q l = qsum l.
Proof. reflexivity. Qed.
Lemma aprod_q_qprod : forall l, aprod alg_q l = qprod l.
Proof. reflexivity. Qed.

Section General.
  Variables (ord : list nat -> list nat) (g : graph) (r : nat) (phi : Q) (u : nat -> Q).
  Hypothesis Hord : forall l, Permutation (ord l) l.
  Hypothesis Hwf : wf_graph g = true.
  Hypothesis Hr : In r (g_nodes g).
  Let nodes := g_nodes g.
  Let es := g_edges g.

  Let Hnd : NoDup nodes := proj1 (wf_graph_parts g Hwf).
  Let He : ends_in nodes es := proj1 (proj2 (wf_graph_parts g Hwf)).
  Let Hnde : NoDup es := proj1 (proj2 (proj2 (wf_graph_parts g Hwf))).
  Let Hloop : forall e, In e es -> fst e <> snd e := proj2 (proj2 (proj2 (wf_graph_parts g Hwf))).

  (* indicator "the component of the root under S is c", product of u over a vertex set *)
  Definition ind (c : list nat) (S : list edge) : Q := if same_setb (comp nodes S r) c then 1 else 0.
  Definition Gc (c : list nat) : Q :=
    qprod (map u (filter (fun v => negb (Nat.eqb v r)) (filter (fun v => memb v c) nodes))).
  Definition leafF (S : list edge) : Q :=
    qprod (map u (filter (fun v => negb (Nat.eqb v r)) (comp nodes S r))).

  Lemma phi_1 : phi + (1 - phi) == 1.
  Proof. ring. Qed.

  (* the enumerated vertex sets *)
  Lemma enum_grown : forall c, In c (enum_ord ord g r) -> grown es r c.
  Proof.
    intros c Hc.
    apply (proj1 (enum_general_wf ord g r Hord Hwf) c Hc).
  Qed.
  Lemma enum_once : forall T, grown es r T -> (forall v, memb v T = true -> In v nodes) ->
      cnt T (enum_ord ord g r) = 1%nat.
  Proof.
    intros T HT Hn.
    apply (proj2 (enum_general_wf ord g r Hord Hwf) T HT Hn).
  Qed.

  (* (1) for every edge subset, the leaf value is the sum over the enumerated sets of indicator * product *)
  Lemma leaf_decomp : forall S, incl S es ->
      leafF S == qsum (map (fun c => Gc c * ind c S) (enum_ord ord g r)).
  Proof.
    intros S HS.
    assert (HSe : ends_in nodes S) by (apply (ends_in_incl nodes S es HS He)).
    destruct (comp_grown nodes es S r Hnd HSe Hr HS) as [T [HT [HTn HTm]]].
    pose proof (enum_once T HT HTn) as Hcnt. unfold cnt in Hcnt.
    rewrite (filter_ext (same_setb T) (same_setb (comp nodes S r))) in Hcnt
      by (intros c; apply same_setb_ext_l, HTm).
    rewrite (qsum_ext (fun c => Gc c * ind c S)
                      (fun c => if same_setb (comp nodes S r) c then leafF S else 0)).
    - rewrite (qsum_indicator_1 _ _ _ Hcnt). reflexivity.
    - intros c _. unfold ind. destruct (same_setb (comp nodes S r) c) eqn:E; [|ring].
      assert (EG : Gc c = leafF S).
      { unfold Gc, leafF. f_equal. f_equal. f_equal. unfold comp. apply filter_ext_in. intros v Hv.
        pose proof (same_setb_memb _ _ E v) as Hm. unfold comp in Hm. rewrite memb_filter in Hm.
        rewrite (proj2 (memb_In v nodes) Hv) in Hm. cbn [andb] in Hm. symmetry. exact Hm. }
      rewrite EG. ring.
  Qed.

  (* (2) the weight of "the component of the root is c" factorises *)
  Lemma ind_weight : forall c, grown es r c ->
      wsr phi (1 - phi) es (ind c)
      == Qpower (1 - phi) (Z.of_nat (n_interface es c)) * wsr phi (1 - phi) (internal_edges es c) (ind c).
  Proof.
    intros c Hg.
    assert (Hrc : memb r c = true) by (apply (grown_root es r c Hg)).
    assert (Hc : forall v, memb v c = true -> In v nodes) by (apply (grown_in_nodes nodes es r c He Hr Hg)).
    assert (Hif : forall l : list edge, filter (ifaceb c) (filter (fun e => negb (intb c e)) l) = filter (ifaceb c) l).
    { intros l. rewrite filter_filter_and. apply filter_ext. intros e. unfold intb, ifaceb.
      destruct (in_c c (fst e)), (in_c c (snd e)); reflexivity. }
    pose (B := fun S' : list edge => if nilb (filter (ifaceb c) S') then 1 else 0).
    rewrite (wsr_ext phi (1 - phi) es (ind c)
               (fun S => ind c (filter (intb c) S) * B (filter (fun e => negb (intb c e)) S))).
    2:{ intros S HS. unfold B. rewrite Hif. unfold ind.
        rewrite (ind_factor nodes S r c Hnd (ends_in_incl nodes S es HS He) Hr Hrc Hc).
        destruct (nilb (filter (ifaceb c) S)), (same_setb (comp nodes (filter (intb c) S) r) c); cbn [andb]; ring. }
    rewrite (wsr_split phi (1 - phi) (intb c) es (ind c) B). unfold B.
    rewrite (wsr_none phi (1 - phi) phi_1 (ifaceb c)). rewrite Hif.
    change (filter (intb c) es) with (internal_edges es c).
    change (length (filter (ifaceb c) es)) with (n_interface es c). ring.
  Qed.

  (* (3) the code's sum over removed-edge combinations of the reduced graph of c *)
  Lemma combos_weight : forall c (K : Q), grown es r c ->
      (forall v, In v (live_nodes nodes (internal_edges es c)) <-> memb v c = true) ->
      qsum (map (fun n => Qpower phi (Z.of_nat (length (internal_edges es c) - n))
                          * Qpower (1 - phi) (Z.of_nat n) * K)
                (combos_for g c))
      == wsr phi (1 - phi) (internal_edges es c) (ind c) * K.
  Proof.
    intros c K Hg Hlive.
    assert (Hrc : memb r c = true) by (apply (grown_root es r c Hg)).
    unfold combos_for. fold es. fold nodes.
    set (ec := internal_edges es c) in *. set (live := live_nodes nodes ec) in *.
    set (h := fun n : nat => Qpower phi (Z.of_nat (length ec - n)) * Qpower (1 - phi) (Z.of_nat n) * K).
    set (cb := fun t : list edge => connectedb live (edges_minus ec t)).
    unfold edge_combos.
    rewrite qsum_flat_map.
    rewrite (qsum_ext _ (fun l => qsum (map (fun t => if cb t then h (length t) else 0) (combs l ec)))).
    2:{ intros l _. rewrite qsum_flat_map. apply qsum_ext. intros t Ht.
        apply combs_length in Ht. subst l. fold (cb t).
        destruct (cb t); cbn [map]; [rewrite qsum_cons, qsum_nil; ring|apply qsum_nil]. }
    rewrite (qsum_combs_sublists (fun t => if cb t then h (length t) else 0) ec).
    rewrite <- (wsr_scale_r phi (1 - phi) ec K (ind c)).
    rewrite <- (wsr_ext phi (1 - phi) ec (fun s => (if connectedb live s then 1 else 0) * K) (fun s => ind c s * K)).
    2:{ intros s Hs. unfold ind.
        rewrite <- (combo_conn_eq nodes es r c s Hnd He Hr Hrc Hlive Hs). reflexivity. }
    assert (Hndc : NoDup ec) by (apply NoDup_filter, Hnde).
    rewrite <- (wsr_complement phi (1 - phi) ec (fun s => (if connectedb live s then 1 else 0) * K) Hndc).
    rewrite wsr_flat. apply qsum_ext. intros t _. fold (cb t). unfold h. destruct (cb t); ring.
  Qed.

  (* (4) one term of the automated equation *)
  Lemma live_is_c : forall c, (forall v, In v (live_nodes nodes (internal_edges es c)) <-> memb v c = true) ->
      live_nodes nodes (internal_edges es c) = filter (fun v => memb v c) nodes.
  Proof.
    intros c Hlive. unfold live_nodes. apply filter_ext_in. intros v Hv. apply eq_iff_eq_true.
    rewrite <- (Hlive v). unfold live_nodes. rewrite filter_In. tauto.
  Qed.

  Lemma term_general : forall c, grown es r c ->
      (forall v, memb v c = true -> exists w, memb w c = true /\ memb w (nbrs es v) = true) ->
      let ec := internal_edges es c in
      qsum (map (fun n => Qpower phi (Z.of_nat (length ec - n)) * Qpower (1 - phi) (Z.of_nat n)
                          * Qpower (1 - phi) (Z.of_nat (n_interface es c))
                          * qprod (map u (filter (fun v => negb (Nat.eqb v r)) (live_nodes nodes ec))))
                (combos_for g c))
      == Gc c * wsr phi (1 - phi) es (ind c).
  Proof.
    intros c Hg Hn ec.
    assert (Hc : forall v, memb v c = true -> In v nodes) by (apply (grown_in_nodes nodes es r c He Hr Hg)).
    pose proof (live_iff_c nodes es c He Hc Hn) as Hlive.
    rewrite (ind_weight c Hg). unfold ec. rewrite (live_is_c c Hlive). fold (Gc c).
    pose proof (combos_weight c (Qpower (1 - phi) (Z.of_nat (n_interface es c)) * Gc c) Hg Hlive) as E.
    transitivity (wsr phi (1 - phi) (internal_edges es c) (ind c)
                  * (Qpower (1 - phi) (Z.of_nat (n_interface es c)) * Gc c)); [|ring].
    rewrite <- E. apply qsum_ext. intros n _. ring.
  Qed.

  Lemma term_single :
      Qpower (1 - phi) (Z.of_nat (length (nbrs es r))) == Gc [r] * wsr phi (1 - phi) es (ind [r]).
  Proof.
    rewrite (ind_weight [r] (g_root es r)).
    rewrite (internal_single_nil es r Hloop), (iface_single_nbrs es r Hloop). cbn [wsr].
    assert (E1 : ind [r] [] == 1).
    { unfold ind.
      assert (E : same_setb (comp nodes [] r) [r] = true).
      { apply (same_comp_iff nodes [] r [r] Hnd); [intros e []|exact Hr| |].
        - intros v Hv. cbn in Hv. rewrite orb_false_r in Hv. apply Nat.eqb_eq in Hv. subst. exact Hr.
        - split.
          + intros v _ Hc. apply conn_nil in Hc. subst. cbn. rewrite Nat.eqb_refl. reflexivity.
          + intros v Hv. cbn in Hv. rewrite orb_false_r in Hv. apply Nat.eqb_eq in Hv. subst. apply conn_refl. }
      rewrite E. reflexivity. }
    assert (E2 : Gc [r] == 1).
    { unfold Gc. rewrite filter_filter_and.
      rewrite (filter_ext _ (fun _ => false)).
      - assert (Hf : forall l : list nat, filter (fun _ => false) l = []) by (induction l; auto).
        rewrite Hf. reflexivity.
      - intros v. cbn [memb existsb]. rewrite orb_false_r. destruct (Nat.eqb v r); reflexivity. }
    rewrite E1, E2. ring.
  Qed.

  Lemma term_eq : forall c, In c (enum_ord ord g r) ->
      term_of alg_q g r phi u c (combos_for g c) == Gc c * wsr phi (1 - phi) es (ind c).
  Proof.
    intros c Hc. pose proof (enum_grown c Hc) as Hg.
    destruct (grown_cases es r c Hg) as [->|Hn].
    - exact term_single.
    - destruct c as [|v [|w c']].
      + pose proof (grown_root es r [] Hg) as H. discriminate H.
      + (* a singleton is the root alone *)
        pose proof (grown_root es r [v] Hg) as H. cbn in H. rewrite orb_false_r in H.
        apply Nat.eqb_eq in H. subst v. exact term_single.
      + exact (term_general (v :: w :: c') Hg Hn).
  Qed.

  (* THE GENERAL IDENTITY, for whatever order the candidate sets are iterated in *)
  Theorem identity_general_ord :
      qsum (map (fun c => term_of alg_q g r phi u c (combos_for g c)) (enum_ord ord g r))
      == expectation g r phi u.
  Proof.
    rewrite (qsum_ext _ (fun c => Gc c * wsr phi (1 - phi) es (ind c)) (enum_ord ord g r) term_eq).
    rewrite <- (wsr_qsum phi (1 - phi) (enum_ord ord g r) Gc ind es).
    rewrite <- (wsr_ext phi (1 - phi) es leafF _ leaf_decomp).
    unfold expectation. rewrite wsr_flat. apply qsum_ext. intros S _. reflexivity.
  Qed.
End General.

(* the automated equation under the iteration-order schedule [ord] *)
Definition auto_q_ord (ord : list nat -> list nat) (g : graph) (r : nat) (phi : Q) (u : nat -> Q) : Q :=
  asum alg_q (map (fun c => term_of alg_q g r phi u c (combos_for g c)) (enum_ord ord g r)).

Lemma auto_q_ord_id : forall g r phi u, auto_q_ord (fun l => l) g r phi u = auto_q g r phi u.
Proof. reflexivity. Qed.

Theorem identity_general_any_order : forall (ord : list nat -> list nat) (g : graph) (r : nat),
    (forall l, Permutation (ord l) l) -> wf_graph g = true -> In r (g_nodes g) ->
    forall (phi : Q) (u : nat -> Q), auto_q_ord ord g r phi u == expectation g r phi u.
Proof. intros ord g r Hord Hwf Hr phi u. exact (identity_general_ord ord g r phi u Hord Hwf Hr). Qed.

Theorem identity_general : forall (g : graph) (r : nat), wf_graph g = true -> In r (g_nodes g) ->
    forall (phi : Q) (u : nat -> Q), auto_q g r phi u == expectation g r phi u.
Proof.
  intros g r Hwf Hr phi u. rewrite <- auto_q_ord_id.
  apply identity_general_any_order; [intros l; apply Permutation_refl|exact Hwf|exact Hr].
Qed.

(* ------------------------------------------------------------------ *)
(* the same on the level of the polynomial expressions the extracted model reports: for every
   substitution (ephi, eu) of expressions for phi and u, the model's polynomial and the exact one
   take the same value at EVERY rational point *)
Theorem identity_general_poly : forall (g : graph) (r : nat), wf_graph g = true -> In r (g_nodes g) ->
    forall (ephi : pe) (eu : nat -> pe) (env : list Q),
      peval env (auto_gen alg_pe g r ephi eu) == peval env (exact_gen alg_pe g r ephi eu).
Proof.
  intros g r Hwf Hr ephi eu env.
  rewrite (auto_gen_hom alg_pe alg_q (peval env) (peval_hom env)).
  rewrite (exact_gen_hom alg_pe alg_q (peval env) (peval_hom env)).
  rewrite expectation_rec. apply (identity_general g r Hwf Hr).
Qed.

(* hence a polynomial accepted by the verified checker agrees with the model's polynomial everywhere *)
Theorem check_accepts_only_model : forall (g : graph) (r : nat), wf_graph g = true -> In r (g_nodes g) ->
    forall ephi eu ms, c15_checkb g r ephi eu ms = true ->
    forall env, peval env (monos_expr ms) == peval env (auto_gen alg_pe g r ephi eu).
Proof.
  intros g r Hwf Hr ephi eu ms Hc env. unfold c15_checkb in Hc.
  rewrite (peq_sound _ _ Hc env). symmetry. apply identity_general_poly; assumption.
Qed.

(* ------------------------------------------------------------------ *)
(* the evaluator OBJECT: on one evaluator, for every history of calls on well-formed, distinctly named
   motifs, every call returns the exact expectation (or raises when the root is not a vertex) *)
Definition exact_answer (o : option Q) (c : call (T:=Q)) : Prop :=
  if memb (c_root c) (g_nodes (c_graph c))
  then exists v, o = Some v /\ v == expectation (c_graph c) (c_root c) (c_phi c) (c_u c)
  else o = None.

Theorem history_exact : forall calls : list (call (T:=Q)),
    distinctly_named calls -> (forall c, In c calls -> wf_graph (c_graph c) = true) ->
    Forall2 exact_answer (run_history alg_q caches_empty calls) calls.
Proof.
  intros calls Hd Hwf. rewrite (history_independent alg_q calls Hd). clear Hd.
  induction calls as [|c calls IH]; cbn [map]; constructor.
  - rewrite fresh_is_fresh. unfold fresh_value, exact_answer.
    destruct (memb (c_root c) (g_nodes (c_graph c))) eqn:E; [|reflexivity].
    eexists. split; [reflexivity|].
    apply (identity_general (c_graph c) (c_root c)); [apply Hwf; left; reflexivity|apply memb_In, E].
  - apply IH. intros c' Hc'. apply Hwf. right. exact Hc'.
Qed.
