(* C09: the third clause of the checker (IsolatedIntact) decided WITHOUT enumerating maximal cliques.

   On a loop-free graph a maximal clique K shares no edge with a different maximal clique exactly when no vertex
   outside K has two neighbours in K ([closed2]; [isolated_closed2]).  Such a K is, for each pair u <> v of its
   members, the set {u, v} + common neighbours of u and v ([cand_isolated]); conversely a candidate of an edge that
   is pairwise adjacent is a maximal clique ([cand_max_clique]).  So one candidate per edge is enough:
   [isolated_ok_fast_b] (Model/Eecc.v, polynomial) is equivalent to the Prop-level [IsolatedIntact]
   ([isolated_ok_fast_sound]) and therefore equal to the brute-force [isolated_ok_b] ([isolated_ok_fast_eq]) on
   every loop-free edge list; the wire entry [c09_check_full_fast] answers exactly what [c09_check] answers
   ([check_full_fast_agrees]) and its three answers are tied to the Prop-level clauses. *)
From Coq Require Import List Arith Bool Lia Sorted.
From GV Require Import Lib.Tree Lib.GraphE Model.Eecc Proofs.EeccP Proofs.EeccGenP Proofs.EeccWireP.
Import ListNotations.
Local Open Scope nat_scope.

(* ------------------------------------------------------------------ neighbour lists, adjacency table *)
Lemma nbrs_spec : forall g v w, In w (nbrs g v) <-> adj g v w.
Proof.
  intros g v w. unfold nbrs, adj. rewrite in_flat_map. split.
  - intros [[a b] [He Hw]]. cbn [fst snd] in Hw.
    destruct (Nat.eqb a v) eqn:E1.
    + apply Nat.eqb_eq in E1. subst a. destruct Hw as [Hw | []]. subst b. left. exact He.
    + destruct (Nat.eqb b v) eqn:E2; [| destruct Hw].
      apply Nat.eqb_eq in E2. subst b. destruct Hw as [Hw | []]. subst a. right. exact He.
  - intros [H | H].
    + exists (v, w). split; [exact H |]. cbn [fst snd]. rewrite Nat.eqb_refl. left. reflexivity.
    + exists (w, v). split; [exact H |]. cbn [fst snd]. destruct (Nat.eqb w v) eqn:E.
      * apply Nat.eqb_eq in E. left. symmetry. exact E.
      * rewrite Nat.eqb_refl. left. reflexivity.
Qed.

Lemma find_map_key : forall (f : nat -> list nat) l v,
  find (fun p => Nat.eqb (fst p) v) (map (fun x => (x, f x)) l) = if memb v l then Some (v, f v) else None.
Proof.
  intros f l v. unfold memb. induction l as [| x r IH]; cbn [map find existsb]; [reflexivity |].
  cbn [fst]. rewrite (Nat.eqb_sym x v). destruct (Nat.eqb v x) eqn:E.
  - apply Nat.eqb_eq in E. subst. reflexivity.
  - cbn [orb]. exact IH.
Qed.

(* the table lookup is the neighbour list, for every vertex label (a label that carries no edge has none) *)
Lemma nb_adjtab : forall g v, nb (adjtab g) v = nbrs g v.
Proof.
  intros g v. unfold nb, adjtab. rewrite (find_map_key (nbrs g)). destruct (memb v (verts g)) eqn:M; [reflexivity |].
  destruct (nbrs g v) as [| w r] eqn:E; [reflexivity |]. exfalso.
  assert (Ha : adj g v w) by (apply nbrs_spec; rewrite E; left; reflexivity).
  apply memb_false in M. apply M. apply verts_spec. exact (proj1 (adj_vertex g v w Ha)).
Qed.

Lemma nb_adjtab_spec : forall g v w, In w (nb (adjtab g) v) <-> adj g v w.
Proof. intros g v w. rewrite nb_adjtab. apply nbrs_spec. Qed.

(* ------------------------------------------------------------------ small list facts *)
Lemma filter_le1 : forall (f : nat -> bool) l, NoDup l ->
  (length (filter f l) <= 1 <-> forall a b, In a l -> In b l -> f a = true -> f b = true -> a = b).
Proof.
  intros f l Hnd. assert (Hf : NoDup (filter f l)) by (apply NoDup_filter; exact Hnd).
  split.
  - intros Hlen a b Ha Hb Fa Fb.
    assert (Ia : In a (filter f l)) by (apply filter_In; auto).
    assert (Ib : In b (filter f l)) by (apply filter_In; auto).
    destruct (filter f l) as [| x [| y r]]; [destruct Ia | | cbn [length] in Hlen; lia].
    destruct Ia as [Ia | []]; destruct Ib as [Ib | []]. congruence.
  - intros H. destruct (filter f l) as [| x [| y r]] eqn:E; cbn [length]; try lia.
    exfalso. assert (Ix : In x (filter f l)) by (rewrite E; left; reflexivity).
    assert (Iy : In y (filter f l)) by (rewrite E; right; left; reflexivity).
    apply filter_In in Ix. apply filter_In in Iy. destruct Ix as [Ix Fx]. destruct Iy as [Iy Fy].
    assert (Exy : x = y) by (apply H; assumption). subst y.
    inversion Hf as [| ? ? Hx _]. apply Hx. left. reflexivity.
Qed.

Lemma subseq_asc : forall a l, subseq a l -> asc l -> asc a.
Proof.
  unfold asc. intros a l H. induction H as [l | x a l H IH | x a l H IH]; intros Hs.
  - constructor.
  - inversion Hs as [| ? ? Hl Hx]; subst. constructor; [apply IH; exact Hl |].
    apply Forall_forall. intros y Hy. rewrite Forall_forall in Hx. apply Hx. eapply subseq_In; eassumption.
  - inversion Hs as [| ? ? Hl Hx]; subst. apply IH. exact Hl.
Qed.

(* ------------------------------------------------------------------ the characterisation, Prop level *)
(* K shares no edge with a different maximal clique *)
Definition isolated (g : graph) (K : clique) : Prop :=
  forall K', max_clique g K' -> share_edge K K' -> same_set K' K.

(* no vertex outside K has two neighbours in K *)
Definition closed2 (g : graph) (K : clique) : Prop :=
  forall w a b, ~ In w K -> In a K -> In b K -> adj g w a -> adj g w b -> a = b.

Lemma IsolatedIntact_unfold : forall g m0 c,
  IsolatedIntact g m0 c <->
  (forall K, max_clique g K -> length K <= m0 -> isolated g K -> exists m, In m c /\ same_set m K).
Proof. intros g m0 c. unfold IsolatedIntact, isolated. reflexivity. Qed.

Section Graph.
Variable g : graph.

(* a clique that is not maximal grows by one vertex *)
Lemma not_maximal_ext : forall c, is_clique g c -> (forall v, In v c -> vertex g v) ->
  maximalb g (verts g) c = false ->
  exists w, is_clique g (w :: c) /\ (forall v, In v (w :: c) -> vertex g v) /\ length (w :: c) <= length (verts g).
Proof.
  intros c [Hnd Hp] Hv Mx. unfold maximalb in Mx. apply negb_false_iff in Mx. apply existsb_exists in Mx.
  destruct Mx as [w [Hw Hc]]. apply andb_true_iff in Hc. destruct Hc as [Hn Hf].
  apply negb_true_iff in Hn. apply memb_false in Hn. rewrite forallb_adjb in Hf.
  assert (Hnd' : NoDup (w :: c)) by (constructor; assumption).
  assert (Hv' : forall v, In v (w :: c) -> vertex g v).
  { intros v [E | Hin]; [subst; apply verts_spec; exact Hw | apply Hv; exact Hin]. }
  exists w. split; [| split; [exact Hv' |]].
  - split; [exact Hnd' |]. intros u v Hu Hv2 Hne. destruct Hu as [Hu | Hu]; destruct Hv2 as [Hv2 | Hv2]; subst.
    + contradiction.
    + apply Hf. exact Hv2.
    + apply adj_sym. apply Hf. exact Hu.
    + apply Hp; assumption.
  - apply NoDup_incl_length; [exact Hnd' |]. intros v Hin. apply verts_spec. apply Hv'. exact Hin.
Qed.

(* every non-empty clique made of vertices of g lies in a maximal clique *)
Lemma clique_extend_n : forall n c, length (verts g) - length c <= n -> c <> [] -> is_clique g c ->
  (forall v, In v c -> vertex g v) -> exists K, max_clique g K /\ incl c K.
Proof.
  induction n as [| n IH]; intros c Hn Hne Hc Hv; destruct (maximalb g (verts g) c) eqn:Mx.
  1,3: exists c; (split; [| apply incl_refl]); split; [exact Hne |]; split; [exact Hc |]; split; [exact Hv |];
       apply maximalb_spec; exact Mx.
  - destruct (not_maximal_ext c Hc Hv Mx) as [w [_ [_ Hl]]]. cbn [length] in Hl. lia.
  - destruct (not_maximal_ext c Hc Hv Mx) as [w [Hc' [Hv' Hl]]]. cbn [length] in Hl.
    destruct (IH (w :: c)) as [K [HK Hi]]; [cbn [length]; lia | discriminate | exact Hc' | exact Hv' |].
    exists K. split; [exact HK |]. intros x Hx. apply Hi. right. exact Hx.
Qed.

Lemma clique_extend : forall c, c <> [] -> is_clique g c -> (forall v, In v c -> vertex g v) ->
  exists K, max_clique g K /\ incl c K.
Proof. intros c. apply (clique_extend_n (length (verts g) - length c)). apply Nat.le_refl. Qed.

(* the characterisation: "shares no edge with a different maximal clique" is a local condition *)
Theorem isolated_closed2 : forall K, max_clique g K -> (isolated g K <-> closed2 g K).
Proof.
  intros K HK. pose proof HK as [Hne [[Hnd Hp] [Hv Hmx]]]. split.
  - intros Hiso w a b Hw Ha Hb Awa Awb. destruct (Nat.eq_dec a b) as [E | E]; [exact E |]. exfalso.
    assert (Hwa : w <> a) by (intros X; subst; contradiction).
    assert (Hwb : w <> b) by (intros X; subst; contradiction).
    assert (Hab : adj g a b) by (apply Hp; assumption).
    assert (Hc : is_clique g [w; a; b]).
    { split.
      - constructor; [intros [X | [X | []]]; [apply Hwa | apply Hwb]; symmetry; exact X |].
        constructor; [intros [X | []]; apply E; symmetry; exact X |]. constructor; [intros [] | constructor].
      - intros u v Hu Hv' Hne'. cbn [In] in Hu, Hv'.
        destruct Hu as [Hu | [Hu | [Hu | []]]]; destruct Hv' as [Hv' | [Hv' | [Hv' | []]]]; subst;
          try (exfalso; apply Hne'; reflexivity); try assumption; apply adj_sym; assumption. }
    assert (Hvc : forall v, In v [w; a; b] -> vertex g v).
    { intros v [X | [X | [X | []]]]; subst; [exact (proj1 (adj_vertex g _ _ Awa)) | apply Hv; exact Ha | apply Hv; exact Hb]. }
    destruct (clique_extend [w; a; b]) as [K' [HK' Hi]]; [discriminate | exact Hc | exact Hvc |].
    assert (Hs : same_set K' K).
    { apply Hiso; [exact HK' |]. exists a, b. split; [exact E |]. split; [exact Ha |]. split; [exact Hb |].
      split; apply Hi; cbn; auto. }
    apply Hw. apply Hs. apply Hi. left. reflexivity.
  - intros Hcl K' HK' [u [v [Hne' [Hu [Hv2 [Hu' Hv']]]]]]. pose proof HK' as [Hne2 [[Hnd2 Hp2] [Hvx2 Hmx2]]].
    assert (Hsub : forall x, In x K' -> In x K).
    { intros x Hx. destruct (in_dec Nat.eq_dec x K) as [I | I]; [exact I |]. exfalso.
      assert (Hxu : x <> u) by (intros X; subst; contradiction).
      assert (Hxv : x <> v) by (intros X; subst; contradiction).
      apply Hne'. apply (Hcl x u v I Hu Hv2); apply Hp2; assumption. }
    intros x. split; [apply Hsub |]. intros Hx. destruct (in_dec Nat.eq_dec x K') as [I | I]; [exact I |]. exfalso.
    destruct (Hmx2 x (Hv x Hx) I) as [y [Hy Hna]]. apply Hna. apply Hp; [exact Hx | apply Hsub; exact Hy |].
    intros X. subst. contradiction.
Qed.

(* ------------------------------------------------------------------ the executable pieces *)
Variable N : nat -> list nat.
Hypothesis HN : forall v w, In w (N v) <-> adj g v w.

Lemma cand_In : forall vs u v w,
  In w (cand N vs u v) <-> In w vs /\ (w = u \/ w = v \/ (adj g u w /\ adj g v w)).
Proof.
  intros vs u v w. unfold cand. rewrite filter_In, !orb_true_iff, andb_true_iff, !Nat.eqb_eq, !memb_In, !HN. tauto.
Qed.

Lemma cand_subseq : forall vs u v, subseq (cand N vs u v) vs.
Proof. intros vs u v. unfold cand. apply filter_subseq. Qed.

Lemma clique_fast_spec : forall K, clique_fast N K = true <-> pairwise_adj g K.
Proof.
  intros K. unfold clique_fast, pairwise_adj. rewrite forallb_forall. split.
  - intros H a b Ha Hb Hne. specialize (H a Ha). cbv zeta in H. rewrite forallb_forall in H. specialize (H b Hb).
    apply orb_true_iff in H. destruct H as [H | H]; [apply Nat.eqb_eq in H; contradiction |].
    apply memb_In in H. apply HN. exact H.
  - intros H a Ha. cbv zeta. apply forallb_forall. intros b Hb. destruct (Nat.eqb a b) eqn:E; [reflexivity |].
    cbn [orb]. apply memb_In. apply HN. apply H; try assumption. apply Nat.eqb_neq. exact E.
Qed.

Lemma closed_fast_spec : forall K, NoDup K -> (closed_fast N (verts g) K = true <-> closed2 g K).
Proof.
  intros K Hnd. unfold closed_fast, closed2. rewrite forallb_forall. split.
  - intros H w a b Hw Ha Hb Awa Awb.
    assert (Hv : In w (verts g)) by (apply verts_spec; exact (proj1 (adj_vertex g w a Awa))).
    specialize (H w Hv). apply orb_true_iff in H. destruct H as [H | H]; [apply memb_In in H; contradiction |].
    cbv zeta in H. apply Nat.leb_le in H. rewrite (filter_le1 _ K Hnd) in H.
    apply H; try assumption; apply memb_In; apply HN; assumption.
  - intros H w Hv. destruct (memb w K) eqn:M; [reflexivity |]. cbn [orb]. cbv zeta. apply Nat.leb_le.
    apply (filter_le1 _ K Hnd). intros a b Ha Hb Fa Fb. apply memb_In in Fa. apply memb_In in Fb.
    apply HN in Fa. apply HN in Fb. apply memb_false in M. exact (H w a b M Ha Hb Fa Fb).
Qed.

(* an isolated maximal clique is the candidate of each of its vertex pairs *)
Lemma cand_isolated : forall K a b, max_clique g K -> closed2 g K -> In a K -> In b K -> a <> b ->
  same_set (cand N (verts g) a b) K.
Proof.
  intros K a b [Hne [[Hnd Hp] [Hv Hmx]]] Hcl Ha Hb Hab x. rewrite cand_In. split.
  - intros [Hx [E | [E | [A1 A2]]]]; [subst; exact Ha | subst; exact Hb |].
    destruct (in_dec Nat.eq_dec x K) as [I | I]; [exact I |]. exfalso. apply Hab.
    apply (Hcl x a b I Ha Hb); apply adj_sym; assumption.
  - intros Hx. split; [apply verts_spec; apply Hv; exact Hx |].
    destruct (Nat.eq_dec x a) as [E | E]; [left; exact E |].
    destruct (Nat.eq_dec x b) as [E2 | E2]; [right; left; exact E2 |].
    right. right. split; apply Hp; try assumption; intros X; [apply E | apply E2]; symmetry; exact X.
Qed.

(* a pairwise adjacent candidate of an edge is a maximal clique *)
Lemma cand_max_clique : forall e, In e g -> pairwise_adj g (cand N (verts g) (fst e) (snd e)) ->
  max_clique g (cand N (verts g) (fst e) (snd e)).
Proof.
  intros e He Hp. set (K := cand N (verts g) (fst e) (snd e)) in *.
  assert (Hs : subseq K (verts g)) by apply cand_subseq.
  assert (Hfe : In (fst e) K).
  { unfold K. apply cand_In. split; [apply verts_spec; exists e; auto | left; reflexivity]. }
  assert (Hse : In (snd e) K).
  { unfold K. apply cand_In. split; [apply verts_spec; exists e; auto | right; left; reflexivity]. }
  split; [intros X; rewrite X in Hfe; destruct Hfe |].
  split; [split; [eapply subseq_NoDup; [exact Hs | apply asc_NoDup; apply verts_asc] | exact Hp] |].
  split; [intros v Hv; apply verts_spec; eapply subseq_In; eassumption |].
  intros w Hw Hn.
  destruct (adjb g (fst e) w) eqn:A1.
  - destruct (adjb g (snd e) w) eqn:A2.
    + exfalso. apply Hn. unfold K. apply cand_In. split; [apply verts_spec; exact Hw |].
      right. right. split; apply adjb_spec; assumption.
    + exists (snd e). split; [exact Hse |]. intros A. apply adj_sym in A. apply adjb_spec in A.
      rewrite A in A2. discriminate.
  - exists (fst e). split; [exact Hfe |]. intros A. apply adj_sym in A. apply adjb_spec in A.
    rewrite A in A1. discriminate.
Qed.

Definition fast_edge_ok (m0 : nat) (c : list clique) (u v : nat) : bool :=
  let K := cand N (verts g) u v in
  implb (first_two K u v && Nat.leb (length K) m0 && clique_fast N K && closed_fast N (verts g) K)
        (existsb (same_setb K) c).

(* the edge joining the two smallest vertices of an isolated maximal clique within the bound finds it *)
Lemma fast_edge_hit : forall m0 c a b r u v,
  (u = a /\ v = b) \/ (u = b /\ v = a) -> a < b ->
  max_clique g (a :: b :: r) -> subseq (a :: b :: r) (verts g) -> closed2 g (a :: b :: r) ->
  length (a :: b :: r) <= m0 -> fast_edge_ok m0 c u v = true ->
  exists m, In m c /\ same_set (a :: b :: r) m.
Proof.
  intros m0 c a b r u v Huv Hab HK Hsub Hcl Hlen H. pose proof HK as [_ [[Hnd Hp] _]].
  assert (Ia : In a (a :: b :: r)) by (left; reflexivity).
  assert (Ib : In b (a :: b :: r)) by (right; left; reflexivity).
  assert (EK : cand N (verts g) u v = a :: b :: r).
  { eapply subseq_same_set; [apply asc_NoDup; apply verts_asc | apply cand_subseq | exact Hsub |].
    destruct Huv as [[Eu Ev] | [Eu Ev]]; subst u v; apply cand_isolated; try assumption; lia. }
  unfold fast_edge_ok in H. cbv zeta in H. rewrite EK in H.
  assert (F2 : first_two (a :: b :: r) u v = true).
  { cbn [first_two]. destruct Huv as [[Eu Ev] | [Eu Ev]]; subst u v.
    - rewrite Nat.min_l, Nat.max_r by lia. rewrite !Nat.eqb_refl. reflexivity.
    - rewrite Nat.min_r, Nat.max_l by lia. rewrite !Nat.eqb_refl. reflexivity. }
  assert (FL : Nat.leb (length (a :: b :: r)) m0 = true) by (apply Nat.leb_le; exact Hlen).
  assert (FC : clique_fast N (a :: b :: r) = true) by (apply clique_fast_spec; exact Hp).
  assert (FD : closed_fast N (verts g) (a :: b :: r) = true) by (apply closed_fast_spec; assumption).
  rewrite F2, FL, FC, FD in H. cbn [andb implb] in H. apply existsb_exists in H. destruct H as [m [Hm Hsm]].
  exists m. split; [exact Hm | apply same_setb_spec; exact Hsm].
Qed.

Hypothesis Hloop : loopless g.

Theorem fast_sound_N : forall m0 c,
  forallb (fun e => fast_edge_ok m0 c (fst e) (snd e)) g = true <-> IsolatedIntact g m0 c.
Proof.
  intros m0 c. rewrite IsolatedIntact_unfold, forallb_forall. split.
  - intros H K HK Hlen Hiso.
    destruct (max_cliques_complete g K HK) as [K' [Hin Hs]].
    destruct (max_cliques_sound g K' Hin) as [HK' Hsub'].
    pose proof HK as [_ [[HndK _] _]]. pose proof HK' as [_ [[HndK' HpK'] _]].
    assert (Hlen' : length K' = length K) by (apply same_set_length; assumption).
    assert (Hiso' : isolated g K').
    { intros K2 HK2 Hsh x. rewrite (Hs x). apply (Hiso K2 HK2).
      eapply share_edge_same_set; [exact Hs | exact Hsh]. }
    assert (Hcl : closed2 g K') by (apply isolated_closed2; assumption).
    pose proof (max_clique_len2 g K' Hloop HK') as H2.
    destruct K' as [| a [| b r]]; cbn [length] in H2; try lia.
    assert (Hasc : asc (a :: b :: r)) by (eapply subseq_asc; [exact Hsub' | apply verts_asc]).
    assert (Hab : a < b).
    { unfold asc in Hasc. inversion Hasc as [| ? ? _ Hf]; subst. inversion Hf; subst. assumption. }
    assert (Hadj : adj g a b) by (apply HpK'; [left; reflexivity | right; left; reflexivity | lia]).
    assert (Hm : exists m, In m c /\ same_set (a :: b :: r) m).
    { destruct Hadj as [He | He].
      - apply (fast_edge_hit m0 c a b r a b); try assumption; [left; split; reflexivity | lia |].
        exact (H (a, b) He).
      - apply (fast_edge_hit m0 c a b r b a); try assumption; [right; split; reflexivity | lia |].
        exact (H (b, a) He). }
    destruct Hm as [m [Hm Hsm]]. exists m. split; [exact Hm |]. intros x. rewrite <- (Hs x). symmetry. apply Hsm.
  - intros H e He. unfold fast_edge_ok. cbv zeta.
    match goal with |- implb ?p _ = true => destruct p eqn:P end; [| reflexivity].
    cbn [implb]. rewrite !andb_true_iff in P. destruct P as [[[_ Hl] Hc] Hcl].
    apply Nat.leb_le in Hl. apply clique_fast_spec in Hc.
    assert (HK : max_clique g (cand N (verts g) (fst e) (snd e))) by (apply cand_max_clique; assumption).
    pose proof HK as [_ [[HndK _] _]].
    apply (closed_fast_spec _ HndK) in Hcl.
    destruct (H _ HK Hl) as [m [Hm Hsm]]; [apply isolated_closed2; assumption |].
    apply existsb_exists. exists m. split; [exact Hm |]. apply same_setb_spec. intros x. symmetry. apply Hsm.
Qed.

End Graph.

(* ------------------------------------------------------------------ the checker clause *)
(* GENERAL: on every loop-free edge list the polynomial test is the Prop-level specification ... *)
Theorem isolated_ok_fast_sound : forall g m0 c, loopless g ->
  (isolated_ok_fast_b g m0 c = true <-> IsolatedIntact g m0 c).
Proof.
  intros g m0 c Hl. unfold isolated_ok_fast_b. cbv zeta.
  exact (fast_sound_N g (nb (adjtab g)) (nb_adjtab_spec g) Hl m0 c).
Qed.

(* ... and hence the same boolean as the brute-force test *)
Theorem isolated_ok_fast_eq : forall g m0 c, loopless g -> isolated_ok_fast_b g m0 c = isolated_ok_b g m0 c.
Proof.
  intros g m0 c Hl. pose proof (isolated_ok_fast_sound g m0 c Hl) as H1. pose proof (isolated_ok_sound g m0 c) as H2.
  destruct (isolated_ok_fast_b g m0 c); destruct (isolated_ok_b g m0 c); try reflexivity.
  - symmetry. apply H2. apply H1. reflexivity.
  - apply H1. apply H2. reflexivity.
Qed.

(* ------------------------------------------------------------------ wire level *)
Lemma norm_graph_loopless : forall g, loopless (norm_graph g).
Proof.
  intros g [u v] He. apply norm_graph_spec in He. cbn [fst snd]. lia.
Qed.

(* the fast entry answers exactly what c09_check answers, on every tree *)
Theorem check_full_fast_agrees : forall t, c09_check_full_fast t = c09_check t.
Proof.
  intros t. unfold c09_check_full_fast, c09_check.
  rewrite (isolated_ok_fast_eq _ _ _ (norm_graph_loopless _)). reflexivity.
Qed.

Theorem check_full_fast_entry_cover : forall t,
  t_nth 0 (c09_check_full_fast t) = of_bool true <->
  ExactCover (norm_graph (t_pairs (t_nth 0 t))) (t_nat (t_nth 1 t)) (t_natss (t_nth 2 t)).
Proof.
  intros t. unfold c09_check_full_fast. unfold t_nth at 1. cbn [t_list nth].
  rewrite of_bool_true. apply check_cover_sound.
Qed.

Theorem check_full_fast_entry_empty : forall t,
  t_nth 1 (c09_check_full_fast t) = of_bool true <-> t_bool (t_nth 3 t) = false.
Proof.
  intros t. unfold c09_check_full_fast. unfold t_nth at 1. cbn [t_list nth].
  rewrite of_bool_true. apply negb_true_iff.
Qed.

Theorem check_full_fast_entry_isolated : forall t,
  t_nth 2 (c09_check_full_fast t) = of_bool true <->
  IsolatedIntact (norm_graph (t_pairs (t_nth 0 t))) (t_nat (t_nth 1 t)) (t_natss (t_nth 2 t)).
Proof.
  intros t. unfold c09_check_full_fast. unfold t_nth at 1. cbn [t_list nth].
  rewrite of_bool_true. apply isolated_ok_fast_sound. apply norm_graph_loopless.
Qed.
