(* Proofs about Model/Algebra.v. *)
From Coq Require Import List ZArith QArith Qabs Bool Arith Lia Permutation Setoid ArithRing.
From GV Require Import Lib.Tree Lib.QSumM Model.Mixing Model.Algebra Proofs.MixingP.
Import ListNotations.
Local Open Scope Q_scope.

(* ---------- small facts ---------- *)
Lemma dkeys_filter (p : key -> bool) (m : dict) :
  dkeys (filter (fun kp => p (fst kp)) m) = filter p (dkeys m).
Proof.
  unfold dkeys. induction m as [|[k v] m IH]; [reflexivity|]. cbn [filter map fst].
  destruct (p k); cbn [map fst]; rewrite IH; reflexivity.
Qed.

Lemma kdec_inj i a b : kdec i a = kdec i b -> a = b.
Proof. intros H. rewrite <- (kinc_kdec i a), <- (kinc_kdec i b), H. reflexivity. Qed.

Lemma kinc_inj i a b : kinc i a = kinc i b -> a = b.
Proof. intros H. rewrite <- (kdec_kinc i a), <- (kdec_kinc i b), H. reflexivity. Qed.

Lemma NoDup_map_inj {A B} (f : A -> B) l :
  (forall a b, f a = f b -> a = b) -> NoDup l -> NoDup (map f l).
Proof.
  intros Hf. induction 1 as [|x l Hnin _ IH]; cbn; constructor; [|exact IH].
  intros H. apply in_map_iff in H. destruct H as [y [E Hy]]. apply Hf in E. subst. contradiction.
Qed.

Lemma Qeq_bool_false x y : Qeq_bool x y = false <-> ~ x == y.
Proof.
  split.
  - intros H E. apply Qeq_bool_iff in E. congruence.
  - intros H. destruct (Qeq_bool x y) eqn:E; [|reflexivity]. apply Qeq_bool_iff in E. contradiction.
Qed.

Lemma nth_map_seq {A} (f : nat -> A) n i d : (i < n)%nat -> nth i (map f (seq 0 n)) d = f i.
Proof.
  intros H. rewrite (nth_indep _ d (f 0%nat)) by (rewrite map_length, seq_length; exact H).
  rewrite map_nth, seq_nth by exact H. reflexivity.
Qed.

(* ---------- validity of a joint degree distribution ---------- *)
Definition valid_jdd (P : dict) : Prop :=
  P <> [] /\ NoDup (dkeys P) /\
  Forall (fun k => length k = first_len P /\ Forall (fun x => (0 <= x)%Z) k) (dkeys P).

Lemma valid_jddb_spec P : valid_jddb P = true <-> valid_jdd P.
Proof.
  unfold valid_jddb, valid_jdd. rewrite !andb_true_iff, negb_true_iff, Nat.eqb_neq, knodupb_NoDup, forallb_forall, Forall_forall.
  assert (HL : length P <> 0%nat <-> P <> []) by (destruct P; cbn; split; congruence).
  rewrite HL. split; intros [[A B] C] || intros [A [B C]]; repeat split; try assumption.
  - apply Nat.eqb_eq. specialize (C x H). apply andb_true_iff in C. tauto.
  - specialize (C x H). apply andb_true_iff in C. destruct C as [_ C]. rewrite forallb_forall in C.
    apply Forall_forall. intros z Hz. apply Z.leb_le. apply C. exact Hz.
  - intros x Hx. destruct (C x Hx) as [C1 C2]. apply andb_true_iff. split; [apply Nat.eqb_eq; exact C1|].
    apply forallb_forall. intros z Hz. apply Z.leb_le. rewrite Forall_forall in C2. apply C2. exact Hz.
Qed.

Lemma knth_nonneg i k : Forall (fun x => (0 <= x)%Z) k -> (0 <= knth i k)%Z.
Proof.
  intros H. unfold knth. destruct (nth_in_or_default i k 0%Z) as [HI|E]; [|rewrite E; lia].
  rewrite Forall_forall in H. apply H. exact HI.
Qed.

(* ---------- mean ---------- *)
Lemma add_row_length avgs k p : length (add_row avgs k p) = length avgs.
Proof. revert k. induction avgs as [|a avgs IH]; intros [|x k]; cbn; auto. Qed.

Lemma add_row_nth avgs k p i :
  (length avgs <= length k)%nat ->
  nth i (add_row avgs k p) 0 == nth i avgs 0 + (if Nat.ltb i (length avgs) then kq i k * p else 0).
Proof.
  revert k i. induction avgs as [|a avgs IH]; intros k i HL.
  - cbn [add_row length]. destruct i; cbn; ring.
  - destruct k as [|x k]; [cbn in HL; lia|]. cbn [add_row]. destruct i as [|i].
    + cbn [nth length]. rewrite Qred_correct. unfold kq, knth. cbn [nth Nat.ltb Nat.leb]. ring.
    + cbn [nth length]. rewrite IH by (cbn in HL; lia). unfold kq, knth. cbn [nth].
      change (Nat.ltb (S i) (S (length avgs))) with (Nat.ltb i (length avgs)). reflexivity.
Qed.

Lemma mean_fold_nth P acc i :
  Forall (fun k => (length acc <= length k)%nat) (dkeys P) -> (i < length acc)%nat ->
  nth i (fold_left (fun a kp => add_row a (fst kp) (snd kp)) P acc) 0
  == nth i acc 0 + qsum (map (fun kp => kq i (fst kp) * snd kp) P).
Proof.
  revert acc. induction P as [|[k p] P IH]; intros acc HF Hi; cbn [fold_left map qsum fst snd].
  - ring.
  - cbn in HF. inversion HF as [|? ? H1 H2]; subst.
    rewrite IH; [|rewrite add_row_length; exact H2|rewrite add_row_length; exact Hi].
    rewrite add_row_nth by exact H1.
    assert (E : Nat.ltb i (length acc) = true) by (apply Nat.ltb_lt; exact Hi). rewrite E. ring.
Qed.

Lemma nth_repeat0 i n : nth i (repeat 0 n) 0 = 0.
Proof. revert i. induction n as [|n IH]; intros [|i]; cbn; auto. Qed.

Lemma mean_raw_nth P i : valid_jdd P -> (i < first_len P)%nat -> nth i (mean_raw P) 0 == mean_spec P i.
Proof.
  intros [_ [_ HF]] Hi. unfold mean_raw, mean_spec. rewrite mean_fold_nth.
  - rewrite nth_repeat0. ring.
  - rewrite repeat_length. eapply Forall_impl; [|exact HF]. cbn. intros k [E _]. lia.
  - rewrite repeat_length. exact Hi.
Qed.

Lemma fold_add_row_length P acc :
  length (fold_left (fun a kp => add_row a (fst kp) (snd kp)) P acc) = length acc.
Proof. revert acc. induction P as [|kp P IH]; intros a; cbn [fold_left]; [reflexivity|]. rewrite IH, add_row_length. reflexivity. Qed.

Lemma mean_raw_length P : length (mean_raw P) = first_len P.
Proof. unfold mean_raw. rewrite fold_add_row_length, repeat_length. reflexivity. Qed.

Lemma mean_err_valid P : valid_jdd P -> mean_err P = false.
Proof.
  intros [Hne [_ HF]]. unfold mean_err. destruct P as [|kp P]; [congruence|].
  apply not_true_is_false. intros H. apply existsb_exists in H. destruct H as [k [Hk H]].
  apply Nat.ltb_lt in H. rewrite Forall_forall in HF. destruct (HF k Hk) as [E _]. lia.
Qed.

Theorem mean_correct P i :
  valid_jdd P -> (i < first_len P)%nat ->
  exists l, mean P = Ok l /\ length l = first_len P /\ nth i l 0 == mean_spec P i.
Proof.
  intros HV Hi. exists (mean_raw P). unfold mean. rewrite (mean_err_valid P HV).
  split; [reflexivity|]. split; [apply mean_raw_length|apply mean_raw_nth; assumption].
Qed.

(* ---------- forward ---------- *)
Definition mean_defined (P : dict) : Prop :=
  forall i, (i < first_len P)%nat -> has_pos i P = true -> ~ mean_spec P i == 0.

Lemma mean_ok_spec P : mean_ok P = true <-> mean_defined P.
Proof.
  unfold mean_ok, mean_defined. rewrite forallb_forall. split.
  - intros H i Hi Hp. specialize (H i). rewrite in_seq in H. specialize (H ltac:(lia)).
    rewrite Hp in H. cbn in H. rewrite orb_false_r in H. apply negb_true_iff, Qeq_bool_false in H. exact H.
  - intros H i Hi. apply in_seq in Hi. destruct (has_pos i P) eqn:Hp; [|apply orb_true_r].
    cbn. rewrite orb_false_r. apply negb_true_iff, Qeq_bool_false. apply H; [lia|exact Hp].
Qed.

Lemma forward_i_keys P avg i : dkeys (forward_i P avg i) = dkeys (spec_forward_i P i).
Proof. unfold forward_i, spec_forward_i, dkeys. rewrite !map_map. reflexivity. Qed.

Lemma spec_forward_keys P i :
  dkeys (spec_forward_i P i) = map (kdec i) (filter (fun k => Z.ltb 0 (knth i k)) (dkeys P)).
Proof.
  unfold spec_forward_i. rewrite <- (dkeys_filter (fun k => Z.ltb 0 (knth i k))). unfold dkeys. rewrite !map_map. reflexivity.
Qed.

Lemma spec_forward_NoDup P i : NoDup (dkeys P) -> NoDup (dkeys (spec_forward_i P i)).
Proof.
  intros H. rewrite spec_forward_keys. apply NoDup_map_inj; [apply kdec_inj|]. apply NoDup_filter. exact H.
Qed.

Lemma forward_i_close P avg i :
  NoDup (dkeys P) -> avg == mean_spec P i -> dict_close 0 (forward_i P avg i) (spec_forward_i P i).
Proof.
  intros Hnd Ha. apply dict_close_same_keys.
  - rewrite forward_i_keys. apply spec_forward_NoDup. exact Hnd.
  - apply forward_i_keys.
  - unfold forward_i, spec_forward_i, dvals. rewrite !map_map. cbn [snd].
    induction (filter (fun kp => Z.ltb 0 (knth i (fst kp))) P) as [|kp l IH]; cbn [map]; constructor; [|exact IH].
    rewrite Qred_correct, Ha. reflexivity.
Qed.

(* q_i (k - e_i) = k_i P(k) / <k_i> *)
Theorem forward_formula P i k :
  NoDup (dkeys P) -> In k (dkeys P) -> (0 < knth i k)%Z ->
  dgetq (spec_forward_i P i) (kdec i k) == kq i k * dgetq P k / mean_spec P i.
Proof.
  intros Hnd Hk Hpos. apply in_map_iff in Hk. destruct Hk as [[k' p] [E Hkp]]. cbn in E. subst k'.
  assert (H1 : dget P k = Some p) by (apply In_dget; assumption).
  assert (H2 : dget (spec_forward_i P i) (kdec i k) = Some (kq i k * p / mean_spec P i)).
  { apply In_dget; [apply spec_forward_NoDup; exact Hnd|].
    unfold spec_forward_i. apply in_map_iff. exists (k, p). split; [reflexivity|].
    apply filter_In. split; [exact Hkp|]. cbn. apply Z.ltb_lt. exact Hpos. }
  unfold dgetq. rewrite H1, H2. reflexivity.
Qed.

(* keys of q_i: exactly the k - e_i with k_i > 0 *)
Theorem forward_keys P i a :
  In a (dkeys (spec_forward_i P i)) <-> exists k, In k (dkeys P) /\ (0 < knth i k)%Z /\ a = kdec i k.
Proof.
  rewrite spec_forward_keys, in_map_iff. split.
  - intros [k [E H]]. apply filter_In in H. destruct H as [H1 H2]. apply Z.ltb_lt in H2. exists k. auto.
  - intros [k [H1 [H2 E]]]. exists k. split; [auto|]. apply filter_In. split; [exact H1|apply Z.ltb_lt; exact H2].
Qed.

(* sum q_i = 1 *)
Theorem forward_sums_to_one P i :
  valid_jdd P -> ~ mean_spec P i == 0 -> qsum (dvals (spec_forward_i P i)) == 1.
Proof.
  intros [_ [_ HF]] Hm. unfold spec_forward_i, dvals. rewrite map_map. cbn [snd].
  rewrite (qsum_map_div (fun kp => kq i (fst kp) * snd kp)).
  rewrite qsum_filter.
  assert (E : qsum (map (fun x => b2q (Z.ltb 0 (knth i (fst x))) * (kq i (fst x) * snd x)) P) == mean_spec P i).
  { unfold mean_spec. apply qsum_map_ext. intros [k p] Hkp. cbn [fst snd].
    destruct (Z.ltb_spec 0 (knth i k)) as [Hp|Hp]; cbn [b2q]; [ring|].
    assert (Hk : In k (dkeys P)) by (apply in_map_iff; exists (k, p); split; [reflexivity|exact Hkp]).
    rewrite Forall_forall in HF. destruct (HF k Hk) as [_ Hnn].
    assert (Hz : knth i k = 0%Z) by (pose proof (knth_nonneg i k Hnn); lia).
    unfold kq. rewrite Hz. ring. }
  rewrite E. field. exact Hm.
Qed.

(* the model: forward succeeds and agrees exactly with the closed form *)
Theorem forward_correct P :
  valid_jdd P -> mean_defined P ->
  exists qs, forward P = Ok qs /\ length qs = first_len P /\
             forall i, (i < first_len P)%nat -> dict_close 0 (nth i qs []) (spec_forward_i P i).
Proof.
  intros HV HM. unfold forward. rewrite (mean_err_valid P HV).
  assert (HE : existsb (fun i => Qeq_bool (nth i (mean_raw P) 0) 0 && has_pos i P) (seq 0 (first_len P)) = false).
  { apply not_true_is_false. intros H. apply existsb_exists in H. destruct H as [i [Hi H]].
    apply in_seq in Hi. apply andb_true_iff in H. destruct H as [H1 H2].
    apply Qeq_bool_iff in H1. rewrite mean_raw_nth in H1 by (try assumption; lia).
    apply (HM i); [lia|exact H2|exact H1]. }
  rewrite HE. eexists. split; [reflexivity|]. split; [rewrite map_length, seq_length; reflexivity|].
  intros i Hi.
  rewrite (nth_map_seq (fun i => forward_i P (nth i (mean_raw P) 0) i)) by exact Hi.
  apply forward_i_close; [apply HV|apply mean_raw_nth; assumption].
Qed.

(* ====================================================================== inversion *)
Lemma knth_pos_lt i k : (0 < knth i k)%Z -> (i < length k)%nat.
Proof.
  intros H. destruct (Nat.lt_ge_cases i (length k)) as [L|L]; [exact L|].
  unfold knth in H. rewrite nth_overflow in H by exact L. lia.
Qed.

Lemma qsum_pos_member l y : (forall x, In x l -> 0 <= x) -> In y l -> 0 < y -> 0 < qsum l.
Proof.
  induction l as [|x l IH]; intros Hnn HI Hy; [destruct HI|]. cbn [qsum].
  assert (Hx : 0 <= x) by (apply Hnn; left; reflexivity).
  assert (Hl : 0 <= qsum l) by (apply qsum_nonneg; intros z Hz; apply Hnn; right; exact Hz).
  destruct HI as [->|HI].
  - apply Qlt_le_trans with (y + 0); [rewrite Qplus_0_r; exact Hy|]. apply Qplus_le_r. exact Hl.
  - assert (0 < qsum l) by (apply IH; [intros z Hz; apply Hnn; right; exact Hz|exact HI|exact Hy]).
    apply Qlt_le_trans with (0 + qsum l); [rewrite Qplus_0_l; exact H|]. apply Qplus_le_l. exact Hx.
Qed.

Lemma Qpos_neq x : 0 < x -> ~ x == 0.
Proof. intros H E. rewrite E in H. apply (Qlt_irrefl 0). exact H. Qed.

Section InvSingle.
  Variable i : nat.
  Variable avg : Q.
  Hypothesis Havg : ~ avg == 0.
  Let g (kp : key * Q) : key * Q := (kdec i (fst kp), Qred (kq i (fst kp) * snd kp / avg)).

  Lemma inv_scan_forward l :
    Forall (fun kp => (0 < knth i (fst kp))%Z) l -> inv_scan (map g l) i = None.
  Proof.
    induction 1 as [|[k p] l Hk _ IH]; [reflexivity|]. cbn [map g fst snd inv_scan]. cbn [fst] in Hk.
    pose proof (knth_pos_lt i k Hk) as HL.
    rewrite kdec_length. destruct (Nat.leb_spec (length k) i) as [L|_]; [lia|].
    rewrite knth_kdec by exact HL. destruct (Z.eqb_spec (knth i k - 1 + 1) 0) as [E|_]; [lia|]. exact IH.
  Qed.

  Lemma inv_term_forward k p : (0 < knth i k)%Z -> inv_term i (g (k, p)) == p / avg.
  Proof.
    intros Hk. unfold inv_term, g. cbn [fst snd]. rewrite Qred_correct.
    rewrite knth_kdec by (apply knth_pos_lt; exact Hk).
    replace (knth i k - 1 + 1)%Z with (knth i k) by lia. unfold kq. field. split; [exact Havg|].
    intros E. unfold Qeq in E. cbn in E. lia.
  Qed.

  Lemma bottom_forward l :
    Forall (fun kp => (0 < knth i (fst kp))%Z) l ->
    qsum (map (inv_term i) (map g l)) == qsum (dvals l) / avg.
  Proof.
    intros HF. unfold dvals. rewrite <- (qsum_map_div snd). rewrite map_map.
    apply qsum_map_ext. intros [k p] Hkp. rewrite Forall_forall in HF. specialize (HF (k, p) Hkp). cbn [fst] in HF.
    rewrite inv_term_forward by exact HF. reflexivity.
  Qed.

  Lemma invert_single_forward l :
    Forall (fun kp => (0 < knth i (fst kp))%Z) l -> l <> [] -> ~ qsum (dvals l) == 0 ->
    exists d, invert_single (map g l) i = Ok d /\ dkeys d = dkeys l /\
              Forall2 (fun x y => x == y / qsum (dvals l)) (dvals d) (dvals l).
  Proof.
    intros HF Hne HS. unfold invert_single. rewrite inv_scan_forward by exact HF.
    destruct (map g l) as [|x m] eqn:Em; [destruct l; [congruence|discriminate]|]. rewrite <- Em.
    assert (Hb : Qred (qsum (map (inv_term i) (map g l))) == qsum (dvals l) / avg)
      by (rewrite Qred_correct; apply bottom_forward; exact HF).
    assert (Hb0 : ~ Qred (qsum (map (inv_term i) (map g l))) == 0).
    { rewrite Hb. intros E. apply HS. apply (Qmult_inj_r _ _ (/ avg)).
      - intros E2. apply Havg. rewrite <- (Qinv_involutive avg), E2. reflexivity.
      - unfold Qdiv in E. rewrite E. ring. }
    apply Qeq_bool_false in Hb0. rewrite Hb0.
    set (B := Qred (qsum (map (inv_term i) (map g l)))) in *. clearbody B.
    eexists. split; [reflexivity|]. split.
    - unfold dkeys. rewrite !map_map. apply map_ext. intros [k p]. cbn. apply kinc_kdec.
    - unfold dvals in *. rewrite !map_map. cbn [snd].
      clear Em Hne Hb0. set (S := qsum (map snd l)) in *. clearbody S.
      induction HF as [|[k p] l Hk _ IH]; [constructor|]. cbn [map]. constructor; [|exact IH].
      rewrite Qred_correct, Hb, inv_term_forward by exact Hk. cbn [snd].
      field. split; [exact HS|exact Havg].
  Qed.
End InvSingle.

Lemma Forall2_Forall_r {A B} (R : A -> B -> Prop) l1 l2 :
  Forall2 R l1 l2 -> Forall (fun b => exists a, In a l1 /\ R a b) l2.
Proof.
  induction 1 as [|a b l1 l2 H _ IH]; constructor.
  - exists a. split; [left; reflexivity|exact H].
  - eapply Forall_impl; [|exact IH]. cbn. intros b' [a' [Ha HR]]. exists a'. split; [right; exact Ha|exact HR].
Qed.

Lemma enum_from_In {A} (l : list A) j i x :
  In (i, x) (enum_from j l) -> (j <= i)%nat /\ nth_error l (i - j) = Some x.
Proof.
  revert j. induction l as [|y l IH]; intros j H; [destruct H|]. cbn [enum_from] in H.
  destruct H as [E|H].
  - injection E as -> ->. rewrite Nat.sub_diag. split; [lia|reflexivity].
  - apply IH in H. destruct H as [H1 H2]. split; [lia|].
    replace (i - j)%nat with (S (i - S j)) by lia. exact H2.
Qed.

Lemma nget_app_fresh {A} (m : list (nat * A)) n a :
  ~ In n (map fst m) -> nset m n a = m ++ [(n, a)].
Proof.
  induction m as [|[n' b] m IH]; intros H; [reflexivity|]. cbn [nset].
  destruct (Nat.eqb_spec n n') as [->|Hne]; [exfalso; apply H; left; reflexivity|].
  cbn [app]. rewrite IH; [reflexivity|]. intros HI. apply H. right. exact HI.
Qed.

Lemma Forall2_In_l {A B} (R : A -> B -> Prop) l1 l2 a :
  Forall2 R l1 l2 -> In a l1 -> exists b, In b l2 /\ R a b.
Proof.
  induction 1 as [|x y l1 l2 H _ IH]; intros HI; [destruct HI|]. destruct HI as [->|HI].
  - exists y. split; [left; reflexivity|exact H].
  - destruct (IH HI) as [b [Hb HR]]. exists b. split; [right; exact Hb|exact HR].
Qed.

Lemma Forall2_In_r {A B} (R : A -> B -> Prop) l1 l2 b :
  Forall2 R l1 l2 -> In b l2 -> exists a, In a l1 /\ R a b.
Proof.
  induction 1 as [|x y l1 l2 H _ IH]; intros HI; [destruct HI|]. destruct HI as [->|HI].
  - exists x. split; [left; reflexivity|exact H].
  - destruct (IH HI) as [a [Ha HR]]. exists a. split; [right; exact Ha|exact HR].
Qed.

Lemma enum_from_nth {A} (l : list A) j i x : nth_error l i = Some x -> In ((j + i)%nat, x) (enum_from j l).
Proof.
  revert j i. induction l as [|y l IH]; intros j [|i] H; cbn in H; try discriminate.
  - injection H as ->. rewrite Nat.add_0_r. left. reflexivity.
  - cbn [enum_from]. right. replace (j + S i)%nat with (S j + i)%nat by lia. apply IH. exact H.
Qed.

Section Inverse.
  Variable P : dict.
  Hypothesis HV : valid_jdd P.
  Hypothesis HT : (0 < first_len P)%nat.
  Hypothesis Hpos : Forall (fun kp => 0 < snd kp) P.
  Variable kstar : key.
  Hypothesis Hstar : In kstar (dkeys P) /\ Forall (fun x => (0 < x)%Z) kstar.
  Let T := first_len P.

  Definition FP (i : nat) : dict := filter (fun kp => Z.ltb 0 (knth i (fst kp))) P.
  Definition SS (i : nat) : Q := qsum (dvals (FP i)).

  Lemma P_dgetq k p : In (k, p) P -> dgetq P k = p.
  Proof. intros H. unfold dgetq. rewrite (In_dget P k p); [reflexivity|apply HV|exact H]. Qed.

  Lemma P_key_len k : In k (dkeys P) -> length k = T.
  Proof. intros H. destruct HV as [_ [_ HF]]. rewrite Forall_forall in HF. apply HF. exact H. Qed.

  Lemma kstar_pos i : (i < T)%nat -> (0 < knth i kstar)%Z.
  Proof.
    intros Hi. destruct Hstar as [H1 H2]. rewrite Forall_forall in H2. apply H2. unfold knth.
    apply nth_In. rewrite (P_key_len kstar H1). exact Hi.
  Qed.

  Lemma FP_pos i : Forall (fun kp => (0 < knth i (fst kp))%Z) (FP i).
  Proof. apply Forall_forall. intros kp H. apply filter_In in H. apply Z.ltb_lt. apply H. Qed.

  Lemma FP_sub i kp : In kp (FP i) -> In kp P.
  Proof. intros H. apply filter_In in H. apply H. Qed.

  Lemma FP_star i : (i < T)%nat -> exists p, In (kstar, p) (FP i) /\ 0 < p.
  Proof.
    intros Hi. destruct Hstar as [H1 _]. apply in_map_iff in H1. destruct H1 as [[k p] [E H1]]. cbn in E. subst k.
    exists p. split.
    - apply filter_In. split; [exact H1|]. apply Z.ltb_lt. cbn [fst]. apply kstar_pos. exact Hi.
    - rewrite Forall_forall in Hpos. apply (Hpos (kstar, p) H1).
  Qed.

  Lemma SS_pos i : (i < T)%nat -> 0 < SS i.
  Proof.
    intros Hi. destruct (FP_star i Hi) as [p [H1 H2]]. unfold SS, dvals.
    apply (qsum_pos_member _ p); [|apply in_map_iff; exists (kstar, p); split; [reflexivity|exact H1]|exact H2].
    intros x Hx. apply in_map_iff in Hx. destruct Hx as [kp [<- Hkp]]. apply Qlt_le_weak.
    rewrite Forall_forall in Hpos. apply Hpos. apply (FP_sub i). exact Hkp.
  Qed.

  Lemma mean_pos i : (i < T)%nat -> 0 < mean_spec P i.
  Proof.
    intros Hi. destruct (FP_star i Hi) as [p [H1 H2]]. unfold mean_spec.
    apply (qsum_pos_member _ (kq i kstar * p)).
    - intros x Hx. apply in_map_iff in Hx. destruct Hx as [[k q] [<- Hkp]]. cbn [fst snd].
      apply Qmult_le_0_compat.
      + unfold kq. change 0 with (inject_Z 0). rewrite <- Zle_Qle. apply knth_nonneg.
        destruct HV as [_ [_ HF]]. rewrite Forall_forall in HF. apply HF. apply in_map_iff. exists (k, q). split; [reflexivity|exact Hkp].
      + apply Qlt_le_weak. rewrite Forall_forall in Hpos. apply (Hpos (k, q) Hkp).
    - apply in_map_iff. exists (kstar, p). split; [reflexivity|]. apply (FP_sub i). exact H1.
    - apply Qmult_lt_0_compat; [|exact H2]. unfold kq. change 0 with (inject_Z 0). rewrite <- Zlt_Qlt.
      apply kstar_pos. exact Hi.
  Qed.

  Lemma mean_defined_P : mean_defined P.
  Proof. intros i Hi _. apply Qpos_neq. apply mean_pos. exact Hi. Qed.

  (* what a good observation for index i looks like *)
  Definition Good (i : nat) (d : dict) : Prop :=
    dkeys d = dkeys (FP i) /\ Forall (fun kv => snd kv == dgetq P (fst kv) / SS i) d.

  Lemma zip_good (d l : dict) s :
    dkeys d = dkeys l -> Forall2 (fun x y => x == y / s) (dvals d) (dvals l) ->
    Forall (fun kp => dgetq P (fst kp) = snd kp) l ->
    Forall (fun kv => snd kv == dgetq P (fst kv) / s) d.
  Proof.
    revert l. induction d as [|[k v] d IH]; intros [|[k' p] l] HK HVs HL; try discriminate; [constructor|].
    cbn in HK. injection HK as -> HK. unfold dvals in HVs. cbn [map snd] in HVs.
    inversion HVs as [|? ? ? ? Hv HVs']; subst. inversion HL as [|? ? Hp HL']; subst.
    constructor; [|apply (IH l); assumption]. cbn [fst snd] in *. rewrite Hp. exact Hv.
  Qed.

  Lemma invert_single_good i avg :
    (i < T)%nat -> avg == mean_spec P i -> exists d, invert_single (forward_i P avg i) i = Ok d /\ Good i d.
  Proof.
    intros Hi Ha.
    assert (Havg : ~ avg == 0) by (rewrite Ha; apply Qpos_neq, mean_pos; exact Hi).
    destruct (invert_single_forward i avg Havg (FP i) (FP_pos i)) as [d [H1 [H2 H3]]].
    - destruct (FP_star i Hi) as [p [H _]]. intros E. rewrite E in H. destruct H.
    - apply Qpos_neq. apply SS_pos. exact Hi.
    - exists d. split; [exact H1|]. split; [exact H2|].
      apply (zip_good d (FP i) (SS i) H2 H3). apply Forall_forall. intros [k p] Hkp. cbn [fst snd].
      apply P_dgetq. apply (FP_sub i). exact Hkp.
  Qed.

  (* ---- the observations ---- *)
  Variable qks : list (nat * dict).
  Variable names : list nat.
  Hypothesis HN : NoDup names.
  Hypothesis HL : length names = T.
  Hypothesis Hq : forall i name, nth_error names i = Some name ->
                  exists avg, avg == mean_spec P i /\ nget qks name = Some (forward_i P avg i).

  Lemma observations_ok rest : forall j acc,
    (forall i name, nth_error rest i = Some name -> nth_error names (j + i) = Some name) ->
    NoDup (map fst acc ++ rest) ->
    exists obs', observations qks (enum_from j rest) acc = Ok (acc ++ obs') /\
                 Forall2 (fun it o => fst o = snd it /\ Good (fst it) (snd o)) (enum_from j rest) obs'.
  Proof.
    induction rest as [|name rest IH]; intros j acc Hn Hnd.
    - exists []. rewrite app_nil_r. split; [reflexivity|constructor].
    - cbn [enum_from observations].
      assert (Hj : nth_error names j = Some name) by (rewrite <- (Nat.add_0_r j); apply Hn; reflexivity).
      destruct (Hq j name Hj) as [avg [Ha Hg]]. rewrite Hg.
      assert (HjT : (j < T)%nat) by (rewrite <- HL; apply nth_error_Some; congruence).
      destruct (invert_single_good j avg HjT Ha) as [d [Hd HG]]. rewrite Hd.
      assert (Hfresh : ~ In name (map fst acc)).
      { intros HI. apply NoDup_remove_2 in Hnd. apply Hnd. apply in_or_app. left. exact HI. }
      rewrite (nget_app_fresh acc name d Hfresh).
      destruct (IH (S j) (acc ++ [(name, d)])) as [obs' [H1 H2]].
      + intros i nm Hi. replace (S j + i)%nat with (j + S i)%nat by lia. apply Hn. exact Hi.
      + rewrite map_app. cbn [map fst]. rewrite <- app_assoc. cbn [app].
        apply NoDup_remove_1 in Hnd as Hnd1.
        apply NoDup_remove_2 in Hnd as Hnd2.
        clear - Hnd1 Hnd2. revert Hnd1 Hnd2. generalize (map fst acc) as l. intros l.
        induction l as [|x l IHl]; cbn [app]; intros H1 H2.
        * constructor; assumption.
        * inversion H1; subst. constructor.
          -- intros HI. apply in_app_or in HI. destruct HI as [HI|[HI|HI]].
             ++ apply H3. apply in_or_app. left. exact HI.
             ++ apply H2. left. symmetry. exact HI.
             ++ apply H3. apply in_or_app. right. exact HI.
          -- apply IHl; [exact H4|]. intros HI. apply H2. right. exact HI.
      + exists ((name, d) :: obs'). split.
        * rewrite H1, <- app_assoc. reflexivity.
        * constructor; [split; [reflexivity|exact HG]|exact H2].
  Qed.

  (* ---- rescaling to the reference topology ---- *)
  Definition Fv (k : key) : Q := dgetq P k / SS 0.
  Definition Fent (kv : key * Q) : Prop := snd kv == Fv (fst kv).

  Lemma P_val_pos k : In k (dkeys P) -> 0 < dgetq P k.
  Proof.
    intros H. apply in_map_iff in H. destruct H as [[k' p] [E H]]. cbn in E. subst k'.
    rewrite (P_dgetq k p H). rewrite Forall_forall in Hpos. apply (Hpos (k, p) H).
  Qed.

  Lemma dkeys_dmapv f m : dkeys (dmapv f m) = dkeys m.
  Proof. unfold dkeys, dmapv. rewrite map_map. reflexivity. Qed.

  Lemma FP_keys_sub i k : In k (dkeys (FP i)) -> In k (dkeys P) /\ (0 < knth i k)%Z.
  Proof.
    intros H. apply in_map_iff in H. destruct H as [[k' p] [E H]]. cbn in E. subst k'.
    apply filter_In in H. destruct H as [H1 H2]. split; [apply in_map_iff; exists (k, p); split; [reflexivity|exact H1]|].
    apply Z.ltb_lt. exact H2.
  Qed.

  Variable ref : nat.
  Definition Inv (o : nat * dict) : Prop :=
    exists i, (i < T)%nat /\ (fst o = ref -> i = 0%nat) /\ Good i (snd o).

  Lemma scale_ok ck base obs :
    base == dgetq P ck / SS 0 ->
    Forall Inv obs -> (forall o, In o obs -> In ck (dkeys (snd o))) ->
    exists sc, scale_obs base ck ref obs = Ok sc /\
               Forall2 (fun o s => dkeys (snd s) = dkeys (snd o) /\ Forall Fent (snd s)) obs sc.
  Proof.
    intros Hb HI Hck. induction obs as [|[t d] obs IH].
    - exists []. split; [reflexivity|constructor].
    - inversion HI as [|? ? [i [Hi [Hr [HG1 HG2]]]] HI']; subst. cbn [fst snd] in *.
      destruct (IH HI') as [sc [H1 H2]]; [intros o Ho; apply Hck; right; exact Ho|].
      cbn [scale_obs]. destruct (Nat.eqb_spec ref t) as [E|Hne].
      + rewrite H1. eexists. split; [reflexivity|]. constructor; [|exact H2]. cbn [snd]. split; [reflexivity|].
        rewrite (Hr (eq_sym E)) in HG2. exact HG2.
      + assert (Hckd : In ck (dkeys d)) by (apply (Hck (t, d)); left; reflexivity).
        assert (HckP : In ck (dkeys P)) by (rewrite HG1 in Hckd; apply (FP_keys_sub i ck Hckd)).
        assert (Hx : dgetq d ck == dgetq P ck / SS i).
        { apply (Forall_dgetq (fun k => dgetq P k / SS i) d ck HG2 Hckd). }
        pose proof (Qpos_neq _ (P_val_pos ck HckP)) as Hp0.
        pose proof (Qpos_neq _ (SS_pos i Hi)) as Hs0.
        pose proof (Qpos_neq _ (SS_pos 0%nat HT)) as Hs00.
        assert (Hx0 : ~ dgetq d ck == 0).
        { rewrite Hx. intros E. apply Hp0. apply (Qmult_inj_r _ _ (/ SS i)).
          - intros E2. apply Hs0. rewrite <- (Qinv_involutive (SS i)), E2. reflexivity.
          - unfold Qdiv in E. rewrite E. ring. }
        apply Qeq_bool_false in Hx0 as Hx0b. rewrite Hx0b, H1. eexists. split; [reflexivity|].
        constructor; [|exact H2]. cbn [snd]. split; [apply dkeys_dmapv|].
        unfold dmapv. apply Forall_forall. intros kv Hkv. apply in_map_iff in Hkv.
        destruct Hkv as [[k v] [<- Hkv]]. unfold Fent, Fv. cbn [fst snd]. rewrite Qred_correct.
        rewrite Forall_forall in HG2. specialize (HG2 (k, v) Hkv). cbn [fst snd] in HG2.
        rewrite HG2, Hb, Hx. field. repeat split; assumption.
  Qed.

  (* ---- merging ---- *)
  Lemma merge_fold_inv (sc : list (nat * dict)) : forall acc : dict,
    Forall Fent acc -> NoDup (dkeys acc) -> Forall (fun s : nat * dict => Forall Fent (snd s)) sc ->
    let m := fold_left (fun (P : dict) (o : nat * dict) => dupdate P (snd o)) sc acc in
    Forall Fent m /\ NoDup (dkeys m) /\
    (forall k, In k (dkeys m) <-> In k (dkeys acc) \/ exists s, In s sc /\ In k (dkeys (snd s))).
  Proof.
    induction sc as [|s sc IH]; intros acc H1 H2 H3; cbn [fold_left].
    - split; [exact H1|]. split; [exact H2|]. intros k. split; [tauto|]. intros [H|[s [[] _]]]. exact H.
    - inversion H3 as [|? ? H3a H3b]; subst.
      destruct (IH (dupdate acc (snd s)) (dupdate_Forall _ _ _ H1 H3a) (dupdate_NoDup _ _ H2) H3b) as [A [B C]].
      split; [exact A|]. split; [exact B|]. intros k. rewrite C, dupdate_keys. split.
      + intros [[H|H]|[s' [Hs' H]]]; [left; exact H|right; exists s; split; [left; reflexivity|exact H]|].
        right. exists s'. split; [right; exact Hs'|exact H].
      + intros [H|[s' [[->|Hs'] H]]]; [left; left; exact H|left; right; exact H|].
        right. exists s'. split; assumption.
  Qed.

  (* ---- non-zero keys ---- *)
  Lemma knonzero_iff k : length k = T -> Forall (fun x => (0 <= x)%Z) k ->
    (knonzero k = true <-> exists i, (i < T)%nat /\ (0 < knth i k)%Z).
  Proof.
    intros HLk Hnn. unfold knonzero. rewrite existsb_exists. split.
    - intros [x [Hx H]]. apply negb_true_iff, Z.eqb_neq in H.
      destruct (In_nth k x 0%Z Hx) as [i [Hi E]]. exists i. split; [lia|]. unfold knth. rewrite E.
      rewrite Forall_forall in Hnn. specialize (Hnn x Hx). lia.
    - intros [i [Hi H]]. exists (knth i k). split; [unfold knth; apply nth_In; lia|].
      apply negb_true_iff, Z.eqb_neq. lia.
  Qed.

  (* ---- assembling ---- *)
  Hypothesis Href : nth_error names 0 = Some ref.

  Lemma spec_inverse_keys : dkeys (spec_inverse P) = filter knonzero (dkeys P).
  Proof.
    unfold spec_inverse. rewrite <- (dkeys_filter knonzero). unfold dkeys. rewrite map_map. reflexivity.
  Qed.

  Lemma spec_inverse_ent :
    Forall (fun kv => snd kv == dgetq P (fst kv) / nonzero_mass P) (spec_inverse P).
  Proof.
    unfold spec_inverse. apply Forall_forall. intros kv H. apply in_map_iff in H.
    destruct H as [[k p] [<- H]]. cbn [fst snd]. apply filter_In in H. destruct H as [H _].
    rewrite (P_dgetq k p H). reflexivity.
  Qed.

  Lemma nonzero_mass_Fv :
    qsum (map Fv (filter knonzero (dkeys P))) == nonzero_mass P / SS 0.
  Proof.
    unfold nonzero_mass, dvals. rewrite <- (qsum_map_div snd).
    rewrite <- (dkeys_filter knonzero). unfold dkeys. rewrite map_map.
    apply qsum_map_ext. intros [k p] H. apply filter_In in H. destruct H as [H _].
    unfold Fv. cbn [fst snd]. rewrite (P_dgetq k p H). reflexivity.
  Qed.

  Lemma kstar_nonzero : knonzero kstar = true.
  Proof.
    destruct Hstar as [H1 H2]. apply (knonzero_iff kstar (P_key_len kstar H1)).
    - eapply Forall_impl; [|exact H2]. cbn. intros; lia.
    - exists 0%nat. split; [exact HT|apply kstar_pos; exact HT].
  Qed.

  Lemma nonzero_mass_pos : 0 < nonzero_mass P.
  Proof.
    destruct Hstar as [H1 _]. apply in_map_iff in H1. destruct H1 as [[k p] [E H1]]. cbn in E. subst k.
    unfold nonzero_mass, dvals. apply (qsum_pos_member _ p).
    - intros x Hx. apply in_map_iff in Hx. destruct Hx as [kp [<- Hkp]]. apply filter_In in Hkp.
      apply Qlt_le_weak. rewrite Forall_forall in Hpos. apply Hpos. apply Hkp.
    - apply in_map_iff. exists (kstar, p). split; [reflexivity|]. apply filter_In. split; [exact H1|apply kstar_nonzero].
    - rewrite Forall_forall in Hpos. apply (Hpos (kstar, p) H1).
  Qed.

  Theorem invert_correct :
    exists l, invert_all qks names = Ok l /\ l <> [] /\
      forall ck r, In (ck, r) l -> exists d, r = Ok d /\ dict_close 0 d (spec_inverse P).
  Proof.
    destruct (observations_ok names 0%nat []) as [obs [HO1 HO2]].
    { intros i name H. exact H. }
    { cbn. exact HN. }
    cbn [app] in HO1. unfold invert_all. rewrite HO1.
    destruct names as [|n0 names'] eqn:En; [discriminate|]. cbn in Href. injection Href as ->.
    rewrite <- En in *.
    (* invariant on every observation *)
    assert (HInv : Forall Inv obs).
    { apply Forall_forall. intros o Ho. destruct (Forall2_In_r _ _ _ o HO2 Ho) as [[i nm] [Hit [E HG]]].
      cbn [fst snd] in *. apply enum_from_In in Hit. destruct Hit as [_ Hit]. rewrite Nat.sub_0_r in Hit.
      exists i. split; [rewrite <- HL; apply nth_error_Some; congruence|]. split; [|exact HG].
      intros Er. rewrite NoDup_nth_error in HN. apply HN.
      - apply nth_error_Some. congruence.
      - rewrite Hit, En. cbn. congruence. }
    assert (Hcover : forall i, (i < T)%nat -> exists o, In o obs /\ Good i (snd o)).
    { intros i Hi. destruct (nth_error names i) as [nm|] eqn:E; [|apply nth_error_None in E; lia].
      pose proof (enum_from_nth names 0%nat i nm E) as Hin. cbn [plus] in Hin.
      destruct (Forall2_In_l _ _ _ _ HO2 Hin) as [o [Ho [_ HG]]]. exists o. split; assumption. }
    (* the first observation is the reference *)
    destruct obs as [|[t0 d0] obs'].
    { rewrite En in HO2. cbn in HO2. inversion HO2. }
    assert (Ht0 : t0 = ref /\ Good 0%nat d0).
    { rewrite En in HO2. cbn [enum_from] in HO2. inversion HO2 as [|? ? ? ? [E HG] _]; subst. cbn in E, HG. split; assumption. }
    destruct Ht0 as [-> HG0].
    (* common keys *)
    assert (Hstar_in : forall i, (i < T)%nat -> In kstar (dkeys (FP i))).
    { intros i Hi. destruct (FP_star i Hi) as [p [H _]]. apply in_map_iff. exists (kstar, p). split; [reflexivity|exact H]. }
    assert (Hck_all : forall ck, In ck (common_keys ((ref, d0) :: obs')) ->
                                 forall o, In o ((ref, d0) :: obs') -> In ck (dkeys (snd o))).
    { intros ck H o Ho. cbn [common_keys] in H. apply filter_In in H. destruct H as [H1 H2].
      destruct Ho as [<-|Ho]; [exact H1|]. rewrite forallb_forall in H2. apply dmem_In. apply H2. exact Ho. }
    assert (Hstar_ck : In kstar (common_keys ((ref, d0) :: obs'))).
    { cbn [common_keys]. apply filter_In. split.
      - destruct HG0 as [E _]. rewrite E. apply Hstar_in. exact HT.
      - apply forallb_forall. intros o Ho. apply dmem_In.
        rewrite Forall_forall in HInv. destruct (HInv o (or_intror Ho)) as [i [Hi [_ [E _]]]]. rewrite E. apply Hstar_in. exact Hi. }
    destruct (common_keys ((ref, d0) :: obs')) as [|ck0 cks] eqn:Ecks; [destruct Hstar_ck|].
    eexists. split; [reflexivity|]. split; [discriminate|].
    intros ck r Hin. apply in_map_iff in Hin. destruct Hin as [ck' [E Hck]]. injection E as -> <-.
    specialize (Hck_all ck Hck).
    (* invert_with *)
    unfold invert_with. cbn [nget]. rewrite Nat.eqb_refl.
    assert (HckP : In ck (dkeys P)).
    { destruct HG0 as [E _]. specialize (Hck_all (ref, d0) (or_introl eq_refl)). cbn [snd] in Hck_all.
      rewrite E in Hck_all. apply (FP_keys_sub 0%nat ck Hck_all). }
    assert (Hbase : dgetq d0 ck == dgetq P ck / SS 0).
    { destruct HG0 as [_ HF]. apply (Forall_dgetq (fun k => dgetq P k / SS 0) d0 ck HF).
      apply (Hck_all (ref, d0)). left. reflexivity. }
    destruct (scale_ok ck (dgetq d0 ck) ((ref, d0) :: obs') Hbase HInv Hck_all) as [sc [Hsc1 Hsc2]].
    rewrite Hsc1.
    assert (HscF : Forall (fun s : nat * dict => Forall Fent (snd s)) sc).
    { apply Forall_forall. intros s Hs. destruct (Forall2_In_r _ _ _ s Hsc2 Hs) as [o [_ [_ H]]]. exact H. }
    destruct (merge_fold_inv sc [] (Forall_nil _) (NoDup_nil _) HscF) as [HmF [HmN HmK]].
    fold (merge sc) in HmF, HmN, HmK.
    (* key set of the merge *)
    assert (Hkeys : forall k, In k (dkeys (merge sc)) <-> In k (filter knonzero (dkeys P))).
    { intros k. rewrite HmK. cbn [dkeys map]. split.
      - intros [[]|[s [Hs Hk]]]. destruct (Forall2_In_r _ _ _ s Hsc2 Hs) as [o [Ho [E _]]]. rewrite E in Hk.
        rewrite Forall_forall in HInv. destruct (HInv o Ho) as [i [Hi [_ [E2 _]]]]. rewrite E2 in Hk.
        apply FP_keys_sub in Hk. destruct Hk as [Hk1 Hk2]. apply filter_In. split; [exact Hk1|].
        apply (knonzero_iff k (P_key_len k Hk1)).
        + destruct HV as [_ [_ HF]]. rewrite Forall_forall in HF. apply HF. exact Hk1.
        + exists i. split; assumption.
      - intros H. apply filter_In in H. destruct H as [Hk1 Hk2]. right.
        apply (knonzero_iff k (P_key_len k Hk1)) in Hk2;
          [|destruct HV as [_ [_ HF]]; rewrite Forall_forall in HF; apply HF; exact Hk1].
        destruct Hk2 as [i [Hi Hp]]. destruct (Hcover i Hi) as [o [Ho [E _]]].
        destruct (Forall2_In_l _ _ _ o Hsc2 Ho) as [s [Hs [E2 _]]]. exists s. split; [exact Hs|].
        rewrite E2, E. apply in_map_iff in Hk1. destruct Hk1 as [[k' p] [E3 Hkp]]. cbn in E3. subst k'.
        apply in_map_iff. exists (k, p). split; [reflexivity|]. apply filter_In. split; [exact Hkp|].
        apply Z.ltb_lt. exact Hp. }
    (* total *)
    assert (Htot : Qred (qsum (dvals (merge sc))) == nonzero_mass P / SS 0).
    { rewrite Qred_correct, (Forall_dvals Fv _ HmF).
      rewrite (qsum_map_set_eq Fv (dkeys (merge sc)) (filter knonzero (dkeys P)) HmN); [apply nonzero_mass_Fv| |exact Hkeys].
      apply NoDup_filter. apply HV. }
    pose proof (Qpos_neq _ nonzero_mass_pos) as Hm0.
    pose proof (Qpos_neq _ (SS_pos 0%nat HT)) as Hs00.
    assert (Htot0 : ~ Qred (qsum (dvals (merge sc))) == 0).
    { rewrite Htot. intros E. apply Hm0. apply (Qmult_inj_r _ _ (/ SS 0)).
      - intros E2. apply Hs00. rewrite <- (Qinv_involutive (SS 0)), E2. reflexivity.
      - unfold Qdiv in E. rewrite E. ring. }
    unfold renormalise.
    destruct (merge sc) as [|x m'] eqn:Em.
    { exfalso. assert (H : In kstar (dkeys [])) by (apply Hkeys; apply filter_In; split; [apply Hstar|apply kstar_nonzero]). destruct H. }
    rewrite <- Em in *. apply Qeq_bool_false in Htot0 as Hb. rewrite Hb.
    eexists. split; [reflexivity|].
    set (tot := Qred (qsum (dvals (merge sc)))) in *.
    assert (HresF : Forall (fun kv => snd kv == dgetq P (fst kv) / nonzero_mass P) (dmapv (fun v => Qred (v / tot)) (merge sc))).
    { unfold dmapv. apply Forall_forall. intros kv Hkv. apply in_map_iff in Hkv. destruct Hkv as [[k v] [<- Hkv]].
      cbn [fst snd]. rewrite Qred_correct. rewrite Forall_forall in HmF. specialize (HmF (k, v) Hkv).
      unfold Fent, Fv in HmF. cbn [fst snd] in HmF. rewrite HmF, Htot. field. split; assumption. }
    split; [apply Qle_refl|]. split; [rewrite dkeys_dmapv; exact HmN|]. split.
    - intros k. rewrite dkeys_dmapv, spec_inverse_keys. apply Hkeys.
    - intros k. apply Qabs_zero_le; [apply Qle_refl|].
      destruct (in_dec (list_eq_dec Z.eq_dec) k (dkeys (merge sc))) as [HI|HI].
      + rewrite (Forall_dgetq (fun k => dgetq P k / nonzero_mass P) _ k HresF) by (rewrite dkeys_dmapv; exact HI).
        rewrite (Forall_dgetq (fun k => dgetq P k / nonzero_mass P) _ k spec_inverse_ent); [reflexivity|].
        rewrite spec_inverse_keys. apply Hkeys. exact HI.
      + rewrite dgetq_notin by (rewrite dkeys_dmapv; exact HI).
        rewrite dgetq_notin; [reflexivity|]. rewrite spec_inverse_keys. intros H. apply HI, Hkeys, H.
  Qed.
End Inverse.

(* ---------- forward followed by the inversion ---------- *)
Lemma forward_struct P : valid_jdd P -> mean_defined P ->
  forward P = Ok (map (fun i => forward_i P (nth i (mean_raw P) 0) i) (seq 0 (first_len P))).
Proof.
  intros HV HM. unfold forward. rewrite (mean_err_valid P HV).
  assert (HE : existsb (fun i => Qeq_bool (nth i (mean_raw P) 0) 0 && has_pos i P) (seq 0 (first_len P)) = false).
  { apply not_true_is_false. intros H. apply existsb_exists in H. destruct H as [i [Hi H]].
    apply in_seq in Hi. apply andb_true_iff in H. destruct H as [H1 H2].
    apply Qeq_bool_iff in H1. rewrite mean_raw_nth in H1 by (try assumption; lia).
    apply (HM i); [lia|exact H2|exact H1]. }
  rewrite HE. reflexivity.
Qed.

Lemma fold_nset_fresh {A} (l : list (nat * A)) : forall acc,
  NoDup (map fst acc ++ map fst l) ->
  fold_left (fun a nd => nset a (fst nd) (snd nd)) l acc = acc ++ l.
Proof.
  induction l as [|[n d] l IH]; intros acc H; cbn [fold_left fst snd]; [rewrite app_nil_r; reflexivity|].
  cbn [map fst] in H.
  rewrite nget_app_fresh by (apply NoDup_remove_2 in H; intros HI; apply H; apply in_or_app; left; exact HI).
  rewrite IH; [rewrite <- app_assoc; reflexivity|].
  rewrite map_app. cbn [map fst]. rewrite <- app_assoc. exact H.
Qed.

Lemma nget_combine {A} names : forall (qs : list A) i name q,
  NoDup names -> nth_error names i = Some name -> nth_error qs i = Some q ->
  nget (combine names qs) name = Some q.
Proof.
  induction names as [|n names IH]; intros qs i name q Hnd Hn Hq; [destruct i; discriminate|].
  destruct qs as [|q0 qs]; [destruct i; discriminate|]. cbn [combine nget].
  inversion Hnd as [|? ? Hnin Hnd']; subst. destruct i as [|i]; cbn in Hn, Hq.
  - injection Hn as ->. injection Hq as ->. rewrite Nat.eqb_refl. reflexivity.
  - destruct (Nat.eqb_spec name n) as [->|_]; [exfalso; apply Hnin; eapply nth_error_In; eauto|].
    apply (IH qs i); assumption.
Qed.

Lemma map_fst_combine {A} (names : list nat) (qs : list A) :
  length names = length qs -> map fst (combine names qs) = names.
Proof.
  revert qs. induction names as [|n names IH]; intros [|q qs] H; cbn in *; try discriminate; [reflexivity|].
  f_equal. apply IH. lia.
Qed.

Lemma nth_error_seq_gen n : forall s i, (i < n)%nat -> nth_error (seq s n) i = Some (s + i)%nat.
Proof.
  induction n as [|n IH]; intros s i H; [lia|]. destruct i as [|i]; cbn [seq nth_error].
  - rewrite Nat.add_0_r. reflexivity.
  - rewrite IH by lia. f_equal. lia.
Qed.

Lemma nth_error_seq0 n i : (i < n)%nat -> nth_error (seq 0 n) i = Some i.
Proof. intros H. rewrite nth_error_seq_gen by exact H. reflexivity. Qed.

Theorem roundtrip_correct P names kstar :
  valid_jdd P -> (0 < first_len P)%nat -> Forall (fun kp => 0 < snd kp) P ->
  In kstar (dkeys P) /\ Forall (fun x => (0 < x)%Z) kstar ->
  NoDup names -> length names = first_len P ->
  exists l, roundtrip P names = Ok l /\ l <> [] /\
    forall ck r, In (ck, r) l -> exists d, r = Ok d /\ dict_close 0 d (spec_inverse P).
Proof.
  intros HV HT Hpos Hstar HN HL.
  pose proof (mean_defined_P P HV Hpos kstar Hstar) as HM.
  unfold roundtrip. rewrite (forward_struct P HV HM).
  set (qs := map (fun i => forward_i P (nth i (mean_raw P) 0) i) (seq 0 (first_len P))).
  assert (Hlen : length names = length qs) by (unfold qs; rewrite map_length, seq_length; exact HL).
  assert (Hqks : qks_of_list names qs = combine names qs).
  { unfold qks_of_list. rewrite fold_nset_fresh; [reflexivity|]. cbn [map app]. rewrite map_fst_combine by exact Hlen. exact HN. }
  rewrite Hqks.
  destruct names as [|ref names'] eqn:En; [cbn in HL; lia|]. rewrite <- En in *.
  apply (invert_correct P HV HT Hpos kstar Hstar (combine names qs) names HN HL) with (ref := ref).
  - intros i name Hi. exists (nth i (mean_raw P) 0).
    assert (HiT : (i < first_len P)%nat) by (rewrite <- HL; apply nth_error_Some; congruence).
    split; [apply mean_raw_nth; assumption|].
    apply (nget_combine names qs i name); [exact HN|exact Hi|].
    unfold qs. apply (map_nth_error (fun i => forward_i P (nth i (mean_raw P) 0) i)).
    apply nth_error_seq0. exact HiT.
  - rewrite En. reflexivity.
Qed.

(* ====================================================================== row sums *)
Lemma qsum_pick (F : key -> Q) a l :
  NoDup l -> qsum (map (fun x => b2q (keqb x a) * F x) l) == b2q (kmem a l) * F a.
Proof.
  induction l as [|x t IH]; intros Hnd; [cbn; ring|].
  cbn [map qsum kmem existsb]. fold (kmem a t).
  inversion Hnd as [|? ? Hnin Hnd']; subst. rewrite IH by exact Hnd'.
  rewrite (keqb_sym a x). destruct (keqb_spec x a) as [->|Hne]; cbn [b2q orb].
  - apply kmem_false in Hnin. rewrite Hnin. cbn [b2q]. ring.
  - ring.
Qed.

Definition row_total (M : dict) (keys : list key) (a : key) : Q :=
  qsum (map (fun b => dgetq M (a ++ b)) keys).

Lemma dmem_false_dgetq M k : dmem M k = false -> dgetq M k = 0.
Proof. intros H. apply dgetq_notin. apply dmem_false. exact H. Qed.

Lemma row_terms_msum M keys a :
  NoDup keys ->
  msum (fun x => keqb x a) (row_terms M keys) == b2q (kmem a keys) * row_total M keys a.
Proof.
  intros Hnd. unfold row_terms. rewrite msum_flat_map.
  rewrite <- (qsum_pick (row_total M keys) a keys Hnd).
  apply qsum_map_ext. intros l _. rewrite msum_flat_map. unfold row_total.
  rewrite <- qsum_map_scale. apply qsum_map_ext. intros r _.
  destruct (dmem M (l ++ r)) eqn:E.
  - rewrite msum_cons, msum_nil. ring.
  - rewrite msum_nil, (dmem_false_dgetq M _ E). ring.
Qed.

Lemma row_terms_keys M keys a :
  In a (map fst (row_terms M keys)) <-> In a keys /\ exists b, In b keys /\ dmem M (a ++ b) = true.
Proof.
  unfold row_terms. rewrite in_map_iff. split.
  - intros [[k v] [E H]]. cbn in E. subst k. apply in_flat_map in H. destruct H as [l [Hl H]].
    apply in_flat_map in H. destruct H as [r [Hr H]]. destruct (dmem M (l ++ r)) eqn:Ed; [|destruct H].
    destruct H as [H|[]]. injection H as -> _. split; [exact Hl|]. exists r. split; assumption.
  - intros [Ha [b [Hb Hd]]]. exists (a, dgetq M (a ++ b)). split; [reflexivity|].
    apply in_flat_map. exists a. split; [exact Ha|]. apply in_flat_map. exists b. split; [exact Hb|].
    rewrite Hd. left. reflexivity.
Qed.

Lemma dgetq_map_fun (f : key -> Q) l k :
  dgetq (map (fun x => (x, f x)) l) k = if kmem k l then f k else 0.
Proof. unfold dgetq. rewrite dget_map_fun. destruct (kmem k l); reflexivity. Qed.

Theorem rows_spec M keys : NoDup keys -> dict_close 0 (dacc [] (row_terms M keys)) (spec_rows M keys).
Proof.
  intros Hnd. split; [apply Qle_refl|]. split; [apply dacc_NoDup; constructor|].
  assert (HK : forall a, In a (dkeys (spec_rows M keys)) <-> In a keys /\ exists b, In b keys /\ dmem M (a ++ b) = true).
  { intros a. unfold spec_rows. rewrite dkeys_map_fun, filter_In, existsb_exists. tauto. }
  split.
  - intros a. rewrite dacc_keys, row_terms_keys, HK. cbn. tauto.
  - intros a. apply Qabs_zero_le; [apply Qle_refl|]. rewrite dacc_get, row_terms_msum by exact Hnd.
    unfold spec_rows. rewrite dgetq_map_fun. fold (row_total M keys a).
    destruct (kmem a (filter (fun a0 => existsb (fun b => dmem M (a0 ++ b)) keys) keys)) eqn:E1; cbv iota.
    + apply kmem_In, filter_In in E1. destruct E1 as [E1 _]. apply kmem_In in E1. rewrite E1. cbn [b2q]. ring.
    + destruct (kmem a keys) eqn:E2; cbn [b2q]; [|ring].
      apply kmem_In in E2. apply kmem_false in E1. rewrite filter_In in E1.
      assert (Hz : row_total M keys a == 0).
      { apply qsum_map_zero. intros b Hb. rewrite dmem_false_dgetq; [reflexivity|].
        apply not_true_is_false. intros Hd. apply E1. split; [exact E2|]. apply existsb_exists. exists b. split; assumption. }
      rewrite Hz. ring.
Qed.

(* value form: q(a) = sum over the key list of M(a ++ b) *)
Theorem rows_value M keys a :
  NoDup keys -> In a keys -> dgetq (dacc [] (row_terms M keys)) a == row_total M keys a.
Proof.
  intros Hnd Ha. rewrite dacc_get, row_terms_msum by exact Hnd.
  apply kmem_In in Ha. rewrite Ha. cbn [b2q]. ring.
Qed.

Lemma msum_as_sum p (m : dict) : msum p m == qsum (map (fun kv => b2q (p (fst kv)) * snd kv) m).
Proof. unfold msum. apply (qsum_filter (fun kv => p (fst kv)) snd m). Qed.

(* ... and that is the full row sum of the matrix when the key list covers the partner halves *)
Theorem row_total_rowsum T M keys a :
  NoDup keys -> NoDup (dkeys M) -> length a = T ->
  (forall k, In k (dkeys M) -> firstn T k = a -> In (skipn T k) keys) ->
  row_total M keys a == rowsum T M a.
Proof.
  intros Hnd HndM HLa Hcov. unfold row_total, rowsum.
  change (qsum (map snd (filter (fun kv => keqb (firstn T (fst kv)) a) M)))
    with (msum (fun k => keqb (firstn T k) a) M).
  rewrite msum_as_sum.
  rewrite (qsum_map_ext (fun b => dgetq M (a ++ b))
                        (fun b => qsum (map (fun kv => b2q (keqb (fst kv) (a ++ b)) * snd kv) M)))
    by (intros b _; rewrite dgetq_msum by exact HndM; apply msum_as_sum).
  rewrite (qsum_exchange (fun b kv => b2q (keqb (fst kv) (a ++ b)) * snd kv) keys M).
  apply qsum_map_ext. intros [k v] Hkv. cbn [fst snd].
  rewrite (qsum_map_scale_r (fun b => b2q (keqb k (a ++ b))) v keys).
  assert (E : qsum (map (fun b => b2q (keqb k (a ++ b))) keys) == b2q (keqb (firstn T k) a)).
  { rewrite (qsum_map_ext _ (fun b => b2q (keqb a (firstn T k)) * b2q (keqb b (skipn T k)))).
    - rewrite qsum_map_scale, (qsum_indicator (skipn T k) keys Hnd). rewrite (keqb_sym a).
      destruct (keqb_spec (firstn T k) a) as [E|Hne]; cbn [b2q]; [|ring].
      assert (HI : In (skipn T k) keys).
      { apply Hcov; [|exact E]. apply in_map_iff. exists (k, v). split; [reflexivity|exact Hkv]. }
      apply kmem_In in HI. rewrite HI. cbn [b2q]. ring.
    - intros b _. rewrite (keqb_sym k), (keqb_app_split T a b k HLa). apply b2q_and. }
  rewrite E. reflexivity.
Qed.

(* ====================================================================== checkers *)
Definition dicts_ok (eps : Q) (spec : nat -> dict) (i : nat) (obs : list dict) : Prop :=
  Forall2 (fun j d => dict_close eps d (spec j)) (seq i (length obs)) obs.
Definition sums_ok (eps : Q) (P : dict) (i : nat) (obs : list dict) : Prop :=
  Forall2 (fun j d => has_pos j P = true -> Qabs (qsum (dvals d) - 1) <= eps * nq (length d))
          (seq i (length obs)) obs.
Definition means_ok (eps : Q) (P : dict) (i : nat) (obs : list Q) : Prop :=
  Forall2 (fun j x => Qabs (x - mean_spec P j) <= eps) (seq i (length obs)) obs.

Lemma check_dicts_spec eps spec obs : forall i, check_dicts eps spec i obs = true <-> dicts_ok eps spec i obs.
Proof.
  unfold dicts_ok. induction obs as [|d obs IH]; intros i; cbn [check_dicts length seq].
  - split; [constructor|reflexivity].
  - rewrite andb_true_iff, dict_closeb_spec, IH. split.
    + intros [A B]. constructor; assumption.
    + inversion 1; subst. split; assumption.
Qed.

Lemma check_sums_spec eps P obs : forall i, check_sums eps P i obs = true <-> sums_ok eps P i obs.
Proof.
  unfold sums_ok. induction obs as [|d obs IH]; intros i; cbn [check_sums length seq].
  - split; [constructor|reflexivity].
  - rewrite andb_true_iff, IH. unfold sum_one_b. rewrite orb_true_iff, negb_true_iff, qcloseb_spec. split.
    + intros [A B]. constructor; [|exact B]. intros Hp. destruct A as [A|A]; [congruence|exact A].
    + inversion 1 as [|? ? ? ? A B]; subst. split; [|exact B].
      destruct (has_pos i P); [right; apply A; reflexivity|left; reflexivity].
Qed.

Lemma check_means_spec eps P obs : forall i, check_means eps P i obs = true <-> means_ok eps P i obs.
Proof.
  unfold means_ok. induction obs as [|d obs IH]; intros i; cbn [check_means length seq].
  - split; [constructor|reflexivity].
  - rewrite andb_true_iff, qcloseb_spec, IH. split.
    + intros [A B]. constructor; assumption.
    + inversion 1; subst. split; assumption.
Qed.

Definition C14_forward_spec (eps : Q) (P : dict) (obs : list dict) : Prop :=
  valid_jdd P /\ mean_defined P /\ length obs = first_len P /\
  dicts_ok eps (spec_forward_i P) 0 obs /\ sums_ok eps P 0 obs.

Theorem check_forwardb_iff eps P obs : check_forwardb eps P obs = true <-> C14_forward_spec eps P obs.
Proof.
  unfold check_forwardb, C14_forward_spec.
  rewrite !andb_true_iff, valid_jddb_spec, mean_ok_spec, Nat.eqb_eq, check_dicts_spec, check_sums_spec. tauto.
Qed.

Definition C14_mean_spec (eps : Q) (P : dict) (obs : list Q) : Prop :=
  valid_jdd P /\ length obs = first_len P /\ means_ok eps P 0 obs.

Theorem check_meanb_iff eps P obs : check_meanb eps P obs = true <-> C14_mean_spec eps P obs.
Proof.
  unfold check_meanb, C14_mean_spec. rewrite !andb_true_iff, valid_jddb_spec, Nat.eqb_eq, check_means_spec. tauto.
Qed.

Definition inv_hyp (P : dict) : Prop :=
  valid_jdd P /\ Forall (fun kp => 0 < snd kp) P /\
  (exists k, In k (dkeys P) /\ Forall (fun x => (0 < x)%Z) k) /\ (0 < first_len P)%nat.

Lemma inv_hypb_spec P : inv_hypb P = true <-> inv_hyp P.
Proof.
  unfold inv_hypb, inv_hyp. rewrite !andb_true_iff, valid_jddb_spec, forallb_forall, existsb_exists, negb_true_iff, Nat.eqb_neq.
  assert (H1 : (forall x, In x (dvals P) -> negb (Qle_bool x 0) = true) <-> Forall (fun kp => 0 < snd kp) P).
  { rewrite Forall_forall. split.
    - intros H kp Hkp. specialize (H (snd kp) (in_map snd _ _ Hkp)). apply negb_true_iff in H.
      apply Qnot_le_lt. intros HL. apply Qle_bool_iff in HL. congruence.
    - intros H x Hx. apply in_map_iff in Hx. destruct Hx as [kp [<- Hkp]]. apply negb_true_iff.
      apply not_true_is_false. intros HL. apply Qle_bool_iff in HL. apply (Qlt_not_le _ _ (H kp Hkp)). exact HL. }
  assert (H2 : (exists x, In x (dkeys P) /\ forallb (Z.ltb 0) x = true) <-> exists k, In k (dkeys P) /\ Forall (fun x => (0 < x)%Z) k).
  { split; intros [k [A B]]; exists k; (split; [exact A|]).
    - apply Forall_forall. intros x Hx. rewrite forallb_forall in B. apply Z.ltb_lt. apply B. exact Hx.
    - apply forallb_forall. intros x Hx. rewrite Forall_forall in B. apply Z.ltb_lt. apply B. exact Hx. }
  rewrite H1, H2. split.
  - intros [[[A B] C] D]. split; [exact A|]. split; [exact B|]. split; [exact C|lia].
  - intros [A [B [C D]]]. split; [split; [split; [exact A|exact B]|exact C]|lia].
Qed.

Definition C14_inverse_spec (eps : Q) (P : dict) (obs : dict) : Prop :=
  inv_hyp P /\ dict_close eps obs (spec_inverse P).

Theorem check_inverseb_iff eps P obs : check_inverseb eps P obs = true <-> C14_inverse_spec eps P obs.
Proof. unfold check_inverseb, C14_inverse_spec. rewrite andb_true_iff, inv_hypb_spec, dict_closeb_spec. tauto. Qed.

Definition C14_rows_spec (eps : Q) (M : dict) (keys : list key) (obs : dict) : Prop :=
  NoDup keys /\ dict_close eps obs (spec_rows M keys).

Theorem check_rowsb_iff eps M keys obs : check_rowsb eps M keys obs = true <-> C14_rows_spec eps M keys obs.
Proof. unfold check_rowsb, C14_rows_spec. rewrite andb_true_iff, knodupb_NoDup, dict_closeb_spec. tauto. Qed.

(* ====================================================================== the model satisfies the specifications *)
Lemma Forall2_seq_nth {A} (R : nat -> A -> Prop) (d : A) l : forall s,
  (forall i, (i < length l)%nat -> R (s + i)%nat (nth i l d)) -> Forall2 R (seq s (length l)) l.
Proof.
  induction l as [|x l IH]; intros s H; cbn [length seq]; constructor.
  - specialize (H 0%nat). rewrite Nat.add_0_r in H. apply H. cbn. lia.
  - apply IH. intros i Hi. replace (S s + i)%nat with (s + S i)%nat by lia. apply (H (S i)). cbn. lia.
Qed.

Lemma Forall2_vals (g : key -> Q) (l : list (key * Q)) :
  (forall kv, In kv l -> snd kv == g (fst kv)) -> Forall2 Qeq (map snd l) (map (fun x => g (fst x)) l).
Proof.
  induction l as [|kv l IH]; intros H; cbn [map]; constructor.
  - apply H. left. reflexivity.
  - apply IH. intros kv' Hkv'. apply H. right. exact Hkv'.
Qed.

Lemma dvals_by_keys m : NoDup (dkeys m) -> qsum (dvals m) == qsum (map (dgetq m) (dkeys m)).
Proof.
  intros Hnd. apply qsum_pointwise. unfold dvals, dkeys. rewrite map_map.
  apply (Forall2_vals (dgetq m) m).
  intros [k v] Hkv. cbn [fst snd]. unfold dgetq. rewrite (In_dget m k v Hnd Hkv). reflexivity.
Qed.

Lemma dict_close_0_total d s : dict_close 0 d s -> NoDup (dkeys s) -> qsum (dvals d) == qsum (dvals s).
Proof.
  intros HC Hs. pose proof HC as [_ [Hd [HK _]]].
  rewrite (dvals_by_keys d Hd), (dvals_by_keys s Hs).
  rewrite (qsum_map_ext (dgetq d) (dgetq s)) by (intros k _; apply dict_close_0_get; exact HC).
  apply qsum_map_set_eq; assumption.
Qed.

Theorem model_forward_satisfies P :
  valid_jdd P -> mean_defined P -> exists qs, forward P = Ok qs /\ C14_forward_spec 0 P qs.
Proof.
  intros HV HM. destruct (forward_correct P HV HM) as [qs [H1 [H2 H3]]]. exists qs. split; [exact H1|].
  split; [exact HV|]. split; [exact HM|]. split; [exact H2|]. split.
  - apply (Forall2_seq_nth _ []). intros i Hi. change (0 + i)%nat with i. apply H3. rewrite <- H2. exact Hi.
  - apply (Forall2_seq_nth _ []). intros i Hi Hp. change (0 + i)%nat with i in *. rewrite Qmult_0_l.
    assert (HiT : (i < first_len P)%nat) by (rewrite <- H2; exact Hi).
    apply Qabs_zero_le; [apply Qle_refl|].
    rewrite (dict_close_0_total _ _ (H3 i HiT)) by (apply spec_forward_NoDup, HV).
    apply forward_sums_to_one; [exact HV|]. apply HM; [exact HiT|exact Hp].
Qed.

Theorem model_mean_satisfies P : valid_jdd P -> exists l, mean P = Ok l /\ C14_mean_spec 0 P l.
Proof.
  intros HV. exists (mean_raw P). unfold mean. rewrite (mean_err_valid P HV). split; [reflexivity|].
  split; [exact HV|]. split; [apply mean_raw_length|].
  apply (Forall2_seq_nth _ 0). intros i Hi. change (0 + i)%nat with i. apply Qabs_zero_le; [apply Qle_refl|].
  apply mean_raw_nth; [exact HV|]. rewrite <- mean_raw_length. exact Hi.
Qed.

Theorem model_inverse_satisfies P names :
  inv_hyp P -> NoDup names -> length names = first_len P ->
  exists l, roundtrip P names = Ok l /\ l <> [] /\
    forall ck r, In (ck, r) l -> exists d, r = Ok d /\ C14_inverse_spec 0 P d.
Proof.
  intros HI HN HL. pose proof HI as [HV [Hpos [[ks Hks] HT]]].
  destruct (roundtrip_correct P names ks HV HT Hpos Hks HN HL) as [l [H1 [H2 H3]]].
  exists l. split; [exact H1|]. split; [exact H2|]. intros ck r Hin.
  destruct (H3 ck r Hin) as [d [E HC]]. exists d. split; [exact E|]. split; assumption.
Qed.

Theorem model_rows_satisfies M keys : NoDup keys -> C14_rows_spec 0 M keys (dacc [] (row_terms M keys)).
Proof. intros H. split; [exact H|apply rows_spec; exact H]. Qed.

(* consequences of the inverse specification in the words of the property *)
Theorem inverse_values P d k :
  inv_hyp P -> dict_close 0 d (spec_inverse P) -> In k (dkeys P) -> knonzero k = true ->
  dgetq d k == dgetq P k / nonzero_mass P.
Proof.
  intros [HV _] HC Hk Hnz. rewrite (dict_close_0_get d _ k HC).
  apply in_map_iff in Hk. destruct Hk as [[k' p] [E Hkp]]. cbn in E. subst k'.
  assert (H1 : dget P k = Some p) by (apply In_dget; [apply HV|exact Hkp]).
  assert (H2 : dget (spec_inverse P) k = Some (p / nonzero_mass P)).
  { apply In_dget.
    - unfold spec_inverse. rewrite <- (map_id (filter _ P)) at 1.
      assert (E : dkeys (map (fun kp => (fst kp, snd kp / nonzero_mass P)) (filter (fun kp => knonzero (fst kp)) P))
                  = filter knonzero (dkeys P)).
      { rewrite <- (dkeys_filter knonzero). unfold dkeys. rewrite map_map. reflexivity. }
      rewrite map_id, E. apply NoDup_filter. apply HV.
    - unfold spec_inverse. apply in_map_iff. exists (k, p). split; [reflexivity|]. apply filter_In. split; assumption. }
  unfold dgetq. rewrite H1, H2. reflexivity.
Qed.

Theorem inverse_keys P d k :
  dict_close 0 d (spec_inverse P) -> (In k (dkeys d) <-> In k (dkeys P) /\ knonzero k = true).
Proof.
  intros [_ [_ [HK _]]]. rewrite HK. unfold spec_inverse.
  assert (E : dkeys (map (fun kp => (fst kp, snd kp / nonzero_mass P)) (filter (fun kp => knonzero (fst kp)) P))
              = filter knonzero (dkeys P)).
  { rewrite <- (dkeys_filter knonzero). unfold dkeys. rewrite map_map. reflexivity. }
  rewrite E. apply filter_In.
Qed.

Definition C14_split_spec (M : dict) (obs : list key) : Prop :=
  NoDup obs /\ forall h, In h obs <-> exists k, In k (dkeys M) /\ In h (halves k).

Theorem check_splitb_iff M obs : check_splitb M obs = true <-> C14_split_spec M obs.
Proof.
  unfold check_splitb, C14_split_spec. rewrite keyset_eqb_spec. unfold keyset_eq.
  split; intros [A B]; (split; [exact A|]); intros h; rewrite B, kdedup_In, in_flat_map; tauto.
Qed.

Theorem model_split_satisfies ejks name M :
  In (name, M) ejks -> exists ks, In (name, ks) (xkeys_from_ejks ejks) /\ C14_split_spec M ks.
Proof.
  intros H. exists (kdedup (flat_map halves (dkeys M))). split.
  - unfold xkeys_from_ejks. apply in_map_iff. exists (name, M). split; [reflexivity|exact H].
  - apply check_splitb_iff. unfold check_splitb. apply keyset_eqb_spec. split; [apply kdedup_NoDup|tauto].
Qed.

(* ---------- empirical jdd of a network ---------- *)
Lemma msum_const_list k c (l : list key) :
  msum (fun x => keqb x k) (map (fun k' => (k', c)) l) == nq (length (filter (keqb k) l)) * c.
Proof.
  induction l as [|x l IH]; [unfold nq; cbn; ring|]. cbn [map filter]. rewrite msum_cons, IH.
  rewrite (keqb_sym x k). destruct (keqb k x); cbn [b2q length]; [rewrite nq_S|]; ring.
Qed.

Theorem jdd_from_network_spec g : dict_close 0 (jdd_from_network g) (spec_jdd g).
Proof.
  unfold jdd_from_network, spec_jdd. split; [apply Qle_refl|]. split; [apply dacc_NoDup; constructor|]. split.
  - intros k. rewrite dacc_keys, (dkeys_map_fun (fun k => nq (vcount g k) / nq (length (jds g)))), kdedup_In, map_map.
    cbn [fst dkeys map]. rewrite map_id. cbn [In]. tauto.
  - intros k. apply Qabs_zero_le; [apply Qle_refl|]. rewrite dacc_get, msum_const_list, dgetq_map_fun.
    fold (vcount g k). destruct (kmem k (kdedup (jds g))) eqn:E.
    + unfold Qdiv. ring.
    + apply kmem_false in E. rewrite kdedup_In in E.
      assert (Hz : vcount g k = 0%nat).
      { unfold vcount. destruct (filter (keqb k) (jds g)) as [|x l] eqn:Ef; [reflexivity|].
        exfalso. apply E. assert (HI : In x (filter (keqb k) (jds g))) by (rewrite Ef; left; reflexivity).
        apply filter_In in HI. destruct HI as [HI Hk]. apply keqb_eq in Hk. subst. exact HI. }
      rewrite Hz. unfold nq at 1. cbn [Z.of_nat]. ring.
Qed.

Theorem check_jddb_iff eps g obs : check_jddb eps g obs = true <-> dict_close eps obs (spec_jdd g).
Proof. apply dict_closeb_spec. Qed.

(* ====================================================================== network identity (handshake) *)
Fixpoint nsum (l : list nat) : nat := match l with [] => 0%nat | x :: t => (x + nsum t)%nat end.

Lemma nsum_map_plus {A} (f g : A -> nat) l :
  nsum (map (fun x => (f x + g x)%nat) l) = (nsum (map f l) + nsum (map g l))%nat.
Proof. induction l as [|x l IH]; cbn [map nsum]; [reflexivity|]. rewrite IH. lia. Qed.

Lemma nsum_map_ext {A} (f g : A -> nat) l : (forall x, In x l -> f x = g x) -> nsum (map f l) = nsum (map g l).
Proof.
  induction l as [|x l IH]; intros H; cbn [map nsum]; [reflexivity|].
  rewrite H by (left; reflexivity). rewrite IH; [reflexivity|]. intros y Hy. apply H. right. exact Hy.
Qed.

Lemma nsum_pick_gen (f : nat -> nat) u n : forall s,
  nsum (map (fun v => ((if Nat.eqb u v then 1 else 0) * f v)%nat) (seq s n))
  = if (Nat.leb s u && Nat.ltb u (s + n))%bool then f u else 0%nat.
Proof.
  induction n as [|n IH]; intros s; cbn [seq map nsum].
  - destruct (Nat.leb_spec s u); destruct (Nat.ltb_spec u (s + 0)); cbn; try reflexivity; lia.
  - rewrite IH. destruct (Nat.eqb_spec u s) as [->|Hne].
    + destruct (Nat.leb_spec (S s) s); [lia|]. cbn [andb].
      destruct (Nat.leb_spec s s); [|lia]. destruct (Nat.ltb_spec s (s + S n)); [|lia]. cbn. lia.
    + destruct (Nat.leb_spec (S s) u); destruct (Nat.leb_spec s u); destruct (Nat.ltb_spec u (S s + n));
        destruct (Nat.ltb_spec u (s + S n)); cbn; try reflexivity; lia.
Qed.

Lemma nsum_pick (f : nat -> nat) u n : (u < n)%nat ->
  nsum (map (fun v => ((if Nat.eqb u v then 1 else 0) * f v)%nat) (seq 0 n)) = f u.
Proof.
  intros H. rewrite nsum_pick_gen. destruct (Nat.leb_spec 0 u); [|lia]. destruct (Nat.ltb_spec u (0 + n)); [reflexivity|lia].
Qed.

Lemma deg_cons e es v :
  deg (e :: es) v = ((if Nat.eqb (eu e) v then 1 else 0) + (if Nat.eqb (ev e) v then 1 else 0) + deg es v)%nat.
Proof. reflexivity. Qed.

(* double counting: ends with a given own class, grouped by vertex *)
Lemma own_count_by_vertex exf es a n :
  Forall (fun e => (eu e < n)%nat /\ (ev e < n)%nat) es ->
  own_count exf es a = nsum (map (fun v => (b2n (keqb (exf v) a) * deg es v)%nat) (seq 0 n)).
Proof.
  induction 1 as [|e es [Hu Hv] _ IH].
  - cbn [own_count fold_right]. symmetry. rewrite (nsum_map_ext _ (fun _ => 0%nat)) by (intros; cbn; lia).
    induction (seq 0 n); cbn; auto.
  - rewrite own_count_cons, IH.
    rewrite (nsum_map_ext (fun v => (b2n (keqb (exf v) a) * deg (e :: es) v)%nat)
              (fun v => (((if Nat.eqb (eu e) v then 1 else 0) * b2n (keqb (exf v) a)
                          + (if Nat.eqb (ev e) v then 1 else 0) * b2n (keqb (exf v) a))
                         + b2n (keqb (exf v) a) * deg es v)%nat))
      by (intros v _; rewrite deg_cons; ring).
    rewrite nsum_map_plus, nsum_map_plus.
    rewrite (nsum_pick (fun v => b2n (keqb (exf v) a)) (eu e) n Hu).
    rewrite (nsum_pick (fun v => b2n (keqb (exf v) a)) (ev e) n Hv). lia.
Qed.

Lemma handshake es n :
  Forall (fun e => (eu e < n)%nat /\ (ev e < n)%nat) es ->
  (2 * length es)%nat = nsum (map (deg es) (seq 0 n)).
Proof.
  induction 1 as [|e es [Hu Hv] _ IH].
  - symmetry. cbn [length]. rewrite (nsum_map_ext _ (fun _ => 0%nat)) by (intros; reflexivity).
    induction (seq 0 n); cbn; auto.
  - cbn [length].
    rewrite (nsum_map_ext (deg (e :: es))
              (fun v => (((if Nat.eqb (eu e) v then 1 else 0) * 1 + (if Nat.eqb (ev e) v then 1 else 0) * 1) + deg es v)%nat))
      by (intros v _; rewrite deg_cons; lia).
    rewrite nsum_map_plus, nsum_map_plus.
    rewrite (nsum_pick (fun _ => 1%nat) (eu e) n Hu), (nsum_pick (fun _ => 1%nat) (ev e) n Hv). lia.
Qed.

Fixpoint zsum (l : list Z) : Z := match l with [] => 0%Z | x :: t => (x + zsum t)%Z end.

Lemma zsum_fold l : zsum l = fold_right Z.add 0%Z l.
Proof. induction l as [|x l IH]; cbn [zsum fold_right]; [reflexivity|]. rewrite IH. reflexivity. Qed.

Lemma zsum_nsum {A} (f : A -> nat) l : Z.of_nat (nsum (map f l)) = zsum (map (fun x => Z.of_nat (f x)) l).
Proof. induction l as [|x l IH]; cbn [map nsum zsum]; [reflexivity|]. rewrite Nat2Z.inj_add, IH. reflexivity. Qed.

Lemma zsum_map_ext {A} (f g : A -> Z) l : (forall x, In x l -> f x = g x) -> zsum (map f l) = zsum (map g l).
Proof.
  induction l as [|x l IH]; intros H; cbn [map zsum]; [reflexivity|].
  rewrite H by (left; reflexivity). rewrite IH; [reflexivity|]. intros y Hy. apply H. right. exact Hy.
Qed.

Lemma zsum_map_scale {A} (f : A -> Z) c l : zsum (map (fun x => (c * f x)%Z) l) = (c * zsum (map f l))%Z.
Proof. induction l as [|x l IH]; cbn [map zsum]; [lia|]. rewrite IH. lia. Qed.

(* sums over vertex indices = sums over the annotation list *)
Lemma map_nth_seq {A} (l : list A) d : map (fun v => nth v l d) (seq 0 (length l)) = l.
Proof.
  induction l as [|x l IH]; [reflexivity|]. cbn [length seq map nth]. f_equal.
  rewrite <- seq_shift, map_map. exact IH.
Qed.

Lemma zsum_by_list (F : key -> Z) (l : list key) :
  zsum (map (fun v => F (nth v l [])) (seq 0 (length l))) = zsum (map F l).
Proof.
  transitivity (zsum (map F (map (fun v => nth v l []) (seq 0 (length l))))).
  - rewrite map_map. reflexivity.
  - rewrite map_nth_seq. reflexivity.
Qed.

Definition b2z (b : bool) : Z := if b then 1%Z else 0%Z.

Lemma zsum_count (k : key) (l : list key) : zsum (map (fun x => b2z (keqb k x)) l) = Z.of_nat (length (filter (keqb k) l)).
Proof.
  induction l as [|x l IH]; [reflexivity|]. cbn [map zsum filter]. rewrite IH.
  destruct (keqb k x); cbn [b2z length]; lia.
Qed.

Definition clean_for (g : net) (i t : nat) (c : Z) : Prop :=
  (0 < c)%Z /\ forall v, (v < length (jds g))%nat -> Z.of_nat (tdeg g t v) = (c * knth i (jd_of g v))%Z.

Section Network.
  Variable g : net.
  Variable T : nat.
  Hypothesis HV : valid_net T g.
  Variable i t : nat.
  Hypothesis Hi : (i < T)%nat.
  Variable c : Z.
  Hypothesis HC : clean_for g i t c.
  Let es := edges_of t (edges g).
  Let n := length (jds g).

  Lemma es_bounds : Forall (fun e => (eu e < n)%nat /\ (ev e < n)%nat) es.
  Proof.
    destruct HV as [_ H]. apply Forall_forall. intros e He. unfold es, edges_of in He. apply filter_In in He.
    rewrite Forall_forall in H. apply H. apply He.
  Qed.

  Lemma two_E : Z.of_nat (2 * length es) = (c * col_sum g i)%Z.
  Proof.
    rewrite (handshake es n es_bounds), zsum_nsum.
    rewrite (zsum_map_ext _ (fun v => (c * knth i (nth v (jds g) []))%Z)).
    - rewrite zsum_map_scale. unfold n. rewrite (zsum_by_list (knth i) (jds g)).
      unfold col_sum. rewrite zsum_fold. reflexivity.
    - intros v Hv. apply in_seq in Hv. destruct HC as [_ H]. apply (H v). unfold n in Hv. lia.
  Qed.

  Lemma own_closed a : length a = T ->
    Z.of_nat (own_count (exc g i) es a) = (c * (knth i a + 1) * Z.of_nat (vcount g (kinc i a)))%Z.
  Proof.
    intros Ha. rewrite (own_count_by_vertex (exc g i) es a n es_bounds), zsum_nsum.
    rewrite (zsum_map_ext _ (fun v => (c * (knth i a + 1) * b2z (keqb (kinc i a) (nth v (jds g) [])))%Z)).
    - rewrite zsum_map_scale. unfold n. rewrite (zsum_by_list (fun k => b2z (keqb (kinc i a) k)) (jds g)).
      rewrite zsum_count. reflexivity.
    - intros v Hv. apply in_seq in Hv. assert (Hvn : (v < length (jds g))%nat) by (unfold n in Hv; lia).
      rewrite Nat2Z.inj_mul. destruct HC as [_ H]. unfold tdeg in H. fold es in H. rewrite (H v Hvn).
      unfold exc, jd_of. set (k := nth v (jds g) []).
      assert (Hk : length k = T) by (apply (jd_of_length T g v HV Hvn)).
      destruct (keqb_spec (kdec i k) a) as [E|Hne].
      + assert (E2 : kinc i a = k) by (rewrite <- E; apply kinc_kdec). rewrite E2, keqb_refl.
        rewrite <- E, knth_kdec by lia. cbn [b2n b2z]. lia.
      + destruct (keqb_spec (kinc i a) k) as [E|_]; [|cbn [b2n b2z]; lia].
        exfalso. apply Hne. rewrite <- E. apply kdec_kinc.
  Qed.

  (* the row sum of the C13 matrix in closed form *)
  Theorem network_rowsum cnt a : length a = T -> col_sum g i <> 0%Z ->
    rowsum T (get_ejk g (count_edge_types cnt (edges g)) i t) a
    == inject_Z (knth i a + 1) * nq (vcount g (kinc i a)) / inject_Z (col_sum g i).
  Proof.
    intros Ha Hcs. rewrite (st_rowsum g T HV cnt i t a). fold es.
    unfold nq. rewrite two_E, (own_closed a Ha). rewrite !inject_Z_mult.
    destruct HC as [Hc _]. field. split.
    - intros E. apply Hcs. unfold Qeq in E. cbn in E. lia.
    - intros E. unfold Qeq in E. cbn in E. lia.
  Qed.
End Network.

Lemma mean_spec_wsum P i : mean_spec P i = wsum (kq i) P.
Proof. reflexivity. Qed.

Lemma wsum_const_list i c (l : list key) :
  wsum (kq i) (map (fun k => (k, c)) l) == inject_Z (fold_right Z.add 0%Z (map (knth i) l)) * c.
Proof.
  induction l as [|k l IH]; [unfold wsum; cbn; ring|].
  cbn [map fold_right]. rewrite wsum_cons, IH, inject_Z_plus. unfold kq. ring.
Qed.

Theorem network_forward g T i k :
  valid_net T g -> (i < T)%nat -> In k (jds g) -> (0 < knth i k)%Z -> col_sum g i <> 0%Z ->
  dgetq (spec_forward_i (jdd_from_network g) i) (kdec i k)
  == inject_Z (knth i (kdec i k) + 1) * nq (vcount g (kinc i (kdec i k))) / inject_Z (col_sum g i).
Proof.
  intros HV Hi Hk Hpos Hcs.
  assert (Hnd : NoDup (dkeys (jdd_from_network g))) by (apply dacc_NoDup; constructor).
  assert (HkP : In k (dkeys (jdd_from_network g))).
  { unfold jdd_from_network. apply dacc_keys. right. rewrite map_map. cbn [fst]. rewrite map_id. exact Hk. }
  rewrite (forward_formula _ i k Hnd HkP Hpos).
  rewrite (dict_close_0_get _ _ k (jdd_from_network_spec g)).
  unfold spec_jdd. rewrite dgetq_map_fun.
  assert (Hm : kmem k (kdedup (jds g)) = true) by (apply kmem_In, kdedup_In; exact Hk). rewrite Hm.
  rewrite mean_spec_wsum. unfold jdd_from_network. rewrite dacc_wsum. unfold wsum at 1. cbn [map qsum].
  rewrite wsum_const_list. fold (col_sum g i).
  assert (HL : (i < length k)%nat) by (apply knth_pos_lt; exact Hpos).
  rewrite kinc_kdec, knth_kdec by exact HL. replace (knth i k - 1 + 1)%Z with (knth i k) by lia.
  unfold kq. field. split.
  - intros E. apply Hcs. unfold Qeq in E. cbn in E. lia.
  - apply nq_pos. destruct (jds g); [destruct Hk|cbn; lia].
Qed.

(* the network identity, pointwise: for a clean annotated network the row sum of the C13 matrix of
   topology (i, t) at an excess tuple a = k - e_i equals the excess distribution computed from the
   empirical joint degree distribution *)
Theorem network_identity g T i t c cnt k :
  valid_net T g -> (i < T)%nat -> clean_for g i t c -> col_sum g i <> 0%Z ->
  In k (jds g) -> (0 < knth i k)%Z ->
  rowsum T (get_ejk g (count_edge_types cnt (edges g)) i t) (kdec i k)
  == dgetq (spec_forward_i (jdd_from_network g) i) (kdec i k).
Proof.
  intros HV Hi HC Hcs Hk Hpos.
  assert (Hlen : length (kdec i k) = T).
  { rewrite kdec_length. destruct HV as [H _]. rewrite Forall_forall in H. apply H. exact Hk. }
  rewrite (network_rowsum g T HV i t Hi c HC cnt (kdec i k) Hlen Hcs).
  rewrite (network_forward g T i k HV Hi Hk Hpos Hcs). reflexivity.
Qed.

(* clean_for as a boolean (what the checker tests) *)
Lemma clean_forb_spec g i t c : clean_forb g i t c = true <-> clean_for g i t (Z.of_nat c).
Proof.
  unfold clean_forb, clean_for. rewrite andb_true_iff, negb_true_iff, Nat.eqb_neq, forallb_forall. split.
  - intros [A B]. split; [lia|]. intros v Hv. apply Z.eqb_eq. apply B. apply in_seq. lia.
  - intros [A B]. split; [lia|]. intros v Hv. apply in_seq in Hv. apply Z.eqb_eq. apply B. lia.
Qed.

Fixpoint net_ok (eps : Q) (g : net) (its : list (nat * nat)) (cs : list nat)
         (rows : matrices) (fwd : list dict) : Prop :=
  match its, cs, rows, fwd with
  | [], [], [], [] => True
  | (i, name) :: its', c :: cs', (name', r) :: rows', f :: fwd' =>
      name = name' /\ clean_for g i name (Z.of_nat c) /\ col_sum g i <> 0%Z /\
      dict_close eps r (spec_network_i g i) /\ dict_close eps f (spec_network_i g i) /\
      net_ok eps g its' cs' rows' fwd'
  | _, _, _, _ => False
  end.

Lemma check_net_spec eps g its : forall cs rows fwd,
  check_net eps g its cs rows fwd = true <-> net_ok eps g its cs rows fwd.
Proof.
  induction its as [|[i name] its IH]; intros [|c cs] [|[name' r] rows] [|f fwd]; cbn [check_net net_ok];
    try (split; [discriminate|intros []]); try (split; [reflexivity|constructor]).
  rewrite !andb_true_iff, Nat.eqb_eq, clean_forb_spec, negb_true_iff, Z.eqb_neq, !dict_closeb_spec, IH. tauto.
Qed.

Definition C14_network_spec (eps : Q) (g : net) (names cs : list nat) (rows : matrices) (fwd : list dict) : Prop :=
  valid_net (length names) g /\ NoDup names /\ jds g <> [] /\
  Forall (fun k => Forall (fun x => (0 <= x)%Z) k) (jds g) /\
  net_ok eps g (enum_from 0 names) cs rows fwd.

Theorem check_networkb_iff eps g names cs rows fwd :
  check_networkb eps g names cs rows fwd = true <-> C14_network_spec eps g names cs rows fwd.
Proof.
  unfold check_networkb, C14_network_spec.
  rewrite !andb_true_iff, valid_netb_spec, nnodupb_spec, negb_true_iff, Nat.eqb_neq, check_net_spec, forallb_forall, Forall_forall.
  assert (H1 : length (jds g) <> 0%nat <-> jds g <> []) by (destruct (jds g); cbn; split; congruence).
  assert (H2 : (forall x, In x (jds g) -> forallb (Z.leb 0) x = true) <-> (forall x, In x (jds g) -> Forall (fun z => (0 <= z)%Z) x)).
  { split; intros H x Hx; specialize (H x Hx).
    - apply Forall_forall. intros z Hz. rewrite forallb_forall in H. apply Z.leb_le, H, Hz.
    - apply forallb_forall. intros z Hz. rewrite Forall_forall in H. apply Z.leb_le, H, Hz. }
  rewrite H1, H2. tauto.
Qed.
