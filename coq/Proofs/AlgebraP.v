(* Proofs about Model/Algebra.v. *)
From Coq Require Import List ZArith QArith Qabs Bool Arith Lia Permutation Setoid.
From GV Require Import Lib.Tree Lib.QSumM Model.Mixing Model.Algebra Proofs.MixingP.
Import ListNotations.
Local Open Scope Q_scope.

(* ---------- small facts ---------- *)
Lemma dkeys_filter (p : key -> bool) (m : dict) :
  dkeys (filter (fun kp => p (fst kp)) m) = filter p (dkeys m).
Proof.
  unfold dkeys. induction m as [|[k v] m IH]; [reflexivity|]. cbn [filter map fst].
  destruct (p k); cbn [map fst]; rewrite IH; reflexivity.
Qed.

Lemma kdec_inj i a b : kdec i a = kdec i b -> a = b.
Proof. intros H. rewrite <- (kinc_kdec i a), <- (kinc_kdec i b), H. reflexivity. Qed.

Lemma kinc_inj i a b : kinc i a = kinc i b -> a = b.
Proof. intros H. rewrite <- (kdec_kinc i a), <- (kdec_kinc i b), H. reflexivity. Qed.

Lemma NoDup_map_inj {A B} (f : A -> B) l :
  (forall a b, f a = f b -> a = b) -> NoDup l -> NoDup (map f l).
Proof.
  intros Hf. induction 1 as [|x l Hnin _ IH]; cbn; constructor; [|exact IH].
  intros H. apply in_map_iff in H. destruct H as [y [E Hy]]. apply Hf in E. subst. contradiction.
Qed.

Lemma Qeq_bool_false x y : Qeq_bool x y = false <-> ~ x == y.
Proof.
  split.
  - intros H E. apply Qeq_bool_iff in E. congruence.
  - intros H. destruct (Qeq_bool x y) eqn:E; [|reflexivity]. apply Qeq_bool_iff in E. contradiction.
Qed.

Lemma nth_map_seq {A} (f : nat -> A) n i d : (i < n)%nat -> nth i (map f (seq 0 n)) d = f i.
Proof.
  intros H. rewrite (nth_indep _ d (f 0%nat)) by (rewrite map_length, seq_length; exact H).
  rewrite map_nth, seq_nth by exact H. reflexivity.
Qed.

(* ---------- validity of a joint degree distribution ---------- *)
Definition valid_jdd (P : dict) : Prop :=
  P <> [] /\ NoDup (dkeys P) /\
  Forall (fun k => length k = first_len P /\ Forall (fun x => (0 <= x)%Z) k) (dkeys P).

Lemma valid_jddb_spec P : valid_jddb P = true <-> valid_jdd P.
Proof.
  unfold valid_jddb, valid_jdd. rewrite !andb_true_iff, negb_true_iff, Nat.eqb_neq, knodupb_NoDup, forallb_forall, Forall_forall.
  assert (HL : length P <> 0%nat <-> P <> []) by (destruct P; cbn; split; congruence).
  rewrite HL. split; intros [[A B] C] || intros [A [B C]]; repeat split; try assumption.
  - apply Nat.eqb_eq. specialize (C x H). apply andb_true_iff in C. tauto.
  - specialize (C x H). apply andb_true_iff in C. destruct C as [_ C]. rewrite forallb_forall in C.
    apply Forall_forall. intros z Hz. apply Z.leb_le. apply C. exact Hz.
  - intros x Hx. destruct (C x Hx) as [C1 C2]. apply andb_true_iff. split; [apply Nat.eqb_eq; exact C1|].
    apply forallb_forall. intros z Hz. apply Z.leb_le. rewrite Forall_forall in C2. apply C2. exact Hz.
Qed.

Lemma knth_nonneg i k : Forall (fun x => (0 <= x)%Z) k -> (0 <= knth i k)%Z.
Proof.
  intros H. unfold knth. destruct (nth_in_or_default i k 0%Z) as [HI|E]; [|rewrite E; lia].
  rewrite Forall_forall in H. apply H. exact HI.
Qed.

(* ---------- mean ---------- *)
Lemma add_row_length avgs k p : length (add_row avgs k p) = length avgs.
Proof. revert k. induction avgs as [|a avgs IH]; intros [|x k]; cbn; auto. Qed.

Lemma add_row_nth avgs k p i :
  (length avgs <= length k)%nat ->
  nth i (add_row avgs k p) 0 == nth i avgs 0 + (if Nat.ltb i (length avgs) then kq i k * p else 0).
Proof.
  revert k i. induction avgs as [|a avgs IH]; intros k i HL.
  - cbn [add_row length]. destruct i; cbn; ring.
  - destruct k as [|x k]; [cbn in HL; lia|]. cbn [add_row]. destruct i as [|i].
    + cbn [nth length]. rewrite Qred_correct. unfold kq, knth. cbn [nth Nat.ltb Nat.leb]. ring.
    + cbn [nth length]. rewrite IH by (cbn in HL; lia). unfold kq, knth. cbn [nth].
      change (Nat.ltb (S i) (S (length avgs))) with (Nat.ltb i (length avgs)). reflexivity.
Qed.

Lemma mean_fold_nth P acc i :
  Forall (fun k => (length acc <= length k)%nat) (dkeys P) -> (i < length acc)%nat ->
  nth i (fold_left (fun a kp => add_row a (fst kp) (snd kp)) P acc) 0
  == nth i acc 0 + qsum (map (fun kp => kq i (fst kp) * snd kp) P).
Proof.
  revert acc. induction P as [|[k p] P IH]; intros acc HF Hi; cbn [fold_left map qsum fst snd].
  - ring.
  - cbn in HF. inversion HF as [|? ? H1 H2]; subst.
    rewrite IH; [|rewrite add_row_length; exact H2|rewrite add_row_length; exact Hi].
    rewrite add_row_nth by exact H1.
    assert (E : Nat.ltb i (length acc) = true) by (apply Nat.ltb_lt; exact Hi). rewrite E. ring.
Qed.

Lemma nth_repeat0 i n : nth i (repeat 0 n) 0 = 0.
Proof. revert i. induction n as [|n IH]; intros [|i]; cbn; auto. Qed.

Lemma mean_raw_nth P i : valid_jdd P -> (i < first_len P)%nat -> nth i (mean_raw P) 0 == mean_spec P i.
Proof.
  intros [_ [_ HF]] Hi. unfold mean_raw, mean_spec. rewrite mean_fold_nth.
  - rewrite nth_repeat0. ring.
  - rewrite repeat_length. eapply Forall_impl; [|exact HF]. cbn. intros k [E _]. lia.
  - rewrite repeat_length. exact Hi.
Qed.

Lemma fold_add_row_length P acc :
  length (fold_left (fun a kp => add_row a (fst kp) (snd kp)) P acc) = length acc.
Proof. revert acc. induction P as [|kp P IH]; intros a; cbn [fold_left]; [reflexivity|]. rewrite IH, add_row_length. reflexivity. Qed.

Lemma mean_raw_length P : length (mean_raw P) = first_len P.
Proof. unfold mean_raw. rewrite fold_add_row_length, repeat_length. reflexivity. Qed.

Lemma mean_err_valid P : valid_jdd P -> mean_err P = false.
Proof.
  intros [Hne [_ HF]]. unfold mean_err. destruct P as [|kp P]; [congruence|].
  apply not_true_is_false. intros H. apply existsb_exists in H. destruct H as [k [Hk H]].
  apply Nat.ltb_lt in H. rewrite Forall_forall in HF. destruct (HF k Hk) as [E _]. lia.
Qed.

Theorem mean_correct P i :
  valid_jdd P -> (i < first_len P)%nat ->
  exists l, mean P = Ok l /\ length l = first_len P /\ nth i l 0 == mean_spec P i.
Proof.
  intros HV Hi. exists (mean_raw P). unfold mean. rewrite (mean_err_valid P HV).
  split; [reflexivity|]. split; [apply mean_raw_length|apply mean_raw_nth; assumption].
Qed.

(* ---------- forward ---------- *)
Definition mean_defined (P : dict) : Prop :=
  forall i, (i < first_len P)%nat -> has_pos i P = true -> ~ mean_spec P i == 0.

Lemma mean_ok_spec P : mean_ok P = true <-> mean_defined P.
Proof.
  unfold mean_ok, mean_defined. rewrite forallb_forall. split.
  - intros H i Hi Hp. specialize (H i). rewrite in_seq in H. specialize (H ltac:(lia)).
    rewrite Hp in H. cbn in H. rewrite orb_false_r in H. apply negb_true_iff, Qeq_bool_false in H. exact H.
  - intros H i Hi. apply in_seq in Hi. destruct (has_pos i P) eqn:Hp; [|apply orb_true_r].
    cbn. rewrite orb_false_r. apply negb_true_iff, Qeq_bool_false. apply H; [lia|exact Hp].
Qed.

Lemma forward_i_keys P avg i : dkeys (forward_i P avg i) = dkeys (spec_forward_i P i).
Proof. unfold forward_i, spec_forward_i, dkeys. rewrite !map_map. reflexivity. Qed.

Lemma spec_forward_keys P i :
  dkeys (spec_forward_i P i) = map (kdec i) (filter (fun k => Z.ltb 0 (knth i k)) (dkeys P)).
Proof.
  unfold spec_forward_i. rewrite <- (dkeys_filter (fun k => Z.ltb 0 (knth i k))). unfold dkeys. rewrite !map_map. reflexivity.
Qed.

Lemma spec_forward_NoDup P i : NoDup (dkeys P) -> NoDup (dkeys (spec_forward_i P i)).
Proof.
  intros H. rewrite spec_forward_keys. apply NoDup_map_inj; [apply kdec_inj|]. apply NoDup_filter. exact H.
Qed.

Lemma forward_i_close P avg i :
  NoDup (dkeys P) -> avg == mean_spec P i -> dict_close 0 (forward_i P avg i) (spec_forward_i P i).
Proof.
  intros Hnd Ha. apply dict_close_same_keys.
  - rewrite forward_i_keys. apply spec_forward_NoDup. exact Hnd.
  - apply forward_i_keys.
  - unfold forward_i, spec_forward_i, dvals. rewrite !map_map. cbn [snd].
    induction (filter (fun kp => Z.ltb 0 (knth i (fst kp))) P) as [|kp l IH]; cbn [map]; constructor; [|exact IH].
    rewrite Qred_correct, Ha. reflexivity.
Qed.

(* q_i (k - e_i) = k_i P(k) / <k_i> *)
Theorem forward_formula P i k :
  NoDup (dkeys P) -> In k (dkeys P) -> (0 < knth i k)%Z ->
  dgetq (spec_forward_i P i) (kdec i k) == kq i k * dgetq P k / mean_spec P i.
Proof.
  intros Hnd Hk Hpos. apply in_map_iff in Hk. destruct Hk as [[k' p] [E Hkp]]. cbn in E. subst k'.
  assert (H1 : dget P k = Some p) by (apply In_dget; assumption).
  assert (H2 : dget (spec_forward_i P i) (kdec i k) = Some (kq i k * p / mean_spec P i)).
  { apply In_dget; [apply spec_forward_NoDup; exact Hnd|].
    unfold spec_forward_i. apply in_map_iff. exists (k, p). split; [reflexivity|].
    apply filter_In. split; [exact Hkp|]. cbn. apply Z.ltb_lt. exact Hpos. }
  unfold dgetq. rewrite H1, H2. reflexivity.
Qed.

(* keys of q_i: exactly the k - e_i with k_i > 0 *)
Theorem forward_keys P i a :
  In a (dkeys (spec_forward_i P i)) <-> exists k, In k (dkeys P) /\ (0 < knth i k)%Z /\ a = kdec i k.
Proof.
  rewrite spec_forward_keys, in_map_iff. split.
  - intros [k [E H]]. apply filter_In in H. destruct H as [H1 H2]. apply Z.ltb_lt in H2. exists k. auto.
  - intros [k [H1 [H2 E]]]. exists k. split; [auto|]. apply filter_In. split; [exact H1|apply Z.ltb_lt; exact H2].
Qed.

(* sum q_i = 1 *)
Theorem forward_sums_to_one P i :
  valid_jdd P -> ~ mean_spec P i == 0 -> qsum (dvals (spec_forward_i P i)) == 1.
Proof.
  intros [_ [_ HF]] Hm. unfold spec_forward_i, dvals. rewrite map_map. cbn [snd].
  rewrite (qsum_map_div (fun kp => kq i (fst kp) * snd kp)).
  rewrite qsum_filter.
  assert (E : qsum (map (fun x => b2q (Z.ltb 0 (knth i (fst x))) * (kq i (fst x) * snd x)) P) == mean_spec P i).
  { unfold mean_spec. apply qsum_map_ext. intros [k p] Hkp. cbn [fst snd].
    destruct (Z.ltb_spec 0 (knth i k)) as [Hp|Hp]; cbn [b2q]; [ring|].
    assert (Hk : In k (dkeys P)) by (apply in_map_iff; exists (k, p); split; [reflexivity|exact Hkp]).
    rewrite Forall_forall in HF. destruct (HF k Hk) as [_ Hnn].
    assert (Hz : knth i k = 0%Z) by (pose proof (knth_nonneg i k Hnn); lia).
    unfold kq. rewrite Hz. ring. }
  rewrite E. field. exact Hm.
Qed.

(* the model: forward succeeds and agrees exactly with the closed form *)
Theorem forward_correct P :
  valid_jdd P -> mean_defined P ->
  exists qs, forward P = Ok qs /\ length qs = first_len P /\
             forall i, (i < first_len P)%nat -> dict_close 0 (nth i qs []) (spec_forward_i P i).
Proof.
  intros HV HM. unfold forward. rewrite (mean_err_valid P HV).
  assert (HE : existsb (fun i => Qeq_bool (nth i (mean_raw P) 0) 0 && has_pos i P) (seq 0 (first_len P)) = false).
  { apply not_true_is_false. intros H. apply existsb_exists in H. destruct H as [i [Hi H]].
    apply in_seq in Hi. apply andb_true_iff in H. destruct H as [H1 H2].
    apply Qeq_bool_iff in H1. rewrite mean_raw_nth in H1 by (try assumption; lia).
    apply (HM i); [lia|exact H2|exact H1]. }
  rewrite HE. eexists. split; [reflexivity|]. split; [rewrite map_length, seq_length; reflexivity|].
  intros i Hi.
  rewrite (nth_map_seq (fun i => forward_i P (nth i (mean_raw P) 0) i)) by exact Hi.
  apply forward_i_close; [apply HV|apply mean_raw_nth; assumption].
Qed.
