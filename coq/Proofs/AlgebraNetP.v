(* Growth of C14: the dict-level network statement C14_network_full (a Definition in the original
   Props/C14.v) is PROVED here: for every clean annotated network,
     excess_from_ejk (get_ejks g) (excess keys)   and   forward (jdd_from_network g)
   succeed and return, for every topology, exactly the closed-form dict spec_network_i.
   Ingredients (Proofs/AlgebraP.v): rows_value, row_total_rowsum, network_rowsum, network_forward,
   forward_correct; new here: the coverage argument (under cleanness every end of a t-edge has
   jd[i] > 0, so every excess tuple has a partner in the key list and every partner is in the key
   list) and the plumbing over the name list (rows_loop / nget / net_ok). *)
From Coq Require Import List ZArith QArith Qabs Bool Arith Lia Permutation Setoid.
From GV Require Import Lib.Tree Lib.QSumM Model.Mixing Model.Algebra Proofs.MixingP Proofs.AlgebraP.
Import ListNotations.
Local Open Scope Q_scope.

(* ---------------------------------------------------------------- degrees and incident edges *)
Lemma deg_pos_edge es v : (0 < deg es v)%nat -> exists e, In e es /\ (eu e = v \/ ev e = v).
Proof.
  induction es as [|e es IH]; intros H; [cbn in H; lia|]. rewrite deg_cons in H.
  destruct (Nat.eqb_spec (eu e) v) as [E|_]; [exists e; split; [now left|now left]|].
  destruct (Nat.eqb_spec (ev e) v) as [E|_]; [exists e; split; [now left|now right]|].
  destruct IH as [e' [He' H']]; [cbn in H; lia|]. exists e'. split; [now right|exact H'].
Qed.

Lemma edge_deg_pos es e v : In e es -> eu e = v \/ ev e = v -> (0 < deg es v)%nat.
Proof.
  induction es as [|e' es IH]; intros He Hv; [destruct He|]. rewrite deg_cons.
  destruct He as [->|He].
  - destruct Hv as [<-|<-]; rewrite Nat.eqb_refl; lia.
  - specialize (IH He Hv). lia.
Qed.

Section Topology.
  Variable g : net.
  Variable T : nat.
  Hypothesis HV : valid_net T g.
  Variable i t : nat.
  Hypothesis Hi : (i < T)%nat.
  Variable c : Z.
  Hypothesis HC : clean_for g i t c.
  Hypothesis Hcs : col_sum g i <> 0%Z.
  Variable cnt : counter.
  Let es := edges_of t (edges g).
  Let M := get_ejk g (count_edge_types cnt (edges g)) i t.
  Let keys := xkeys_i g i.

  Lemma es_in_range e : In e es -> (eu e < length (jds g))%nat /\ (ev e < length (jds g))%nat.
  Proof.
    intros He. unfold es, edges_of in He. apply filter_In in He. destruct He as [He _].
    destruct HV as [_ H]. rewrite Forall_forall in H. now apply H.
  Qed.

  (* under cleanness every end of a t-edge has jd[i] > 0, so its excess tuple is an excess key *)
  Lemma edge_end_in_xkeys e w : In e es -> eu e = w \/ ev e = w -> In (exc g i w) keys.
  Proof.
    clear Hi Hcs. intros He Hw.
    assert (Hwn : (w < length (jds g))%nat) by (destruct (es_in_range e He); destruct Hw; subst; assumption).
    pose proof (edge_deg_pos es e w He Hw) as Hd.
    destruct HC as [Hc Hcl]. specialize (Hcl w Hwn). unfold tdeg in Hcl. fold es in Hcl.
    apply xkeys_i_In. exists (jd_of g w). split; [apply nth_In; exact Hwn|]. split; [nia|reflexivity].
  Qed.

  (* every excess key has a partner in the key list with a matrix entry *)
  Lemma xkey_has_partner a : In a keys -> exists b, In b keys /\ dmem M (a ++ b) = true.
  Proof.
    clear Hi Hcs. intros Ha. apply xkeys_i_In in Ha. destruct Ha as [k [Hk [Hpos ->]]].
    destruct (In_nth _ _ [] Hk) as [v [Hv Ev0]].
    assert (Ev : jd_of g v = k) by exact Ev0. clear Ev0.
    assert (Hd : (0 < deg es v)%nat).
    { destruct HC as [Hc Hcl]. specialize (Hcl v Hv). unfold tdeg in Hcl. fold es in Hcl.
      rewrite Ev in Hcl. nia. }
    destruct (deg_pos_edge es v Hd) as [e [He Hev]].
    assert (Ea : kdec i k = exc g i v) by (unfold exc; now rewrite Ev).
    destruct Hev as [Eu|Evv].
    - exists (exc g i (ev e)). split; [apply (edge_end_in_xkeys e); [exact He|now right]|].
      apply dmem_In. apply (st_keys g cnt i t). exists e. split; [exact He|]. left. now rewrite Ea, <- Eu.
    - exists (exc g i (eu e)). split; [apply (edge_end_in_xkeys e); [exact He|now left]|].
      apply dmem_In. apply (st_keys g cnt i t). exists e. split; [exact He|]. right. now rewrite Ea, <- Evv.
  Qed.

  (* coverage hypothesis of row_total_rowsum *)
  Lemma xkeys_cover k a : In k (dkeys M) -> firstn T k = a -> In (skipn T k) keys.
  Proof.
    intros Hk _. apply (st_keys g cnt i t) in Hk. destruct Hk as [e [He Hk]].
    pose proof (uniform_exc T g i t HV) as HU. unfold uniform in HU. rewrite Forall_forall in HU.
    destruct (HU e He) as [Lu Lv].
    destruct Hk as [-> | ->].
    - rewrite <- Lu, skipn_app, Nat.sub_diag, skipn_all. cbn [app skipn].
      apply (edge_end_in_xkeys e); [exact He|now right].
    - rewrite <- Lv, skipn_app, Nat.sub_diag, skipn_all. cbn [app skipn].
      apply (edge_end_in_xkeys e); [exact He|now left].
  Qed.

  Lemma xkey_length a : In a keys -> length a = T.
  Proof.
    intros Ha. apply xkeys_i_In in Ha. destruct Ha as [k [Hk [_ ->]]]. rewrite kdec_length.
    destruct HV as [H _]. rewrite Forall_forall in H. now apply H.
  Qed.

  Lemma dgetq_spec_network a :
    dgetq (spec_network_i g i) a ==
    if kmem a keys then inject_Z (knth i a + 1) * nq (vcount g (kinc i a)) / inject_Z (col_sum g i) else 0.
  Proof. unfold spec_network_i. rewrite dgetq_map_fun. fold keys. destruct (kmem a keys); reflexivity. Qed.

  (* one topology of get_excess_joint_distributions on the extractor's matrix and excess keys *)
  Theorem net_row_close : dict_close 0 (dacc [] (row_terms M keys)) (spec_network_i g i).
  Proof.
    split; [apply Qle_refl|]. split; [apply dacc_NoDup; constructor|]. split.
    - intros a. rewrite dacc_keys, row_terms_keys. unfold spec_network_i. rewrite dkeys_map_fun. fold keys.
      cbn [dkeys map In]. split.
      + intros [[]|[Ha _]]. exact Ha.
      + intros Ha. right. split; [exact Ha|]. now apply xkey_has_partner.
    - intros a. apply Qabs_zero_le; [apply Qle_refl|]. rewrite dgetq_spec_network.
      destruct (kmem a keys) eqn:E.
      + apply kmem_In in E.
        rewrite (rows_value M keys a (xkeys_i_NoDup g i) E).
        rewrite (row_total_rowsum T M keys a (xkeys_i_NoDup g i) (st_NoDup g cnt i t) (xkey_length a E)
                   (fun k Hk Hf => xkeys_cover k a Hk Hf)).
        apply (network_rowsum g T HV i t Hi c HC cnt a (xkey_length a E) Hcs).
      + apply kmem_false in E. rewrite dgetq_notin; [reflexivity|].
        rewrite dacc_keys, row_terms_keys. cbn [dkeys map In]. intros [[]|[Ha _]]. now apply E.
  Qed.
End Topology.

(* ---------------------------------------------------------------- the forward side *)
Lemma dict_close_0_trans a b c :
  dict_close 0 a b -> (forall k, In k (dkeys b) <-> In k (dkeys c)) ->
  (forall k, dgetq b k == dgetq c k) -> dict_close 0 a c.
Proof.
  intros Hab HK HVl. pose proof Hab as [H0 [Hnd [Hk _]]]. split; [exact H0|]. split; [exact Hnd|]. split.
  - intros k. rewrite Hk. apply HK.
  - intros k. apply Qabs_zero_le; [apply Qle_refl|]. rewrite (dict_close_0_get a b k Hab). apply HVl.
Qed.

Lemma jdd_keys g k : In k (dkeys (jdd_from_network g)) <-> In k (jds g).
Proof.
  unfold jdd_from_network. rewrite dacc_keys, map_map. cbn [fst dkeys map]. rewrite map_id. cbn [In]. tauto.
Qed.

Lemma jdd_first_len g T : valid_net T g -> jds g <> [] -> first_len (jdd_from_network g) = T.
Proof.
  intros [H _] Hne. rewrite Forall_forall in H.
  destruct (jdd_from_network g) as [|[k v] P] eqn:E.
  - exfalso. destruct (jds g) as [|k0 l] eqn:Ej; [congruence|].
    assert (Hin : In k0 (dkeys (jdd_from_network g))) by (apply jdd_keys; rewrite Ej; now left).
    rewrite E in Hin. destruct Hin.
  - cbn [first_len]. apply H. apply jdd_keys. rewrite E. now left.
Qed.

Lemma jdd_valid g T : valid_net T g -> jds g <> [] ->
  Forall (fun k => Forall (fun x => (0 <= x)%Z) k) (jds g) -> valid_jdd (jdd_from_network g).
Proof.
  intros HV Hne Hnn. pose proof (jdd_first_len g T HV Hne) as HL. split; [|split].
  - intros E. rewrite E in HL. cbn in HL. destruct (jds g) as [|k0 l] eqn:Ej; [congruence|].
    assert (Hin : In k0 (dkeys (jdd_from_network g))) by (apply jdd_keys; rewrite Ej; now left).
    rewrite E in Hin. destruct Hin.
  - apply dacc_NoDup. constructor.
  - apply Forall_forall. intros k Hk. apply jdd_keys in Hk. rewrite HL. destruct HV as [H _].
    rewrite Forall_forall in H, Hnn. split; [now apply H|now apply Hnn].
Qed.

Lemma jdd_mean_spec g i :
  mean_spec (jdd_from_network g) i == inject_Z (col_sum g i) * (1 / nq (length (jds g))).
Proof.
  rewrite mean_spec_wsum. unfold jdd_from_network. rewrite dacc_wsum. unfold wsum at 1. cbn [map qsum].
  rewrite wsum_const_list. fold (col_sum g i). ring.
Qed.

Lemma jdd_mean_defined g T : jds g <> [] ->
  (forall i, (i < T)%nat -> col_sum g i <> 0%Z) -> first_len (jdd_from_network g) = T ->
  mean_defined (jdd_from_network g).
Proof.
  intros Hne Hcs HL i Hi _ E. rewrite HL in Hi. rewrite jdd_mean_spec in E.
  assert (Hn : ~ nq (length (jds g)) == 0) by (apply nq_pos; destruct (jds g); [congruence|cbn; lia]).
  apply (Hcs i Hi).
  assert (E2 : inject_Z (col_sum g i) == 0).
  { assert (E3 : inject_Z (col_sum g i) ==
                 inject_Z (col_sum g i) * (1 / nq (length (jds g))) * nq (length (jds g))) by (field; exact Hn).
    rewrite E3, E. ring. }
  unfold Qeq in E2. cbn in E2. lia.
Qed.

Theorem net_forward_close g T i :
  valid_net T g -> (i < T)%nat -> jds g <> [] -> col_sum g i <> 0%Z ->
  dict_close 0 (spec_forward_i (jdd_from_network g) i) (spec_network_i g i).
Proof.
  intros HV Hi Hne Hcs.
  assert (Hnd : NoDup (dkeys (jdd_from_network g))) by (apply dacc_NoDup; constructor).
  assert (HK : forall a, In a (dkeys (spec_forward_i (jdd_from_network g) i)) <-> In a (xkeys_i g i)).
  { intros a. rewrite forward_keys, xkeys_i_In. split; intros [k [H1 H2]]; exists k; (split; [|exact H2]).
    - now apply jdd_keys.
    - now apply jdd_keys. }
  split; [apply Qle_refl|]. split; [now apply spec_forward_NoDup|]. split.
  - intros a. rewrite HK. unfold spec_network_i. rewrite dkeys_map_fun. tauto.
  - intros a. apply Qabs_zero_le; [apply Qle_refl|]. rewrite (dgetq_spec_network g i a).
    destruct (kmem a (xkeys_i g i)) eqn:E.
    + apply kmem_In, xkeys_i_In in E. destruct E as [k [Hk [Hpos ->]]].
      apply (network_forward g T i k HV Hi Hk Hpos Hcs).
    + apply kmem_false in E. rewrite dgetq_notin; [reflexivity|]. now rewrite HK.
Qed.

(* ---------------------------------------------------------------- plumbing over the name list *)
Lemma enum_from_snd {A} (l : list A) j : map snd (enum_from j l) = l.
Proof. revert j. induction l as [|x l IH]; intros j; [reflexivity|]. cbn. now rewrite IH. Qed.

Lemma enum_from_length {A} (l : list A) j : length (enum_from j l) = length l.
Proof. revert j. induction l as [|x l IH]; intros j; [reflexivity|]. cbn. now rewrite IH. Qed.

Lemma enum_from_nth_error {A} (l : list A) j n i x :
  nth_error (enum_from j l) n = Some (i, x) -> i = (j + n)%nat /\ nth_error l n = Some x.
Proof.
  revert j n. induction l as [|y l IH]; intros j [|n] H; cbn in H; try discriminate.
  - injection H as <- <-. split; [lia|reflexivity].
  - apply IH in H. destruct H as [-> H]. split; [lia|exact H].
Qed.

Lemma nget_map_its {A} (F : nat * nat -> A) (its : list (nat * nat)) i name :
  NoDup (map snd its) -> In (i, name) its ->
  nget (map (fun it => (snd it, F it)) its) name = Some (F (i, name)).
Proof.
  induction its as [|[i0 n0] its IH]; intros Hnd Hin; [destruct Hin|].
  cbn [map snd nget]. cbn [map snd] in Hnd. inversion Hnd as [|? ? Hnin Hnd']; subst.
  destruct (Nat.eqb_spec name n0) as [->|Hne].
  - destruct Hin as [E|Hin]; [now inversion E|].
    exfalso. apply Hnin. apply in_map_iff. exists (i, n0). now split.
  - destruct Hin as [E|Hin]; [inversion E; congruence|]. now apply IH.
Qed.

Lemma rows_loop_map (Mf : nat * nat -> dict) (K : nat * nat -> list key) xk (its : list (nat * nat)) :
  (forall it, In it its -> nget xk (snd it) = Some (K it)) ->
  rows_loop (map (fun it => (snd it, Mf it)) its) xk =
  Ok (map (fun it => (snd it, dacc [] (row_terms (Mf it) (K it)))) its).
Proof.
  induction its as [|it its IH]; intros H; [reflexivity|].
  cbn [map rows_loop]. rewrite (H it (or_introl eq_refl)). rewrite IH by (intros it' Hi'; apply H; now right).
  reflexivity.
Qed.

Theorem net_rows_eq g names : NoDup names ->
  net_rows g names =
  Ok (map (fun it => (snd it, dacc [] (row_terms (get_ejk g (count_edge_types [] (edges g)) (fst it) (snd it))
                                                 (xkeys_i g (fst it)))))
          (enum_from 0 names)).
Proof.
  intros Hnd. unfold net_rows, excess_from_ejk, get_ejks, xkeys. cbn [snd].
  rewrite !map_length, Nat.eqb_refl. cbn [negb].
  apply (rows_loop_map (fun it => get_ejk g (count_edge_types [] (edges g)) (fst it) (snd it))
                       (fun it => xkeys_i g (fst it))).
  intros [i name] Hin. cbn [fst snd].
  apply (nget_map_its (fun it => xkeys_i g (fst it))); [now rewrite enum_from_snd|exact Hin].
Qed.

Lemma net_ok_build g (R : nat * nat -> dict) : forall (its : list (nat * nat)) cs fwd,
  length cs = length its -> length fwd = length its ->
  (forall n i name c f, nth_error its n = Some (i, name) -> nth_error cs n = Some c ->
     nth_error fwd n = Some f ->
     clean_for g i name (Z.of_nat c) /\ col_sum g i <> 0%Z /\
     dict_close 0 (R (i, name)) (spec_network_i g i) /\ dict_close 0 f (spec_network_i g i)) ->
  net_ok 0 g its cs (map (fun it => (snd it, R it)) its) fwd.
Proof.
  induction its as [|[i name] its IH]; intros [|c cs] [|f fwd] L1 L2 H; cbn in L1, L2; try discriminate.
  - cbn. constructor.
  - cbn [map net_ok snd].
    destruct (H 0%nat i name c f eq_refl eq_refl eq_refl) as [H1 [H2 [H3 H4]]].
    split; [reflexivity|]. split; [exact H1|]. split; [exact H2|]. split; [exact H3|]. split; [exact H4|].
    apply IH; [lia|lia|]. intros n i' name' c' f' A B C. exact (H (S n) i' name' c' f' A B C).
Qed.

(* ================================================================ C14_network_full *)
Theorem network_full :
  forall (g : net) (names cs : list nat),
    valid_net (length names) g -> NoDup names -> jds g <> [] ->
    Forall (fun k => Forall (fun x => (0 <= x)%Z) k) (jds g) ->
    length cs = length names ->
    (forall i name c, nth_error names i = Some name -> nth_error cs i = Some c ->
                      clean_for g i name (Z.of_nat c) /\ col_sum g i <> 0%Z) ->
    exists rows fwd, net_rows g names = Ok rows /\ net_forward g = Ok fwd /\
                     C14_network_spec 0 g names cs rows fwd.
Proof.
  intros g names cs HV Hnd Hne Hnn Hlen Hcl. set (T := length names) in *.
  assert (Hcs : forall i, (i < T)%nat -> col_sum g i <> 0%Z).
  { intros i Hi. destruct (nth_error names i) as [name|] eqn:En; [|apply nth_error_None in En; unfold T in Hi; lia].
    destruct (nth_error cs i) as [c|] eqn:Ec; [|apply nth_error_None in Ec; unfold T in Hi; lia].
    apply (Hcl i name c En Ec). }
  pose proof (jdd_first_len g T HV Hne) as HL.
  destruct (forward_correct (jdd_from_network g) (jdd_valid g T HV Hne Hnn)
              (jdd_mean_defined g T Hne Hcs HL)) as [fwd [Ef [Lf Hf]]].
  rewrite HL in Lf, Hf.
  eexists. exists fwd. split; [apply net_rows_eq; exact Hnd|]. split; [exact Ef|].
  split; [exact HV|]. split; [exact Hnd|]. split; [exact Hne|]. split; [exact Hnn|].
  apply (net_ok_build g (fun it => dacc [] (row_terms (get_ejk g (count_edge_types [] (edges g)) (fst it) (snd it))
                                                     (xkeys_i g (fst it))))).
  - now rewrite enum_from_length.
  - now rewrite enum_from_length.
  - intros n i name c f A B C. apply enum_from_nth_error in A. destruct A as [-> A]. cbn [Nat.add fst snd].
    assert (Hn : (n < T)%nat) by (unfold T; apply nth_error_Some; congruence).
    destruct (Hcl n name c A B) as [Hc Hs]. split; [exact Hc|]. split; [exact Hs|]. split.
    + apply (net_row_close g T HV n name Hn (Z.of_nat c) Hc Hs []).
    + apply (dict_close_0_trans f (spec_forward_i (jdd_from_network g) n)).
      * rewrite <- (nth_error_nth _ _ [] C). now apply Hf.
      * destruct (net_forward_close g T n HV Hn Hne Hs) as [_ [_ [HK _]]]. exact HK.
      * intros k. apply dict_close_0_get. now apply (net_forward_close g T n HV Hn Hne Hs).
Qed.

Theorem network_coverage :
  forall (g : net) (T : nat), valid_net T g ->
  forall (i t : nat) (c : Z), clean_for g i t c -> forall cnt : counter,
  let M := get_ejk g (count_edge_types cnt (edges g)) i t in
  (forall a, In a (xkeys_i g i) -> exists b, In b (xkeys_i g i) /\ dmem M (a ++ b) = true) /\
  (forall k a, In k (dkeys M) -> firstn T k = a -> In (skipn T k) (xkeys_i g i)).
Proof.
  intros g T HV i t c HC cnt M. split.
  - exact (xkey_has_partner g T HV i t c HC cnt).
  - exact (xkeys_cover g T HV i t c HC cnt).
Qed.

Theorem network_full_passes_checker :
  forall (g : net) (names cs : list nat),
    valid_net (length names) g -> NoDup names -> jds g <> [] ->
    Forall (fun k => Forall (fun x => (0 <= x)%Z) k) (jds g) ->
    length cs = length names ->
    (forall i name c, nth_error names i = Some name -> nth_error cs i = Some c ->
                      clean_for g i name (Z.of_nat c) /\ col_sum g i <> 0%Z) ->
    exists rows fwd, net_rows g names = Ok rows /\ net_forward g = Ok fwd /\
                     check_networkb 0 g names cs rows fwd = true.
Proof.
  intros g names cs H1 H2 H3 H4 H5 H6.
  destruct (network_full g names cs H1 H2 H3 H4 H5 H6) as [rows [fwd [A [B C]]]].
  exists rows, fwd. split; [exact A|]. split; [exact B|]. now apply check_networkb_iff.
Qed.
