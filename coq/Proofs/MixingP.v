(* Proofs about Model/Mixing.v: entries of the mixing matrices count ordered edge ends,
   symmetry, total mass, row sums, key sets, repeatability over call histories, the
   overall-degree variant, soundness and completeness of the checker. *)
From Coq Require Import List ZArith QArith Qabs Bool Arith Lia Permutation Setoid.
From GV Require Import Lib.Tree Lib.QSumM Model.Mixing.
Import ListNotations.
Local Open Scope Q_scope.

Lemma nq_plus a b : nq (a + b) == nq a + nq b.
Proof. unfold nq. rewrite Nat2Z.inj_add, inject_Z_plus. reflexivity. Qed.

Lemma nq_b2n b : nq (b2n b) == b2q b.
Proof. destruct b; reflexivity. Qed.

Lemma nq_S n : nq (S n) == 1 + nq n.
Proof. change (S n) with (1 + n)%nat. rewrite nq_plus. reflexivity. Qed.

Lemma nq_pos n : (0 < n)%nat -> ~ nq n == 0.
Proof.
  intros H E. unfold nq in E. unfold Qeq in E. cbn in E. lia.
Qed.

Lemma nq_double n : nq (2 * n) == 2 * nq n.
Proof. replace (2 * n)%nat with (n + n)%nat by lia. rewrite nq_plus. ring. Qed.

(* ---------- the counter ---------- *)
Lemma cnt_get_incr c t t' : cnt_get (cnt_incr c t) t' = (cnt_get c t' + if Nat.eqb t' t then 1 else 0)%nat.
Proof.
  induction c as [|[t0 n] c IH]; cbn.
  - destruct (Nat.eqb t' t); reflexivity.
  - destruct (Nat.eqb_spec t t0) as [->|Hne]; cbn.
    + destruct (Nat.eqb_spec t' t0); lia.
    + destruct (Nat.eqb_spec t' t0) as [->|Hne2].
      * destruct (Nat.eqb_spec t0 t); [congruence|lia].
      * exact IH.
Qed.

Lemma cnt_get_fold ts c t :
  cnt_get (fold_left cnt_incr ts c) t = (cnt_get c t + length (filter (fun t' => Nat.eqb t' t) ts))%nat.
Proof.
  revert c. induction ts as [|t0 ts IH]; intros c; cbn [fold_left filter length]; [lia|].
  rewrite IH, cnt_get_incr. rewrite (Nat.eqb_sym t t0). destruct (Nat.eqb t0 t); cbn [length]; lia.
Qed.

Lemma count_edge_types_get c es t : cnt_get (count_edge_types c es) t = length (edges_of t es).
Proof.
  unfold count_edge_types. rewrite cnt_get_fold. cbn [cnt_get]. unfold edges_of.
  induction es as [|e es IH]; [reflexivity|]. cbn [map filter].
  destruct (Nat.eqb (etop e) t); cbn [length]; lia.
Qed.

(* the recount does not look at the previous counter: this is what makes repeated calls agree *)
Lemma count_edge_types_reset c1 c2 es : count_edge_types c1 es = count_edge_types c2 es.
Proof. reflexivity. Qed.

Lemma ends_count_cons exf e es a b :
  ends_count exf (e :: es) a b =
  (b2n (keqb (exf (eu e)) a && keqb (exf (ev e)) b) + b2n (keqb (exf (ev e)) a && keqb (exf (eu e)) b)
   + ends_count exf es a b)%nat.
Proof. reflexivity. Qed.

Lemma own_count_cons exf e es a :
  own_count exf (e :: es) a = (b2n (keqb (exf (eu e)) a) + b2n (keqb (exf (ev e)) a) + own_count exf es a)%nat.
Proof. reflexivity. Qed.

(* ---------- generic accumulation over edges ---------- *)
Section Generic.
  Variable exf : nat -> key.
  Variable cf : edge -> list (key * Q).
  Variable h : Q.
  Definition k1 (e : edge) : key := exf (eu e) ++ exf (ev e).
  Definition k2 (e : edge) : key := exf (ev e) ++ exf (eu e).
  Hypothesis cf_msum : forall e p, msum p (cf e) == (b2q (p (k1 e)) + b2q (p (k2 e))) * h.
  Hypothesis cf_keys : forall e k, In k (map fst (cf e)) <-> k = k1 e \/ k = k2 e.

  Definition cnt2 (p : key -> bool) (es : list edge) : nat :=
    fold_right (fun e n => (b2n (p (k1 e)) + b2n (p (k2 e)) + n)%nat) 0%nat es.

  Lemma cnt2_cons p e es : cnt2 p (e :: es) = (b2n (p (k1 e)) + b2n (p (k2 e)) + cnt2 p es)%nat.
  Proof. reflexivity. Qed.

  Lemma cnt2_true es : cnt2 (fun _ => true) es = (2 * length es)%nat.
  Proof. induction es as [|e es IH]; [reflexivity|]. rewrite cnt2_cons, IH. cbn [b2n length]. lia. Qed.

  Lemma gen_msum p es : msum p (dacc [] (flat_map cf es)) == nq (cnt2 p es) * h.
  Proof.
    rewrite dacc_msum, msum_nil, msum_flat_map.
    induction es as [|e es IH]; [unfold nq; cbn; ring|]. rewrite cnt2_cons. cbn [map qsum].
    - rewrite !nq_plus, !nq_b2n, cf_msum.
      assert (E : 0 + qsum (map (fun x => msum p (cf x)) es) == nq (cnt2 p es) * h) by exact IH.
      assert (E2 : qsum (map (fun x => msum p (cf x)) es) == nq (cnt2 p es) * h) by (rewrite <- E; ring).
      rewrite E2. ring.
  Qed.

  Lemma gen_get es k : dgetq (dacc [] (flat_map cf es)) k == nq (cnt2 (fun x => keqb x k) es) * h.
  Proof.
    rewrite dgetq_msum by (apply dacc_NoDup; constructor). apply gen_msum.
  Qed.

  Lemma gen_total es : qsum (dvals (dacc [] (flat_map cf es))) == nq (2 * length es) * h.
  Proof.
    rewrite <- msum_true, gen_msum.
    rewrite cnt2_true. reflexivity.
  Qed.

  Lemma gen_keys es k :
    In k (dkeys (dacc [] (flat_map cf es))) <-> exists e, In e es /\ (k = k1 e \/ k = k2 e).
  Proof.
    rewrite dacc_keys. cbn [dkeys map]. split.
    - intros [[]|H]. apply in_map_iff in H. destruct H as [[k' v] [E H]]. cbn in E. subst k'.
      apply in_flat_map in H. destruct H as [e [He H]]. exists e. split; [exact He|].
      apply cf_keys. apply in_map_iff. exists (k, v). split; [reflexivity|exact H].
    - intros [e [He H]]. right. apply cf_keys in H. apply in_map_iff in H. destruct H as [[k' v] [E H]].
      cbn in E. subst k'. apply in_map_iff. exists (k, v). split; [reflexivity|].
      apply in_flat_map. exists e. split; assumption.
  Qed.

  Lemma gen_NoDup es : NoDup (dkeys (dacc [] (flat_map cf es))).
  Proof. apply dacc_NoDup. constructor. Qed.

  (* under a uniform tuple length the concatenated key determines the ordered pair *)
  Variable T : nat.
  Definition uniform (es : list edge) : Prop :=
    Forall (fun e => length (exf (eu e)) = T /\ length (exf (ev e)) = T) es.

  Lemma keqb_app_split x y k :
    length x = T -> keqb (x ++ y) k = keqb x (firstn T k) && keqb y (skipn T k).
  Proof.
    intros HL. destruct (keqb_spec (x ++ y) k) as [E|Hne].
    - subst k. rewrite <- HL, firstn_app, Nat.sub_diag, firstn_all, skipn_app, Nat.sub_diag, skipn_all.
      cbn. rewrite app_nil_r, !keqb_refl. reflexivity.
    - symmetry. apply andb_false_iff.
      destruct (keqb_spec x (firstn T k)) as [E1|]; [|left; reflexivity].
      destruct (keqb_spec y (skipn T k)) as [E2|]; [|right; reflexivity].
      exfalso. apply Hne. rewrite E1, E2. apply firstn_skipn.
  Qed.

  Lemma cnt2_ends es k :
    uniform es -> cnt2 (fun x => keqb x k) es = ends_count exf es (firstn T k) (skipn T k).
  Proof.
    induction 1 as [|e es [Hu Hv] _ IH]; [reflexivity|].
    rewrite cnt2_cons, ends_count_cons, IH. unfold k1, k2. rewrite !keqb_app_split by assumption. reflexivity.
  Qed.

  Lemma cnt2_own es a :
    uniform es -> cnt2 (fun x => keqb (firstn T x) a) es = own_count exf es a.
  Proof.
    induction 1 as [|e es [Hu Hv] _ IH]; [reflexivity|].
    rewrite cnt2_cons, own_count_cons, IH. unfold k1, k2.
    rewrite <- Hu at 1. rewrite firstn_app, Nat.sub_diag, firstn_all. cbn [firstn]. rewrite app_nil_r.
    rewrite <- Hv at 1. rewrite firstn_app, Nat.sub_diag, firstn_all. cbn [firstn]. rewrite app_nil_r.
    reflexivity.
  Qed.

  Lemma gen_rowsum es a :
    uniform es -> rowsum T (dacc [] (flat_map cf es)) a == nq (own_count exf es a) * h.
  Proof.
    intros HU. unfold rowsum. change (qsum _) with (msum (fun x => keqb (firstn T x) a) (dacc [] (flat_map cf es))).
    rewrite gen_msum, cnt2_own by exact HU. reflexivity.
  Qed.
End Generic.

Lemma ends_count_sym exf es a b : ends_count exf es a b = ends_count exf es b a.
Proof.
  induction es as [|e es IH]; [reflexivity|]. rewrite !ends_count_cons, IH.
  rewrite (andb_comm (keqb (exf (eu e)) a)), (andb_comm (keqb (exf (ev e)) a)). lia.
Qed.

(* sum over all partner classes of the ordered-end counts = number of ends with own class a *)
Lemma half_scale x E : x * ((1 # 2) / E) == x / (2 * E).
Proof.
  unfold Qdiv. rewrite Qinv_mult_distr. change (/ 2) with (1 # 2). ring.
Qed.

(* ---------- the two contribution functions satisfy the generic hypotheses ---------- *)
Lemma contrib_msum exf E e p :
  msum p (contrib exf E e) == (b2q (p (k1 exf e)) + b2q (p (k2 exf e))) * ((1 # 2) / E).
Proof.
  unfold contrib, k1, k2. destruct (keqb_spec (exf (eu e) ++ exf (ev e)) (exf (ev e) ++ exf (eu e))) as [Eq|Hne].
  - rewrite <- Eq. rewrite msum_cons, msum_nil. unfold Qdiv. ring.
  - rewrite !msum_cons, msum_nil. ring.
Qed.

Lemma contrib_keys exf E e k :
  In k (map fst (contrib exf E e)) <-> k = k1 exf e \/ k = k2 exf e.
Proof.
  unfold contrib, k1, k2. destruct (keqb_spec (exf (eu e) ++ exf (ev e)) (exf (ev e) ++ exf (eu e))) as [Eq|Hne]; cbn.
  - rewrite <- Eq. intuition congruence.
  - intuition congruence.
Qed.

Lemma contrib_plain_msum exf E e p :
  msum p (contrib_plain exf E e) == (b2q (p (k1 exf e)) + b2q (p (k2 exf e))) * ((1 # 2) / E).
Proof. unfold contrib_plain, k1, k2. rewrite !msum_cons, msum_nil. ring. Qed.

Lemma contrib_plain_keys exf E e k :
  In k (map fst (contrib_plain exf E e)) <-> k = k1 exf e \/ k = k2 exf e.
Proof. unfold contrib_plain, k1, k2. cbn. intuition congruence. Qed.

(* ---------- an abstract mixing matrix: either of the two accumulations ---------- *)
Definition mix (exf : nat -> key) (es : list edge) : dict :=
  dacc [] (flat_map (contrib exf (nq (length es))) es).
Definition mix_plain (exf : nat -> key) (es : list edge) : dict :=
  dacc [] (flat_map (contrib_plain exf (nq (length es))) es).

Lemma get_ejk_mix g c i name :
  get_ejk g (count_edge_types c (edges g)) i name = mix (exc g i) (edges_of name (edges g)).
Proof. unfold get_ejk, mix. rewrite count_edge_types_get. reflexivity. Qed.

Lemma plain_ejk_mix es : plain_ejk es = mix_plain (pexc es) es.
Proof. reflexivity. Qed.

Section Facts.
  Variable exf : nat -> key.
  Variable T : nat.
  Variable es : list edge.
  Hypothesis HU : uniform exf T es.

  (* M is either accumulation *)
  Variable M : dict.
  Hypothesis HM : M = mix exf es \/ M = mix_plain exf es.

  Lemma M_msum p : msum p M == nq (cnt2 exf p es) * ((1 # 2) / nq (length es)).
  Proof.
    destruct HM as [-> | ->]; unfold mix, mix_plain.
    - apply gen_msum. apply contrib_msum.
    - apply gen_msum. apply contrib_plain_msum.
  Qed.

  Lemma M_NoDup : NoDup (dkeys M).
  Proof. destruct HM as [-> | ->]; apply dacc_NoDup; constructor. Qed.

  Lemma M_keys k : In k (dkeys M) <-> exists e, In e es /\ (k = k1 exf e \/ k = k2 exf e).
  Proof.
    destruct HM as [-> | ->]; unfold mix, mix_plain.
    - apply gen_keys. apply contrib_keys.
    - apply gen_keys. apply contrib_plain_keys.
  Qed.

  (* entry = #ordered ends / (2E) *)
  Lemma M_entry_key k :
    dgetq M k == nq (ends_count exf es (firstn T k) (skipn T k)) / nq (2 * length es).
  Proof.
    rewrite dgetq_msum by exact M_NoDup. rewrite M_msum, (cnt2_ends exf T es _ HU).
    rewrite half_scale, nq_double. reflexivity.
  Qed.

  Lemma M_entry a b : length a = T ->
    dgetq M (a ++ b) == nq (ends_count exf es a b) / nq (2 * length es).
  Proof.
    intros HL. rewrite M_entry_key. rewrite <- HL, firstn_app, Nat.sub_diag, firstn_all, skipn_app, Nat.sub_diag, skipn_all.
    cbn [firstn skipn app]. rewrite app_nil_r. reflexivity.
  Qed.

  Lemma M_symmetric a b : length a = T -> length b = T -> dgetq M (a ++ b) == dgetq M (b ++ a).
  Proof. intros Ha Hb. rewrite !M_entry by assumption. rewrite ends_count_sym. reflexivity. Qed.

  Lemma M_total : es <> [] -> qsum (dvals M) == 1.
  Proof.
    intros Hne. rewrite <- msum_true, M_msum.
    rewrite cnt2_true, half_scale, nq_double. field.
    apply nq_pos. destruct es; [congruence|cbn; lia].
  Qed.

  Lemma M_rowsum a : rowsum T M a == nq (own_count exf es a) / nq (2 * length es).
  Proof.
    unfold rowsum. change (qsum _) with (msum (fun x => keqb (firstn T x) a) M).
    rewrite M_msum, (cnt2_own exf T es _ HU). rewrite half_scale, nq_double. reflexivity.
  Qed.

  (* the model's matrix is exactly the specification dict *)
  Lemma M_spec : dict_close 0 M (spec_mix T exf es).
  Proof.
    split; [apply Qle_refl|]. split; [exact M_NoDup|]. split.
    - intros k. rewrite M_keys. unfold spec_mix. rewrite dkeys_map_fun. unfold pair_keys.
      rewrite kdedup_In, in_flat_map. split; intros [e [He H]]; exists e; (split; [exact He|]).
      + cbn. unfold k1, k2 in H. intuition congruence.
      + cbn in H. unfold k1, k2. intuition congruence.
    - intros k. apply Qabs_zero_le; [apply Qle_refl|]. rewrite M_entry_key.
      unfold spec_mix, dgetq. rewrite dget_map_fun. unfold spec_val.
      destruct (kmem k (pair_keys exf es)) eqn:Ek; [reflexivity|].
      (* not an occurring pair: the count is zero *)
      apply kmem_false in Ek. unfold pair_keys in Ek. rewrite kdedup_In in Ek.
      assert (Hz : ends_count exf es (firstn T k) (skipn T k) = 0%nat).
      { rewrite <- (cnt2_ends exf T es _ HU). clear - Ek.
        induction es as [|e l IH]; [reflexivity|]. rewrite cnt2_cons.
        rewrite IH by (intros H; apply Ek; cbn [flat_map]; apply in_or_app; right; exact H).
        assert (H1 : keqb (k1 exf e) k = false).
        { apply keqb_neq. intros E. apply Ek. cbn [flat_map]. apply in_or_app. left. left. exact E. }
        assert (H2 : keqb (k2 exf e) k = false).
        { apply keqb_neq. intros E. apply Ek. cbn [flat_map]. apply in_or_app. left. right. left. exact E. }
        rewrite H1, H2. reflexivity. }
      rewrite Hz. unfold nq at 1. cbn [Z.of_nat]. unfold Qdiv. ring.
  Qed.
End Facts.

(* ---------- validity ---------- *)
Definition valid_net (T : nat) (g : net) : Prop :=
  Forall (fun k => length k = T) (jds g) /\
  Forall (fun e => (eu e < length (jds g))%nat /\ (ev e < length (jds g))%nat) (edges g).

Lemma valid_netb_spec T g : valid_netb T g = true <-> valid_net T g.
Proof.
  unfold valid_netb, valid_net. rewrite andb_true_iff, !forallb_forall, !Forall_forall.
  split; intros [H1 H2]; split; intros x Hx.
  - apply Nat.eqb_eq. apply H1. exact Hx.
  - specialize (H2 x Hx). apply andb_true_iff in H2. destruct H2 as [A B].
    apply Nat.ltb_lt in A. apply Nat.ltb_lt in B. split; assumption.
  - apply Nat.eqb_eq. apply H1. exact Hx.
  - destruct (H2 x Hx) as [A B]. apply andb_true_iff. split; apply Nat.ltb_lt; assumption.
Qed.

Lemma kdec_length i k : length (kdec i k) = length k.
Proof. revert i. induction k as [|x t IH]; intros [|i]; cbn; auto. Qed.

Lemma kinc_length i k : length (kinc i k) = length k.
Proof. revert i. induction k as [|x t IH]; intros [|i]; cbn; auto. Qed.

Lemma kinc_kdec i k : kinc i (kdec i k) = k.
Proof. revert i. induction k as [|x t IH]; intros [|i]; cbn; try reflexivity; f_equal; [lia|apply IH]. Qed.

Lemma kdec_kinc i k : kdec i (kinc i k) = k.
Proof. revert i. induction k as [|x t IH]; intros [|i]; cbn; try reflexivity; f_equal; [lia|apply IH]. Qed.

Lemma knth_kdec i k : (i < length k)%nat -> knth i (kdec i k) = (knth i k - 1)%Z.
Proof.
  revert i. induction k as [|x t IH]; intros [|i] H; cbn in *; try lia; try reflexivity. apply IH. lia.
Qed.

Lemma knth_kinc i k : (i < length k)%nat -> knth i (kinc i k) = (knth i k + 1)%Z.
Proof.
  revert i. induction k as [|x t IH]; intros [|i] H; cbn in *; try lia; try reflexivity. apply IH. lia.
Qed.

Lemma knth_kdec_other i j k : i <> j -> knth j (kdec i k) = knth j k.
Proof.
  revert i j. induction k as [|x t IH]; intros [|i] [|j] H; cbn; try reflexivity; try congruence.
  apply IH. congruence.
Qed.

Lemma jd_of_length T g v : valid_net T g -> (v < length (jds g))%nat -> length (jd_of g v) = T.
Proof.
  intros [H _] Hv. rewrite Forall_forall in H. apply H. unfold jd_of. apply nth_In. exact Hv.
Qed.

Lemma uniform_exc T g i name : valid_net T g -> uniform (exc g i) T (edges_of name (edges g)).
Proof.
  intros HV. unfold uniform. apply Forall_forall. intros e He.
  unfold edges_of in He. apply filter_In in He. destruct He as [He _].
  destruct HV as [H1 H2]. rewrite Forall_forall in H2. destruct (H2 e He) as [A B].
  unfold exc. rewrite !kdec_length.
  assert (HV : valid_net T g) by (split; [exact H1|apply Forall_forall; exact H2]).
  split; apply (jd_of_length T g); assumption.
Qed.

Lemma uniform_pexc es es' : uniform (pexc es) 1 es'.
Proof. apply Forall_forall. intros e _. split; reflexivity. Qed.

(* ---------- call histories ---------- *)
Lemma get_ejks_snd g names c :
  snd (get_ejks g names c) =
  map (fun it => (snd it, mix (exc g (fst it)) (edges_of (snd it) (edges g)))) (enum_from 0 names).
Proof.
  unfold get_ejks. cbn [snd]. apply map_ext. intros [i name]. cbn [fst snd]. rewrite get_ejk_mix. reflexivity.
Qed.

(* the result of a call does not depend on the counter state the object is in *)
Lemma get_ejks_state_independent g names c1 c2 : snd (get_ejks g names c1) = snd (get_ejks g names c2).
Proof. rewrite !get_ejks_snd. reflexivity. Qed.

Lemma run_calls_repeat g names n : forall c c0,
  run_calls g names c n = repeat (snd (get_ejks g names c0)) n.
Proof.
  induction n as [|n IH]; intros c c0; [reflexivity|].
  cbn [run_calls repeat]. rewrite (IH _ c0). rewrite (get_ejks_state_independent g names c c0). reflexivity.
Qed.

Lemma run_calls_nth g names c n k :
  (k < n)%nat -> nth k (run_calls g names c n) [] = snd (get_ejks g names []).
Proof.
  intros H. rewrite (run_calls_repeat g names n c []). revert k H.
  induction n as [|n IH]; intros [|k] H; cbn [repeat nth]; try lia; [reflexivity|]. apply IH. lia.
Qed.

(* ---------- excess keys ---------- *)
Lemma xkeys_i_In g i a :
  In a (xkeys_i g i) <-> exists k, In k (jds g) /\ (0 < knth i k)%Z /\ a = kdec i k.
Proof.
  unfold xkeys_i. rewrite kdedup_In, in_map_iff. split.
  - intros [k [E H]]. apply filter_In in H. destruct H as [H1 H2]. rewrite kdedup_In in H1.
    exists k. split; [exact H1|]. split; [apply Z.ltb_lt; exact H2|congruence].
  - intros [k [H1 [H2 E]]]. exists k. split; [congruence|]. apply filter_In. split; [apply kdedup_In; exact H1|].
    apply Z.ltb_lt. exact H2.
Qed.

Lemma xkeys_i_NoDup g i : NoDup (xkeys_i g i).
Proof. apply kdedup_NoDup. Qed.

(* ---------- the checker ---------- *)
Definition mats_ok (eps : Q) (T : nat) (g : net) (its : list (nat * nat)) (ms : matrices) : Prop :=
  Forall2 (fun it nm => snd it = fst nm /\
                        dict_close eps (snd nm) (spec_mix T (exc g (fst it)) (edges_of (snd it) (edges g))))
          its ms.
Definition mats_same (a b : matrices) : Prop :=
  Forall2 (fun x y => fst x = fst y /\ dict_close 0 (snd x) (snd y)) a b.
Definition keyset_eq (l1 l2 : list key) : Prop := NoDup l1 /\ forall k, In k l1 <-> In k l2.
Definition xkeys_ok (g : net) (its : list (nat * nat)) (xk : list (nat * list key)) : Prop :=
  Forall2 (fun it nk => snd it = fst nk /\ keyset_eq (snd nk) (xkeys_i g (fst it))) its xk.

(* the property, as a predicate on what was observed over the successive calls *)
Definition C13_spec (eps : Q) (g : net) (names : list nat)
           (calls : list matrices) (xk : list (nat * list key)) (plain : dict) : Prop :=
  let T := length names in
  valid_net T g /\ NoDup names /\ calls <> [] /\
  Forall (mats_ok eps T g (enum_from 0 names)) calls /\
  Forall (mats_same (hd [] calls)) calls /\
  xkeys_ok g (enum_from 0 names) xk /\
  dict_close eps plain (spec_mix 1 (pexc (edges g)) (edges g)).

Lemma check_mats_spec eps T g its obs : check_mats eps T g its obs = true <-> mats_ok eps T g its obs.
Proof.
  revert obs. induction its as [|[i name] its IH]; intros [|[name' m] obs]; cbn [check_mats].
  - split; [constructor|reflexivity].
  - split; [discriminate|inversion 1].
  - split; [discriminate|inversion 1].
  - rewrite !andb_true_iff, Nat.eqb_eq, dict_closeb_spec, IH. split.
    + intros [[A B] C]. constructor; [split; assumption|exact C].
    + inversion 1 as [|? ? ? ? [A B] C]; subst. cbn in A, B. tauto.
Qed.

Lemma mats_eqb_spec a b : mats_eqb a b = true <-> mats_same a b.
Proof.
  revert b. induction a as [|[n1 m1] a IH]; intros [|[n2 m2] b]; cbn [mats_eqb].
  - split; [constructor|reflexivity].
  - split; [discriminate|inversion 1].
  - split; [discriminate|inversion 1].
  - rewrite !andb_true_iff, Nat.eqb_eq, dict_closeb_spec, IH. split.
    + intros [[A B] C]. constructor; [split; assumption|exact C].
    + inversion 1 as [|? ? ? ? [A B] C]; subst. cbn in A, B. tauto.
Qed.

Lemma keyset_eqb_spec l1 l2 : keyset_eqb l1 l2 = true <-> keyset_eq l1 l2.
Proof.
  unfold keyset_eqb, keyset_eq. rewrite !andb_true_iff, knodupb_NoDup, !forallb_forall. split.
  - intros [[A B] C]. split; [exact A|]. intros k. split; intros H; apply kmem_In; auto.
  - intros [A B]. repeat split; try assumption; intros k H; apply kmem_In, B, H.
Qed.

Lemma check_xkeys_spec g its obs : check_xkeys g its obs = true <-> xkeys_ok g its obs.
Proof.
  revert obs. induction its as [|[i name] its IH]; intros [|[name' ks] obs]; cbn [check_xkeys].
  - split; [constructor|reflexivity].
  - split; [discriminate|inversion 1].
  - split; [discriminate|inversion 1].
  - rewrite !andb_true_iff, Nat.eqb_eq, keyset_eqb_spec, IH. split.
    + intros [[A B] C]. constructor; [split; assumption|exact C].
    + inversion 1 as [|? ? ? ? [A B] C]; subst. cbn in A, B. tauto.
Qed.

Lemma nnodupb_spec l : nnodupb l = true <-> NoDup l.
Proof.
  induction l as [|x t IH]; cbn.
  - split; [constructor|reflexivity].
  - rewrite andb_true_iff, negb_true_iff, IH. split.
    + intros [A B]. constructor; [|exact B]. intros HI.
      assert (existsb (Nat.eqb x) t = true) by (apply existsb_exists; exists x; split; [exact HI|apply Nat.eqb_refl]).
      congruence.
    + inversion 1 as [|? ? A B]; subst. split; [|exact B].
      destruct (existsb (Nat.eqb x) t) eqn:E; [|reflexivity]. apply existsb_exists in E.
      destruct E as [y [Hy E]]. apply Nat.eqb_eq in E. subst. contradiction.
Qed.

Theorem c13_checkb_iff eps g names calls xk plain :
  c13_checkb eps g names calls xk plain = true <-> C13_spec eps g names calls xk plain.
Proof.
  unfold c13_checkb, C13_spec.
  rewrite !andb_true_iff, valid_netb_spec, nnodupb_spec, negb_true_iff, Nat.eqb_neq, !forallb_forall,
    check_xkeys_spec, dict_closeb_spec, !Forall_forall.
  assert (HL : length calls <> 0%nat <-> calls <> []) by (destruct calls; cbn; split; congruence).
  rewrite HL.
  split.
  - intros [[[[[[A B] C] D] E] F] G].
    split; [exact A|]. split; [exact B|]. split; [exact C|]. split; [|split; [|split; [exact F|exact G]]].
    + intros x Hx. apply check_mats_spec, D, Hx.
    + intros x Hx. apply mats_eqb_spec, E, Hx.
  - intros [A [B [C [D [E [F G]]]]]].
    split; [|exact G]. split; [|exact F]. split; [split; [split; [split; [exact A|exact B]|exact C]|]|].
    + intros x Hx. apply check_mats_spec, D, Hx.
    + intros x Hx. apply mats_eqb_spec, E, Hx.
Qed.

(* ---------- the model satisfies the specification, for every network and history ---------- *)
Lemma dict_close_refl m : NoDup (dkeys m) -> dict_close 0 m m.
Proof.
  intros H. split; [apply Qle_refl|]. split; [exact H|]. split; [tauto|].
  intros k. apply Qabs_zero_le; [apply Qle_refl|reflexivity].
Qed.

Lemma model_mats_ok T g its :
  valid_net T g ->
  mats_ok 0 T g its (map (fun it => (snd it, mix (exc g (fst it)) (edges_of (snd it) (edges g)))) its).
Proof.
  intros HV. induction its as [|[i name] its IH]; cbn [map]; constructor; [|exact IH].
  cbn [fst snd]. split; [reflexivity|].
  apply (M_spec (exc g i) T (edges_of name (edges g))); [apply uniform_exc; exact HV|left; reflexivity].
Qed.

Lemma model_mats_same ms : Forall (fun nm => NoDup (dkeys (snd nm))) ms -> mats_same ms ms.
Proof.
  induction 1 as [|[n m] ms H _ IH]; constructor; [|exact IH]. split; [reflexivity|apply dict_close_refl; exact H].
Qed.

Lemma model_xkeys_ok g its : xkeys_ok g its (map (fun it => (snd it, xkeys_i g (fst it))) its).
Proof.
  induction its as [|[i name] its IH]; cbn [map]; constructor; [|exact IH].
  cbn [fst snd]. split; [reflexivity|]. split; [apply xkeys_i_NoDup|tauto].
Qed.

Theorem model_satisfies_C13 g names c n :
  valid_net (length names) g -> NoDup names -> (0 < n)%nat ->
  C13_spec 0 g names (run_calls g names c n) (xkeys g names) (plain_ejk (edges g)).
Proof.
  intros HV HN Hn. unfold C13_spec. rewrite (run_calls_repeat g names n c []).
  split; [exact HV|]. split; [exact HN|]. split; [destruct n; [lia|discriminate]|].
  rewrite get_ejks_snd. split; [|split; [|split]].
  - apply Forall_forall. intros x Hx. apply repeat_spec in Hx. subst x. apply model_mats_ok. exact HV.
  - apply Forall_forall. intros x Hx. apply repeat_spec in Hx. subst x.
    destruct n; [lia|]. cbn [repeat hd]. apply model_mats_same.
    apply Forall_forall. intros nm Hnm. apply in_map_iff in Hnm. destruct Hnm as [it [<- _]]. cbn [snd].
    apply dacc_NoDup. constructor.
  - apply model_xkeys_ok.
  - rewrite plain_ejk_mix. apply (M_spec (pexc (edges g)) 1 (edges g)); [apply uniform_pexc|right; reflexivity].
Qed.

(* ---------- the theorems in the form stated in Props/C13.v ---------- *)
Section Stated.
  Variable g : net.
  Variable T : nat.
  Hypothesis HV : valid_net T g.
  Variable c : counter.
  Variable i name : nat.
  Let es := edges_of name (edges g).
  Let M := get_ejk g (count_edge_types c (edges g)) i name.

  Lemma st_M : M = mix (exc g i) es \/ M = mix_plain (exc g i) es.
  Proof. left. apply get_ejk_mix. Qed.

  Lemma st_entry a b : length a = T ->
    dgetq M (a ++ b) == nq (ends_count (exc g i) es a b) / nq (2 * length es).
  Proof. apply (M_entry (exc g i) T es (uniform_exc T g i name HV) M st_M). Qed.

  Lemma st_symmetric a b : length a = T -> length b = T -> dgetq M (a ++ b) == dgetq M (b ++ a).
  Proof. apply (M_symmetric (exc g i) T es (uniform_exc T g i name HV) M st_M). Qed.

  Lemma st_total : es <> [] -> qsum (dvals M) == 1.
  Proof. apply (M_total (exc g i) T es (uniform_exc T g i name HV) M st_M). Qed.

  Lemma st_rowsum a : rowsum T M a == nq (own_count (exc g i) es a) / nq (2 * length es).
  Proof. apply (M_rowsum (exc g i) T es (uniform_exc T g i name HV) M st_M). Qed.

  Lemma st_keys k :
    In k (dkeys M) <->
    exists e, In e es /\ (k = exc g i (eu e) ++ exc g i (ev e) \/ k = exc g i (ev e) ++ exc g i (eu e)).
  Proof. apply (M_keys (exc g i) es M st_M). Qed.

  Lemma st_NoDup : NoDup (dkeys M).
  Proof. apply (M_NoDup (exc g i) es M st_M). Qed.
End Stated.

Section StatedPlain.
  Variable es : list edge.
  Let M := plain_ejk es.
  Lemma pl_M : M = mix (pexc es) es \/ M = mix_plain (pexc es) es.
  Proof. right. reflexivity. Qed.

  Lemma pl_entry j k :
    dgetq M [j; k] == nq (ends_count (pexc es) es [j] [k]) / nq (2 * length es).
  Proof. apply (M_entry (pexc es) 1 es (uniform_pexc es es) M pl_M [j] [k]). reflexivity. Qed.

  Lemma pl_symmetric j k : dgetq M [j; k] == dgetq M [k; j].
  Proof. apply (M_symmetric (pexc es) 1 es (uniform_pexc es es) M pl_M [j] [k]); reflexivity. Qed.

  Lemma pl_total : es <> [] -> qsum (dvals M) == 1.
  Proof. apply (M_total (pexc es) 1 es (uniform_pexc es es) M pl_M). Qed.

  Lemma pl_rowsum j : rowsum 1 M [j] == nq (own_count (pexc es) es [j]) / nq (2 * length es).
  Proof. apply (M_rowsum (pexc es) 1 es (uniform_pexc es es) M pl_M). Qed.

  Lemma pl_keys k :
    In k (dkeys M) <->
    exists e, In e es /\ (k = pexc es (eu e) ++ pexc es (ev e) \/ k = pexc es (ev e) ++ pexc es (eu e)).
  Proof. apply (M_keys (pexc es) es M pl_M). Qed.
End StatedPlain.
