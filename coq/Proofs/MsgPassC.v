(* C17, growth 2: the cover precondition from the MOTIF TABLE alone.
   [cover_okb] (Model/MsgPass.v) is phrased with the labelled neighbours [nbrs_lab], i.e. with the same adjacency
   view the code's bookkeeping uses.  Here: the documented assumption "two different motifs share at most one
   vertex", stated on the membership lists of the motif table only ([share_le1]), implies [cover_okb] for every
   well-formed network.  So the table-based theorems of Proofs/MsgPassT.v hold under hypotheses none of which
   mentions adjacency bookkeeping: net_okb (labels consistent), table_okb (the table is the cover), share_le1. *)
From Coq Require Import List ZArith QArith Bool Arith Lia Permutation.
From GV Require Import Lib.Tree Lib.PolyRefl15 Lib.Graph15 Model.AutoEq Proofs.AutoEqP Proofs.AutoEqG
                       Model.MsgPass Proofs.MsgPassP Proofs.MsgPassG Proofs.MsgPassT.
Import ListNotations.

(* two table motifs with different IDs have at most one common member *)
Definition share_le1 (nt : net) : Prop :=
  forall m1 m2, In m1 (n_motifs nt) -> In m2 (n_motifs nt) -> m_id m1 <> m_id m2 ->
    forall a b, In a (m_verts m1) -> In b (m_verts m1) -> In a (m_verts m2) -> In b (m_verts m2) -> a = b.

(* ... decided *)
Definition share_le1b (nt : net) : bool :=
  forallb (fun m1 =>
    forallb (fun m2 =>
      Nat.eqb (m_id m1) (m_id m2)
      || forallb (fun a => forallb (fun b => negb (memb a (m_verts m2) && memb b (m_verts m2)) || Nat.eqb a b)
                                   (m_verts m1)) (m_verts m1))
      (n_motifs nt)) (n_motifs nt).

Lemma share_le1b_spec : forall nt, share_le1b nt = true -> share_le1 nt.
Proof.
  intros nt H m1 m2 H1 H2 Hid a b Ha1 Hb1 Ha2 Hb2. unfold share_le1b in H.
  rewrite forallb_forall in H. specialize (H m1 H1). rewrite forallb_forall in H. specialize (H m2 H2).
  apply orb_true_iff in H. destruct H as [H|H]; [apply Nat.eqb_eq in H; contradiction|].
  rewrite forallb_forall in H. specialize (H a Ha1). rewrite forallb_forall in H. specialize (H b Hb1).
  apply memb_In in Ha2, Hb2. rewrite Ha2, Hb2 in H. cbn in H. apply Nat.eqb_eq. exact H.
Qed.

Lemma net_okb_edges : forall nt, net_okb nt = true ->
    forall i j id, In (i, j, id) (n_sweep nt) ->
      In (i, j) (m_edges (find_motif nt id)) \/ In (j, i) (m_edges (find_motif nt id)).
Proof.
  intros nt H i j id Hin. unfold net_okb in H.
  apply andb_true_iff in H. destruct H as [H _].
  apply andb_true_iff in H. destruct H as [_ H].
  rewrite forallb_forall in H. specialize (H _ Hin). cbn beta iota in H.
  apply orb_true_iff in H. destruct H as [H|H]; apply edge_mem_In in H; [left|right]; exact H.
Qed.

(* the two end points of a swept edge are different members of the edge's motif *)
Lemma swept_edge_members : forall nt, net_okb nt = true ->
    forall i j id, In (i, j, id) (n_sweep nt) ->
      let m := find_motif nt id in
      In m (n_motifs nt) /\ m_id m = id /\ In i (m_verts m) /\ In j (m_verts m) /\ i <> j.
Proof.
  intros nt Hn i j id Hin m. destruct (net_okb_table_parts nt Hn) as [Hs Hm].
  destruct (net_okb_parts nt Hn) as [_ Hwf].
  unfold sweep_okb in Hs. rewrite forallb_forall in Hs. specialize (Hs _ Hin). cbn beta iota in Hs.
  apply andb_true_iff in Hs. destruct Hs as [Hi Hj]. apply memb_In in Hi, Hj.
  destruct (find_motif_in nt id i Hi) as [Hin' Hid]. fold m in Hi, Hj, Hin', Hid.
  split; [exact Hin'|]. split; [exact Hid|].
  pose proof (same_setb_memb _ _ (Hm _ Hin')) as E.
  split; [apply memb_In; rewrite E; apply memb_In; exact Hi|].
  split; [apply memb_In; rewrite E; apply memb_In; exact Hj|].
  destruct (wf_graph_parts _ (Hwf _ Hin')) as [_ [_ [_ Hloop]]].
  destruct (net_okb_edges nt Hn i j id Hin) as [He|He]; fold m in He;
    specialize (Hloop _ He); cbn [fst snd] in Hloop; congruence.
Qed.

Theorem share_le1_cover : forall nt, net_okb nt = true -> share_le1 nt -> cover_okb nt = true.
Proof.
  intros nt Hn Hsh. unfold cover_okb. apply forallb_forall. intros [[i j] id] Hin. apply forallb_forall. intros v Hv.
  unfold cover_ok_atb. apply forallb_forall. intros [w id'] Hw. cbn [fst snd].
  destruct (net_okb_table_parts nt Hn) as [_ Hm].
  destruct (find_motif_in nt id v Hv) as [HM HMid].
  assert (HvM : In v (m_verts (find_motif nt id))).
  { apply memb_In. rewrite (same_setb_memb _ _ (Hm _ HM)). apply memb_In. exact Hv. }
  apply nbrs_lab_iff in Hw.
  assert (X : In (find_motif nt id') (n_motifs nt) /\ m_id (find_motif nt id') = id' /\
              In v (m_verts (find_motif nt id')) /\ In w (m_verts (find_motif nt id')) /\ v <> w).
  { destruct Hw as [Hw|Hw]; destruct (swept_edge_members nt Hn _ _ _ Hw) as [A [B [C [D E]]]];
      repeat split; auto. }
  destruct X as [HM' [HMid' [Hv' [Hw' Hne]]]].
  destruct (Nat.eqb_spec id' id) as [->|Hid].
  - apply memb_In in Hw'. rewrite Hw'. reflexivity.
  - destruct (memb w (m_verts (find_motif nt id))) eqn:E; [|reflexivity]. exfalso. apply memb_In in E.
    apply Hne. apply (Hsh (find_motif nt id) (find_motif nt id') HM HM'); try assumption. congruence.
Qed.

Corollary share_le1b_cover : forall nt, net_okb nt = true -> share_le1b nt = true -> cover_okb nt = true.
Proof. intros nt Hn H. apply share_le1_cover; [exact Hn|apply share_le1b_spec, H]. Qed.
