(* Proofs about Model/CliqueEq.v:
   - rational-valued reading of the model polynomials (general homomorphism lemmas);
   - clique identity for tau <= 6 and cycle identity for n <= 10 (reflection + ring_correct);
   - soundness of the verified checker c16_check's components; the model passes the checker. *)
From Coq Require Import List ZArith QArith Bool Arith Lia Ring_polynom Ring_theory InitialRing Qfield.
From GV Require Import Lib.Tree Lib.Graph16 Lib.PolyRefl16 Model.QCount Model.CliqueEq Proofs.QCountP.
Import ListNotations.
Local Open Scope Q_scope.

(* ================================================================== rational-valued semantics *)
Definition qsum (l : list Q) : Q := fold_right Qplus 0 l.
Definition qprod (l : list Q) : Q := fold_right Qmult 1 l.
(* power with a natural exponent given as an integer (exponents of the code are never negative) *)
Definition qpow (q : Q) (e : Z) : Q := Qpower q (Z.of_N (Z.to_N e)).

(* clique_equation evaluated in Q: the Python text, with phi and the H values rationals *)
Definition clique_val (tau : nat) (phi : Q) (Hs : list Q) : Q :=
  qsum (map (fun kappa =>
          let kz := Z.of_nat kappa in
          let factor := qsum (map qprod (combs kappa Hs)) in
          qsum (map (fun m =>
                  let e := (kz * (kz + 1) / 2 - m)%Z in
                  inject_Z (Qv (S kappa) e) * qpow phi e * qpow (1 - phi) (omega tau kappa + m) * factor)
                (zrange 0 (kz * (kz - 1) / 2 + 1))))
        (seq 0 tau)).

(* chordless_cycle_equation evaluated in Q *)
Definition cycle_val (n : nat) (u phi : Q) : Q :=
  let q := 1 - phi in
  let nz := Z.of_nat n in
  qpow q 2
  + qsum (map (fun i => inject_Z (i + 1) * qpow (phi * u) i * qpow q 2) (zrange 1 (nz - 1)))
  + inject_Z nz * qpow (u * phi) (nz - 1) * q
  + phi * qpow (phi * u) (nz - 1).

(* THE SPECIFICATION: exact bond-percolation expectation of prod_{v in comp(root), v <> root} u_v
   on the graph (vs, es), every edge kept independently with probability phi:
   sum over all edge subsets S of phi^|S| (1-phi)^(|E|-|S|) prod u_v *)
Definition exact_val (vs : list nat) (es : list edge) (root : nat) (phi : Q) (u : nat -> Q) : Q :=
  qsum (map (fun S =>
          let l := labels vs S in
          qpow phi (Z.of_nat (length S)) * qpow (1 - phi) (Z.of_nat (length es - length S))
          * qprod (map u (filter (fun v => negb (Nat.eqb v root) && same_comp l root v) vs)))
        (subseqs es)).

(* ---- sums and products *)
Lemma qsum_app a b : qsum (a ++ b) == qsum a + qsum b.
Proof. unfold qsum. induction a as [|x a IH]; cbn [app fold_right]; [ring|]. rewrite IH. ring. Qed.

Lemma qsum_map_ext {A} (f g : A -> Q) l : (forall x, In x l -> f x == g x) -> qsum (map f l) == qsum (map g l).
Proof.
  unfold qsum. induction l as [|x l IH]; intros H; cbn [map fold_right]; [reflexivity|].
  rewrite (H x) by (left; reflexivity). rewrite IH; [reflexivity|]. intros y Hy. apply H. right. exact Hy.
Qed.

Lemma qsum_flat_map {A} (f : A -> list Q) l : qsum (flat_map f l) == qsum (map (fun x => qsum (f x)) l).
Proof.
  induction l as [|x l IH]; cbn [flat_map map]; [reflexivity|]. rewrite qsum_app, IH. reflexivity.
Qed.

Lemma map_flat_map {A B C} (g : B -> C) (f : A -> list B) l :
  map g (flat_map f l) = flat_map (fun x => map g (f x)) l.
Proof. induction l as [|x l IH]; cbn; [reflexivity|]. rewrite map_app, IH. reflexivity. Qed.

Lemma combs_map {A B} (f : A -> B) : forall l k, combs k (map f l) = map (map f) (combs k l).
Proof.
  induction l as [|x t IH]; intros k; destruct k; cbn; try reflexivity.
  rewrite map_app, !IH, !map_map. reflexivity.
Qed.

(* ---- evaluation of the constructors *)
Lemma phiZ_inject z : phiZ z == inject_Z z.
Proof.
  pose proof (gen_phiZ_morph Qsth Qreqe Qsrt) as M. fold phiZ in M.
  assert (Hpos : forall z, (0 <= z)%Z -> phiZ z == inject_Z z).
  { apply natlike_ind; [reflexivity|]. intros x Hx IH.
    unfold Z.succ. rewrite (morph_add M), IH, inject_Z_plus. reflexivity. }
  destruct (Z_le_gt_dec 0 z) as [H|H]; [apply Hpos, H|].
  replace z with (- (- z))%Z by lia. rewrite (morph_opp M), Hpos by lia.
  rewrite inject_Z_opp. reflexivity.
Qed.

Lemma peval_pc l z : peval l (pc z) == inject_Z z.
Proof. apply phiZ_inject. Qed.

Lemma peval_psum l xs : peval l (psum xs) == qsum (map (peval l) xs).
Proof.
  induction xs as [|x xs IH]; [reflexivity|].
  change (peval l (psum (x :: xs))) with (peval l x + peval l (psum xs)). rewrite IH. reflexivity.
Qed.

Lemma peval_pprod l xs : peval l (pprod xs) == qprod (map (peval l) xs).
Proof.
  induction xs as [|x xs IH]; [reflexivity|].
  change (peval l (pprod (x :: xs))) with (peval l x * peval l (pprod xs)). rewrite IH. reflexivity.
Qed.

Lemma peval_pmul l a b : peval l (pmul a b) = peval l a * peval l b.
Proof. reflexivity. Qed.
Lemma peval_padd l a b : peval l (padd a b) = peval l a + peval l b.
Proof. reflexivity. Qed.
Lemma peval_one_minus l a : peval l (psub (pc 1) a) = 1 - peval l a.
Proof. reflexivity. Qed.
Lemma peval_ppow l a e : peval l (ppow a (Z.to_N e)) = qpow (peval l a) e.
Proof. reflexivity. Qed.
Lemma peval_ppow_nat l a n : peval l (ppow a (N.of_nat n)) = qpow (peval l a) (Z.of_nat n).
Proof. unfold qpow. rewrite <- nat_N_Z, N2Z.id. reflexivity. Qed.

(* ---- GENERAL: the model polynomials evaluate to the rational-valued readings *)
Lemma clique_expr_val l tau P HS :
  peval l (clique_expr tau P HS) == clique_val tau (peval l P) (map (peval l) HS).
Proof.
  unfold clique_expr, clique_val.
  rewrite peval_psum, map_flat_map, qsum_flat_map.
  apply qsum_map_ext. intros kappa _. cbv zeta.
  rewrite map_map. apply qsum_map_ext. intros m _.
  unfold clique_term. cbv zeta. rewrite !peval_pmul, peval_pc, !peval_ppow, peval_one_minus.
  rewrite peval_psum, map_map, combs_map, map_map.
  assert (E : qsum (map (fun x => peval l (pprod x)) (combs kappa HS)) ==
              qsum (map (fun x => qprod (map (peval l) x)) (combs kappa HS))).
  { apply qsum_map_ext. intros x _. apply peval_pprod. }
  rewrite E. reflexivity.
Qed.

Lemma cycle_expr_val l n U P :
  peval l (cycle_expr n U P) == cycle_val n (peval l U) (peval l P).
Proof.
  unfold cycle_expr, cycle_val. cbv zeta.
  rewrite !peval_padd, !peval_pmul, peval_psum, map_map, peval_pc.
  change 2%N with (Z.to_N 2). rewrite !peval_ppow, !peval_pmul, peval_one_minus.
  assert (E : qsum (map (fun x => peval l (pmul (pmul (pc (x + 1)) (ppow (pmul P U) (Z.to_N x)))
                                            (ppow (psub (pc 1) P) (Z.to_N 2)))) (zrange 1 (Z.of_nat n - 1))) ==
              qsum (map (fun i => inject_Z (i + 1) * qpow (peval l P * peval l U) i * qpow (1 - peval l P) 2)
                        (zrange 1 (Z.of_nat n - 1)))).
  { apply qsum_map_ext. intros i _.
    rewrite !peval_pmul, peval_pc, !peval_ppow, peval_pmul, peval_one_minus. reflexivity. }
  rewrite E. reflexivity.
Qed.

Lemma exact_expr_val l vs es root P U :
  peval l (exact_expr vs es root P U) == exact_val vs es root (peval l P) (fun v => peval l (U v)).
Proof.
  unfold exact_expr, exact_val. rewrite peval_psum, map_map.
  apply qsum_map_ext. intros S _. unfold exact_term. cbv zeta.
  rewrite !peval_pmul, !peval_ppow_nat, peval_one_minus, peval_pprod, map_map. reflexivity.
Qed.

(* ================================================================== the identities (reflection) *)
(* x2 .. x_tau : one variable per neighbour *)
Definition hvars (tau : nat) : list pe := map (fun i => px (Pos.of_nat (S i))) (seq 1 (tau - 1)).

Definition clique_ok (tau : nat) : bool :=
  peq (clique_expr tau (px 1) (hvars tau)) (clique_spec tau (px 1) (hvars tau)).
Definition cycle_ok (n : nat) : bool :=
  peq (cycle_expr n (px 2) (px 1)) (cycle_spec n (px 2) (px 1)).

Lemma clique_ok_upto_6 : forallb clique_ok (seq 2 5) = true.
Proof. vm_compute. reflexivity. Qed.

Lemma cycle_ok_upto_10 : forallb cycle_ok (seq 3 8) = true.
Proof. vm_compute. reflexivity. Qed.

Lemma hvars_eval phi Hs tau :
  (2 <= tau <= 6)%nat -> length Hs = (tau - 1)%nat -> map (peval (phi :: Hs)) (hvars tau) = Hs.
Proof.
  intros Ht Hl.
  destruct tau as [|[|[|[|[|[|[|tau]]]]]]]; try lia;
    repeat (destruct Hs as [|? Hs]; try discriminate Hl); reflexivity.
Qed.

(* lifting: normal forms agree on a range  ==>  the rational-valued identity on that range *)
Lemma clique_identity_lift N : (N <= 5)%nat -> forallb clique_ok (seq 2 N) = true ->
  forall tau, (2 <= tau < 2 + N)%nat ->
  forall (phi : Q) (Hs : list Q), length Hs = (tau - 1)%nat ->
    clique_val tau phi Hs == exact_val (seq 0 tau) (all_edges tau) 0 phi (fun v => nth (v - 1) Hs 0).
Proof.
  intros HN H tau Ht phi Hs Hl.
  rewrite forallb_forall in H.
  specialize (H tau ltac:(apply in_seq; lia)). unfold clique_ok in H.
  pose proof (peq_sound _ _ H (phi :: Hs)) as E.
  rewrite clique_expr_val in E. unfold clique_spec in E. rewrite exact_expr_val in E.
  assert (Ht6 : (2 <= tau <= 6)%nat) by lia.
  rewrite (hvars_eval phi Hs tau Ht6 Hl) in E.
  change (peval (phi :: Hs) (px 1)) with phi in E. rewrite E.
  unfold exact_val. apply qsum_map_ext. intros S _. cbv zeta.
  assert (Hu : forall v, peval (phi :: Hs) (nth (v - 1) (hvars tau) (pc 0)) = nth (v - 1) Hs 0).
  { intros v. rewrite <- (hvars_eval phi Hs tau Ht6 Hl) at 2.
    change 0 with (peval (phi :: Hs) (pc 0)). rewrite map_nth. reflexivity. }
  rewrite (map_ext _ _ Hu). reflexivity.
Qed.

(* BOUNDED: for 2 <= tau <= 6, every rational phi and every (heterogeneous) list of tau-1 neighbour
   values, the clique equation equals the exact expectation on K_tau seen from vertex 0, neighbour i
   carrying Hs[i-1].  (An identity of polynomials: normal forms agree.) *)
Theorem clique_identity_upto_6 : forall tau, (2 <= tau <= 6)%nat ->
  forall (phi : Q) (Hs : list Q), length Hs = (tau - 1)%nat ->
    clique_val tau phi Hs == exact_val (seq 0 tau) (all_edges tau) 0 phi (fun v => nth (v - 1) Hs 0).
Proof.
  intros tau Ht. apply (clique_identity_lift 5 (Nat.le_refl 5) clique_ok_upto_6). lia.
Qed.

(* the same as an identity of polynomial expressions, for every environment *)
Theorem clique_poly_identity_upto_6 : forall tau, (2 <= tau <= 6)%nat -> forall l,
  peval l (clique_expr tau (px 1) (hvars tau)) == peval l (clique_spec tau (px 1) (hvars tau)).
Proof.
  intros tau Ht l. pose proof clique_ok_upto_6 as H. rewrite forallb_forall in H.
  apply peq_sound. apply (H tau). apply in_seq. lia.
Qed.

Lemma cycle_identity_lift N : forallb cycle_ok (seq 3 N) = true ->
  forall n, (3 <= n < 3 + N)%nat ->
  forall (u phi : Q), cycle_val n u phi == exact_val (seq 0 n) (cycle_edges n) 0 phi (fun _ => u).
Proof.
  intros H n Hn u phi. rewrite forallb_forall in H.
  specialize (H n ltac:(apply in_seq; lia)). unfold cycle_ok in H.
  pose proof (peq_sound _ _ H [phi; u]) as E.
  rewrite cycle_expr_val in E. unfold cycle_spec in E. rewrite exact_expr_val in E.
  exact E.
Qed.

(* BOUNDED: for 3 <= n <= 10 the chordless-cycle equation equals the exact expectation on the cycle C_n
   seen from vertex 0, every other vertex carrying the same u (the code takes one u) *)
Theorem cycle_identity_upto_10 : forall n, (3 <= n <= 10)%nat ->
  forall (u phi : Q), cycle_val n u phi == exact_val (seq 0 n) (cycle_edges n) 0 phi (fun _ => u).
Proof. intros n Hn. apply (cycle_identity_lift 8 cycle_ok_upto_10). lia. Qed.

(* ================================================================== checker soundness *)
(* GENERAL (every tau): if check_clique accepts the implementation's polynomial impl/d, then for
   every valuation it equals the exact expectation on K_tau *)
Theorem check_clique_sound tau phi Hs d impl :
  check_clique tau phi Hs d impl = true ->
  forall l, peval l impl ==
            inject_Z d * exact_val (seq 0 tau) (all_edges tau) 0 (peval l phi)
                                   (fun v => nth (v - 1) (map (peval l) Hs) 0).
Proof.
  unfold check_clique. intros H l. rewrite (peq_sound _ _ H l).
  rewrite peval_pmul, peval_pc. unfold clique_spec. rewrite exact_expr_val.
  assert (Hu : forall v, peval l (nth (v - 1) Hs (pc 0)) = nth (v - 1) (map (peval l) Hs) 0).
  { intros v. change 0 with (peval l (pc 0)). rewrite map_nth. reflexivity. }
  unfold exact_val. apply Qmult_comp; [reflexivity|].
  apply qsum_map_ext. intros S _. cbv zeta. rewrite (map_ext _ _ Hu). reflexivity.
Qed.

Theorem check_cycle_sound n u phi d impl :
  check_cycle n u phi d impl = true ->
  forall l, peval l impl ==
            inject_Z d * exact_val (seq 0 n) (cycle_edges n) 0 (peval l phi) (fun _ => peval l u).
Proof.
  unfold check_cycle. intros H l. rewrite (peq_sound _ _ H l).
  rewrite peval_pmul, peval_pc. unfold cycle_spec. rewrite exact_expr_val. reflexivity.
Qed.

(* the model's polynomials pass the checker (bounded) *)
Definition clique_selfcheck (tau : nat) : bool :=
  check_clique tau (px 1) (hvars tau) 1 (clique_expr tau (px 1) (hvars tau)).
Definition cycle_selfcheck (n : nat) : bool :=
  check_cycle n (px 2) (px 1) 1 (cycle_expr n (px 2) (px 1)).

Lemma clique_selfcheck_upto_6 : forallb clique_selfcheck (seq 2 5) = true.
Proof. vm_compute. reflexivity. Qed.
Lemma cycle_selfcheck_upto_10 : forallb cycle_selfcheck (seq 3 8) = true.
Proof. vm_compute. reflexivity. Qed.

Theorem clique_model_meets_check_upto_6 : forall tau, (2 <= tau <= 6)%nat -> clique_selfcheck tau = true.
Proof.
  intros tau Ht. pose proof clique_selfcheck_upto_6 as H. rewrite forallb_forall in H.
  apply H, in_seq. lia.
Qed.
Theorem cycle_model_meets_check_upto_10 : forall n, (3 <= n <= 10)%nat -> cycle_selfcheck n = true.
Proof.
  intros n Hn. pose proof cycle_selfcheck_upto_10 as H. rewrite forallb_forall in H.
  apply H, in_seq. lia.
Qed.

Local Open Scope Z_scope.
(* the verified checker for counts *)
Theorem check_count_sound bmax n k r :
  check_count bmax n k r = true -> (n <= bmax <= 7)%nat -> 0 <= k -> r = brute n (Z.to_nat k).
Proof.
  unfold check_count, count_spec. intros H Hb Hk. apply Z.eqb_eq in H.
  destruct (Z.ltb_spec k 0); [lia|].
  destruct (Nat.leb_spec n (Nat.min bmax 7)); [exact H | lia].
Qed.

Theorem check_count_sound_cross bmax n k r :
  check_count bmax n k r = true -> (Nat.min bmax 7 < n)%nat -> 0 <= k -> r = cross n k.
Proof.
  unfold check_count, count_spec. intros H Hb Hk. apply Z.eqb_eq in H.
  destruct (Z.ltb_spec k 0); [lia|].
  destruct (Nat.leb_spec n (Nat.min bmax 7)); [lia | exact H].
Qed.

Theorem check_row_sound bmax n rs :
  check_row bmax n rs = true ->
  forall k, 0 <= k <= tri (Z.of_nat n) -> nth (Z.to_nat k) rs 0 = count_spec bmax n k.
Proof.
  unfold check_row, count_spec. cbv zeta. intros H k Hk.
  apply andb_true_iff in H. destruct H as [_ H].
  destruct (Z.ltb_spec k 0); [lia|].
  assert (Hin : In (Z.to_nat k) (seq 0 (S (Z.to_nat (tri (Z.of_nat n)))))) by (apply in_seq; lia).
  destruct (n <=? Nat.min bmax 7)%nat.
  - rewrite forallb_forall in H. apply Z.eqb_eq. apply H, Hin.
  - rewrite forallb_forall in H. specialize (H _ Hin). apply Z.eqb_eq in H. rewrite H.
    unfold cross. destruct (Z.ltb_spec k 0); [lia | reflexivity].
Qed.

(* the model's outputs pass the checker *)
Theorem Q_model_meets_check_upto_6 : forall n k, (1 <= n <= 6)%nat -> 0 <= k <= tri (Z.of_nat n) ->
  check_count 6 n k (Qv n k) = true /\ check_count 6 n k (QQv n k) = true.
Proof.
  intros n k Hn Hk. destruct (Q_count_upto_6 n k Hn Hk) as [H1 H2].
  unfold check_count, count_spec. destruct (Z.ltb_spec k 0); [lia|].
  change (Nat.min 6 7) with 6%nat.
  destruct (Nat.leb_spec n 6); [|lia].
  rewrite H1, H2, Z.eqb_refl. auto.
Qed.

Theorem Q_model_meets_check_upto_12 : forall n k, (7 <= n <= 12)%nat -> 0 <= k <= tri (Z.of_nat n) ->
  check_count 6 n k (Qv n k) = true.
Proof.
  intros n k Hn Hk. unfold check_count, count_spec. destruct (Z.ltb_spec k 0); [lia|].
  change (Nat.min 6 7) with 6%nat.
  destruct (Nat.leb_spec n 6); [lia|].
  rewrite (Q_cross_upto_12 n k) by lia. apply Z.eqb_refl.
Qed.

Theorem ncg_model_meets_check nodes edges ak i k c :
  ncg_model nodes edges ak i k = Val c -> check_ncg nodes edges ak i k c = true.
Proof.
  unfold ncg_model, check_ncg.
  set (vs := induced_vs nodes ak i). set (es := induced_es vs edges).
  destruct (k <? 0); [discriminate|].
  destruct (Z.ltb_spec (Z.of_nat (length es)) k) as [Hbig|Hsmall].
  - intros [= <-]. unfold ncg_count. rewrite combs_too_many by lia. reflexivity.
  - destruct vs; [discriminate|]. intros [= <-]. apply Z.eqb_refl.
Qed.

Theorem check_ncg_sound nodes edges ak i k r :
  check_ncg nodes edges ak i k r = true ->
  let vs := induced_vs nodes ak i in
  let es := induced_es vs edges in
  Card (fun T => subl T es /\ length T = Z.to_nat k /\ Connected vs (ediff es T)) r.
Proof.
  intros H. cbv zeta. unfold check_ncg in H. cbv zeta in H. apply Z.eqb_eq in H. rewrite H.
  apply ncg_count_spec; [apply dedup_e_NoDup | apply induced_es_in].
Qed.
