(* C17, growth 2 (audit finding C17-M2): the INDEPENDENT table-based specification of Model/MsgPass.v
   (motifs_of, u_table, step_T, sweeps_T, mp_table: membership read off the motif table, no adjacency
   bookkeeping) and the proofs that the code-shaped specification mp_spec, the model, the object and the
   wire model all compute it, under net_okb, cover_okb and table_okb. *)
From Coq Require Import List ZArith QArith Qpower Qring Bool Arith Lia Setoid Morphisms Permutation.
From GV Require Import Lib.Tree Lib.PolyRefl15 Lib.Graph15 Model.AutoEq Proofs.AutoEqP Proofs.AutoEqG
                       Model.MsgPass Proofs.MsgPassP Proofs.MsgPassG.
Import ListNotations.

(* ================================================================== *)
(* 1. nodup_ids: the done_motifs bookkeeping returns every ID once *)
Lemma nodup_ids_spec : forall l d,
    NoDup (nodup_ids l d)
    /\ (forall x, In x (nodup_ids l d) <-> In x l /\ memb x d = false).
Proof.
  induction l as [|y l IH]; intros d; cbn [nodup_ids].
  - split; [constructor|]. intros x. split; [intros []|intros [[] _]].
  - destruct (memb y d) eqn:Ey.
    + destruct (IH d) as [Hnd Hin]. split; [exact Hnd|]. intros x. rewrite Hin. split.
      * intros [Hx Hd]. split; [right; exact Hx|exact Hd].
      * intros [[<-|Hx] Hd]; [congruence|split; assumption].
    + destruct (IH (y :: d)) as [Hnd Hin]. split.
      * constructor; [|exact Hnd]. rewrite Hin. intros [_ Hm]. cbn [memb existsb] in Hm.
        rewrite Nat.eqb_refl in Hm. discriminate.
      * intros x. cbn [In]. rewrite Hin. cbn [memb existsb]. fold (memb x d). split.
        -- intros [<-|[Hx Hd]]; [split; [left; reflexivity|exact Ey]|].
           apply orb_false_iff in Hd. split; [right; exact Hx|apply Hd].
        -- intros [[<-|Hx] Hd]; [left; reflexivity|].
           destruct (Nat.eqb x y) eqn:E; [apply Nat.eqb_eq in E; left; symmetry; exact E|].
           right. split; [exact Hx|]. rewrite Hd. reflexivity.
Qed.

Lemma ids_at_NoDup : forall nt v, NoDup (ids_at nt v).
Proof. intros. unfold ids_at. apply nodup_ids_spec. Qed.

Lemma ids_at_iff : forall nt v id,
    In id (ids_at nt v) <-> exists w, In (w, id) (nbrs_lab nt v).
Proof.
  intros nt v id. unfold ids_at. rewrite (proj2 (nodup_ids_spec _ [])). split.
  - intros [H _]. apply in_map_iff in H. destruct H as [[w id'] [E H]]. cbn [snd] in E. subst id'.
    exists w. exact H.
  - intros [w H]. split; [|reflexivity]. apply in_map_iff. exists (w, id). split; [reflexivity|exact H].
Qed.

Lemma nbrs_lab_iff : forall nt v w id,
    In (w, id) (nbrs_lab nt v) <-> In (v, w, id) (n_sweep nt) \/ In (w, v, id) (n_sweep nt).
Proof.
  intros nt v w id. unfold nbrs_lab. rewrite in_flat_map. split.
  - intros [[[a b] id'] [He Hin]].
    destruct (Nat.eqb a v) eqn:Ea.
    + destruct Hin as [Hin|[]]. injection Hin as <- <-. apply Nat.eqb_eq in Ea. subst a. left. exact He.
    + destruct (Nat.eqb b v) eqn:Eb; [|contradiction].
      destruct Hin as [Hin|[]]. injection Hin as <- <-. apply Nat.eqb_eq in Eb. subst b. right. exact He.
  - intros [H|H].
    + exists (v, w, id). split; [exact H|]. rewrite Nat.eqb_refl. left. reflexivity.
    + exists (w, v, id). split; [exact H|]. destruct (Nat.eqb w v) eqn:E.
      * apply Nat.eqb_eq in E. subst w. left. reflexivity.
      * rewrite Nat.eqb_refl. left. reflexivity.
Qed.

(* ================================================================== *)
(* 2. the preconditions, as propositions *)
Lemma net_okb_table_parts : forall nt, net_okb nt = true ->
    sweep_okb nt = true
    /\ (forall m, In m (n_motifs nt) -> same_setb (m_verts m) (g_nodes (motif_graph m)) = true).
Proof.
  intros nt H. unfold net_okb in H.
  apply andb_true_iff in H. destruct H as [H _].
  apply andb_true_iff in H. destruct H as [H _].
  apply andb_true_iff in H. destruct H as [Hs Hm].
  split; [exact Hs|]. intros m Hin. rewrite forallb_forall in Hm. specialize (Hm m Hin).
  apply andb_true_iff in Hm. apply Hm.
Qed.

(* a swept ID is the ID of a table entry, namely of the entry find_motif returns *)
Lemma find_motif_in : forall nt id v,
    In v (g_nodes (motif_graph (find_motif nt id))) ->
    In (find_motif nt id) (n_motifs nt) /\ m_id (find_motif nt id) = id.
Proof.
  intros nt id v. unfold find_motif.
  destruct (find (fun m => Nat.eqb (m_id m) id) (n_motifs nt)) as [m|] eqn:E.
  - intros _. apply find_some in E. destruct E as [Hin Hid]. apply Nat.eqb_eq in Hid. split; assumption.
  - cbn. intros [].
Qed.

Lemma sweep_has_spec : forall nt a b id, sweep_has nt a b id = true ->
    In (a, b, id) (n_sweep nt) \/ In (b, a, id) (n_sweep nt).
Proof.
  intros nt a b id H. unfold sweep_has in H. apply existsb_exists in H.
  destruct H as [[[i j] id'] [Hin H]]. apply andb_true_iff in H. destruct H as [Hid H].
  apply Nat.eqb_eq in Hid. subst id'. apply orb_true_iff in H.
  destruct H as [H|H]; apply andb_true_iff in H; destruct H as [H1 H2];
    apply Nat.eqb_eq in H1, H2; subst i j; [left|right]; exact Hin.
Qed.

Lemma table_okb_parts : forall nt, table_okb nt = true ->
    NoDup (map m_id (n_motifs nt))
    /\ (forall m a b, In m (n_motifs nt) -> In (a, b) (m_edges m) ->
                      In (a, b, m_id m) (n_sweep nt) \/ In (b, a, m_id m) (n_sweep nt)).
Proof.
  intros nt H. unfold table_okb in H. apply andb_true_iff in H. destruct H as [Hd He].
  split; [apply nodupb15_NoDup, Hd|].
  intros m a b Hm Hab. rewrite forallb_forall in He. specialize (He m Hm).
  rewrite forallb_forall in He. specialize (He (a, b) Hab). cbn [fst snd] in He.
  apply sweep_has_spec, He.
Qed.

(* a vertex of the graph built from an edge list is an end point of one of the edges *)
Lemma nodes_of_edges_acc : forall es acc v,
    In v (fold_left (fun acc e => addv (snd e) (addv (fst e) acc)) es acc) ->
    In v acc \/ exists a b, In (a, b) es /\ (v = a \/ v = b).
Proof.
  induction es as [|[a b] es IH]; intros acc v H; cbn [fold_left] in H; [left; exact H|].
  apply IH in H. destruct H as [H|[a' [b' [Hin Hv]]]].
  - cbn [fst snd] in H. apply memb_In in H. rewrite !memb_addv in H.
    apply orb_true_iff in H. destruct H as [H|H].
    + apply Nat.eqb_eq in H. right. exists a, b. split; [left; reflexivity|right; exact H].
    + apply orb_true_iff in H. destruct H as [H|H].
      * apply Nat.eqb_eq in H. right. exists a, b. split; [left; reflexivity|left; exact H].
      * left. apply memb_In, H.
  - right. exists a', b'. split; [right; exact Hin|exact Hv].
Qed.

Lemma nodes_of_edges_in : forall es v, In v (nodes_of_edges es) ->
    exists a b, In (a, b) es /\ (v = a \/ v = b).
Proof.
  intros es v H. unfold nodes_of_edges in H. apply nodes_of_edges_acc in H.
  destruct H as [[]|H]. exact H.
Qed.

(* ================================================================== *)
(* 3. lemma (b): the edge-label view and the table view of "the motifs of v" agree *)
Lemma motifs_of_iff : forall nt v id,
    In id (motifs_of nt v) <-> exists m, In m (n_motifs nt) /\ m_id m = id /\ memb v (m_verts m) = true.
Proof.
  intros nt v id. unfold motifs_of. rewrite in_map_iff. split.
  - intros [m [Hid Hm]]. apply filter_In in Hm. exists m. tauto.
  - intros [m [Hin [Hid Hv]]]. exists m. split; [exact Hid|]. apply filter_In. tauto.
Qed.

Lemma NoDup_map_filter : forall {X Y} (f : X -> Y) (p : X -> bool) l,
    NoDup (map f l) -> NoDup (map f (filter p l)).
Proof.
  intros X Y f p. induction l as [|x l IH]; intros H; cbn [filter map] in *; [constructor|].
  inversion H as [|y l' Hx Hl]. subst. destruct (p x); cbn [map]; [|apply IH, Hl].
  constructor; [|apply IH, Hl]. intros Hi. apply Hx. apply in_map_iff in Hi.
  destruct Hi as [z [Hz Hin]]. apply filter_In in Hin. apply in_map_iff. exists z. tauto.
Qed.

Lemma motifs_of_NoDup : forall nt v, NoDup (map m_id (n_motifs nt)) -> NoDup (motifs_of nt v).
Proof. intros nt v H. unfold motifs_of. apply NoDup_map_filter, H. Qed.

(* edge labels -> table: needs only net_okb *)
Lemma ids_at_in_table : forall nt, net_okb nt = true ->
    forall v id, In id (ids_at nt v) -> In id (motifs_of nt v).
Proof.
  intros nt Hn v id Hin. destruct (net_okb_table_parts nt Hn) as [Hs Hm].
  apply ids_at_iff in Hin. destruct Hin as [w Hin]. apply nbrs_lab_iff in Hin.
  assert (Hv : In v (g_nodes (motif_graph (find_motif nt id)))).
  { unfold sweep_okb in Hs. rewrite forallb_forall in Hs.
    destruct Hin as [Hin|Hin]; specialize (Hs _ Hin); cbn beta iota in Hs;
      apply andb_true_iff in Hs; destruct Hs as [H1 H2]; apply memb_In; assumption. }
  destruct (find_motif_in nt id v Hv) as [Hin' Hid].
  apply motifs_of_iff. exists (find_motif nt id). split; [exact Hin'|split; [exact Hid|]].
  rewrite (same_setb_memb _ _ (Hm _ Hin')). apply memb_In, Hv.
Qed.

(* table -> edge labels: needs table_okb (no phantom motif) and the vertex-list part of net_okb *)
Lemma table_in_ids_at : forall nt, net_okb nt = true -> table_okb nt = true ->
    forall v id, In id (motifs_of nt v) -> In id (ids_at nt v).
Proof.
  intros nt Hn Ht v id Hin. destruct (net_okb_table_parts nt Hn) as [_ Hm].
  destruct (table_okb_parts nt Ht) as [_ He].
  apply motifs_of_iff in Hin. destruct Hin as [m [Hin [Hid Hv]]].
  rewrite (same_setb_memb _ _ (Hm _ Hin)) in Hv. apply memb_In in Hv.
  unfold motif_graph, g_nodes in Hv. cbn [fst] in Hv.
  apply nodes_of_edges_in in Hv. destruct Hv as [a [b [Hab Hv]]].
  specialize (He m a b Hin Hab). rewrite Hid in He.
  apply ids_at_iff.
  destruct Hv as [->| ->].
  - exists b. apply nbrs_lab_iff. exact He.
  - exists a. apply nbrs_lab_iff. tauto.
Qed.

Theorem ids_at_table : forall nt, net_okb nt = true -> table_okb nt = true ->
    forall v, Permutation (ids_at nt v) (motifs_of nt v).
Proof.
  intros nt Hn Ht v. apply NoDup_Permutation.
  - apply ids_at_NoDup.
  - apply motifs_of_NoDup, (table_okb_parts nt Ht).
  - intros id. split; [apply ids_at_in_table, Hn|apply table_in_ids_at; assumption].
Qed.

Local Open Scope Q_scope.
(* ================================================================== *)
(* 4. products and the expectation up to permutation / restricted extensionality *)
Lemma qprod_perm : forall l l', Permutation l l' -> qprod l == qprod l'.
Proof.
  induction 1 as [|x l l' _ IH|x y l|l l' l'' _ IH1 _ IH2].
  - reflexivity.
  - rewrite !qprod_cons, IH. reflexivity.
  - rewrite !qprod_cons. ring.
  - rewrite IH1. exact IH2.
Qed.

Lemma filter_perm : forall {X} (p : X -> bool) l l', Permutation l l' -> Permutation (filter p l) (filter p l').
Proof.
  intros X p. induction 1 as [|x l l' _ IH|x y l|l l' l'' _ IH1 _ IH2]; cbn [filter].
  - constructor.
  - destruct (p x); [constructor|]; exact IH.
  - destruct (p x), (p y); try apply Permutation_refl. apply perm_swap.
  - eapply Permutation_trans; eassumption.
Qed.

Lemma qprod_ext_in : forall {X} (f f' : X -> Q) l,
    (forall x, In x l -> f x == f' x) -> qprod (map f l) == qprod (map f' l).
Proof.
  intros X f f'. induction l as [|x l IH]; intros H; cbn [map]; [reflexivity|].
  rewrite !qprod_cons, IH, (H x); [reflexivity|left; reflexivity|].
  intros y Hy. apply H. right. exact Hy.
Qed.

(* the expectation reads u only at vertices of the motif graph *)
Lemma expectation_ext_nodes : forall g r phi u u',
    (forall v, In v (g_nodes g) -> u v == u' v) ->
    expectation g r phi u == expectation g r phi u'.
Proof.
  intros g r phi u u' Hu. unfold expectation. apply qsum_ext. intros S _.
  assert (E : qprod (map u (filter (fun v => negb (Nat.eqb v r)) (comp (g_nodes g) S r)))
              == qprod (map u' (filter (fun v => negb (Nat.eqb v r)) (comp (g_nodes g) S r)))).
  { apply qprod_ext_in. intros v Hv. apply filter_In in Hv. destruct Hv as [Hv _].
    unfold comp in Hv. apply filter_In in Hv. apply Hu, Hv. }
  rewrite E. reflexivity.
Qed.

(* ================================================================== *)
(* 5. theorem (a): the update equation in table terms *)
Section Table.
  Variable nt : net.
  Hypotheses (Hn : net_okb nt = true) (Hc : cover_okb nt = true) (Ht : table_okb nt = true).

  (* the code's u (neighbour-based) is the table's u on the vertices of the motif being updated *)
  Lemma u_of_is_u_table : forall i j id, In (i, j, id) (n_sweep nt) ->
      forall H v, In v (g_nodes (motif_graph (find_motif nt id))) ->
        u_of nt H (m_verts (find_motif nt id)) v == u_table nt H id v.
  Proof.
    intros i j id Hin H v Hv. unfold u_of, u_table.
    rewrite (cover_okb_others nt Hc i j id Hin v Hv).
    apply qprod_perm, Permutation_map, filter_perm, ids_at_table; assumption.
  Qed.

  Lemma u_table_ext : forall H1 H2 id, Heq H1 H2 -> forall j, u_table nt H1 id j == u_table nt H2 id j.
  Proof. intros H1 H2 id HH j. unfold u_table. apply qprod_ext. intros m. apply HH. Qed.

  Lemma step_T_ext : forall phi H1 H2 i id, Heq H1 H2 -> Heq (step_T nt phi H1 i id) (step_T nt phi H2 i id).
  Proof.
    intros phi H1 H2 i id HH. unfold step_T. apply upd_ext; [exact HH|].
    apply expectation_proper; [reflexivity|apply u_table_ext, HH].
  Qed.

  Theorem update_table : forall phi i j id, In (i, j, id) (n_sweep nt) ->
      forall focal, focal = i \/ focal = j -> forall H,
        Heq (fst (calc eqn_spec nt phi (H, tt) focal id)) (step_T nt phi H focal id)
        /\ fst (calc eqn_spec nt phi (H, tt) focal id) focal id
           == expectation (motif_graph (find_motif nt id)) focal phi (u_table nt H id).
  Proof.
    intros phi i j id Hin focal _ H.
    assert (E : expectation (motif_graph (find_motif nt id)) focal phi (u_of nt H (m_verts (find_motif nt id)))
                == expectation (motif_graph (find_motif nt id)) focal phi (u_table nt H id)).
    { apply expectation_ext_nodes. intros v Hv. apply (u_of_is_u_table i j id Hin H v Hv). }
    split.
    - unfold calc, eqn_spec, step_T. cbn [fst snd]. apply upd_ext; [apply Heq_refl|exact E].
    - unfold calc, eqn_spec. cbn [fst snd]. unfold upd. rewrite !Nat.eqb_refl. cbn [andb]. exact E.
  Qed.

  (* ================================================================ *)
  (* 6. theorem (c): the sweeps and the final formula *)
  Lemma calc_table : forall phi i j id, In (i, j, id) (n_sweep nt) ->
      forall focal, focal = i \/ focal = j -> forall (hs : Hmap * unit) H',
        Heq (fst hs) H' -> Heq (fst (calc eqn_spec nt phi hs focal id)) (step_T nt phi H' focal id).
  Proof.
    intros phi i j id Hin focal Hf [H []] H' HH. cbn [fst] in HH.
    intros v m. rewrite (proj1 (update_table phi i j id Hin focal Hf H) v m).
    apply step_T_ext, HH.
  Qed.

  Lemma sweep_list_table : forall phi l (hs : Hmap * unit) H',
      (forall e, In e l -> In e (n_sweep nt)) -> Heq (fst hs) H' ->
      Heq (fst (fold_left (fun hs e => let '(i, j, id) := e in calc eqn_spec nt phi (calc eqn_spec nt phi hs i id) j id) l hs))
          (fold_left (fun H e => let '(i, j, id) := e in step_T nt phi (step_T nt phi H i id) j id) l H').
  Proof.
    intros phi. induction l as [|[[i j] id] l IH]; intros hs H' Hl HH; cbn [fold_left]; [exact HH|].
    apply IH; [intros e He; apply Hl; right; exact He|].
    assert (Hin : In (i, j, id) (n_sweep nt)) by (apply Hl; left; reflexivity).
    apply (calc_table phi i j id Hin j (or_intror eq_refl)).
    apply (calc_table phi i j id Hin i (or_introl eq_refl)). exact HH.
  Qed.

  Lemma sweep_table : forall phi (hs : Hmap * unit) H', Heq (fst hs) H' ->
      Heq (fst (sweep eqn_spec nt phi hs)) (sweep_T nt phi H').
  Proof. intros. unfold sweep, sweep_T. apply sweep_list_table; auto. Qed.

  Lemma sweeps_table : forall phi T (hs : Hmap * unit) H', Heq (fst hs) H' ->
      Heq (fst (sweeps eqn_spec T nt phi hs)) (sweeps_T T nt phi H').
  Proof.
    intros phi. induction T as [|T IH]; intros hs H' HH; cbn [sweeps sweeps_T]; [exact HH|].
    apply IH, sweep_table, HH.
  Qed.

  (* the final average: products over the table's motifs of each vertex *)
  Lemma result_table : forall H H', Heq H H' ->
      result nt H == 1 - (1 / inject_Z (Z.of_nat (length (n_nodes nt))))
                         * qsum (map (fun i => qprod (map (H' i) (motifs_of nt i))) (n_nodes nt)).
  Proof.
    intros H H' HH. unfold result, outer_sum.
    assert (E : qsum (map (fun i => qprod (map (H i) (ids_at nt i))) (n_nodes nt))
                == qsum (map (fun i => qprod (map (H' i) (motifs_of nt i))) (n_nodes nt))).
    { apply qsum_ext. intros i _.
      rewrite (qprod_perm _ _ (Permutation_map (H i) (ids_at_table nt Hn Ht i))).
      apply qprod_ext. intros m. apply HH. }
    rewrite E. unfold Qdiv. ring.
  Qed.

  Theorem spec_is_table : forall T phi, mp_spec nt T phi == mp_table nt T phi.
  Proof.
    intros T phi. unfold mp_spec, mp_query, mp_table. cbn [fst].
    apply result_table. apply (sweeps_table phi T (H0, tt) H0), Heq_refl.
  Qed.

  Theorem model_is_table : forall T phi, mp_model nt T phi == mp_table nt T phi.
  Proof. intros T phi. rewrite (model_is_spec_unconditional nt Hn T phi). apply spec_is_table. Qed.

  Theorem object_is_table : forall T phis, Forall2 Qeq (mp_object nt T phis) (map (mp_table nt T) phis).
  Proof.
    intros T phis. apply (Forall2_Qeq_map_trans _ (mp_spec nt T)); [apply object_is_spec, Hn|].
    intros phi. apply spec_is_table.
  Qed.

  Theorem wire_model_is_table : forall T phis,
      Forall2 Qeq (mp_history (eqn_cached alg_qr) nt T caches_empty phis) (map (mp_table nt T) phis).
  Proof.
    intros T phis. apply (Forall2_Qeq_map_trans _ (mp_spec nt T)); [apply wire_model_is_spec, Hn|].
    intros phi. apply spec_is_table.
  Qed.

  (* the verified checker judges the implementation's floats against the table formula; the proved properties of
     the specification iterate are properties of the table formula *)
  Theorem check_sound_table : forall T pvs, c17_checkb nt T pvs = true ->
      forall phi v, In (phi, v) pvs -> v - mp_table nt T phi <= tol /\ mp_table nt T phi - v <= tol.
  Proof.
    intros T pvs Hck phi v Hin. destruct (c17_check_sound nt T pvs Hck phi v Hin) as [A [B _]].
    rewrite <- (spec_is_table T phi). split; assumption.
  Qed.

  Theorem table_properties : forall T,
      (forall phi, 0 <= phi <= 1 -> 0 <= mp_table nt T phi <= 1)
      /\ (forall phi, phi == 0 -> (0 < T)%nat -> mp_table nt T phi == 0)
      /\ (forall phi phi', 0 <= phi -> phi <= phi' -> phi' <= 1 -> mp_table nt T phi <= mp_table nt T phi').
  Proof.
    intros T.
    assert (Hne : n_nodes nt <> []).
    { unfold net_okb in Hn. apply andb_true_iff in Hn. destruct Hn as [_ H].
      destruct (n_nodes nt); [discriminate H|discriminate]. }
    split; [|split].
    - intros phi Hphi. rewrite <- (spec_is_table T phi). apply spec_bounds; assumption.
    - intros phi Hphi HT. rewrite <- (spec_is_table T phi). apply spec_zero; assumption.
    - intros phi phi' A B C. rewrite <- (spec_is_table T phi), <- (spec_is_table T phi').
      apply spec_monotone; assumption.
  Qed.
End Table.

(* a solution of the message equations (table form) at the end points of every swept edge is a fixed point of the
   table-based sweep; no precondition *)
Theorem solution_is_fixed_point : forall nt phi H,
    (forall i j id, In (i, j, id) (n_sweep nt) ->
       H i id == expectation (motif_graph (find_motif nt id)) i phi (u_table nt H id)
       /\ H j id == expectation (motif_graph (find_motif nt id)) j phi (u_table nt H id)) ->
    Heq (sweep_T nt phi H) H.
Proof.
  intros nt phi H Hsol.
  assert (Hstep : forall H' i id, Heq H' H ->
            H i id == expectation (motif_graph (find_motif nt id)) i phi (u_table nt H id) ->
            Heq (step_T nt phi H' i id) H).
  { intros H' i id HH Hi v m. unfold step_T, upd.
    destruct (Nat.eqb v i && Nat.eqb m id)%bool eqn:E; [|apply HH].
    apply andb_true_iff in E. destruct E as [E1 E2]. apply Nat.eqb_eq in E1, E2. subst v m.
    rewrite Hi. apply expectation_proper; [reflexivity|]. intros j. unfold u_table. apply qprod_ext.
    intros x. apply HH. }
  unfold sweep_T.
  assert (G : forall l H', (forall e, In e l -> In e (n_sweep nt)) -> Heq H' H ->
            Heq (fold_left (fun H e => let '(i, j, id) := e in step_T nt phi (step_T nt phi H i id) j id) l H') H).
  { induction l as [|[[i j] id] l IH]; intros H' Hl HH; cbn [fold_left]; [exact HH|].
    apply IH; [intros e He; apply Hl; right; exact He|].
    destruct (Hsol i j id (Hl _ (or_introl eq_refl))) as [Hi Hj].
    apply Hstep; [apply Hstep; assumption|exact Hj]. }
  apply G; [auto|apply Heq_refl].
Qed.

(* ================================================================== *)
(* 7. the cover precondition from the table alone: motifs pairwise share at most one vertex *)
Lemma net_okb_edges : forall nt, net_okb nt = true ->
    forall i j id, In (i, j, id) (n_sweep nt) ->
      In (i, j) (m_edges (find_motif nt id)) \/ In (j, i) (m_edges (find_motif nt id)).
Proof.
  intros nt H i j id Hin. unfold net_okb in H.
  apply andb_true_iff in H. destruct H as [H _].
  apply andb_true_iff in H. destruct H as [_ H].
  rewrite forallb_forall in H. specialize (H _ Hin). cbn beta iota in H.
  apply orb_true_iff in H. destruct H as [H|H]; apply edge_mem_In in H; tauto.
Qed.

Lemma share_le1b_spec : forall a b v w, share_le1b a b = true ->
    In v a -> In w a -> memb v b = true -> memb w b = true -> v = w.
Proof.
  intros a b v w H Hv Hw Mv Mw. unfold share_le1b in H. rewrite forallb_forall in H.
  specialize (H v Hv). rewrite forallb_forall in H. specialize (H w Hw).
  rewrite Mv, Mw in H. cbn in H. rewrite orb_false_r in H. apply Nat.eqb_eq, H.
Qed.

Theorem cover_from_pairwise : forall nt, net_okb nt = true -> pairwise_okb nt = true -> cover_okb nt = true.
Proof.
  intros nt Hn Hp. destruct (net_okb_table_parts nt Hn) as [Hs Hm].
  destruct (net_okb_parts nt Hn) as [_ Hwf].
  unfold cover_okb. apply forallb_forall. intros [[i j] id] Hin. apply forallb_forall. intros v Hv.
  unfold cover_ok_atb. apply forallb_forall. intros [l id'] Hl. cbn [fst snd].
  destruct (find_motif_in nt id v Hv) as [HM Hid].
  apply nbrs_lab_iff in Hl.
  (* both end points are vertices of the motif labelling the edge, and they are distinct *)
  assert (Hvl : In v (g_nodes (motif_graph (find_motif nt id'))) /\ In l (g_nodes (motif_graph (find_motif nt id')))
                /\ v <> l).
  { unfold sweep_okb in Hs. rewrite forallb_forall in Hs.
    destruct (wf_graph_parts _ (find_motif_wf nt id' Hwf)) as [_ [_ [_ Hloop]]].
    destruct Hl as [Hl|Hl]; pose proof (Hs _ Hl) as Hs'; cbn beta iota in Hs';
      apply andb_true_iff in Hs'; destruct Hs' as [H1 H2]; apply memb_In in H1, H2;
      (split; [assumption|split; [assumption|]]);
      destruct (net_okb_edges nt Hn _ _ _ Hl) as [He|He]; specialize (Hloop _ He); cbn [fst snd] in Hloop;
      congruence. }
  destruct Hvl as [Hv' [Hl' Hne]].
  destruct (Nat.eqb id' id) eqn:E.
  - apply Nat.eqb_eq in E. subst id'.
    rewrite (same_setb_memb _ _ (Hm _ HM)). apply memb_In in Hl'. rewrite Hl'. reflexivity.
  - destruct (memb l (m_verts (find_motif nt id))) eqn:Ml; [exfalso|reflexivity].
    destruct (find_motif_in nt id' v Hv') as [HM' Hid'].
    unfold pairwise_okb in Hp. rewrite forallb_forall in Hp. specialize (Hp _ HM).
    rewrite forallb_forall in Hp. specialize (Hp _ HM'). rewrite Hid, Hid', Nat.eqb_sym, E in Hp.
    cbn [orb] in Hp.
    apply Hne. apply (share_le1b_spec _ _ v l Hp).
    + apply memb_In. rewrite (same_setb_memb _ _ (Hm _ HM)). apply memb_In, Hv.
    + apply memb_In, Ml.
    + rewrite (same_setb_memb _ _ (Hm _ HM')). apply memb_In, Hv'.
    + rewrite (same_setb_memb _ _ (Hm _ HM')). apply memb_In, Hl'.
Qed.

(* end to end with preconditions that speak about the motif table and the presence of its edges only *)
Theorem object_is_table_pairwise : forall nt,
    net_okb nt = true -> table_okb nt = true -> pairwise_okb nt = true ->
    forall T phis, Forall2 Qeq (mp_object nt T phis) (map (mp_table nt T) phis).
Proof. intros nt Hn Ht Hp. apply object_is_table; [exact Hn|apply cover_from_pairwise; assumption|exact Ht]. Qed.

(* ================================================================== *)
(* 8. the checker of the preconditions *)
Lemma c17_check_table_spec : forall t, c17_check_table t = of_bool true ->
    table_okb (t_net t) = true /\ cover_okb (t_net t) = true /\ net_okb (t_net t) = true
    /\ pairwise_okb (t_net t) = true.
Proof.
  intros t H. unfold c17_check_table in H.
  destruct (table_okb (t_net t)), (cover_okb (t_net t)), (net_okb (t_net t)), (pairwise_okb (t_net t)); cbn in H;
    try discriminate H; repeat split.
Qed.
