(* Proofs about the MCMC rewiring model (Model/Mcmc.v): specifications of C11 / C12, soundness of
   the executable checkers, the swap step, the run invariant. *)
From Coq Require Import List ZArith QArith Bool Arith Lia Permutation Sorting.Sorted Orders Mergesort.
From GV Require Import Lib.Tree Model.DrawSet Proofs.DrawSetP Model.Mcmc.
Import ListNotations.
Local Open Scope Z_scope.

(* ================================================================== specifications *)
(* simple graph on the vertices 0 .. N-1, end points normalised (hence no self-loop), no pair twice *)
Definition WF (N : Z) (es : list edge) : Prop :=
  (forall e, In e es -> 0 <= ea e /\ ea e < eb e /\ eb e < N) /\ NoDup (map key es).

(* the hard clauses of C11 *)
Definition Hard (nodes0 : list (list Z)) (es0 : list edge) (nodes : list (list Z)) (es : list edge) : Prop :=
  nodes = nodes0 /\
  WF (Z.of_nat (length nodes)) es /\
  length es = length es0 /\
  (forall v t, tdeg es v t = tdeg es0 v t) /\
  (forall m t, class_count es m t = class_count es0 m t).

(* the shape clause: every label class is the image of the original one under a renaming that is
   injective on the original motif's vertices (topology per edge kept) *)
Definition inj_on (f : Z -> Z) (l : list Z) : Prop :=
  forall x y, In x l -> In y l -> f x = f y -> x = y.
Definition Shape (es0 es : list edge) : Prop :=
  forall m, exists rho : Z -> Z,
    inj_on rho (verts (motif_edges es0 m)) /\
    forall it, In it (map item_of (motif_edges es m)) <-> In it (map (rename_item rho) (motif_edges es0 m)).

(* ================================================================== basic reflection lemmas *)
Lemma zs_eqb_eq l1 l2 : zs_eqb l1 l2 = true <-> l1 = l2.
Proof.
  revert l2. induction l1 as [|x r IH]; intros [|y r2]; cbn; try (split; [discriminate|discriminate]);
    try (split; reflexivity).
  rewrite andb_true_iff, Z.eqb_eq, IH. split; [intros [-> ->]; reflexivity|intros [= -> ->]; auto].
Qed.

Lemma zss_eqb_eq l1 l2 : zss_eqb l1 l2 = true <-> l1 = l2.
Proof.
  revert l2. induction l1 as [|x r IH]; intros [|y r2]; cbn; try (split; [discriminate|discriminate]);
    try (split; reflexivity).
  rewrite andb_true_iff, zs_eqb_eq, IH. split; [intros [-> ->]; reflexivity|intros [= -> ->]; auto].
Qed.

Lemma stub_eqb_eq p q : stub_eqb p q = true <-> p = q.
Proof.
  destruct p as [a s], q as [b t]. unfold stub_eqb. cbn. rewrite andb_true_iff, Z.eqb_eq, Nat.eqb_eq.
  split; [intros [-> ->]; reflexivity|intros [= -> ->]; auto].
Qed.

Lemma count_stub_app s l1 l2 : count_stub s (l1 ++ l2) = (count_stub s l1 + count_stub s l2)%nat.
Proof. unfold count_stub. rewrite filter_app, app_length. reflexivity. Qed.

Lemma count_stub_cons s x l :
  count_stub s (x :: l) = ((if stub_eqb s x then 1 else 0) + count_stub s l)%nat.
Proof. unfold count_stub. cbn. destruct (stub_eqb s x); reflexivity. Qed.

Lemma count_stub_perm s l1 l2 : Permutation l1 l2 -> count_stub s l1 = count_stub s l2.
Proof.
  intros H. induction H as [|x l l' H IH|x y l|l l' l'' H1 IH1 H2 IH2].
  - reflexivity.
  - rewrite !count_stub_cons, IH. reflexivity.
  - rewrite !count_stub_cons. lia.
  - congruence.
Qed.

(* ================================================================== sorted-code multiset equality *)
Lemma code_inj K a b :
  (Z.of_nat (snd a) < K) -> (Z.of_nat (snd b) < K) -> stub_code K a = stub_code K b -> a = b.
Proof.
  destruct a as [x s], b as [y t]. unfold stub_code. cbn. intros Ha Hb H.
  assert (x = y) by nia. subst y. f_equal. lia.
Qed.

Lemma count_code K (l : list (Z * nat)) s :
  (forall p, In p l -> Z.of_nat (snd p) < K) -> Z.of_nat (snd s) < K ->
  count_stub s l = count_occ Z.eq_dec (map (stub_code K) l) (stub_code K s).
Proof.
  intros Hl Hs. induction l as [|p l IH]; [reflexivity|].
  rewrite count_stub_cons. cbn [map count_occ].
  assert (Hp : Z.of_nat (snd p) < K) by (apply Hl; left; reflexivity).
  rewrite IH by (intros q Hq; apply Hl; right; exact Hq).
  destruct (stub_eqb s p) eqn:E.
  - apply stub_eqb_eq in E. subst p. destruct (Z.eq_dec _ _); [reflexivity|contradiction].
  - destruct (Z.eq_dec (stub_code K p) (stub_code K s)) as [Hc|Hc]; [|reflexivity].
    apply code_inj in Hc; [|assumption|assumption]. subst p.
    assert (stub_eqb s s = true) by (apply stub_eqb_eq; reflexivity). congruence.
Qed.

Lemma count_stub_zero s (l : list (Z * nat)) : (forall p, In p l -> p <> s) -> count_stub s l = O.
Proof.
  intros H. induction l as [|p l IH]; [reflexivity|]. rewrite count_stub_cons, IH.
  - destruct (stub_eqb s p) eqn:E; [|reflexivity]. apply stub_eqb_eq in E. exfalso. apply (H p); [left; reflexivity|auto].
  - intros q Hq. apply H. right. exact Hq.
Qed.

Lemma sort_eq_perm l1 l2 : ZSort.sort l1 = ZSort.sort l2 -> Permutation l1 l2.
Proof.
  intros H. eapply Permutation_trans; [apply ZSort.Permuted_sort|]. rewrite H.
  apply Permutation_sym. apply ZSort.Permuted_sort.
Qed.

Lemma pairs_eqb_sound K l l0 :
  pairs_eqb K l l0 = true -> (forall p, In p l0 -> (snd p < K)%nat) ->
  forall s, count_stub s l = count_stub s l0.
Proof.
  unfold pairs_eqb. rewrite andb_true_iff, forallb_forall, zs_eqb_eq. intros [Hl Hs] Hl0 s.
  assert (Hl' : forall p, In p l -> Z.of_nat (snd p) < Z.of_nat K).
  { intros p Hp. apply Hl in Hp. apply Nat.ltb_lt in Hp. lia. }
  assert (Hl0' : forall p, In p l0 -> Z.of_nat (snd p) < Z.of_nat K).
  { intros p Hp. apply Hl0 in Hp. lia. }
  destruct (Nat.ltb_spec (snd s) K) as [Hlt|Hge].
  - rewrite (count_code (Z.of_nat K) l s), (count_code (Z.of_nat K) l0 s); try assumption; try lia.
    apply Permutation_count_occ. apply sort_eq_perm. exact Hs.
  - rewrite !count_stub_zero; [reflexivity| |].
    + intros p Hp ->. apply Hl0 in Hp. lia.
    + intros p Hp ->. apply Hl' in Hp. lia.
Qed.

Lemma topo_bound_gt es e : In e es -> (et e < topo_bound es)%nat.
Proof.
  unfold topo_bound. induction es as [|x r IH]; [intros []|].
  intros [->|H]; cbn [map fold_right]; [lia|]. specialize (IH H). lia.
Qed.

Lemma degrees_eqb_sound es0 es : degrees_eqb es0 es = true -> forall v t, tdeg es v t = tdeg es0 v t.
Proof.
  intros H v t. unfold tdeg. apply (pairs_eqb_sound _ _ _ H).
  intros p Hp. unfold stubs in Hp. apply in_flat_map in Hp. destruct Hp as [e [He Hp]].
  cbn in Hp. destruct Hp as [<-|[<-|[]]]; cbn; apply topo_bound_gt; exact He.
Qed.

Lemma classes_eqb_sound es0 es : classes_eqb es0 es = true -> forall m t, class_count es m t = class_count es0 m t.
Proof.
  intros H m t. unfold class_count. apply (pairs_eqb_sound _ _ _ H).
  intros p Hp. unfold labels in Hp. apply in_map_iff in Hp. destruct Hp as [e [<- He]].
  cbn. apply topo_bound_gt; exact He.
Qed.

(* ================================================================== well-formedness checker *)
Lemma strict_inc_sorted l : strict_inc l = true -> StronglySorted Z.lt l.
Proof.
  intros H. apply Sorted_StronglySorted; [intros a b c; apply Z.lt_trans|].
  induction l as [|x r IH]; [constructor|].
  cbn in H. destruct r as [|y r'].
  - constructor; constructor.
  - apply andb_true_iff in H. destruct H as [Hxy Hr]. constructor; [apply IH; exact Hr|].
    constructor. apply Z.ltb_lt. exact Hxy.
Qed.

Lemma strongly_sorted_lt_nodup l : StronglySorted Z.lt l -> NoDup l.
Proof.
  induction 1 as [|x l Hs IH Hall]; constructor; [|exact IH].
  intros Hin. rewrite Forall_forall in Hall. specialize (Hall x Hin). lia.
Qed.

Lemma wf_edge_spec N e : wf_edge N e = true <-> (0 <= ea e /\ ea e < eb e /\ eb e < N).
Proof. unfold wf_edge. rewrite !andb_true_iff, Z.leb_le, !Z.ltb_lt. tauto. Qed.

Lemma wfb_sound N es : wfb N es = true -> WF N es.
Proof.
  unfold wfb. rewrite andb_true_iff, forallb_forall. intros [Hw Hs]. split.
  - intros e He. apply wf_edge_spec. apply Hw. exact He.
  - apply strict_inc_sorted, strongly_sorted_lt_nodup in Hs.
    assert (Hnd : NoDup (map (enc N) es)).
    { eapply Permutation_NoDup; [apply Permutation_sym; apply ZSort.Permuted_sort|exact Hs]. }
    assert (Hm : map (enc N) es = map (fun k => fst k * N + snd k) (map key es)).
    { rewrite map_map. reflexivity. }
    rewrite Hm in Hnd. eapply NoDup_map_inv. exact Hnd.
Qed.

Theorem check_hard_sound nodes0 es0 nodes es :
  check_hard nodes0 es0 nodes es = true -> Hard nodes0 es0 nodes es.
Proof.
  unfold check_hard. rewrite !andb_true_iff. intros [[[[Hn Hw] Hl] Hd] Hc].
  split; [apply zss_eqb_eq; exact Hn|]. split; [apply wfb_sound; exact Hw|].
  split; [apply Nat.eqb_eq; exact Hl|]. split; [apply degrees_eqb_sound; exact Hd|apply classes_eqb_sound; exact Hc].
Qed.

(* ================================================================== shape checker *)
Lemma memz_In l x : memz l x = true <-> In x l.
Proof.
  unfold memz. rewrite existsb_exists. split.
  - intros [y [Hy E]]. apply Z.eqb_eq in E. subst. exact Hy.
  - intros H. exists x. split; [exact H|apply Z.eqb_refl].
Qed.

Lemma dedup_In l x : In x (dedup l) <-> In x l.
Proof.
  induction l as [|y r IH]; [tauto|]. cbn. destruct (memz r y) eqn:E.
  - rewrite IH. apply memz_In in E. split; [tauto|]. intros [<-|H]; assumption.
  - cbn. rewrite IH. tauto.
Qed.

Lemma dedup_NoDup l : NoDup (dedup l).
Proof.
  induction l as [|y r IH]; [constructor|]. cbn. destruct (memz r y) eqn:E; [exact IH|].
  constructor; [|exact IH]. rewrite dedup_In. intros H. apply memz_In in H. congruence.
Qed.

Lemma uniq_In l x : In x (uniq l) <-> In x l.
Proof.
  induction l as [|y r IH]; [tauto|]. destruct r as [|z r'].
  - cbn. tauto.
  - change (uniq (y :: z :: r')) with (if y =? z then uniq (z :: r') else y :: uniq (z :: r')).
    destruct (Z.eqb_spec y z) as [->|Hne].
    + rewrite IH. cbn. tauto.
    + cbn [In]. rewrite IH. cbn. tauto.
Qed.

Lemma ids_In es m : In m (ids es) <-> exists e, In e es /\ em e = m.
Proof.
  unfold ids. rewrite uniq_In. split.
  - intros H. apply (Permutation_in _ (Permutation_sym (ZSort.Permuted_sort _))) in H.
    apply in_map_iff in H. destruct H as [e [E He]]. eauto.
  - intros [e [He E]]. apply (Permutation_in _ (ZSort.Permuted_sort _)). apply in_map_iff. eauto.
Qed.

Lemma motif_edges_nil es m : ~ In m (ids es) -> motif_edges es m = [].
Proof.
  intros H. unfold motif_edges. induction es as [|e r IH]; [reflexivity|]. cbn.
  destruct (Z.eqb_spec (em e) m) as [E|E].
  - exfalso. apply H. apply ids_In. exists e. split; [left; reflexivity|exact E].
  - apply IH. intros Hin. apply H. apply ids_In in Hin. destruct Hin as [e' [He' E']].
    apply ids_In. exists e'. split; [right; exact He'|exact E'].
Qed.

Lemma removez_In y l x : In x (removez y l) <-> In x l /\ x <> y.
Proof.
  induction l as [|z r IH]; cbn; [tauto|]. destruct (Z.eqb_spec z y) as [->|Hne].
  - rewrite IH. split; [tauto|]. intros [[<-|H] Hn]; [contradiction|tauto].
  - cbn. rewrite IH. split; [intros [<-|[H Hn]]; tauto|tauto].
Qed.

Lemma removez_NoDup y l : NoDup l -> NoDup (removez y l).
Proof.
  induction 1 as [|z r Hn Hnd IH]; cbn; [constructor|]. destruct (z =? y); [exact IH|].
  constructor; [|exact IH]. rewrite removez_In. tauto.
Qed.

Lemma assigns_spec dom : forall cod r, NoDup cod -> In r (assigns dom cod) ->
  map fst r = dom /\ NoDup (map snd r) /\ incl (map snd r) cod.
Proof.
  induction dom as [|x dom IH]; intros cod r Hc Hr; cbn in Hr.
  - destruct Hr as [<-|[]]. cbn. split; [reflexivity|]. split; [constructor|intros z []].
  - apply in_flat_map in Hr. destruct Hr as [y [Hy Hr]]. apply in_map_iff in Hr.
    destruct Hr as [r' [<- Hr']]. apply IH in Hr'; [|apply removez_NoDup; exact Hc].
    destruct Hr' as [Hf [Hn Hi]]. cbn. split; [f_equal; exact Hf|]. split.
    + constructor; [|exact Hn]. intros Hin. apply Hi in Hin. apply removez_In in Hin. tauto.
    + intros z [<-|Hz]; [exact Hy|]. apply Hi in Hz. apply removez_In in Hz. tauto.
Qed.

Lemma rho_app_in r x y : NoDup (map fst r) -> In (x, y) r -> rho_app r x = y.
Proof.
  induction r as [|[a b] r IH]; intros Hn Hin; [destruct Hin|]. cbn in *.
  inversion Hn as [|? ? Hna Hn']; subst. destruct Hin as [[= -> ->]|Hin].
  - rewrite Z.eqb_refl. reflexivity.
  - destruct (Z.eqb_spec x a) as [->|Hne]; [|apply IH; assumption].
    exfalso. apply Hna. apply in_map_iff. exists (a, y). split; [reflexivity|exact Hin].
Qed.

Lemma snd_nodup_inj (r : list (Z * Z)) x x' y :
  NoDup (map snd r) -> In (x, y) r -> In (x', y) r -> x = x'.
Proof.
  induction r as [|[a b] r IH]; intros Hn H1 H2; [destruct H1|]. cbn in *.
  inversion Hn as [|? ? Hnb Hn']; subst.
  assert (Hy : forall z, In (z, y) r -> In y (map snd r)).
  { intros z Hz. apply in_map_iff. exists (z, y). split; [reflexivity|exact Hz]. }
  destruct H1 as [E1|H1], H2 as [E2|H2].
  - congruence.
  - exfalso. apply Hnb. assert (b = y) by congruence. subst b. eapply Hy; eauto.
  - exfalso. apply Hnb. assert (b = y) by congruence. subst b. eapply Hy; eauto.
  - eapply IH; eauto.
Qed.

Lemma assigns_inj dom cod r : NoDup dom -> NoDup cod -> In r (assigns dom cod) -> inj_on (rho_app r) dom.
Proof.
  intros Hd Hc Hr. destruct (assigns_spec dom cod r Hc Hr) as [Hf [Hn _]].
  assert (Hget : forall x, In x dom -> In (x, rho_app r x) r).
  { intros x Hx. rewrite <- Hf in Hx. apply in_map_iff in Hx. destruct Hx as [[a b] [E Hab]]. cbn in E. subst a.
    rewrite (rho_app_in r x b); [exact Hab| rewrite Hf; exact Hd | exact Hab]. }
  intros x y Hx Hy E. apply Hget in Hx. apply Hget in Hy. rewrite E in Hx.
  eapply snd_nodup_inj; eauto.
Qed.

Lemma item_eqb_eq (x y : shape_item) : item_eqb x y = true <-> x = y.
Proof.
  destruct x as [[a b] s], y as [[c d] t]. unfold item_eqb. cbn.
  rewrite !andb_true_iff, !Z.eqb_eq, Nat.eqb_eq. split; [intros [[-> ->] ->]; reflexivity|intros [= -> -> ->]; auto].
Qed.

Lemma mem_item_In l x : mem_item l x = true <-> In x l.
Proof.
  unfold mem_item. rewrite existsb_exists. split.
  - intros [y [Hy E]]. apply item_eqb_eq in E. subst. exact Hy.
  - intros H. exists x. split; [exact H|apply item_eqb_eq; reflexivity].
Qed.

Lemma same_items_iff l1 l2 : same_items l1 l2 = true <-> (forall x, In x l1 <-> In x l2).
Proof.
  unfold same_items. rewrite andb_true_iff, !forallb_forall. split.
  - intros [H1 H2] x. split; intros Hx; apply mem_item_In; auto.
  - intros H. split; intros x Hx; apply mem_item_In; apply H; exact Hx.
Qed.

Theorem check_shape_sound es0 es : check_shape es0 es = true -> Shape es0 es.
Proof.
  unfold check_shape. rewrite andb_true_iff, zs_eqb_eq, forallb_forall. intros [Hids Hall] m.
  destruct (in_dec Z.eq_dec m (ids es0)) as [Hin|Hnin].
  - specialize (Hall m Hin). unfold shape_ok in Hall. apply existsb_exists in Hall.
    destruct Hall as [r [Hr Hs]]. exists (rho_app r). split.
    + eapply assigns_inj; [apply dedup_NoDup|apply dedup_NoDup|exact Hr].
    + intros it. apply same_items_iff with (x := it) in Hs. symmetry. exact Hs.
  - exists (fun x => x). rewrite (motif_edges_nil es0 m Hnin).
    rewrite (motif_edges_nil es m) by (rewrite Hids; exact Hnin).
    split; [intros x y []|]. intros it. cbn. tauto.
Qed.

Theorem check_inv_sound nodes0 es0 nodes es :
  check_inv nodes0 es0 nodes es = true -> Hard nodes0 es0 nodes es /\ Shape es0 es.
Proof.
  unfold check_inv. rewrite andb_true_iff. intros [H1 H2].
  split; [apply check_hard_sound; exact H1|apply check_shape_sound; exact H2].
Qed.

(* ================================================================== graph basics *)
Lemma norm_sym a b : norm a b = norm b a.
Proof.
  unfold norm. destruct (Z.leb_spec a b), (Z.leb_spec b a); try reflexivity; try lia.
  assert (a = b) by lia. subst. reflexivity.
Qed.

Lemma norm_le a b : fst (norm a b) <= snd (norm a b).
Proof. unfold norm. destruct (Z.leb_spec a b); cbn; lia. Qed.

Lemma norm_lt a b : a <> b -> fst (norm a b) < snd (norm a b).
Proof. unfold norm. destruct (Z.leb_spec a b); cbn; lia. Qed.

Lemma norm_cases a b : norm a b = (a, b) \/ norm a b = (b, a).
Proof. unfold norm. destruct (a <=? b); auto. Qed.

Lemma norm_inj_l a b b' : norm a b = norm a b' -> b = b'.
Proof.
  unfold norm. destruct (Z.leb_spec a b), (Z.leb_spec a b'); intros [= ]; subst; try reflexivity; try lia.
Qed.

Lemma norm_eq_cases a b c d : norm a b = norm c d -> (a = c /\ b = d) \/ (a = d /\ b = c).
Proof.
  unfold norm. destruct (Z.leb_spec a b), (Z.leb_spec c d); intros [= ]; subst; auto.
Qed.

Lemma is_pair_key a b e : is_pair a b e = true <-> key e = norm a b.
Proof.
  unfold is_pair, key. rewrite andb_true_iff, !Z.eqb_eq. destruct (norm a b) as [x y]. cbn.
  split; [intros [-> ->]; reflexivity|intros [= -> ->]; auto].
Qed.

Lemma key_mk_edge a b t m : key (mk_edge a b t m) = norm a b.
Proof. unfold key, mk_edge. cbn. destruct (norm a b); reflexivity. Qed.

Lemma has_edge_iff es a b : has_edge es a b = true <-> exists e, In e es /\ key e = norm a b.
Proof.
  unfold has_edge. rewrite existsb_exists. split; intros [e [He H]]; exists e; split; auto; apply is_pair_key; exact H.
Qed.

Lemma has_edge_false es a b : has_edge es a b = false <-> ~ In (norm a b) (map key es).
Proof.
  split.
  - intros H Hin. apply in_map_iff in Hin. destruct Hin as [e [E He]].
    assert (has_edge es a b = true) by (apply has_edge_iff; eauto). congruence.
  - intros H. destruct (has_edge es a b) eqn:E; [|reflexivity]. exfalso. apply H.
    apply has_edge_iff in E. destruct E as [e [He E]]. apply in_map_iff. eauto.
Qed.

Lemma find_edge_some es a b e : find_edge es a b = Some e -> In e es /\ key e = norm a b.
Proof.
  unfold find_edge. intros H. apply find_some in H. destruct H as [H1 H2]. split; [exact H1|apply is_pair_key; exact H2].
Qed.

Lemma nodup_map_inj {A B} (f : A -> B) (l : list A) x y :
  NoDup (map f l) -> In x l -> In y l -> f x = f y -> x = y.
Proof.
  induction l as [|a l IH]; intros Hn Hx Hy E; [destruct Hx|]. cbn in Hn. inversion Hn as [|? ? Hna Hn']; subst.
  destruct Hx as [->|Hx], Hy as [->|Hy]; auto.
  - exfalso. apply Hna. rewrite E. apply in_map. exact Hy.
  - exfalso. apply Hna. rewrite <- E. apply in_map. exact Hx.
Qed.

Lemma nodup_map_in {A B} (f : A -> B) (l : list A) :
  (forall x y, In x l -> In y l -> f x = f y -> x = y) -> NoDup l -> NoDup (map f l).
Proof.
  intros Hinj Hn. induction Hn as [|a l Hna Hn IH]; cbn; constructor.
  - intros Hin. apply in_map_iff in Hin. destruct Hin as [y [E Hy]].
    assert (y = a) by (apply Hinj; [right; exact Hy|left; reflexivity|exact E]). subst. contradiction.
  - apply IH. intros x y Hx Hy. apply Hinj; right; assumption.
Qed.

Lemma nodup_of_map {A B} (f : A -> B) (l : list A) : NoDup (map f l) -> NoDup l.
Proof.
  induction l as [|a l IH]; intros H; [constructor|]. cbn in H. inversion H as [|? ? Hna Hn]; subst.
  constructor; [|apply IH; exact Hn]. intros Hin. apply Hna. apply in_map. exact Hin.
Qed.

Lemma nodup_app {A} (l1 l2 : list A) :
  NoDup l1 -> NoDup l2 -> (forall x, In x l1 -> ~ In x l2) -> NoDup (l1 ++ l2).
Proof.
  intros H1 H2 Hd. induction H1 as [|a l Hna Hn IH]; cbn; [exact H2|]. constructor.
  - rewrite in_app_iff. intros [H|H]; [contradiction|]. apply (Hd a); [left; reflexivity|exact H].
  - apply IH. intros x Hx. apply Hd. right. exact Hx.
Qed.

Lemma nodup_app_l {A} (l1 l2 : list A) : NoDup (l1 ++ l2) -> NoDup l1.
Proof.
  induction l1 as [|a l IH]; intros H; [constructor|]. cbn in H. inversion H as [|? ? Hna Hn]; subst.
  constructor; [|apply IH; exact Hn]. intros Hin. apply Hna. apply in_app_iff. left. exact Hin.
Qed.
Lemma nodup_app_r {A} (l1 l2 : list A) : NoDup (l1 ++ l2) -> NoDup l2.
Proof.
  induction l1 as [|a l IH]; intros H; [exact H|]. cbn in H. inversion H; subst. apply IH. assumption.
Qed.

Lemma nonempty_in {A} (l : list A) : l <> [] -> exists x, In x l.
Proof. destruct l as [|x r]; [intros H; contradiction|intros _; exists x; left; reflexivity]. Qed.

Lemma find_edge_complete N es a b e :
  WF N es -> In e es -> key e = norm a b -> find_edge es a b = Some e.
Proof.
  intros [_ Hn] He Hk. unfold find_edge. destruct (find (is_pair a b) es) as [e'|] eqn:E.
  - apply find_some in E. destruct E as [He' Hk']. apply is_pair_key in Hk'.
    f_equal. eapply nodup_map_inj; eauto. congruence.
  - exfalso. eapply find_none in E; [|exact He]. apply is_pair_key in Hk. congruence.
Qed.

Lemma touches_iff u e : touches u e = true <-> ea e = u \/ eb e = u.
Proof. unfold touches. rewrite orb_true_iff, !Z.eqb_eq. tauto. Qed.

Lemma key_other N es u e : WF N es -> In e es -> touches u e = true -> key e = norm u (other u e) /\ other u e <> u.
Proof.
  intros [Hr _] He Ht. apply Hr in He. apply touches_iff in Ht. unfold other, key, norm.
  destruct (Z.eqb_spec (ea e) u) as [E|E].
  - subst u. destruct (Z.leb_spec (ea e) (eb e)); [split; [reflexivity|lia]|lia].
  - destruct Ht as [Ht|Ht]; [contradiction|]. subst u.
    destruct (Z.leb_spec (eb e) (ea e)); [lia|split; [reflexivity|lia]].
Qed.

Lemma other_touches N es u e : WF N es -> In e es -> touches u e = true -> touches (other u e) e = true.
Proof.
  intros _ _ Ht. apply touches_iff in Ht. apply touches_iff. unfold other.
  destruct (Z.eqb_spec (ea e) u); [right; reflexivity|left; reflexivity].
Qed.

(* ------------------------------------------------------------------ genuine corners *)
Lemma corner_edges_In es u m e :
  In e (corner_edges es u m) <-> In e es /\ touches u e = true /\ em e = m.
Proof. unfold corner_edges. rewrite filter_In, andb_true_iff, Z.eqb_eq. tauto. Qed.

Lemma nodup_filter_map {A B} (f : A -> B) (g : A -> bool) l : NoDup (map f l) -> NoDup (map f (filter g l)).
Proof.
  induction l as [|a l IH]; intros H; [constructor|]. cbn in *. inversion H as [|? ? Hna Hn]; subst.
  destruct (g a); [|apply IH; exact Hn]. cbn. constructor; [|apply IH; exact Hn].
  intros Hin. apply Hna. apply in_map_iff in Hin. destruct Hin as [x [E Hx]]. apply filter_In in Hx.
  apply in_map_iff. exists x. tauto.
Qed.

Lemma other_inj N es u e e' :
  WF N es -> In e es -> In e' es -> touches u e = true -> touches u e' = true -> other u e = other u e' -> e = e'.
Proof.
  intros HW He He' Ht Ht' E. destruct (key_other N es u e HW He Ht) as [K _].
  destruct (key_other N es u e' HW He' Ht') as [K' _]. destruct HW as [_ Hn].
  eapply nodup_map_inj; eauto. congruence.
Qed.

Lemma corner_nodup N es u m : WF N es -> NoDup (corner es u m).
Proof.
  intros HW. unfold corner. apply nodup_map_in.
  - intros x y Hx Hy E. apply corner_edges_In in Hx, Hy. eapply (other_inj N es u); try tauto.
  - unfold corner_edges. apply NoDup_filter. destruct HW as [_ Hn]. eapply nodup_of_map; eauto.
Qed.

Lemma permb_perm l1 l2 : NoDup l2 -> permb l1 l2 = true -> Permutation l1 l2.
Proof.
  unfold permb. rewrite !andb_true_iff, Nat.eqb_eq, forallb_forall. intros H2 [[Hl Hn] Hi].
  apply nodupb_NoDup in Hn. apply NoDup_Permutation_bis; auto; [lia|].
  intros x Hx. apply memz_In. apply Hi. exact Hx.
Qed.

(* a corner given by the oracle as other-end-points c, with its edge records a *)
Definition Genuine (es : list edge) (u m : Z) (c : list Z) (a : list edge) : Prop :=
  Permutation a (corner_edges es u m) /\ c = map (other u) a.

Lemma attrs_of_corner N es u m : WF N es -> forall c,
  incl c (corner es u m) -> exists a, attrs es u c = Some a /\ c = map (other u) a /\ incl a (corner_edges es u m).
Proof.
  intros HW. induction c as [|x c IH]; intros Hi.
  - exists []. cbn. split; [reflexivity|]. split; [reflexivity|intros z []].
  - destruct IH as [a [Ha [Hc Hia]]]; [intros z Hz; apply Hi; right; exact Hz|].
    assert (Hx : In x (corner es u m)) by (apply Hi; left; reflexivity).
    unfold corner in Hx. apply in_map_iff in Hx. destruct Hx as [e [Ex He]].
    pose proof He as He2. apply corner_edges_In in He2. destruct He2 as [Hin [Ht Hm]].
    destruct (key_other N es u e HW Hin Ht) as [K _]. rewrite Ex in K.
    exists (e :: a). cbn. rewrite (find_edge_complete N es u x e HW Hin K), Ha.
    split; [reflexivity|]. split; [rewrite Ex, <- Hc; reflexivity|].
    intros z [<-|Hz]; [exact He|apply Hia; exact Hz].
Qed.

Lemma genuine_of_permb N es u m c :
  WF N es -> permb c (corner es u m) = true -> exists a, attrs es u c = Some a /\ Genuine es u m c a.
Proof.
  intros HW Hp. apply permb_perm in Hp; [|eapply corner_nodup; eauto].
  destruct (attrs_of_corner N es u m HW c) as [a [Ha [Hc Hi]]].
  { intros z Hz. eapply Permutation_in; eauto. }
  exists a. split; [exact Ha|]. split; [|exact Hc].
  apply NoDup_Permutation_bis.
  - apply (nodup_of_map (other u)). rewrite <- Hc. eapply Permutation_NoDup; [apply Permutation_sym; exact Hp|].
    eapply corner_nodup; eauto.
  - assert (length a = length c) by (rewrite Hc, map_length; reflexivity).
    apply Permutation_length in Hp. unfold corner in Hp. rewrite map_length in Hp. lia.
  - exact Hi.
Qed.

(* ================================================================== what [suitable] establishes *)
Lemma countn_pos t l : In t l -> (0 < countn t l)%nat.
Proof.
  unfold countn. induction l as [|x l IH]; [intros []|]. intros [->|H]; cbn.
  - rewrite Nat.eqb_refl. cbn. lia.
  - destruct (Nat.eqb t x); cbn; [lia|apply IH; exact H].
Qed.

Lemma countn_in t l : (0 < countn t l)%nat -> In t l.
Proof.
  unfold countn. induction l as [|x l IH]; cbn; [lia|]. destruct (Nat.eqb_spec t x) as [->|Hne]; [left; reflexivity|].
  intros H. right. apply IH. exact H.
Qed.

Lemma topo_eq_spec l0 l1 : topo_eq l0 l1 = true -> forall t, countn t l0 = countn t l1.
Proof.
  unfold topo_eq. rewrite forallb_forall. intros H t.
  destruct (in_dec Nat.eq_dec t (l0 ++ l1)) as [Hin|Hnin].
  - apply Nat.eqb_eq. apply H. exact Hin.
  - assert (H0 : ~ In t l0) by (intros X; apply Hnin; apply in_app_iff; tauto).
    assert (H1 : ~ In t l1) by (intros X; apply Hnin; apply in_app_iff; tauto).
    destruct (countn t l0) eqn:E0; destruct (countn t l1) eqn:E1; try reflexivity; exfalso.
    + apply H1. apply countn_in. lia.
    + apply H0. apply countn_in. lia.
    + apply H0. apply countn_in. lia.
Qed.

Record SuitFacts (es : list edge) (u0 v0 m0 m1 : Z) (a0 a1 : list edge) : Prop := {
  sf_len : length a0 = length a1;
  sf_ne : a0 <> [];
  sf_ids : m0 <> m1;
  sf_u0 : forall e, In e es -> touches u0 e = true -> em e <> m1;
  sf_v0 : forall e, In e es -> touches v0 e = true -> em e <> m0;
  sf_new1 : forall e1, In e1 a1 -> has_edge es u0 (other v0 e1) = false;
  sf_new0 : forall e0, In e0 a0 -> has_edge es v0 (other u0 e0) = false
}.

Lemma suitable_facts es u0 v0 m0 m1 a0 a1 :
  (forall e, In e a0 -> em e = m0) -> (forall e, In e a1 -> em e = m1) ->
  suitable es u0 v0 a0 a1 = true -> SuitFacts es u0 v0 m0 m1 a0 a1.
Proof.
  intros H0 H1. unfold suitable. rewrite !andb_true_iff. intros [[[Hl Ht] Hz] Hrest].
  apply Nat.eqb_eq in Hl. pose proof (topo_eq_spec _ _ Ht) as Hc.
  destruct a0 as [|f0 r0]; [discriminate|]. destruct a1 as [|f1 r1]; [discriminate|].
  rewrite !andb_true_iff in Hrest. destruct Hrest as [[Hu Hv] Hp].
  rewrite negb_true_iff in Hu, Hv.
  assert (E0 : em f0 = m0) by (apply H0; left; reflexivity).
  assert (E1 : em f1 = m1) by (apply H1; left; reflexivity).
  rewrite forallb_forall in Hp.
  constructor.
  - exact Hl.
  - discriminate.
  - cbn in Hz. apply andb_true_iff in Hz. destruct Hz as [Hz _]. rewrite negb_true_iff in Hz.
    apply Z.eqb_neq in Hz. congruence.
  - intros e He Hte Hm. assert (X : existsb (fun e => touches u0 e && (em e =? em f1)) es = true).
    { apply existsb_exists. exists e. split; [exact He|]. rewrite Hte, E1. cbn. apply Z.eqb_eq. exact Hm. }
    congruence.
  - intros e He Hte Hm. assert (X : existsb (fun e => touches v0 e && (em e =? em f0)) es = true).
    { apply existsb_exists. exists e. split; [exact He|]. rewrite Hte, E0. cbn. apply Z.eqb_eq. exact Hm. }
    congruence.
  - intros e1 He1.
    assert (Hin : In (et e1) (map et (f0 :: r0))).
    { apply countn_in. rewrite Hc. apply countn_pos. apply in_map. exact He1. }
    apply in_map_iff in Hin. destruct Hin as [e0 [Et He0]].
    specialize (Hp e0 He0). rewrite forallb_forall in Hp. specialize (Hp e1 He1).
    rewrite <- Et, Nat.eqb_refl in Hp. rewrite negb_true_iff in Hp. apply orb_false_iff in Hp. tauto.
  - intros e0 He0.
    assert (Hin : In (et e0) (map et (f1 :: r1))).
    { apply countn_in. rewrite <- Hc. apply countn_pos. apply in_map. exact He0. }
    apply in_map_iff in Hin. destruct Hin as [e1 [Et He1]].
    specialize (Hp e0 He0). rewrite forallb_forall in Hp. specialize (Hp e1 He1).
    rewrite Et, Nat.eqb_refl in Hp. rewrite negb_true_iff in Hp. apply orb_false_iff in Hp. tauto.
Qed.

(* ================================================================== the numerator loop pairs the corners *)
Definition pp (fixed : bool) (u0 v0 : Z) (p : edge * edge) : list edge :=
  let e0 := fst p in let e1 := snd p in
  if fixed
  then [mk_edge u0 (other v0 e1) (et e1) (em e1); mk_edge v0 (other u0 e0) (et e0) (em e0)]
  else [mk_edge u0 (other v0 e1) (et e0) (em e0); mk_edge v0 (other u0 e0) (et e1) (em e1)].

Lemma pop_topo_spec t rem e r : pop_topo t rem = Some (e, r) -> et e = t /\ Permutation rem (e :: r).
Proof.
  revert e r. induction rem as [|x rem IH]; intros e r H; cbn in H; [discriminate|].
  destruct (Nat.eqb_spec (et x) t) as [E|E].
  - injection H as <- <-. split; [exact E|apply Permutation_refl].
  - destruct (pop_topo t rem) as [[y r']|] eqn:P; [|discriminate]. injection H as <- <-.
    destruct (IH y r' eq_refl) as [Et Hp]. split; [exact Et|].
    eapply Permutation_trans; [apply perm_skip; exact Hp|apply perm_swap].
Qed.

Lemma num_loop_ok fixed nodes tg u0 v0 all1 : forall a0 rem props top props' top',
  num_loop fixed nodes tg u0 v0 all1 a0 rem props top = NumOk props' top' ->
  exists prs rem', map fst prs = a0 /\ Permutation rem (map snd prs ++ rem') /\
     (forall p, In p prs -> et (snd p) = et (fst p)) /\
     props' = props ++ flat_map (pp fixed u0 v0) prs.
Proof.
  induction a0 as [|e0 a0 IH]; intros rem props top props' top' H; cbn in H.
  - injection H as <- <-. exists [], rem. cbn. rewrite app_nil_r. repeat split; auto; try (intros p []).
  - destruct (pop_topo (et e0) rem) as [[e1 rem1]|] eqn:P; [|discriminate].
    destruct (pop_topo_spec _ _ _ _ P) as [Et Hperm].
    destruct (exk nodes (et e0) u0); [|discriminate].
    destruct (exk nodes (et e0) (other u0 e0)); [|discriminate].
    destruct (exk nodes (et e0) v0); [|discriminate].
    destruct (exk nodes (et e0) (other v0 e1)); [|discriminate].
    match type of H with (if ?c then _ else _) = _ => destruct c; [discriminate|] end.
    destruct (tlookup tg (et e0) _); [|discriminate].
    destruct (tlookup tg (et e0) _); [|discriminate].
    match type of H with (if ?c then _ else _) = _ => destruct c; [discriminate|] end.
    apply IH in H. destruct H as [prs [rem' [Hf [Hp [Ht Hprops]]]]].
    exists ((e0, e1) :: prs), rem'. cbn [map fst snd flat_map]. split; [f_equal; exact Hf|]. split.
    + eapply Permutation_trans; [exact Hperm|]. cbn. apply perm_skip. exact Hp.
    + split.
      * intros p [<-|Hin]; [exact Et|apply Ht; exact Hin].
      * rewrite Hprops. rewrite <- app_assoc. reflexivity.
Qed.

(* ================================================================== list / permutation helpers *)
Lemma filter_split_perm {A} (f : A -> bool) l : Permutation l (filter f l ++ filter (fun x => negb (f x)) l).
Proof.
  induction l as [|x l IH]; [constructor|]. cbn. destruct (f x); cbn.
  - apply perm_skip. exact IH.
  - eapply Permutation_trans; [apply perm_skip; exact IH|]. apply Permutation_middle.
Qed.

Lemma filter_or_perm {A} (f g : A -> bool) l :
  (forall x, In x l -> f x = true -> g x = true -> False) ->
  Permutation (filter (fun x => f x || g x) l) (filter f l ++ filter g l).
Proof.
  induction l as [|x l IH]; intros Hd; [constructor|]. cbn.
  assert (Hd' : forall y, In y l -> f y = true -> g y = true -> False) by (intros y Hy; apply Hd; right; exact Hy).
  destruct (f x) eqn:Ef; destruct (g x) eqn:Eg; cbn.
  - exfalso. apply (Hd x); auto. left; reflexivity.
  - apply perm_skip. apply IH. exact Hd'.
  - eapply Permutation_trans; [apply perm_skip; apply IH; exact Hd'|]. apply Permutation_middle.
  - apply IH. exact Hd'.
Qed.

Lemma filter_filter {A} (f g : A -> bool) l : filter f (filter g l) = filter (fun x => g x && f x) l.
Proof.
  induction l as [|x l IH]; [reflexivity|]. cbn. destruct (g x); cbn; [destruct (f x); rewrite IH; reflexivity|exact IH].
Qed.

Lemma stubs_app l1 l2 : stubs (l1 ++ l2) = stubs l1 ++ stubs l2.
Proof. unfold stubs. apply flat_map_app. Qed.

Lemma labels_app l1 l2 : labels (l1 ++ l2) = labels l1 ++ labels l2.
Proof. unfold labels. apply map_app. Qed.

Lemma stubs_perm l1 l2 : Permutation l1 l2 -> Permutation (stubs l1) (stubs l2).
Proof. intros H. unfold stubs. apply Permutation_flat_map. exact H. Qed.

Lemma labels_perm l1 l2 : Permutation l1 l2 -> Permutation (labels l1) (labels l2).
Proof. intros H. unfold labels. apply Permutation_map. exact H. Qed.

Definition zipL (a0 a1 : list edge) : list edge := flat_map (fun p => [fst p; snd p]) (combine a0 a1).

Lemma zipL_perm a0 : forall a1, length a0 = length a1 -> Permutation (zipL a0 a1) (a0 ++ a1).
Proof.
  induction a0 as [|x a0 IH]; intros [|y a1] H; cbn in *; try discriminate; [constructor|].
  apply perm_skip. eapply Permutation_trans; [apply perm_skip; apply IH; lia|]. apply Permutation_middle.
Qed.

Lemma pairs_flat_perm (prs : list (edge * edge)) :
  Permutation (flat_map (fun p => [fst p; snd p]) prs) (map fst prs ++ map snd prs).
Proof.
  induction prs as [|p prs IH]; [constructor|]. cbn. apply perm_skip.
  eapply Permutation_trans; [apply perm_skip; exact IH|]. apply Permutation_middle.
Qed.

(* stubs / labels of one proposal pair *)
Lemma stubs_mk_edge a b t m : Permutation (stubs [mk_edge a b t m]) [(a, t); (b, t)].
Proof.
  unfold stubs, mk_edge. cbn. destruct (norm_cases a b) as [-> | ->]; cbn; [apply Permutation_refl|apply perm_swap].
Qed.

Lemma stubs_touch N es u e : WF N es -> In e es -> touches u e = true ->
  Permutation (stubs [e]) [(u, et e); (other u e, et e)].
Proof.
  intros HW He Ht. apply touches_iff in Ht. unfold stubs, other. cbn.
  destruct (Z.eqb_spec (ea e) u) as [E|E].
  - subst u. apply Permutation_refl.
  - destruct Ht as [Ht|Ht]; [contradiction|]. subst u. apply perm_swap.
Qed.

Lemma stubs_pp N es fixed u0 v0 e0 e1 :
  WF N es -> In e0 es -> In e1 es -> touches u0 e0 = true -> touches v0 e1 = true -> et e1 = et e0 ->
  Permutation (stubs (pp fixed u0 v0 (e0, e1))) (stubs [e0; e1]).
Proof.
  intros HW H0 H1 T0 T1 Et.
  change [e0; e1] with ([e0] ++ [e1]). rewrite stubs_app.
  eapply Permutation_trans;
    [|apply Permutation_sym; apply Permutation_app; [eapply stubs_touch; eauto|eapply stubs_touch; eauto]].
  unfold pp. cbn [fst snd]. rewrite Et.
  destruct fixed.
  - change [?x; ?y] with ([x] ++ [y]). rewrite stubs_app.
    eapply Permutation_trans; [apply Permutation_app; apply stubs_mk_edge|]. cbn.
    (* [(u0,t);(v1,t);(v0,t);(u1,t)] ~ [(u0,t);(u1,t);(v0,t);(v1,t)] *)
    apply perm_skip. eapply Permutation_trans; [apply perm_swap|]. eapply Permutation_trans; [apply perm_skip; apply perm_swap|].
    eapply Permutation_trans; [apply perm_swap|]. apply perm_skip. apply Permutation_refl.
  - match goal with |- Permutation (stubs [?x; ?y]) _ => change [x; y] with ([x] ++ [y]) end. rewrite stubs_app.
    eapply Permutation_trans; [apply Permutation_app; apply stubs_mk_edge|]. cbn.
    apply perm_skip. eapply Permutation_trans; [apply perm_swap|]. eapply Permutation_trans; [apply perm_skip; apply perm_swap|].
    eapply Permutation_trans; [apply perm_swap|]. apply perm_skip. apply Permutation_refl.
Qed.

Lemma labels_pp fixed u0 v0 e0 e1 : Permutation (labels (pp fixed u0 v0 (e0, e1))) (labels [e0; e1]).
Proof. unfold pp, labels, mk_edge. cbn. destruct fixed; [apply perm_swap|apply Permutation_refl]. Qed.

(* ================================================================== the draw set mirrors the edge set *)
Definition Mirror (M : Z) (es : list edge) (d : ds) : Prop :=
  DrawSetP.Inv d /\ forall k, In k (edges d) <-> In k (map (enc M) es).

Lemma add_mem d k x : DrawSetP.Inv d -> (In x (edges (ds_add d k)) <-> In x (edges d) \/ x = k).
Proof.
  intros HI. rewrite add_members. split.
  - intros [H|[H _]]; auto.
  - intros [H| ->]; [left; exact H|].
    destruct (ds_contains d k) eqn:C; [left; apply (contains_In d k HI); exact C|right; auto].
Qed.

Lemma fold_add_spec M (P : list edge) : forall d, DrawSetP.Inv d ->
  DrawSetP.Inv (fold_left (fun d p => ds_add d (enc M p)) P d) /\
  forall k, In k (edges (fold_left (fun d p => ds_add d (enc M p)) P d)) <-> In k (edges d) \/ In k (map (enc M) P).
Proof.
  induction P as [|p P IH]; intros d HI; cbn.
  - split; [exact HI|]. intros k. tauto.
  - destruct (IH (ds_add d (enc M p)) (add_Inv d _ HI)) as [H1 H2]. split; [exact H1|].
    intros k. rewrite H2, add_mem by exact HI. split; [intros [[H|H]|H]; auto|intros [H|[H|H]]; auto].
Qed.

Lemma enc_key M e e' : key e = key e' -> enc M e = enc M e'.
Proof. unfold key, enc. intros [= -> ->]. reflexivity. Qed.

Lemma enc_inj M e e' :
  0 <= ea e -> ea e < eb e -> eb e < M -> 0 <= ea e' -> ea e' < eb e' -> eb e' < M -> enc M e = enc M e' -> key e = key e'.
Proof.
  unfold enc, key. intros. assert (ea e = ea e') by nia. assert (eb e = eb e') by nia. congruence.
Qed.

Lemma init_ds_mirror M es : Mirror M es (init_ds M es).
Proof.
  unfold init_ds. destruct (fold_add_spec M es ds_empty Inv_empty) as [H1 H2].
  split; [exact H1|]. intros k. rewrite H2. cbn. tauto.
Qed.

(* ------------------------------------------------------------------ add_props *)
Lemma add_props_ok M : forall P es d,
  (forall p, In p P -> ea p <= eb p) ->
  (forall p, In p P -> ~ In (key p) (map key es)) -> NoDup (map key P) ->
  add_props M es d P = Ok (es ++ P, fold_left (fun d p => ds_add d (enc M p)) P d).
Proof.
  induction P as [|p P IH]; intros es d Hle Hnew Hnd; cbn.
  - rewrite app_nil_r. reflexivity.
  - assert (Hp : has_edge es (ea p) (eb p) = false).
    { apply has_edge_false. unfold norm. assert (ea p <= eb p) by (apply Hle; left; reflexivity).
      destruct (Z.leb_spec (ea p) (eb p)); [|lia]. apply (Hnew p). left; reflexivity. }
    rewrite Hp. inversion Hnd as [|? ? Hnp Hnd']; subst.
    rewrite IH; [rewrite <- app_assoc; reflexivity| | |exact Hnd'].
    + intros q Hq. apply Hle. right. exact Hq.
    + intros q Hq. rewrite map_app, in_app_iff. cbn. intros [H|[H|[]]].
      * apply (Hnew q); [right; exact Hq|exact H].
      * apply Hnp. rewrite H. apply in_map. exact Hq.
Qed.

(* ------------------------------------------------------------------ remove_olds *)
Lemma filter_true {A} (l : list A) : filter (fun _ => true) l = l.
Proof. induction l as [|x r IH]; cbn; [reflexivity|f_equal; exact IH]. Qed.

Lemma remove_edge_spec es a b : remove_edge es a b = filter (fun e => negb (is_pair a b e)) es.
Proof. reflexivity. Qed.

Lemma remove_olds_ok M u0 v0 : forall a0 a1 es d,
  length a0 = length a1 ->
  NoDup (map key es) ->
  (forall e e', In e es -> In e' es -> enc M e = enc M e' -> key e = key e') ->
  NoDup (zipL a0 a1) -> (forall e, In e (zipL a0 a1) -> In e es) ->
  (forall e, In e a0 -> key e = norm u0 (other u0 e)) -> (forall e, In e a1 -> key e = norm v0 (other v0 e)) ->
  DrawSetP.Inv d -> (forall e, In e (zipL a0 a1) -> In (enc M e) (edges d)) ->
  exists g d',
    remove_olds M es d u0 v0 (map (other u0) a0) (map (other v0) a1) = Ok (filter g es, d') /\
    (forall e, In e es -> (g e = true <-> ~ In e (zipL a0 a1))) /\
    DrawSetP.Inv d' /\
    (forall k, In k (edges d') <-> In k (edges d) /\ ~ In k (map (enc M) (zipL a0 a1))).
Proof.
  induction a0 as [|e0 a0 IH]; intros [|e1 a1] es d Hlen Hnd Hinj HndL HinL K0 K1 HI Hd; cbn in Hlen; try discriminate.
  - exists (fun _ => true), d. cbn. split; [rewrite filter_true; reflexivity|].
    split; [intros e _; split; [intros _ []|reflexivity]|]. split; [exact HI|]. intros k. tauto.
  - cbn [map remove_olds]. cbn [zipL combine flat_map fst snd app] in HndL, HinL, Hd.
    fold (zipL a0 a1) in HndL, HinL, Hd.
    assert (He0 : In e0 es) by (apply HinL; left; reflexivity).
    assert (He1 : In e1 es) by (apply HinL; right; left; reflexivity).
    assert (Kk0 : key e0 = norm u0 (other u0 e0)) by (apply K0; left; reflexivity).
    assert (Kk1 : key e1 = norm v0 (other v0 e1)) by (apply K1; left; reflexivity).
    inversion HndL as [|? ? Hn0 HndL1]; subst. inversion HndL1 as [|? ? Hn1 HndL2]; subst.
    assert (Hne : e0 <> e1) by (intros ->; apply Hn0; left; reflexivity).
    assert (Hkne : key e0 <> key e1).
    { intros E. apply Hne. eapply nodup_map_inj; eauto. }
    assert (H0 : has_edge es u0 (other u0 e0) = true) by (apply has_edge_iff; eauto).
    rewrite H0. rewrite remove_edge_spec.
    set (es1 := filter (fun e => negb (is_pair u0 (other u0 e0) e)) es).
    assert (Hin1 : forall e, In e es1 <-> In e es /\ key e <> key e0).
    { intros e. unfold es1. rewrite filter_In, negb_true_iff.
      split; intros [A B]; split; auto.
      - intros E. rewrite (proj2 (is_pair_key u0 (other u0 e0) e)) in B; [discriminate|congruence].
      - destruct (is_pair u0 (other u0 e0) e) eqn:X; [|reflexivity]. apply is_pair_key in X. exfalso. apply B. congruence. }
    assert (H1 : has_edge es1 v0 (other v0 e1) = true).
    { apply has_edge_iff. exists e1. split; [apply Hin1; split; auto|exact Kk1]. }
    rewrite H1. rewrite remove_edge_spec. unfold es1. rewrite filter_filter.
    set (g2 := fun x => negb (is_pair u0 (other u0 e0) x) && negb (is_pair v0 (other v0 e1) x)).
    assert (Hg2 : forall e, In e es -> (g2 e = true <-> e <> e0 /\ e <> e1)).
    { intros e He. unfold g2. rewrite andb_true_iff, !negb_true_iff. split.
      - intros [A B]. split; intros ->.
        + rewrite (proj2 (is_pair_key _ _ _) Kk0) in A. discriminate.
        + rewrite (proj2 (is_pair_key _ _ _) Kk1) in B. discriminate.
      - intros [A B]. split.
        + destruct (is_pair u0 (other u0 e0) e) eqn:X; [|reflexivity]. apply is_pair_key in X. exfalso. apply A.
          eapply nodup_map_inj; eauto. congruence.
        + destruct (is_pair v0 (other v0 e1) e) eqn:X; [|reflexivity]. apply is_pair_key in X. exfalso. apply B.
          eapply nodup_map_inj; eauto. congruence. }
    (* the draw set *)
    assert (E0 : enc M (mk_edge u0 (other u0 e0) 0 0) = enc M e0).
    { apply enc_key. rewrite key_mk_edge. symmetry. exact Kk0. }
    assert (E1 : enc M (mk_edge v0 (other v0 e1) 0 0) = enc M e1).
    { apply enc_key. rewrite key_mk_edge. symmetry. exact Kk1. }
    rewrite E0, E1.
    destruct (remove_present d (enc M e0) HI) as [d1 Hd1]; [apply Hd; left; reflexivity|].
    rewrite Hd1. pose proof (remove_Inv _ _ _ HI Hd1) as HI1. pose proof (remove_members _ _ _ HI Hd1) as Hm1.
    assert (Henc_ne : enc M e1 <> enc M e0).
    { intros E. apply Hkne. symmetry. apply Hinj; auto. }
    destruct (remove_present d1 (enc M e1) HI1) as [d2 Hd2].
    { apply Hm1. split; [apply Hd; right; left; reflexivity|exact Henc_ne]. }
    rewrite Hd2. pose proof (remove_Inv _ _ _ HI1 Hd2) as HI2. pose proof (remove_members _ _ _ HI1 Hd2) as Hm2.
    (* induction hypothesis on the shrunk graph *)
    assert (HinL' : forall e, In e (zipL a0 a1) -> In e (filter g2 es)).
    { intros e He. apply filter_In. split; [apply HinL; right; right; exact He|].
      apply Hg2; [apply HinL; right; right; exact He|]. split; intros ->.
      - apply Hn0. right. exact He.
      - apply Hn1. exact He. }
    destruct (IH a1 (filter g2 es) d2) as [g [d' [Hr [Hg [HId Hmd]]]]].
    + lia.
    + apply (nodup_filter_map key g2). exact Hnd.
    + intros e e' He He'. apply filter_In in He, He'. apply Hinj; tauto.
    + exact HndL2.
    + exact HinL'.
    + intros e He. apply K0. right. exact He.
    + intros e He. apply K1. right. exact He.
    + exact HI2.
    + intros e He. apply Hm2. split.
      * apply Hm1. split; [apply Hd; right; right; exact He|].
        intros E. apply Hn0. right. assert (e = e0); [|subst; exact He].
        eapply nodup_map_inj; [exact Hnd|apply HinL; right; right; exact He|exact He0|]. apply Hinj; auto. apply HinL; right; right; exact He.
      * intros E. apply Hn1. assert (e = e1); [|subst; exact He].
        eapply nodup_map_inj; [exact Hnd|apply HinL; right; right; exact He|exact He1|]. apply Hinj; auto. apply HinL; right; right; exact He.
    + exists (fun x => g2 x && g x), d'. rewrite Hr, filter_filter. split; [reflexivity|]. split.
      * intros e He. rewrite andb_true_iff. cbn [In]. split.
        -- intros [A B]. pose proof (proj1 (Hg2 e He) A) as [Na Nb].
           assert (Hf : In e (filter g2 es)) by (apply filter_In; auto).
           pose proof (proj1 (Hg e Hf) B) as Hz. intros [X|[X|X]]; [symmetry in X; contradiction|symmetry in X; contradiction|contradiction].
        -- intros Hn. assert (A : g2 e = true).
           { apply Hg2; [exact He|]. split; intros ->; apply Hn; [left; reflexivity|right; left; reflexivity]. }
           split; [exact A|]. apply Hg; [apply filter_In; auto|]. intros X. apply Hn. right. right. exact X.
      * split; [exact HId|]. intros k. rewrite Hmd, Hm2, Hm1. cbn [map In]. split.
        -- intros [[[A B] C] D]. split; [exact A|]. intros [X|[X|X]]; [symmetry in X; contradiction|symmetry in X; contradiction|contradiction].
        -- intros [A B]. split; [split; [split; [exact A|]|]|].
           ++ intros X. apply B. left. symmetry. exact X.
           ++ intros X. apply B. right. left. symmetry. exact X.
           ++ intros X. apply B. right. right. exact X.
Qed.

(* ================================================================== the swap step *)
Section Swap.
  Context (N : Z) (es : list edge) (u0 v0 m0 m1 : Z) (a0 a1 : list edge) (fixed : bool)
          (prs : list (edge * edge)).
  Hypothesis HW : WF N es.
  Hypothesis G0 : Permutation a0 (corner_edges es u0 m0).
  Hypothesis G1 : Permutation a1 (corner_edges es v0 m1).
  Hypothesis SF : SuitFacts es u0 v0 m0 m1 a0 a1.
  Hypothesis Hf : map fst prs = a0.
  Hypothesis Hs : Permutation a1 (map snd prs).
  Hypothesis Ht : forall p, In p prs -> et (snd p) = et (fst p).

  Definition swap_props : list edge := flat_map (pp fixed u0 v0) prs.
  Definition is_oldb (e : edge) : bool := (touches u0 e && (em e =? m0)) || (touches v0 e && (em e =? m1)).
  Definition swap_rest : list edge := filter (fun e => negb (is_oldb e)) es.

  Lemma a0_facts e : In e a0 -> In e es /\ touches u0 e = true /\ em e = m0.
  Proof. intros H. apply corner_edges_In. eapply Permutation_in; eauto. Qed.
  Lemma a1_facts e : In e a1 -> In e es /\ touches v0 e = true /\ em e = m1.
  Proof. intros H. apply corner_edges_In. eapply Permutation_in; eauto. Qed.

  Lemma prs_in p : In p prs -> In (fst p) a0 /\ In (snd p) a1.
  Proof.
    intros H. split.
    - rewrite <- Hf. apply in_map. exact H.
    - eapply Permutation_in; [apply Permutation_sym; exact Hs|]. apply in_map. exact H.
  Qed.

  Lemma es_split : Permutation es (a0 ++ a1 ++ swap_rest).
  Proof.
    eapply Permutation_trans; [apply (filter_split_perm is_oldb)|]. rewrite app_assoc.
    apply Permutation_app; [|apply Permutation_refl].
    eapply Permutation_trans.
    - unfold is_oldb. apply (filter_or_perm (fun e => touches u0 e && (em e =? m0)) (fun e => touches v0 e && (em e =? m1))).
      intros e He H1 H2. apply andb_true_iff in H1, H2. destruct H1 as [T1 E1], H2 as [T2 E2].
      apply Z.eqb_eq in E1, E2. apply (sf_v0 _ _ _ _ _ _ _ SF e He T2 E1).
    - apply Permutation_app; apply Permutation_sym; assumption.
  Qed.

  Lemma a_nodup : NoDup (a0 ++ a1).
  Proof.
    assert (Hn : NoDup es) by (destruct HW as [_ Hn]; eapply nodup_of_map; eauto).
    eapply Permutation_NoDup in Hn; [|apply es_split]. rewrite app_assoc in Hn.
    apply nodup_app_l in Hn. exact Hn.
  Qed.

  (* vertices and keys of the proposals *)
  Lemma range_of e : In e es -> 0 <= ea e /\ ea e < eb e /\ eb e < N.
  Proof. destruct HW as [Hr _]. apply Hr. Qed.

  Lemma other_range u e : In e es -> touches u e = true -> 0 <= other u e < N /\ 0 <= u < N.
  Proof.
    intros He Hte. pose proof (range_of e He). apply touches_iff in Hte. unfold other.
    destruct (Z.eqb_spec (ea e) u); destruct Hte; subst; lia.
  Qed.

  Lemma u0_ne_v1 e1 : In e1 a1 -> u0 <> other v0 e1.
  Proof.
    intros H E. destruct (a1_facts e1 H) as [He [Tv Em]].
    apply (sf_u0 _ _ _ _ _ _ _ SF e1 He); [|exact Em]. rewrite E. eapply other_touches; eauto.
  Qed.
  Lemma v0_ne_u1 e0 : In e0 a0 -> v0 <> other u0 e0.
  Proof.
    intros H E. destruct (a0_facts e0 H) as [He [Tu Em]].
    apply (sf_v0 _ _ _ _ _ _ _ SF e0 He); [|exact Em]. rewrite E. eapply other_touches; eauto.
  Qed.
  Lemma u0_ne_v0 : u0 <> v0.
  Proof.
    intros E. destruct (nonempty_in a0 (sf_ne _ _ _ _ _ _ _ SF)) as [f0 Hf0].
    destruct (a0_facts f0 Hf0) as [He [Tu Em]].
    apply (sf_v0 _ _ _ _ _ _ _ SF f0 He); [rewrite <- E; exact Tu|exact Em].
  Qed.

  (* the keys of the proposals of one pair *)
  Lemma pp_keys p : map key (pp fixed u0 v0 p) = [norm u0 (other v0 (snd p)); norm v0 (other u0 (fst p))].
  Proof. unfold pp. destruct fixed; cbn [map]; rewrite !key_mk_edge; reflexivity. Qed.

  Lemma props_keys : map key swap_props =
    flat_map (fun p => [norm u0 (other v0 (snd p)); norm v0 (other u0 (fst p))]) prs.
  Proof.
    unfold swap_props. clear Hf Hs Ht. induction prs as [|p r IH]; [reflexivity|]. cbn [flat_map]. rewrite map_app, pp_keys, IH. reflexivity.
  Qed.

  Lemma props_key_in k : In k (map key swap_props) ->
    (exists e1, In e1 a1 /\ k = norm u0 (other v0 e1)) \/ (exists e0, In e0 a0 /\ k = norm v0 (other u0 e0)).
  Proof.
    rewrite props_keys. intros H. apply in_flat_map in H. destruct H as [p [Hp Hk]].
    destruct (prs_in p Hp) as [H0 H1]. destruct Hk as [<-|[<-|[]]]; [left|right]; eauto.
  Qed.

  Lemma props_new p : In p swap_props -> ~ In (key p) (map key es).
  Proof.
    intros Hp. assert (Hk : In (key p) (map key swap_props)) by (apply in_map; exact Hp).
    apply props_key_in in Hk. destruct Hk as [[e1 [H1 ->]]|[e0 [H0 ->]]].
    - apply has_edge_false. apply (sf_new1 _ _ _ _ _ _ _ SF). exact H1.
    - apply has_edge_false. apply (sf_new0 _ _ _ _ _ _ _ SF). exact H0.
  Qed.

  Lemma props_wf p : In p swap_props -> 0 <= ea p /\ ea p < eb p /\ eb p < N.
  Proof.
    intros Hp. unfold swap_props in Hp. apply in_flat_map in Hp. destruct Hp as [q [Hq Hp]].
    destruct (prs_in q Hq) as [H0 H1].
    destruct (a0_facts _ H0) as [He0 [T0 _]]. destruct (a1_facts _ H1) as [He1 [T1 _]].
    pose proof (other_range u0 _ He0 T0) as R0. pose proof (other_range v0 _ He1 T1) as R1.
    pose proof (u0_ne_v1 _ H1) as Nu. pose proof (v0_ne_u1 _ H0) as Nv.
    assert (X : forall a b t m, 0 <= a < N -> 0 <= b < N -> a <> b ->
                0 <= ea (mk_edge a b t m) /\ ea (mk_edge a b t m) < eb (mk_edge a b t m) /\ eb (mk_edge a b t m) < N).
    { intros a b t m Ra Rb Hab. unfold mk_edge, norm. cbn. destruct (Z.leb_spec a b); cbn; lia. }
    unfold pp in Hp. destruct fixed; destruct Hp as [<-|[<-|[]]]; apply X; tauto.
  Qed.

  Lemma snd_nodup : NoDup (map snd prs).
  Proof.
    eapply Permutation_NoDup; [exact Hs|]. pose proof a_nodup as H. apply nodup_app_r in H. exact H.
  Qed.
  Lemma fst_nodup : NoDup (map fst prs).
  Proof. rewrite Hf. pose proof a_nodup as H. apply nodup_app_l in H. exact H. Qed.

  Lemma props_nodup : NoDup (map key swap_props).
  Proof.
    rewrite props_keys. pose proof snd_nodup as Hsn. pose proof fst_nodup as Hfn.
    assert (Hsub : forall p, In p prs -> In (fst p) a0 /\ In (snd p) a1) by apply prs_in.
    clear Hf Hs Ht. induction prs as [|p r IH]; [constructor|].
    cbn [flat_map map app] in *. inversion Hsn as [|? ? Hs1 Hs2]; subst. inversion Hfn as [|? ? Hf1 Hf2]; subst.
    assert (IH' := IH Hs2 Hf2 (fun q Hq => Hsub q (or_intror Hq))). clear IH.
    destruct (Hsub p (or_introl eq_refl)) as [Hp0 Hp1].
    assert (Hrest : forall k, In k (flat_map (fun p => [norm u0 (other v0 (snd p)); norm v0 (other u0 (fst p))]) r) ->
              exists q, In q r /\ (k = norm u0 (other v0 (snd q)) \/ k = norm v0 (other u0 (fst q)))).
    { intros k Hk. apply in_flat_map in Hk. destruct Hk as [q [Hq Hk]]. exists q. split; [exact Hq|].
      destruct Hk as [<-|[<-|[]]]; auto. }
    (* helper: equal keys force equal corner edges *)
    assert (K1 : forall e e', In e a1 -> In e' a1 -> norm u0 (other v0 e) = norm u0 (other v0 e') -> e = e').
    { intros e e' He He' E. apply norm_inj_l in E.
      destruct (a1_facts e He) as [A [B _]]. destruct (a1_facts e' He') as [A' [B' _]]. eapply other_inj; eauto. }
    assert (K0 : forall e e', In e a0 -> In e' a0 -> norm v0 (other u0 e) = norm v0 (other u0 e') -> e = e').
    { intros e e' He He' E. apply norm_inj_l in E.
      destruct (a0_facts e He) as [A [B _]]. destruct (a0_facts e' He') as [A' [B' _]]. eapply other_inj; eauto. }
    assert (K01 : forall e1 e0, In e1 a1 -> In e0 a0 -> norm u0 (other v0 e1) <> norm v0 (other u0 e0)).
    { intros e1 e0 H1 H0 E. apply norm_eq_cases in E. destruct E as [[E _]|[E _]].
      - exact (u0_ne_v0 E).
      - destruct (a0_facts e0 H0) as [A [B _]]. destruct (key_other N es u0 e0 HW A B) as [_ X]. congruence. }
    constructor.
    - cbn [In]. intros [E|Hin].
      + apply (K01 _ _ Hp1 Hp0). symmetry. exact E.
      + apply Hrest in Hin. destruct Hin as [q [Hq [E|E]]].
        * destruct (Hsub q (or_intror Hq)) as [_ Hq1]. apply K1 in E; auto. apply Hs1. rewrite E. apply in_map. exact Hq.
        * destruct (Hsub q (or_intror Hq)) as [Hq0 _]. exact (K01 _ _ Hp1 Hq0 E).
    - constructor; [|exact IH'].
      intros Hin. apply Hrest in Hin. destruct Hin as [q [Hq [E|E]]].
      + destruct (Hsub q (or_intror Hq)) as [_ Hq1]. apply (K01 _ _ Hq1 Hp0). symmetry. exact E.
      + destruct (Hsub q (or_intror Hq)) as [Hq0 _]. apply K0 in E; auto. apply Hf1. rewrite E. apply in_map. exact Hq.
  Qed.

  (* the multisets of stubs and labels of the proposals equal those of the removed corners *)
  Lemma props_stubs : Permutation (stubs swap_props) (stubs (a0 ++ a1)).
  Proof.
    eapply Permutation_trans.
    2:{ apply stubs_perm. eapply Permutation_trans; [apply pairs_flat_perm|].
        rewrite Hf. apply Permutation_app; [apply Permutation_refl|apply Permutation_sym; exact Hs]. }
    unfold swap_props. pose proof prs_in as Hsub. clear Hf Hs. induction prs as [|p r IH]; [constructor|].
    cbn [flat_map]. rewrite stubs_app.
    change (stubs (fst p :: snd p :: flat_map (fun p => [fst p; snd p]) r))
      with (stubs ([fst p; snd p] ++ flat_map (fun p => [fst p; snd p]) r)).
    rewrite stubs_app. apply Permutation_app.
    - destruct (Hsub p (or_introl eq_refl)) as [H0 H1].
      destruct (a0_facts _ H0) as [A0 [B0 _]]. destruct (a1_facts _ H1) as [A1 [B1 _]].
      destruct p as [e0 e1]. eapply stubs_pp; eauto. apply (Ht (e0, e1)). left; reflexivity.
    - apply IH; [intros q Hq; apply Ht; right; exact Hq|intros q Hq; apply Hsub; right; exact Hq].
  Qed.

  Lemma props_labels : Permutation (labels swap_props) (labels (a0 ++ a1)).
  Proof.
    eapply Permutation_trans.
    2:{ apply labels_perm. eapply Permutation_trans; [apply pairs_flat_perm|].
        rewrite Hf. apply Permutation_app; [apply Permutation_refl|apply Permutation_sym; exact Hs]. }
    unfold swap_props. clear Hf Hs Ht. induction prs as [|p r IH]; [constructor|].
    cbn [flat_map]. rewrite labels_app.
    change (labels (fst p :: snd p :: flat_map (fun p => [fst p; snd p]) r))
      with (labels ([fst p; snd p] ++ flat_map (fun p => [fst p; snd p]) r)).
    rewrite labels_app. apply Permutation_app; [destruct p; apply labels_pp|exact IH].
  Qed.

  Lemma props_length : length swap_props = length (a0 ++ a1).
  Proof.
    pose proof (Permutation_length props_labels) as H. unfold labels in H. rewrite !map_length in H. exact H.
  Qed.

  (* the resulting graph *)
  Definition swap_es' : list edge := swap_rest ++ swap_props.

  Lemma swap_wf : WF N swap_es'.
  Proof.
    split.
    - intros e He. unfold swap_es' in He. apply in_app_iff in He. destruct He as [He|He].
      + apply filter_In in He. apply range_of. tauto.
      + apply props_wf. exact He.
    - unfold swap_es'. rewrite map_app. apply nodup_app.
      + apply nodup_filter_map. destruct HW as [_ Hn]. exact Hn.
      + exact props_nodup.
      + intros k Hk Hk2. apply in_map_iff in Hk2. destruct Hk2 as [p [<- Hp]]. apply (props_new p Hp).
        apply in_map_iff in Hk. destruct Hk as [e [E He]]. apply filter_In in He. apply in_map_iff. exists e. tauto.
  Qed.

  Lemma swap_counts (f : list edge -> list (Z * nat)) :
    (forall l1 l2, f (l1 ++ l2) = f l1 ++ f l2) -> (forall l1 l2, Permutation l1 l2 -> Permutation (f l1) (f l2)) ->
    Permutation (f swap_props) (f (a0 ++ a1)) -> forall s, count_stub s (f swap_es') = count_stub s (f es).
  Proof.
    intros Happ Hperm Hpr s. unfold swap_es'.
    rewrite (count_stub_perm s _ _ (Hperm _ _ es_split)). rewrite app_assoc, !Happ, !count_stub_app.
    rewrite (count_stub_perm s _ _ Hpr). rewrite Happ, count_stub_app. lia.
  Qed.

  Theorem swap_hard nodes : Z.of_nat (length nodes) = N -> Hard nodes es nodes swap_es'.
  Proof.
    intros HN. split; [reflexivity|]. split; [rewrite HN; exact swap_wf|]. split.
    - unfold swap_es'. rewrite app_length, props_length. rewrite (Permutation_length es_split).
      rewrite !app_length. lia.
    - split.
      + intros v t. unfold tdeg. apply (swap_counts stubs stubs_app stubs_perm props_stubs).
      + intros m t. unfold class_count. apply (swap_counts labels labels_app labels_perm props_labels).
  Qed.
End Swap.

Lemma Hard_refl nodes es : WF (Z.of_nat (length nodes)) es -> Hard nodes es nodes es.
Proof. intros H. split; [reflexivity|]. split; [exact H|]. split; [reflexivity|]. split; intros; reflexivity. Qed.

Lemma Hard_trans n0 e0 n1 e1 n2 e2 : Hard n0 e0 n1 e1 -> Hard n1 e1 n2 e2 -> Hard n0 e0 n2 e2.
Proof.
  intros [A1 [B1 [C1 [D1 E1]]]] [A2 [B2 [C2 [D2 E2]]]]. split; [congruence|]. split; [exact B2|].
  split; [congruence|]. split; intros; [rewrite D2; apply D1|rewrite E2; apply E1].
Qed.

(* ================================================================== the concrete apply step *)
Lemma is_oldb_iff es u0 v0 m0 m1 a0 a1 e :
  Permutation a0 (corner_edges es u0 m0) -> Permutation a1 (corner_edges es v0 m1) -> In e es ->
  (is_oldb u0 v0 m0 m1 e = true <-> In e (a0 ++ a1)).
Proof.
  intros G0 G1 He. unfold is_oldb. rewrite orb_true_iff, !andb_true_iff, !Z.eqb_eq, in_app_iff.
  split; intros [H|H].
  - left. eapply Permutation_in; [apply Permutation_sym; exact G0|]. apply corner_edges_In. tauto.
  - right. eapply Permutation_in; [apply Permutation_sym; exact G1|]. apply corner_edges_In. tauto.
  - left. apply (Permutation_in _ G0) in H. apply corner_edges_In in H. tauto.
  - right. apply (Permutation_in _ G1) in H. apply corner_edges_In in H. tauto.
Qed.

Theorem apply_swap_ok N es u0 v0 m0 m1 a0 a1 fixed prs d :
  WF N es ->
  Permutation a0 (corner_edges es u0 m0) -> Permutation a1 (corner_edges es v0 m1) ->
  SuitFacts es u0 v0 m0 m1 a0 a1 ->
  map fst prs = a0 -> Permutation a1 (map snd prs) -> (forall p, In p prs -> et (snd p) = et (fst p)) ->
  Mirror N es d ->
  exists d', apply_swap N (length es) es d u0 v0 (map (other u0) a0) (map (other v0) a1)
                        (swap_props u0 v0 fixed prs)
             = Ok (swap_es' es u0 v0 m0 m1 fixed prs, d')
             /\ Mirror N (swap_es' es u0 v0 m0 m1 fixed prs) d'.
Proof.
  intros HW G0 G1 SF Hf Hs Ht [HI Hm].
  set (P := swap_props u0 v0 fixed prs).
  assert (Pwf : forall p, In p P -> 0 <= ea p /\ ea p < eb p /\ eb p < N)
    by (intros p Hp; eapply (props_wf N es u0 v0 m0 m1 a0 a1); eauto).
  assert (Pnew : forall p, In p P -> ~ In (key p) (map key es))
    by (intros p Hp; eapply (props_new es u0 v0 m0 m1 a0 a1); eauto).
  assert (Pnd : NoDup (map key P)) by (eapply (props_nodup N es u0 v0 m0 m1 a0 a1); eauto).
  assert (And : NoDup (a0 ++ a1)) by (eapply (a_nodup N es u0 v0 m0 m1); eauto).
  pose proof (sf_len _ _ _ _ _ _ _ SF) as Hlen.
  unfold apply_swap.
  rewrite (add_props_ok N P es d); [|intros p Hp; apply Pwf in Hp; lia|exact Pnew|exact Pnd].
  destruct (fold_add_spec N P d HI) as [HI1 Hm1].
  set (d1 := fold_left (fun d p => ds_add d (enc N p)) P d) in *.
  assert (HzL : forall e, In e (zipL a0 a1) <-> In e (a0 ++ a1)).
  { intros e. split; apply Permutation_in; [|apply Permutation_sym]; apply zipL_perm; exact Hlen. }
  assert (Hsub : forall e, In e (a0 ++ a1) -> In e es).
  { intros e He. apply in_app_iff in He. destruct He as [He|He].
    - apply (Permutation_in _ G0) in He. apply corner_edges_In in He. tauto.
    - apply (Permutation_in _ G1) in He. apply corner_edges_In in He. tauto. }
  assert (Hrange : forall e, In e (es ++ P) -> 0 <= ea e /\ ea e < eb e /\ eb e < N).
  { intros e He. apply in_app_iff in He. destruct He as [He|He]; [destruct HW as [Hr _]; apply Hr; exact He|apply Pwf; exact He]. }
  assert (Hinj : forall e e', In e (es ++ P) -> In e' (es ++ P) -> enc N e = enc N e' -> key e = key e').
  { intros e e' He He' E. apply Hrange in He, He'. apply (enc_inj N); tauto. }
  assert (Hndk : NoDup (map key (es ++ P))).
  { rewrite map_app. apply nodup_app; [destruct HW; assumption|exact Pnd|].
    intros k Hk Hk2. apply in_map_iff in Hk2. destruct Hk2 as [p [<- Hp]]. exact (Pnew p Hp Hk). }
  destruct (remove_olds_ok N u0 v0 a0 a1 (es ++ P) d1) as [g [d' [Hr [Hg [HId Hmd]]]]].
  - exact Hlen.
  - exact Hndk.
  - exact Hinj.
  - eapply Permutation_NoDup; [apply Permutation_sym; apply zipL_perm; exact Hlen|exact And].
  - intros e He. apply in_app_iff. left. apply Hsub. apply HzL. exact He.
  - intros e He. assert (X : In e (a0 ++ a1)) by (apply in_app_iff; left; exact He).
    apply (Permutation_in _ G0) in He. apply corner_edges_In in He. destruct He as [A [B _]].
    apply (key_other N es u0 e HW A B).
  - intros e He. apply (Permutation_in _ G1) in He. apply corner_edges_In in He. destruct He as [A [B _]].
    apply (key_other N es v0 e HW A B).
  - exact HI1.
  - intros e He. apply Hm1. left. apply Hm. apply in_map. apply Hsub. apply HzL. exact He.
  - rewrite Hr.
    assert (Hes' : filter g (es ++ P) = swap_es' es u0 v0 m0 m1 fixed prs).
    { rewrite filter_app. unfold swap_es', swap_rest. f_equal.
      - apply filter_ext_in. intros e He.
        destruct (g e) eqn:Eg; destruct (is_oldb u0 v0 m0 m1 e) eqn:Eo; cbn; try reflexivity; exfalso.
        + apply (Hg e) in Eg; [|apply in_app_iff; left; exact He]. apply Eg. apply HzL.
          apply (is_oldb_iff es u0 v0 m0 m1 a0 a1 e G0 G1 He). exact Eo.
        + assert (X : g e = true).
          { apply Hg; [apply in_app_iff; left; exact He|]. intros X. apply HzL in X.
            apply (is_oldb_iff es u0 v0 m0 m1 a0 a1 e G0 G1 He) in X. congruence. }
          congruence.
      - fold P. assert (X : forall p, In p P -> g p = true).
        { intros p Hp. apply Hg; [apply in_app_iff; right; exact Hp|]. intros X. apply HzL, Hsub in X.
          apply (Pnew p Hp). apply in_map. exact X. }
        clear -X. induction P as [|p r IH]; [reflexivity|]. cbn. rewrite (X p (or_introl eq_refl)). f_equal.
        apply IH. intros q Hq. apply X. right. exact Hq. }
    rewrite Hes'.
    assert (Hl : length (swap_es' es u0 v0 m0 m1 fixed prs) = length es).
    { unfold swap_es'. rewrite app_length.
      assert (X1 : length (swap_props u0 v0 fixed prs) = length (a0 ++ a1)) by (eapply props_length; eauto).
      assert (X2 : Permutation es (a0 ++ a1 ++ swap_rest es u0 v0 m0 m1)) by (eapply es_split; eauto).
      rewrite X1. rewrite (Permutation_length X2). rewrite !app_length. lia. }
    rewrite Hl, Nat.eqb_refl. exists d'. split; [reflexivity|]. split; [exact HId|].
    intros k. rewrite Hmd, Hm1, Hm. unfold swap_es'. rewrite map_app, in_app_iff. fold P. split.
    + intros [[Hk|Hk] Hn]; [|right; exact Hk]. left. apply in_map_iff in Hk. destruct Hk as [e [<- He]].
      apply in_map. apply filter_In. split; [exact He|]. rewrite negb_true_iff.
      destruct (is_oldb u0 v0 m0 m1 e) eqn:Eo; [|reflexivity]. exfalso. apply Hn. apply in_map. apply HzL.
      apply (is_oldb_iff es u0 v0 m0 m1 a0 a1 e G0 G1 He). exact Eo.
    + intros [Hk|Hk].
      * apply in_map_iff in Hk. destruct Hk as [e [<- He]]. apply filter_In in He. destruct He as [He Ho].
        split; [left; apply in_map; exact He|]. intros Hin. apply in_map_iff in Hin. destruct Hin as [e' [E He']].
        apply HzL in He'. pose proof (Hsub _ He') as He'es.
        assert (e' = e).
        { apply (nodup_map_inj key es); [destruct HW; assumption|exact He'es|exact He|].
          apply Hinj; [apply in_app_iff; left; exact He'es|apply in_app_iff; left; exact He|exact E]. }
        subst e'. apply (is_oldb_iff es u0 v0 m0 m1 a0 a1 e G0 G1 He) in He'. rewrite He' in Ho. discriminate.
      * split; [right; exact Hk|]. intros Hin. apply in_map_iff in Hk. destruct Hk as [p [<- Hp]].
        apply in_map_iff in Hin. destruct Hin as [e' [E He']]. apply HzL, Hsub in He'.
        apply (Pnew p Hp). assert (key e' = key p) by (apply Hinj; [apply in_app_iff; left; auto|apply in_app_iff; right; auto|exact E]).
        rewrite <- H. apply in_map. exact He'.
Qed.

(* ================================================================== the run: invariants of the state machine *)
Definition StInv (C : cfg) (es0 : list edge) (s : st) : Prop :=
  Hard (c_nodes C) es0 (c_nodes C) (s_es s) /\ Mirror (c_M C) (s_es s) (s_ds s).

Definition PhInv (C : cfg) (s : st) (ph : phase) : Prop :=
  match ph with
  | PhOuter => True
  | PhCorner0 e0 => In e0 (s_es s)
  | PhInner e0 c0 sc => In e0 (s_es s) /\ permb c0 (corner (s_es s) (ea e0) (em e0)) = true
  | PhCorner1 e0 c0 sc e1 =>
      In e0 (s_es s) /\ permb c0 (corner (s_es s) (ea e0) (em e0)) = true /\ In e1 (s_es s)
  | PhRandom u0 v0 c0 c1 props top bot =>
      exists m0 m1 a0 a1 prs,
        Permutation a0 (corner_edges (s_es s) u0 m0) /\ Permutation a1 (corner_edges (s_es s) v0 m1) /\
        c0 = map (other u0) a0 /\ c1 = map (other v0) a1 /\
        SuitFacts (s_es s) u0 v0 m0 m1 a0 a1 /\ map fst prs = a0 /\ Permutation a1 (map snd prs) /\
        (forall p, In p prs -> et (snd p) = et (fst p)) /\ props = swap_props u0 v0 (c_fixed C) prs
  end.

Definition NextInv (C : cfg) (es0 : list edge) (n : next) : Prop :=
  match n with
  | Go ph' s' _ => StInv C es0 s' /\ PhInv C s' ph'
  | Halt _ s' _ => StInv C es0 s'
  end.

Lemma enter_outer_inv C es0 s acc : StInv C es0 s -> NextInv C es0 (enter_outer C s acc).
Proof.
  intros H. unfold enter_outer. destruct (Nat.leb (s_cc s) (c_climit C)); [|exact H].
  destruct (edges (s_ds s)); cbn; [exact H|split; [exact H|exact Logic.I]].
Qed.

Lemma enter_inner_inv C es0 s e0 c0 sc :
  StInv C es0 s -> In e0 (s_es s) -> permb c0 (corner (s_es s) (ea e0) (em e0)) = true ->
  NextInv C es0 (enter_inner C s e0 c0 sc).
Proof.
  intros H H0 Hp. unfold enter_inner. destruct (Nat.leb sc (c_slimit C)).
  - cbn. split; [exact H|split; assumption].
  - apply enter_outer_inv. exact H.
Qed.

Lemma draw_edge_in C s i e : draw_edge C s i = Ok e -> In e (s_es s).
Proof.
  unfold draw_edge. destruct (ds_draw (s_ds s) i); [|discriminate].
  unfold find_key. destruct (find _ (s_es s)) eqn:F; [|discriminate]. intros [= <-].
  apply find_some in F. tauto.
Qed.

Lemma swap_pre_pairs fixed nodes tg u0 v0 a0 a1 props top bot :
  length a0 = length a1 -> swap_pre fixed nodes tg u0 v0 a0 a1 = PNeed props top bot ->
  exists prs, map fst prs = a0 /\ Permutation a1 (map snd prs) /\
              (forall p, In p prs -> et (snd p) = et (fst p)) /\ props = swap_props u0 v0 fixed prs.
Proof.
  intros Hlen. unfold swap_pre. destruct (num_loop fixed nodes tg u0 v0 a1 a0 (rev a1) [] (1 # 1)) as [|c|pr tp] eqn:E;
    try discriminate.
  destruct (den_loop nodes tg u0 v0 a0 a1 (1 # 1)); try discriminate.
  destruct (Qeq_bool bot0 (0 # 1)); [discriminate|]. intros [= -> -> ->].
  apply num_loop_ok in E. destruct E as [prs [rem' [Hf [Hp [Ht Hprops]]]]].
  exists prs. split; [exact Hf|]. split; [|split; [exact Ht|exact Hprops]].
  assert (Hl : length rem' = O).
  { apply Permutation_length in Hp. rewrite rev_length, app_length, map_length in Hp.
    assert (length prs = length a0) by (rewrite <- Hf, map_length; reflexivity). lia. }
  destruct rem'; [|discriminate]. rewrite app_nil_r in Hp.
  eapply Permutation_trans; [apply Permutation_rev|exact Hp].
Qed.

Lemma step_inv C es0 ph s e :
  c_nE C = length es0 -> StInv C es0 s -> PhInv C s ph -> NextInv C es0 (step C ph s e).
Proof.
  intros HnE HS HP. pose proof HS as [HH HM]. pose proof HH as [_ [HW [Hlen _]]].
  destruct ph as [|e0|e0 c0 sc|e0 c0 sc e1|u0 v0 c0 c1 props top bot]; destruct e as [i|c|r]; cbn [step];
    try exact HS.
  - (* outer draw *)
    destruct (draw_edge C s i) as [e0|cc] eqn:D; [|exact HS]. cbn. split; [exact HS|]. eapply draw_edge_in; eauto.
  - (* corner of u0 *)
    cbn in HP. destruct (permb c (corner (s_es s) (ea e0) (em e0))) eqn:Pm; [|exact HS].
    apply enter_inner_inv; assumption.
  - (* inner draw *)
    destruct HP as [H0 Hp0]. destruct (draw_edge C s i) as [e1|cc] eqn:D; [|exact HS].
    apply draw_edge_in in D. destruct (Nat.eqb (et e1) (et e0)); cbn; (split; [exact HS|]); auto.
  - (* corner of v0, suitability, swap condition *)
    destruct HP as [H0 [Hp0 H1]].
    destruct (permb c (corner (s_es s) (ea e1) (em e1))) eqn:Pm; [|exact HS].
    destruct (genuine_of_permb _ _ _ _ _ HW Hp0) as [a0 [A0 [G0 Hc0]]].
    destruct (genuine_of_permb _ _ _ _ _ HW Pm) as [a1 [A1 [G1 Hc1]]].
    rewrite A0, A1.
    destruct (suitable (s_es s) (ea e0) (ea e1) a0 a1) eqn:Su.
    + destruct (Nat.leb (c_slimit C) sc); [apply enter_outer_inv; exact HS|].
      destruct (swap_pre (c_fixed C) (c_nodes C) (c_target C) (ea e0) (ea e1) a0 a1) as [|cc|props top bot] eqn:Sp.
      * apply enter_outer_inv; exact HS.
      * exact HS.
      * cbn. split; [exact HS|].
        assert (SF : SuitFacts (s_es s) (ea e0) (ea e1) (em e0) (em e1) a0 a1).
        { apply suitable_facts; [| |exact Su].
          - intros x Hx. apply (Permutation_in _ G0) in Hx. apply corner_edges_In in Hx. tauto.
          - intros x Hx. apply (Permutation_in _ G1) in Hx. apply corner_edges_In in Hx. tauto. }
        destruct (swap_pre_pairs _ _ _ _ _ _ _ _ _ _ (sf_len _ _ _ _ _ _ _ SF) Sp) as [prs [Hf [Hs [Ht Hprops]]]].
        exists (em e0), (em e1), a0, a1, prs.
        split; [exact G0|]. split; [exact G1|]. split; [exact Hc0|]. split; [exact Hc1|]. split; [exact SF|].
        split; [exact Hf|]. split; [exact Hs|]. split; [exact Ht|exact Hprops].
    + apply enter_inner_inv; assumption.
  - (* Metropolis draw *)
    destruct HP as [m0 [m1 [a0 [a1 [prs [G0 [G1 [Hc0 [Hc1 [SF [Hf [Hs [Ht Hprops]]]]]]]]]]]]].
    destruct (accepts top bot r); [|apply enter_outer_inv; exact HS].
    destruct (apply_swap_ok (c_M C) (s_es s) u0 v0 m0 m1 a0 a1 (c_fixed C) prs (s_ds s) HW G0 G1 SF Hf Hs Ht HM)
      as [d' [Hap HM']].
    rewrite HnE, <- Hlen, Hc0, Hc1, Hprops, Hap.
    apply enter_outer_inv. split; [|exact HM']. cbn [s_es].
    eapply Hard_trans; [exact HH|]. eapply swap_hard; eauto.
Qed.

(* every state of the run satisfies the invariant *)
Theorem run_inv C es0 : c_nE C = length es0 -> forall evs ph s,
  StInv C es0 s -> PhInv C s ph ->
  let '(r, sf, tr) := run C evs ph s in StInv C es0 sf /\ Forall (StInv C es0) tr.
Proof.
  intros HnE. induction evs as [|e evs IH]; intros ph s HS HP; cbn [run].
  - split; [exact HS|constructor].
  - pose proof (step_inv C es0 ph s e HnE HS HP) as Hn.
    destruct (step C ph s e) as [ph' s' acc|r s' acc]; cbn in Hn.
    + destruct Hn as [HS' HP']. specialize (IH ph' s' HS' HP').
      destruct (run C evs ph' s') as [[r sf] tr]. destruct IH as [I1 I2]. split; [exact I1|].
      destruct acc; [constructor; assumption|exact I2].
    + split; [exact Hn|]. destruct acc; [constructor; [exact Hn|constructor]|constructor].
Qed.

Theorem rewire_inv fixed nodes tg es0 sl cl evs :
  WF (Z.of_nat (length nodes)) es0 ->
  let C := mk_cfg fixed nodes tg es0 sl cl in
  let '(r, sf, tr) := rewire C es0 evs in StInv C es0 sf /\ Forall (StInv C es0) tr.
Proof.
  intros HW C. unfold rewire.
  assert (HS0 : StInv C es0 (mkS es0 (init_ds (c_M C) es0) 0)).
  { split; [apply Hard_refl; exact HW|apply init_ds_mirror]. }
  pose proof (enter_outer_inv C es0 _ false HS0) as Hn.
  destruct (enter_outer C _ false) as [ph s acc|r s acc]; cbn in Hn.
  - destruct Hn as [HS HP]. apply (run_inv C es0 eq_refl evs ph s HS HP).
  - split; [exact Hn|constructor].
Qed.

(* ================================================================== C12: only allowed pairings are created *)
Definition NonNeg (tg : target) : Prop := forall t k q, tlookup tg t k = Some q -> (0 <= q)%Q.

Lemma qpos_of_nonzero q : (0 <= q)%Q -> ~ (q == 0)%Q -> qpos q = true.
Proof.
  intros H0 Hn. unfold qpos. apply negb_true_iff. destruct (Qle_bool q (0 # 1)) eqn:E; [|reflexivity].
  apply Qle_bool_iff in E. exfalso. apply Hn. apply Qle_antisym; assumption.
Qed.

Lemma allowed_mk nodes tg a b t m ka kb x :
  exk nodes t a = Some ka -> exk nodes t b = Some kb -> tlookup tg t (ka ++ kb) = Some x -> qpos x = true ->
  allowed nodes tg (mk_edge a b t m) = true.
Proof.
  intros Ha Hb Hx Hp. unfold allowed, mk_edge. cbn [ea eb et].
  destruct (norm_cases a b) as [-> | ->]; cbn [fst snd]; rewrite Ha, Hb, Hx; cbn [qpos_opt]; rewrite Hp.
  - reflexivity.
  - apply orb_true_r.
Qed.

Lemma num_loop_allowed fixed nodes tg u0 v0 all1 : NonNeg tg -> forall a0 rem props top props' top',
  num_loop fixed nodes tg u0 v0 all1 a0 rem props top = NumOk props' top' ->
  (forall p, In p props -> allowed nodes tg p = true) -> forall p, In p props' -> allowed nodes tg p = true.
Proof.
  intros HN. induction a0 as [|e0 a0 IH]; intros rem props top props' top' H Hall; cbn in H.
  - injection H as <- <-. exact Hall.
  - destruct (pop_topo (et e0) rem) as [[e1 rem1]|] eqn:P; [|discriminate].
    destruct (pop_topo_spec _ _ _ _ P) as [Et _].
    destruct (exk nodes (et e0) u0) as [ku0|] eqn:X1; [|discriminate].
    destruct (exk nodes (et e0) (other u0 e0)) as [ku1|] eqn:X2; [|discriminate].
    destruct (exk nodes (et e0) v0) as [kv0|] eqn:X3; [|discriminate].
    destruct (exk nodes (et e0) (other v0 e1)) as [kv1|] eqn:X4; [|discriminate].
    match type of H with (if ?c then _ else _) = _ => destruct c; [discriminate|] end.
    destruct (tlookup tg (et e0) (ku0 ++ kv1)) as [x|] eqn:L1; [|discriminate].
    destruct (tlookup tg (et e0) (kv0 ++ ku1)) as [y|] eqn:L2; [|discriminate].
    destruct (Qeq_bool (top * (x * y)) (0 # 1)) eqn:Z; [discriminate|].
    assert (Hnz : ~ (top * (x * y) == 0)%Q) by (intros E; apply Qeq_bool_iff in E; congruence).
    assert (Hx : qpos x = true).
    { apply qpos_of_nonzero; [eapply HN; eauto|]. intros E. apply Hnz. rewrite E. ring. }
    assert (Hy : qpos y = true).
    { apply qpos_of_nonzero; [eapply HN; eauto|]. intros E. apply Hnz. rewrite E. ring. }
    eapply IH; [exact H|]. intros p Hp. apply in_app_iff in Hp. destruct Hp as [Hp|Hp]; [apply Hall; exact Hp|].
    destruct fixed; destruct Hp as [<-|[<-|[]]].
    + rewrite Et. eapply allowed_mk; eauto.
    + eapply allowed_mk; eauto.
    + eapply allowed_mk; eauto.
    + rewrite Et. eapply allowed_mk; eauto.
Qed.

Theorem swap_pre_allowed fixed nodes tg u0 v0 a0 a1 props top bot :
  NonNeg tg -> swap_pre fixed nodes tg u0 v0 a0 a1 = PNeed props top bot ->
  forall p, In p props -> allowed nodes tg p = true.
Proof.
  intros HN. unfold swap_pre.
  destruct (num_loop fixed nodes tg u0 v0 a1 a0 (rev a1) [] (1 # 1)) as [|c|pr tp] eqn:E; try discriminate.
  destruct (den_loop nodes tg u0 v0 a0 a1 (1 # 1)); try discriminate.
  destruct (Qeq_bool bot0 (0 # 1)); [discriminate|]. intros [= -> -> ->].
  eapply num_loop_allowed; [exact HN|exact E|intros p []].
Qed.

(* nothing but the proposals is created by a swap *)
Lemma created_swap N es u0 v0 m0 m1 fixed prs nodes tg :
  WF N es -> (forall p, In p (swap_props u0 v0 fixed prs) -> allowed nodes tg p = true) ->
  step_allowed nodes tg es (swap_es' es u0 v0 m0 m1 fixed prs) = true.
Proof.
  intros HW Hall. unfold step_allowed, created. apply forallb_forall. intros e He.
  apply filter_In in He. destruct He as [He Hn]. rewrite negb_true_iff in Hn.
  unfold swap_es' in He. apply in_app_iff in He. destruct He as [He|He]; [|apply Hall; exact He].
  exfalso. apply filter_In in He. destruct He as [He _].
  assert (X : has_edge es (ea e) (eb e) = true).
  { apply has_edge_iff. exists e. split; [exact He|]. destruct HW as [Hr _]. apply Hr in He.
    unfold key, norm. destruct (Z.leb_spec (ea e) (eb e)); [reflexivity|lia]. }
  congruence.
Qed.

Lemma step_allowed_refl nodes tg N es : WF N es -> step_allowed nodes tg es es = true.
Proof.
  intros [Hr _]. unfold step_allowed, created. apply forallb_forall. intros e He. apply filter_In in He.
  destruct He as [He Hn]. rewrite negb_true_iff in Hn. exfalso.
  assert (X : has_edge es (ea e) (eb e) = true).
  { apply has_edge_iff. exists e. split; [exact He|]. apply Hr in He.
    unfold key, norm. destruct (Z.leb_spec (ea e) (eb e)); [reflexivity|lia]. }
  congruence.
Qed.

(* refinement of the phase invariant: the pending proposals are allowed pairings *)
Definition PhAllowed (C : cfg) (ph : phase) : Prop :=
  match ph with
  | PhRandom _ _ _ _ props _ _ => forall p, In p props -> allowed (c_nodes C) (c_target C) p = true
  | _ => True
  end.

Definition next_state (n : next) : st * bool :=
  match n with Go _ s a => (s, a) | Halt _ s a => (s, a) end.
Definition next_phase_allowed (C : cfg) (n : next) : Prop :=
  match n with Go ph _ _ => PhAllowed C ph | Halt _ _ _ => True end.

Lemma enter_outer_state C s acc : next_state (enter_outer C s acc) = (s, acc) /\ next_phase_allowed C (enter_outer C s acc).
Proof.
  unfold enter_outer. destruct (Nat.leb (s_cc s) (c_climit C)); [|split; [reflexivity|exact Logic.I]].
  destruct (edges (s_ds s)); split; try reflexivity; exact Logic.I.
Qed.

Lemma enter_inner_state C s e0 c0 sc :
  next_state (enter_inner C s e0 c0 sc) = (s, false) /\ next_phase_allowed C (enter_inner C s e0 c0 sc).
Proof.
  unfold enter_inner. destruct (Nat.leb sc (c_slimit C)); [split; [reflexivity|exact Logic.I]|apply enter_outer_state].
Qed.

Lemma step_created C es0 ph s e :
  NonNeg (c_target C) -> c_nE C = length es0 -> StInv C es0 s -> PhInv C s ph -> PhAllowed C ph ->
  let '(s', acc) := next_state (step C ph s e) in
  next_phase_allowed C (step C ph s e) /\
  (if acc then step_allowed (c_nodes C) (c_target C) (s_es s) (s_es s') = true else s_es s' = s_es s).
Proof.
  intros HN HnE HS HP HA. pose proof HS as [HH HM]. pose proof HH as [_ [HW [Hlen _]]].
  destruct ph as [|e0|e0 c0 sc|e0 c0 sc e1|u0 v0 c0 c1 props top bot]; destruct e as [i|c|r]; cbn [step];
    try (cbn; split; [exact Logic.I|reflexivity]).
  - destruct (draw_edge C s i); cbn; split; try exact Logic.I; reflexivity.
  - destruct (permb c _); [|cbn; split; [exact Logic.I|reflexivity]].
    destruct (enter_inner_state C s e0 c 0) as [-> X]. split; [exact X|reflexivity].
  - destruct (draw_edge C s i) as [e1|]; [|cbn; split; [exact Logic.I|reflexivity]].
    destruct (Nat.eqb (et e1) (et e0)); cbn; split; try exact Logic.I; reflexivity.
  - destruct (permb c _); [|cbn; split; [exact Logic.I|reflexivity]].
    destruct (attrs (s_es s) (ea e0) c0) as [a0|]; [|cbn; split; [exact Logic.I|reflexivity]].
    destruct (attrs (s_es s) (ea e1) c) as [a1|]; [|cbn; split; [exact Logic.I|reflexivity]].
    destruct (suitable (s_es s) (ea e0) (ea e1) a0 a1).
    + destruct (Nat.leb (c_slimit C) sc).
      { destruct (enter_outer_state C s false) as [-> X]. split; [exact X|reflexivity]. }
      destruct (swap_pre (c_fixed C) (c_nodes C) (c_target C) (ea e0) (ea e1) a0 a1) as [|cc|props top bot] eqn:Sp.
      * destruct (enter_outer_state C s false) as [-> X]. split; [exact X|reflexivity].
      * cbn. split; [exact Logic.I|reflexivity].
      * cbn. split; [|reflexivity]. eapply swap_pre_allowed; eauto.
    + destruct (enter_inner_state C s e0 c0 (S sc)) as [-> X]. split; [exact X|reflexivity].
  - destruct HP as [m0 [m1 [a0 [a1 [prs [G0 [G1 [Hc0 [Hc1 [SF [Hf [Hs [Ht Hprops]]]]]]]]]]]]].
    destruct (accepts top bot r).
    2:{ destruct (enter_outer_state C s false) as [-> X]. split; [exact X|reflexivity]. }
    destruct (apply_swap_ok (c_M C) (s_es s) u0 v0 m0 m1 a0 a1 (c_fixed C) prs (s_ds s) HW G0 G1 SF Hf Hs Ht HM)
      as [d' [Hap HM']].
    rewrite HnE, <- Hlen, Hc0, Hc1, Hprops, Hap.
    destruct (enter_outer_state C (mkS (swap_es' (s_es s) u0 v0 m0 m1 (c_fixed C) prs) d' (S (s_cc s))) true) as [-> X].
    split; [exact X|]. cbn [s_es]. eapply created_swap; eauto. cbn in HA. rewrite <- Hprops. exact HA.
Qed.

(* along every run, consecutive accepted states only differ by allowed pairings *)
Theorem run_allowed C es0 : NonNeg (c_target C) -> c_nE C = length es0 -> forall evs ph s,
  StInv C es0 s -> PhInv C s ph -> PhAllowed C ph ->
  let '(r, sf, tr) := run C evs ph s in
  chain_allowed (c_nodes C) (c_target C) (s_es s) (map s_es tr) = true.
Proof.
  intros HN HnE. induction evs as [|e evs IH]; intros ph s HS HP HA; cbn [run].
  - reflexivity.
  - pose proof (step_inv C es0 ph s e HnE HS HP) as Hn.
    pose proof (step_created C es0 ph s e HN HnE HS HP HA) as Hc.
    destruct (step C ph s e) as [ph' s' acc|r s' acc]; cbn in Hn, Hc.
    + destruct Hn as [HS' HP']. destruct Hc as [HA' Hc]. specialize (IH ph' s' HS' HP' HA').
      destruct (run C evs ph' s') as [[r sf] tr]. destruct acc.
      * cbn [map chain_allowed]. rewrite Hc, IH. reflexivity.
      * rewrite Hc in IH. exact IH.
    + destruct Hc as [_ Hc]. destruct acc; cbn [map chain_allowed].
      * rewrite Hc. reflexivity.
      * reflexivity.
Qed.

Theorem rewire_allowed fixed nodes tg es0 sl cl evs :
  WF (Z.of_nat (length nodes)) es0 -> NonNeg tg ->
  let C := mk_cfg fixed nodes tg es0 sl cl in
  let '(r, sf, tr) := rewire C es0 evs in chain_allowed nodes tg es0 (map s_es tr) = true.
Proof.
  intros HW HN C. unfold rewire.
  assert (HS0 : StInv C es0 (mkS es0 (init_ds (c_M C) es0) 0)).
  { split; [apply Hard_refl; exact HW|apply init_ds_mirror]. }
  pose proof (enter_outer_inv C es0 _ false HS0) as Hn.
  destruct (enter_outer_state C (mkS es0 (init_ds (c_M C) es0) 0) false) as [Hst Hph].
  destruct (enter_outer C _ false) as [ph s acc|r s acc]; cbn in Hn, Hst, Hph.
  - destruct Hn as [HS HP]. injection Hst as -> ->.
    apply (run_allowed C es0 HN eq_refl evs ph _ HS HP Hph).
  - reflexivity.
Qed.

(* Prop-level reading of the C12 checker *)
Definition AllowedP (nodes : list (list Z)) (tg : target) (e : edge) : Prop :=
  exists ka kb x, exk nodes (et e) (ea e) = Some ka /\ exk nodes (et e) (eb e) = Some kb /\
    (tlookup tg (et e) (ka ++ kb) = Some x \/ tlookup tg (et e) (kb ++ ka) = Some x) /\ (0 < x)%Q.

Lemma qpos_spec q : qpos q = true <-> (0 < q)%Q.
Proof.
  unfold qpos. rewrite negb_true_iff. split.
  - intros H. apply Qnot_le_lt. intros X. apply Qle_bool_iff in X. congruence.
  - intros H. destruct (Qle_bool q (0 # 1)) eqn:E; [|reflexivity]. apply Qle_bool_iff in E.
    exfalso. apply (Qlt_not_le _ _ H). exact E.
Qed.

Lemma allowed_iff nodes tg e : allowed nodes tg e = true <-> AllowedP nodes tg e.
Proof.
  unfold allowed, AllowedP. split.
  - destruct (exk nodes (et e) (ea e)) as [ka|]; [|discriminate].
    destruct (exk nodes (et e) (eb e)) as [kb|]; [|discriminate].
    rewrite orb_true_iff. intros [H|H].
    + destruct (tlookup tg (et e) (ka ++ kb)) as [x|] eqn:L; [|discriminate]. cbn in H. apply qpos_spec in H.
      exists ka, kb, x. auto.
    + destruct (tlookup tg (et e) (kb ++ ka)) as [x|] eqn:L; [|discriminate]. cbn in H. apply qpos_spec in H.
      exists ka, kb, x. auto.
  - intros [ka [kb [x [-> [-> [[L|L] Hx]]]]]]; rewrite L; cbn; apply qpos_spec in Hx; rewrite Hx; [reflexivity|apply orb_true_r].
Qed.

Theorem step_allowed_iff nodes tg es es' :
  step_allowed nodes tg es es' = true <->
  forall e, In e es' -> has_edge es (ea e) (eb e) = false -> AllowedP nodes tg e.
Proof.
  unfold step_allowed, created. rewrite forallb_forall. split.
  - intros H e He Hn. apply allowed_iff. apply H. apply filter_In. rewrite Hn. auto.
  - intros H e He. apply filter_In in He. destruct He as [He Hn]. apply allowed_iff. apply H; [exact He|].
    apply negb_true_iff. exact Hn.
Qed.

(* ================================================================== the shape clause under the repaired id rule *)
Lemma verts_touch l x : In x (verts l) <-> exists e, In e l /\ touches x e = true.
Proof.
  unfold verts. rewrite dedup_In, in_flat_map. split.
  - intros [e [He Hx]]. exists e. split; [exact He|]. apply touches_iff. cbn in Hx. destruct Hx as [H|[H|[]]]; auto.
  - intros [e [He Hx]]. exists e. split; [exact He|]. apply touches_iff in Hx. cbn. tauto.
Qed.

Lemma motif_edges_In es m e : In e (motif_edges es m) <-> In e es /\ em e = m.
Proof. unfold motif_edges. rewrite filter_In, Z.eqb_eq. tauto. Qed.

Lemma touches_false u e : touches u e = false <-> ea e <> u /\ eb e <> u.
Proof. unfold touches. rewrite orb_false_iff, !Z.eqb_neq. tauto. Qed.

Section Side.
  Context (N : Z) (es es' : list edge) (f g mf : Z) (af : list edge).
  Hypothesis HW : WF N es.
  Hypothesis H1 : forall e, In e es -> em e = mf -> touches f e = true -> In e af.
  Hypothesis H2 : forall e, In e af -> In e es /\ touches f e = true /\ em e = mf.
  Hypothesis H3 : forall e, In e es -> touches g e = true -> em e <> mf.
  Hypothesis H4 : forall e, (In e es' /\ em e = mf) <->
      ((In e es /\ em e = mf /\ touches f e = false) \/ (exists e0, In e0 af /\ e = mk_edge g (other f e0) (et e0) mf)).

  Definition rho_side (x : Z) : Z := if x =? f then g else x.

  Lemma rename_untouched e : In e es -> touches f e = false -> rename_item rho_side e = item_of e.
  Proof.
    intros He Ht. apply touches_false in Ht. destruct Ht as [A B]. unfold rename_item, rho_side, item_of.
    destruct (Z.eqb_spec (ea e) f); [contradiction|]. destruct (Z.eqb_spec (eb e) f); [contradiction|].
    destruct HW as [Hr _]. apply Hr in He. unfold norm. destruct (Z.leb_spec (ea e) (eb e)); [reflexivity|lia].
  Qed.

  Lemma rename_touched e : In e es -> touches f e = true ->
    rename_item rho_side e = item_of (mk_edge g (other f e) (et e) mf).
  Proof.
    intros He Ht. destruct (key_other N es f e HW He Ht) as [_ Hne]. apply touches_iff in Ht.
    destruct HW as [Hr _]. pose proof (Hr e He) as R.
    unfold rename_item, rho_side, item_of, mk_edge, other. cbn [ea eb et].
    unfold other in Hne. destruct (Z.eqb_spec (ea e) f) as [E|E].
    - destruct (Z.eqb_spec (eb e) f) as [E2|E2]; [lia|]. reflexivity.
    - destruct Ht as [Ht|Ht]; [contradiction|]. destruct (Z.eqb_spec (eb e) f) as [E2|E2]; [|contradiction].
      rewrite (norm_sym (ea e) g). reflexivity.
  Qed.

  Theorem shape_side : exists rho, inj_on rho (verts (motif_edges es mf)) /\
    forall it, In it (map item_of (motif_edges es' mf)) <-> In it (map (rename_item rho) (motif_edges es mf)).
  Proof.
    exists rho_side. split.
    - intros x y Hx Hy E. apply verts_touch in Hx, Hy. destruct Hx as [ex [Hex Tx]], Hy as [ey [Hey Ty]].
      apply motif_edges_In in Hex, Hey. unfold rho_side in E.
      destruct (Z.eqb_spec x f) as [->|Nx]; destruct (Z.eqb_spec y f) as [->|Ny]; auto.
      + exfalso. subst y. apply (H3 ey); tauto.
      + exfalso. subst x. apply (H3 ex); tauto.
    - intros it. rewrite !in_map_iff. split.
      + intros [e [<- He]]. apply motif_edges_In in He. apply H4 in He. destruct He as [[He [Em Ht]]|[e0 [He0 ->]]].
        * exists e. split; [apply rename_untouched; assumption|apply motif_edges_In; auto].
        * destruct (H2 e0 He0) as [A [B C]]. exists e0. split; [apply rename_touched; assumption|apply motif_edges_In; auto].
      + intros [e [<- He]]. apply motif_edges_In in He. destruct He as [He Em].
        destruct (touches f e) eqn:Ht.
        * exists (mk_edge g (other f e) (et e) mf). split; [symmetry; apply rename_touched; assumption|].
          apply motif_edges_In. apply H4. right. exists e. split; [apply H1; assumption|reflexivity].
        * exists e. split; [symmetry; apply rename_untouched; assumption|]. apply motif_edges_In. apply H4. left. auto.
  Qed.
End Side.

Section ShapeStep.
  Context (N : Z) (es : list edge) (u0 v0 m0 m1 : Z) (a0 a1 : list edge) (prs : list (edge * edge)).
  Hypothesis HW : WF N es.
  Hypothesis G0 : Permutation a0 (corner_edges es u0 m0).
  Hypothesis G1 : Permutation a1 (corner_edges es v0 m1).
  Hypothesis SF : SuitFacts es u0 v0 m0 m1 a0 a1.
  Hypothesis Hf : map fst prs = a0.
  Hypothesis Hs : Permutation a1 (map snd prs).

  Let es' := swap_es' es u0 v0 m0 m1 true prs.

  Lemma in_es' e : In e es' <-> (In e es /\ is_oldb u0 v0 m0 m1 e = false) \/ In e (swap_props u0 v0 true prs).
  Proof.
    unfold es', swap_es', swap_rest. rewrite in_app_iff, filter_In, negb_true_iff. tauto.
  Qed.

  Lemma in_props p : In p (swap_props u0 v0 true prs) <->
    exists q, In q prs /\ (p = mk_edge u0 (other v0 (snd q)) (et (snd q)) (em (snd q)) \/
                           p = mk_edge v0 (other u0 (fst q)) (et (fst q)) (em (fst q))).
  Proof.
    unfold swap_props. rewrite in_flat_map. split; intros [q [Hq Hp]]; exists q; (split; [exact Hq|]).
    - unfold pp in Hp. cbn in Hp. destruct Hp as [<-|[<-|[]]]; auto.
    - unfold pp. cbn. destruct Hp as [->| ->]; auto.
  Qed.

  Lemma a0_in e : In e a0 <-> In e es /\ touches u0 e = true /\ em e = m0.
  Proof. rewrite <- corner_edges_In. split; apply Permutation_in; [|apply Permutation_sym]; exact G0. Qed.
  Lemma a1_in e : In e a1 <-> In e es /\ touches v0 e = true /\ em e = m1.
  Proof. rewrite <- corner_edges_In. split; apply Permutation_in; [|apply Permutation_sym]; exact G1. Qed.

  Lemma fst_in e0 : In e0 a0 <-> exists q, In q prs /\ fst q = e0.
  Proof. rewrite <- Hf, in_map_iff. split; intros [q H]; exists q; tauto. Qed.
  Lemma snd_in e1 : In e1 a1 <-> exists q, In q prs /\ snd q = e1.
  Proof.
    split.
    - intros H. apply (Permutation_in _ Hs) in H. apply in_map_iff in H. destruct H as [q H]; exists q; tauto.
    - intros [q [Hq <-]]. apply (Permutation_in _ (Permutation_sym Hs)). apply in_map. exact Hq.
  Qed.

  Lemma oldb_false_iff e : In e es ->
    (is_oldb u0 v0 m0 m1 e = false <-> ~ In e a0 /\ ~ In e a1).
  Proof.
    intros He. rewrite a0_in, a1_in. unfold is_oldb. rewrite orb_false_iff, !andb_false_iff, !Z.eqb_neq.
    split.
    - intros [[A|A] [B|B]]; split; intros [_ [X Y]]; congruence.
    - intros [A B]. split.
      + destruct (touches u0 e) eqn:T; [right|left; reflexivity]. intros E. apply A. auto.
      + destruct (touches v0 e) eqn:T; [right|left; reflexivity]. intros E. apply B. auto.
  Qed.

  Theorem shape_step : Shape es es'.
  Proof.
    pose proof (sf_ids _ _ _ _ _ _ _ SF) as Hids.
    intros m. destruct (Z.eq_dec m m0) as [->|Nm0]; [|destruct (Z.eq_dec m m1) as [->|Nm1]].
    - (* the motif of u0: u0 is replaced by v0 *)
      apply (shape_side N es es' u0 v0 m0 a0 HW).
      + intros e He Em Ht. apply a0_in. auto.
      + intros e He. apply a0_in. exact He.
      + intros e He Ht. apply (sf_v0 _ _ _ _ _ _ _ SF e He Ht).
      + intros e. rewrite in_es'. split.
        * intros [[[He Ho]|Hp] Em].
          -- left. split; [exact He|]. split; [exact Em|]. apply (oldb_false_iff e He) in Ho. destruct Ho as [A _].
             destruct (touches u0 e) eqn:T; [|reflexivity]. exfalso. apply A. apply a0_in. auto.
          -- right. apply in_props in Hp. destruct Hp as [q [Hq [E|E]]].
             ++ exfalso. subst e. cbn in Em. assert (In (snd q) a1) by (apply snd_in; eauto).
                apply a1_in in H. destruct H as [_ [_ X]]. congruence.
             ++ exists (fst q). assert (X : In (fst q) a0) by (apply fst_in; eauto). split; [exact X|].
                apply a0_in in X. destruct X as [_ [_ X]]. rewrite E, X. reflexivity.
        * intros [[He [Em Ht]]|[e0 [He0 ->]]].
          -- split; [|exact Em]. left. split; [exact He|]. apply (oldb_false_iff e He). split.
             ++ intros X. apply a0_in in X. destruct X as [_ [X _]]. congruence.
             ++ intros X. apply a1_in in X. destruct X as [_ [_ X]]. congruence.
          -- split; [|reflexivity]. right. apply in_props. apply fst_in in He0. destruct He0 as [q [Hq <-]].
             exists q. split; [exact Hq|]. right. assert (X : In (fst q) a0) by (apply fst_in; eauto).
             apply a0_in in X. destruct X as [_ [_ X]]. rewrite X. reflexivity.
    - (* the motif of v0: v0 is replaced by u0 *)
      apply (shape_side N es es' v0 u0 m1 a1 HW).
      + intros e He Em Ht. apply a1_in. auto.
      + intros e He. apply a1_in. exact He.
      + intros e He Ht. apply (sf_u0 _ _ _ _ _ _ _ SF e He Ht).
      + intros e. rewrite in_es'. split.
        * intros [[[He Ho]|Hp] Em].
          -- left. split; [exact He|]. split; [exact Em|]. apply (oldb_false_iff e He) in Ho. destruct Ho as [_ A].
             destruct (touches v0 e) eqn:T; [|reflexivity]. exfalso. apply A. apply a1_in. auto.
          -- right. apply in_props in Hp. destruct Hp as [q [Hq [E|E]]].
             ++ exists (snd q). assert (X : In (snd q) a1) by (apply snd_in; eauto). split; [exact X|].
                apply a1_in in X. destruct X as [_ [_ X]]. rewrite E, X. reflexivity.
             ++ exfalso. subst e. cbn in Em. assert (In (fst q) a0) by (apply fst_in; eauto).
                apply a0_in in H. destruct H as [_ [_ X]]. congruence.
        * intros [[He [Em Ht]]|[e1 [He1 ->]]].
          -- split; [|exact Em]. left. split; [exact He|]. apply (oldb_false_iff e He). split.
             ++ intros X. apply a0_in in X. destruct X as [_ [_ X]]. congruence.
             ++ intros X. apply a1_in in X. destruct X as [_ [X _]]. congruence.
          -- split; [|reflexivity]. right. apply in_props. apply snd_in in He1. destruct He1 as [q [Hq <-]].
             exists q. split; [exact Hq|]. left. assert (X : In (snd q) a1) by (apply snd_in; eauto).
             apply a1_in in X. destruct X as [_ [_ X]]. rewrite X. reflexivity.
    - (* every other label class is untouched *)
      exists (fun x => x). split; [intros x y _ _ E; exact E|].
      assert (Hsame : forall e, In e (motif_edges es' m) <-> In e (motif_edges es m)).
      { intros e. rewrite !motif_edges_In, in_es'. split.
        - intros [[[He _]|Hp] Em]; [auto|]. exfalso. apply in_props in Hp. destruct Hp as [q [Hq [E|E]]]; subst e; cbn in Em.
          + assert (X : In (snd q) a1) by (apply snd_in; eauto). apply a1_in in X. destruct X as [_ [_ X]]. congruence.
          + assert (X : In (fst q) a0) by (apply fst_in; eauto). apply a0_in in X. destruct X as [_ [_ X]]. congruence.
        - intros [He Em]. split; [|exact Em]. left. split; [exact He|]. apply (oldb_false_iff e He). split.
          + intros X. apply a0_in in X. destruct X as [_ [_ X]]. congruence.
          + intros X. apply a1_in in X. destruct X as [_ [_ X]]. congruence. }
      intros it. rewrite !in_map_iff. split.
      + intros [e [<- He]]. apply Hsame in He. exists e. split; [|exact He].
        apply motif_edges_In in He. destruct He as [He _]. destruct HW as [Hr _]. apply Hr in He.
        unfold rename_item, item_of, norm. destruct (Z.leb_spec (ea e) (eb e)); [reflexivity|lia].
      + intros [e [<- He]]. exists e. split; [|apply Hsame; exact He].
        apply motif_edges_In in He. destruct He as [He _]. destruct HW as [Hr _]. apply Hr in He.
        unfold rename_item, item_of, norm. destruct (Z.leb_spec (ea e) (eb e)); [reflexivity|lia].
  Qed.
End ShapeStep.

(* ------------------------------------------------------------------ Shape composes *)
Lemma rename_compose rho1 rho2 e e0 :
  item_of e = rename_item rho1 e0 -> rename_item rho2 e = rename_item (fun x => rho2 (rho1 x)) e0.
Proof.
  unfold item_of, rename_item. intros [= Ea Eb Et]. rewrite Ea, Eb, Et.
  destruct (norm_cases (rho1 (ea e0)) (rho1 (eb e0))) as [-> | ->]; cbn [fst snd]; [reflexivity|].
  rewrite (norm_sym (rho2 (rho1 (eb e0)))). reflexivity.
Qed.

Lemma Shape_refl es N : WF N es -> Shape es es.
Proof.
  intros [Hr _] m. exists (fun x => x). split; [intros x y _ _ E; exact E|].
  intros it. rewrite !in_map_iff. split; intros [e [<- He]]; exists e; (split; [|exact He]);
    apply motif_edges_In in He; destruct He as [He _]; apply Hr in He;
    unfold rename_item, item_of, norm; destruct (Z.leb_spec (ea e) (eb e)); try reflexivity; lia.
Qed.

Lemma Shape_trans es0 es es' : Shape es0 es -> Shape es es' -> Shape es0 es'.
Proof.
  intros S1 S2 m. destruct (S1 m) as [rho1 [I1 E1]]. destruct (S2 m) as [rho2 [I2 E2]].
  exists (fun x => rho2 (rho1 x)). split.
  - assert (Himg : forall x, In x (verts (motif_edges es0 m)) -> In (rho1 x) (verts (motif_edges es m))).
    { intros x Hx. apply verts_touch in Hx. destruct Hx as [e0 [He0 Tx]].
      assert (Hit : In (rename_item rho1 e0) (map item_of (motif_edges es m))) by (apply E1; apply in_map; exact He0).
      apply in_map_iff in Hit. destruct Hit as [e [Ee He]]. apply verts_touch. exists e. split; [exact He|].
      apply touches_iff. apply touches_iff in Tx. unfold item_of, rename_item in Ee. injection Ee as Ea Eb _.
      destruct (norm_cases (rho1 (ea e0)) (rho1 (eb e0))) as [X|X]; rewrite X in Ea, Eb; cbn in Ea, Eb;
        destruct Tx as [<-|<-]; auto. }
    intros x y Hx Hy E. apply I1; [exact Hx|exact Hy|]. apply I2; [apply Himg; exact Hx|apply Himg; exact Hy|exact E].
  - intros it. rewrite E2. rewrite !in_map_iff. split.
    + intros [e [<- He]]. assert (Hit : In (item_of e) (map item_of (motif_edges es m))) by (apply in_map; exact He).
      apply E1 in Hit. apply in_map_iff in Hit. destruct Hit as [e0 [Ee He0]]. exists e0. split; [|exact He0].
      symmetry. apply rename_compose. symmetry. exact Ee.
    + intros [e0 [<- He0]]. assert (Hit : In (rename_item rho1 e0) (map item_of (motif_edges es m))) by (apply E1; apply in_map; exact He0).
      apply in_map_iff in Hit. destruct Hit as [e [Ee He]]. exists e. split; [|exact He]. apply rename_compose. exact Ee.
Qed.

(* ------------------------------------------------------------------ the run under the repaired id rule *)
Lemma step_cases C es0 ph s e :
  c_nE C = length es0 -> StInv C es0 s -> PhInv C s ph ->
  let s' := fst (next_state (step C ph s e)) in
  s_es s' = s_es s \/
  exists u0 v0 m0 m1 a0 a1 prs,
    Permutation a0 (corner_edges (s_es s) u0 m0) /\ Permutation a1 (corner_edges (s_es s) v0 m1) /\
    SuitFacts (s_es s) u0 v0 m0 m1 a0 a1 /\ map fst prs = a0 /\ Permutation a1 (map snd prs) /\
    s_es s' = swap_es' (s_es s) u0 v0 m0 m1 (c_fixed C) prs.
Proof.
  intros HnE HS HP. pose proof HS as [HH HM]. pose proof HH as [_ [HW [Hlen _]]].
  destruct ph as [|e0|e0 c0 sc|e0 c0 sc e1|u0 v0 c0 c1 props top bot]; destruct e as [i|c|r]; cbn [step];
    try (left; reflexivity).
  - destruct (draw_edge C s i); left; reflexivity.
  - destruct (permb c _); [|left; reflexivity].
    left. destruct (enter_inner_state C s e0 c 0) as [-> _]. reflexivity.
  - destruct (draw_edge C s i) as [e1|]; [|left; reflexivity].
    destruct (Nat.eqb (et e1) (et e0)); left; reflexivity.
  - destruct (permb c _); [|left; reflexivity].
    destruct (attrs (s_es s) (ea e0) c0) as [a0|]; [|left; reflexivity].
    destruct (attrs (s_es s) (ea e1) c) as [a1|]; [|left; reflexivity].
    destruct (suitable (s_es s) (ea e0) (ea e1) a0 a1).
    + destruct (Nat.leb (c_slimit C) sc).
      { left. destruct (enter_outer_state C s false) as [-> _]. reflexivity. }
      destruct (swap_pre (c_fixed C) (c_nodes C) (c_target C) (ea e0) (ea e1) a0 a1) as [|cc|props top bot].
      * left. destruct (enter_outer_state C s false) as [-> _]. reflexivity.
      * left. reflexivity.
      * left. reflexivity.
    + left. destruct (enter_inner_state C s e0 c0 (S sc)) as [-> _]. reflexivity.
  - destruct HP as [m0 [m1 [a0 [a1 [prs [G0 [G1 [Hc0 [Hc1 [SF [Hf [Hs [Ht Hprops]]]]]]]]]]]]].
    destruct (accepts top bot r).
    2:{ left. destruct (enter_outer_state C s false) as [-> _]. reflexivity. }
    destruct (apply_swap_ok (c_M C) (s_es s) u0 v0 m0 m1 a0 a1 (c_fixed C) prs (s_ds s) HW G0 G1 SF Hf Hs Ht HM)
      as [d' [Hap HM']].
    rewrite HnE, <- Hlen, Hc0, Hc1, Hprops, Hap. right.
    destruct (enter_outer_state C (mkS (swap_es' (s_es s) u0 v0 m0 m1 (c_fixed C) prs) d' (S (s_cc s))) true) as [-> _].
    exists u0, v0, m0, m1, a0, a1, prs. cbn [fst s_es].
    split; [exact G0|]. split; [exact G1|]. split; [exact SF|]. split; [exact Hf|]. split; [exact Hs|reflexivity].
Qed.

Theorem run_shape C es0 : c_fixed C = true -> c_nE C = length es0 -> forall evs ph s,
  StInv C es0 s -> PhInv C s ph -> Shape es0 (s_es s) ->
  let '(r, sf, tr) := run C evs ph s in Shape es0 (s_es sf) /\ Forall (fun x => Shape es0 (s_es x)) tr.
Proof.
  intros Hfx HnE. induction evs as [|e evs IH]; intros ph s HS HP HSh; cbn [run].
  - split; [exact HSh|constructor].
  - pose proof (step_inv C es0 ph s e HnE HS HP) as Hn.
    pose proof (step_cases C es0 ph s e HnE HS HP) as Hc.
    assert (HSh' : Shape es0 (s_es (fst (next_state (step C ph s e))))).
    { destruct Hc as [-> | [u0 [v0 [m0 [m1 [a0 [a1 [prs [G0 [G1 [SF [Hf [Hs ->]]]]]]]]]]]]]; [exact HSh|].
      eapply Shape_trans; [exact HSh|]. rewrite Hfx. destruct HS as [[_ [HW _]] _].
      eapply shape_step; eauto. }
    destruct (step C ph s e) as [ph' s' acc|r s' acc]; cbn in Hn, HSh'.
    + destruct Hn as [HS' HP']. specialize (IH ph' s' HS' HP' HSh').
      destruct (run C evs ph' s') as [[r sf] tr]. destruct IH as [I1 I2]. split; [exact I1|].
      destruct acc; [constructor; assumption|exact I2].
    + split; [exact HSh'|]. destruct acc; [constructor; [exact HSh'|constructor]|constructor].
Qed.

Theorem rewire_shape_fixed nodes tg es0 sl cl evs :
  WF (Z.of_nat (length nodes)) es0 ->
  let C := mk_cfg true nodes tg es0 sl cl in
  let '(r, sf, tr) := rewire C es0 evs in
  Forall (fun s => Hard nodes es0 nodes (s_es s) /\ Shape es0 (s_es s)) (sf :: tr).
Proof.
  intros HW C. pose proof (rewire_inv true nodes tg es0 sl cl evs HW) as HI. fold C in HI.
  unfold rewire in *.
  assert (HS0 : StInv C es0 (mkS es0 (init_ds (c_M C) es0) 0)).
  { split; [apply Hard_refl; exact HW|apply init_ds_mirror]. }
  pose proof (enter_outer_inv C es0 _ false HS0) as Hn.
  destruct (enter_outer_state C (mkS es0 (init_ds (c_M C) es0) 0) false) as [Hst _].
  destruct (enter_outer C _ false) as [ph s acc|r s acc]; cbn in Hn, Hst.
  - destruct Hn as [HS HP]. injection Hst as -> ->.
    pose proof (run_shape C es0 eq_refl eq_refl evs ph _ HS HP (Shape_refl es0 _ HW)) as HR.
    destruct (run C evs ph _) as [[r sf] tr]. destruct HI as [I1 I2]. destruct HR as [R1 R2].
    constructor; [split; [apply I1|exact R1]|].
    rewrite Forall_forall in *. intros x Hx. split; [apply (I2 x Hx)|apply (R2 x Hx)].
  - injection Hst as -> _. constructor; [|constructor]. split; [apply HS0|]. cbn. eapply Shape_refl; eauto.
Qed.

(* the remaining part of the file works in Q_scope *)
Local Open Scope Q_scope.

(* ================================================================== C12: the Metropolis ratio *)
(* the target is symmetric on the pairings of the network's vertices *)
Definition SymT (nodes : list (list Z)) (tg : target) : Prop :=
  forall t a b ka kb, exk nodes t a = Some ka -> exk nodes t b = Some kb ->
    tlookup tg t (ka ++ kb) = tlookup tg t (kb ++ ka).

Lemma prodw_cons nodes tg e l : prodw nodes tg (e :: l) = wq nodes tg e * prodw nodes tg l.
Proof. reflexivity. Qed.

Lemma prodw_app nodes tg l1 l2 : prodw nodes tg (l1 ++ l2) == prodw nodes tg l1 * prodw nodes tg l2.
Proof.
  induction l1 as [|e l IH]; cbn [app].
  - unfold prodw at 2. cbn. ring.
  - rewrite !prodw_cons, IH. ring.
Qed.

Lemma prodw_perm nodes tg l1 l2 : Permutation l1 l2 -> prodw nodes tg l1 == prodw nodes tg l2.
Proof.
  induction 1 as [|x l l' H IH|x y l|l l' l'' H1 IH1 H2 IH2].
  - reflexivity.
  - rewrite !prodw_cons, IH. reflexivity.
  - rewrite !prodw_cons. ring.
  - rewrite IH1. exact IH2.
Qed.

Lemma wq_mk nodes tg a b t m ka kb x :
  SymT nodes tg -> exk nodes t a = Some ka -> exk nodes t b = Some kb -> tlookup tg t (ka ++ kb) = Some x ->
  wq nodes tg (mk_edge a b t m) = x.
Proof.
  intros HS Ha Hb Hx. unfold wq, weight, mk_edge. cbn [ea eb et].
  destruct (norm_cases a b) as [-> | ->]; cbn [fst snd]; rewrite Ha, Hb.
  - rewrite Hx. reflexivity.
  - rewrite (HS t b a kb ka Hb Ha), Hx. reflexivity.
Qed.

Lemma wq_touch nodes tg u e ku ko x :
  SymT nodes tg -> touches u e = true -> exk nodes (et e) u = Some ku -> exk nodes (et e) (other u e) = Some ko ->
  tlookup tg (et e) (ku ++ ko) = Some x -> wq nodes tg e = x.
Proof.
  intros HS Ht Hu Ho Hx. unfold wq, weight. apply touches_iff in Ht. unfold other in Ho.
  destruct (Z.eqb_spec (ea e) u) as [E|E].
  - rewrite E, Hu, Ho, Hx. reflexivity.
  - destruct Ht as [Ht|Ht]; [contradiction|]. rewrite Ht, Ho, Hu.
    rewrite (HS (et e) (ea e) u ko ku Ho Hu), Hx. reflexivity.
Qed.

Lemma num_loop_ratio fixed nodes tg u0 v0 all1 : SymT nodes tg -> forall a0 rem props top props' top',
  num_loop fixed nodes tg u0 v0 all1 a0 rem props top = NumOk props' top' ->
  exists new, props' = props ++ new /\ top' == top * prodw nodes tg new.
Proof.
  intros HS. induction a0 as [|e0 a0 IH]; intros rem props top props' top' H; cbn in H.
  - injection H as <- <-. exists []. rewrite app_nil_r. split; [reflexivity|]. unfold prodw. cbn. ring.
  - destruct (pop_topo (et e0) rem) as [[e1 rem1]|] eqn:P; [|discriminate].
    destruct (pop_topo_spec _ _ _ _ P) as [Et _].
    destruct (exk nodes (et e0) u0) as [ku0|] eqn:X1; [|discriminate].
    destruct (exk nodes (et e0) (other u0 e0)) as [ku1|] eqn:X2; [|discriminate].
    destruct (exk nodes (et e0) v0) as [kv0|] eqn:X3; [|discriminate].
    destruct (exk nodes (et e0) (other v0 e1)) as [kv1|] eqn:X4; [|discriminate].
    match type of H with (if ?c then _ else _) = _ => destruct c; [discriminate|] end.
    destruct (tlookup tg (et e0) (ku0 ++ kv1)) as [x|] eqn:L1; [|discriminate].
    destruct (tlookup tg (et e0) (kv0 ++ ku1)) as [y|] eqn:L2; [|discriminate].
    destruct (Qeq_bool (top * (x * y)) (0 # 1)); [discriminate|].
    apply IH in H. destruct H as [new [Hp Ht]].
    set (two := if fixed
                then [mk_edge u0 (other v0 e1) (et e1) (em e1); mk_edge v0 (other u0 e0) (et e0) (em e0)]
                else [mk_edge u0 (other v0 e1) (et e0) (em e0); mk_edge v0 (other u0 e0) (et e1) (em e1)]) in *.
    exists (two ++ new). split; [rewrite Hp, <- app_assoc; reflexivity|].
    rewrite Ht, prodw_app.
    assert (Htwo : prodw nodes tg two == x * y).
    { unfold two. destruct fixed; rewrite !prodw_cons; unfold prodw; cbn [fold_right].
      - rewrite Et. rewrite (wq_mk nodes tg u0 (other v0 e1) (et e0) (em e1) ku0 kv1 x HS X1 X4 L1).
        rewrite (wq_mk nodes tg v0 (other u0 e0) (et e0) (em e0) kv0 ku1 y HS X3 X2 L2). ring.
      - rewrite Et. rewrite (wq_mk nodes tg u0 (other v0 e1) (et e0) (em e0) ku0 kv1 x HS X1 X4 L1).
        rewrite (wq_mk nodes tg v0 (other u0 e0) (et e0) (em e1) kv0 ku1 y HS X3 X2 L2). ring. }
    rewrite Htwo. ring.
Qed.

Lemma den_loop_ratio nodes tg u0 v0 : SymT nodes tg -> forall a0 a1 bot bot',
  (forall e, In e a0 -> touches u0 e = true) -> (forall e, In e a1 -> touches v0 e = true) ->
  den_loop nodes tg u0 v0 a0 a1 bot = DenOk bot' -> bot' == bot * prodw nodes tg (zipL a0 a1).
Proof.
  intros HS. induction a0 as [|e0 a0 IH]; intros a1 bot bot' T0 T1 H.
  - cbn in H. injection H as <-. unfold zipL, prodw. cbn. ring.
  - destruct a1 as [|e1 a1]; cbn in H.
    + injection H as <-. unfold zipL, prodw. cbn. ring.
    + destruct (exk nodes (et e0) u0) as [ku0|] eqn:X1; [|discriminate].
      destruct (exk nodes (et e0) (other u0 e0)) as [ku1|] eqn:X2; [|discriminate].
      destruct (exk nodes (et e1) v0) as [kv0|] eqn:X3; [|discriminate].
      destruct (exk nodes (et e1) (other v0 e1)) as [kv1|] eqn:X4; [|discriminate].
      destruct (tlookup tg (et e0) (ku0 ++ ku1)) as [x|] eqn:L1; [|discriminate].
      destruct (tlookup tg (et e1) (kv0 ++ kv1)) as [y|] eqn:L2; [|discriminate].
      apply IH in H; [|intros e He; apply T0; right; exact He|intros e He; apply T1; right; exact He].
      rewrite H. unfold zipL. cbn [combine flat_map fst snd app]. fold (zipL a0 a1). rewrite !prodw_cons.
      rewrite (wq_touch nodes tg u0 e0 ku0 ku1 x HS (T0 e0 (or_introl eq_refl)) X1 X2 L1).
      rewrite (wq_touch nodes tg v0 e1 kv0 kv1 y HS (T1 e1 (or_introl eq_refl)) X3 X4 L2). ring.
Qed.

(* numerator = product of the target weights over the proposal edges, denominator = product over the
   removed corner edges: the acceptance ratio top/bot is pi(g') / pi(g) *)
Theorem swap_pre_ratio fixed nodes tg u0 v0 a0 a1 props top bot :
  SymT nodes tg -> length a0 = length a1 ->
  (forall e, In e a0 -> touches u0 e = true) -> (forall e, In e a1 -> touches v0 e = true) ->
  swap_pre fixed nodes tg u0 v0 a0 a1 = PNeed props top bot ->
  top == prodw nodes tg props /\ bot == prodw nodes tg (a0 ++ a1).
Proof.
  intros HS Hlen T0 T1. unfold swap_pre.
  destruct (num_loop fixed nodes tg u0 v0 a1 a0 (rev a1) [] (1 # 1)) as [|c|pr tp] eqn:E; try discriminate.
  destruct (den_loop nodes tg u0 v0 a0 a1 (1 # 1)) as [|c|bt] eqn:D; try discriminate.
  destruct (Qeq_bool bt (0 # 1)); [discriminate|]. intros [= -> -> ->].
  apply (num_loop_ratio fixed nodes tg u0 v0 a1 HS) in E. destruct E as [new [Hp Ht]]. cbn in Hp. subst new.
  apply (den_loop_ratio nodes tg u0 v0 HS) in D; [|exact T0|exact T1]. split.
  - rewrite Ht. ring.
  - rewrite D. rewrite (prodw_perm nodes tg _ _ (zipL_perm a0 a1 Hlen)). ring.
Qed.

Corollary swap_pre_ratio_ok fixed nodes tg u0 v0 a0 a1 props top bot :
  SymT nodes tg -> length a0 = length a1 ->
  (forall e, In e a0 -> touches u0 e = true) -> (forall e, In e a1 -> touches v0 e = true) ->
  swap_pre fixed nodes tg u0 v0 a0 a1 = PNeed props top bot ->
  ratio_ok nodes tg (a0 ++ a1) props top bot = true.
Proof.
  intros HS Hl T0 T1 H. destruct (swap_pre_ratio _ _ _ _ _ _ _ _ _ _ HS Hl T0 T1 H) as [A B].
  unfold ratio_ok. apply andb_true_iff. split; apply Qeq_bool_iff; assumption.
Qed.

(* pi(g') * bot == pi(g) * top for the graph after the swap: the Metropolis ratio of pi *)
Theorem swap_ratio_pi N es u0 v0 m0 m1 a0 a1 fixed prs nodes tg top bot :
  WF N es -> Permutation a0 (corner_edges es u0 m0) -> Permutation a1 (corner_edges es v0 m1) ->
  SuitFacts es u0 v0 m0 m1 a0 a1 ->
  top == prodw nodes tg (swap_props u0 v0 fixed prs) -> bot == prodw nodes tg (a0 ++ a1) ->
  prodw nodes tg (swap_es' es u0 v0 m0 m1 fixed prs) * bot == prodw nodes tg es * top.
Proof.
  intros HW G0 G1 SF Ht Hb.
  assert (X : Permutation es (a0 ++ a1 ++ swap_rest es u0 v0 m0 m1)) by (eapply es_split; eauto).
  rewrite (prodw_perm nodes tg _ _ X). unfold swap_es'. rewrite app_assoc, !prodw_app, Ht, Hb, prodw_app. ring.
Qed.
