(* C16 growth: what is left of "Q n k counts the connected labelled graphs, for ALL n" is Cayley's formula.
   Q's recursion has three branches:
   - out of range (k < n-1 or k > n(n-1)/2): 0  -- a connected graph on n vertices has at least n-1 edges (a);
   - k = n-1: the shortcut n^(n-2)               -- Cayley's formula, NOT proved here (hypothesis);
   - otherwise: C(s,k) - sum_m C(n-1,m) sum_p C(np,p) Q(m+1,k-p) -- the counting identity of CrossGen.v (b). *)
From Coq Require Import List ZArith QArith Bool Arith Lia.
From GV Require Import Lib.Tree Lib.Graph16 Lib.PolyRefl16 Model.QCount Model.CliqueEq
                       Proofs.QCountP Proofs.CliqueEqP Proofs.CycleGen Proofs.QQGen Proofs.CliqueGen Proofs.CrossGen.
Import ListNotations.

(* ================================================================== (a) connected => at least n-1 edges *)
Lemma filter_neq_length (x : nat) : forall l, NoDup l ->
  (length l <= S (length (filter (fun r => negb (Nat.eqb r x)) l)))%nat.
Proof.
  induction l as [|y t IH]; intros Hnd; [cbn; lia|]. inversion Hnd as [|? ? Hy Ht]; subst. cbn [filter].
  destruct (Nat.eqb_spec y x) as [->|Hne]; cbn [negb length].
  - rewrite (filter_all _ t); [lia|]. intros z Hz. destruct (Nat.eqb_spec z x); [subst; contradiction | reflexivity].
  - specialize (IH Ht). lia.
Qed.

(* representatives of the components: pairwise unconnected, everybody reaches one, at least |vs| - |es| of them *)
Lemma component_reps vs : forall es, edges_in vs es ->
  exists R, NoDup R /\ incl R vs /\
            (forall v, In v vs -> exists r, In r R /\ conn es v r) /\
            (forall r r', In r R -> In r' R -> conn es r r' -> r = r') /\
            (length (dedup_n vs) <= length R + length es)%nat.
Proof.
  induction es as [|[a b] es IH]; intros Hin.
  - exists (dedup_n vs). split; [|split; [|split; [|split]]].
    + clear. induction vs as [|x t IHt]; cbn; [constructor|].
      destruct (nmem x t) eqn:E; [exact IHt|]. constructor; [|exact IHt].
      intros H. assert (In x t); [|apply nmem_In in H0; congruence].
      clear -H. induction t as [|y t IHt]; cbn in H; [exact H|].
      destruct (nmem y t) eqn:E; [right; apply IHt, H|]. destruct H as [<-|H]; [left; reflexivity | right; apply IHt, H].
    + intros x Hx. clear -Hx. induction vs as [|y t IHt]; cbn in Hx; [exact Hx|].
      destruct (nmem y t); [right; apply IHt, Hx|]. destruct Hx as [<-|Hx]; [left; reflexivity | right; apply IHt, Hx].
    + intros v Hv. exists v. split; [|constructor].
      clear -Hv. induction vs as [|y t IHt]; [destruct Hv|]. cbn.
      destruct (nmem y t) eqn:E.
      * destruct Hv as [<-|Hv]; [apply IHt, nmem_In, E | apply IHt, Hv].
      * destruct Hv as [<-|Hv]; [left; reflexivity | right; apply IHt, Hv].
    + intros r r' _ _ H. apply conn_nil in H. exact H.
    + cbn. lia.
  - assert (Hin' : edges_in vs es) by (intros e He; apply Hin; right; exact He).
    destruct (IH Hin') as [R [Hnd [Hincl [Hrep [Hsep Hlen]]]]].
    destruct (Hin (a, b) ltac:(left; reflexivity)) as [Ha Hb]. cbn [fst snd] in Ha, Hb.
    destruct (Hrep a Ha) as [ra [Hra Hca]]. destruct (Hrep b Hb) as [rb [Hrb Hcb]].
    assert (Hinc : incl es ((a, b) :: es)) by (intros e He; right; exact He).
    destruct (Nat.eq_dec ra rb) as [E|Hne].
    + subst rb. exists R. split; [exact Hnd|]. split; [exact Hincl|]. split; [|split].
      * intros v Hv. destruct (Hrep v Hv) as [r [Hr Hc]]. exists r. split; [exact Hr | eapply conn_incl; eauto].
      * intros r r' Hr Hr' Hc. apply conn_add_edge in Hc. destruct Hc as [Hc|[[H1 H2]|[H1 H2]]].
        -- apply Hsep; assumption.
        -- assert (r = ra) by (apply Hsep; [assumption | assumption | eapply conn_trans; eauto]).
           assert (r' = ra) by (apply Hsep; [assumption | assumption | eapply conn_trans; [apply conn_sym, H2 | exact Hcb]]).
           congruence.
        -- assert (r = ra) by (apply Hsep; [assumption | assumption | eapply conn_trans; eauto]).
           assert (r' = ra) by (apply Hsep; [assumption | assumption | eapply conn_trans; [apply conn_sym, H2 | exact Hca]]).
           congruence.
      * cbn [length]. lia.
    + exists (filter (fun r => negb (Nat.eqb r rb)) R). split; [apply NoDup_filter, Hnd|].
      split; [intros x Hx; apply filter_In in Hx; apply Hincl, Hx|]. split; [|split].
      * intros v Hv. destruct (Hrep v Hv) as [r [Hr Hc]]. destruct (Nat.eq_dec r rb) as [->|Hnr].
        -- exists ra. split; [apply filter_In; split; [exact Hra | destruct (Nat.eqb_spec ra rb); [contradiction | reflexivity]]|].
           apply conn_add_edge. right. right. split; [eapply conn_trans; [exact Hc | apply conn_sym, Hcb] | exact Hca].
        -- exists r. split; [apply filter_In; split; [exact Hr | destruct (Nat.eqb_spec r rb); [contradiction | reflexivity]]|].
           eapply conn_incl; eauto.
      * intros r r' Hr Hr' Hc. apply filter_In in Hr. apply filter_In in Hr'.
        destruct Hr as [Hr Hnr]. destruct Hr' as [Hr' Hnr'].
        destruct (Nat.eqb_spec r rb) as [|Hnr2]; [discriminate|]. destruct (Nat.eqb_spec r' rb) as [|Hnr2']; [discriminate|].
        apply conn_add_edge in Hc. destruct Hc as [Hc|[[H1 H2]|[H1 H2]]].
        -- apply Hsep; assumption.
        -- exfalso. apply Hnr2'. apply Hsep; [assumption | assumption |].
           eapply conn_trans; [apply conn_sym, H2 | exact Hcb].
        -- exfalso. apply Hnr2. apply Hsep; [assumption | assumption |]. eapply conn_trans; eauto.
      * pose proof (filter_neq_length rb R Hnd). cbn [length]. lia.
Qed.

Lemma dedup_n_NoDup_id l : NoDup l -> dedup_n l = l.
Proof.
  induction 1 as [|x t Hx _ IH]; [reflexivity|]. cbn.
  destruct (nmem x t) eqn:E; [apply nmem_In in E; contradiction|]. rewrite IH. reflexivity.
Qed.

Theorem connected_edges_lb vs es : NoDup vs -> edges_in vs es -> Connected vs es ->
  (length vs <= S (length es))%nat.
Proof.
  intros Hnd Hin [_ Hc]. destruct (component_reps vs es Hin) as [R [HR [Hincl [_ [Hsep Hlen]]]]].
  rewrite (dedup_n_NoDup_id vs Hnd) in Hlen.
  assert (HR1 : (length R <= 1)%nat).
  { destruct R as [|r [|r' R]]; cbn; try lia. exfalso.
    assert (r = r').
    { apply Hsep; [left; reflexivity | right; left; reflexivity|].
      apply Hc; apply Hincl; [left; reflexivity | right; left; reflexivity]. }
    subst. inversion HR as [|? ? Hn _]; subst. apply Hn. left. reflexivity. }
  lia.
Qed.

(* no connected graph on n vertices with fewer than n-1 edges *)
Theorem brute_below_tree n i : (S i < n)%nat -> brute n i = 0%Z.
Proof.
  intros H. unfold brute. rewrite filter_none; [reflexivity|].
  intros T HT. apply combs_spec in HT. destruct HT as [HT Hl].
  destruct (connectedb (seq 0 n) T) eqn:E; [|reflexivity]. exfalso.
  assert (Hin : edges_in (seq 0 n) T) by (eapply edges_in_incl; [apply subl_incl, HT | apply all_edges_in]).
  apply (connectedb_spec _ _ Hin) in E.
  pose proof (connected_edges_lb (seq 0 n) T (seq_NoDup _ _) Hin E) as Hlb. rewrite seq_length in Hlb. lia.
Qed.

(* ================================================================== (b) the recursion's general branch *)
Local Open Scope Z_scope.

Lemma brute_above n i : (length (all_edges n) < i)%nat -> brute n i = 0.
Proof. intros H. unfold brute. rewrite combs_too_many by exact H. reflexivity. Qed.

(* the counting identity solved for the class "the component is everything" *)
Lemma brute_recurrence N k :
  brute (S N) k =
  Cn (length (all_edges (S N))) k
  - zsum (map (fun kappa => Cn N kappa *
                zsum (map (fun i => brute (S kappa) i * Cn (length (all_edges (S N - S kappa))) (k - i))
                          (seq 0 (S k)))) (seq 0 N)).
Proof.
  pose proof (count_identity_Z (S N) k ltac:(lia)) as HC.
  replace (S N - 1)%nat with N in HC by lia.
  rewrite (seq_S N 0), map_app, zsum_app in HC. cbn [Nat.add map] in HC.
  change (zsum [?x]) with (x + 0) in HC.
  assert (Hlast : zsum (map (fun i => brute (S N) i * Cn (length (all_edges (S N - S N))) (k - i)) (seq 0 (S k)))
                  = brute (S N) k).
  { rewrite Nat.sub_diag. change (length (all_edges 0)) with 0%nat.
    rewrite (seq_S k 0), map_app, zsum_app. cbn [Nat.add map]. change (zsum [?x]) with (x + 0).
    rewrite Nat.sub_diag. change (Cn 0 0) with 1.
    rewrite zsum_zero; [ring|]. intros i Hi. apply in_seq in Hi.
    replace (k - i)%nat with (S (k - i - 1)) by lia. cbn [Cn]. ring. }
  rewrite Hlast, Cn_diag in HC. lia.
Qed.

Lemma seq_from d : forall len, seq d len = map (fun i => (d + i)%nat) (seq 0 len).
Proof.
  intros len. revert d. induction len as [|len IH]; intros d; [reflexivity|].
  cbn [seq map]. rewrite Nat.add_0_r. f_equal. rewrite <- (seq_shift len 0), map_map, (IH (S d)).
  apply map_ext. intros i. lia.
Qed.

Lemma zrange_split a b c : a <= b <= c -> zrange a c = zrange a b ++ zrange b c.
Proof.
  intros H. unfold zrange.
  replace (Z.to_nat (c - a)) with (Z.to_nat (b - a) + Z.to_nat (c - b))%nat by lia.
  rewrite seq_app, map_app. f_equal. cbn [Nat.add]. rewrite seq_from, map_map.
  apply map_ext. intros i. lia.
Qed.

Lemma zsum_rev_seq (f : nat -> Z) n :
  zsum (map f (seq 0 (S n))) = zsum (map (fun m => f (n - m)%nat) (seq 0 (S n))).
Proof.
  induction n as [|n IH]; [reflexivity|].
  rewrite (seq_S (S n) 0) at 1. rewrite map_app, zsum_app, IH. cbn [Nat.add map].
  change (seq 0 (S (S n))) with (0%nat :: seq 1 (S n)). rewrite <- seq_shift. cbn [map]. rewrite map_map.
  change (zsum (?a :: ?r)) with (a + zsum r). change (zsum []) with 0.
  rewrite Nat.sub_0_r. cbn [Nat.sub]. ring.
Qed.

(* the code's inner sum over p (with its trimmed range) = the Cauchy-product form of the counting identity *)
Lemma inner_sum_match (n m : nat) (k : Z) (prev : Z -> Z) :
  (S m < n)%nat -> Z.of_nat n - 1 < k ->
  (forall j, 0 <= j <= tri (Z.of_nat (S m)) -> prev j = brute (S m) (Z.to_nat j)) ->
  let nz := Z.of_nat n in let mz := Z.of_nat m in
  let lb := Z.max 0 (k - (mz + 1) * mz / 2) in
  let np := (nz - 1 - mz) * (nz - 2 - mz) / 2 in
  zsum (map (fun p => binomial np p * prev (k - p)) (zrange lb (k - mz + 1))) =
  zsum (map (fun i => brute (S m) i * Cn (length (all_edges (n - S m))) (Z.to_nat k - i)) (seq 0 (S (Z.to_nat k)))).
Proof.
  intros Hm Hk Hprev. cbv zeta.
  set (Tm := length (all_edges (S m))). set (Np := length (all_edges (n - S m))).
  assert (HTm : (Z.of_nat m + 1) * Z.of_nat m / 2 = Z.of_nat Tm).
  { unfold Tm. rewrite all_edges_length. unfold tri. f_equal. rewrite Nat2Z.inj_succ. unfold Z.succ. ring. }
  assert (HTm' : tri (Z.of_nat (S m)) = Z.of_nat Tm) by (unfold Tm; rewrite all_edges_length; reflexivity).
  assert (HNp : (Z.of_nat n - 1 - Z.of_nat m) * (Z.of_nat n - 2 - Z.of_nat m) / 2 = Z.of_nat Np).
  { unfold Np. rewrite all_edges_length. unfold tri. f_equal.
    replace (Z.of_nat (n - S m)) with (Z.of_nat n - 1 - Z.of_nat m) by lia. ring. }
  assert (HmT : (m <= Tm)%nat).
  { unfold Tm. pose proof (all_edges_len2 (S m)). nia. }
  rewrite HTm, HNp.
  set (lb := Z.max 0 (k - Z.of_nat Tm)).
  set (G := fun p : Z => Cn Np (Z.to_nat p) * brute (S m) (Z.to_nat (k - p))).
  (* inside the code's range the summand is G *)
  rewrite (zsum_ext _ G).
  2:{ intros p Hp. apply In_zrange in Hp. unfold G.
      rewrite binomial_Cn by lia. rewrite Nat2Z.id. rewrite Hprev; [reflexivity|]. rewrite HTm'. lia. }
  (* extend the range to 0 .. k: the extra summands vanish *)
  assert (Hext : zsum (map G (zrange 0 (k + 1))) = zsum (map G (zrange lb (k - Z.of_nat m + 1)))).
  { rewrite (zrange_split 0 lb (k + 1)) by lia.
    rewrite (zrange_split lb (k - Z.of_nat m + 1) (k + 1)) by lia.
    rewrite !map_app, !zsum_app.
    rewrite (zsum_zero G (zrange 0 lb)), (zsum_zero G (zrange (k - Z.of_nat m + 1) (k + 1))); [ring| |].
    - intros p Hp. apply In_zrange in Hp. unfold G. rewrite (brute_below_tree (S m)) by lia. ring.
    - intros p Hp. apply In_zrange in Hp. unfold G. rewrite (brute_above (S m)) by (fold Tm; lia). ring. }
  rewrite <- Hext.
  replace (k + 1) with (0 + Z.of_nat (S (Z.to_nat k))) by lia. rewrite zrange_seq, map_map.
  rewrite zsum_rev_seq. apply zsum_ext. intros i Hi. apply in_seq in Hi. unfold G.
  replace (Z.to_nat (0 + Z.of_nat (Z.to_nat k - i))) with (Z.to_nat k - i)%nat by lia.
  replace (Z.to_nat (k - (0 + Z.of_nat (Z.to_nat k - i)))) with i by lia. ring.
Qed.

(* ================================================================== the reduction *)
Definition Cayley : Prop := forall n, (2 <= n)%nat -> brute n (n - 1) = Z.of_nat n ^ (Z.of_nat n - 2).

Theorem Q_count_from_Cayley : Cayley ->
  forall n, (1 <= n)%nat -> forall k, 0 <= k <= tri (Z.of_nat n) -> Qcode n k = brute n (Z.to_nat k).
Proof.
  intros HCay. induction n as [n IHn] using lt_wf_ind. intros Hn k Hk.
  rewrite Qcode_unfold. unfold Qstep. cbv zeta.
  destruct (Z.ltb_spec k (Z.of_nat n - 1)) as [Hlow|Hlow]; cbn [orb].
  { symmetry. apply brute_below_tree. lia. }
  destruct (Z.ltb_spec (tri (Z.of_nat n)) k) as [Hhigh|Hhigh]; [lia|].
  destruct (Z.eqb_spec k (Z.of_nat n - 1)) as [Heq|Hneq].
  { destruct (Nat.leb_spec n 1) as [H1|H1].
    - assert (n = 1%nat) by lia. subst n. replace (Z.to_nat k) with 0%nat by lia. reflexivity.
    - replace (Z.to_nat k) with (n - 1)%nat by lia. symmetry. apply HCay. lia. }
  (* the general branch *)
  destruct n as [|N]; [lia|].
  rewrite (brute_recurrence N (Z.to_nat k)).
  rewrite binomial_Cn by (pose proof (tri_nonneg (S N)); lia).
  replace (Z.to_nat (tri (Z.of_nat (S N)))) with (length (all_edges (S N)))
    by (rewrite <- all_edges_length; rewrite Nat2Z.id; reflexivity).
  f_equal. replace (S N - 1)%nat with N by lia. apply zsum_ext. intros m Hm. apply in_seq in Hm.
  rewrite binomial_Cn by lia. replace (Z.to_nat (Z.of_nat (S N) - 1)) with N by lia. rewrite Nat2Z.id. f_equal.
  apply (inner_sum_match (S N) m k (fun j => Qcode (S m) j)); [lia | lia|].
  intros j Hj. apply IHn; [lia | lia | exact Hj].
Qed.

(* with the table = recursion theorem: the memoised Q as well *)
Theorem Qv_count_from_Cayley : Cayley ->
  forall n k, (1 <= n)%nat -> 0 <= k <= tri (Z.of_nat n) -> Qv n k = brute n (Z.to_nat k).
Proof. intros H n k Hn Hk. rewrite Qv_is_code by lia. apply Q_count_from_Cayley; assumption. Qed.

(* Cayley's formula holds where the table has been compared with the count (so the hypothesis is consistent
   with everything checked): n <= 12 *)
Theorem Cayley_upto_12 : forall n, (2 <= n <= 12)%nat -> brute n (n - 1) = Z.of_nat n ^ (Z.of_nat n - 2).
Proof.
  intros n Hn. rewrite <- (Nat2Z.id (n - 1)).
  rewrite <- (Q_count_upto_12 n (Z.of_nat (n - 1))).
  - rewrite Qv_is_code by lia. rewrite Qcode_unfold. unfold Qstep. cbv zeta.
    replace (Z.of_nat (n - 1)) with (Z.of_nat n - 1) by lia.
    destruct (Z.ltb_spec (Z.of_nat n - 1) (Z.of_nat n - 1)); [lia|]. cbn [orb].
    destruct (Z.ltb_spec (tri (Z.of_nat n)) (Z.of_nat n - 1)) as [Hh|Hh].
    + exfalso. pose proof (tri_double n). nia.
    + rewrite Z.eqb_refl. destruct (Nat.leb_spec n 1); [lia | reflexivity].
  - lia.
  - split; [lia|]. pose proof (tri_double n). nia.
Qed.
