(* C16 growth: what is left of "Q n k counts the connected labelled graphs, for ALL n" is Cayley's formula.
   Q's recursion has three branches:
   - out of range (k < n-1 or k > n(n-1)/2): 0  -- a connected graph on n vertices has at least n-1 edges (a);
   - k = n-1: the shortcut n^(n-2)               -- Cayley's formula, NOT proved here (hypothesis);
   - otherwise: C(s,k) - sum_m C(n-1,m) sum_p C(np,p) Q(m+1,k-p) -- the counting identity of CrossGen.v (b). *)
From Coq Require Import List ZArith QArith Bool Arith Lia.
From GV Require Import Lib.Tree Lib.Graph16 Lib.PolyRefl16 Model.QCount Model.CliqueEq
                       Proofs.QCountP Proofs.CliqueEqP Proofs.CycleGen Proofs.QQGen Proofs.CliqueGen Proofs.CrossGen.
Import ListNotations.

(* ================================================================== (a) connected => at least n-1 edges *)
Lemma filter_neq_length (x : nat) : forall l, NoDup l ->
  (length l <= S (length (filter (fun r => negb (Nat.eqb r x)) l)))%nat.
Proof.
  induction l as [|y t IH]; intros Hnd; [cbn; lia|]. inversion Hnd as [|? ? Hy Ht]; subst. cbn [filter].
  destruct (Nat.eqb_spec y x) as [->|Hne]; cbn [negb length].
  - rewrite (filter_all _ t); [lia|]. intros z Hz. destruct (Nat.eqb_spec z x); [subst; contradiction | reflexivity].
  - specialize (IH Ht). lia.
Qed.

(* representatives of the components: pairwise unconnected, everybody reaches one, at least |vs| - |es| of them *)
Lemma component_reps vs : forall es, edges_in vs es ->
  exists R, NoDup R /\ incl R vs /\
            (forall v, In v vs -> exists r, In r R /\ conn es v r) /\
            (forall r r', In r R -> In r' R -> conn es r r' -> r = r') /\
            (length (dedup_n vs) <= length R + length es)%nat.
Proof.
  induction es as [|[a b] es IH]; intros Hin.
  - exists (dedup_n vs). split; [|split; [|split; [|split]]].
    + clear. induction vs as [|x t IHt]; cbn; [constructor|].
      destruct (nmem x t) eqn:E; [exact IHt|]. constructor; [|exact IHt].
      intros H. assert (In x t); [|apply nmem_In in H0; congruence].
      clear -H. induction t as [|y t IHt]; cbn in H; [exact H|].
      destruct (nmem y t) eqn:E; [right; apply IHt, H|]. destruct H as [<-|H]; [left; reflexivity | right; apply IHt, H].
    + intros x Hx. clear -Hx. induction vs as [|y t IHt]; cbn in Hx; [exact Hx|].
      destruct (nmem y t); [right; apply IHt, Hx|]. destruct Hx as [<-|Hx]; [left; reflexivity | right; apply IHt, Hx].
    + intros v Hv. exists v. split; [|constructor].
      clear -Hv. induction vs as [|y t IHt]; [destruct Hv|]. cbn.
      destruct (nmem y t) eqn:E.
      * destruct Hv as [<-|Hv]; [apply IHt, nmem_In, E | apply IHt, Hv].
      * destruct Hv as [<-|Hv]; [left; reflexivity | right; apply IHt, Hv].
    + intros r r' _ _ H. apply conn_nil in H. exact H.
    + cbn. lia.
  - assert (Hin' : edges_in vs es) by (intros e He; apply Hin; right; exact He).
    destruct (IH Hin') as [R [Hnd [Hincl [Hrep [Hsep Hlen]]]]].
    destruct (Hin (a, b) ltac:(left; reflexivity)) as [Ha Hb]. cbn [fst snd] in Ha, Hb.
    destruct (Hrep a Ha) as [ra [Hra Hca]]. destruct (Hrep b Hb) as [rb [Hrb Hcb]].
    assert (Hinc : incl es ((a, b) :: es)) by (intros e He; right; exact He).
    destruct (Nat.eq_dec ra rb) as [E|Hne].
    + subst rb. exists R. split; [exact Hnd|]. split; [exact Hincl|]. split; [|split].
      * intros v Hv. destruct (Hrep v Hv) as [r [Hr Hc]]. exists r. split; [exact Hr | eapply conn_incl; eauto].
      * intros r r' Hr Hr' Hc. apply conn_add_edge in Hc. destruct Hc as [Hc|[[H1 H2]|[H1 H2]]].
        -- apply Hsep; assumption.
        -- assert (r = ra) by (apply Hsep; [assumption | assumption | eapply conn_trans; eauto]).
           assert (r' = ra) by (apply Hsep; [assumption | assumption | eapply conn_trans; [apply conn_sym, H2 | exact Hcb]]).
           congruence.
        -- assert (r = ra) by (apply Hsep; [assumption | assumption | eapply conn_trans; eauto]).
           assert (r' = ra) by (apply Hsep; [assumption | assumption | eapply conn_trans; [apply conn_sym, H2 | exact Hca]]).
           congruence.
      * cbn [length]. lia.
    + exists (filter (fun r => negb (Nat.eqb r rb)) R). split; [apply NoDup_filter, Hnd|].
      split; [intros x Hx; apply filter_In in Hx; apply Hincl, Hx|]. split; [|split].
      * intros v Hv. destruct (Hrep v Hv) as [r [Hr Hc]]. destruct (Nat.eq_dec r rb) as [->|Hnr].
        -- exists ra. split; [apply filter_In; split; [exact Hra | destruct (Nat.eqb_spec ra rb); [contradiction | reflexivity]]|].
           apply conn_add_edge. right. right. split; [eapply conn_trans; [exact Hc | apply conn_sym, Hcb] | exact Hca].
        -- exists r. split; [apply filter_In; split; [exact Hr | destruct (Nat.eqb_spec r rb); [contradiction | reflexivity]]|].
           eapply conn_incl; eauto.
      * intros r r' Hr Hr' Hc. apply filter_In in Hr. apply filter_In in Hr'.
        destruct Hr as [Hr Hnr]. destruct Hr' as [Hr' Hnr'].
        destruct (Nat.eqb_spec r rb) as [|Hnr2]; [discriminate|]. destruct (Nat.eqb_spec r' rb) as [|Hnr2']; [discriminate|].
        apply conn_add_edge in Hc. destruct Hc as [Hc|[[H1 H2]|[H1 H2]]].
        -- apply Hsep; assumption.
        -- exfalso. apply Hnr2'. apply Hsep; [assumption | assumption |].
           eapply conn_trans; [apply conn_sym, H2 | exact Hcb].
        -- exfalso. apply Hnr2. apply Hsep; [assumption | assumption |]. eapply conn_trans; eauto.
      * pose proof (filter_neq_length rb R Hnd). cbn [length]. lia.
Qed.

Lemma dedup_n_NoDup_id l : NoDup l -> dedup_n l = l.
Proof.
  induction 1 as [|x t Hx _ IH]; [reflexivity|]. cbn.
  destruct (nmem x t) eqn:E; [apply nmem_In in E; contradiction|]. rewrite IH. reflexivity.
Qed.

Theorem connected_edges_lb vs es : NoDup vs -> edges_in vs es -> Connected vs es ->
  (length vs <= S (length es))%nat.
Proof.
  intros Hnd Hin [_ Hc]. destruct (component_reps vs es Hin) as [R [HR [Hincl [_ [Hsep Hlen]]]]].
  rewrite (dedup_n_NoDup_id vs Hnd) in Hlen.
  assert (HR1 : (length R <= 1)%nat).
  { destruct R as [|r [|r' R]]; cbn; try lia. exfalso.
    assert (r = r').
    { apply Hsep; [left; reflexivity | right; left; reflexivity|].
      apply Hc; apply Hincl; [left; reflexivity | right; left; reflexivity]. }
    subst. inversion HR as [|? ? Hn _]; subst. apply Hn. left. reflexivity. }
  lia.
Qed.

(* no connected graph on n vertices with fewer than n-1 edges *)
Theorem brute_below_tree n i : (S i < n)%nat -> brute n i = 0%Z.
Proof.
  intros H. unfold brute. rewrite filter_none; [reflexivity|].
  intros T HT. apply combs_spec in HT. destruct HT as [HT Hl].
  destruct (connectedb (seq 0 n) T) eqn:E; [|reflexivity]. exfalso.
  assert (Hin : edges_in (seq 0 n) T) by (eapply edges_in_incl; [apply subl_incl, HT | apply all_edges_in]).
  apply (connectedb_spec _ _ Hin) in E.
  pose proof (connected_edges_lb (seq 0 n) T (seq_NoDup _ _) Hin E) as Hlb. rewrite seq_length in Hlb. lia.
Qed.
