(* C19 — proofs about Model/Dist.v.
   Part A: real-number wrappers around Interval's correctness lemmas;
   Part B: the enclosures contain the real-valued laws; the truncation loop returns only admissible indices;
   Part C: soundness of the checker;
   Part D..: the real-valued laws (non-negativity, series, tails, termination, property-level corollaries). *)
From Coq Require Import Reals ZArith List Bool QArith Qreals Lra Lia.
From Coquelicot Require Import Coquelicot.
From Interval Require Import Specific_bigint Specific_ops Float_full Interval Xreal Basic Sig.
From GV Require Import Lib.Tree Model.Dist.
Import ListNotations.
Local Open Scope R_scope.

(* ------------------------------------------------------------------ Part A *)

Definition cR (E : I.type) (x : R) : Prop := contains (I.convert E) (Xreal x).

Lemma contains_Xnan_any : forall i v, contains i Xnan -> contains i v.
Proof. intros [|l u] v H; simpl in *; [exact Logic.I | contradiction]. Qed.

Lemma cR_iZ : forall z, cR (iZ z) (IZR z).
Proof. intros z. apply I.fromZ_correct. Qed.

Lemma cR_add : forall A B a b, cR A a -> cR B b -> cR (I.add prec A B) (a + b).
Proof. intros A B a b Ha Hb. exact (I.add_correct prec A B _ _ Ha Hb). Qed.
Lemma cR_sub : forall A B a b, cR A a -> cR B b -> cR (I.sub prec A B) (a - b).
Proof. intros A B a b Ha Hb. exact (I.sub_correct prec A B _ _ Ha Hb). Qed.
Lemma cR_mul : forall A B a b, cR A a -> cR B b -> cR (I.mul prec A B) (a * b).
Proof. intros A B a b Ha Hb. exact (I.mul_correct prec A B _ _ Ha Hb). Qed.
Lemma cR_neg : forall A a, cR A a -> cR (I.neg A) (- a).
Proof. intros A a Ha. exact (I.neg_correct A _ Ha). Qed.
Lemma cR_abs : forall A a, cR A a -> cR (I.abs A) (Rabs a).
Proof. intros A a Ha. exact (I.abs_correct A _ Ha). Qed.
Lemma cR_exp : forall A a, cR A a -> cR (I.exp prec A) (exp a).
Proof. intros A a Ha. exact (I.exp_correct prec A _ Ha). Qed.
Lemma cR_div : forall A B a b, cR A a -> cR B b -> cR (I.div prec A B) (a / b).
Proof.
  intros A B a b Ha Hb. unfold cR.
  pose proof (I.div_correct prec A B _ _ Ha Hb) as H. cbn [Xbind2] in H. unfold Xdiv' in H.
  destruct (is_zero b); [apply contains_Xnan_any; exact H | exact H].
Qed.
Lemma cR_ln : forall A a, cR A a -> cR (I.ln prec A) (ln a).
Proof.
  intros A a Ha. unfold cR.
  pose proof (I.ln_correct prec A _ Ha) as H. cbn [Xbind] in H. unfold Xln' in H.
  destruct (is_positive a); [exact H | apply contains_Xnan_any; exact H].
Qed.
Lemma cR_pow : forall A a k, cR A a -> cR (I.power_int prec A (Z.of_nat k)) (a ^ k).
Proof.
  intros A a k Ha. unfold cR.
  pose proof (I.power_int_correct prec (Z.of_nat k) A _ Ha) as H. cbn [Xpower_int Xbind] in H.
  destruct k as [|k]; [exact H|].
  cbn [Z.of_nat] in H. unfold Xpower_int' in H.
  rewrite SuccNat2Pos.id_succ in H. exact H.
Qed.
Lemma cR_iQ : forall q, cR (iQ q) (Q2R q).
Proof. intros q. unfold iQ, Q2R. apply cR_div; apply cR_iZ. Qed.

Lemma i_le_correct : forall A B a b, i_le A B = true -> cR A a -> cR B b -> a <= b.
Proof.
  intros A B a b H Ha Hb. unfold i_le in H.
  pose proof (I.sign_large_correct (I.sub prec A B)) as S.
  pose proof (cR_sub _ _ _ _ Ha Hb) as Hc. unfold cR in Hc.
  destruct (I.sign_large (I.sub prec A B)); try discriminate.
  - specialize (S _ Hc). injection S as S. lra.
  - destruct (S _ Hc) as [_ S']. cbn [proj_val] in S'. lra.
Qed.
Lemma i_lt_correct : forall A B a b, i_lt A B = true -> cR A a -> cR B b -> a < b.
Proof.
  intros A B a b H Ha Hb. unfold i_lt in H.
  pose proof (I.sign_strict_correct (I.sub prec A B)) as S.
  pose proof (cR_sub _ _ _ _ Ha Hb) as Hc. unfold cR in Hc.
  destruct (I.sign_strict (I.sub prec A B)); try discriminate.
  destruct (S _ Hc) as [_ S']. cbn [proj_val] in S'. lra.
Qed.

(* ------------------------------------------------------------------ Part B *)

Lemma IZR_of_nat : forall k, IZR (Z.of_nat k) = INR k.
Proof. intros k. symmetry. apply INR_IZR_INZ. Qed.

Lemma zfact_fact : forall k, IZR (zfact k) = INR (fact k).
Proof.
  induction k as [|k IH].
  - reflexivity.
  - change (zfact (S k)) with (Z.of_nat (S k) * zfact k)%Z.
    rewrite mult_IZR, IH, IZR_of_nat. change (fact (S k)) with (S k * fact k)%nat.
    rewrite mult_INR. reflexivity.
Qed.

Lemma encl_exponential : forall A a k, cR A a -> cR (i_exponential A k) (exponential_R a k).
Proof.
  intros A a k Ha. unfold i_exponential, exponential_R.
  apply cR_mul.
  - apply cR_sub; [apply (cR_iZ 1)|]. apply cR_exp, cR_neg, Ha.
  - apply cR_exp. replace (- a * INR k) with (- (a * IZR (Z.of_nat k))) by (rewrite IZR_of_nat; ring).
    apply cR_neg, cR_mul; [exact Ha | apply cR_iZ].
Qed.

Lemma encl_poisson : forall M m k, cR M m -> cR (i_poisson M k) (poisson_R m k).
Proof.
  intros M m k Hm. unfold i_poisson, poisson_R.
  rewrite <- zfact_fact. apply cR_div; [|apply cR_iZ].
  apply cR_mul; [apply cR_exp, cR_neg, Hm | apply cR_pow, Hm].
Qed.

Lemma encl_pl_term : forall S s j, cR S s -> cR (i_pl_term S j) (pl_term s j).
Proof.
  intros S s j Hs. unfold i_pl_term, pl_term, Rpower.
  replace (- s * ln (INR j)) with (- (s * ln (IZR (Z.of_nat j)))) by (rewrite IZR_of_nat; ring).
  apply cR_exp, cR_neg, cR_mul; [exact Hs|]. apply cR_ln, cR_iZ.
Qed.

Lemma encl_co_term : forall S Zi s z j, cR S s -> cR Zi z -> cR (i_co_term S Zi j) (co_term s z j).
Proof.
  intros S Zi s z j Hs Hz. unfold i_co_term, co_term.
  apply cR_mul; [apply cR_pow, Hz | apply encl_pl_term, Hs].
Qed.

Lemma encl_cutoff_z : forall Ka kappa, cR Ka kappa -> cR (i_cutoff_z Ka) (cutoff_z kappa).
Proof.
  intros Ka kappa Hk. unfold i_cutoff_z, cutoff_z.
  apply cR_exp. replace (- 1 / kappa) with (IZR (-1) / kappa) by (simpl; lra).
  apply cR_div; [apply cR_iZ | exact Hk].
Qed.

Lemma encl_power_law : forall S N s K k,
  cR S s -> cR N (psum (pl_term s) K) -> cR (i_power_law S N k) (power_law_R s K k).
Proof.
  intros S N s K k Hs HN. unfold i_power_law, power_law_R.
  apply cR_div; [apply encl_pl_term, Hs | exact HN].
Qed.

Lemma encl_cutoff : forall S Ka N s kappa K k,
  cR S s -> cR Ka kappa -> cR N (psum (co_term s (cutoff_z kappa)) K) ->
  cR (i_cutoff S Ka N k) (cutoff_R s kappa K k).
Proof.
  intros S Ka N s kappa K k Hs Hk HN. unfold i_cutoff, cutoff_R.
  apply cR_div; [|exact HN].
  apply cR_mul; [apply encl_pl_term, Hs|].
  apply cR_exp. replace (- INR k / kappa) with ((- IZR (Z.of_nat k)) / kappa) by (rewrite IZR_of_nat; reflexivity).
  apply cR_div; [apply cR_neg, cR_iZ | exact Hk].
Qed.

(* ---- the truncation loop *)
Lemma cR_tol_lo : cR tol_lo_I tol_lo. Proof. apply cR_iQ. Qed.
Lemma cR_tol_hi : cR tol_hi_I tol_hi. Proof. apply cR_iQ. Qed.

Definition cand_ok (t : nat -> R) (c : nat * I.type) : Prop :=
  near_break t (fst c) /\ cR (snd c) (psum t (fst c)).

Lemma trunc_loop_sound : forall (term : nat -> I.type) (t : nat -> R),
  (forall j, cR (term j) (t j)) ->
  forall fuel j acc cands res,
    (1 <= j)%nat ->
    cR acc (psum t (j - 1)) ->
    (forall i, (1 <= i < j)%nat -> tol_lo <= Rabs (t i)) ->
    List.Forall (cand_ok t) cands ->
    trunc_loop term fuel j acc cands = Some res ->
    List.Forall (cand_ok t) res.
Proof.
  intros term t Ht. induction fuel as [|f IH]; intros j acc cands res Hj Hacc Hlow Hc H.
  - discriminate.
  - cbn [trunc_loop] in H.
    assert (Hacc' : cR (I.add prec acc (term j)) (psum t j)).
    { destruct j as [|j]; [lia|]. cbn [psum]. replace (S j - 1)%nat with j in Hacc by lia.
      apply cR_add; [exact Hacc | apply Ht]. }
    destruct (i_lt (I.abs (term j)) tol_hi_I) eqn:Eb; destruct (i_le tol_lo_I (I.abs (term j))) eqn:Ea.
    + (* may stop, may go on *)
      apply (IH (S j) _ _ _ ltac:(lia)) in H; auto.
      * replace (S j - 1)%nat with j by lia. exact Hacc'.
      * intros i Hi. destruct (Nat.eq_dec i j) as [->|Hn]; [|apply Hlow; lia].
        eapply i_le_correct; [exact Ea | apply cR_tol_lo | apply cR_abs, Ht].
      * constructor; [|exact Hc]. split; [|exact Hacc']. cbn [fst]. split; [exact Hj|]. split; [|exact Hlow].
        eapply i_lt_correct; [exact Eb | apply cR_abs, Ht | apply cR_tol_hi].
    + injection H as <-. constructor; [|exact Hc]. split; [|exact Hacc']. cbn [fst]. split; [exact Hj|]. split; [|exact Hlow].
      eapply i_lt_correct; [exact Eb | apply cR_abs, Ht | apply cR_tol_hi].
    + apply (IH (S j) _ _ _ ltac:(lia)) in H; auto.
      * replace (S j - 1)%nat with j by lia. exact Hacc'.
      * intros i Hi. destruct (Nat.eq_dec i j) as [->|Hn]; [|apply Hlow; lia].
        eapply i_le_correct; [exact Ea | apply cR_tol_lo | apply cR_abs, Ht].
    + discriminate.
Qed.


Lemma trunc_sound : forall fuel term t res,
  (forall j, cR (term j) (t j)) -> trunc fuel term = Some res -> List.Forall (cand_ok t) res.
Proof.
  intros fuel term t res Ht H. unfold trunc in H.
  refine (trunc_loop_sound term t Ht fuel 1%nat (iZ 0) [] res (le_n 1) _ _ (List.Forall_nil _) H).
  - apply (cR_iZ 0).
  - intros i Hi. lia.
Qed.

(* ------------------------------------------------------------------ Part C *)

Lemma near_b_sound : forall X E x f, near_b X E = true -> cR X x -> cR E f -> near x f.
Proof.
  intros X E x f H Hx Hf. unfold near_b in H. unfold near.
  eapply i_le_correct; [exact H | |].
  - apply cR_abs, cR_sub; assumption.
  - apply cR_add; [|apply cR_iQ]. apply cR_mul; [apply cR_iQ | apply cR_abs, Hf].
Qed.

Lemma nonneg_b_sound : forall X x, nonneg_b X = true -> cR X x -> 0 <= x.
Proof. intros X x H Hx. eapply i_le_correct; [exact H | apply (cR_iZ 0) | exact Hx]. Qed.

Lemma check_one_sound : forall E f x, cR E f -> check_one E x = true -> 0 <= Q2R x /\ near (Q2R x) f.
Proof.
  intros E f x Hf H. unfold check_one in H. apply andb_prop in H. destruct H as [H1 H2].
  split; [eapply nonneg_b_sound; [exact H1 | apply cR_iQ] | eapply near_b_sound; [exact H2 | apply cR_iQ | exact Hf]].
Qed.

Lemma check_any_sound : forall Es x, check_any Es x = true ->
  0 <= Q2R x /\ exists E, In E Es /\ near_b (iQ x) E = true.
Proof.
  intros Es x H. unfold check_any in H. apply andb_prop in H. destruct H as [H1 H2].
  split; [eapply nonneg_b_sound; [exact H1 | apply cR_iQ]|].
  apply existsb_exists in H2. exact H2.
Qed.

Theorem check_exponential_sound : forall a k x,
  check_exponential a k x = true -> Spec_exponential (Q2R a) k (Q2R x).
Proof.
  intros a k x H. unfold Spec_exponential. eapply check_one_sound; [|exact H].
  apply encl_exponential, cR_iQ.
Qed.

Theorem check_poisson_sound : forall m k x,
  check_poisson m k x = true -> Spec_poisson (Q2R m) k (Q2R x).
Proof.
  intros m k x H. unfold Spec_poisson. eapply check_one_sound; [|exact H].
  apply encl_poisson, cR_iQ.
Qed.

Theorem check_power_law_sound : forall fuel s cands k x,
  cands_power_law fuel s = Some cands ->
  check_power_law s cands k x = true -> Spec_power_law (Q2R s) k (Q2R x).
Proof.
  intros fuel s cands k x Hc H. unfold check_power_law in H.
  apply check_any_sound in H. destruct H as [H0 [E [HE Hn]]]. split; [exact H0|].
  apply in_map_iff in HE. destruct HE as [[K N] [<- Hin]]. cbn [snd] in Hn.
  unfold cands_power_law in Hc.
  pose proof (trunc_sound _ _ (pl_term (Q2R s)) _ (fun j => encl_pl_term _ _ j (cR_iQ s)) Hc) as Hall.
  rewrite List.Forall_forall in Hall. destruct (Hall _ Hin) as [Hb HN]. cbn [fst snd] in Hb, HN.
  exists K. split; [exact Hb|].
  eapply near_b_sound; [exact Hn | apply cR_iQ | apply encl_power_law; [apply cR_iQ | exact HN]].
Qed.

Theorem check_cutoff_sound : forall fuel s kappa cands k x,
  cands_cutoff fuel s kappa = Some cands ->
  check_cutoff s kappa cands k x = true -> Spec_cutoff (Q2R s) (Q2R kappa) k (Q2R x).
Proof.
  intros fuel s kappa cands k x Hc H. unfold check_cutoff in H.
  apply check_any_sound in H. destruct H as [H0 [E [HE Hn]]]. split; [exact H0|].
  apply in_map_iff in HE. destruct HE as [[K N] [<- Hin]]. cbn [snd] in Hn.
  unfold cands_cutoff in Hc.
  pose proof (trunc_sound _ _ (co_term (Q2R s) (cutoff_z (Q2R kappa))) _
                (fun j => encl_co_term _ _ _ _ j (cR_iQ s) (encl_cutoff_z _ _ (cR_iQ kappa))) Hc) as Hall.
  rewrite List.Forall_forall in Hall. destruct (Hall _ Hin) as [Hb HN]. cbn [fst snd] in Hb, HN.
  exists K. split; [exact Hb|].
  eapply near_b_sound; [exact Hn | apply cR_iQ | apply encl_cutoff; [apply cR_iQ | apply cR_iQ | exact HN]].
Qed.

(* ------------------------------------------------------------------ Part D *)

(* ---- non-negativity *)
Lemma exp_neg_le_1 : forall a, 0 <= a -> exp (- a) <= 1.
Proof.
  intros a Ha. rewrite <- exp_0. destruct Ha as [Ha|Ha].
  - left. apply exp_increasing. lra.
  - subst. rewrite Ropp_0. lra.
Qed.

Lemma exponential_nonneg : forall a k, 0 <= a -> 0 <= exponential_R a k.
Proof.
  intros a k Ha. unfold exponential_R.
  apply Rmult_le_pos; [pose proof (exp_neg_le_1 a Ha); lra | left; apply exp_pos].
Qed.

Lemma poisson_nonneg : forall m k, 0 <= m -> 0 <= poisson_R m k.
Proof.
  intros m k Hm. unfold poisson_R, Rdiv.
  apply Rmult_le_pos; [apply Rmult_le_pos; [left; apply exp_pos | apply pow_le, Hm]|].
  left. apply Rinv_0_lt_compat, INR_fact_lt_0.
Qed.

Lemma pl_term_pos : forall s j, 0 < pl_term s j.
Proof. intros s j. unfold pl_term, Rpower. apply exp_pos. Qed.

Lemma co_term_pos : forall s z j, 0 < z -> 0 < co_term s z j.
Proof. intros s z j Hz. unfold co_term. apply Rmult_lt_0_compat; [apply pow_lt, Hz | apply pl_term_pos]. Qed.

Lemma cutoff_z_pos : forall kappa, 0 < cutoff_z kappa.
Proof. intros. apply exp_pos. Qed.

Lemma psum_pos : forall t K, (forall j, 0 < t j) -> (1 <= K)%nat -> 0 < psum t K.
Proof.
  intros t K Ht HK. induction K as [|K IH]; [lia|].
  cbn [psum]. destruct K as [|K].
  - cbn [psum]. pose proof (Ht 1%nat). lra.
  - pose proof (Ht (S (S K))). assert (0 < psum t (S K)) by (apply IH; lia). lra.
Qed.

Lemma psum_nonneg : forall t K, (forall j, 0 <= t j) -> 0 <= psum t K.
Proof.
  intros t K Ht. induction K as [|K IH]; cbn [psum]; [lra|]. pose proof (Ht (S K)). lra.
Qed.

Lemma power_law_pos : forall s K k, (1 <= K)%nat -> 0 < power_law_R s K k.
Proof.
  intros s K k HK. unfold power_law_R.
  apply Rdiv_lt_0_compat; [apply pl_term_pos | apply psum_pos; [apply pl_term_pos | exact HK]].
Qed.

Lemma cutoff_pos : forall s kappa K k, (1 <= K)%nat -> 0 < cutoff_R s kappa K k.
Proof.
  intros s kappa K k HK. unfold cutoff_R.
  apply Rdiv_lt_0_compat.
  - apply Rmult_lt_0_compat; [apply pl_term_pos | apply exp_pos].
  - apply psum_pos; [intros j; apply co_term_pos, cutoff_z_pos | exact HK].
Qed.

(* ---- the exponential and Poisson laws sum to 1 *)
Lemma exp_mult_nat : forall x k, exp (x * INR k) = exp x ^ k.
Proof.
  intros x k. induction k as [|k IH].
  - simpl. rewrite Rmult_0_r. apply exp_0.
  - rewrite S_INR, Rmult_plus_distr_l, Rmult_1_r, exp_plus, IH. simpl. ring.
Qed.

Lemma exponential_series : forall a, 0 < a -> is_series (exponential_R a) 1.
Proof.
  intros a Ha.
  assert (Hq : 0 < exp (- a) < 1).
  { split; [apply exp_pos|]. rewrite <- exp_0. apply exp_increasing. lra. }
  pose proof (is_series_geom (exp (- a)) ltac:(rewrite Rabs_pos_eq; lra)) as Hg.
  apply (is_series_scal_l (1 - exp (- a))) in Hg.
  replace 1 with (scal (1 - exp (- a)) (/ (1 - exp (- a)))) at 1.
  2:{ unfold scal; simpl; unfold mult; simpl. field. lra. }
  eapply is_series_ext; [|exact Hg].
  intros n. unfold exponential_R, scal; simpl; unfold mult; simpl.
  rewrite exp_mult_nat. reflexivity.
Qed.

Lemma poisson_series : forall m, is_series (poisson_R m) 1.
Proof.
  intros m.
  pose proof (is_exp_Reals m) as He. unfold is_pseries in He.
  apply (is_series_scal_l (exp (- m))) in He.
  replace 1 with (scal (exp (- m)) (exp m)) at 1.
  2:{ unfold scal; simpl; unfold mult; simpl. rewrite <- exp_plus. replace (- m + m) with 0 by ring. apply exp_0. }
  eapply is_series_ext; [|exact He].
  intros n. unfold poisson_R, scal; simpl; unfold mult; simpl.
  rewrite pow_n_pow. unfold Rdiv. ring.
Qed.

(* ------------------------------------------------------------------ Part E *)

(* ---- partial sums and series *)
Lemma psum_sum_n : forall t n, psum t (S n) = sum_n (fun i => t (S i)) n.
Proof.
  intros t n. induction n as [|n IH].
  - rewrite sum_O. cbn [psum]. ring.
  - rewrite sum_Sn, <- IH. cbn [psum]. unfold plus; simpl. ring.
Qed.

Lemma psum_incr : forall t K M, (forall j, 0 <= t j) -> (K <= M)%nat -> psum t K <= psum t M.
Proof.
  intros t K M Ht H. induction H as [|M H IH]; [lra|].
  cbn [psum]. pose proof (Ht (S M)). lra.
Qed.

(* a non-negative sequence whose partial sums beyond K stay within B of the K-th one is summable,
   and its sum lies in [psum K, psum K + B] *)
Lemma tail_from_partial : forall t K B,
  (forall j, 0 <= t j) ->
  (forall M, (K <= M)%nat -> psum t M - psum t K <= B) ->
  ex_series (fun n => t (S n)) /\
  0 <= Series (fun n => t (S n)) - psum t K <= B.
Proof.
  intros t K B Ht Hb.
  set (a := fun n => t (S n)).
  assert (Hu : forall n, sum_n a n = psum t (S n)) by (intros n; symmetry; apply psum_sum_n).
  assert (Hex : ex_finite_lim_seq (sum_n a)).
  { apply (ex_finite_lim_seq_incr _ (psum t K + B)).
    - intros n. rewrite !Hu. apply psum_incr; [exact Ht | lia].
    - intros n. rewrite Hu. destruct (le_lt_dec K (S n)) as [H|H].
      + specialize (Hb _ H). lra.
      + pose proof (psum_incr t (S n) K Ht ltac:(lia)).
        specialize (Hb K (le_n K)). lra. }
  destruct Hex as [l Hl].
  assert (Hs : is_series a l) by exact Hl.
  split; [exists l; exact Hs|].
  rewrite (is_series_unique _ _ Hs).
  apply (is_lim_seq_incr_n _ K) in Hl.
  split.
  - assert (H : Rbar_le (psum t K) l).
    { apply (is_lim_seq_le (fun _ => psum t K) (fun n => sum_n a (n + K)%nat)); [|apply is_lim_seq_const|exact Hl].
      intros n. rewrite Hu. apply psum_incr; [exact Ht | lia]. }
    simpl in H. lra.
  - assert (H : Rbar_le l (psum t K + B)).
    { apply (is_lim_seq_le (fun n => sum_n a (n + K)%nat) (fun _ => psum t K + B)); [|exact Hl|apply is_lim_seq_const].
      intros n. rewrite Hu. specialize (Hb (S (n + K)) ltac:(lia)). lra. }
    simpl in H. lra.
Qed.

(* ---- the comparison with the telescoping series *)
Lemma INR_pos : forall j, (1 <= j)%nat -> 0 < INR j.
Proof. intros j H. apply lt_0_INR. lia. Qed.

Lemma Rpower_m2 : forall x, 0 < x -> Rpower x (- 2) = / (x * x).
Proof.
  intros x Hx. replace (- 2) with (- INR 2) by (simpl; lra). rewrite Rpower_Ropp.
  rewrite Rpower_pow by exact Hx. simpl. rewrite Rmult_1_r. reflexivity.
Qed.

(* for 2 <= s and 1 <= K < j :  j^-s <= K^(2-s) * (1/(j-1) - 1/j) *)
Lemma pl_term_telescope : forall s K j, 2 <= s -> (1 <= K)%nat -> (K < j)%nat ->
  pl_term s j <= Rpower (INR K) (2 - s) * (/ INR (j - 1) - / INR j).
Proof.
  intros s K j Hs HK Hj. unfold pl_term.
  assert (HjR : 0 < INR j) by (apply INR_pos; lia).
  assert (HKR : 0 < INR K) by (apply INR_pos; lia).
  assert (Hj1 : 0 < INR (j - 1)) by (apply INR_pos; lia).
  assert (Hj1e : INR (j - 1) = INR j - 1) by (rewrite minus_INR by lia; simpl; ring).
  replace (- s) with ((2 - s) + (- 2)) by ring.
  rewrite Rpower_plus, Rpower_m2 by exact HjR.
  apply Rmult_le_compat.
  - left. apply exp_pos.
  - left. apply Rinv_0_lt_compat. apply Rmult_lt_0_compat; exact HjR.
  - (* j^(2-s) <= K^(2-s) *)
    replace (2 - s) with (- (s - 2)) by ring. rewrite !Rpower_Ropp.
    apply Rinv_le_contravar; [apply exp_pos|].
    apply Rle_Rpower_l; [lra|]. split; [exact HKR|]. apply le_INR. lia.
  - (* 1/j^2 <= 1/(j-1) - 1/j *)
    rewrite Hj1e in *.
    replace (/ (INR j - 1) - / INR j) with (/ ((INR j - 1) * INR j)) by (field; lra).
    apply Rinv_le_contravar; [apply Rmult_lt_0_compat; lra|].
    apply Rmult_le_compat_r; lra.
Qed.

Lemma pl_partial_tail : forall s K M, 2 <= s -> (1 <= K)%nat -> (K <= M)%nat ->
  psum (pl_term s) M - psum (pl_term s) K <= Rpower (INR K) (2 - s) * (/ INR K - / INR M).
Proof.
  intros s K M Hs HK H. induction H as [|M H IH].
  - lra.
  - cbn [psum].
    pose proof (pl_term_telescope s K (S M) Hs HK ltac:(lia)) as Ht.
    replace (S M - 1)%nat with M in Ht by lia.
    assert (0 < Rpower (INR K) (2 - s)) by apply exp_pos. nra.
Qed.

Lemma Rpower_split : forall K s, (1 <= K)%nat -> Rpower (INR K) (2 - s) * / INR K = Rpower (INR K) (1 - s).
Proof.
  intros K s HK. pose proof (INR_pos K HK) as HKR.
  replace (1 - s) with ((2 - s) + Ropp 1) by ring. rewrite Rpower_plus, Rpower_Ropp, Rpower_1 by exact HKR.
  reflexivity.
Qed.

Lemma pl_partial_tail' : forall s K M, 2 <= s -> (1 <= K)%nat -> (K <= M)%nat ->
  psum (pl_term s) M - psum (pl_term s) K <= Rpower (INR K) (1 - s).
Proof.
  intros s K M Hs HK H. pose proof (pl_partial_tail s K M Hs HK H) as Hp.
  rewrite <- Rpower_split by exact HK.
  assert (0 < Rpower (INR K) (2 - s)) by apply exp_pos.
  assert (0 < / INR M) by (apply Rinv_0_lt_compat, INR_pos; lia). nra.
Qed.

Theorem zeta_tail : forall s K, 2 <= s -> (1 <= K)%nat ->
  ex_series (fun n => pl_term s (S n)) /\
  0 <= zeta s - psum (pl_term s) K <= Rpower (INR K) (1 - s).
Proof.
  intros s K Hs HK. unfold zeta. apply tail_from_partial.
  - intros j. left. apply pl_term_pos.
  - intros M HM. apply pl_partial_tail'; assumption.
Qed.

(* ---- the polylogarithm: z^j <= z^(K+1) for j > K when 0 < z <= 1 *)
Lemma pow_le_anti : forall z a b, 0 < z <= 1 -> (a <= b)%nat -> z ^ b <= z ^ a.
Proof.
  intros z a b Hz H. induction H as [|b H IH]; [lra|].
  simpl. assert (0 < z ^ b) by (apply pow_lt; lra). nra.
Qed.

Lemma co_partial_tail : forall s z K M, 2 <= s -> 0 < z <= 1 -> (1 <= K)%nat -> (K <= M)%nat ->
  psum (co_term s z) M - psum (co_term s z) K <= z ^ (S K) * (Rpower (INR K) (2 - s) * (/ INR K - / INR M)).
Proof.
  intros s z K M Hs Hz HK H. induction H as [|M H IH].
  - lra.
  - cbn [psum].
    pose proof (pl_term_telescope s K (S M) Hs HK ltac:(lia)) as Ht.
    replace (S M - 1)%nat with M in Ht by lia.
    assert (Hz1 : z ^ S M <= z ^ S K) by (apply pow_le_anti; [exact Hz | lia]).
    assert (Hz0 : 0 < z ^ S M) by (apply pow_lt; lra).
    assert (Hp : 0 < pl_term s (S M)) by apply pl_term_pos.
    assert (Hc : co_term s z (S M) <= z ^ S K * (Rpower (INR K) (2 - s) * (/ INR M - / INR (S M)))).
    { unfold co_term. fold (pl_term s (S M)). apply Rmult_le_compat; lra. }
    lra.
Qed.

Theorem polylog_tail : forall s z K, 2 <= s -> 0 < z <= 1 -> (1 <= K)%nat ->
  ex_series (fun n => co_term s z (S n)) /\
  0 <= polylog s z - psum (co_term s z) K <= z ^ (S K) * Rpower (INR K) (1 - s).
Proof.
  intros s z K Hs Hz HK. unfold polylog. apply tail_from_partial.
  - intros j. left. apply co_term_pos. lra.
  - intros M HM. pose proof (co_partial_tail s z K M Hs Hz HK HM) as Hp.
    rewrite <- Rpower_split by exact HK.
    assert (0 < Rpower (INR K) (2 - s)) by apply exp_pos.
    assert (0 < / INR M) by (apply Rinv_0_lt_compat, INR_pos; lia).
    assert (0 < z ^ S K) by (apply pow_lt; lra).
    assert (Rpower (INR K) (2 - s) * (/ INR K - / INR M) <= Rpower (INR K) (2 - s) * / INR K) by nra.
    nra.
Qed.

(* ------------------------------------------------------------------ Part F *)

Lemma pl_term_1 : forall s, pl_term s 1 = 1.
Proof. intros s. unfold pl_term, Rpower. simpl INR. rewrite ln_1, Rmult_0_r. apply exp_0. Qed.

Lemma psum_pl_ge_1 : forall s K, (1 <= K)%nat -> 1 <= psum (pl_term s) K.
Proof.
  intros s K HK. rewrite <- (pl_term_1 s) at 1.
  replace (pl_term s 1) with (psum (pl_term s) 1) by (cbn [psum]; ring).
  apply psum_incr; [intros j; left; apply pl_term_pos | exact HK].
Qed.

Lemma co_term_1 : forall s z, co_term s z 1 = z.
Proof. intros s z. unfold co_term. fold (pl_term s 1). rewrite pl_term_1. simpl. ring. Qed.

Lemma psum_co_ge_z : forall s z K, 0 < z -> (1 <= K)%nat -> z <= psum (co_term s z) K.
Proof.
  intros s z K Hz HK. rewrite <- (co_term_1 s z) at 1.
  replace (co_term s z 1) with (psum (co_term s z) 1) by (cbn [psum]; ring).
  apply psum_incr; [intros j; left; apply co_term_pos, Hz | exact HK].
Qed.

(* ---- the truncated power law: sums to zeta / Z_K, within K^(1-s) of 1; each value within
        K^(1-s) (relative) of the exact law *)
Theorem power_law_sum : forall s K, 2 <= s -> (1 <= K)%nat ->
  is_series (fun n => power_law_R s K (S n)) (zeta s / psum (pl_term s) K) /\
  0 <= zeta s / psum (pl_term s) K - 1 <= Rpower (INR K) (1 - s).
Proof.
  intros s K Hs HK. destruct (zeta_tail s K Hs HK) as [Hex [H0 H1]].
  pose proof (psum_pl_ge_1 s K HK) as HZ. split.
  - unfold power_law_R, Rdiv. apply is_series_scal_r. apply Series_correct in Hex. exact Hex.
  - set (Z := psum (pl_term s) K) in *. set (B := Rpower (INR K) (1 - s)) in *.
    replace (zeta s / Z - 1) with ((zeta s - Z) / Z) by (field; lra).
    split.
    + apply Rmult_le_pos; [lra | left; apply Rinv_0_lt_compat; lra].
    + apply Rle_trans with ((zeta s - Z) / 1); [|lra].
      unfold Rdiv. apply Rmult_le_compat_l; [lra|]. apply Rinv_le_contravar; lra.
Qed.

Theorem power_law_pointwise : forall s K k, 2 <= s -> (1 <= K)%nat ->
  0 <= power_law_R s K k - power_law_exact s k <= Rpower (INR K) (1 - s) * power_law_exact s k.
Proof.
  intros s K k Hs HK. destruct (zeta_tail s K Hs HK) as [_ [H0 H1]].
  pose proof (psum_pl_ge_1 s K HK) as HZ. pose proof (pl_term_pos s k) as Ht.
  unfold power_law_R, power_law_exact.
  set (Z := psum (pl_term s) K) in *. set (B := Rpower (INR K) (1 - s)) in *. set (t := pl_term s k) in *.
  assert (Hz : 0 < zeta s) by lra.
  replace (t / Z - t / zeta s) with (t / zeta s * ((zeta s - Z) / Z)) by (field; lra).
  assert (He : 0 < t / zeta s) by (apply Rdiv_lt_0_compat; lra).
  assert (Hq : 0 <= (zeta s - Z) / Z <= B).
  { split; [apply Rmult_le_pos; [lra | left; apply Rinv_0_lt_compat; lra]|].
    apply Rle_trans with ((zeta s - Z) / 1); [|lra].
    unfold Rdiv. apply Rmult_le_compat_l; [lra|]. apply Rinv_le_contravar; lra. }
  split; [apply Rmult_le_pos; lra | rewrite (Rmult_comm B); apply Rmult_le_compat_l; lra].
Qed.

(* ---- the cut-off law *)
Lemma cutoff_z_pow : forall kappa k, cutoff_z kappa ^ k = exp (- INR k / kappa).
Proof.
  intros kappa k. unfold cutoff_z. rewrite <- exp_mult_nat. f_equal. unfold Rdiv. ring.
Qed.

Lemma cutoff_R_co_term : forall s kappa K k,
  cutoff_R s kappa K k = co_term s (cutoff_z kappa) k / psum (co_term s (cutoff_z kappa)) K.
Proof.
  intros. unfold cutoff_R, co_term. fold (pl_term s k). rewrite cutoff_z_pow. unfold Rdiv. ring.
Qed.

Lemma cutoff_exact_co_term : forall s kappa k,
  cutoff_exact s kappa k = co_term s (cutoff_z kappa) k / polylog s (cutoff_z kappa).
Proof.
  intros. unfold cutoff_exact, co_term. fold (pl_term s k). rewrite cutoff_z_pow. unfold Rdiv. ring.
Qed.

Lemma cutoff_z_range : forall kappa, 0 < kappa -> 0 < cutoff_z kappa < 1.
Proof.
  intros kappa Hk. split; [apply exp_pos|]. unfold cutoff_z. rewrite <- exp_0. apply exp_increasing.
  assert (0 < / kappa) by (apply Rinv_0_lt_compat, Hk). unfold Rdiv. lra.
Qed.

Lemma cutoff_ratio : forall s z K, 2 <= s -> 0 < z <= 1 -> (1 <= K)%nat ->
  0 <= (polylog s z - psum (co_term s z) K) / psum (co_term s z) K <= Rpower (INR K) (1 - s).
Proof.
  intros s z K Hs Hz HK. destruct (polylog_tail s z K Hs Hz HK) as [_ [H0 H1]].
  pose proof (psum_co_ge_z s z K ltac:(lra) HK) as HZ.
  set (Z := psum (co_term s z) K) in *. set (B := Rpower (INR K) (1 - s)) in *.
  assert (HB : 0 < B) by apply exp_pos.
  split; [apply Rmult_le_pos; [lra | left; apply Rinv_0_lt_compat; lra]|].
  apply Rle_trans with ((z ^ S K * B) / z).
  - unfold Rdiv. apply Rmult_le_compat; try lra.
    + left. apply Rinv_0_lt_compat. lra.
    + apply Rinv_le_contravar; lra.
  - simpl. replace (z * z ^ K * B / z) with (z ^ K * B) by (field; lra).
    assert (z ^ K <= 1) by (rewrite <- (pow1 K); apply pow_incr; lra).
    assert (0 < z ^ K) by (apply pow_lt; lra). nra.
Qed.

Theorem cutoff_sum : forall s kappa K, 2 <= s -> 0 < kappa -> (1 <= K)%nat ->
  let z := cutoff_z kappa in
  is_series (fun n => cutoff_R s kappa K (S n)) (polylog s z / psum (co_term s z) K) /\
  0 <= polylog s z / psum (co_term s z) K - 1 <= Rpower (INR K) (1 - s).
Proof.
  intros s kappa K Hs Hk HK z. pose proof (cutoff_z_range kappa Hk) as Hz. fold z in Hz.
  destruct (polylog_tail s z K Hs ltac:(lra) HK) as [Hex _].
  pose proof (psum_co_ge_z s z K ltac:(lra) HK) as HZ. split.
  - eapply is_series_ext; [intros n; symmetry; apply cutoff_R_co_term|]. fold z.
    unfold Rdiv. apply is_series_scal_r. apply Series_correct in Hex. exact Hex.
  - pose proof (cutoff_ratio s z K Hs ltac:(lra) HK) as Hr.
    replace (polylog s z / psum (co_term s z) K - 1)
      with ((polylog s z - psum (co_term s z) K) / psum (co_term s z) K) by (field; lra).
    exact Hr.
Qed.

Theorem cutoff_pointwise : forall s kappa K k, 2 <= s -> 0 < kappa -> (1 <= K)%nat ->
  0 <= cutoff_R s kappa K k - cutoff_exact s kappa k <= Rpower (INR K) (1 - s) * cutoff_exact s kappa k.
Proof.
  intros s kappa K k Hs Hk HK. pose proof (cutoff_z_range kappa Hk) as Hz.
  rewrite cutoff_R_co_term, cutoff_exact_co_term.
  set (z := cutoff_z kappa) in *.
  destruct (polylog_tail s z K Hs ltac:(lra) HK) as [_ [H0 _]].
  pose proof (cutoff_ratio s z K Hs ltac:(lra) HK) as Hq.
  pose proof (psum_co_ge_z s z K ltac:(lra) HK) as HZ.
  pose proof (co_term_pos s z k ltac:(lra)) as Ht.
  set (Z := psum (co_term s z) K) in *. set (B := Rpower (INR K) (1 - s)) in *. set (t := co_term s z k) in *.
  set (P := polylog s z) in *.
  assert (HP : 0 < P) by lra.
  replace (t / Z - t / P) with (t / P * ((P - Z) / Z)) by (field; lra).
  assert (He : 0 < t / P) by (apply Rdiv_lt_0_compat; lra).
  split; [apply Rmult_le_pos; lra | rewrite (Rmult_comm B); apply Rmult_le_compat_l; lra].
Qed.

(* ------------------------------------------------------------------ Part G *)

(* ---- the constants *)
Lemma Q2R_pos : forall q, (0 < q)%Q -> 0 < Q2R q.
Proof. intros q H. rewrite <- RMicromega.Q2R_0. apply Qlt_Rlt, H. Qed.
Lemma Q2R_nonneg : forall q, (0 <= q)%Q -> 0 <= Q2R q.
Proof. intros q H. rewrite <- RMicromega.Q2R_0. apply Qle_Rle, H. Qed.

Lemma tolR_pos : 0 < tolR.
Proof. apply Q2R_pos. reflexivity. Qed.
Lemma tol_lo_le : tol_lo <= tolR.
Proof. apply Qle_Rle. unfold Qle. vm_compute. discriminate. Qed.
Lemma tol_hi_ge : tolR <= tol_hi.
Proof. apply Qle_Rle. unfold Qle. vm_compute. discriminate. Qed.
Lemma relR_nonneg : 0 <= relR.
Proof. apply Q2R_nonneg. unfold Qle. vm_compute. discriminate. Qed.
Lemma absR_nonneg : 0 <= absR.
Proof. apply Q2R_nonneg. unfold Qle. vm_compute. discriminate. Qed.

Lemma is_break_near_break : forall t K, is_break t K -> near_break t K.
Proof.
  intros t K [H1 [H2 H3]]. split; [exact H1|]. split.
  - pose proof tol_hi_ge. lra.
  - intros j Hj. specialize (H3 j Hj). pose proof tol_lo_le. lra.
Qed.

(* ---- termination of the truncation loops: a break index exists as soon as some term is small *)
Lemma least_break : forall t, (exists j, (1 <= j)%nat /\ Rabs (t j) < tolR) -> exists K, is_break t K.
Proof.
  intros t [j0 [Hj0 Hs0]].
  assert (H : forall n, (forall j, (1 <= j <= n)%nat -> tolR <= Rabs (t j)) \/ exists K, (K <= n)%nat /\ is_break t K).
  { induction n as [|n [IH|[K [HK Hb]]]].
    - left. intros j Hj. lia.
    - destruct (Rlt_dec (Rabs (t (S n))) tolR) as [Hlt|Hge].
      + right. exists (S n). split; [lia|]. split; [lia|]. split; [exact Hlt|].
        intros j Hj. apply IH. lia.
      + left. intros j Hj. destruct (Nat.eq_dec j (S n)) as [->|Hn]; [apply Rnot_lt_le, Hge | apply IH; lia].
    - right. exists K. split; [lia | exact Hb]. }
  destruct (H j0) as [Hall|[K [_ Hb]]].
  - specialize (Hall j0 ltac:(lia)). lra.
  - exists K. exact Hb.
Qed.

Lemma pl_term_small : forall s eps, 0 < s -> 0 < eps -> exists j, (1 <= j)%nat /\ pl_term s j < eps.
Proof.
  intros s eps Hs He.
  set (x := exp (- ln eps / s)).
  assert (Hx : 0 < x) by apply exp_pos.
  destruct (nfloor_ex x ltac:(lra)) as [n [Hn1 Hn2]].
  exists (S n). split; [lia|].
  unfold pl_term, Rpower. rewrite <- (exp_ln eps He). apply exp_increasing.
  rewrite S_INR.
  assert (Hl : ln x < ln (INR n + 1)) by (apply ln_increasing; lra).
  unfold x in Hl. rewrite ln_exp in Hl.
  assert (Hm : s * (- ln eps / s) < s * ln (INR n + 1)) by (apply Rmult_lt_compat_l; lra).
  replace (s * (- ln eps / s)) with (- ln eps) in Hm by (field; lra). lra.
Qed.

Theorem power_law_loop_terminates : forall s, 0 < s -> exists K, is_break (pl_term s) K.
Proof.
  intros s Hs. apply least_break.
  destruct (pl_term_small s tolR Hs tolR_pos) as [j [Hj Hlt]].
  exists j. split; [exact Hj|]. rewrite Rabs_pos_eq; [exact Hlt | left; apply pl_term_pos].
Qed.

Theorem cutoff_loop_terminates : forall s z, 0 < s -> 0 < z <= 1 -> exists K, is_break (co_term s z) K.
Proof.
  intros s z Hs Hz. apply least_break.
  destruct (pl_term_small s tolR Hs tolR_pos) as [j [Hj Hlt]].
  exists j. split; [exact Hj|].
  pose proof (co_term_pos s z j ltac:(lra)) as Hc. rewrite Rabs_pos_eq by lra.
  unfold co_term. fold (pl_term s j).
  assert (z ^ j <= 1) by (rewrite <- (pow1 j); apply pow_incr; lra).
  assert (0 < z ^ j) by (apply pow_lt; lra).
  pose proof (pl_term_pos s j). nra.
Qed.

(* ---- the model's own values satisfy the specification the checker enforces *)
Lemma near_refl : forall x, near x x.
Proof.
  intros x. unfold near. replace (x - x) with 0 by ring. rewrite Rabs_R0.
  pose proof relR_nonneg. pose proof absR_nonneg. pose proof (Rabs_pos x). nra.
Qed.

Theorem model_exponential_spec : forall a k, 0 < a -> Spec_exponential a k (exponential_R a k).
Proof. intros a k Ha. split; [apply exponential_nonneg; lra | apply near_refl]. Qed.

Theorem model_poisson_spec : forall m k, 0 < m -> Spec_poisson m k (poisson_R m k).
Proof. intros m k Hm. split; [apply poisson_nonneg; lra | apply near_refl]. Qed.

Theorem model_power_law_spec : forall s K k, is_break (pl_term s) K -> Spec_power_law s k (power_law_R s K k).
Proof.
  intros s K k Hb. split.
  - left. apply power_law_pos. destruct Hb as [H _]. exact H.
  - exists K. split; [apply is_break_near_break, Hb | apply near_refl].
Qed.

Theorem model_cutoff_spec : forall s kappa K k,
  is_break (co_term s (cutoff_z kappa)) K -> Spec_cutoff s kappa k (cutoff_R s kappa K k).
Proof.
  intros s kappa K k Hb. split.
  - left. apply cutoff_pos. destruct Hb as [H _]. exact H.
  - exists K. split; [apply is_break_near_break, Hb | apply near_refl].
Qed.

(* ---- what the specification says about the NAMED laws (full zeta / polylogarithm) *)
Lemma near_exact : forall x p e B, 0 <= B -> 0 < e -> 0 <= p - e <= B * e -> near x p ->
  Rabs (x - e) <= (B + relR * (1 + B)) * e + absR.
Proof.
  intros x p e B HB He Hp Hn. unfold near in Hn.
  assert (Hpp : 0 < p) by nra.
  rewrite (Rabs_pos_eq p) in Hn by lra.
  replace (x - e) with ((x - p) + (p - e)) by ring.
  eapply Rle_trans; [apply Rabs_triang|].
  rewrite (Rabs_pos_eq (p - e)) by lra.
  pose proof relR_nonneg. nra.
Qed.

Theorem spec_power_law_exact : forall s k x, 2 <= s -> Spec_power_law s k x ->
  0 <= x /\ exists K, near_break (pl_term s) K /\
    Rabs (x - power_law_exact s k)
      <= (Rpower (INR K) (1 - s) + relR * (1 + Rpower (INR K) (1 - s))) * power_law_exact s k + absR.
Proof.
  intros s k x Hs [H0 [K [Hb Hn]]]. split; [exact H0|]. exists K. split; [exact Hb|].
  assert (HK : (1 <= K)%nat) by (destruct Hb as [H _]; exact H).
  pose proof (power_law_pointwise s K k Hs HK) as Hp.
  destruct (zeta_tail s K Hs HK) as [_ [Hz0 _]]. pose proof (psum_pl_ge_1 s K HK).
  apply (near_exact x (power_law_R s K k)); [left; apply exp_pos | | exact Hp | exact Hn].
  unfold power_law_exact. apply Rdiv_lt_0_compat; [apply pl_term_pos | lra].
Qed.

Theorem spec_cutoff_exact : forall s kappa k x, 2 <= s -> 0 < kappa -> Spec_cutoff s kappa k x ->
  0 <= x /\ exists K, near_break (co_term s (cutoff_z kappa)) K /\
    Rabs (x - cutoff_exact s kappa k)
      <= (Rpower (INR K) (1 - s) + relR * (1 + Rpower (INR K) (1 - s))) * cutoff_exact s kappa k + absR.
Proof.
  intros s kappa k x Hs Hk [H0 [K [Hb Hn]]]. split; [exact H0|]. exists K. split; [exact Hb|].
  assert (HK : (1 <= K)%nat) by (destruct Hb as [H _]; exact H).
  pose proof (cutoff_pointwise s kappa K k Hs Hk HK) as Hp.
  pose proof (cutoff_z_range kappa Hk) as Hz.
  destruct (polylog_tail s (cutoff_z kappa) K Hs ltac:(lra) HK) as [_ [Hz0 _]].
  pose proof (psum_co_ge_z s (cutoff_z kappa) K ltac:(lra) HK).
  apply (near_exact x (cutoff_R s kappa K k)); [left; apply exp_pos | | exact Hp | exact Hn].
  rewrite cutoff_exact_co_term. apply Rdiv_lt_0_compat; [apply co_term_pos; lra | lra].
Qed.

(* absolute form of the pointwise bounds (the exact laws are at most 1 on the support) *)
Lemma pl_term_le_1 : forall s k, 0 <= s -> (1 <= k)%nat -> pl_term s k <= 1.
Proof.
  intros s k Hs Hk. unfold pl_term, Rpower. rewrite <- exp_0.
  assert (0 <= ln (INR k)).
  { rewrite <- ln_1. destruct (Nat.eq_dec k 1) as [->|Hn]; [simpl; lra|].
    left. apply ln_increasing; [lra|]. replace 1 with (INR 1) by reflexivity. apply lt_INR. lia. }
  destruct (Req_dec (- s * ln (INR k)) 0) as [->|Hne]; [lra|].
  left. apply exp_increasing. nra.
Qed.

Theorem power_law_pointwise_abs : forall s K k, 2 <= s -> (1 <= K)%nat -> (1 <= k)%nat ->
  Rabs (power_law_R s K k - power_law_exact s k) <= Rpower (INR K) (1 - s).
Proof.
  intros s K k Hs HK Hk. pose proof (power_law_pointwise s K k Hs HK) as [H0 H1].
  rewrite Rabs_pos_eq by exact H0.
  destruct (zeta_tail s K Hs HK) as [_ [Hz0 _]]. pose proof (psum_pl_ge_1 s K HK) as HZ.
  pose proof (pl_term_le_1 s k ltac:(lra) Hk) as Ht. pose proof (pl_term_pos s k) as Htp.
  assert (He : power_law_exact s k <= 1).
  { unfold power_law_exact. apply Rle_trans with (1 / 1); [|lra].
    unfold Rdiv. apply Rmult_le_compat; try lra.
    - left. apply Rinv_0_lt_compat. lra.
    - apply Rinv_le_contravar; lra. }
  assert (0 < Rpower (INR K) (1 - s)) by apply exp_pos.
  assert (0 < power_law_exact s k) by (unfold power_law_exact; apply Rdiv_lt_0_compat; lra).
  nra.
Qed.

Theorem cutoff_pointwise_abs : forall s kappa K k, 2 <= s -> 0 < kappa -> (1 <= K)%nat -> (1 <= k)%nat ->
  Rabs (cutoff_R s kappa K k - cutoff_exact s kappa k) <= Rpower (INR K) (1 - s).
Proof.
  intros s kappa K k Hs Hka HK Hk. pose proof (cutoff_pointwise s kappa K k Hs Hka HK) as [H0 H1].
  rewrite Rabs_pos_eq by exact H0.
  pose proof (cutoff_z_range kappa Hka) as Hz.
  set (z := cutoff_z kappa) in *.
  destruct (polylog_tail s z K Hs ltac:(lra) HK) as [Hex [Hz0 _]].
  (* the exact law is at most 1: its numerator is one term of the series in the denominator *)
  assert (He : cutoff_exact s kappa k <= 1).
  { rewrite cutoff_exact_co_term. fold z.
    destruct (polylog_tail s z k Hs ltac:(lra) Hk) as [_ [Hk0 _]].
    assert (Hle : co_term s z k <= psum (co_term s z) k).
    { destruct k as [|k]; [lia|]. cbn [psum].
      pose proof (psum_nonneg (co_term s z) k ltac:(intros j; left; apply co_term_pos; lra)). lra. }
    pose proof (co_term_pos s z k ltac:(lra)).
    apply Rle_trans with (polylog s z / polylog s z); [|right; field; lra].
    unfold Rdiv. apply Rmult_le_compat_r; [left; apply Rinv_0_lt_compat; lra | lra]. }
  assert (0 < Rpower (INR K) (1 - s)) by apply exp_pos.
  assert (0 < cutoff_exact s kappa k).
  { rewrite cutoff_exact_co_term. fold z. pose proof (psum_co_ge_z s z K ltac:(lra) HK).
    apply Rdiv_lt_0_compat; [apply co_term_pos; lra | lra]. }
  nra.
Qed.

(* for every valid parameter and degree the loop stops and the model's value meets the specification *)
Theorem model_power_law_total : forall s k, 0 < s ->
  exists K, is_break (pl_term s) K /\ Spec_power_law s k (power_law_R s K k).
Proof.
  intros s k Hs. destruct (power_law_loop_terminates s Hs) as [K HK].
  exists K. split; [exact HK | apply model_power_law_spec, HK].
Qed.

Theorem model_cutoff_total : forall s kappa k, 0 < s -> 0 < kappa ->
  exists K, is_break (co_term s (cutoff_z kappa)) K /\ Spec_cutoff s kappa k (cutoff_R s kappa K k).
Proof.
  intros s kappa k Hs Hk. pose proof (cutoff_z_range kappa Hk) as Hz.
  destruct (cutoff_loop_terminates s (cutoff_z kappa) Hs ltac:(lra)) as [K HK].
  exists K. split; [exact HK | apply model_cutoff_spec, HK].
Qed.

(* ------------------------------------------------------------------ Part H *)

(* ---- the batch entry point the harness evaluates: entry 3 + 3 i of the output is the verdict for case i *)
Lemma mid_ZZ_length : forall E, length (mid_ZZ E) = 2%nat.
Proof. intros E. unfold mid_ZZ. destruct (F.toF (I.midpoint E)); reflexivity. Qed.

Lemma eval_cases_nth : forall sf encl chk cases i k x,
  nth_error cases i = Some (k, x) ->
  nth (3 * i) (eval_cases sf encl chk cases) 0%Z = 1%Z ->
  (sf <= k)%nat /\ chk k x = true.
Proof.
  intros sf encl chk cases. induction cases as [|[k0 x0] cases IH]; intros i k x Hn Hv.
  - destruct i; discriminate.
  - unfold eval_cases in *. cbn [flat_map fst snd] in Hv.
    destruct i as [|i].
    + cbn [nth_error] in Hn. injection Hn as -> ->.
      replace (3 * 0)%nat with 0%nat in Hv by lia.
      destruct (Nat.ltb k sf) eqn:El.
      * cbn in Hv. discriminate.
      * cbn [app nth] in Hv. apply Nat.ltb_ge in El. split; [exact El|].
        destruct (chk k x); [reflexivity | discriminate].
    + cbn [nth_error] in Hn.
      replace (3 * S i)%nat with (3 + 3 * i)%nat in Hv by lia.
      apply (IH i k x Hn).
      destruct (Nat.ltb k0 sf).
      * cbn [app] in Hv. exact Hv.
      * pose proof (mid_ZZ_length (encl k0 x0)) as Hl.
        destruct (mid_ZZ (encl k0 x0)) as [|m1 [|m2 [|m3 r]]]; try discriminate.
        cbn [app] in Hv. exact Hv.
Qed.

Lemma nth_app_3 : forall (a b c : Z) l n, nth (3 + n) ([a; b; c] ++ l) 0%Z = nth n l 0%Z.
Proof. intros. reflexivity. Qed.

Lemma nth_short3 : forall (a b c : Z) n, nth (3 + n) [a; b; c] 0%Z = 1%Z -> False.
Proof. intros a b c n H. cbn in H. destruct n; discriminate. Qed.

Theorem c19_eval_exponential_sound : forall a cases i k x,
  nth_error cases i = Some (k, x) ->
  nth (3 + 3 * i) (c19_eval 0 [a] cases) 0%Z = 1%Z ->
  Spec_exponential (Q2R a) k (Q2R x).
Proof.
  intros a cases i k x Hn Hv. unfold c19_eval in Hv. cbn [nth] in Hv.
  destruct (valid_exponential a).
  - rewrite nth_app_3 in Hv. apply eval_cases_nth with (k := k) (x := x) in Hv; [|exact Hn].
    apply check_exponential_sound, Hv.
  - apply nth_short3 in Hv. contradiction.
Qed.

Theorem c19_eval_poisson_sound : forall m cases i k x,
  nth_error cases i = Some (k, x) ->
  nth (3 + 3 * i) (c19_eval 1 [m] cases) 0%Z = 1%Z ->
  Spec_poisson (Q2R m) k (Q2R x).
Proof.
  intros m cases i k x Hn Hv. unfold c19_eval in Hv. cbn [nth] in Hv.
  destruct (valid_poisson m).
  - rewrite nth_app_3 in Hv. apply eval_cases_nth with (k := k) (x := x) in Hv; [|exact Hn].
    apply check_poisson_sound, Hv.
  - apply nth_short3 in Hv. contradiction.
Qed.

Theorem c19_eval_power_law_sound : forall s cases i k x,
  nth_error cases i = Some (k, x) ->
  nth (3 + 3 * i) (c19_eval 2 [s] cases) 0%Z = 1%Z ->
  (1 <= k)%nat /\ Spec_power_law (Q2R s) k (Q2R x).
Proof.
  intros s cases i k x Hn Hv. unfold c19_eval in Hv. cbn [nth] in Hv.
  destruct (valid_power_law s); [|apply nth_short3 in Hv; contradiction].
  destruct (cands_power_law FUEL s) as [[|[Khi N] rest]|] eqn:Ec; try (apply nth_short3 in Hv; contradiction).
  rewrite nth_app_3 in Hv. apply eval_cases_nth with (k := k) (x := x) in Hv; [|exact Hn].
  destruct Hv as [Hk Hc]. split; [exact Hk|].
  eapply check_power_law_sound; [exact Ec | exact Hc].
Qed.

Theorem c19_eval_cutoff_sound : forall s kappa cases i k x,
  nth_error cases i = Some (k, x) ->
  nth (3 + 3 * i) (c19_eval 3 [s; kappa] cases) 0%Z = 1%Z ->
  (1 <= k)%nat /\ Spec_cutoff (Q2R s) (Q2R kappa) k (Q2R x).
Proof.
  intros s kappa cases i k x Hn Hv. unfold c19_eval in Hv. cbn [nth] in Hv.
  destruct (valid_cutoff s kappa); [|apply nth_short3 in Hv; contradiction].
  destruct (cands_cutoff FUEL s kappa) as [[|[Khi N] rest]|] eqn:Ec; try (apply nth_short3 in Hv; contradiction).
  rewrite nth_app_3 in Hv. apply eval_cases_nth with (k := k) (x := x) in Hv; [|exact Hn].
  destruct Hv as [Hk Hc]. split; [exact Hk|].
  eapply check_cutoff_sound; [exact Ec | exact Hc].
Qed.

(* ------------------------------------------------------------------ Part I *)

(* ---- sharper relative tail for the cut-off law: the factor z^K is kept *)
Lemma cutoff_ratio_sharp : forall s z K, 2 <= s -> 0 < z <= 1 -> (1 <= K)%nat ->
  0 <= (polylog s z - psum (co_term s z) K) / psum (co_term s z) K <= z ^ K * Rpower (INR K) (1 - s).
Proof.
  intros s z K Hs Hz HK. destruct (polylog_tail s z K Hs Hz HK) as [_ [H0 H1]].
  pose proof (psum_co_ge_z s z K ltac:(lra) HK) as HZ.
  set (Z := psum (co_term s z) K) in *. set (B := Rpower (INR K) (1 - s)) in *.
  assert (HB : 0 < B) by apply exp_pos.
  split; [apply Rmult_le_pos; [lra | left; apply Rinv_0_lt_compat; lra]|].
  apply Rle_trans with ((z ^ S K * B) / z).
  - unfold Rdiv. apply Rmult_le_compat; try lra.
    + left. apply Rinv_0_lt_compat. lra.
    + apply Rinv_le_contravar; lra.
  - simpl. right. field. lra.
Qed.

Theorem cutoff_pointwise_sharp : forall s kappa K k, 2 <= s -> 0 < kappa -> (1 <= K)%nat ->
  0 <= cutoff_R s kappa K k - cutoff_exact s kappa k
    <= cutoff_z kappa ^ K * Rpower (INR K) (1 - s) * cutoff_exact s kappa k.
Proof.
  intros s kappa K k Hs Hk HK. pose proof (cutoff_z_range kappa Hk) as Hz.
  rewrite cutoff_R_co_term, cutoff_exact_co_term.
  set (z := cutoff_z kappa) in *.
  destruct (polylog_tail s z K Hs ltac:(lra) HK) as [_ [H0 _]].
  pose proof (cutoff_ratio_sharp s z K Hs ltac:(lra) HK) as Hq.
  pose proof (psum_co_ge_z s z K ltac:(lra) HK) as HZ.
  pose proof (co_term_pos s z k ltac:(lra)) as Ht.
  set (Z := psum (co_term s z) K) in *. set (B := z ^ K * Rpower (INR K) (1 - s)) in *. set (t := co_term s z k) in *.
  set (P := polylog s z) in *.
  assert (HP : 0 < P) by lra.
  replace (t / Z - t / P) with (t / P * ((P - Z) / Z)) by (field; lra).
  assert (He : 0 < t / P) by (apply Rdiv_lt_0_compat; lra).
  split; [apply Rmult_le_pos; lra | rewrite (Rmult_comm B); apply Rmult_le_compat_l; lra].
Qed.

Theorem cutoff_sum_sharp : forall s kappa K, 2 <= s -> 0 < kappa -> (1 <= K)%nat ->
  let z := cutoff_z kappa in
  0 <= polylog s z / psum (co_term s z) K - 1 <= z ^ K * Rpower (INR K) (1 - s).
Proof.
  intros s kappa K Hs Hk HK z. pose proof (cutoff_z_range kappa Hk) as Hz. fold z in Hz.
  pose proof (psum_co_ge_z s z K ltac:(lra) HK) as HZ.
  pose proof (cutoff_ratio_sharp s z K Hs ltac:(lra) HK) as Hr.
  replace (polylog s z / psum (co_term s z) K - 1)
    with ((polylog s z - psum (co_term s z) K) / psum (co_term s z) K) by (field; lra).
  exact Hr.
Qed.

(* ---- the series-truncation tolerance in closed form: at every index where the loop may stop,
        the relative tail is below 1001 * tol_hi (< 1.002e-3), for every s >= 2 *)
Lemma tol_hi_lt_1 : tol_hi < 1.
Proof. replace 1 with (Q2R 1) by (unfold Q2R; simpl; lra). apply Qlt_Rlt. reflexivity. Qed.

Lemma tol_lo_big : / (1001 * 1001) < tol_lo.
Proof.
  replace (/ (1001 * 1001)) with (Q2R (1 # 1002001)) by (unfold Q2R; simpl; lra).
  apply Qlt_Rlt. reflexivity.
Qed.

Lemma pl_term_le_sq : forall s j, 2 <= s -> (1 <= j)%nat -> pl_term s j <= / (INR j * INR j).
Proof.
  intros s j Hs Hj. pose proof (INR_pos j Hj) as HjR.
  rewrite <- Rpower_m2 by exact HjR. unfold pl_term, Rpower.
  assert (0 <= ln (INR j)).
  { rewrite <- ln_1. destruct (Nat.eq_dec j 1) as [->|Hn]; [simpl; lra|].
    left. apply ln_increasing; [lra|]. replace 1 with (INR 1) by reflexivity. apply lt_INR. lia. }
  destruct (Req_dec (- s * ln (INR j)) (- 2 * ln (INR j))) as [->|Hne]; [lra|].
  left. apply exp_increasing. nra.
Qed.

Lemma near_break_index_le : forall s t K, 2 <= s ->
  (forall j, 0 < t j <= pl_term s j) -> t 1%nat = 1 \/ (2 <= K)%nat ->
  near_break t K -> (2 <= K <= 1001)%nat.
Proof.
  intros s t K Hs Ht H1 [HK [Hhi Hlo]].
  assert (HK2 : (2 <= K)%nat).
  { destruct H1 as [H1|H1]; [|exact H1].
    destruct (Nat.eq_dec K 1) as [->|Hn]; [|lia].
    rewrite H1, Rabs_R1 in Hhi. pose proof tol_hi_lt_1. lra. }
  split; [exact HK2|].
  destruct (le_lt_dec K 1001) as [Hle|Hgt]; [exact Hle|exfalso].
  specialize (Hlo (K - 1)%nat ltac:(lia)).
  destruct (Ht (K - 1)%nat) as [Ht0 Ht1].
  rewrite Rabs_pos_eq in Hlo by lra.
  pose proof (pl_term_le_sq s (K - 1) Hs ltac:(lia)) as Hsq.
  assert (Hj : 1001 <= INR (K - 1)).
  { replace 1001 with (INR 1001) by (simpl; lra). apply le_INR. lia. }
  assert (Hinv : / (INR (K - 1) * INR (K - 1)) <= / (1001 * 1001)).
  { apply Rinv_le_contravar; [lra | nra]. }
  pose proof tol_lo_big. lra.
Qed.

Theorem trunc_tolerance_power_law : forall s K, 2 <= s -> near_break (pl_term s) K ->
  Rpower (INR K) (1 - s) < 1001 * tol_hi.
Proof.
  intros s K Hs Hb.
  pose proof (near_break_index_le s (pl_term s) K Hs
                (fun j => conj (pl_term_pos s j) (Rle_refl _)) (or_introl (pl_term_1 s)) Hb) as [HK2 HK].
  destruct Hb as [_ [Hhi _]]. rewrite Rabs_pos_eq in Hhi by (left; apply pl_term_pos).
  pose proof (INR_pos K ltac:(lia)) as HKR.
  replace (1 - s) with (1 + - s) by ring. rewrite Rpower_plus, Rpower_1 by exact HKR.
  fold (pl_term s K).
  assert (INR K <= 1001) by (replace 1001 with (INR 1001) by (simpl; lra); apply le_INR; lia).
  pose proof (pl_term_pos s K).
  apply Rle_lt_trans with (1001 * pl_term s K); [apply Rmult_le_compat_r; lra | apply Rmult_lt_compat_l; lra].
Qed.

Theorem trunc_tolerance_cutoff : forall s z K, 2 <= s -> 0 < z <= 1 -> near_break (co_term s z) K ->
  z ^ K * Rpower (INR K) (1 - s) < 1001 * tol_hi.
Proof.
  intros s z K Hs Hz Hb.
  assert (Hco : forall j, 0 < co_term s z j <= pl_term s j).
  { intros j. split; [apply co_term_pos; lra|]. unfold co_term. fold (pl_term s j).
    assert (z ^ j <= 1) by (rewrite <- (pow1 j); apply pow_incr; lra).
    assert (0 < z ^ j) by (apply pow_lt; lra). pose proof (pl_term_pos s j). nra. }
  destruct (Nat.eq_dec K 1) as [->|Hn].
  - (* a single term: z * 1 < tol_hi *)
    destruct Hb as [_ [Hhi _]]. rewrite co_term_1, Rabs_pos_eq in Hhi by lra.
    simpl INR. replace (Rpower 1 (1 - s)) with 1 by (unfold Rpower; rewrite ln_1, Rmult_0_r, exp_0; reflexivity).
    simpl. pose proof tol_hi_ge. pose proof tolR_pos. lra.
  - assert (HK1 : (1 <= K)%nat) by (destruct Hb as [H _]; exact H).
    assert (HK2' : (2 <= K)%nat) by lia.
    pose proof (near_break_index_le s (co_term s z) K Hs Hco (or_intror HK2') Hb) as [HK2 HK].
    destruct Hb as [_ [Hhi _]]. rewrite Rabs_pos_eq in Hhi by (left; apply co_term_pos; lra).
    pose proof (INR_pos K ltac:(lia)) as HKR.
    replace (1 - s) with (1 + - s) by ring. rewrite Rpower_plus, Rpower_1 by exact HKR.
    replace (z ^ K * (INR K * Rpower (INR K) (- s))) with (INR K * co_term s z K) by (unfold co_term; ring).
    assert (INR K <= 1001) by (replace 1001 with (INR 1001) by (simpl; lra); apply le_INR; lia).
    pose proof (co_term_pos s z K ltac:(lra)).
    apply Rle_lt_trans with (1001 * co_term s z K); [apply Rmult_le_compat_r; lra | apply Rmult_lt_compat_l; lra].
Qed.

Lemma trunc_tolerance_numeric : 1001 * tol_hi < 1002 / 1000000.
Proof.
  replace (1001 * tol_hi) with (Q2R (1001 * tol_hiQ)) by (rewrite Q2R_mult; unfold tol_hi, Q2R at 1; simpl; lra).
  replace (1002 / 1000000) with (Q2R (1002 # 1000000)) by (unfold Q2R; simpl; lra).
  apply Qlt_Rlt. reflexivity.
Qed.

(* ---- accepted values vs the named laws, with the tolerance in closed form *)
Definition TRUNC_TOL : R := 1002 / 1000000.

Theorem spec_power_law_exact_closed : forall s k x, 2 <= s -> Spec_power_law s k x ->
  0 <= x /\ Rabs (x - power_law_exact s k) <= (TRUNC_TOL + relR * (1 + TRUNC_TOL)) * power_law_exact s k + absR.
Proof.
  intros s k x Hs [H0 [K [Hb Hn]]]. split; [exact H0|].
  assert (HK : (1 <= K)%nat) by (destruct Hb as [H _]; exact H).
  pose proof (power_law_pointwise s K k Hs HK) as Hp.
  pose proof (trunc_tolerance_power_law s K Hs Hb) as Ht. pose proof trunc_tolerance_numeric as Hnum.
  destruct (zeta_tail s K Hs HK) as [_ [Hz0 _]]. pose proof (psum_pl_ge_1 s K HK).
  assert (He : 0 < power_law_exact s k).
  { unfold power_law_exact. apply Rdiv_lt_0_compat; [apply pl_term_pos | lra]. }
  apply (near_exact x (power_law_R s K k)); [unfold TRUNC_TOL; lra | exact He | | exact Hn].
  unfold TRUNC_TOL. split; [lra|]. destruct Hp as [_ Hp]. eapply Rle_trans; [exact Hp|].
  apply Rmult_le_compat_r; lra.
Qed.

Theorem spec_cutoff_exact_closed : forall s kappa k x, 2 <= s -> 0 < kappa -> Spec_cutoff s kappa k x ->
  0 <= x /\ Rabs (x - cutoff_exact s kappa k) <= (TRUNC_TOL + relR * (1 + TRUNC_TOL)) * cutoff_exact s kappa k + absR.
Proof.
  intros s kappa k x Hs Hk [H0 [K [Hb Hn]]]. split; [exact H0|].
  assert (HK : (1 <= K)%nat) by (destruct Hb as [H _]; exact H).
  pose proof (cutoff_z_range kappa Hk) as Hz.
  pose proof (cutoff_pointwise_sharp s kappa K k Hs Hk HK) as Hp.
  pose proof (trunc_tolerance_cutoff s (cutoff_z kappa) K Hs ltac:(lra) Hb) as Ht.
  pose proof trunc_tolerance_numeric as Hnum.
  destruct (polylog_tail s (cutoff_z kappa) K Hs ltac:(lra) HK) as [_ [Hz0 _]].
  pose proof (psum_co_ge_z s (cutoff_z kappa) K ltac:(lra) HK).
  assert (He : 0 < cutoff_exact s kappa k).
  { rewrite cutoff_exact_co_term. apply Rdiv_lt_0_compat; [apply co_term_pos; lra | lra]. }
  apply (near_exact x (cutoff_R s kappa K k)); [unfold TRUNC_TOL; lra | exact He | | exact Hn].
  unfold TRUNC_TOL. split; [lra|]. destruct Hp as [_ Hp]. eapply Rle_trans; [exact Hp|].
  apply Rmult_le_compat_r; lra.
Qed.
