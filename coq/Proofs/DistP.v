(* C19 — proofs about Model/Dist.v *)
From Coq Require Import Reals ZArith List Bool QArith Qreals Lra Lia.
From Coquelicot Require Import Coquelicot.
From Interval Require Import Specific_bigint Specific_ops Float_full Interval Xreal Basic Sig.
From GV Require Import Lib.Tree Model.Dist.
Import ListNotations.
Local Open Scope R_scope.

Lemma exponential_nonneg : forall a k, 0 <= a -> 0 <= exponential_R a k.
Proof.
  intros a k Ha. unfold exponential_R.
  apply Rmult_le_pos.
  - assert (exp (- a) <= 1).
    { rewrite <- exp_0. destruct Ha as [Ha|Ha].
      - left. apply exp_increasing. lra.
      - subst. rewrite Ropp_0. lra. }
    lra.
  - left. apply exp_pos.
Qed.
