(* Proofs about Model/Sample.v (C05): the handshake patch loop and CPython's choices rule. *)
From Coq Require Import List ZArith QArith Bool Arith Lia ZifyBool.
From GV Require Import Lib.Tree Lib.QSumL Lib.ReflL Model.Sample.
Import ListNotations.
Local Open Scope nat_scope.

(* ====================================================================== *)
(* list updates *)
Lemma upd_length {A} n (f : A -> A) l : length (upd n f l) = length l.
Proof. revert n. induction l as [|h t IH]; intros [|n]; cbn; auto. Qed.

Lemma nth_upd {A} n (f : A -> A) l k d :
  nth k (upd n f l) d = if (k =? n) && (n <? length l) then f (nth n l d) else nth k l d.
Proof.
  revert n k. induction l as [|h t IH]; intros n k.
  - destruct n, k; cbn; try reflexivity; rewrite Bool.andb_false_r; reflexivity.
  - destruct n as [|n], k as [|k]; cbn [upd nth length]; try reflexivity.
    rewrite IH. replace (S k =? S n) with (k =? n) by reflexivity.
    replace (S n <? S (length t)) with (n <? length t) by reflexivity. reflexivity.
Qed.

Lemma map_upd_inv {A B} (h : A -> B) n (g : A -> A) l :
  (forall x, h (g x) = h x) -> map h (upd n g l) = map h l.
Proof.
  intros Hg. revert n. induction l as [|x t IH]; intros [|n]; cbn; try reflexivity.
  - rewrite Hg. reflexivity.
  - rewrite IH. reflexivity.
Qed.

Lemma zsum_map_upd {A} (h : A -> Z) n (g : A -> A) l d :
  zsum (map h (upd n g l)) =
  (zsum (map h l) + (if (n <? length l)%nat then h (g (nth n l d)) - h (nth n l d) else 0))%Z.
Proof.
  revert n. induction l as [|x t IH]; intros [|n]; cbn [upd map nth length].
  - cbn. lia.
  - cbn. lia.
  - rewrite !zsum_cons. replace (0 <? S (length t)) with true by reflexivity. lia.
  - rewrite !zsum_cons, IH. replace (S n <? S (length t)) with (n <? length t) by reflexivity. lia.
Qed.

Lemma zsum_upd_succ n (row : list Z) :
  zsum (upd n Z.succ row) = (zsum row + (if (n <? length row)%nat then 1 else 0))%Z.
Proof.
  pose proof (zsum_map_upd (fun x => x) n Z.succ row 0%Z) as H. rewrite !map_id in H. rewrite H.
  destruct (n <? length row); lia.
Qed.

Lemma map_nth_seq {A} (l : list A) d : l = map (fun i => nth i l d) (seq 0 (length l)).
Proof.
  induction l as [|x t IH]; [reflexivity|]. cbn [length seq map nth]. f_equal.
  rewrite <- seq_shift, map_map. exact IH.
Qed.

(* ====================================================================== *)
(* the table view *)
Definition get (j : jdseq) (v c : nat) : Z := nth c (nth v j []) 0%Z.
Definition colsum (c : nat) (j : jdseq) : Z := zsum (col c j).
Definition rowsum (v : nat) (j : jdseq) : Z := zsum (nth v j []).
Definition rect (T : nat) (j : jdseq) : Prop := Forall (fun r => length r = T) j.
Definition shape (j : jdseq) : list nat := map (@length Z) j.

Lemma bump_length i j jds : length (bump i j jds) = length jds.
Proof. apply upd_length. Qed.

Lemma bump_shape i j jds : shape (bump i j jds) = shape jds.
Proof. unfold shape, bump. apply map_upd_inv. intros x. apply upd_length. Qed.

Lemma shape_nth jds v : length (nth v jds []) = nth v (shape jds) 0.
Proof. unfold shape. change 0 with (length (@nil Z)). rewrite map_nth. reflexivity. Qed.

Lemma shape_length jds : length (shape jds) = length jds.
Proof. apply map_length. Qed.

Lemma rect_shape T jds : rect T jds <-> shape jds = repeat T (length jds).
Proof.
  unfold rect, shape. induction jds as [|r t IH]; cbn.
  - split; [reflexivity|constructor].
  - split.
    + intros H. inversion H as [|? ? Hr Ht]; subst. f_equal. apply IH. exact Ht.
    + intros H. injection H as Hr Ht. constructor; [exact Hr|apply IH; exact Ht].
Qed.

Lemma bump_rect T i j jds : rect T jds -> rect T (bump i j jds).
Proof. rewrite !rect_shape, bump_shape, bump_length. auto. Qed.

Lemma rect_nth T jds v : rect T jds -> v < length jds -> length (nth v jds []) = T.
Proof.
  intros H Hv. unfold rect in H. rewrite Forall_forall in H. apply H. apply nth_In. exact Hv.
Qed.

Definition hit (i j v c : nat) (jds : jdseq) : bool :=
  (v =? j) && (c =? i) && (j <? length jds) && (i <? length (nth j jds [])).

Lemma get_bump i j jds v c :
  get (bump i j jds) v c = (get jds v c + (if hit i j v c jds then 1 else 0))%Z.
Proof.
  unfold get, bump, hit. rewrite nth_upd.
  destruct (Nat.eqb_spec v j) as [->|Hvj]; cbn [andb].
  - destruct (j <? length jds) eqn:Hj; cbn [andb].
    + rewrite nth_upd. rewrite (Bool.andb_comm (c =? i)). cbn [andb].
      destruct (Nat.eqb_spec c i) as [->|Hci]; cbn [andb].
      * rewrite Bool.andb_true_r. destruct (i <? length (nth j jds [])); lia.
      * rewrite Bool.andb_false_r. lia.
    + rewrite !Bool.andb_false_r. cbn [andb]. lia.
  - lia.
Qed.

Lemma colsum_bump i j jds c :
  colsum c (bump i j jds) =
  (colsum c jds + (if ((c =? i) && (j <? length jds) && (i <? length (nth j jds [])))%nat then 1 else 0))%Z.
Proof.
  unfold colsum, col, bump. rewrite (zsum_map_upd _ j _ jds []).
  destruct (j <? length jds) eqn:Hj.
  - rewrite nth_upd. destruct (Nat.eqb_spec c i) as [->|Hci]; cbn [andb].
    + destruct (i <? length (nth j jds [])); lia.
    + lia.
  - rewrite Bool.andb_false_r. cbn [andb]. lia.
Qed.

Lemma rowsum_bump i j jds v :
  rowsum v (bump i j jds) =
  (rowsum v jds + (if ((v =? j) && (j <? length jds) && (i <? length (nth j jds [])))%nat then 1 else 0))%Z.
Proof.
  unfold rowsum, bump. rewrite nth_upd.
  destruct (Nat.eqb_spec v j) as [->|Hvj]; cbn [andb].
  - destruct (j <? length jds); cbn [andb]; [|lia].
    rewrite zsum_upd_succ. reflexivity.
  - lia.
Qed.

(* ====================================================================== *)
(* logs of patches and their effect *)
Definition apply_log (lg : list (nat * nat)) (jds : jdseq) : jdseq :=
  fold_left (fun j p => bump (fst p) (snd p) j) lg jds.

Lemma apply_log_app a b jds : apply_log (a ++ b) jds = apply_log b (apply_log a jds).
Proof. apply fold_left_app. Qed.

Lemma apply_log_length lg jds : length (apply_log lg jds) = length jds.
Proof.
  revert jds. induction lg as [|p lg IH]; intros jds; [reflexivity|].
  cbn. rewrite IH. apply bump_length.
Qed.

Lemma apply_log_shape lg jds : shape (apply_log lg jds) = shape jds.
Proof.
  revert jds. induction lg as [|p lg IH]; intros jds; [reflexivity|].
  cbn. rewrite IH. apply bump_shape.
Qed.

Lemma apply_log_rect T lg jds : rect T jds -> rect T (apply_log lg jds).
Proof. rewrite !rect_shape, apply_log_shape, apply_log_length. auto. Qed.

(* a log is valid for a table when every entry (column, row) addresses an existing cell *)
Definition log_valid (lg : list (nat * nat)) (jds : jdseq) : Prop :=
  Forall (fun p => snd p < length jds /\ fst p < length (nth (snd p) jds [])) lg.

Definition cnt (c v : nat) (lg : list (nat * nat)) : Z :=
  Z.of_nat (length (filter (fun p => (fst p =? c) && (snd p =? v)) lg)).
Definition cnt_col (c : nat) (lg : list (nat * nat)) : Z :=
  Z.of_nat (length (filter (fun p => fst p =? c) lg)).
Definition cnt_row (v : nat) (lg : list (nat * nat)) : Z :=
  Z.of_nat (length (filter (fun p => snd p =? v) lg)).

Lemma log_valid_bump lg i j jds : log_valid lg jds -> log_valid lg (bump i j jds).
Proof.
  unfold log_valid. intros H. eapply Forall_impl; [|exact H].
  intros p [H1 H2]. rewrite bump_length. split; [exact H1|].
  rewrite shape_nth, bump_shape, <- shape_nth. exact H2.
Qed.

Lemma get_apply_log lg jds v c :
  log_valid lg jds -> get (apply_log lg jds) v c = (get jds v c + cnt c v lg)%Z.
Proof.
  revert jds. induction lg as [|[i j] lg IH]; intros jds Hv.
  - unfold cnt, apply_log. cbn [fold_left filter length]. lia.
  - inversion Hv as [|? ? [Hj Hi] Hv']; subst. cbn [fst snd] in Hj, Hi.
    cbn [apply_log fold_left fst snd]. fold (apply_log lg (bump i j jds)).
    rewrite IH by (apply log_valid_bump; exact Hv').
    rewrite get_bump. unfold cnt, hit. cbn [filter fst snd].
    apply Nat.ltb_lt in Hj. apply Nat.ltb_lt in Hi. rewrite Hj, Hi, !Bool.andb_true_r.
    rewrite (Nat.eqb_sym i c), (Nat.eqb_sym j v), (Bool.andb_comm (v =? j)).
    destruct ((c =? i) && (v =? j)); cbn [length]; lia.
Qed.

Lemma colsum_apply_log lg jds c :
  log_valid lg jds -> colsum c (apply_log lg jds) = (colsum c jds + cnt_col c lg)%Z.
Proof.
  revert jds. induction lg as [|[i j] lg IH]; intros jds Hv.
  - unfold cnt_col, apply_log. cbn [fold_left filter length]. lia.
  - inversion Hv as [|? ? [Hj Hi] Hv']; subst. cbn [fst snd] in Hj, Hi.
    cbn [apply_log fold_left fst snd]. fold (apply_log lg (bump i j jds)).
    rewrite IH by (apply log_valid_bump; exact Hv').
    rewrite colsum_bump. unfold cnt_col. cbn [filter fst snd].
    apply Nat.ltb_lt in Hj. apply Nat.ltb_lt in Hi. rewrite Hj, Hi, !Bool.andb_true_r.
    rewrite (Nat.eqb_sym i c). destruct (c =? i); cbn [length]; lia.
Qed.

Lemma rowsum_apply_log lg jds v :
  log_valid lg jds -> rowsum v (apply_log lg jds) = (rowsum v jds + cnt_row v lg)%Z.
Proof.
  revert jds. induction lg as [|[i j] lg IH]; intros jds Hv.
  - unfold cnt_row, apply_log. cbn [fold_left filter length]. lia.
  - inversion Hv as [|? ? [Hj Hi] Hv']; subst. cbn [fst snd] in Hj, Hi.
    cbn [apply_log fold_left fst snd]. fold (apply_log lg (bump i j jds)).
    rewrite IH by (apply log_valid_bump; exact Hv').
    rewrite rowsum_bump. unfold cnt_row. cbn [filter fst snd].
    apply Nat.ltb_lt in Hj. apply Nat.ltb_lt in Hi. rewrite Hj, Hi, !Bool.andb_true_r.
    rewrite (Nat.eqb_sym j v). destruct (v =? j); cbn [length]; lia.
Qed.

(* ====================================================================== *)
(* the answer stream *)
Fixpoint take (a : nat) (rs : list nat) : list nat :=
  match a with O => [] | S a' => hd 0 rs :: take a' (tl rs) end.
Fixpoint drop (a : nat) (rs : list nat) : list nat :=
  match a with O => rs | S a' => drop a' (tl rs) end.

Lemma take_length a rs : length (take a rs) = a.
Proof. revert rs. induction a as [|a IH]; intros rs; cbn; auto. Qed.

Lemma tl_Forall {A} (P : A -> Prop) l : Forall P l -> Forall P (tl l).
Proof. intros H. destruct l; [constructor|]. inversion H; assumption. Qed.

Lemma drop_Forall (P : nat -> Prop) a rs : Forall P rs -> Forall P (drop a rs).
Proof. revert rs. induction a as [|a IH]; intros rs H; cbn; [exact H|]. apply IH, tl_Forall, H. Qed.

Lemma take_Forall (P : nat -> Prop) a rs : P 0 -> Forall P rs -> Forall P (take a rs).
Proof.
  intros H0. revert rs. induction a as [|a IH]; intros rs H; cbn; constructor.
  - destruct rs; cbn; [exact H0|]. inversion H; assumption.
  - apply IH, tl_Forall, H.
Qed.

Lemma patch_spec i a jds rs :
  patch i a jds rs = (apply_log (map (pair i) (take a rs)) jds, drop a rs, map (pair i) (take a rs)).
Proof.
  revert jds rs. induction a as [|a IH]; intros jds rs; [reflexivity|].
  cbn [patch]. rewrite IH. reflexivity.
Qed.

(* the log the loop produces, as a function of the column totals, the sizes and the answers *)
Fixpoint hs_log (i : nat) (ntops sizes : list Z) (rs : list nat) : list (nat * nat) :=
  match ntops, sizes with
  | t :: nt', s :: sz' =>
      map (pair i) (take (need s t) rs) ++ hs_log (S i) nt' sz' (drop (need s t) rs)
  | _, _ => []
  end.

Lemma hs_loop_ok i ntops sizes jds rs :
  length ntops <= length sizes ->
  Forall (fun s => s <> 0%Z) sizes ->
  hs_loop i ntops sizes jds rs =
  SOk (apply_log (hs_log i ntops sizes rs) jds, hs_log i ntops sizes rs).
Proof.
  revert i sizes jds rs. induction ntops as [|t nt IH]; intros i sizes jds rs Hlen Hnz.
  - destruct sizes; reflexivity.
  - destruct sizes as [|s sz]; [cbn in Hlen; lia|].
    inversion Hnz as [|? ? Hs Hsz]; subst.
    cbn [hs_loop hs_log]. apply Z.eqb_neq in Hs. rewrite Hs.
    rewrite patch_spec. rewrite IH by (cbn in Hlen; try lia; exact Hsz).
    rewrite apply_log_app. reflexivity.
Qed.

(* the two error branches *)
Lemma hs_loop_too_few_sizes i t nt jds rs : hs_loop i (t :: nt) [] jds rs = SErr SE_Index.
Proof. reflexivity. Qed.
Lemma hs_loop_zero_size i t nt sz jds rs : hs_loop i (t :: nt) (0%Z :: sz) jds rs = SErr SE_ZeroDiv.
Proof. reflexivity. Qed.

(* how many stubs column c receives *)
Fixpoint hneed (i : nat) (ntops sizes : list Z) (c : nat) : nat :=
  match ntops, sizes with
  | t :: nt', s :: sz' => (if c =? i then need s t else 0) + hneed (S i) nt' sz' c
  | _, _ => 0
  end.

Lemma hneed_lt i nt sz c : c < i -> hneed i nt sz c = 0.
Proof.
  revert i sz. induction nt as [|t nt IH]; intros i sz Hc; [reflexivity|].
  destruct sz as [|s sz]; [reflexivity|]. cbn [hneed].
  destruct (Nat.eqb_spec c i); [lia|]. rewrite IH by lia. reflexivity.
Qed.

Lemma hneed_ge i nt sz k :
  hneed i nt sz (i + k) =
  if (k <? length nt) && (k <? length sz) then need (nth k sz 0%Z) (nth k nt 0%Z) else 0.
Proof.
  revert i sz k. induction nt as [|t nt IH]; intros i sz k.
  - cbn. destruct k; reflexivity.
  - destruct sz as [|s sz].
    + cbn. rewrite Bool.andb_false_r. reflexivity.
    + cbn [hneed length nth]. destruct k as [|k].
      * rewrite Nat.add_0_r, Nat.eqb_refl, hneed_lt by lia. cbn. lia.
      * destruct (Nat.eqb_spec (i + S k) i); [lia|].
        replace (i + S k) with (S i + k) by lia. rewrite IH.
        replace (S k <? S (length nt)) with (k <? length nt) by reflexivity.
        replace (S k <? S (length sz)) with (k <? length sz) by reflexivity. reflexivity.
Qed.

Lemma cnt_col_app c a b : cnt_col c (a ++ b) = (cnt_col c a + cnt_col c b)%Z.
Proof. unfold cnt_col. rewrite filter_app, app_length. lia. Qed.

Lemma cnt_col_block c i js :
  cnt_col c (map (pair i) js) = if c =? i then Z.of_nat (length js) else 0%Z.
Proof.
  unfold cnt_col. destruct (Nat.eqb_spec c i) as [->|Hci].
  - induction js as [|j js IH]; [reflexivity|]. cbn [map filter fst]. rewrite Nat.eqb_refl. cbn [length]. lia.
  - induction js as [|j js IH]; [reflexivity|]. cbn [map filter fst].
    destruct (Nat.eqb_spec i c); [congruence|]. exact IH.
Qed.

Lemma cnt_col_hs_log c i nt sz rs : cnt_col c (hs_log i nt sz rs) = Z.of_nat (hneed i nt sz c).
Proof.
  revert i sz rs. induction nt as [|t nt IH]; intros i sz rs; [reflexivity|].
  destruct sz as [|s sz]; [reflexivity|]. cbn [hs_log hneed].
  rewrite cnt_col_app, cnt_col_block, take_length, IH. destruct (c =? i); lia.
Qed.

Lemma hs_log_valid i nt sz rs N T :
  0 < N -> Forall (fun r => r < N) rs -> i + length nt <= T ->
  Forall (fun p => fst p < T /\ snd p < N) (hs_log i nt sz rs).
Proof.
  intros HN. revert i sz rs. induction nt as [|t nt IH]; intros i sz rs Hrs HT; [constructor|].
  destruct sz as [|s sz]; [constructor|]. cbn [hs_log]. cbn [length] in HT.
  apply Forall_app. split.
  - apply Forall_map. eapply Forall_impl; [|apply (take_Forall (fun r => r < N)); [exact HN|exact Hrs]].
    intros r Hr. cbn. split; [lia|exact Hr].
  - apply IH; [apply drop_Forall; exact Hrs|lia].
Qed.

(* ====================================================================== *)
(* arithmetic of the minimal patch *)
Lemma need_added s t : (0 < s)%Z -> Z.of_nat (need s t) = added s t.
Proof.
  intros Hs. unfold need, added. pose proof (Z.mod_pos_bound t s Hs) as Hb.
  destruct (Z.eqb_spec (t mod s) 0) as [E|E].
  - rewrite E, Z.sub_0_r, Z.mod_same by lia. reflexivity.
  - rewrite Z2Nat.id by lia. rewrite (Z.mod_small (s - t mod s)) by lia. reflexivity.
Qed.

Lemma added_bound s t : (0 < s)%Z -> (0 <= added s t < s)%Z.
Proof. intros Hs. unfold added. apply Z.mod_pos_bound. exact Hs. Qed.

Lemma added_cases s t : (0 < s)%Z ->
  (t mod s = 0 /\ added s t = 0)%Z \/ (0 < t mod s < s /\ added s t = s - t mod s)%Z.
Proof.
  intros Hs. unfold added. pose proof (Z.mod_pos_bound t s Hs) as Hb.
  destruct (Z.eq_dec (t mod s) 0) as [E|E].
  - left. split; [exact E|]. rewrite E, Z.sub_0_r, Z.mod_same by lia. reflexivity.
  - right. split; [lia|]. apply Z.mod_small. lia.
Qed.

Lemma added_divides s t : (0 < s)%Z -> ((t + added s t) mod s = 0)%Z.
Proof.
  intros Hs. destruct (added_cases s t Hs) as [[E A]|[B A]]; rewrite A.
  - rewrite Z.add_0_r. exact E.
  - replace (t + (s - t mod s))%Z with ((t / s + 1) * s)%Z.
    + apply Z.mod_mul. lia.
    + pose proof (Z.div_mod t s ltac:(lia)) as D. lia.
Qed.

Lemma added_minimal s t a : (0 < s)%Z -> (0 <= a)%Z -> ((t + a) mod s = 0)%Z -> (added s t <= a)%Z.
Proof.
  intros Hs Ha Hd. destruct (added_cases s t Hs) as [[E A]|[B A]]; rewrite A; [lia|].
  destruct (Z_lt_le_dec a (s - t mod s)) as [Hlt|Hge]; [|exact Hge]. exfalso.
  rewrite <- Zplus_mod_idemp_l in Hd. rewrite Z.mod_small in Hd by lia. lia.
Qed.

(* ====================================================================== *)
(* the handshake theorem *)
Lemma fold_min_const T l : Forall (fun x => x = T) l -> fold_left Nat.min l T = T.
Proof.
  induction l as [|x l IH]; intros H; [reflexivity|]. inversion H; subst. cbn. rewrite Nat.min_id. auto.
Qed.

Lemma ncols_rect T jds : jds <> [] -> rect T jds -> ncols jds = T.
Proof.
  intros Hne H. destruct jds as [|r t]; [contradiction|]. inversion H as [|? ? Hr Ht]; subst.
  cbn [ncols]. apply fold_min_const. apply Forall_map. exact Ht.
Qed.

Lemma rect_log_valid T N lg jds :
  rect T jds -> length jds = N -> Forall (fun p => fst p < T /\ snd p < N) lg -> log_valid lg jds.
Proof.
  intros Hr HN H. unfold log_valid. eapply Forall_impl; [|exact H].
  intros p [H1 H2]. split; [lia|]. rewrite (rect_nth T) by (auto; lia). exact H1.
Qed.

Lemma nth_map_seq {A} (f : nat -> A) n c d : c < n -> nth c (map f (seq 0 n)) d = f c.
Proof.
  intros H. rewrite (nth_indep _ d (f 0)) by (rewrite map_length, seq_length; exact H).
  rewrite map_nth, seq_nth by exact H. reflexivity.
Qed.

Theorem handshake_ok sizes inn rs :
  0 < length inn -> rect (length sizes) inn ->
  Forall (fun s => (0 < s)%Z) sizes -> Forall (fun r => r < length inn) rs ->
  exists out lg,
    handshake sizes inn rs = SOk (out, lg) /\
    out = apply_log lg inn /\
    log_valid lg inn /\
    Forall (fun p => fst p < length sizes /\ snd p < length inn) lg /\
    length out = length inn /\ rect (length sizes) out /\
    (forall c, c < length sizes -> cnt_col c lg = added (nth c sizes 0%Z) (colsum c inn)).
Proof.
  intros HN Hrect Hs Hrs. set (T := length sizes) in *.
  assert (Hnc : ncols inn = T) by (apply ncols_rect; [destruct inn; cbn in HN; [lia|discriminate]|exact Hrect]).
  set (lg := hs_log 0 (col_sums inn) sizes rs).
  assert (Hlen : length (col_sums inn) = T) by (unfold col_sums; rewrite map_length, seq_length; exact Hnc).
  assert (Hlg : Forall (fun p => fst p < T /\ snd p < length inn) lg).
  { apply hs_log_valid; [exact HN|exact Hrs|rewrite Hlen; lia]. }
  exists (apply_log lg inn), lg. repeat split.
  - unfold handshake. apply hs_loop_ok; [rewrite Hlen; unfold T; lia|].
    eapply Forall_impl; [|exact Hs]. intros s H. cbn in H. lia.
  - eapply rect_log_valid; eauto.
  - exact Hlg.
  - apply apply_log_length.
  - apply apply_log_rect. exact Hrect.
  - intros c Hc. unfold lg. rewrite cnt_col_hs_log.
    pose proof (hneed_ge 0 (col_sums inn) sizes c) as Hg. cbn [Nat.add] in Hg. rewrite Hg, Hlen.
    fold T. apply Nat.ltb_lt in Hc. rewrite Hc. cbn [andb]. apply Nat.ltb_lt in Hc.
    assert (Hnth : nth c (col_sums inn) 0%Z = colsum c inn).
    { unfold col_sums. rewrite Hnc. rewrite nth_map_seq by exact Hc. reflexivity. }
    rewrite Hnth. apply need_added.
    rewrite Forall_forall in Hs. apply Hs. apply nth_In. exact Hc.
Qed.

(* drawn sequences are rectangular when the keys are *)
Lemma drawn_rect T keys draws :
  Forall (fun k => length k = T) keys -> Forall (fun i => i < length keys) draws -> rect T (drawn keys draws).
Proof.
  intros Hk Hd. unfold rect, drawn. apply Forall_map. eapply Forall_impl; [|exact Hd].
  intros i Hi. cbn in Hi. rewrite Forall_forall in Hk. apply Hk. apply nth_In. exact Hi.
Qed.

Lemma drawn_length keys draws : length (drawn keys draws) = length draws.
Proof. apply map_length. Qed.

(* ====================================================================== *)
(* reflection helpers: Lib/ReflL.v *)
Lemma zlist_eqb_eq a b : zlist_eqb a b = true <-> a = b.
Proof. unfold zlist_eqb. rewrite (list_eqb_rel Z.eqb eq Z.eqb_eq). apply Forall2_eq_iff. Qed.

Lemma keys_eqb_eq a b : keys_eqb a b = true <-> a = b.
Proof. unfold keys_eqb. rewrite (list_eqb_rel zlist_eqb eq zlist_eqb_eq). apply Forall2_eq_iff. Qed.

Lemma qlist_eqb_iff a b : qlist_eqb a b = true <-> Forall2 Qeq a b.
Proof. unfold qlist_eqb. apply (list_eqb_rel Qeq_bool Qeq). intros x y. apply Qeq_bool_iff. Qed.

(* ====================================================================== *)
(* the Prop-level specification of C05 and its equivalence with the checker *)
Definition le_row (i o : list Z) : Prop := Forall2 (fun x y => (0 <= x <= y)%Z) i o.
Definition le_rows (inn out : list (list Z)) : Prop := Forall2 le_row inn out.

Definition Shape (sizes : list Z) (keys : list (list Z)) : Prop :=
  Forall (fun s => (0 < s)%Z) sizes /\
  Forall (fun k => length k = length sizes /\ Forall (fun x => (0 <= x)%Z) k) keys.

(* the oracle was asked choices(keys, weights, k = N) and answered N indices into keys *)
Definition CallOk (keys : list (list Z)) (weights : list Q) (N : nat)
           (pop : list (list Z)) (wts : list Q) (k : nat) (idxs : list nat) : Prop :=
  pop = keys /\ Forall2 Qeq wts weights /\ k = N /\ length idxs = N /\ Forall (fun i => i < length keys) idxs.

(* exactly N rows, each of the drawn row's shape, entries non-negative and never below the drawn entry *)
Definition RowsOk (N : nat) (inn out : list (list Z)) : Prop :=
  length out = N /\ length inn = N /\ le_rows inn out.

(* per topology: added stubs = (s - S mod s) mod s, and the new total is divisible by s *)
Definition ColsOk (sizes : list Z) (inn out : list (list Z)) : Prop :=
  forall c, c < length sizes ->
    (colsum c out - colsum c inn = added (nth c sizes 0) (colsum c inn) /\
     colsum c out mod (nth c sizes 0) = 0)%Z.

(* every randrange call was randrange(0, N) answered inside the range, and vertex v gained exactly as many
   stubs as there are calls answered v *)
Definition LogOk (N : nat) (inn out : list (list Z)) (rlog : list (Z * Z * nat)) : Prop :=
  Forall (fun c => fst (fst c) = 0%Z /\ snd (fst c) = Z.of_nat N /\ snd c < N) rlog /\
  forall v, v < N -> (rowsum v out - rowsum v inn)%Z = Z.of_nat (count_nat v (map snd rlog)).

Definition Spec_C05 keys weights sizes N pop wts k idxs rlog out : Prop :=
  Shape sizes keys /\ CallOk keys weights N pop wts k idxs /\
  RowsOk N (drawn keys idxs) out /\ ColsOk sizes (drawn keys idxs) out /\ LogOk N (drawn keys idxs) out rlog.

Lemma shape_ok_iff sizes keys : shape_ok sizes keys = true <-> Shape sizes keys.
Proof.
  unfold shape_ok, Shape. rewrite andb_true_iff, !forallb_Forall. apply and_iff_both.
  - apply Forall_iff. intros s. apply Z.ltb_lt.
  - apply Forall_iff. intros k. rewrite andb_true_iff, Nat.eqb_eq, forallb_Forall.
    apply and_iff_compat_l. apply Forall_iff. intros x. apply Z.leb_le.
Qed.

Lemma call_ok_iff keys weights N pop wts k idxs :
  call_ok keys weights N pop wts k idxs = true <-> CallOk keys weights N pop wts k idxs.
Proof.
  unfold call_ok, CallOk. rewrite !andb_true_iff, keys_eqb_eq, qlist_eqb_iff, !Nat.eqb_eq, forallb_Forall.
  assert (E : Forall (fun i => (i <? length keys) = true) idxs <-> Forall (fun i => i < length keys) idxs).
  { apply Forall_iff. intros i. apply Nat.ltb_lt. }
  rewrite E. tauto.
Qed.

Lemma le_row_iff i o :
  (Nat.eqb (length i) (length o)
   && forallb (fun xy => Z.leb (fst xy) (snd xy) && Z.leb 0 (fst xy)) (combine i o)) = true <-> le_row i o.
Proof.
  unfold le_row. apply (list_eqb_rel (fun x y => Z.leb x y && Z.leb 0 x)).
  intros x y. rewrite andb_true_iff, !Z.leb_le. lia.
Qed.

Lemma rows_ok_iff N inn out : rows_ok N inn out = true <-> RowsOk N inn out.
Proof.
  unfold rows_ok, RowsOk. rewrite !andb_true_iff, !Nat.eqb_eq, forallb_Forall. split.
  - intros [[H1 H2] F]. repeat split; auto.
    apply (Forall_combine_Forall2 (fun i o => (Nat.eqb (length i) (length o)
       && forallb (fun xy => Z.leb (fst xy) (snd xy) && Z.leb 0 (fst xy)) (combine i o)) = true)) in F; [|lia].
    eapply Forall2_iff; [|exact F]. intros i o. symmetry. apply le_row_iff.
  - intros (H1 & H2 & F). repeat split; auto.
    apply (Forall_combine_Forall2 (fun i o => (Nat.eqb (length i) (length o)
       && forallb (fun xy => Z.leb (fst xy) (snd xy) && Z.leb 0 (fst xy)) (combine i o)) = true)); [lia|].
    eapply Forall2_iff; [|exact F]. intros i o. apply le_row_iff.
Qed.

Lemma cols_ok_iff sizes inn out : cols_ok sizes inn out = true <-> ColsOk sizes inn out.
Proof.
  unfold cols_ok, ColsOk. rewrite forallb_Forall.
  rewrite (Forall_combine_seq _ 0 sizes 0%Z). cbn [Nat.add fst snd].
  split; intros H c Hc; specialize (H c Hc); fold (colsum c inn) in *; fold (colsum c out) in *.
  - apply andb_true_iff in H. destruct H as [H1 H2]. apply Z.eqb_eq in H1, H2. auto.
  - destruct H as [H1 H2]. apply andb_true_iff. split; apply Z.eqb_eq; auto.
Qed.

Lemma log_ok_iff N inn out rlog : log_ok N inn out rlog = true <-> LogOk N inn out rlog.
Proof.
  unfold log_ok, LogOk. rewrite andb_true_iff, !forallb_Forall, Forall_seq0. apply and_iff_both.
  - apply Forall_iff. intros c. rewrite !andb_true_iff, !Z.eqb_eq, Nat.ltb_lt. tauto.
  - split; intros H v Hv; specialize (H v Hv); fold (rowsum v out) in *; fold (rowsum v inn) in *.
    + apply Z.eqb_eq in H. exact H.
    + apply Z.eqb_eq. exact H.
Qed.

Theorem sample_check_iff keys weights sizes N pop wts k idxs rlog out :
  sample_check keys weights sizes N pop wts k idxs rlog out = true
  <-> Spec_C05 keys weights sizes N pop wts k idxs rlog out.
Proof.
  unfold sample_check, Spec_C05.
  rewrite !andb_true_iff, shape_ok_iff, call_ok_iff, rows_ok_iff, cols_ok_iff, log_ok_iff. tauto.
Qed.

(* ====================================================================== *)
(* the model's output satisfies the specification, for all valid inputs and all oracle answers *)
Lemma Forall2_upd_r {A B} (R : A -> B -> Prop) (g : B -> B) a b n :
  (forall x y, R x y -> R x (g y)) -> Forall2 R a b -> Forall2 R a (upd n g b).
Proof.
  intros Hg F. revert n. induction F as [|x y a b Hxy F IH]; intros [|n]; cbn; constructor; auto.
Qed.

Lemma le_rows_bump i j a b : le_rows a b -> le_rows a (bump i j b).
Proof.
  unfold le_rows, bump. apply Forall2_upd_r. intros x y H. unfold le_row in *.
  apply Forall2_upd_r; [|exact H]. intros p q Hpq. lia.
Qed.

Lemma le_rows_apply_log lg a b : le_rows a b -> le_rows a (apply_log lg b).
Proof.
  revert b. induction lg as [|p lg IH]; intros b H; [exact H|]. cbn. apply IH. apply le_rows_bump. exact H.
Qed.

Lemma le_rows_refl a : Forall (Forall (fun x => (0 <= x)%Z)) a -> le_rows a a.
Proof.
  unfold le_rows, le_row. induction 1 as [|r a Hr _ IH]; constructor; [|exact IH].
  induction Hr; constructor; [lia|assumption].
Qed.

Lemma count_nat_cnt_row v lg : Z.of_nat (count_nat v (map snd lg)) = cnt_row v lg.
Proof.
  unfold count_nat, cnt_row. f_equal. induction lg as [|p lg IH]; [reflexivity|].
  cbn [map filter]. rewrite (Nat.eqb_sym v (snd p)). destruct (snd p =? v); cbn [length]; rewrite IH; reflexivity.
Qed.

Lemma Forall2_Qeq_refl (l : list Q) : Forall2 Qeq l l.
Proof. induction l; constructor; [reflexivity|assumption]. Qed.

Definition rlog_of (N : nat) (lg : list (nat * nat)) : list (Z * Z * nat) :=
  map (fun p => (0%Z, Z.of_nat N, snd p)) lg.

Theorem sample_facts keys sizes draws rs :
  Shape sizes keys -> 0 < length draws -> Forall (fun i => i < length keys) draws ->
  Forall (fun r => r < length draws) rs ->
  let inn := drawn keys draws in
  exists out lg,
    sample keys sizes draws rs = SOk (out, lg) /\
    out = apply_log lg inn /\ log_valid lg inn /\
    Forall (fun p => fst p < length sizes /\ snd p < length draws) lg /\
    length out = length draws /\ rect (length sizes) out /\ le_rows inn out /\
    (forall v c, get out v c = get inn v c + cnt c v lg)%Z /\
    (forall c, c < length sizes ->
       (colsum c out = colsum c inn + added (nth c sizes 0) (colsum c inn))%Z) /\
    (forall v, rowsum v out = rowsum v inn + cnt_row v lg)%Z.
Proof.
  intros [Hs Hk] HN Hd Hrs inn.
  assert (Hrect : rect (length sizes) inn).
  { apply drawn_rect; [|exact Hd]. eapply Forall_impl; [|exact Hk]. intros k [H _]. exact H. }
  assert (Hlen : length inn = length draws) by apply drawn_length.
  destruct (handshake_ok sizes inn rs) as (out & lg & H1 & H2 & H3 & H4 & H5 & H6 & H7);
    try rewrite Hlen; auto.
  exists out, lg. rewrite Hlen in *. repeat split; auto.
  - subst out. apply le_rows_apply_log, le_rows_refl. unfold inn, drawn. apply Forall_map.
    eapply Forall_impl; [|exact Hd]. intros i Hi. cbn in Hi.
    rewrite Forall_forall in Hk. apply (Hk (nth i keys [])). apply nth_In. exact Hi.
  - intros v c. subst out. apply get_apply_log. exact H3.
  - intros c Hc. subst out. rewrite colsum_apply_log by exact H3. rewrite H7 by exact Hc. reflexivity.
  - intros v. subst out. apply rowsum_apply_log. exact H3.
Qed.

Theorem sample_satisfies_spec keys weights sizes draws rs :
  Shape sizes keys -> 0 < length draws -> Forall (fun i => i < length keys) draws ->
  Forall (fun r => r < length draws) rs ->
  exists out lg,
    sample keys sizes draws rs = SOk (out, lg) /\
    Spec_C05 keys weights sizes (length draws) keys weights (length draws) draws
             (rlog_of (length draws) lg) out.
Proof.
  intros HS HN Hd Hrs.
  destruct (sample_facts keys sizes draws rs HS HN Hd Hrs) as
      (out & lg & H1 & H2 & H3 & H4 & H5 & H6 & H7 & H8 & H9 & H10).
  exists out, lg. split; [exact H1|].
  assert (C2 : CallOk keys weights (length draws) keys weights (length draws) draws).
  { exact (conj eq_refl (conj (Forall2_Qeq_refl _) (conj eq_refl (conj eq_refl Hd)))). }
  assert (C3 : RowsOk (length draws) (drawn keys draws) out).
  { exact (conj H5 (conj (drawn_length _ _) H7)). }
  assert (C4 : ColsOk sizes (drawn keys draws) out).
  { intros c Hc. rewrite (H9 c Hc). split; [lia|]. apply added_divides.
    destruct HS as [Hs _]. rewrite Forall_forall in Hs. apply Hs. apply nth_In. exact Hc. }
  assert (C5 : LogOk (length draws) (drawn keys draws) out (rlog_of (length draws) lg)).
  { split.
    - unfold rlog_of. apply Forall_map. eapply Forall_impl; [|exact H4]. intros p [_ Hp]. cbn. auto.
    - intros v Hv. unfold rlog_of. rewrite map_map. cbn [snd]. rewrite count_nat_cnt_row, H10. lia. }
  exact (conj HS (conj C2 (conj C3 (conj C4 C5)))).
Qed.

Corollary sample_passes_checker keys weights sizes draws rs :
  shape_ok sizes keys = true -> 0 < length draws -> Forall (fun i => i < length keys) draws ->
  Forall (fun r => r < length draws) rs ->
  exists out lg,
    sample keys sizes draws rs = SOk (out, lg) /\
    sample_check keys weights sizes (length draws) keys weights (length draws) draws
                 (rlog_of (length draws) lg) out = true.
Proof.
  intros HS HN Hd Hrs. apply shape_ok_iff in HS.
  destruct (sample_satisfies_spec keys weights sizes draws rs HS HN Hd Hrs) as (out & lg & H1 & H2).
  exists out, lg. split; [exact H1|]. apply sample_check_iff. exact H2.
Qed.

(* ====================================================================== *)
(* CPython's choices rule: key i is selected exactly on [cum_{i-1}, cum_i) *)
Definition cumq (acc : Q) (ws : list Q) (i : nat) : Q := fold_left Qplus (firstn i ws) acc.

Definition acc_count (acc : Q) (ws : list Q) (x : Q) : nat :=
  length (filter (fun c => Qle_bool c x) (removelast (accumulate acc ws))).

Lemma accumulate_ge acc ws :
  Forall (fun w => 0 <= w)%Q ws -> Forall (fun c => acc <= c)%Q (accumulate acc ws).
Proof.
  intros H. revert acc. induction H as [|w t Hw _ IH]; intros acc; cbn [accumulate]; constructor.
  - rewrite <- (Qplus_0_r acc) at 1. apply Qplus_le_compat; [apply Qle_refl|exact Hw].
  - eapply Forall_impl; [|apply IH]. intros c Hc. cbn in Hc. eapply Qle_trans; [|exact Hc].
    rewrite <- (Qplus_0_r acc) at 1. apply Qplus_le_compat; [apply Qle_refl|exact Hw].
Qed.

Lemma removelast_Forall {A} (P : A -> Prop) l : Forall P l -> Forall P (removelast l).
Proof.
  induction 1 as [|x l Hx Hl IH]; [constructor|]. cbn. destruct l; [constructor|]. constructor; assumption.
Qed.

Lemma filter_none {A} (f : A -> bool) l : Forall (fun x => f x = false) l -> filter f l = [].
Proof. induction 1 as [|x l Hx _ IH]; [reflexivity|]. cbn. rewrite Hx. exact IH. Qed.

Lemma acc_count_zero acc ws x :
  Forall (fun w => 0 <= w)%Q ws -> (x < acc)%Q -> acc_count acc ws x = 0.
Proof.
  intros Hw Hx. unfold acc_count. rewrite filter_none; [reflexivity|].
  apply removelast_Forall. eapply Forall_impl; [|apply accumulate_ge; exact Hw].
  intros c Hc. cbn in Hc. destruct (Qle_bool c x) eqn:E; [|reflexivity].
  apply Qle_bool_iff in E. exfalso. apply (Qlt_irrefl x). eapply Qlt_le_trans; [exact Hx|].
  eapply Qle_trans; eassumption.
Qed.

Lemma acc_count_cons acc w w2 t x :
  acc_count acc (w :: w2 :: t) x =
  (if Qle_bool (acc + w) x then 1 else 0) + acc_count (acc + w)%Q (w2 :: t) x.
Proof.
  unfold acc_count. cbn [accumulate]. cbn [removelast]. cbn [filter].
  destruct (Qle_bool (acc + w) x); reflexivity.
Qed.

Lemma acc_count_spec ws : forall acc x,
  ws <> [] -> Forall (fun w => 0 <= w)%Q ws -> (acc <= x)%Q -> (x < cumq acc ws (length ws))%Q ->
  let i := acc_count acc ws x in
  i < length ws /\ (cumq acc ws i <= x)%Q /\ (x < cumq acc ws (S i))%Q.
Proof.
  induction ws as [|w t IH]; intros acc x Hne Hw Hlo Hhi; [contradiction|].
  inversion Hw as [|? ? Hw0 Hwt]; subst. destruct t as [|w2 t].
  - cbn. repeat split; [lia|exact Hlo|exact Hhi].
  - cbn zeta. rewrite acc_count_cons. destruct (Qle_bool (acc + w) x) eqn:E.
    + apply Qle_bool_iff in E.
      destruct (IH (acc + w)%Q x ltac:(discriminate) Hwt E Hhi) as (H1 & H2 & H3).
      cbn [Nat.add]. cbn [length] in *. repeat split; [lia|exact H2|exact H3].
    + assert (Hx : (x < acc + w)%Q).
      { apply Qnot_le_lt. intros H. apply Qle_bool_iff in H. congruence. }
      rewrite acc_count_zero by assumption. cbn. repeat split; [lia|exact Hlo|exact Hx].
Qed.

Lemma last_accumulate acc ws d : ws <> [] -> last (accumulate acc ws) d = cumq acc ws (length ws).
Proof.
  revert acc. induction ws as [|w t IH]; intros acc Hne; [contradiction|].
  destruct t as [|w2 t]; [reflexivity|].
  change (last (accumulate acc (w :: w2 :: t)) d) with (last (accumulate (acc + w) (w2 :: t)) d).
  rewrite IH by discriminate. reflexivity.
Qed.

Lemma cumq_step acc ws i : i < length ws -> (cumq acc ws (S i) == cumq acc ws i + nth i ws 0)%Q.
Proof.
  revert acc i. induction ws as [|w t IH]; intros acc i Hi; [cbn in Hi; lia|].
  destruct i as [|i].
  - cbn. reflexivity.
  - change (cumq acc (w :: t) (S (S i))) with (cumq (acc + w) t (S i)).
    change (cumq acc (w :: t) (S i)) with (cumq (acc + w) t i). cbn [nth]. apply IH. cbn in Hi. lia.
Qed.

Lemma cumq_mono acc ws i j :
  Forall (fun w => 0 <= w)%Q ws -> i <= j -> (cumq acc ws i <= cumq acc ws j)%Q.
Proof.
  intros Hw Hij. induction Hij as [|j Hij IH]; [apply Qle_refl|].
  eapply Qle_trans; [exact IH|]. destruct (Nat.lt_ge_cases j (length ws)) as [Hj|Hj].
  - rewrite cumq_step by exact Hj. rewrite <- (Qplus_0_r (cumq acc ws j)) at 1.
    apply Qplus_le_compat; [apply Qle_refl|]. rewrite Forall_forall in Hw. apply Hw, nth_In, Hj.
  - unfold cumq. rewrite !firstn_all2 by lia. apply Qle_refl.
Qed.

(* for non-negative weights with positive total and r in [0,1): the rule returns the index i whose
   cumulative interval [cum_{i-1}, cum_i) contains r*total; its length is w_i *)
Theorem choices_rule_interval ws r :
  ws <> [] -> Forall (fun w => 0 <= w)%Q ws ->
  let total := cumq 0 ws (length ws) in
  (0 < total)%Q -> (0 <= r)%Q -> (r < 1)%Q ->
  exists i, choices_rule ws r = SOk i /\ i < length ws /\
            (cumq 0 ws i <= r * total)%Q /\ (r * total < cumq 0 ws (S i))%Q /\
            (cumq 0 ws (S i) - cumq 0 ws i == nth i ws 0)%Q.
Proof.
  intros Hne Hw total Ht Hr0 Hr1. unfold choices_rule. destruct ws as [|w t]; [contradiction|].
  rewrite (last_accumulate 0 (w :: t) 0 Hne). fold total.
  destruct (Qle_bool total 0) eqn:E.
  - apply Qle_bool_iff in E. exfalso. apply (Qlt_irrefl 0). eapply Qlt_le_trans; eassumption.
  - assert (Hx0 : (0 <= r * total)%Q) by (apply Qmult_le_0_compat; [exact Hr0|apply Qlt_le_weak; exact Ht]).
    assert (Hx1 : (r * total < total)%Q).
    { rewrite <- (Qmult_1_l total) at 2. apply Qmult_lt_compat_r; assumption. }
    destruct (acc_count_spec (w :: t) 0 (r * total)%Q Hne Hw Hx0 Hx1) as (H1 & H2 & H3).
    exists (acc_count 0 (w :: t) (r * total)). repeat split; auto.
    rewrite cumq_step by exact H1. ring.
Qed.

(* the intervals of different indices are disjoint: the index is determined by the interval *)
Theorem choices_interval_unique ws x i j :
  Forall (fun w => 0 <= w)%Q ws ->
  (cumq 0 ws i <= x)%Q -> (x < cumq 0 ws (S i))%Q -> (cumq 0 ws j <= x)%Q -> (x < cumq 0 ws (S j))%Q -> i = j.
Proof.
  intros Hw Hi1 Hi2 Hj1 Hj2. destruct (Nat.lt_trichotomy i j) as [H|[H|H]]; [exfalso|exact H|exfalso].
  - apply (Qlt_irrefl x). eapply Qlt_le_trans; [exact Hi2|]. eapply Qle_trans; [|exact Hj1].
    apply cumq_mono; [exact Hw|lia].
  - apply (Qlt_irrefl x). eapply Qlt_le_trans; [exact Hj2|]. eapply Qle_trans; [|exact Hi1].
    apply cumq_mono; [exact Hw|lia].
Qed.

(* ====================================================================== *)
(* the statements of Props/C05.v *)
Definition ValidSample (keys : list (list Z)) (sizes : list Z) (draws rs : list nat) : Prop :=
  Shape sizes keys /\ 0 < length draws /\ Forall (fun i => i < length keys) draws /\
  Forall (fun r => r < length draws) rs.

Lemma sample_total keys sizes draws rs :
  ValidSample keys sizes draws rs -> exists out lg, sample keys sizes draws rs = SOk (out, lg).
Proof.
  intros (H1 & H2 & H3 & H4). destruct (sample_facts keys sizes draws rs H1 H2 H3 H4) as (out & lg & H & _).
  exists out, lg. exact H.
Qed.

Lemma sample_facts_inv keys sizes draws rs out lg :
  ValidSample keys sizes draws rs -> sample keys sizes draws rs = SOk (out, lg) ->
  let inn := drawn keys draws in
    out = apply_log lg inn /\ log_valid lg inn /\
    Forall (fun p => fst p < length sizes /\ snd p < length draws) lg /\
    length out = length draws /\ rect (length sizes) out /\ le_rows inn out /\
    (forall v c, get out v c = get inn v c + cnt c v lg)%Z /\
    (forall c, c < length sizes ->
       (colsum c out = colsum c inn + added (nth c sizes 0) (colsum c inn))%Z) /\
    (forall v, rowsum v out = rowsum v inn + cnt_row v lg)%Z.
Proof.
  intros (H1 & H2 & H3 & H4) E.
  destruct (sample_facts keys sizes draws rs H1 H2 H3 H4) as (out' & lg' & E' & F).
  rewrite E in E'. injection E' as -> ->. exact F.
Qed.

Lemma c05_length keys sizes draws rs out lg :
  ValidSample keys sizes draws rs -> sample keys sizes draws rs = SOk (out, lg) ->
  length out = length draws /\ Forall (fun row => length row = length sizes) out.
Proof. intros V E. destruct (sample_facts_inv _ _ _ _ _ _ V E) as (_ & _ & _ & H & R & _). split; assumption. Qed.

Lemma cnt_nonneg c v lg : (0 <= cnt c v lg)%Z.
Proof. unfold cnt. lia. Qed.

Lemma c05_never_removes keys sizes draws rs out lg :
  ValidSample keys sizes draws rs -> sample keys sizes draws rs = SOk (out, lg) ->
  forall v c, (0 <= get (drawn keys draws) v c <= get out v c)%Z.
Proof.
  intros V E v c. destruct (sample_facts_inv _ _ _ _ _ _ V E) as (_ & _ & _ & _ & _ & _ & G & _).
  rewrite G. pose proof (cnt_nonneg c v lg). split; [|lia].
  destruct V as ((_ & Hk) & _ & Hd & _). unfold get, drawn.
  destruct (Nat.lt_ge_cases v (length draws)) as [Hv|Hv].
  - rewrite (nth_indep _ [] (nth 0 keys [])) by (rewrite map_length; exact Hv).
    rewrite (map_nth (fun i => nth i keys [])).
    assert (Hi : nth v draws 0 < length keys) by (rewrite Forall_forall in Hd; apply Hd, nth_In, Hv).
    rewrite Forall_forall in Hk. destruct (Hk _ (nth_In keys [] Hi)) as [_ Hnn].
    destruct (Nat.lt_ge_cases c (length (nth (nth v draws 0) keys []))) as [Hc|Hc].
    + rewrite Forall_forall in Hnn. apply Hnn, nth_In, Hc.
    + rewrite nth_overflow by exact Hc. lia.
  - rewrite (nth_overflow (map _ draws)) by (rewrite map_length; exact Hv). destruct c; cbn; lia.
Qed.

Lemma c05_added_minimal keys sizes draws rs out lg :
  ValidSample keys sizes draws rs -> sample keys sizes draws rs = SOk (out, lg) ->
  forall c, c < length sizes ->
    let s := nth c sizes 0%Z in
    let tot := colsum c (drawn keys draws) in
    let a := (colsum c out - tot)%Z in
    (a = (s - tot mod s) mod s /\ 0 <= a < s /\ (tot + a) mod s = 0 /\
     forall a', 0 <= a' -> (tot + a') mod s = 0 -> a <= a')%Z.
Proof.
  intros V E c Hc s tot a. destruct (sample_facts_inv _ _ _ _ _ _ V E) as (_ & _ & _ & _ & _ & _ & _ & C & _).
  assert (Hs : (0 < s)%Z).
  { destruct V as ((Hs & _) & _). rewrite Forall_forall in Hs. apply Hs, nth_In, Hc. }
  assert (Ha : a = added s tot) by (unfold a; rewrite (C c Hc); fold s tot; lia).
  rewrite Ha. repeat split.
  - apply added_bound; exact Hs.
  - apply added_bound; exact Hs.
  - apply added_divides; exact Hs.
  - intros a' H1 H2. apply added_minimal; assumption.
Qed.

Lemma c05_divisible keys sizes draws rs out lg :
  ValidSample keys sizes draws rs -> sample keys sizes draws rs = SOk (out, lg) ->
  forall c, c < length sizes -> (nth c sizes 0%Z | colsum c out)%Z.
Proof.
  intros V E c Hc. destruct (c05_added_minimal _ _ _ _ _ _ V E c Hc) as (_ & _ & H & _).
  replace (colsum c (drawn keys draws) + (colsum c out - colsum c (drawn keys draws)))%Z
    with (colsum c out) in H by lia.
  apply Z.mod_divide; [|exact H].
  destruct V as ((Hs & _) & _). rewrite Forall_forall in Hs.
  pose proof (Hs _ (nth_In sizes 0%Z Hc)). lia.
Qed.

(* the result is the drawn sequence with one stub added at every logged (column, row); every log entry is an
   oracle answer for an existing vertex; cells that are not logged are untouched *)
Lemma c05_differs_at_log keys sizes draws rs out lg :
  ValidSample keys sizes draws rs -> sample keys sizes draws rs = SOk (out, lg) ->
  out = apply_log lg (drawn keys draws) /\
  Forall (fun p => fst p < length sizes /\ snd p < length draws) lg /\
  (forall v c, get out v c = get (drawn keys draws) v c + cnt c v lg)%Z /\
  (forall v c, ~ In (c, v) lg -> get out v c = get (drawn keys draws) v c).
Proof.
  intros V E. destruct (sample_facts_inv _ _ _ _ _ _ V E) as (A & _ & B & _ & _ & _ & G & _).
  repeat split; auto. intros v c Hn. rewrite G. unfold cnt.
  assert (F : filter (fun p => (fst p =? c) && (snd p =? v)) lg = []).
  { apply filter_none. rewrite Forall_forall. intros [c' v'] Hin. cbn [fst snd].
    destruct (Nat.eqb_spec c' c) as [->|]; [|reflexivity]. destruct (Nat.eqb_spec v' v) as [->|]; [|reflexivity].
    contradiction. }
  rewrite F. cbn. lia.
Qed.

(* how many oracle answers are consumed: the sum of the per-topology patches *)
Lemma c05_log_columns keys sizes draws rs out lg :
  ValidSample keys sizes draws rs -> sample keys sizes draws rs = SOk (out, lg) ->
  forall c, c < length sizes ->
    cnt_col c lg = added (nth c sizes 0%Z) (colsum c (drawn keys draws)).
Proof.
  intros V E c Hc. destruct (sample_facts_inv _ _ _ _ _ _ V E) as (A & LV & _ & _ & _ & _ & _ & C & _).
  pose proof (C c Hc) as H. rewrite A in H. rewrite colsum_apply_log in H by exact LV. lia.
Qed.
