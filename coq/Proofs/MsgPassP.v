(* Proofs about Model/MsgPass.v (C17). *)
From Coq Require Import List ZArith QArith Qpower Qring Bool Arith Ring_polynom Lqa Lia Setoid Morphisms Qfield.
From GV Require Import Lib.Tree Lib.PolyRefl15 Lib.Graph15 Model.AutoEq Proofs.AutoEqP Model.MsgPass.
Import ListNotations.
Local Open Scope Q_scope.

(* ================================================================== *)
(* 1. pointwise-equal message maps *)
Definition Heq (H1 H2 : Hmap) : Prop := forall v m, H1 v m == H2 v m.

Lemma Heq_refl : forall H, Heq H H.
Proof. intros H v m. reflexivity. Qed.

Lemma qprod_acc_ext : forall l l', Forall2 Qeq l l' -> forall a a', a == a' ->
    fold_left Qmult l a == fold_left Qmult l' a'.
Proof.
  induction 1 as [|x x' l l' Hx Hl IH]; intros a a' Ha; cbn [fold_left]; [exact Ha|].
  apply IH. rewrite Ha, Hx. reflexivity.
Qed.
Lemma qprod_ext : forall {X} (f f' : X -> Q) l, (forall x, f x == f' x) -> qprod (map f l) == qprod (map f' l).
Proof.
  intros X f f' l Hf. unfold qprod. apply qprod_acc_ext; [|reflexivity].
  induction l; cbn [map]; constructor; auto.
Qed.

Lemma u_of_ext : forall nt H1 H2 vm, Heq H1 H2 -> forall j, u_of nt H1 vm j == u_of nt H2 vm j.
Proof. intros nt H1 H2 vm HH j. unfold u_of. apply qprod_ext. intros m. apply HH. Qed.

Lemma upd_ext : forall H1 H2 v m x y, Heq H1 H2 -> x == y -> Heq (upd H1 v m x) (upd H2 v m y).
Proof.
  intros H1 H2 v m x y HH Hxy v' m'. unfold upd.
  destruct (Nat.eqb v' v && Nat.eqb m' m)%bool; [exact Hxy|apply HH].
Qed.

Lemma result_ext : forall nt H1 H2, Heq H1 H2 -> result nt H1 == result nt H2.
Proof.
  intros nt H1 H2 HH. unfold result, outer_sum.
  assert (E : qsum (map (fun i => qprod (map (H1 i) (ids_at nt i))) (n_nodes nt))
              == qsum (map (fun i => qprod (map (H2 i) (ids_at nt i))) (n_nodes nt))).
  { apply qsum_ext. intros i _. apply qprod_ext. intros m. apply HH. }
  rewrite E. reflexivity.
Qed.

(* ================================================================== *)
(* 2. simulation between two per-motif equations *)
Section Sim.
  Context {S1 S2 : Type}
          (eq1 : S1 -> mname -> graph -> nat -> Q -> (nat -> Q) -> Q * S1)
          (eq2 : S2 -> mname -> graph -> nat -> Q -> (nat -> Q) -> Q * S2)
          (I1 : S1 -> Prop) (I2 : S2 -> Prop) (nt : net) (phi : Q).

  (* the calls MessagePassing makes: focal = an end point of a swept edge, graph = that edge's motif *)
  Definition okcall (name : mname) (g : graph) (r : nat) : Prop :=
    exists i j id, In (i, j, id) (n_sweep nt) /\ (r = i \/ r = j) /\ name = (r, id)
                   /\ g = motif_graph (find_motif nt id).

  Hypothesis Hsim : forall s1 s2 name g r u u',
      I1 s1 -> I2 s2 -> okcall name g r -> (forall v, u v == u' v) ->
      fst (eq1 s1 name g r phi u) == fst (eq2 s2 name g r phi u')
      /\ I1 (snd (eq1 s1 name g r phi u)) /\ I2 (snd (eq2 s2 name g r phi u')).

  Definition simrel (hs1 : Hmap * S1) (hs2 : Hmap * S2) : Prop :=
    Heq (fst hs1) (fst hs2) /\ I1 (snd hs1) /\ I2 (snd hs2).

  Lemma calc_sim : forall hs1 hs2 focal id,
      simrel hs1 hs2 -> okcall (focal, id) (motif_graph (find_motif nt id)) focal ->
      simrel (calc eq1 nt phi hs1 focal id) (calc eq2 nt phi hs2 focal id).
  Proof.
    intros hs1 hs2 focal id [HH [Hi1 Hi2]] Hok. unfold calc, simrel. cbn [fst snd].
    destruct (Hsim (snd hs1) (snd hs2) (focal, id) (motif_graph (find_motif nt id)) focal
                   (u_of nt (fst hs1) (m_verts (find_motif nt id)))
                   (u_of nt (fst hs2) (m_verts (find_motif nt id))) Hi1 Hi2 Hok
                   (u_of_ext nt _ _ _ HH)) as [Hv [Hj1 Hj2]].
    split; [|split; assumption]. apply upd_ext; assumption.
  Qed.

  Lemma sweep_list_sim : forall l hs1 hs2,
      (forall e, In e l -> In e (n_sweep nt)) -> simrel hs1 hs2 ->
      simrel (fold_left (fun hs e => let '(i, j, id) := e in calc eq1 nt phi (calc eq1 nt phi hs i id) j id) l hs1)
             (fold_left (fun hs e => let '(i, j, id) := e in calc eq2 nt phi (calc eq2 nt phi hs i id) j id) l hs2).
  Proof.
    induction l as [|[[i j] id] l IH]; intros hs1 hs2 Hl Hs; cbn [fold_left]; [exact Hs|].
    apply IH; [intros e He; apply Hl; right; exact He|].
    assert (Hin : In (i, j, id) (n_sweep nt)) by (apply Hl; left; reflexivity).
    apply calc_sim; [apply calc_sim; [exact Hs|]|].
    - exists i, j, id. repeat split; auto.
    - exists i, j, id. repeat split; auto.
  Qed.

  Lemma sweep_sim : forall hs1 hs2, simrel hs1 hs2 -> simrel (sweep eq1 nt phi hs1) (sweep eq2 nt phi hs2).
  Proof. intros. unfold sweep. apply sweep_list_sim; auto. Qed.

  Lemma sweeps_sim : forall T hs1 hs2, simrel hs1 hs2 -> simrel (sweeps eq1 T nt phi hs1) (sweeps eq2 T nt phi hs2).
  Proof. induction T as [|T IH]; intros hs1 hs2 Hs; cbn [sweeps]; [exact Hs|]. apply IH, sweep_sim, Hs. Qed.

  Theorem query_sim : forall T s1 s2, I1 s1 -> I2 s2 ->
      fst (mp_query eq1 nt T s1 phi) == fst (mp_query eq2 nt T s2 phi)
      /\ I1 (snd (mp_query eq1 nt T s1 phi)) /\ I2 (snd (mp_query eq2 nt T s2 phi)).
  Proof.
    intros T s1 s2 H1 H2. unfold mp_query. cbn [fst snd].
    destruct (sweeps_sim T (H0, s1) (H0, s2)) as [HH [Hi1 Hi2]].
    { split; [apply Heq_refl|split; assumption]. }
    split; [apply result_ext, HH|split; assumption].
  Qed.
End Sim.

(* ================================================================== *)
(* 3. instances of the simulation *)
Definition net_naming (nt : net) : mname -> graph := fun nm => motif_graph (find_motif nt (snd nm)).

Lemma sweep_ok_focal : forall nt, sweep_okb nt = true ->
    forall name g r, okcall nt name g r -> memb r (g_nodes g) = true /\ g = net_naming nt name.
Proof.
  intros nt Hok name g r [i [j [id [Hin [Hr [-> ->]]]]]].
  unfold sweep_okb in Hok. rewrite forallb_forall in Hok. specialize (Hok _ Hin). cbn beta iota in Hok.
  apply andb_true_iff in Hok. destruct Hok as [Hi Hj].
  split; [destruct Hr as [->| ->]; assumption|reflexivity].
Qed.

(* (a) an evaluator with caches (any arithmetic related to alg_q) against the fresh rational model *)
Lemma cached_vs_fresh : forall (A : alg Q) nt phi,
    alg_rel A alg_q Qeq -> sweep_okb nt = true ->
    forall s1 (s2 : unit) name g r u u',
      cache_inv (net_naming nt) s1 -> True -> okcall nt name g r -> (forall v, u v == u' v) ->
      fst (eqn_cached A s1 name g r phi u) == fst (eqn_fresh s2 name g r phi u')
      /\ cache_inv (net_naming nt) (snd (eqn_cached A s1 name g r phi u)) /\ True.
Proof.
  intros A nt phi HA Hok s1 s2 name g r u u' Hinv _ Hcall Hu.
  destruct (sweep_ok_focal nt Hok name g r Hcall) as [Hmem ->].
  unfold eqn_cached, eqn_fresh. cbn [fst snd].
  destruct (auto_step_inv A (net_naming nt) s1 name r phi u Hinv) as [Hv Hi].
  rewrite Hv. unfold fresh_value. rewrite Hmem.
  split; [|split; [exact Hi|exact Logic.I]].
  unfold auto_q. apply (auto_gen_rel A alg_q Qeq HA); [reflexivity|exact Hu].
Qed.

Theorem object_query_fresh : forall (A : alg Q) nt T,
    alg_rel A alg_q Qeq -> sweep_okb nt = true ->
    forall st phi, cache_inv (net_naming nt) st ->
      fst (mp_query (eqn_cached A) nt T st phi) == mp_model nt T phi
      /\ cache_inv (net_naming nt) (snd (mp_query (eqn_cached A) nt T st phi)).
Proof.
  intros A nt T HA Hok st phi Hst.
  destruct (query_sim (eqn_cached A) eqn_fresh (cache_inv (net_naming nt)) (fun _ => True) nt phi
                      (cached_vs_fresh A nt phi HA Hok) T st tt Hst Logic.I) as [Hv [Hi _]].
  split; assumption.
Qed.

Theorem history_fresh : forall (A : alg Q) nt T,
    alg_rel A alg_q Qeq -> sweep_okb nt = true ->
    forall phis st, cache_inv (net_naming nt) st ->
      Forall2 Qeq (mp_history (eqn_cached A) nt T st phis) (map (mp_model nt T) phis).
Proof.
  intros A nt T HA Hok. induction phis as [|phi phis IH]; intros st Hst; cbn [mp_history map]; constructor.
  - apply (object_query_fresh A nt T HA Hok st phi Hst).
  - apply IH. apply (object_query_fresh A nt T HA Hok st phi Hst).
Qed.

(* (b) model against specification, given the C15 identity for the motif equations the network uses *)
Definition motif_identities (nt : net) : Prop :=
  forall name g r, okcall nt name g r -> forall phi u, auto_q g r phi u == expectation g r phi u.

Theorem model_is_spec : forall nt, motif_identities nt ->
    forall T phi, mp_model nt T phi == mp_spec nt T phi.
Proof.
  intros nt Hid T phi. unfold mp_model, mp_spec.
  apply (query_sim eqn_fresh eqn_spec (fun _ => True) (fun _ => True) nt phi); auto.
  intros s1 s2 name g r u u' _ _ Hcall Hu. unfold eqn_fresh, eqn_spec. cbn [fst snd].
  split; [|split; exact Logic.I].
  rewrite (Hid name g r Hcall phi u). apply expectation_proper; [reflexivity|exact Hu].
Qed.

Lemma motifs_okb_identities : forall nt, motifs_okb nt = true -> motif_identities nt.
Proof.
  intros nt Hm name g r [i [j [id [Hin [Hr [-> ->]]]]]] phi u.
  unfold motifs_okb in Hm. rewrite forallb_forall in Hm. specialize (Hm _ Hin). cbn beta iota in Hm.
  apply andb_true_iff in Hm. destruct Hm as [Hi Hj].
  apply peq_identity_lift_gen. destruct Hr as [->| ->]; assumption.
Qed.

(* (c) the checker's reduced-sum specification equals the specification *)
Theorem spec_r_is_spec : forall nt T phi, spec_r nt T phi == mp_spec nt T phi.
Proof.
  intros nt T phi. unfold spec_r, mp_spec.
  apply (query_sim eqn_spec_r eqn_spec (fun _ => True) (fun _ => True) nt phi); auto.
  intros s1 s2 name g r u u' _ _ _ Hu. unfold eqn_spec_r, eqn_spec. cbn [fst snd].
  split; [|split; exact Logic.I].
  rewrite <- expectation_rec. apply (exact_gen_rel alg_qr alg_q Qeq alg_qr_q); [reflexivity|exact Hu].
Qed.

(* ================================================================== *)
(* 4. bounds *)
Definition Hunit (H : Hmap) : Prop := forall v m, 0 <= H v m <= 1.

Lemma qprod_map_unit : forall {X} (f : X -> Q) l, (forall x, 0 <= f x <= 1) -> 0 <= qprod (map f l) <= 1.
Proof.
  intros X f l Hf. unfold qprod. apply qprod_unit; [lra|].
  intros x Hx. apply in_map_iff in Hx. destruct Hx as [y [<- _]]. apply Hf.
Qed.

Lemma qsum_bounds : forall {X} (f : X -> Q) l, (forall x, 0 <= f x <= 1) ->
    0 <= qsum (map f l) <= inject_Z (Z.of_nat (length l)).
Proof.
  intros X f l Hf. induction l as [|x l IH]; cbn [map length].
  - unfold qsum. cbn [fold_left Z.of_nat]. change (inject_Z 0) with 0. lra.
  - rewrite qsum_cons, Nat2Z.inj_succ. unfold Z.succ. rewrite inject_Z_plus.
    specialize (Hf x). change (inject_Z 1) with 1. lra.
Qed.

Section Bounds.
  Context {S : Type} (eqn : S -> mname -> graph -> nat -> Q -> (nat -> Q) -> Q * S) (nt : net) (phi : Q).
  Hypothesis Heqn : forall s name g r u, (forall v, 0 <= u v <= 1) -> 0 <= fst (eqn s name g r phi u) <= 1.

  Lemma calc_unit : forall hs focal id, Hunit (fst hs) -> Hunit (fst (calc eqn nt phi hs focal id)).
  Proof.
    intros hs focal id HH v m. unfold calc. cbn [fst]. unfold upd.
    destruct (Nat.eqb v focal && Nat.eqb m id)%bool; [|apply HH].
    apply Heqn. intros j. unfold u_of. apply qprod_map_unit. intros x. apply HH.
  Qed.
  Lemma sweep_unit : forall hs, Hunit (fst hs) -> Hunit (fst (sweep eqn nt phi hs)).
  Proof.
    intros hs. unfold sweep. generalize (n_sweep nt). intros l. revert hs.
    induction l as [|[[i j] id] l IH]; intros hs HH; cbn [fold_left]; [exact HH|].
    apply IH. apply calc_unit, calc_unit, HH.
  Qed.
  Lemma sweeps_unit : forall T hs, Hunit (fst hs) -> Hunit (fst (sweeps eqn T nt phi hs)).
  Proof. induction T as [|T IH]; intros hs HH; cbn [sweeps]; [exact HH|]. apply IH, sweep_unit, HH. Qed.

  Lemma result_unit : forall H, Hunit H -> n_nodes nt <> [] -> 0 <= result nt H <= 1.
  Proof.
    intros H HH Hn. unfold result, outer_sum.
    pose proof (qsum_bounds (fun i => qprod (map (H i) (ids_at nt i))) (n_nodes nt)
                            (fun i => qprod_map_unit (H i) (ids_at nt i) (fun m => HH i m))) as Hb.
    set (s := qsum _) in *. set (n := inject_Z (Z.of_nat (length (n_nodes nt)))) in *.
    assert (Hpos : 0 < n).
    { unfold n. change 0 with (inject_Z 0). rewrite <- Zlt_Qlt.
      destruct (n_nodes nt); [contradiction|cbn [length]; lia]. }
    assert (H1 : 0 <= s / n) by (apply Qle_shift_div_l; [exact Hpos|lra]).
    assert (H2 : s / n <= 1) by (apply Qle_shift_div_r; [exact Hpos|lra]).
    lra.
  Qed.

  Theorem query_unit : forall T st, n_nodes nt <> [] -> 0 <= fst (mp_query eqn nt T st phi) <= 1.
  Proof.
    intros T st Hn. unfold mp_query. cbn [fst]. apply result_unit; [|exact Hn].
    apply sweeps_unit. intros v m. unfold H0. cbn [fst]. lra.
  Qed.
End Bounds.

Theorem spec_bounds : forall nt T phi, 0 <= phi <= 1 -> n_nodes nt <> [] -> 0 <= mp_spec nt T phi <= 1.
Proof.
  intros nt T phi Hphi Hn. unfold mp_spec. apply query_unit; [|exact Hn].
  intros s name g r u Hu. unfold eqn_spec. cbn [fst]. apply exact_in_unit; assumption.
Qed.

(* ================================================================== *)
(* 5. phi = 0: nothing is ever occupied, every message becomes 1 after one sweep *)
Lemma reach_no_edges : forall fuel root, reach fuel [] [root] = [root].
Proof. destruct fuel; reflexivity. Qed.

Lemma leaf_no_edges : forall nodes root,
    filter (fun v => negb (Nat.eqb v root)) (comp nodes [] root) = [].
Proof.
  intros nodes root. unfold comp. rewrite reach_no_edges.
  induction nodes as [|v nodes IH]; cbn [filter]; [reflexivity|].
  unfold memb at 1. cbn [existsb]. rewrite orb_false_r.
  destruct (Nat.eqb v root) eqn:E; [|exact IH].
  cbn [filter]. rewrite E. cbn [negb]. exact IH.
Qed.

Lemma exact_rec_phi0 : forall nodes root phi u es, phi == 0 ->
    exact_rec alg_q nodes root phi u es [] == 1.
Proof.
  intros nodes root phi u es Hphi. induction es as [|e es IH]; cbn [exact_rec].
  - rewrite leaf_no_edges. reflexivity.
  - cbn [alg_q aadd amul asub a1]. rewrite IH.
    generalize (exact_rec alg_q nodes root phi u es ([] ++ [e])). intros X.
    rewrite Hphi. ring.
Qed.

Lemma expectation_phi0 : forall g r phi u, phi == 0 -> expectation g r phi u == 1.
Proof. intros. rewrite <- expectation_rec. unfold exact_gen. apply exact_rec_phi0. assumption. Qed.

Lemma nodup_ids_in : forall l d x, In x (nodup_ids l d) -> In x l.
Proof.
  induction l as [|y l IH]; intros d x Hx; cbn [nodup_ids] in Hx; [contradiction|].
  destruct (memb y d).
  - right. eapply IH, Hx.
  - destruct Hx as [<-|Hx]; [left; reflexivity|right; eapply IH, Hx].
Qed.

Lemma ids_at_in : forall nt i id, In id (ids_at nt i) ->
    exists j, In (i, j, id) (n_sweep nt) \/ In (j, i, id) (n_sweep nt).
Proof.
  intros nt i id Hin. unfold ids_at in Hin. apply nodup_ids_in in Hin.
  apply in_map_iff in Hin. destruct Hin as [[l id'] [Hid Hin]]. cbn [snd] in Hid. subst id'.
  unfold nbrs_lab in Hin. apply in_flat_map in Hin. destruct Hin as [[[a b] id'] [He Hin]].
  destruct (Nat.eqb a i) eqn:Ea.
  - destruct Hin as [Hin|[]]. injection Hin as <- <-. apply Nat.eqb_eq in Ea. subst a. exists b. left. exact He.
  - destruct (Nat.eqb b i) eqn:Eb; [|contradiction].
    destruct Hin as [Hin|[]]. injection Hin as <- <-. apply Nat.eqb_eq in Eb. subst b. exists a. right. exact He.
Qed.

Section Zero.
  Context {S : Type} (eqn : S -> mname -> graph -> nat -> Q -> (nat -> Q) -> Q * S) (nt : net) (phi : Q).
  Hypothesis Heqn : forall s name g r u, fst (eqn s name g r phi u) == 1.

  Lemma calc_ones : forall hs focal id,
      (forall v m, fst hs v m == 1 -> fst (calc eqn nt phi hs focal id) v m == 1)
      /\ fst (calc eqn nt phi hs focal id) focal id == 1.
  Proof.
    intros hs focal id. unfold calc. cbn [fst]. unfold upd. split.
    - intros v m Hvm. destruct (Nat.eqb v focal && Nat.eqb m id)%bool; [apply Heqn|exact Hvm].
    - rewrite !Nat.eqb_refl. cbn [andb]. apply Heqn.
  Qed.

  Lemma sweep_list_ones : forall l hs,
      let hs' := fold_left (fun hs e => let '(i, j, id) := e in calc eqn nt phi (calc eqn nt phi hs i id) j id) l hs in
      (forall v m, fst hs v m == 1 -> fst hs' v m == 1)
      /\ (forall i j id, In (i, j, id) l -> fst hs' i id == 1 /\ fst hs' j id == 1).
  Proof.
    induction l as [|[[i j] id] l IH]; intros hs; cbn [fold_left].
    - split; [auto|intros i j id []].
    - destruct (IH (calc eqn nt phi (calc eqn nt phi hs i id) j id)) as [Hkeep Hin].
      destruct (calc_ones hs i id) as [K1 O1].
      destruct (calc_ones (calc eqn nt phi hs i id) j id) as [K2 O2].
      split.
      + intros v m Hvm. apply Hkeep, K2, K1, Hvm.
      + intros i' j' id' [He|He].
        * injection He as <- <- <-. split; apply Hkeep; [apply K2, O1|apply O2].
        * apply Hin, He.
  Qed.

  Lemma sweeps_ones : forall T hs, (0 < T)%nat ->
      forall i j id, In (i, j, id) (n_sweep nt) ->
                     fst (sweeps eqn T nt phi hs) i id == 1 /\ fst (sweeps eqn T nt phi hs) j id == 1.
  Proof.
    induction T as [|T IH]; intros hs HT i j id Hin; [lia|]. cbn [sweeps].
    destruct T as [|T'].
    - cbn [sweeps]. unfold sweep. apply (proj2 (sweep_list_ones (n_sweep nt) hs)), Hin.
    - apply IH; [lia|exact Hin].
  Qed.

  Theorem query_zero : forall T st, (0 < T)%nat -> n_nodes nt <> [] -> fst (mp_query eqn nt T st phi) == 0.
  Proof.
    intros T st HT Hn. unfold mp_query. cbn [fst]. unfold result, outer_sum.
    set (H := fst (sweeps eqn T nt phi (H0, st))).
    assert (Hp : forall i, qprod (map (H i) (ids_at nt i)) == 1).
    { intros i. unfold qprod.
      assert (G : forall l a, (forall id, In id l -> H i id == 1) -> fold_left Qmult (map (H i) l) a == a).
      { induction l as [|x l IHl]; intros a Hl; cbn [map fold_left]; [reflexivity|].
        rewrite IHl; [|intros id Hid; apply Hl; right; exact Hid].
        rewrite (Hl x); [ring|left; reflexivity]. }
      apply G. intros id Hid. apply ids_at_in in Hid. destruct Hid as [j [Hin|Hin]].
      - apply (sweeps_ones T (H0, st) HT i j id Hin).
      - apply (sweeps_ones T (H0, st) HT j i id Hin). }
    assert (Hs : qsum (map (fun i => qprod (map (H i) (ids_at nt i))) (n_nodes nt))
                 == inject_Z (Z.of_nat (length (n_nodes nt)))).
    { generalize (n_nodes nt). intros l. induction l as [|x l IHl]; cbn [map length].
      - reflexivity.
      - rewrite qsum_cons, IHl, Hp, Nat2Z.inj_succ. unfold Z.succ. rewrite inject_Z_plus.
        change (inject_Z 1) with 1. ring. }
    rewrite Hs.
    assert (Hne : ~ inject_Z (Z.of_nat (length (n_nodes nt))) == 0).
    { change 0 with (inject_Z 0). rewrite inject_Z_injective.
      destruct (n_nodes nt); [contradiction|cbn [length]; lia]. }
    field. exact Hne.
  Qed.
End Zero.

Theorem spec_zero : forall nt T phi, phi == 0 -> (0 < T)%nat -> n_nodes nt <> [] -> mp_spec nt T phi == 0.
Proof.
  intros nt T phi Hphi HT Hn. unfold mp_spec. apply query_zero; [|exact HT|exact Hn].
  intros s name g r u. unfold eqn_spec. cbn [fst]. apply expectation_phi0, Hphi.
Qed.

(* ================================================================== *)
(* 6. the checker *)
Lemma Qle_bool_true : forall a b, Qle_bool a b = true -> a <= b.
Proof. intros a b. apply Qle_bool_iff. Qed.

Theorem c17_check_sound : forall nt T pvs, c17_checkb nt T pvs = true ->
    forall phi v, In (phi, v) pvs ->
      v - mp_spec nt T phi <= tol /\ mp_spec nt T phi - v <= tol
      /\ (0 <= phi <= 1 -> - tol <= v <= 1 + tol)
      /\ (phi == 0 -> (0 < T)%nat -> - tol <= v <= tol).
Proof.
  intros nt T pvs Hc phi v Hin. unfold c17_checkb in Hc. apply andb_true_iff in Hc. destruct Hc as [Hq _].
  rewrite forallb_forall in Hq. specialize (Hq _ Hin). unfold query_okb in Hq.
  apply andb_true_iff in Hq. destruct Hq as [Hq Hd].
  apply andb_true_iff in Hq. destruct Hq as [Hq Hc].
  apply andb_true_iff in Hq. destruct Hq as [Ha Hb].
  apply Qle_bool_true in Ha. apply Qle_bool_true in Hb.
  rewrite spec_r_is_spec in Ha, Hb.
  split; [exact Ha|split; [exact Hb|split]].
  - intros [Hp0 Hp1].
    assert (E0 : Qle_bool 0 phi = true) by (apply Qle_bool_iff; exact Hp0).
    assert (E1 : Qle_bool phi 1 = true) by (apply Qle_bool_iff; exact Hp1).
    rewrite E0, E1 in Hc. cbn [andb] in Hc. apply andb_true_iff in Hc. destruct Hc as [Hc1 Hc2].
    split; apply Qle_bool_true; assumption.
  - intros Hp0 HT.
    assert (E0 : Qeq_bool phi 0 = true) by (apply Qeq_bool_iff; exact Hp0).
    assert (E1 : negb (Nat.eqb T 0) = true) by (destruct T; [lia|reflexivity]).
    rewrite E0, E1 in Hd. cbn [andb] in Hd. apply andb_true_iff in Hd. destruct Hd as [Hd1 Hd2].
    apply Qle_bool_true in Hd1, Hd2. split; lra.
Qed.

Theorem c17_check_mono_sound : forall nt T pvs, c17_checkb nt T pvs = true ->
    forall phi v phi' v', In (phi, v) pvs -> In (phi', v') pvs ->
      0 <= phi -> phi <= phi' -> phi' <= 1 -> v <= v' + tol + tol.
Proof.
  intros nt T pvs Hc phi v phi' v' Hin Hin' H0p Hpp Hp1.
  unfold c17_checkb in Hc. apply andb_true_iff in Hc. destruct Hc as [_ Hm].
  unfold mono_okb in Hm. rewrite forallb_forall in Hm. specialize (Hm _ Hin).
  rewrite forallb_forall in Hm. specialize (Hm _ Hin'). cbn [fst snd] in Hm.
  assert (E0 : Qle_bool 0 phi = true) by (apply Qle_bool_iff; exact H0p).
  assert (E1 : Qle_bool phi phi' = true) by (apply Qle_bool_iff; exact Hpp).
  assert (E2 : Qle_bool phi' 1 = true) by (apply Qle_bool_iff; exact Hp1).
  rewrite E0, E1, E2 in Hm. cbn [andb] in Hm. apply Qle_bool_true in Hm. exact Hm.
Qed.

(* ================================================================== *)
(* 7. the formula, spelled out *)
Theorem mp_formula : forall nt T phi,
    mp_model nt T phi = result nt (fst (sweeps eqn_fresh T nt phi (H0, tt)))
    /\ (forall H focal id,
           fst (calc eqn_fresh nt phi (H, tt) focal id)
           = upd H focal id (auto_q (motif_graph (find_motif nt id)) focal phi
                                    (u_of nt H (m_verts (find_motif nt id)))))
    /\ (forall H, result nt H
                  = 1 - qsum (map (fun i => qprod (map (H i) (ids_at nt i))) (n_nodes nt))
                        / inject_Z (Z.of_nat (length (n_nodes nt)))).
Proof. intros. repeat split. Qed.

(* ================================================================== *)
(* 8. the message-passing iterate: messages decrease, the value increases with phi *)
Definition Hle (H' H : Hmap) : Prop := forall v m, 0 <= H' v m <= H v m /\ H v m <= 1.

Lemma qprod_map_mono : forall {X} (f f' : X -> Q) l,
    (forall x, 0 <= f' x <= f x /\ f x <= 1) ->
    0 <= qprod (map f' l) <= qprod (map f l) /\ qprod (map f l) <= 1.
Proof.
  intros X f f' l Hf. induction l as [|x l IH]; cbn [map].
  - rewrite qprod_nil. lra.
  - rewrite !qprod_cons. destruct IH as [[I0 I1] I2]. destruct (Hf x) as [[F0 F1] F2]. nra.
Qed.

Section MonoMP.
  Variables (nt : net) (phi phi' : Q).
  Hypotheses (H0p : 0 <= phi) (Hpp : phi <= phi') (H1p : phi' <= 1).

  Lemma calc_mono : forall (H' H : Hmap) focal id, Hle H' H ->
      Hle (fst (calc eqn_spec nt phi' (H', tt) focal id)) (fst (calc eqn_spec nt phi (H, tt) focal id)).
  Proof.
    intros H' H focal id HH v m. unfold calc, eqn_spec. cbn [fst snd]. unfold upd.
    destruct (Nat.eqb v focal && Nat.eqb m id)%bool; [|apply HH].
    set (g := motif_graph (find_motif nt id)). set (vm := m_verts (find_motif nt id)).
    assert (Hu : forall j, 0 <= u_of nt H' vm j <= u_of nt H vm j /\ u_of nt H vm j <= 1).
    { intros j. unfold u_of. apply qprod_map_mono. intros x. apply HH. }
    split; [split|].
    - apply (exact_in_unit g focal phi' (u_of nt H' vm)); [lra|].
      intros j. destruct (Hu j) as [[U0 U1] U2]. lra.
    - apply expectation_mono; try assumption; intros j; destruct (Hu j) as [[U0 U1] U2]; lra.
    - apply (exact_in_unit g focal phi (u_of nt H vm)); [lra|].
      intros j. destruct (Hu j) as [[U0 U1] U2]. lra.
  Qed.

  Lemma unit_state : forall (hs : Hmap * unit), hs = (fst hs, tt).
  Proof. intros [H []]. reflexivity. Qed.

  Lemma sweep_mono : forall (hs' hs : Hmap * unit), Hle (fst hs') (fst hs) ->
      Hle (fst (sweep eqn_spec nt phi' hs')) (fst (sweep eqn_spec nt phi hs)).
  Proof.
    intros hs' hs. unfold sweep. generalize (n_sweep nt). intros l. revert hs' hs.
    induction l as [|[[i j] id] l IH]; intros hs' hs HH; cbn [fold_left]; [exact HH|].
    apply IH.
    rewrite (unit_state (calc eqn_spec nt phi' hs' i id)), (unit_state (calc eqn_spec nt phi hs i id)).
    apply calc_mono.
    rewrite (unit_state hs'), (unit_state hs). apply calc_mono. exact HH.
  Qed.

  Lemma sweeps_mono : forall T (hs' hs : Hmap * unit), Hle (fst hs') (fst hs) ->
      Hle (fst (sweeps eqn_spec T nt phi' hs')) (fst (sweeps eqn_spec T nt phi hs)).
  Proof. induction T as [|T IH]; intros hs' hs HH; cbn [sweeps]; [exact HH|]. apply IH, sweep_mono, HH. Qed.

  Lemma qsum_map_le : forall {X} (f f' : X -> Q) l, (forall x, f' x <= f x) -> qsum (map f' l) <= qsum (map f l).
  Proof.
    intros X f f' l Hf. induction l as [|x l IH]; cbn [map]; [lra|].
    rewrite !qsum_cons. specialize (Hf x). lra.
  Qed.

  Theorem spec_monotone : forall T, mp_spec nt T phi <= mp_spec nt T phi'.
  Proof.
    intros T. unfold mp_spec, mp_query. cbn [fst]. unfold result, outer_sum.
    assert (HH : Hle (fst (sweeps eqn_spec T nt phi' (H0, tt))) (fst (sweeps eqn_spec T nt phi (H0, tt)))).
    { apply sweeps_mono. intros v m. unfold H0. cbn [fst]. lra. }
    set (Hb := fst (sweeps eqn_spec T nt phi' (H0, tt))) in *.
    set (Ha := fst (sweeps eqn_spec T nt phi (H0, tt))) in *.
    assert (Hs : qsum (map (fun i => qprod (map (Hb i) (ids_at nt i))) (n_nodes nt))
                 <= qsum (map (fun i => qprod (map (Ha i) (ids_at nt i))) (n_nodes nt))).
    { apply qsum_map_le. intros i.
      destruct (qprod_map_mono (Ha i) (Hb i) (ids_at nt i) (fun m => HH i m)) as [[P0 P1] P2]. exact P1. }
    set (sb := qsum _) in *. set (sa := qsum (map (fun i => qprod (map (Ha i) (ids_at nt i))) (n_nodes nt))) in *.
    set (n := inject_Z (Z.of_nat (length (n_nodes nt)))).
    assert (Hn : 0 <= n).
    { unfold n. change 0 with (inject_Z 0). rewrite <- Zle_Qle. lia. }
    assert (Hd : sb / n <= sa / n).
    { unfold Qdiv. apply Qmult_le_compat_r; [exact Hs|]. apply Qinv_le_0_compat, Hn. }
    lra.
  Qed.
End MonoMP.

Local Close Scope Q_scope.
Local Open Scope nat_scope.
(* ================================================================== *)
(* 9. what "the other motifs of j" means: under the cover precondition the code's neighbour-based
   exclusion is "all motifs of j except the current one, each once" *)
Lemma filter_map_snd : forall {X} (q : nat -> bool) (l : list (X * nat)),
    map snd (filter (fun p => q (snd p)) l) = filter q (map snd l).
Proof.
  intros X q. induction l as [|p l IH]; [reflexivity|]. cbn [filter map].
  destruct (q (snd p)); cbn [map]; rewrite IH; reflexivity.
Qed.

Lemma nodup_ids_done_irrelevant : forall id t d d',
    (forall x, x <> id -> memb x d = memb x d') ->
    filter (fun x => negb (Nat.eqb x id)) (nodup_ids t d) = filter (fun x => negb (Nat.eqb x id)) (nodup_ids t d').
Proof.
  intros id. induction t as [|x t IH]; intros d d' Hd; [reflexivity|]. cbn [nodup_ids].
  destruct (Nat.eqb x id) eqn:E.
  - apply Nat.eqb_eq in E. subst x.
    assert (H1 : forall d1 d2, (forall x, x <> id -> memb x d1 = memb x d2) ->
                 forall x, x <> id -> memb x (id :: d1) = memb x d2).
    { intros d1 d2 H x Hx. cbn [memb existsb]. fold (memb x d1). rewrite (H x Hx).
      destruct (Nat.eqb x id) eqn:E'; [apply Nat.eqb_eq in E'; contradiction|reflexivity]. }
    destruct (memb id d), (memb id d'); cbn [filter]; rewrite ?Nat.eqb_refl; cbn [negb].
    + apply IH, Hd.
    + apply IH. intros x Hx. symmetry. apply (H1 d' d); [intros; symmetry; auto|exact Hx].
    + apply IH. apply H1, Hd.
    + apply IH. intros x Hx. rewrite (H1 d d' Hd x Hx). symmetry.
      cbn [memb existsb]. fold (memb x d'). destruct (Nat.eqb x id) eqn:E'; [apply Nat.eqb_eq in E'; contradiction|reflexivity].
  - assert (Hx : x <> id) by (intros ->; rewrite Nat.eqb_refl in E; discriminate).
    rewrite (Hd x Hx). destruct (memb x d'); [apply IH, Hd|].
    cbn [filter]. rewrite E. cbn [negb]. f_equal. apply IH.
    intros y Hy. cbn [memb existsb]. fold (memb y d) (memb y d'). rewrite (Hd y Hy). reflexivity.
Qed.

Lemma nodup_ids_filter : forall id t d,
    nodup_ids (filter (fun x => negb (Nat.eqb x id)) t) d
    = filter (fun x => negb (Nat.eqb x id)) (nodup_ids t d) \/ memb id d = true.
Proof.
  intros id t d. destruct (memb id d) eqn:Ed; [right; reflexivity|left]. revert d Ed.
  induction t as [|x t IH]; intros d Ed; [reflexivity|]. cbn [filter nodup_ids].
  destruct (Nat.eqb x id) eqn:E; cbn [negb].
  - apply Nat.eqb_eq in E. subst x. rewrite Ed. cbn [filter]. rewrite Nat.eqb_refl. cbn [negb].
    rewrite (IH d Ed). apply nodup_ids_done_irrelevant.
    intros y Hy. cbn [memb existsb]. fold (memb y d).
    destruct (Nat.eqb y id) eqn:E'; [apply Nat.eqb_eq in E'; contradiction|reflexivity].
  - cbn [nodup_ids]. destruct (memb x d); [apply IH, Ed|].
    cbn [filter]. rewrite E. cbn [negb]. f_equal. apply IH.
    cbn [memb existsb]. fold (memb id d). rewrite Ed, Nat.eqb_sym, E. reflexivity.
Qed.

(* cover precondition seen from vertex j of motif id: a labelled neighbour lies in the motif's vertex list
   exactly when the connecting edge belongs to that motif (motifs sharing j share nothing else) *)
Definition cover_ok_at (nt : net) (j id : nat) : Prop :=
  forall l id', In (l, id') (nbrs_lab nt j) ->
                (memb l (m_verts (find_motif nt id)) = true <-> id' = id).

Theorem others_semantic : forall nt j id, cover_ok_at nt j id ->
    others nt j (m_verts (find_motif nt id)) = filter (fun x => negb (Nat.eqb x id)) (ids_at nt j).
Proof.
  intros nt j id Hc. unfold others, ids_at.
  pose (q := fun x => negb (Nat.eqb x id)).
  assert (E : filter (fun p => negb (memb (fst p) (m_verts (find_motif nt id)))) (nbrs_lab nt j)
              = filter (fun p => q (snd p)) (nbrs_lab nt j)).
  { apply filter_ext_in. intros [l id'] Hin. unfold q. cbn [fst snd]. specialize (Hc l id' Hin).
    destruct (memb l (m_verts (find_motif nt id))) eqn:Em, (Nat.eqb id' id) eqn:Ei; try reflexivity.
    - apply Nat.eqb_neq in Ei. exfalso. apply Ei, Hc. reflexivity.
    - apply Nat.eqb_eq in Ei. apply Hc in Ei. discriminate. }
  rewrite E, (filter_map_snd q). unfold q.
  destruct (nodup_ids_filter id (map snd (nbrs_lab nt j)) []) as [H|H]; [exact H|discriminate H].
Qed.

Lemma cover_ok_atb_spec : forall nt j id, cover_ok_atb nt j id = true -> cover_ok_at nt j id.
Proof.
  intros nt j id H l id' Hin. unfold cover_ok_atb in H. rewrite forallb_forall in H.
  specialize (H _ Hin). cbn [fst snd] in H. apply Bool.eqb_prop in H. rewrite H. apply Nat.eqb_eq.
Qed.

Theorem cover_okb_others : forall nt, cover_okb nt = true ->
    forall i j id, In (i, j, id) (n_sweep nt) ->
    forall v, In v (g_nodes (motif_graph (find_motif nt id))) ->
      others nt v (m_verts (find_motif nt id)) = filter (fun x => negb (Nat.eqb x id)) (ids_at nt v).
Proof.
  intros nt H i j id Hin v Hv. unfold cover_okb in H. rewrite forallb_forall in H.
  specialize (H _ Hin). cbn beta iota in H. rewrite forallb_forall in H.
  apply others_semantic, cover_ok_atb_spec, H, Hv.
Qed.
