(* Proofs about Model/Gen.v: the generators (C01, C02). The counting results for C03 are in
   Proofs/GenPermP.v. *)
From Coq Require Import List ZArith Bool Arith Lia Permutation.
From GV Require Import Lib.Tree Lib.GenList Model.Gen.
Import ListNotations.

(* ------------------------------------------------------------------ boolean reflection *)
Lemma list_eqb_eq : forall a b, list_eqb a b = true <-> a = b.
Proof.
  induction a as [|x a IH]; destruct b as [|y b]; cbn; split; intro H; try reflexivity; try discriminate.
  - apply andb_true_iff in H. destruct H as [H1 H2]. apply Nat.eqb_eq in H1. apply IH in H2. congruence.
  - inversion H; subst. apply andb_true_iff. split; [apply Nat.eqb_refl|now apply IH].
Qed.

Lemma lists_eqb_eq : forall a b, lists_eqb a b = true <-> a = b.
Proof.
  induction a as [|x a IH]; destruct b as [|y b]; cbn; split; intro H; try reflexivity; try discriminate.
  - apply andb_true_iff in H. destruct H as [H1 H2]. apply list_eqb_eq in H1. apply IH in H2. congruence.
  - inversion H; subst. apply andb_true_iff. split; [now apply list_eqb_eq|now apply IH].
Qed.

Lemma memb_In : forall v l, memb v l = true <-> In v l.
Proof.
  intros v l. induction l as [|x t IH]; cbn; [split; [discriminate|tauto]|].
  rewrite orb_true_iff, Nat.eqb_eq, IH. split; intros [H|H]; auto.
Qed.

Lemma nodupb_NoDup : forall l, nodupb l = true <-> NoDup l.
Proof.
  induction l as [|x t IH]; cbn; [split; [constructor|reflexivity]|].
  rewrite andb_true_iff, negb_true_iff, IH. split.
  - intros [H1 H2]. constructor; [|exact H2]. intro Hi. apply memb_In in Hi. congruence.
  - intro H. inversion H as [|? ? Hn Hd]; subst. split; [|exact Hd].
    destruct (memb x t) eqn:E; [|reflexivity]. apply memb_In in E. contradiction.
Qed.

(* ------------------------------------------------------------------ count *)
Lemma count_app : forall v a b, count v (a ++ b) = count v a + count v b.
Proof. intros v a b. induction a as [|x t IH]; cbn; [reflexivity|]. rewrite IH. lia. Qed.

Lemma count_repeat : forall v x n, count v (repeat x n) = if Nat.eqb v x then n else 0.
Proof.
  intros v x n. induction n as [|n IH]; cbn; [now destruct (Nat.eqb v x)|].
  rewrite IH. destruct (Nat.eqb v x); lia.
Qed.

Lemma count_count_occ : forall v l, count v l = count_occ Nat.eq_dec l v.
Proof.
  intros v l. induction l as [|x t IH]; cbn; [reflexivity|].
  destruct (Nat.eq_dec x v) as [->|Hne].
  - rewrite Nat.eqb_refl, IH. reflexivity.
  - destruct (Nat.eqb_spec v x); [congruence|]. now rewrite IH.
Qed.

Lemma perm_count : forall a b, Permutation a b <-> (forall v, count v a = count v b).
Proof.
  intros a b. rewrite (Permutation_count_occ Nat.eq_dec). split; intros H v.
  - rewrite !count_count_occ. apply H.
  - rewrite <- !count_count_occ. apply H.
Qed.

Lemma count_pos_In : forall v l, count v l > 0 <-> In v l.
Proof.
  intros v l. induction l as [|x t IH]; cbn; [split; [lia|tauto]|].
  destruct (Nat.eqb_spec v x) as [->|Hne].
  - split; [now left|lia].
  - rewrite Nat.add_0_l, IH. split; [now right|]. intros [H|H]; [congruence|exact H].
Qed.

Lemma count_zero_notin : forall v l, ~ In v l -> count v l = 0.
Proof. intros v l H. destruct (count v l) eqn:E; [reflexivity|]. exfalso. apply H, count_pos_In. lia. Qed.

(* ------------------------------------------------------------------ stubs *)
Lemma stubs_from_length : forall c v, length (stubs_from v c) = sum c.
Proof.
  induction c as [|d c IH]; intros v; cbn; [reflexivity|].
  now rewrite app_length, repeat_length, IH.
Qed.

Lemma count_stubs_from : forall c v0 v,
  count v (stubs_from v0 c) = if (v0 <=? v) && (v <? v0 + length c) then nth (v - v0) c 0 else 0.
Proof.
  induction c as [|d c IH]; intros v0 v; cbn [stubs_from length nth].
  - cbn [count]. destruct ((v0 <=? v) && (v <? v0 + 0)); [|reflexivity]. now destruct (v - v0).
  - rewrite count_app, count_repeat, IH.
    destruct (Nat.eqb_spec v v0) as [->|Hne].
    + replace (S v0 <=? v0) with false by (symmetry; apply Nat.leb_gt; lia).
      replace (v0 <=? v0) with true by (symmetry; apply Nat.leb_le; lia).
      replace (v0 <? v0 + S (length c)) with true by (symmetry; apply Nat.ltb_lt; lia).
      replace (v0 - v0) with 0 by lia. cbn. lia.
    + destruct (le_lt_dec v0 v) as [Hle|Hlt].
      * replace (S v0 <=? v) with true by (symmetry; apply Nat.leb_le; lia).
        replace (v0 <=? v) with true by (symmetry; apply Nat.leb_le; lia).
        replace (v0 + S (length c)) with (S v0 + length c) by lia.
        replace (v - v0) with (S (v - S v0)) by lia. reflexivity.
      * replace (S v0 <=? v) with false by (symmetry; apply Nat.leb_gt; lia).
        replace (v0 <=? v) with false by (symmetry; apply Nat.leb_gt; lia).
        reflexivity.
Qed.

Lemma nth_col : forall jds k v, nth v (col k jds) 0 = jd jds v k.
Proof.
  intros jds k v. unfold col, jd.
  destruct (Nat.ltb_spec v (length jds)) as [Hlt|Hge].
  - now rewrite (nth_map_in _ _ _ _ _ [] 0) by exact Hlt.
  - rewrite (nth_overflow (map _ jds)) by now rewrite map_length.
    rewrite (nth_overflow jds) by exact Hge. now destruct k.
Qed.

Lemma col_length : forall jds k, length (col k jds) = length jds.
Proof. intros. unfold col. apply map_length. Qed.

Lemma jd_overflow : forall jds v k, length jds <= v -> jd jds v k = 0.
Proof. intros jds v k H. unfold jd. rewrite (nth_overflow jds) by exact H. now destruct k. Qed.

(* every vertex v occupies exactly jds[v][k] stubs of topology k; no other vertex occurs *)
Lemma count_stubs : forall jds k v, count v (stubs jds k) = jd jds v k.
Proof.
  intros jds k v. unfold stubs. rewrite count_stubs_from, col_length. cbn [Nat.leb andb Nat.add].
  rewrite Nat.sub_0_r. destruct (Nat.ltb_spec v (length jds)).
  - apply nth_col.
  - symmetry. now apply jd_overflow.
Qed.

Lemma stubs_length : forall jds k, length (stubs jds k) = sum (col k jds).
Proof. intros. apply stubs_from_length. Qed.

Lemma stubs_lt : forall jds k v, In v (stubs jds k) -> v < length jds.
Proof.
  intros jds k v H. apply count_pos_In in H. rewrite count_stubs in H.
  destruct (Nat.ltb_spec v (length jds)); [assumption|]. rewrite jd_overflow in H; lia.
Qed.

(* ------------------------------------------------------------------ shuffles *)
Definition is_perm (pi : list nat) (n : nat) : Prop := Permutation pi (seq 0 n).

Lemma arrange_perm : forall pi l, is_perm pi (length l) -> Permutation (arrange pi l) l.
Proof.
  intros pi l H. unfold arrange.
  eapply Permutation_trans; [apply Permutation_map; exact H|].
  rewrite map_nth_seq. apply Permutation_refl.
Qed.

Lemma arrange_length : forall pi l, length (arrange pi l) = length pi.
Proof. intros. unfold arrange. apply map_length. Qed.

Lemma is_perm_length : forall pi n, is_perm pi n -> length pi = n.
Proof. intros pi n H. apply Permutation_length in H. now rewrite seq_length in H. Qed.

Lemma shuffle_all_length : forall sl pis, length (shuffle_all pis sl) = length sl.
Proof. induction sl as [|s sl IH]; intros pis; cbn; [reflexivity|]. now rewrite IH. Qed.

Lemma shuffle_all_nth : forall sl pis k, k < length sl ->
  nth k (shuffle_all pis sl) [] = arrange (nth k pis []) (nth k sl []).
Proof.
  induction sl as [|s sl IH]; intros pis k Hk; cbn in Hk; [lia|].
  destruct k; cbn [shuffle_all nth].
  - now destruct pis.
  - rewrite IH by lia. now destruct pis; [destruct k|].
Qed.

Lemma all_stubs_length : forall jds, length (all_stubs jds) = ncols jds.
Proof. intros. unfold all_stubs. now rewrite map_length, seq_length. Qed.

Lemma all_stubs_nth : forall jds k, k < ncols jds -> nth k (all_stubs jds) [] = stubs jds k.
Proof.
  intros jds k Hk. unfold all_stubs.
  rewrite (nth_map_in _ _ _ _ _ 0 []) by now rewrite seq_length.
  now rewrite seq_nth.
Qed.

(* the schedules the theorems quantify over: one permutation per topology *)
Definition PisOk (jds pis : list (list nat)) : Prop :=
  forall k, k < ncols jds -> is_perm (nth k pis []) (length (stubs jds k)).

Lemma shuffled_nth_perm : forall jds pis k, PisOk jds pis -> k < ncols jds ->
  Permutation (nth k (shuffle_all pis (all_stubs jds)) []) (stubs jds k).
Proof.
  intros jds pis k HP Hk.
  rewrite shuffle_all_nth by now rewrite all_stubs_length.
  rewrite all_stubs_nth by exact Hk. apply arrange_perm. now apply HP.
Qed.

(* ------------------------------------------------------------------ chunks *)
Lemma chunks_aux_concat : forall fuel n l, 0 < n -> length l <= fuel -> concat (chunks_aux fuel n l) = l.
Proof.
  induction fuel as [|f IH]; intros n l Hn Hl; cbn.
  - destruct l; [reflexivity|cbn in Hl; lia].
  - destruct l as [|x t]; [reflexivity|]. cbn [concat].
    rewrite IH; [apply firstn_skipn|exact Hn|].
    rewrite skipn_length. cbn [length] in *. lia.
Qed.

Lemma chunks_concat : forall n l, 0 < n -> concat (chunks n l) = l.
Proof. intros. unfold chunks. now apply chunks_aux_concat. Qed.

Lemma chunks_aux_div : forall fuel n l q, 0 < n -> length l <= fuel -> length l = q * n ->
  length (chunks_aux fuel n l) = q /\ Forall (fun g => length g = n) (chunks_aux fuel n l).
Proof.
  induction fuel as [|f IH]; intros n l q Hn Hl Hq; cbn.
  - destruct l; [|cbn in Hl; lia]. split; [|constructor].
    destruct q; [reflexivity|cbn in Hq; lia].
  - destruct l as [|x t].
    + split; [|constructor]. destruct q; [reflexivity|cbn in Hq; lia].
    + destruct q as [|q]; [cbn in Hq; lia|].
      assert (Hs : length (skipn n (x :: t)) = q * n) by (rewrite skipn_length; cbn [length] in *; lia).
      destruct (IH n (skipn n (x :: t)) q Hn) as [H1 H2]; [cbn [length] in *; lia|exact Hs|].
      split; [cbn [length]; now rewrite H1|].
      constructor; [|exact H2]. rewrite firstn_length. cbn [length] in *. nia.
Qed.

Lemma chunks_div : forall n l, 0 < n -> length l mod n = 0 ->
  length (chunks n l) = length l / n /\ Forall (fun g => length g = n) (chunks n l).
Proof.
  intros n l Hn Hm. unfold chunks.
  apply chunks_aux_div; [exact Hn|lia|].
  pose proof (Nat.div_mod_eq (length l) n). nia.
Qed.

(* ------------------------------------------------------------------ hypotheses of C01 *)
Record Valid (sizes : list nat) (mis jds : list (list nat)) : Prop := mk_Valid {
  v_rect : forall r, In r jds -> length r = ncols jds;
  v_sizes : forall k, k < ncols jds -> k < length sizes /\ 0 < size_of sizes k;
  v_idxs : forall idxs, In idxs mis -> idxs <> [] /\ forall i, In i idxs -> i < ncols jds;
  v_nodup : NoDup (concat mis);
  v_cover : forall k, k < ncols jds -> In k (concat mis);
  (* handshake: every column sum is divisible by its size ... *)
  v_div : forall i, In i (concat mis) -> sum (col i jds) mod size_of sizes i = 0;
  (* ... and all orbits of one motif yield the same number of partitions *)
  v_orbits : forall idxs i, In idxs mis -> In i idxs ->
      sum (col i jds) / size_of sizes i = sum (col (hd 0 idxs) jds) / size_of sizes (hd 0 idxs)
}.

Lemma validb_Valid : forall sizes mis jds, validb sizes mis jds = true <-> Valid sizes mis jds.
Proof.
  intros sizes mis jds. unfold validb. rewrite !andb_true_iff, !forallb_forall, nodupb_NoDup. split.
  - intros [[[[[[H1 H2] H3] H4] H5] H6] H7]. constructor.
    + intros r Hr. now apply Nat.eqb_eq, H1.
    + intros k Hk. specialize (H2 k (proj2 (in_seq0 _ _) Hk)).
      apply andb_true_iff in H2. destruct H2 as [Ha Hb]. apply Nat.ltb_lt in Ha, Hb. now split.
    + intros idxs Hi. specialize (H3 idxs Hi). destruct idxs as [|i0 t]; [discriminate|].
      split; [discriminate|]. intros i Hin. rewrite forallb_forall in H3. now apply Nat.ltb_lt, H3.
    + exact H4.
    + intros k Hk. now apply memb_In, H5, in_seq0.
    + intros i Hi. now apply Nat.eqb_eq, H6.
    + intros idxs i Hi Hin. specialize (H7 idxs Hi). rewrite forallb_forall in H7. now apply Nat.eqb_eq, H7.
  - intros [V1 V2 V3 V4 V5 V6 V7]. repeat split.
    + intros r Hr. now apply Nat.eqb_eq, V1.
    + intros k Hk. apply in_seq0 in Hk. destruct (V2 k Hk) as [Ha Hb].
      apply andb_true_iff. split; now apply Nat.ltb_lt.
    + intros idxs Hi. destruct (V3 idxs Hi) as [Hne Hlt]. destruct idxs as [|i0 t]; [congruence|].
      apply forallb_forall. intros i Hin. now apply Nat.ltb_lt, Hlt.
    + exact V4.
    + intros k Hk. now apply memb_In, V5, in_seq0.
    + intros i Hi. now apply Nat.eqb_eq, V6.
    + intros idxs Hi. apply forallb_forall. intros i Hin. now apply Nat.eqb_eq, V7.
Qed.

Lemma nth_error_size : forall sizes k, k < length sizes -> nth_error sizes k = Some (size_of sizes k).
Proof. intros. unfold size_of. now apply nth_error_nth'. Qed.

(* ------------------------------------------------------------------ the C01 specification *)
(* on the observable calls (callback index, flat argument list) *)
Definition Spec_calls (sizes : list nat) (mis jds : list (list nat)) (calls : list call) : Prop :=
  (* every call is for a configured motif type, on exactly the configured number of stubs *)
  (forall c, In c calls -> fst c < length mis /\
                           length (snd c) = sum (seg_sizes sizes (nth (fst c) mis []))) /\
  (* number of motif instances of type j = column sum / size *)
  (forall j, j < length mis ->
     length (calls_of j calls) =
     sum (col (hd 0 (nth j mis [])) jds) / size_of sizes (hd 0 (nth j mis []))) /\
  (* every vertex v occupies exactly jds[v][i] slots of orbit/topology i (and vertices >= N none) *)
  (forall j p, j < length mis -> p < length (nth j mis []) ->
     forall v, count v (slots sizes (nth j mis []) j p calls) = jd jds v (nth p (nth j mis []) 0)).

Definition Spec_C01 (sizes : list nat) (mis jds : list (list nat)) (calls : list call)
           (jds_out : list (list nat)) (verts : list nat) : Prop :=
  jds_out = jds /\ Forall (fun v => v < length jds) verts /\ Spec_calls sizes mis jds calls.

(* the structured form produced by the plans *)
Definition Structured (sizes : list nat) (mis jds : list (list nat)) (cs : list ccall) : Prop :=
  (forall c, In c cs -> fst c < length mis /\
       Forall2 (fun i seg => length seg = size_of sizes i) (nth (fst c) mis []) (snd c)) /\
  (forall j, j < length mis ->
       length (filter (fun c => fst c =? j) cs) =
       sum (col (hd 0 (nth j mis [])) jds) / size_of sizes (hd 0 (nth j mis []))) /\
  (forall j p, j < length mis -> p < length (nth j mis []) ->
       Permutation (concat (map (fun c => nth p (snd c) []) (filter (fun c => fst c =? j) cs)))
                   (stubs jds (nth p (nth j mis []) 0))).

Lemma firstn_skipn_app : forall (seg r : list nat) n, length seg = n ->
  firstn n (seg ++ r) = seg /\ skipn n (seg ++ r) = r.
Proof.
  induction seg as [|x t IH]; intros r n H; cbn in H; subst n; cbn; [now split|].
  destruct (IH r (length t) eq_refl) as [H1 H2]. split; [now rewrite H1|exact H2].
Qed.

Lemma split_by_concat : forall (f : nat -> nat) idxs segs,
  Forall2 (fun i seg => length seg = f i) idxs segs ->
  split_by (map f idxs) (concat segs) = segs /\ length (concat segs) = sum (map f idxs).
Proof.
  intros f idxs segs H. induction H as [|i seg idxs segs Hl H IH]; cbn; [now split|].
  destruct IH as [IH1 IH2].
  destruct (firstn_skipn_app seg (concat segs) (f i) Hl) as [H1 H2].
  rewrite H1, H2, IH1, app_length, IH2, Hl. now split.
Qed.

Lemma calls_of_flat : forall j cs,
  calls_of j (map flat_call cs) = map flat_call (filter (fun c => fst c =? j) cs).
Proof. intros. unfold calls_of. now rewrite filter_map_comm. Qed.

Theorem structured_spec : forall sizes mis jds cs,
  Structured sizes mis jds cs -> Spec_calls sizes mis jds (map flat_call cs).
Proof.
  intros sizes mis jds cs [S1 [S2 S3]]. repeat split.
  - apply in_map_iff in H. destruct H as [c0 [<- Hc]]. now apply S1.
  - apply in_map_iff in H. destruct H as [c0 [<- Hc]]. cbn [flat_call fst snd].
    destruct (S1 c0 Hc) as [_ HF]. now apply (split_by_concat (size_of sizes)) in HF.
  - intros j Hj. rewrite calls_of_flat, map_length. now apply S2.
  - intros j p Hj Hp v.
    assert (E : slots sizes (nth j mis []) j p (map flat_call cs) =
                concat (map (fun c => nth p (snd c) []) (filter (fun c => fst c =? j) cs))).
    { unfold slots. rewrite calls_of_flat, map_map. f_equal. apply map_ext_in.
      intros c Hc. apply filter_In in Hc. destruct Hc as [Hc Hf]. apply Nat.eqb_eq in Hf.
      destruct (S1 c Hc) as [_ HF]. rewrite Hf in HF.
      unfold seg_of, seg_sizes. cbn [flat_call snd].
      now rewrite (proj1 (split_by_concat (size_of sizes) _ _ HF)). }
    rewrite E. rewrite (proj1 (perm_count _ _) (S3 j p Hj Hp)). apply count_stubs.
Qed.

(* ------------------------------------------------------------------ the fast plan *)
Lemma plan_fast_from_spec : forall sl k0 sizes,
  (forall i, i < length sl -> k0 + i < length sizes /\ 0 < size_of sizes (k0 + i)) ->
  exists cs, plan_fast_from k0 sizes sl = (cs, None) /\
    (forall c, In c cs -> k0 <= fst c < k0 + length sl) /\
    (forall i, i < length sl ->
       filter (fun c => fst c =? k0 + i) cs =
       map (fun g => (k0 + i, [g])) (chunks (size_of sizes (k0 + i)) (nth i sl []))).
Proof.
  induction sl as [|s rest IH]; intros k0 sizes H.
  - exists []. cbn. repeat split; intros; try contradiction; lia.
  - destruct (H 0) as [Hk Hn]; [cbn; lia|]. rewrite Nat.add_0_r in Hk, Hn.
    destruct (IH (S k0) sizes) as [cs' [E [B F]]].
    { intros i Hi. replace (S k0 + i) with (k0 + S i) by lia. apply H. cbn. lia. }
    cbn [plan_fast_from]. rewrite (nth_error_size _ _ Hk), E.
    destruct (size_of sizes k0) as [|n] eqn:En; [lia|].
    eexists. split; [reflexivity|]. split.
    + intros c Hc. apply in_app_or in Hc. destruct Hc as [Hc|Hc].
      * apply in_map_iff in Hc. destruct Hc as [g [<- _]]. cbn. lia.
      * apply B in Hc. cbn [length]. lia.
    + intros i Hi. rewrite filter_app. destruct i as [|i].
      * rewrite Nat.add_0_r. rewrite filter_all, filter_none.
        -- now rewrite app_nil_r, En.
        -- intros c Hc. apply B in Hc. apply Nat.eqb_neq. lia.
        -- intros c Hc. apply in_map_iff in Hc. destruct Hc as [g [<- _]]. apply Nat.eqb_refl.
      * rewrite filter_none.
        -- cbn [app nth]. replace (k0 + S i) with (S k0 + i) by lia. apply F. cbn in Hi. lia.
        -- intros c Hc. apply in_map_iff in Hc. destruct Hc as [g [<- _]]. apply Nat.eqb_neq. cbn. lia.
Qed.

Lemma singleton_mis_length : forall T, length (singleton_mis T) = T.
Proof. intros. unfold singleton_mis. now rewrite map_length, seq_length. Qed.

Lemma singleton_mis_nth : forall T j, j < T -> nth j (singleton_mis T) [] = [j].
Proof.
  intros T j Hj. unfold singleton_mis.
  rewrite (nth_map_in _ _ _ _ _ 0 []) by now rewrite seq_length. now rewrite seq_nth.
Qed.

Lemma concat_singleton_mis : forall T, concat (singleton_mis T) = seq 0 T.
Proof.
  intros T. unfold singleton_mis. generalize 0. induction T as [|T IH]; intros s; cbn; [reflexivity|].
  now rewrite IH.
Qed.

Lemma shuffled_length : forall jds pis k, PisOk jds pis -> k < ncols jds ->
  length (nth k (shuffle_all pis (all_stubs jds)) []) = sum (col k jds).
Proof.
  intros jds pis k HP Hk. rewrite (Permutation_length (shuffled_nth_perm jds pis k HP Hk)).
  apply stubs_length.
Qed.

(* Valid for the configuration "every topology is its own motif" only needs the column part *)
Theorem plan_fast_structured : forall sizes jds pis,
  Valid sizes (singleton_mis (ncols jds)) jds -> PisOk jds pis ->
  snd (plan_fast sizes jds pis) = None /\
  Structured sizes (singleton_mis (ncols jds)) jds (fst (plan_fast sizes jds pis)).
Proof.
  intros sizes jds pis V HP. set (T := ncols jds) in *.
  set (sl := shuffle_all pis (all_stubs jds)).
  assert (Hlen : length sl = T) by (unfold sl; now rewrite shuffle_all_length, all_stubs_length).
  destruct (plan_fast_from_spec sl 0 sizes) as [cs [E [B F]]].
  { intros i Hi. cbn. apply (v_sizes _ _ _ V). rewrite Hlen in Hi. exact Hi. }
  unfold plan_fast. fold sl. rewrite E. cbn [fst snd]. split; [reflexivity|].
  assert (Hdiv : forall k, k < T -> length (nth k sl []) mod size_of sizes k = 0).
  { intros k Hk. unfold sl. rewrite shuffled_length by assumption.
    apply (v_div _ _ _ V). rewrite concat_singleton_mis. now apply in_seq0. }
  assert (Hin : forall c, In c cs -> fst c < T /\
            exists g, snd c = [g] /\ length g = size_of sizes (fst c)).
  { intros c Hc. destruct (B c Hc) as [_ Hb]. rewrite Hlen in Hb. cbn in Hb. split; [exact Hb|].
    assert (Hf : In c (filter (fun c0 => fst c0 =? 0 + fst c) cs)).
    { apply filter_In. split; [exact Hc|]. cbn. apply Nat.eqb_refl. }
    rewrite F in Hf by now rewrite Hlen. cbn [Nat.add] in Hf.
    apply in_map_iff in Hf. destruct Hf as [g [<- Hg]]. exists g. split; [reflexivity|].
    destruct (chunks_div (size_of sizes (fst c)) (nth (fst c) sl [])) as [_ HF].
    - now apply (v_sizes _ _ _ V).
    - now apply Hdiv.
    - cbn [fst]. rewrite Forall_forall in HF. now apply HF. }
  repeat split.
  - rewrite singleton_mis_length. now apply Hin.
  - destruct (Hin c H) as [Hc [g [Eg Hg]]]. rewrite singleton_mis_nth by exact Hc. rewrite Eg.
    constructor; [exact Hg|constructor].
  - intros j Hj. rewrite singleton_mis_length in Hj. rewrite singleton_mis_nth by exact Hj. cbn [hd].
    specialize (F j). rewrite Hlen in F. cbn [Nat.add] in F. rewrite F by exact Hj. rewrite map_length.
    destruct (chunks_div (size_of sizes j) (nth j sl [])) as [HL _].
    + now apply (v_sizes _ _ _ V).
    + now apply Hdiv.
    + rewrite HL. unfold sl. now rewrite shuffled_length.
  - intros j p Hj Hp. rewrite singleton_mis_length in Hj. rewrite singleton_mis_nth in * by exact Hj.
    cbn in Hp. assert (p = 0) by lia. subst p. cbn [nth].
    specialize (F j). rewrite Hlen in F. cbn [Nat.add] in F. rewrite F by exact Hj.
    rewrite map_map. cbn [snd nth]. rewrite map_id.
    rewrite chunks_concat by now apply (v_sizes _ _ _ V).
    unfold sl. now apply shuffled_nth_perm.
Qed.

(* ------------------------------------------------------------------ the custom-motif plan *)
Lemma upd_nth_length : forall (A : Type) (l : list A) n x, length (upd_nth n x l) = length l.
Proof. induction l as [|h t IH]; intros n x; destruct n; cbn; auto. Qed.

Lemma upd_nth_same : forall (A : Type) (l : list A) n x d, n < length l -> nth n (upd_nth n x l) d = x.
Proof.
  induction l as [|h t IH]; intros n x d H; cbn in H; [lia|].
  destruct n; cbn; [reflexivity|]. apply IH. lia.
Qed.

Lemma upd_nth_other : forall (A : Type) (l : list A) n m x d, n <> m -> nth m (upd_nth n x l) d = nth m l d.
Proof.
  induction l as [|h t IH]; intros n m x d H; destruct n; cbn; try reflexivity.
  - destruct m; [congruence|reflexivity].
  - destruct m; [reflexivity|]. apply IH. congruence.
Qed.

Lemma partitions_from_spec : forall sl k0 sizes,
  (forall i, i < length sl -> k0 + i < length sizes /\ 0 < size_of sizes (k0 + i)) ->
  exists parts, partitions_from k0 sizes sl = Ok parts /\ length parts = length sl /\
    forall i, i < length sl -> nth i parts [] = rev (chunks (size_of sizes (k0 + i)) (nth i sl [])).
Proof.
  induction sl as [|s rest IH]; intros k0 sizes H.
  - exists []. cbn. repeat split. intros; lia.
  - destruct (H 0) as [Hk Hn]; [cbn; lia|]. rewrite Nat.add_0_r in Hk, Hn.
    destruct (IH (S k0) sizes) as [ps [E [L F]]].
    { intros i Hi. replace (S k0 + i) with (k0 + S i) by lia. apply H. cbn. lia. }
    cbn [partitions_from]. rewrite (nth_error_size _ _ Hk), E.
    destruct (size_of sizes k0) as [|n] eqn:En; [lia|].
    eexists. split; [reflexivity|]. split; [cbn; now rewrite L|].
    intros i Hi. destruct i as [|i]; cbn [nth].
    + now rewrite Nat.add_0_r, En.
    + replace (k0 + S i) with (S k0 + i) by lia. apply F. cbn in Hi. lia.
Qed.

(* one round of pops: the heads of the orbit lists, which are then dropped *)
Lemma pop_all_spec : forall idxs parts,
  NoDup idxs ->
  (forall i, In i idxs -> i < length parts /\ nth i parts [] <> []) ->
  exists parts', pop_all idxs parts = Some (map (fun i => hd [] (nth i parts [])) idxs, parts') /\
    length parts' = length parts /\
    (forall i, In i idxs -> nth i parts' [] = tl (nth i parts [])) /\
    (forall i, ~ In i idxs -> nth i parts' [] = nth i parts []).
Proof.
  induction idxs as [|i idxs IH]; intros parts ND H.
  - exists parts. cbn. repeat split; intros; tauto.
  - inversion ND as [|? ? Hni ND']; subst.
    destruct (H i (or_introl eq_refl)) as [Hi Hne].
    cbn [pop_all]. rewrite (nth_error_nth' parts [] Hi).
    destruct (nth i parts []) as [|p ps] eqn:Ei; [congruence|].
    destruct (IH (upd_nth i ps parts) ND') as [parts' [E [L [T O]]]].
    { intros i' Hi'. rewrite upd_nth_length.
      assert (i <> i') by (intro; subst; contradiction).
      rewrite upd_nth_other by assumption. apply H. now right. }
    rewrite E. exists parts'. split; [|split; [|split]].
    + cbn [map]. rewrite Ei. cbn [hd]. do 3 f_equal.
      apply map_ext_in. intros i' Hi'.
      assert (i <> i') by (intro; subst; contradiction).
      now rewrite upd_nth_other.
    + now rewrite L, upd_nth_length.
    + intros i' [<-|Hi'].
      * rewrite O by exact Hni. rewrite upd_nth_same by exact Hi. now rewrite Ei.
      * rewrite T by exact Hi'.
        assert (i <> i') by (intro; subst; contradiction).
        now rewrite upd_nth_other.
    + intros i' Hn. assert (i <> i') by (intro; subst; apply Hn; now left).
      rewrite O by (intro; apply Hn; now right). now rewrite upd_nth_other.
Qed.

Lemma rounds_spec : forall c j idxs parts,
  NoDup idxs ->
  (forall i, In i idxs -> i < length parts /\ c <= length (nth i parts [])) ->
  exists parts', rounds j idxs c parts =
      (map (fun r => (j, map (fun i => nth r (nth i parts []) []) idxs)) (seq 0 c), None, parts') /\
    length parts' = length parts /\
    (forall i, In i idxs -> nth i parts' [] = skipn c (nth i parts [])) /\
    (forall i, ~ In i idxs -> nth i parts' [] = nth i parts []).
Proof.
  induction c as [|c IH]; intros j idxs parts ND H.
  - exists parts. cbn. repeat split; intros; tauto.
  - destruct (pop_all_spec idxs parts ND) as [p1 [E1 [L1 [T1 O1]]]].
    { intros i Hi. destruct (H i Hi) as [Ha Hb]. split; [exact Ha|].
      destruct (nth i parts []); [cbn in Hb; lia|discriminate]. }
    destruct (IH j idxs p1 ND) as [p2 [E2 [L2 [T2 O2]]]].
    { intros i Hi. destruct (H i Hi) as [Ha Hb]. rewrite L1, T1 by exact Hi. split; [exact Ha|].
      destruct (nth i parts []); cbn in *; lia. }
    cbn [rounds]. rewrite E1, E2. exists p2. split; [|split; [|split]].
    + cbn [seq map]. do 3 f_equal.
      * f_equal. apply map_ext. intros i. now destruct (nth i parts []).
      * rewrite <- seq_shift, map_map. apply map_ext. intros r. f_equal.
        apply map_ext_in. intros i Hi. rewrite T1 by exact Hi. apply nth_skipn_tl.
    + congruence.
    + intros i Hi. rewrite T2, T1 by exact Hi. apply skipn_tl.
    + intros i Hi. now rewrite O2, O1.
Qed.

Lemma plan_custom_from_spec : forall mis j0 sizes lens parts (P : nat -> list (list nat)),
  NoDup (concat mis) ->
  length lens = length parts ->
  (forall idxs, In idxs mis -> idxs <> [] /\ forall i, In i idxs ->
       i < length parts /\ i < length sizes /\ nth i parts [] = P i /\
       length (P i) = nth (hd 0 idxs) lens 0 / size_of sizes (hd 0 idxs)) ->
  exists cs, plan_custom_from j0 mis sizes lens parts = (cs, None) /\
    (forall c, In c cs -> j0 <= fst c < j0 + length mis) /\
    (forall dj, dj < length mis ->
       filter (fun c => fst c =? j0 + dj) cs =
       map (fun r => (j0 + dj, map (fun i => nth r (P i) []) (nth dj mis [])))
           (seq 0 (length (P (hd 0 (nth dj mis [])))))).
Proof.
  induction mis as [|idxs rest IH]; intros j0 sizes lens parts P ND HL H.
  - exists []. cbn. repeat split; intros; try contradiction; lia.
  - cbn [concat] in ND.
    destruct (H idxs (or_introl eq_refl)) as [Hne Hi].
    destruct idxs as [|kk t]; [congruence|]. clear Hne.
    destruct (Hi kk (or_introl eq_refl)) as [Hk1 [Hk2 [Hk3 Hk4]]]. cbn [hd] in Hk4.
    cbn [plan_custom_from].
    rewrite (nth_error_nth' lens 0) by (rewrite HL; exact Hk1).
    rewrite (nth_error_size _ _ Hk2).
    set (c := nth kk lens 0 / size_of sizes kk) in *.
    destruct (rounds_spec c j0 (kk :: t) parts (NoDup_app_l _ _ _ ND)) as [p1 [E1 [L1 [T1 O1]]]].
    { intros i Hin. destruct (Hi i Hin) as [Ha [_ [Hc Hd]]]. split; [exact Ha|].
      rewrite Hc. cbn [hd] in Hd. rewrite Hd. apply Nat.le_refl. }
    rewrite E1.
    destruct (IH (S j0) sizes lens p1 P (NoDup_app_r _ _ _ ND)) as [cs2 [E2 [B2 F2]]].
    { congruence. }
    { intros idxs' Hin'. destruct (H idxs' (or_intror Hin')) as [Hne' Hi']. split; [exact Hne'|].
      intros i Hii. destruct (Hi' i Hii) as [Ha [Hb [Hc Hd]]].
      rewrite L1. repeat split; try assumption.
      rewrite O1; [exact Hc|]. intro Hk.
      apply (NoDup_app_disj _ _ _ i ND Hk). apply in_concat. exists idxs'. now split. }
    rewrite E2. eexists. split; [reflexivity|]. split.
    + intros c0 Hc0. apply in_app_or in Hc0. destruct Hc0 as [Hc0|Hc0].
      * apply in_map_iff in Hc0. destruct Hc0 as [r [<- _]]. cbn. lia.
      * apply B2 in Hc0. cbn [length]. lia.
    + intros dj Hdj. rewrite filter_app. destruct dj as [|dj].
      * rewrite Nat.add_0_r. rewrite filter_all, filter_none.
        -- rewrite app_nil_r. cbn [nth hd]. rewrite Hk4. fold c.
           apply map_ext. intros r. f_equal. apply map_ext_in. intros i Hin.
           destruct (Hi i Hin) as [_ [_ [Hc _]]]. now rewrite Hc.
        -- intros c0 Hc0. apply B2 in Hc0. apply Nat.eqb_neq. lia.
        -- intros c0 Hc0. apply in_map_iff in Hc0. destruct Hc0 as [r [<- _]]. apply Nat.eqb_refl.
      * rewrite filter_none.
        -- cbn [app nth]. replace (j0 + S dj) with (S j0 + dj) by lia. apply F2. cbn in Hdj. lia.
        -- intros c0 Hc0. apply in_map_iff in Hc0. destruct Hc0 as [r [<- _]]. apply Nat.eqb_neq. cbn. lia.
Qed.

Lemma hd_In : forall (l : list nat), l <> [] -> In (hd 0 l) l.
Proof. intros [|x t] H; [congruence|now left]. Qed.

Theorem plan_custom_structured : forall sizes mis jds pis,
  Valid sizes mis jds -> PisOk jds pis ->
  snd (plan_custom sizes mis jds pis) = None /\
  Structured sizes mis jds (fst (plan_custom sizes mis jds pis)).
Proof.
  intros sizes mis jds pis V HP.
  set (sl := shuffle_all pis (all_stubs jds)).
  assert (Hlen : length sl = ncols jds) by (unfold sl; now rewrite shuffle_all_length, all_stubs_length).
  destruct (partitions_from_spec sl 0 sizes) as [parts [E [L F]]].
  { intros i Hi. cbn. apply (v_sizes _ _ _ V). rewrite Hlen in Hi. exact Hi. }
  set (P := fun i => rev (chunks (size_of sizes i) (nth i sl []))).
  assert (Hfacts : forall idxs i, In idxs mis -> In i idxs ->
            i < ncols jds /\
            length (P i) = sum (col (hd 0 idxs) jds) / size_of sizes (hd 0 idxs) /\
            Forall (fun g => length g = size_of sizes i) (P i) /\
            Permutation (concat (P i)) (stubs jds i)).
  { intros idxs i Hidxs Hi. destruct (v_idxs _ _ _ V idxs Hidxs) as [_ Hlt].
    specialize (Hlt i Hi). split; [exact Hlt|].
    assert (Hc : In i (concat mis)) by (apply in_concat; exists idxs; now split).
    destruct (chunks_div (size_of sizes i) (nth i sl [])) as [H1 H2].
    - now apply (v_sizes _ _ _ V).
    - unfold sl. rewrite shuffled_length by assumption. now apply (v_div _ _ _ V).
    - unfold P. split; [|split].
      + rewrite rev_length, H1. unfold sl. rewrite shuffled_length by assumption.
        now apply (v_orbits _ _ _ V).
      + rewrite Forall_forall in *. intros g Hg. apply H2. now apply in_rev.
      + eapply Permutation_trans; [apply concat_perm_rev|].
        rewrite chunks_concat by now apply (v_sizes _ _ _ V).
        unfold sl. now apply shuffled_nth_perm. }
  destruct (plan_custom_from_spec mis 0 sizes (map (@length nat) sl) parts P) as [cs [E' [B' F']]].
  { exact (v_nodup _ _ _ V). }
  { now rewrite map_length, L. }
  { intros idxs Hidxs. destruct (v_idxs _ _ _ V idxs Hidxs) as [Hne Hlt]. split; [exact Hne|].
    intros i Hi. destruct (Hfacts idxs i Hidxs Hi) as [Hi1 [Hi2 _]].
    rewrite L, Hlen. split; [exact Hi1|]. split; [now apply (v_sizes _ _ _ V)|]. split.
    - rewrite F by now rewrite Hlen. reflexivity.
    - rewrite Hi2. f_equal.
      assert (Hh : hd 0 idxs < ncols jds) by (apply Hlt; now apply hd_In).
      rewrite (nth_map_in _ _ _ _ _ [] 0) by now rewrite Hlen.
      unfold sl. now rewrite shuffled_length. }
  unfold plan_custom. fold sl. rewrite E, E'. cbn [fst snd]. split; [reflexivity|].
  cbn [Nat.add] in F'.
  assert (Hin : forall c, In c cs -> fst c < length mis /\
            exists r, r < length (P (hd 0 (nth (fst c) mis []))) /\
                      snd c = map (fun i => nth r (P i) []) (nth (fst c) mis [])).
  { intros c Hc. destruct (B' c Hc) as [_ Hb]. cbn in Hb. split; [exact Hb|].
    assert (Hf : In c (filter (fun c0 => fst c0 =? fst c) cs)).
    { apply filter_In. split; [exact Hc|]. apply Nat.eqb_refl. }
    rewrite F' in Hf by exact Hb.
    apply in_map_iff in Hf. destruct Hf as [r [<- Hr]]. exists r. cbn [fst snd].
    apply in_seq0 in Hr. now split. }
  repeat split.
  - now apply Hin.
  - destruct (Hin c H) as [Hc [r [Hr Es]]]. rewrite Es.
    set (idxs := nth (fst c) mis []) in *.
    assert (Hidxs : In idxs mis) by (apply nth_In; exact Hc).
    apply Forall2_map_l. intros i Hi.
    destruct (Hfacts idxs i Hidxs Hi) as [_ [Hl [HF _]]].
    rewrite Forall_forall in HF. apply HF. apply nth_In.
    destruct (Hfacts idxs (hd 0 idxs) Hidxs) as [_ [Hl0 _]].
    { apply hd_In. now apply (v_idxs _ _ _ V). }
    lia.
  - intros j Hj. rewrite F' by exact Hj. rewrite map_length, seq_length.
    set (idxs := nth j mis []) in *.
    assert (Hidxs : In idxs mis) by (apply nth_In; exact Hj).
    destruct (Hfacts idxs (hd 0 idxs) Hidxs) as [_ [Hl0 _]]; [|exact Hl0].
    apply hd_In. now apply (v_idxs _ _ _ V).
  - intros j p Hj Hp. rewrite F' by exact Hj. rewrite map_map. cbn [snd].
    set (idxs := nth j mis []) in *.
    assert (Hidxs : In idxs mis) by (apply nth_In; exact Hj).
    assert (Hip : In (nth p idxs 0) idxs) by now apply nth_In.
    destruct (Hfacts idxs (nth p idxs 0) Hidxs Hip) as [_ [Hl [_ HPm]]].
    destruct (Hfacts idxs (hd 0 idxs) Hidxs) as [_ [Hl0 _]].
    { apply hd_In. now apply (v_idxs _ _ _ V). }
    assert (Em : map (fun r => nth p (map (fun i => nth r (P i) []) idxs) [])
                     (seq 0 (length (P (hd 0 idxs)))) = P (nth p idxs 0)).
    { rewrite Hl0, <- Hl. rewrite <- (map_nth_seq _ [] (P (nth p idxs 0))) at 2.
      apply map_ext. intros r. now rewrite (nth_map_in _ _ _ _ _ 0 []) by exact Hp. }
    rewrite Em. exact HPm.
Qed.

(* ------------------------------------------------------------------ the C01 checker decides the specification *)
Lemma slot_clause_iff : forall jds sl i,
  (forallb (fun v => v <? length jds) sl &&
   forallb (fun v => count v sl =? jd jds v i) (seq 0 (length jds))) = true <->
  (forall v, count v sl = jd jds v i).
Proof.
  intros jds sl i. rewrite andb_true_iff, !forallb_forall. split.
  - intros [H1 H2] v. destruct (Nat.ltb_spec v (length jds)) as [Hlt|Hge].
    + now apply Nat.eqb_eq, H2, in_seq0.
    + rewrite jd_overflow by exact Hge. apply count_zero_notin. intro Hin.
      apply H1, Nat.ltb_lt in Hin. lia.
  - intros H. split.
    + intros v Hin. apply Nat.ltb_lt. apply count_pos_In in Hin. rewrite H in Hin.
      destruct (Nat.ltb_spec v (length jds)); [assumption|]. rewrite jd_overflow in Hin; lia.
    + intros v _. apply Nat.eqb_eq, H.
Qed.

Theorem c01_okb_spec : forall sizes mis jds calls jds_out verts,
  c01_okb sizes mis jds calls jds_out verts = true <-> Spec_C01 sizes mis jds calls jds_out verts.
Proof.
  intros sizes mis jds calls jds_out verts. unfold c01_okb, Spec_C01, Spec_calls.
  rewrite !andb_true_iff, lists_eqb_eq, !forallb_forall, Forall_forall. split.
  - intros [[[[H1 H2] H3] H4] H5]. split; [exact H1|]. split.
    { intros v Hv. now apply Nat.ltb_lt, H2. }
    split; [|split].
    + intros c Hc. specialize (H3 c Hc). apply andb_true_iff in H3. destruct H3 as [Ha Hb].
      apply Nat.ltb_lt in Ha. apply Nat.eqb_eq in Hb. now split.
    + intros j Hj. apply Nat.eqb_eq. apply H4. now apply in_seq0.
    + intros j p Hj Hp. specialize (H5 j (proj2 (in_seq0 _ _) Hj)). cbv zeta in H5.
      rewrite forallb_forall in H5. specialize (H5 p (proj2 (in_seq0 _ _) Hp)).
      now apply slot_clause_iff.
  - intros [H1 [H2 [H3 [H4 H5]]]]. repeat split.
    + exact H1.
    + intros v Hv. now apply Nat.ltb_lt, H2.
    + intros c Hc. destruct (H3 c Hc) as [Ha Hb]. apply andb_true_iff. split.
      * now apply Nat.ltb_lt.
      * now apply Nat.eqb_eq.
    + intros j Hj. apply Nat.eqb_eq. apply H4. now apply in_seq0.
    + intros j Hj. cbv zeta. apply forallb_forall. intros p Hp. apply in_seq0 in Hj, Hp.
      apply slot_clause_iff. now apply H5.
Qed.

(* ------------------------------------------------------------------ emission: columns, blocks, ids (C02) *)
Lemma endpoints_app : forall a b, endpoints (a ++ b) = endpoints a ++ endpoints b.
Proof. intros. unfold endpoints. now rewrite flat_map_app. Qed.

(* a build callback only connects vertices it was given *)
Definition BuildClosed (build : nat -> list nat -> res shape) : Prop :=
  forall j g sh, build j g = Ok sh -> incl (endpoints (edges_of sh)) g.

Definition block_ok (custom : bool) (names : list (list nat)) (r : nat * shape) (blk : list row) : Prop :=
  map r_edge blk = edges_of (snd r) /\
  map r_name blk = expected_names custom names (fst r) (snd r) /\
  (forall x y, In x blk -> In y blk -> r_id x = r_id y).

Definition DistinctIds (blks : list (list row)) : Prop :=
  forall a b x y, a <> b -> In x (nth a blks []) -> In y (nth b blks []) -> r_id x <> r_id y.

(* C02 on three columns, relative to the callback results (one per motif instance, in call order) *)
Definition Spec_C02 (custom : bool) (names : list (list nat)) (results : list (nat * shape))
           (ce : list (nat * nat)) (cn ci : list nat) : Prop :=
  length ce = length cn /\ length cn = length ci /\
  exists blks, zip3 ce cn ci = concat blks /\
               Forall2 (block_ok custom names) results blks /\
               DistinctIds blks.

(* what the callbacks returned along a list of calls *)
Definition Results (build : nat -> list nat -> res shape) (cs : list ccall) (results : list (nat * shape)) : Prop :=
  Forall2 (fun c r => fst r = fst c /\ build (fst c) (concat (snd c)) = Ok (snd r)) cs results.

Lemma zip3_app : forall es nms ids ce cn ci,
  length es = length nms -> length nms = length ids ->
  zip3 (es ++ ce) (nms ++ cn) (ids ++ ci) = zip3 es nms ids ++ zip3 ce cn ci.
Proof.
  intros. unfold zip3. rewrite (combine_app_eq _ _ es ce nms cn) by assumption.
  apply combine_app_eq. rewrite combine_length. lia.
Qed.

Lemma zip3_proj : forall es nms ids, length es = length nms -> length nms = length ids ->
  map r_edge (zip3 es nms ids) = es /\ map r_name (zip3 es nms ids) = nms /\ map r_id (zip3 es nms ids) = ids.
Proof.
  induction es as [|e es IH]; intros [|n nms] [|i ids] H1 H2; cbn in *; try discriminate.
  - repeat split.
  - destruct (IH nms ids) as [P1 [P2 P3]]; try lia.
    unfold zip3 in *. now rewrite P1, P2, P3.
Qed.

Lemma DistinctIds_offset : forall blks id,
  (forall d x, In x (nth d blks []) -> r_id x = id + d) -> DistinctIds blks.
Proof. intros blks id H a b x y Hab Hx Hy. rewrite (H a x Hx), (H b y Hy). lia. Qed.

Lemma in_nth_nil : forall (blks : list (list row)) d x, In x (nth d blks []) -> d < length blks.
Proof.
  intros blks d x H. destruct (Nat.ltb_spec d (length blks)); [assumption|].
  rewrite nth_overflow in H by assumption. contradiction.
Qed.

(* custom generator; the naming callbacks give one name per edge (hypothesis of C02) *)
Definition NamesOk (build : nat -> list nat -> res shape) (names : list (list nat)) (cs : list ccall) : Prop :=
  forall c es nms, In c cs -> build (fst c) (concat (snd c)) = Ok (Edges es) ->
                   nth_error names (fst c) = Some nms -> length nms = length es.

Lemma emit_custom_blocks : forall build names cs id ce cn ci,
  emit_custom build names id cs = Ok (ce, cn, ci) ->
  NamesOk build names cs ->
  length ce = length cn /\ length cn = length ci /\
  exists results blks,
    Results build cs results /\
    ce = concat (map (fun r => edges_of (snd r)) results) /\
    zip3 ce cn ci = concat blks /\
    Forall2 (block_ok true names) results blks /\
    (forall d x, In x (nth d blks []) -> r_id x = id + d).
Proof.
  intros build names cs. induction cs as [|[j segs] cs IH]; intros id ce cn ci E NO.
  - cbn in E. inversion E; subst. split; [reflexivity|]. split; [reflexivity|].
    exists [], []. split; [constructor|]. split; [reflexivity|]. split; [reflexivity|].
    split; [constructor|]. intros d x Hx. now destruct d.
  - cbn [emit_custom] in E.
    destruct (build j (concat segs)) as [sh|] eqn:Eb; [|discriminate].
    destruct (nth_error names j) as [nms|] eqn:En; [|discriminate].
    destruct (emit_custom build names (S id) cs) as [[[ce' cn'] ci']|] eqn:Ee; [|discriminate].
    destruct (IH (S id) ce' cn' ci' Ee) as [L1 [L2 [results [blks [R [Ece [Z [F D]]]]]]]].
    { intros c es nms' Hc. apply NO. now right. }
    assert (Enth : nth j names [] = nms) by now apply nth_error_nth.
    destruct sh as [a b|es]; inversion E; subst; clear E.
    + split; [cbn; lia|]. split; [cbn; lia|].
      exists ((j, Bare a b) :: results), ([((a, b), hd 0 (nth j names []), id)] :: blks).
      split; [|split; [|split; [|split]]].
      * constructor; [now split|exact R].
      * reflexivity.
      * unfold zip3 in *. cbn. now rewrite Z.
      * constructor; [|exact F]. split; [reflexivity|]. split; [reflexivity|].
        intros x y [<-|[]] [<-|[]]. reflexivity.
      * intros d x Hx. destruct d as [|d]; cbn in Hx.
        -- destruct Hx as [<-|[]]. cbn. lia.
        -- rewrite (D d x Hx). lia.
    + assert (Hl : length (nth j names []) = length es).
      { apply (NO (j, segs) es); [now left|exact Eb|exact En]. }
      split; [rewrite !app_length; lia|]. split; [rewrite !app_length, repeat_length; lia|].
      exists ((j, Edges es) :: results), (zip3 es (nth j names []) (repeat id (length es)) :: blks).
      assert (Hr : length (nth j names []) = length (repeat id (length es))) by now rewrite repeat_length.
      destruct (zip3_proj es (nth j names []) (repeat id (length es))) as [P1 [P2 P3]]; try congruence.
      split; [|split; [|split; [|split]]].
      * constructor; [now split|exact R].
      * reflexivity.
      * cbn [concat]. rewrite zip3_app by congruence. now rewrite Z.
      * constructor; [|exact F]. split; [exact P1|]. split; [exact P2|].
        intros x y Hx Hy. apply (in_map r_id) in Hx, Hy. rewrite P3 in Hx, Hy.
        apply repeat_spec in Hx, Hy. congruence.
      * intros d x Hx. destruct d as [|d]; cbn [nth] in Hx.
        -- apply (in_map r_id) in Hx. rewrite P3 in Hx. apply repeat_spec in Hx. lia.
        -- rewrite (D d x Hx). lia.
Qed.

Lemma emit_fast_blocks : forall build names cs id ce cn ci,
  emit_fast build (map (hd 0) names) id cs = Ok (ce, cn, ci) ->
  length ce = length cn /\ length cn = length ci /\
  exists results blks,
    Results build cs results /\
    ce = concat (map (fun r => edges_of (snd r)) results) /\
    zip3 ce cn ci = concat blks /\
    Forall2 (block_ok false names) results blks /\
    (forall d x, In x (nth d blks []) -> r_id x = id + d).
Proof.
  intros build names cs. induction cs as [|[j segs] cs IH]; intros id ce cn ci E.
  - cbn in E. inversion E; subst. split; [reflexivity|]. split; [reflexivity|].
    exists [], []. split; [constructor|]. split; [reflexivity|]. split; [reflexivity|].
    split; [constructor|]. intros d x Hx. now destruct d.
  - cbn [emit_fast] in E.
    destruct (build j (concat segs)) as [sh|] eqn:Eb; [|discriminate].
    cbv zeta in E. set (es := edges_of sh) in *.
    destruct (nth_error (map (hd 0) names) j) as [nm|] eqn:En; [|discriminate].
    destruct (emit_fast build (map (hd 0) names) (S id) cs) as [[[ce' cn'] ci']|] eqn:Ee; [|discriminate].
    destruct (IH (S id) ce' cn' ci' Ee) as [L1 [L2 [results [blks [R [Ece [Z [F D]]]]]]]].
    inversion E; subst; clear E.
    assert (Enm : nm = hd 0 (nth j names [])).
    { rewrite nth_error_map in En. destruct (nth_error names j) as [l|] eqn:El; [|discriminate].
      inversion En. now rewrite (nth_error_nth _ _ _ El). }
    split; [rewrite !app_length, repeat_length; lia|]. split; [rewrite !app_length, !repeat_length; lia|].
    exists ((j, sh) :: results), (zip3 es (repeat nm (length es)) (repeat id (length es)) :: blks).
    destruct (zip3_proj es (repeat nm (length es)) (repeat id (length es))) as [P1 [P2 P3]];
      try now rewrite !repeat_length.
    split; [|split; [|split; [|split]]].
    + constructor; [now split|exact R].
    + reflexivity.
    + cbn [concat]. rewrite zip3_app by now rewrite !repeat_length. now rewrite Z.
    + constructor; [|exact F]. split; [exact P1|]. split.
      * rewrite P2, Enm. unfold expected_names. cbn. reflexivity.
      * intros x y Hx Hy. apply (in_map r_id) in Hx, Hy. rewrite P3 in Hx, Hy.
        apply repeat_spec in Hx, Hy. congruence.
    + intros d x Hx. destruct d as [|d]; cbn [nth] in Hx.
      * apply (in_map r_id) in Hx. rewrite P3 in Hx. apply repeat_spec in Hx. lia.
      * rewrite (D d x Hx). lia.
Qed.

(* the model's columns satisfy the C02 specification *)
Lemma blocks_spec : forall custom names results ce cn ci blks id,
  length ce = length cn -> length cn = length ci ->
  zip3 ce cn ci = concat blks ->
  Forall2 (block_ok custom names) results blks ->
  (forall d x, In x (nth d blks []) -> r_id x = id + d) ->
  Spec_C02 custom names results ce cn ci.
Proof.
  intros. split; [assumption|]. split; [assumption|]. exists blks. split; [assumption|]. split; [assumption|].
  eapply DistinctIds_offset; eauto.
Qed.

(* consequence of the specification: the rows sharing the motif id of a row are exactly the
   block (= the edges one callback returned for one motif instance) that row belongs to *)
Lemma filter_id_block : forall blks a x,
  DistinctIds blks ->
  (forall b u w, In u (nth b blks []) -> In w (nth b blks []) -> r_id u = r_id w) ->
  In x (nth a blks []) ->
  filter (fun y => r_id y =? r_id x) (concat blks) = nth a blks [].
Proof.
  induction blks as [|blk rest IH]; intros a x D SM Hx.
  - destruct a; contradiction.
  - cbn [concat]. rewrite filter_app. destruct a as [|a]; cbn [nth] in *.
    + rewrite filter_all, filter_none; [apply app_nil_r| |].
      * intros y Hy. apply in_concat in Hy. destruct Hy as [b [Hb Hy]].
        apply In_nth with (d := []) in Hb. destruct Hb as [n [Hn <-]].
        apply Nat.eqb_neq. apply (D (S n) 0 y x); [lia|exact Hy|exact Hx].
      * intros y Hy. apply Nat.eqb_eq. apply (SM 0 y x Hy Hx).
    + rewrite filter_none; [cbn [app]; apply IH|].
      * intros b c u w Hbc Hu Hw. apply (D (S b) (S c) u w); [lia|exact Hu|exact Hw].
      * intros b u w Hu Hw. apply (SM (S b) u w Hu Hw).
      * exact Hx.
      * intros y Hy. apply Nat.eqb_neq. apply (D 0 (S a) y x); [lia|exact Hy|exact Hx].
Qed.

Theorem spec_c02_ids : forall custom names results ce cn ci,
  Spec_C02 custom names results ce cn ci ->
  exists blks, zip3 ce cn ci = concat blks /\ Forall2 (block_ok custom names) results blks /\
    forall a x, In x (nth a blks []) ->
      filter (fun y => r_id y =? r_id x) (zip3 ce cn ci) = nth a blks [].
Proof.
  intros custom names results ce cn ci [_ [_ [blks [Z [F D]]]]].
  exists blks. split; [exact Z|]. split; [exact F|].
  intros a x Hx. rewrite Z. apply filter_id_block; [exact D| |exact Hx].
  intros b u w Hu Hw.
  assert (Hb : b < length blks) by (eapply in_nth_nil; eauto).
  rewrite <- (Forall2_len _ _ _ _ _ F) in Hb.
  pose proof (Forall2_nth _ _ _ _ _ (0, Edges []) [] b F Hb) as [_ [_ Hs]]. now apply Hs.
Qed.

(* ------------------------------------------------------------------ c02 checker soundness *)
Lemma pair_eqb_eq : forall a b, pair_eqb a b = true <-> a = b.
Proof.
  intros [a1 a2] [b1 b2]. unfold pair_eqb. cbn. rewrite andb_true_iff, !Nat.eqb_eq.
  split; [intros [-> ->]; reflexivity|intros H; inversion H; now split].
Qed.

Lemma pairs_eqb_eq : forall a b, pairs_eqb a b = true <-> a = b.
Proof.
  induction a as [|x a IH]; destruct b as [|y b]; cbn; split; intro H; try reflexivity; try discriminate.
  - apply andb_true_iff in H. destruct H as [H1 H2]. apply pair_eqb_eq in H1. apply IH in H2. congruence.
  - inversion H; subst. apply andb_true_iff. split; [now apply pair_eqb_eq|now apply IH].
Qed.

Lemma blocks_okb_sound : forall custom names results rows seen,
  blocks_okb custom names results rows seen = true ->
  exists blks, rows = concat blks /\ Forall2 (block_ok custom names) results blks /\
    DistinctIds blks /\ (forall b x, In x (nth b blks []) -> ~ In (r_id x) seen).
Proof.
  intros custom names results. induction results as [|[j sh] rest IH]; intros rows seen H.
  - cbn in H. destruct rows; [|discriminate]. exists []. split; [reflexivity|]. split; [constructor|].
    split; intros a; intros; destruct a; contradiction.
  - cbn [blocks_okb] in H. cbv zeta in H.
    set (n := length (edges_of sh)) in *. set (blk := firstn n rows) in *.
    apply andb_true_iff in H. destruct H as [H H3]. apply andb_true_iff in H. destruct H as [H1 H2].
    apply pairs_eqb_eq in H1. apply list_eqb_eq in H2.
    assert (Erows : rows = blk ++ skipn n rows) by (symmetry; apply firstn_skipn).
    destruct blk as [|r blk'] eqn:Eblk.
    + destruct (IH _ _ H3) as [blks [E [F [D SN]]]].
      exists ([] :: blks). split; [cbn in Erows |- *; congruence|]. split.
      { constructor; [|exact F]. split; [exact H1|]. split; [exact H2|]. intros x y []. }
      split.
      * intros a b x y Hab Hx Hy. destruct a as [|a]; [contradiction|]. destruct b as [|b]; [contradiction|].
        apply (D a b x y); [lia|exact Hx|exact Hy].
      * intros b x Hx. destruct b as [|b]; [contradiction|]. now apply (SN b).
    + apply andb_true_iff in H3. destruct H3 as [H3 H5]. apply andb_true_iff in H3. destruct H3 as [H3 H4].
      rewrite forallb_forall in H3. apply negb_true_iff in H4.
      destruct (IH _ _ H5) as [blks [E [F [D SN]]]].
      assert (Hid : forall x, In x (r :: blk') -> r_id x = r_id r).
      { intros x Hx. now apply Nat.eqb_eq, H3. }
      exists ((r :: blk') :: blks). split; [cbn [concat]; congruence|]. split.
      { constructor; [|exact F]. split; [exact H1|]. split; [exact H2|].
        intros x y Hx Hy. now rewrite (Hid x Hx), (Hid y Hy). }
      split.
      * intros a b x y Hab Hx Hy. destruct a as [|a]; destruct b as [|b]; cbn [nth] in *; try lia.
        -- rewrite (Hid x Hx). intro Heq. apply (SN b y Hy). left. congruence.
        -- rewrite (Hid y Hy). intro Heq. apply (SN a x Hx). left. congruence.
        -- apply (D a b x y); [lia|exact Hx|exact Hy].
      * intros b x Hx. destruct b as [|b]; cbn [nth] in Hx.
        -- rewrite (Hid x Hx). intro Hin. apply memb_In in Hin. congruence.
        -- intro Hin. apply (SN b x Hx). now right.
Qed.

(* "every edge entry is a pair of vertex ids" on the raw column *)
Definition IsPairTree (t : tree) : Prop :=
  exists a b : nat, t = L [I (Z.of_nat a); I (Z.of_nat b)].

Lemma is_pair_tree_sound : forall t, is_pair_tree t = true -> IsPairTree t.
Proof.
  intros t H. destruct t as [z|l]; [discriminate|].
  destruct l as [|[a|] [|[b|] [|]]]; try discriminate.
  cbn in H. apply andb_true_iff in H. destruct H as [Ha Hb].
  apply Z.leb_le in Ha, Hb. exists (Z.to_nat a), (Z.to_nat b). now rewrite !Z2Nat.id.
Qed.

Theorem c02_okb_sound : forall custom names results ce_raw cn ci,
  c02_okb custom names results ce_raw cn ci = true ->
  Forall IsPairTree ce_raw /\ Spec_C02 custom names results (map t_pair ce_raw) cn ci.
Proof.
  intros custom names results ce_raw cn ci H. unfold c02_okb in H.
  apply andb_true_iff in H. destruct H as [H H4]. apply andb_true_iff in H. destruct H as [H H3].
  apply andb_true_iff in H. destruct H as [H1 H2]. apply Nat.eqb_eq in H1, H2.
  split.
  - apply Forall_forall. intros t Ht. rewrite forallb_forall in H3. now apply is_pair_tree_sound, H3.
  - destruct (blocks_okb_sound _ _ _ _ _ H4) as [blks [E [F [D _]]]].
    split; [now rewrite map_length|]. split; [exact H2|]. exists blks. now repeat split.
Qed.

(* ------------------------------------------------------------------ callbacks only use the vertices they are given *)
Lemma endpoints_incl : forall es g,
  (forall a b, In (a, b) es -> In a g /\ In b g) -> incl (endpoints es) g.
Proof.
  intros es g H v Hv. unfold endpoints in Hv. apply in_flat_map in Hv.
  destruct Hv as [[a b] [He Hv]]. destruct (H a b He) as [Ha Hb].
  cbn in Hv. destruct Hv as [<-|[<-|[]]]; assumption.
Qed.

Lemma combos2_in : forall l a b, In (a, b) (combos2 l) -> In a l /\ In b l.
Proof.
  induction l as [|x t IH]; intros a b H; cbn in H; [contradiction|].
  apply in_app_or in H. destruct H as [H|H].
  - apply in_map_iff in H. destruct H as [y [E Hy]]. inversion E; subst. split; [now left|now right].
  - destruct (IH a b H). split; now right.
Qed.

Lemma last_in' : forall (l : list nat) d, l <> [] -> In (last l d) l.
Proof.
  induction l as [|y t IH]; intros d H; [congruence|].
  destruct t as [|z t']; [now left|]. right. apply (IH d). discriminate.
Qed.

Lemma clique_closed : forall l sh, clique_motif l = Ok sh -> incl (endpoints (edges_of sh)) l.
Proof. intros l sh H. inversion H; subst. apply endpoints_incl. apply combos2_in. Qed.

Lemma cycle_closed : forall l sh, cycle_motif l = Ok sh -> incl (endpoints (edges_of sh)) l.
Proof.
  intros l sh H. destruct l as [|x t]; [discriminate|].
  assert (E : sh = Edges (combine (x :: t) t ++ [(x, last (x :: t) x)]))
    by (unfold cycle_motif, cycle_edges in H; congruence).
  subst sh. cbn [edges_of]. apply endpoints_incl. intros a b Hab.
  apply in_app_or in Hab. destruct Hab as [Hab|Hab].
  - split; [exact (in_combine_l (x :: t) t a b Hab)|right; exact (in_combine_r (x :: t) t a b Hab)].
  - destruct Hab as [E|[]]. injection E as <- <-. split; [now left|].
    exact (last_in' (x :: t) x ltac:(discriminate)).
Qed.

Lemma diamond_closed : forall l sh, diamond_motif l = Ok sh -> incl (endpoints (edges_of sh)) l.
Proof.
  intros l sh H. unfold diamond_motif in H.
  destruct l as [|a [|b [|c [|d [|e t]]]]]; cbn in H; try discriminate.
  inversion H; subst. intros v Hv. cbn in Hv. cbn. intuition.
Qed.

Lemma builder_closed : forall c l sh, builder_of_code c l = Ok sh -> incl (endpoints (edges_of sh)) l.
Proof.
  intros c l sh H. unfold builder_of_code in H.
  destruct c as [|[|[|[|[|[|[|[|[|c]]]]]]]]].
  - now apply clique_closed.
  - now apply cycle_closed.
  - now apply diamond_closed.
  - unfold bare_motif in H. destruct l as [|a [|b t]]; inversion H; subst.
    intros v Hv. cbn in Hv. cbn. intuition.
  - unfold path2_motif in H. destruct l as [|a [|b [|c t]]]; inversion H; subst.
    intros v Hv. cbn in Hv. cbn. intuition.
  - unfold star_motif in H. destruct l as [|x t]; inversion H; subst; [intros v []|].
    apply endpoints_incl. intros a b Hab. apply in_map_iff in Hab. destruct Hab as [y [E Hy]].
    inversion E; subst. split; [now left|now right].
  - inversion H; subst. intros v [].
  - unfold path2_motif in H. destruct l as [|a [|b [|c' t]]]; inversion H; subst.
    intros v Hv. cbn in Hv. cbn. intuition.
  - unfold clique_noloop_motif in H. inversion H; subst. cbn [edges_of]. apply endpoints_incl.
    intros a b Hab. apply filter_In in Hab. apply combos2_in. exact (proj1 Hab).
  - discriminate.
Qed.

Theorem build_of_codes_closed : forall codes, BuildClosed (build_of_codes codes).
Proof.
  intros codes j g sh H. unfold build_of_codes in H.
  destruct (nth_error codes j); [|discriminate]. now apply builder_closed in H.
Qed.

(* ------------------------------------------------------------------ vertices in range *)
Lemma structured_args_lt : forall sizes mis jds cs,
  Structured sizes mis jds cs ->
  forall c v, In c cs -> In v (concat (snd c)) -> v < length jds.
Proof.
  intros sizes mis jds cs [S1 [_ S3]] c v Hc Hv.
  destruct (S1 c Hc) as [Hj HF].
  apply in_concat in Hv. destruct Hv as [seg [Hseg Hv]].
  apply In_nth with (d := []) in Hseg. destruct Hseg as [p [Hp Ep]].
  rewrite <- (Forall2_len _ _ _ _ _ HF) in Hp.
  apply (stubs_lt jds (nth p (nth (fst c) mis []) 0)).
  eapply Permutation_in; [apply (S3 (fst c) p Hj Hp)|].
  apply in_concat. exists seg. split; [|exact Hv].
  rewrite <- Ep. apply (in_map (fun c0 : ccall => nth p (snd c0) [])).
  apply filter_In. split; [exact Hc|apply Nat.eqb_refl].
Qed.

Lemma results_verts : forall build cs results N,
  Results build cs results -> BuildClosed build ->
  (forall c v, In c cs -> In v (concat (snd c)) -> v < N) ->
  Forall (fun v => v < N) (endpoints (concat (map (fun r => edges_of (snd r)) results))).
Proof.
  intros build cs results N R BC. induction R as [|c r cs results [_ Hb] R IH]; intros H.
  - constructor.
  - cbn [map concat]. rewrite endpoints_app. apply Forall_app. split.
    + apply Forall_forall. intros v Hv. apply (H c v (or_introl eq_refl)).
      now apply (BC _ _ _ Hb).
    + apply IH. intros c' v Hc'. apply H. now right.
Qed.

(* ------------------------------------------------------------------ callback results stay inside their group *)
Definition Closed (calls : list call) (results : list (nat * shape)) : Prop :=
  Forall2 (fun c r => fst r = fst c /\ incl (endpoints (edges_of (snd r))) (snd c)) calls results.

Theorem closed_okb_iff : forall calls results, closed_okb calls results = true <-> Closed calls results.
Proof.
  induction calls as [|c cs IH]; intros [|r rs]; cbn [closed_okb]; split; intro H;
    try discriminate; try (now constructor); try (now inversion H).
  - apply andb_true_iff in H. destruct H as [H H3]. apply andb_true_iff in H. destruct H as [H1 H2].
    constructor; [|now apply IH]. split; [now apply Nat.eqb_eq|].
    intros v Hv. rewrite forallb_forall in H2. now apply memb_In, H2.
  - inversion H as [|? ? ? ? [Hj Hi] Hr]; subst. rewrite !andb_true_iff. split; [split|].
    + now apply Nat.eqb_eq.
    + apply forallb_forall. intros v Hv. now apply memb_In, Hi.
    + now apply IH.
Qed.

Theorem results_closed : forall build cs results,
  Results build cs results -> BuildClosed build -> Closed (map flat_call cs) results.
Proof.
  intros build cs results R BC. induction R as [|c r cs results [Hj Hb] R IH]; cbn [map]; constructor.
  - split; [exact Hj|]. cbn [flat_call snd]. now apply (BC _ _ _ Hb).
  - exact IH.
Qed.

(* ------------------------------------------------------------------ whole runs *)
Lemma gen_fast_inv : forall build sizes nms jds pis cs cols,
  gen_fast build sizes nms jds pis = Ok (cs, cols) ->
  cs = fst (plan_fast sizes jds pis) /\ snd (plan_fast sizes jds pis) = None /\
  emit_fast build nms 0 cs = Ok cols.
Proof.
  intros build sizes nms jds pis cs cols H. unfold gen_fast in H.
  destruct (plan_fast sizes jds pis) as [cs0 e]. unfold finish in H.
  destruct (emit_fast build nms 0 cs0) as [c|] eqn:E; [|discriminate].
  destruct e; [discriminate|]. inversion H; subst. auto.
Qed.

Lemma gen_custom_inv : forall build sizes names mis jds pis cs cols,
  gen_custom build sizes names mis jds pis = Ok (cs, cols) ->
  cs = fst (plan_custom sizes mis jds pis) /\ snd (plan_custom sizes mis jds pis) = None /\
  emit_custom build names 0 cs = Ok cols.
Proof.
  intros build sizes names mis jds pis cs cols H. unfold gen_custom in H.
  destruct (plan_custom sizes mis jds pis) as [cs0 e]. unfold finish in H.
  destruct (emit_custom build names 0 cs0) as [c|] eqn:E; [|discriminate].
  destruct e; [discriminate|]. inversion H; subst. auto.
Qed.

Lemma names_wrap : forall nms : list nat, map (hd 0) (map (fun x => [x]) nms) = nms.
Proof. intros. rewrite map_map. cbn. apply map_id. Qed.

(* C01 for the fast (and network) generator *)
Theorem gen_fast_C01 : forall build sizes nms jds pis cs ce cn ci,
  Valid sizes (singleton_mis (ncols jds)) jds -> PisOk jds pis -> BuildClosed build ->
  gen_fast build sizes nms jds pis = Ok (cs, (ce, cn, ci)) ->
  Spec_C01 sizes (singleton_mis (ncols jds)) jds (map flat_call cs) jds (endpoints ce).
Proof.
  intros build sizes nms jds pis cs ce cn ci V HP BC H.
  destruct (gen_fast_inv _ _ _ _ _ _ _ H) as [-> [_ E]].
  destruct (plan_fast_structured sizes jds pis V HP) as [_ ST].
  rewrite <- (names_wrap nms) in E.
  destruct (emit_fast_blocks _ _ _ _ _ _ _ E) as [_ [_ [results [blks [R [Ece _]]]]]].
  split; [reflexivity|]. split.
  - rewrite Ece. eapply results_verts; eauto. now apply (structured_args_lt _ _ _ _ ST).
  - now apply structured_spec.
Qed.

(* C01 for the custom-motif generator *)
Theorem gen_custom_C01 : forall build sizes names mis jds pis cs ce cn ci,
  Valid sizes mis jds -> PisOk jds pis -> BuildClosed build ->
  NamesOk build names (fst (plan_custom sizes mis jds pis)) ->
  gen_custom build sizes names mis jds pis = Ok (cs, (ce, cn, ci)) ->
  Spec_C01 sizes mis jds (map flat_call cs) jds (endpoints ce).
Proof.
  intros build sizes names mis jds pis cs ce cn ci V HP BC NO H.
  destruct (gen_custom_inv _ _ _ _ _ _ _ _ H) as [-> [_ E]].
  destruct (plan_custom_structured sizes mis jds pis V HP) as [_ ST].
  destruct (emit_custom_blocks _ _ _ _ _ _ _ E NO) as [_ [_ [results [blks [R [Ece _]]]]]].
  split; [reflexivity|]. split.
  - rewrite Ece. eapply results_verts; eauto. now apply (structured_args_lt _ _ _ _ ST).
  - now apply structured_spec.
Qed.

(* the calls part needs neither callbacks nor names: it holds for the plan itself *)
Theorem plan_fast_C01 : forall sizes jds pis,
  Valid sizes (singleton_mis (ncols jds)) jds -> PisOk jds pis ->
  snd (plan_fast sizes jds pis) = None /\
  Spec_calls sizes (singleton_mis (ncols jds)) jds (map flat_call (fst (plan_fast sizes jds pis))).
Proof.
  intros sizes jds pis V HP. destruct (plan_fast_structured sizes jds pis V HP) as [E ST].
  split; [exact E|now apply structured_spec].
Qed.

Theorem plan_custom_C01 : forall sizes mis jds pis,
  Valid sizes mis jds -> PisOk jds pis ->
  snd (plan_custom sizes mis jds pis) = None /\
  Spec_calls sizes mis jds (map flat_call (fst (plan_custom sizes mis jds pis))).
Proof.
  intros sizes mis jds pis V HP. destruct (plan_custom_structured sizes mis jds pis V HP) as [E ST].
  split; [exact E|now apply structured_spec].
Qed.

(* C02: for ALL inputs (no handshake needed) the columns of a successful run are well formed *)
Theorem gen_fast_C02 : forall build sizes names jds pis cs ce cn ci,
  gen_fast build sizes (map (hd 0) names) jds pis = Ok (cs, (ce, cn, ci)) ->
  exists results, Results build cs results /\
    ce = concat (map (fun r => edges_of (snd r)) results) /\
    Spec_C02 false names results ce cn ci.
Proof.
  intros build sizes names jds pis cs ce cn ci H.
  destruct (gen_fast_inv _ _ _ _ _ _ _ H) as [_ [_ E]].
  destruct (emit_fast_blocks _ _ _ _ _ _ _ E) as [L1 [L2 [results [blks [R [Ece [Z [F D]]]]]]]].
  exists results. split; [exact R|]. split; [exact Ece|]. eapply blocks_spec; eauto.
Qed.

Theorem gen_custom_C02 : forall build sizes names mis jds pis cs ce cn ci,
  gen_custom build sizes names mis jds pis = Ok (cs, (ce, cn, ci)) ->
  NamesOk build names cs ->
  exists results, Results build cs results /\
    ce = concat (map (fun r => edges_of (snd r)) results) /\
    Spec_C02 true names results ce cn ci.
Proof.
  intros build sizes names mis jds pis cs ce cn ci H NO.
  destruct (gen_custom_inv _ _ _ _ _ _ _ _ H) as [_ [_ E]].
  destruct (emit_custom_blocks _ _ _ _ _ _ _ E NO) as [L1 [L2 [results [blks [R [Ece [Z [F D]]]]]]]].
  exists results. split; [exact R|]. split; [exact Ece|]. eapply blocks_spec; eauto.
Qed.

(* motif ids are 0,1,2,... in call order: the strongest form for the model *)
Theorem gen_ids_sequential : forall build names cs id ce cn ci,
  (emit_custom build names id cs = Ok (ce, cn, ci) /\ NamesOk build names cs) \/
  (exists nms, names = map (fun x => [x]) nms /\ emit_fast build nms id cs = Ok (ce, cn, ci)) ->
  exists blks, zip3 ce cn ci = concat blks /\ length blks = length cs /\
    forall d x, In x (nth d blks []) -> r_id x = id + d.
Proof.
  intros build names cs id ce cn ci [[E NO]|[nms [-> E]]].
  - destruct (emit_custom_blocks _ _ _ _ _ _ _ E NO) as [_ [_ [results [blks [R [_ [Z [F D]]]]]]]].
    exists blks. split; [exact Z|]. split; [|exact D].
    rewrite <- (Forall2_len _ _ _ _ _ F). symmetry. apply (Forall2_len _ _ _ _ _ R).
  - rewrite <- (names_wrap nms) in E.
    destruct (emit_fast_blocks _ _ _ _ _ _ _ E) as [_ [_ [results [blks [R [_ [Z [F D]]]]]]]].
    exists blks. split; [exact Z|]. split; [|exact D].
    rewrite <- (Forall2_len _ _ _ _ _ F). symmetry. apply (Forall2_len _ _ _ _ _ R).
Qed.

(* no exception of the generator's own under the hypotheses: only callbacks / missing names can fail *)
Lemma emit_fast_total : forall build nms cs id,
  (forall c, In c cs -> (exists es, build (fst c) (concat (snd c)) = Ok (Edges es)) /\ fst c < length nms) ->
  exists cols, emit_fast build nms id cs = Ok cols.
Proof.
  intros build nms cs. induction cs as [|[j segs] cs IH]; intros id H; [now eexists|].
  destruct (H (j, segs) (or_introl eq_refl)) as [[es Eb] Hj]. cbn [fst snd] in *.
  destruct (IH (S id)) as [[[ce cn] ci] E]; [intros c Hc; apply H; now right|].
  cbn [emit_fast]. rewrite Eb, (nth_error_nth' nms 0 Hj), E. now eexists.
Qed.

Lemma emit_custom_total : forall build names cs id,
  (forall c, In c cs -> (exists sh, build (fst c) (concat (snd c)) = Ok sh) /\ fst c < length names) ->
  exists cols, emit_custom build names id cs = Ok cols.
Proof.
  intros build names cs. induction cs as [|[j segs] cs IH]; intros id H; [now eexists|].
  destruct (H (j, segs) (or_introl eq_refl)) as [[sh Eb] Hj]. cbn [fst snd] in *.
  destruct (IH (S id)) as [[[ce cn] ci] E]; [intros c Hc; apply H; now right|].
  cbn [emit_custom]. rewrite Eb, (nth_error_nth' names [] Hj), E. destruct sh; now eexists.
Qed.

Theorem gen_fast_total : forall build sizes nms jds pis,
  Valid sizes (singleton_mis (ncols jds)) jds -> PisOk jds pis ->
  (forall c, In c (fst (plan_fast sizes jds pis)) ->
     (exists es, build (fst c) (concat (snd c)) = Ok (Edges es)) /\ fst c < length nms) ->
  exists out, gen_fast build sizes nms jds pis = Ok out.
Proof.
  intros build sizes nms jds pis V HP H.
  destruct (plan_fast_structured sizes jds pis V HP) as [En _].
  unfold gen_fast. destruct (plan_fast sizes jds pis) as [cs e]. cbn [fst snd] in *. subst e.
  destruct (emit_fast_total build nms cs 0 H) as [cols E]. rewrite E. now eexists.
Qed.

Theorem gen_custom_total : forall build sizes names mis jds pis,
  Valid sizes mis jds -> PisOk jds pis ->
  (forall c, In c (fst (plan_custom sizes mis jds pis)) ->
     (exists sh, build (fst c) (concat (snd c)) = Ok sh) /\ fst c < length names) ->
  exists out, gen_custom build sizes names mis jds pis = Ok out.
Proof.
  intros build sizes names mis jds pis V HP H.
  destruct (plan_custom_structured sizes mis jds pis V HP) as [En _].
  unfold gen_custom. destruct (plan_custom sizes mis jds pis) as [cs e]. cbn [fst snd] in *. subst e.
  destruct (emit_custom_total build names cs 0 H) as [cols E]. rewrite E. now eexists.
Qed.

(* ------------------------------------------------------------------ the model passes the verified checkers *)
Theorem gen_fast_passes_c01 : forall build sizes nms jds pis cs ce cn ci,
  Valid sizes (singleton_mis (ncols jds)) jds -> PisOk jds pis -> BuildClosed build ->
  gen_fast build sizes nms jds pis = Ok (cs, (ce, cn, ci)) ->
  c01_okb sizes (singleton_mis (ncols jds)) jds (map flat_call cs) jds (endpoints ce) = true.
Proof. intros. apply c01_okb_spec. eapply gen_fast_C01; eauto. Qed.

Theorem gen_custom_passes_c01 : forall build sizes names mis jds pis cs ce cn ci,
  Valid sizes mis jds -> PisOk jds pis -> BuildClosed build ->
  NamesOk build names (fst (plan_custom sizes mis jds pis)) ->
  gen_custom build sizes names mis jds pis = Ok (cs, (ce, cn, ci)) ->
  c01_okb sizes mis jds (map flat_call cs) jds (endpoints ce) = true.
Proof. intros. apply c01_okb_spec. eapply gen_custom_C01; eauto. Qed.

Theorem gen_main_dispatch : forall build sizes names mis jds pis,
  gen_main 0 build sizes names mis jds pis = gen_fast build sizes (map (hd 0) names) jds pis /\
  gen_main 1 build sizes names mis jds pis = gen_fast build sizes (map (hd 0) names) jds pis /\
  gen_main 2 build sizes names mis jds pis = gen_custom build sizes names mis jds pis /\
  (forall tag, 2 < tag -> gen_main tag build sizes names mis jds pis = Err E_TYPE).
Proof.
  intros. repeat split. intros tag H. destruct tag as [|[|[|t]]]; try lia. reflexivity.
Qed.

(* identity shuffles are admissible schedules (non-vacuity of PisOk) *)
Lemma PisOk_identity : forall jds, PisOk jds (map (fun s => seq 0 (length s)) (all_stubs jds)).
Proof.
  intros jds k Hk. unfold is_perm.
  rewrite (nth_map_in _ _ _ _ _ [] []) by now rewrite all_stubs_length.
  rewrite all_stubs_nth by exact Hk. apply Permutation_refl.
Qed.
