(* C17 corollary of the general C15 identity: the hypothesis "every motif equation the network uses
   is the exact expectation" of [model_is_spec] holds for EVERY well-formed network (motifs of any
   size), so the message-passing model equals its specification unconditionally. *)
From Coq Require Import List ZArith QArith Bool Arith.
From GV Require Import Lib.Tree Lib.PolyRefl15 Lib.Graph15 Model.AutoEq Proofs.AutoEqP Proofs.AutoEqG
                       Model.MsgPass Proofs.MsgPassP.
Import ListNotations.
Local Open Scope Q_scope.

Lemma find_motif_wf : forall nt id,
    (forall m, In m (n_motifs nt) -> wf_graph (motif_graph m) = true) ->
    wf_graph (motif_graph (find_motif nt id)) = true.
Proof.
  intros nt id H. unfold find_motif.
  destruct (find (fun m => Nat.eqb (m_id m) id) (n_motifs nt)) as [m|] eqn:E.
  - apply find_some in E. apply H, E.
  - reflexivity.
Qed.

(* the swept end points are vertices of their motif and every motif graph is a simple graph *)
Theorem motif_identities_general : forall nt,
    sweep_okb nt = true ->
    (forall m, In m (n_motifs nt) -> wf_graph (motif_graph m) = true) ->
    motif_identities nt.
Proof.
  intros nt Hs Hm name g r Hcall phi u.
  destruct (sweep_ok_focal nt Hs name g r Hcall) as [Hr _].
  destruct Hcall as [i [j [id [_ [_ [_ ->]]]]]].
  apply identity_general; [apply find_motif_wf, Hm|apply memb_In, Hr].
Qed.

Lemma net_okb_parts : forall nt, net_okb nt = true ->
    sweep_okb nt = true /\ (forall m, In m (n_motifs nt) -> wf_graph (motif_graph m) = true).
Proof.
  intros nt H. unfold net_okb in H.
  apply andb_true_iff in H. destruct H as [H _].
  apply andb_true_iff in H. destruct H as [H _].
  apply andb_true_iff in H. destruct H as [Hs Hm].
  split; [exact Hs|]. intros m Hin. rewrite forallb_forall in Hm. specialize (Hm m Hin).
  apply andb_true_iff in Hm. apply Hm.
Qed.

Theorem model_is_spec_unconditional : forall nt, net_okb nt = true ->
    forall T phi, mp_model nt T phi == mp_spec nt T phi.
Proof.
  intros nt H. destruct (net_okb_parts nt H) as [Hs Hm].
  exact (model_is_spec nt (motif_identities_general nt Hs Hm)).
Qed.

(* the OBJECT (evaluator caches persist over the queries) and the extracted reduced-fraction model
   return the specification's values, for every well-formed network *)
Lemma Forall2_Qeq_map_trans : forall (l : list Q) (f g : Q -> Q) xs,
    Forall2 Qeq l (map f xs) -> (forall x, f x == g x) -> Forall2 Qeq l (map g xs).
Proof.
  intros l f g xs H Hfg. revert l H. induction xs as [|x xs IH]; intros l H; cbn [map] in *.
  - inversion H. constructor.
  - inversion H as [|a b l' m' Hab Hl]. subst. constructor; [rewrite Hab; apply Hfg|apply IH, Hl].
Qed.

Theorem object_is_spec : forall nt T phis, net_okb nt = true ->
    Forall2 Qeq (mp_object nt T phis) (map (mp_spec nt T) phis).
Proof.
  intros nt T phis H. destruct (net_okb_parts nt H) as [Hs _].
  apply (Forall2_Qeq_map_trans _ (mp_model nt T)).
  - exact (history_fresh alg_q nt T alg_q_proper Hs phis caches_empty (cache_inv_empty (net_naming nt))).
  - intros phi. apply model_is_spec_unconditional, H.
Qed.

Theorem wire_model_is_spec : forall nt T phis, net_okb nt = true ->
    Forall2 Qeq (mp_history (eqn_cached alg_qr) nt T caches_empty phis) (map (mp_spec nt T) phis).
Proof.
  intros nt T phis H. destruct (net_okb_parts nt H) as [Hs _].
  apply (Forall2_Qeq_map_trans _ (mp_model nt T)).
  - exact (history_fresh alg_qr nt T alg_qr_q Hs phis caches_empty (cache_inv_empty (net_naming nt))).
  - intros phi. apply model_is_spec_unconditional, H.
Qed.
