(* C02 on large outputs: the checker over Z (Model/Gen.v c02_okz, entry c02_check_ids) is SOUND for the
   specification -- whatever it accepts is accepted by the verified checker c02_okb on the nat image of the
   columns, hence satisfies Spec_C02 (Proofs/GenP.v c02_okb_sound). *)
From Coq Require Import List ZArith Bool Arith Lia Permutation Mergesort.
From GV Require Import Lib.Tree Lib.GenList Model.Gen Proofs.GenP Proofs.GenC02P.
Import ListNotations.

(* ------------------------------------------------------------------ boolean equalities, lengths *)
Lemma zpair_eqb_eq : forall a b, zpair_eqb a b = true <-> a = b.
Proof.
  intros [a1 a2] [b1 b2]. unfold zpair_eqb. cbn [fst snd]. rewrite andb_true_iff, !Z.eqb_eq.
  split; [intros [-> ->]; reflexivity|intros H; inversion H; now split].
Qed.

Lemma zpairs_eqb_eq : forall a b, zpairs_eqb a b = true <-> a = b.
Proof.
  induction a as [|x a IH]; destruct b as [|y b]; cbn; split; intro H; try reflexivity; try discriminate.
  - apply andb_true_iff in H. destruct H as [H1 H2]. apply zpair_eqb_eq in H1. apply IH in H2. congruence.
  - inversion H; subst. apply andb_true_iff. split; [now apply zpair_eqb_eq|now apply IH].
Qed.

Lemma zlist_eqb_eq : forall a b, zlist_eqb a b = true <-> a = b.
Proof.
  induction a as [|x a IH]; destruct b as [|y b]; cbn; split; intro H; try reflexivity; try discriminate.
  - apply andb_true_iff in H. destruct H as [H1 H2]. apply Z.eqb_eq in H1. apply IH in H2. congruence.
  - inversion H; subst. apply andb_true_iff. split; [apply Z.eqb_refl|now apply IH].
Qed.

Lemma same_len_length : forall (A B : Type) (a : list A) (b : list B),
  same_len a b = true <-> length a = length b.
Proof.
  induction a as [|x a IH]; destruct b as [|y b]; cbn; split; intro H; try reflexivity; try discriminate.
  - f_equal. now apply IH.
  - apply IH. now inversion H.
Qed.

(* ------------------------------------------------------------------ distinctness through one sort *)
Lemma strict_incr_lt : forall l a, strict_incr (a :: l) = true -> forall x, In x l -> (a < x)%Z.
Proof.
  induction l as [|b t IH]; intros a H x Hx; [destruct Hx|].
  cbn [strict_incr] in H. apply andb_true_iff in H. destruct H as [H1 H2]. apply Z.ltb_lt in H1.
  destruct Hx as [<-|Hx]; [exact H1|]. specialize (IH b H2 x Hx). lia.
Qed.

Lemma strict_incr_tail : forall a l, strict_incr (a :: l) = true -> strict_incr l = true.
Proof.
  intros a [|b t] H; [reflexivity|]. cbn [strict_incr] in H. apply andb_true_iff in H. tauto.
Qed.

Lemma strict_incr_NoDup : forall l, strict_incr l = true -> NoDup l.
Proof.
  induction l as [|a t IH]; intros H; constructor.
  - intro Hin. pose proof (strict_incr_lt _ _ H a Hin). lia.
  - apply IH. eapply strict_incr_tail; eauto.
Qed.

Theorem nodupz_NoDup : forall l, nodupz l = true -> NoDup l.
Proof.
  intros l H. apply strict_incr_NoDup in H.
  eapply Permutation_NoDup; [apply Permutation_sym, ZSort.Permuted_sort|exact H].
Qed.

(* ------------------------------------------------------------------ zip3 and firstn / skipn *)
Lemma firstn_combine : forall (A B : Type) n (a : list A) (b : list B),
  firstn n (combine a b) = combine (firstn n a) (firstn n b).
Proof.
  induction n as [|n IH]; intros a b; [reflexivity|].
  destruct a as [|x a]; [reflexivity|]. destruct b as [|y b]; [reflexivity|].
  cbn. f_equal. apply IH.
Qed.

Lemma skipn_combine : forall (A B : Type) n (a : list A) (b : list B),
  skipn n (combine a b) = combine (skipn n a) (skipn n b).
Proof.
  induction n as [|n IH]; intros a b; [reflexivity|].
  destruct a as [|x a]; [reflexivity|]. destruct b as [|y b].
  - cbn. now destruct (skipn n a).
  - cbn. apply IH.
Qed.

Lemma firstn_zip3 : forall n a b c,
  firstn n (zip3 a b c) = zip3 (firstn n a) (firstn n b) (firstn n c).
Proof. intros. unfold zip3, row. now rewrite !firstn_combine. Qed.

Lemma skipn_zip3 : forall n a b c,
  skipn n (zip3 a b c) = zip3 (skipn n a) (skipn n b) (skipn n c).
Proof. intros. unfold zip3, row. now rewrite !skipn_combine. Qed.

(* ------------------------------------------------------------------ the nat image of the Z columns *)
Definition zp2n (p : Z * Z) : nat * nat := (Z.to_nat (fst p), Z.to_nat (snd p)).
Definition names_img (names : list Z) : list (list nat) := map (fun z => [Z.to_nat z]) names.
Definition res_img (r : nat * list (Z * Z)) : nat * shape := (fst r, Edges (map zp2n (snd r))).

Lemma t_pair_zpair : forall t, t_pair t = zp2n (t_zpair t).
Proof. reflexivity. Qed.

Lemma hd_names_img : forall names j, hd 0 (nth j (names_img names) []) = Z.to_nat (nth j names 0%Z).
Proof.
  induction names as [|z t IH]; intros [|j]; cbn; try reflexivity. apply IH.
Qed.

Lemma blocks_okz_nonneg : forall names results ce cn ci heads,
  blocks_okz names results ce cn ci = Some heads -> forall h, In h heads -> (0 <= h)%Z.
Proof.
  intros names results. induction results as [|[j es] rest IH]; intros ce cn ci heads H h Hh.
  - cbn in H. destruct ce, cn, ci; try discriminate. inversion H; subst. destruct Hh.
  - cbn [blocks_okz] in H. cbv zeta in H.
    destruct (_ && _ && _); [|discriminate].
    destruct (firstn (length es) ci) as [|i tl]; [now apply (IH _ _ _ _ H)|].
    destruct (forallb (Z.eqb i) tl && (0 <=? i)%Z) eqn:E; [|discriminate].
    destruct (blocks_okz names rest _ _ _) as [hs|] eqn:Er; [|discriminate].
    inversion H; subst. apply andb_true_iff in E. destruct E as [_ E]. apply Z.leb_le in E.
    destruct Hh as [<-|Hh]; [exact E|]. now apply (IH _ _ _ _ Er).
Qed.

(* ------------------------------------------------------------------ what the Z checker accepts, c02_okb accepts *)
Lemma blocks_okz_okb : forall names results ce cn ci heads seen,
  blocks_okz names results ce cn ci = Some heads ->
  NoDup heads ->
  (forall h, In h heads -> ~ In (Z.to_nat h) seen) ->
  blocks_okb false (names_img names) (map res_img results)
             (zip3 (map zp2n ce) (map Z.to_nat cn) (map Z.to_nat ci)) seen = true.
Proof.
  intros names results. induction results as [|[j es] rest IH]; intros ce cn ci heads seen H ND HS.
  - cbn in H. destruct ce, cn, ci; try discriminate. reflexivity.
  - pose proof (blocks_okz_nonneg _ _ _ _ _ _ H) as NN.
    cbn [blocks_okz] in H. cbv zeta in H.
    set (n := length es) in *. set (nm := nth j names 0%Z) in *.
    destruct (zpairs_eqb (firstn n ce) es && zlist_eqb (firstn n cn) (repeat nm n) && same_len (firstn n ci) es)
      eqn:Ec; [|discriminate].
    apply andb_true_iff in Ec. destruct Ec as [Ec E3]. apply andb_true_iff in Ec. destruct Ec as [E1 E2].
    apply zpairs_eqb_eq in E1. apply zlist_eqb_eq in E2. apply same_len_length in E3. fold n in E3.
    rewrite map_cons. unfold res_img at 1. cbn [fst snd]. cbn [blocks_okb edges_of]. cbv zeta.
    rewrite map_length. fold n.
    set (rows := zip3 (map zp2n ce) (map Z.to_nat cn) (map Z.to_nat ci)).
    set (A := map zp2n es). set (B := repeat (Z.to_nat nm) n). set (C := map Z.to_nat (firstn n ci)).
    assert (Hblk : firstn n rows = zip3 A B C).
    { unfold rows. rewrite firstn_zip3, !firstn_map, E1, E2. unfold A, B, C. f_equal.
      clear. induction n; cbn; congruence. }
    assert (Hrest : skipn n rows = zip3 (map zp2n (skipn n ce)) (map Z.to_nat (skipn n cn)) (map Z.to_nat (skipn n ci))).
    { unfold rows. now rewrite skipn_zip3, !skipn_map. }
    assert (L1 : length A = length B) by (unfold A, B; now rewrite map_length, repeat_length).
    assert (L2 : length B = length C) by (unfold B, C; now rewrite map_length, repeat_length, E3).
    destruct (zip3_proj A B C L1 L2) as [P1 [P2 P3]].
    rewrite Hblk, Hrest, P1, P2.
    replace (pairs_eqb A A) with true by (symmetry; now apply pairs_eqb_eq).
    replace (list_eqb B (expected_names false (names_img names) j (Edges A))) with true.
    2:{ symmetry. apply list_eqb_eq. unfold expected_names. cbn [edges_of].
        rewrite hd_names_img. unfold A, B. now rewrite map_length. }
    cbn [andb].
    destruct (firstn n ci) as [|i tl] eqn:Eci.
    + (* empty block *)
      assert (Hn : n = 0) by (cbn in E3; lia).
      assert (EA : A = []) by (unfold A; destruct es; [reflexivity|cbn in n; unfold n in Hn; discriminate]).
      rewrite EA. cbn [zip3 combine]. now apply (IH _ _ _ _ _ H).
    + destruct (forallb (Z.eqb i) tl && (0 <=? i)%Z) eqn:Ei; [|discriminate].
      destruct (blocks_okz names rest (skipn n ce) (skipn n cn) (skipn n ci)) as [hs|] eqn:Er; [|discriminate].
      inversion H; subst heads. clear H.
      apply andb_true_iff in Ei. destruct Ei as [Ei _]. rewrite forallb_forall in Ei.
      unfold C in P3. cbn [map] in P3.
      destruct (zip3 A B (Z.to_nat i :: map Z.to_nat tl)) as [|r blk'] eqn:Eb; [discriminate|].
      unfold C. cbn [map]. rewrite Eb.
      cbn [map] in P3. inversion P3 as [[Hr Hids]].
      apply andb_true_iff. split; [apply andb_true_iff; split|].
      * apply forallb_forall. intros r' Hr'. apply Nat.eqb_eq.
        assert (Hin : In (r_id r') (r_id r :: map r_id blk')) by (rewrite <- map_cons; now apply in_map).
        rewrite Hr, Hids in Hin. rewrite Hr. destruct Hin as [Hin|Hin]; [now symmetry|].
        apply in_map_iff in Hin. destruct Hin as [z [Hz1 Hz]]. apply Ei in Hz. apply Z.eqb_eq in Hz. rewrite Hz. now symmetry.
      * apply negb_true_iff. destruct (memb (r_id r) seen) eqn:Em; [|reflexivity].
        apply memb_In in Em. rewrite Hr in Em. exfalso. apply (HS i); [now left|exact Em].
      * rewrite Hr. apply (IH _ _ _ _ _ Er).
        -- now inversion ND.
        -- intros h Hh [Heq|Hin].
           ++ inversion ND as [|i0 hs0 Hni _ [Ei0 Ehs0]]. apply Hni.
              assert (0 <= i)%Z by (apply NN; now left). assert (0 <= h)%Z by (apply NN; now right).
              replace i with h; [exact Hh|]. apply Z2Nat.inj; auto.
           ++ apply (HS h); [now right|exact Hin].
Qed.

Theorem c02_okz_implies_okb : forall names results ce_raw cn ci,
  c02_okz names results ce_raw cn ci = true ->
  c02_okb false (names_img names) (map res_img results) ce_raw (map Z.to_nat cn) (map Z.to_nat ci) = true.
Proof.
  intros names results ce_raw cn ci H. unfold c02_okz in H.
  apply andb_true_iff in H. destruct H as [H H4]. apply andb_true_iff in H. destruct H as [H H3].
  apply andb_true_iff in H. destruct H as [H1 H2]. apply same_len_length in H1, H2.
  destruct (blocks_okz names results (map t_zpair ce_raw) cn ci) as [heads|] eqn:Eb; [|discriminate].
  apply nodupz_NoDup in H4.
  unfold c02_okb. rewrite !map_length, H1, H2, !Nat.eqb_refl, H3. cbn [andb].
  replace (map t_pair ce_raw) with (map zp2n (map t_zpair ce_raw)) by (rewrite map_map; reflexivity).
  apply (blocks_okz_okb _ _ _ _ _ _ _ Eb H4). intros h _ [].
Qed.

(* ... hence the specification holds for the nat image of the observed columns: parallel columns, every edge
   entry a pair, one block per logged callback call with that call's edges, the topology's name and one id,
   ids of different blocks different *)
Theorem c02_okz_sound : forall names results ce_raw cn ci,
  c02_okz names results ce_raw cn ci = true ->
  Forall IsPairTree ce_raw /\
  Spec_C02 false (names_img names) (map res_img results) (map t_pair ce_raw) (map Z.to_nat cn) (map Z.to_nat ci).
Proof. intros. now apply c02_okb_sound, c02_okz_implies_okb. Qed.

(* and on the integers themselves: the ids the checker collected (one per non-empty block, in call order) are
   pairwise different non-negative integers *)
Theorem c02_okz_ids_distinct : forall names results ce_raw cn ci,
  c02_okz names results ce_raw cn ci = true ->
  exists heads, blocks_okz names results (map t_zpair ce_raw) cn ci = Some heads /\ NoDup heads /\
                forall h, In h heads -> (0 <= h)%Z.
Proof.
  intros names results ce_raw cn ci H. unfold c02_okz in H.
  apply andb_true_iff in H. destruct H as [_ H4].
  destruct (blocks_okz names results (map t_zpair ce_raw) cn ci) as [heads|] eqn:Eb; [|discriminate].
  exists heads. split; [reflexivity|]. split; [now apply nodupz_NoDup|]. eapply blocks_okz_nonneg; eauto.
Qed.
