(* Proofs for Model/GenBig.v: the callback-result checker decides "every logged result is the builder's
   specification applied to the logged arguments"; the large-stub-list checker over Z is sound for the
   fast generator's plan under the scripted schedule. *)
From Coq Require Import List ZArith Bool Arith Lia Permutation.
From GV Require Import Lib.Tree Model.Gen Model.GenBig Proofs.GenP Proofs.GenC02ZP Proofs.GenC03P.
Import ListNotations.

(* ------------------------------------------------------------------ 1. results *)
Lemma shape_eqb_eq : forall a b, shape_eqb a b = true <-> a = b.
Proof.
  intros [a1 b1|e1] [a2 b2|e2]; cbn; split; intro H; try discriminate.
  - apply andb_true_iff in H. destruct H as [H1 H2]. apply Nat.eqb_eq in H1, H2. now subst.
  - inversion H; subst. now rewrite !Nat.eqb_refl.
  - apply pairs_eqb_eq in H. now subst.
  - inversion H; subst. now apply pairs_eqb_eq.
Qed.

(* what the callbacks returned along a list of (flat) calls *)
Definition ResultsFlat (build : nat -> list nat -> res shape) (calls : list call)
           (results : list (nat * shape)) : Prop :=
  Forall2 (fun c r => fst r = fst c /\ build (fst c) (snd c) = Ok (snd r)) calls results.

Theorem results_okb_iff : forall build calls results,
  results_okb build calls results = true <-> ResultsFlat build calls results.
Proof.
  intros build. induction calls as [|c cs IH]; intros [|r rs]; cbn [results_okb]; split; intro H;
    try discriminate; try (now constructor); try (now inversion H).
  - apply andb_true_iff in H. destruct H as [H H3]. apply andb_true_iff in H. destruct H as [H1 H2].
    constructor; [|now apply IH]. split; [now apply Nat.eqb_eq|].
    destruct (build (fst c) (snd c)) as [sh|e]; [|discriminate]. apply shape_eqb_eq in H2. now subst.
  - inversion H as [|? ? ? ? [Hj Hb] Hr]; subst. rewrite !andb_true_iff. split; [split|].
    + now apply Nat.eqb_eq.
    + rewrite Hb. now apply shape_eqb_eq.
    + now apply IH.
Qed.

(* the relation the generator theorems use (GenP.Results, on structured calls) is this one on the flat calls *)
Theorem results_flat_iff : forall build cs results,
  Results build cs results <-> ResultsFlat build (map flat_call cs) results.
Proof.
  intros build cs. induction cs as [|c cs IH]; intros results; split; intro H.
  - inversion H. constructor.
  - inversion H. constructor.
  - inversion H as [|? ? ? ? Hc Hr]; subst. cbn [map]. constructor; [exact Hc|now apply IH].
  - cbn [map] in H. inversion H as [|? ? ? ? Hc Hr]; subst. constructor; [exact Hc|now apply IH].
Qed.

(* the library builders' specification, in closed form *)
Lemma combos2_length2 : forall l, 2 * length (combos2 l) = length l * (length l - 1).
Proof.
  induction l as [|x t IH]; [reflexivity|].
  cbn [combos2]. rewrite app_length, map_length. cbn [length].
  replace (S (length t) - 1) with (length t) by lia.
  destruct t as [|y t']; [reflexivity|]. cbn [length] in *. nia.
Qed.

Lemma cycle_edges_length : forall l es, cycle_edges l = Ok es -> length es = length l.
Proof.
  intros [|x t] es H; [discriminate|]. assert (E : es = combine (x :: t) t ++ [(x, last (x :: t) x)]) by (unfold cycle_edges in H; now injection H).
  subst es. rewrite app_length, combine_length. cbn [length]. lia.
Qed.

(* ------------------------------------------------------------------ 2. large stub lists *)
Definition enc (l : list nat) : list Z := map Z.of_nat l.

Lemma zlists_eqb_eq : forall a b, zlists_eqb a b = true <-> a = b.
Proof.
  induction a as [|x a IH]; intros [|y b]; cbn; split; intro H; try discriminate; try reflexivity.
  - apply andb_true_iff in H. destruct H as [H1 H2]. apply zlist_eqb_eq in H1. apply IH in H2. now subst.
  - inversion H; subst. apply andb_true_iff. split; [now apply zlist_eqb_eq|now apply IH].
Qed.

Lemma zcalls_eqb_eq : forall a b, zcalls_eqb a b = true <-> a = b.
Proof.
  induction a as [|[j x] a IH]; intros [|[k y] b]; cbn; split; intro H; try discriminate; try reflexivity.
  - apply andb_true_iff in H. destruct H as [H H3]. apply andb_true_iff in H. destruct H as [H1 H2].
    apply Nat.eqb_eq in H1. apply zlist_eqb_eq in H2. apply IH in H3. now subst.
  - inversion H; subst. rewrite !andb_true_iff. split; [split|]; [apply Nat.eqb_refl|now apply zlist_eqb_eq|now apply IH].
Qed.

Lemma ncolsZ_enc : forall jds, ncolsZ (map enc jds) = ncols jds.
Proof.
  intros [|r rs]; [reflexivity|]. cbn [map ncolsZ ncols]. unfold enc at 2. rewrite map_length.
  f_equal. rewrite map_map. apply map_ext. intros a. unfold enc. now rewrite map_length.
Qed.

Lemma colZ_enc : forall k jds, colZ k (map enc jds) = enc (col k jds).
Proof.
  intros k jds. unfold colZ, col, enc. rewrite !map_map. apply map_ext. intros r.
  change 0%Z with (Z.of_nat 0). now rewrite map_nth.
Qed.

Lemma map_repeat_ : forall (A B : Type) (f : A -> B) x n, map f (repeat x n) = repeat (f x) n.
Proof. intros A B f x n. induction n as [|n IH]; [reflexivity|]. cbn. now rewrite IH. Qed.

Lemma stubs_fromZ_enc : forall c v, stubs_fromZ (Z.of_nat v) (enc c) = enc (stubs_from v c).
Proof.
  induction c as [|d c IH]; intros v; [reflexivity|].
  unfold enc in *. cbn [map stubs_fromZ stubs_from]. rewrite Nat2Z.id, map_app, map_repeat_.
  f_equal. replace (Z.of_nat v + 1)%Z with (Z.of_nat (S v)) by lia. apply IH.
Qed.

Lemma all_stubsZ_enc : forall jds, all_stubsZ (map enc jds) = map enc (all_stubs jds).
Proof.
  intros jds. unfold all_stubsZ, all_stubs. rewrite ncolsZ_enc, map_map. apply map_ext. intros k.
  rewrite colZ_enc. unfold stubs. apply (stubs_fromZ_enc _ 0).
Qed.

Lemma perm_apply_map : forall (A B : Type) (f : A -> B) sp (l : list A),
  perm_apply sp (map f l) = map f (perm_apply sp l).
Proof.
  intros A B f [k r] l. unfold perm_apply, rotl. cbn [fst snd]. rewrite <- !rev_alt.
  destruct k; rewrite map_app, <- ?map_rev, skipn_map, firstn_map; reflexivity.
Qed.

Lemma map_nth_seq0 : forall (l : list nat), map (fun i => nth i l 0) (seq 0 (length l)) = l.
Proof.
  intros l. apply nth_ext with (d := 0) (d' := 0); [now rewrite map_length, seq_length|].
  intros n Hn. rewrite map_length, seq_length in Hn.
  rewrite (nth_indep _ 0 (nth 0 l 0)) by (now rewrite map_length, seq_length).
  rewrite (map_nth (fun i => nth i l 0)). now rewrite seq_nth.
Qed.

(* the scripted operation IS random.shuffle answering with the position list pi_of *)
Lemma perm_apply_arrange : forall sp (l : list nat), perm_apply sp l = arrange (pi_of sp (length l)) l.
Proof.
  intros sp l. unfold arrange, pi_of. rewrite <- perm_apply_map. now rewrite map_nth_seq0.
Qed.

Lemma perm_apply_perm : forall (A : Type) sp (l : list A), Permutation (perm_apply sp l) l.
Proof.
  intros A [k r] l. unfold perm_apply, rotl. cbn [fst snd]. rewrite <- rev_alt.
  set (m := if k then rev l else l).
  apply perm_trans with m.
  - apply perm_trans with (firstn r m ++ skipn r m); [apply Permutation_app_comm|now rewrite firstn_skipn].
  - unfold m. destruct k; [apply Permutation_sym, Permutation_rev|apply Permutation_refl].
Qed.

Lemma pi_of_is_perm : forall sp n, is_perm (pi_of sp n) n.
Proof. intros sp n. unfold is_perm, pi_of. apply perm_apply_perm. Qed.

Lemma apply_specs_enc : forall sl specs,
  apply_specs specs (map enc sl) = map enc (shuffle_all (pis_of specs sl) sl).
Proof.
  induction sl as [|s sl IH]; intros specs; [reflexivity|].
  cbn [map apply_specs pis_of shuffle_all hd tl]. f_equal; [|apply IH].
  unfold enc. rewrite perm_apply_map. f_equal. apply perm_apply_arrange.
Qed.

Lemma pis_of_nth : forall (sl : list (list nat)) specs k, k < length sl ->
  nth k (pis_of specs sl) [] = pi_of (nth k specs (false, 0)) (length (nth k sl [])).
Proof.
  induction sl as [|s sl IH]; intros specs k Hk; [inversion Hk|].
  cbn [pis_of]. destruct k as [|k].
  - cbn [nth]. destruct specs; reflexivity.
  - cbn [nth length] in *. rewrite IH by lia. destruct specs as [|sp specs]; cbn [tl nth]; [|reflexivity].
    destruct k; reflexivity.
Qed.

Lemma chunksP_aux_enc : forall fuel n l, chunksP_aux fuel n (enc l) = map enc (chunks_aux fuel n l).
Proof.
  induction fuel as [|f IH]; intros n l; [reflexivity|].
  destruct l as [|x l]; [reflexivity|].
  change (enc (x :: l)) with (Z.of_nat x :: enc l).
  cbn [chunksP_aux chunks_aux map].
  change (Z.of_nat x :: enc l) with (enc (x :: l)).
  rewrite <- IH. unfold enc. now rewrite firstn_map, skipn_map.
Qed.

Lemma chunksP_enc : forall n l, chunksP n (enc l) = map enc (chunks n l).
Proof. intros n l. unfold chunksP, chunks, enc at 1. rewrite map_length. apply chunksP_aux_enc. Qed.

Definition enc_call (c : call) : nat * list Z := (fst c, enc (snd c)).

Lemma plan_bigZ_enc : forall sl k sizes csZ,
  plan_bigZ k (enc sizes) (map enc sl) = Some csZ ->
  snd (plan_fast_from k sizes sl) = None /\
  csZ = map enc_call (map flat_call (fst (plan_fast_from k sizes sl))).
Proof.
  induction sl as [|s sl IH]; intros k sizes csZ H.
  - cbn in H. inversion H. split; reflexivity.
  - cbn [map plan_bigZ plan_fast_from] in *. assert (Hn : nth_error (enc sizes) k = option_map Z.of_nat (nth_error sizes k)) by apply nth_error_map.
    rewrite Hn in H. clear Hn.
    destruct (nth_error sizes k) as [n|]; [|discriminate]. cbn [option_map] in H.
    destruct n as [|n]; [discriminate|].
    replace (0 <? Z.of_nat (S n))%Z with true in H by (symmetry; apply Z.ltb_lt; lia).
    destruct (plan_bigZ (S k) (enc sizes) (map enc sl)) as [cs|] eqn:E; [|discriminate].
    inversion H; subst csZ. clear H. destruct (IH (S k) sizes cs E) as [E1 E2].
    destruct (plan_fast_from (S k) sizes sl) as [cs0 e0]. cbn [fst snd] in *. split; [exact E1|].
    change (Pos.to_nat (Pos.of_succ_nat n)) with (Z.to_nat (Z.of_nat (S n))).
    rewrite Nat2Z.id, chunksP_enc, !map_app, !map_map. f_equal; [|now rewrite E2, map_map].
    apply map_ext. intros g. unfold enc_call, flat_call. cbn. now rewrite app_nil_r.
Qed.

(* soundness: whatever c03_check_big accepts is the fast generator's plan under the scripted schedule *)
Theorem c03_big_sound : forall sizes jds specs shufs left calls,
  c03_big_okb (enc sizes) (map enc jds) specs shufs left calls = true ->
  let pis := pis_of specs (all_stubs jds) in
  shufs = map enc (all_stubs jds) /\ length specs = ncols jds /\ left = 0%Z /\
  PisOk jds pis /\
  snd (plan_fast sizes jds pis) = None /\
  calls = map enc_call (map flat_call (fst (plan_fast sizes jds pis))).
Proof.
  intros sizes jds specs shufs left calls H pis. unfold c03_big_okb in H.
  rewrite all_stubsZ_enc in H.
  apply andb_true_iff in H. destruct H as [H H4]. apply andb_true_iff in H. destruct H as [H H3].
  apply andb_true_iff in H. destruct H as [H1 H2].
  apply zlists_eqb_eq in H1. apply Nat.eqb_eq in H2. apply Z.eqb_eq in H3.
  rewrite map_length, all_stubs_length in H2.
  rewrite apply_specs_enc in H4. fold pis in H4.
  destruct (plan_bigZ 0 (enc sizes) (map enc (shuffle_all pis (all_stubs jds)))) as [cs|] eqn:E; [|discriminate].
  apply zcalls_eqb_eq in H4. destruct (plan_bigZ_enc _ _ _ _ E) as [E1 E2].
  repeat split; try assumption.
  - intros k Hk. unfold pis. rewrite pis_of_nth by (now rewrite all_stubs_length).
    rewrite all_stubs_nth by exact Hk. apply pi_of_is_perm.
  - now rewrite H4, E2.
Qed.

(* ... hence the placement read off the observed calls is the tuple of shuffled stub lists *)
Theorem c03_big_placement : forall sizes jds specs shufs left calls,
  ValidNH sizes jds ->
  c03_big_okb (enc sizes) (map enc jds) specs shufs left calls = true ->
  exists cs, calls = map enc_call cs /\
    placement sizes (singleton_mis (ncols jds)) (ncols jds) cs =
    shuffle_all (pis_of specs (all_stubs jds)) (all_stubs jds) /\
    Forall2 (fun a s => Permutation a s) (shuffle_all (pis_of specs (all_stubs jds)) (all_stubs jds)) (all_stubs jds).
Proof.
  intros sizes jds specs shufs left calls V H.
  destruct (c03_big_sound _ _ _ _ _ _ H) as [_ [_ [_ [HP [_ Hc]]]]].
  exists (map flat_call (fst (plan_fast sizes jds (pis_of specs (all_stubs jds))))).
  split; [exact Hc|]. split; [now apply placement_fast_nohs|].
  set (pis := pis_of specs (all_stubs jds)) in *.
  assert (G : forall sl ps, (forall k, k < length sl -> is_perm (nth k ps []) (length (nth k sl []))) ->
                            Forall2 (fun a s => Permutation a s) (shuffle_all ps sl) sl).
  { induction sl as [|s sl IH]; intros ps Hps; [constructor|]. cbn [shuffle_all]. constructor.
    - apply arrange_perm. specialize (Hps 0). cbn [nth length] in Hps. destruct ps; apply Hps; lia.
    - apply IH. intros k Hk. specialize (Hps (S k)). cbn [nth length] in Hps. destruct ps as [|p ps]; cbn [tl].
      + destruct k; apply Hps; lia.
      + apply Hps. lia. }
  apply G. intros k Hk. rewrite all_stubs_length in Hk. rewrite all_stubs_nth by exact Hk. apply HP. exact Hk.
Qed.

(* ------------------------------------------------------------------ the library builders in closed form *)
Lemma cycle_motif_length : forall l es, cycle_motif l = Ok (Edges es) -> length es = length l.
Proof.
  intros l es H. unfold cycle_motif in H. destruct (cycle_edges l) as [es0|e] eqn:E; [|discriminate].
  injection H as <-. now apply cycle_edges_length.
Qed.

Lemma diamond_motif_shape : forall l es, diamond_motif l = Ok (Edges es) -> length l = 4 /\ length es = 6.
Proof.
  intros l es H. unfold diamond_motif in H.
  destruct l as [|a [|b [|c [|d [|x l]]]]]; cbn in H; try discriminate.
  - injection H as <-. split; reflexivity.
Qed.
