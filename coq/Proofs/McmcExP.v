(* C12 — the worked example behind Props/C12.v (C12_nonvacuous): the network, target and oracle stream of the
   example of Props/C11.v (a real run of /repo replayed by the harness), a second target that gives one of the
   proposed pairings weight zero, and a boolean test for the hypothesis [NonNeg]. *)
From Coq Require Import List ZArith QArith Bool Arith.
From GV Require Import Lib.Tree Model.DrawSet Model.Mcmc Proofs.McmcP.
Import ListNotations.

(* ------------------------------------------------------------------ NonNeg, decided *)
Definition nonnegb (tg : target) : bool := forallb (forallb (fun it => Qle_bool 0 (snd it))) tg.

Lemma klookup_In : forall m k q, klookup m k = Some q -> exists k', In (k', q) m.
Proof.
  induction m as [| [k' q'] m IH]; intros k q H; cbn [klookup] in H; [discriminate |].
  destruct (zs_eqb k k').
  - injection H as <-. exists k'. left. reflexivity.
  - destruct (IH k q H) as [k2 H2]. exists k2. right. exact H2.
Qed.

Lemma nonnegb_sound : forall tg, nonnegb tg = true -> NonNeg tg.
Proof.
  intros tg H t k q L. unfold tlookup in L. unfold nonnegb in H. rewrite forallb_forall in H.
  destruct (klookup_In _ _ _ L) as [k' Hin].
  assert (Hrow : In (nth t tg []) tg).
  { destruct (Nat.lt_ge_cases t (length tg)) as [Hlt | Hge]; [apply nth_In; exact Hlt |].
    rewrite (nth_overflow tg [] Hge) in Hin. destruct Hin. }
  specialize (H _ Hrow). rewrite forallb_forall in H. specialize (H _ Hin). cbn [snd] in H.
  apply Qle_bool_iff. exact H.
Qed.

(* ------------------------------------------------------------------ the example of Props/C11.v *)
(* a clean 10-vertex network: triangles (0,1,2) id 0 and (3,4,5) id 1, 2-cliques (6,7) (2,8) (5,6) (0,9) (4,9) (4,7);
   vertices annotated with (number of 2-cliques, number of 3-cliques); a full-support symmetric dyadic target *)
Definition x_nodes : list (list Z) :=
  [[1;1];[0;1];[1;1];[0;1];[2;1];[1;1];[2;0];[2;0];[1;0];[2;0]]%Z.
Definition x_edges : list edge :=
  [mkE 0 1 1 0; mkE 0 2 1 0; mkE 0 9 0 5; mkE 1 2 1 0; mkE 2 8 0 3; mkE 3 4 1 1; mkE 3 5 1 1;
   mkE 4 5 1 1; mkE 4 9 0 6; mkE 4 7 0 7; mkE 5 6 0 4; mkE 6 7 0 2]%Z.
Definition x_target : target :=
  [ [ ([0; 0; 0; 0]%Z, 7#16); ([0; 0; 0; 1]%Z, 7#8); ([0; 1; 0; 0]%Z, 7#8); ([0; 0; 1; 0]%Z, 7#8); ([1; 0; 0; 0]%Z, 7#8); ([0; 0; 1; 1]%Z, 7#8); ([1; 1; 0; 0]%Z, 7#8); ([0; 1; 0; 1]%Z, 1#4); ([0; 1; 1; 0]%Z, 7#16); ([1; 0; 0; 1]%Z, 7#16); ([0; 1; 1; 1]%Z, 3#16); ([1; 1; 0; 1]%Z, 3#16); ([1; 0; 1; 0]%Z, 7#8); ([1; 0; 1; 1]%Z, 7#16); ([1; 1; 1; 0]%Z, 7#16); ([1; 1; 1; 1]%Z, 5#16) ];
    [ ([0; 0; 0; 0]%Z, 3#16); ([0; 0; 1; 0]%Z, 3#16); ([1; 0; 0; 0]%Z, 3#16); ([0; 0; 2; 0]%Z, 3#8); ([2; 0; 0; 0]%Z, 3#8); ([1; 0; 1; 0]%Z, 3#4); ([1; 0; 2; 0]%Z, 3#4); ([2; 0; 1; 0]%Z, 3#4); ([2; 0; 2; 0]%Z, 1#8) ] ].
(* draw (2,8), draw (4,9): a suitable pair of 2-clique corners (proposals (2,9) and (4,8)), uniform 0; then draw
   (0,1) (corner [1;2]) and draw (3,4) (corner [4;5]): the two triangles swap a corner, uniform 0 *)
Definition x_events : list ev :=
  [EDraw 4; ECorner [8%Z]; EDraw 8; ECorner [9%Z]; ERandom (0#1);
   EDraw 0; ECorner [1%Z; 2%Z]; EDraw 5; ECorner [4%Z; 5%Z]; ERandom (0#1)].

(* the same target with weight ZERO for the pairing (1,1)-(0,0) of 2-clique edges, in both orientations: the
   proposal (4,8) of the first swap (vertex 4 has joint excess degree (1,1), vertex 8 has (0,0)) is forbidden *)
Definition zero_keys (ks : list (list Z)) (row : list (list Z * Q)) : list (list Z * Q) :=
  map (fun it => if existsb (zs_eqb (fst it)) ks then (fst it, 0#1) else it) row.
Definition x_target0 : target :=
  [ zero_keys [[1;1;0;0];[0;0;1;1]]%Z (nth 0 x_target []); nth 1 x_target [] ].
(* the same stream without the first uniform: under x_target0 the first swap is refused before random.random() is
   called, so the model consumes no ERandom event for it *)
Definition x_events0 : list ev :=
  [EDraw 4; ECorner [8%Z]; EDraw 8; ECorner [9%Z];
   EDraw 0; ECorner [1%Z; 2%Z]; EDraw 5; ECorner [4%Z; 5%Z]; ERandom (0#1)].

Definition x_run (tg : target) (evs : list ev) :=
  rewire (mk_cfg false x_nodes tg x_edges (Some 25%nat) (Some 1%nat)) x_edges evs.

Lemma x_wf : WF (Z.of_nat (length x_nodes)) x_edges.
Proof. apply wfb_sound. vm_compute. reflexivity. Qed.
Lemma x_target_nonneg : NonNeg x_target.
Proof. apply nonnegb_sound. vm_compute. reflexivity. Qed.
Lemma x_target0_nonneg : NonNeg x_target0.
Proof. apply nonnegb_sound. vm_compute. reflexivity. Qed.
