(* Proofs about Model/Loaders.v (C06): laws of the manual / empirical / marginal / function loaders,
   the dispatcher, and the verified checker. *)
From Coq Require Import List ZArith QArith Qabs Bool Arith Lia ZifyBool Setoid Lqa FinFun.
From GV Require Import Lib.Tree Lib.QSumL Lib.ReflL Model.Loaders.
Import ListNotations.
Local Open Scope nat_scope.

(* ====================================================================== *)
(* keys *)
Lemma key_eqb_eq a b : key_eqb a b = true <-> a = b.
Proof.
  revert b. induction a as [|x a IH]; intros [|y b]; cbn; try (split; [discriminate|discriminate]); [tauto|].
  rewrite andb_true_iff, Z.eqb_eq, IH. split; [intros [-> ->]; reflexivity|intros H; injection H; auto].
Qed.

Lemma key_eqb_refl a : key_eqb a a = true.
Proof. apply key_eqb_eq. reflexivity. Qed.

Lemma key_eqb_neq a b : key_eqb a b = false <-> a <> b.
Proof. rewrite <- key_eqb_eq. destruct (key_eqb a b); split; congruence. Qed.

Lemma key_eqb_sym a b : key_eqb a b = key_eqb b a.
Proof.
  destruct (key_eqb a b) eqn:E1, (key_eqb b a) eqn:E2; try reflexivity.
  - apply key_eqb_eq in E1. subst. rewrite key_eqb_refl in E2. discriminate.
  - apply key_eqb_eq in E2. subst. rewrite key_eqb_refl in E1. discriminate.
Qed.

Lemma mem_key_In k l : mem_key k l = true <-> In k l.
Proof.
  unfold mem_key. rewrite existsb_exists. split.
  - intros (x & Hx & E). apply key_eqb_eq in E. subst. exact Hx.
  - intros H. exists k. split; [exact H|apply key_eqb_refl].
Qed.

Lemma nodup_keys_NoDup l : nodup_keys l = true <-> NoDup l.
Proof.
  induction l as [|k t IH]; cbn.
  - split; [constructor|reflexivity].
  - rewrite andb_true_iff, negb_true_iff, IH. split.
    + intros [H1 H2]. constructor; [|exact H2]. rewrite <- mem_key_In. congruence.
    + intros H. inversion H as [|? ? H1 H2]; subst. split; [|exact H2].
      destruct (mem_key k t) eqn:E; [|reflexivity]. apply mem_key_In in E. contradiction.
Qed.

(* ====================================================================== *)
(* closeness *)
Definition Close (eps x q : Q) : Prop :=
  (Qabs (x - q) <= eps * (if Qle_bool 1 (Qabs q) then Qabs q else 1))%Q.

Lemma qclose_iff eps x q : qclose eps x q = true <-> Close eps x q.
Proof. unfold qclose, Close. apply Qle_bool_iff. Qed.

Lemma Close_exact eps q : (0 <= eps)%Q -> Close eps q q.
Proof.
  intros He. unfold Close. setoid_replace (q - q)%Q with 0%Q by ring. cbn [Qabs].
  change (Qabs 0) with 0%Q. apply Qmult_le_0_compat; [exact He|].
  destruct (Qle_bool 1 (Qabs q)); [apply Qabs_nonneg|discriminate].
Qed.

Lemma Close_zero x q : Close 0 x q <-> (x == q)%Q.
Proof.
  unfold Close. rewrite Qmult_0_l. split.
  - intros H. pose proof (Qle_Qabs (x - q)) as H1. pose proof (Qle_Qabs (- (x - q))) as H2.
    rewrite Qabs_opp in H2. lra.
  - intros E. setoid_replace (x - q)%Q with 0%Q by (rewrite E; ring). apply Qle_refl.
Qed.

(* ====================================================================== *)
(* the law specification and its checker *)
Definition LawSpec (eps : Q) (Sup : key -> Prop) (law : key -> Q) (obs : dist) : Prop :=
  NoDup (map fst obs) /\
  (forall k, In k (map fst obs) <-> Sup k) /\
  Forall (fun kv => Close eps (snd kv) (law (fst kv))) obs.

Lemma law_check_iff eps support (Sup : key -> Prop) law obs :
  (forall k, In k support <-> Sup k) ->
  (law_check eps support law obs = true <-> LawSpec eps Sup law obs).
Proof.
  intros HS. unfold law_check, LawSpec.
  rewrite !andb_true_iff, nodup_keys_NoDup, !forallb_Forall.
  assert (A : Forall (fun k => mem_key k support = true) (map fst obs) /\
              Forall (fun k => mem_key k (map fst obs) = true) support
              <-> forall k, In k (map fst obs) <-> Sup k).
  { rewrite !Forall_forall. split.
    - intros [H1 H2] k. rewrite <- HS. split; intros H.
      + apply mem_key_In. apply H1. exact H.
      + apply mem_key_In. apply H2. exact H.
    - intros H. split; intros k Hk; apply mem_key_In; [apply HS, H, Hk|apply H, HS, Hk]. }
  assert (B : Forall (fun kv => qclose eps (snd kv) (law (fst kv)) = true) obs
              <-> Forall (fun kv => Close eps (snd kv) (law (fst kv))) obs).
  { rewrite !Forall_forall. split; intros H kv Hkv; apply qclose_iff, H, Hkv. }
  rewrite B. tauto.
Qed.

(* ====================================================================== *)
(* the empirical law (convert_jds_to_jdd) *)
Lemma in_filter_neq k x l : In x (filter (fun y => negb (key_eqb k y)) l) <-> In x l /\ x <> k.
Proof.
  rewrite filter_In, negb_true_iff, key_eqb_neq. split; intros [A B]; split; auto; congruence.
Qed.

Lemma first_occ_In l k : In k (first_occ l) <-> In k l.
Proof.
  induction l as [|a l IH]; cbn [first_occ In]; [tauto|]. split.
  - intros [->|H]; [left; reflexivity|]. apply in_filter_neq in H. right. apply IH. tauto.
  - intros [->|H]; [left; reflexivity|]. destruct (key_eqb a k) eqn:E.
    + left. apply key_eqb_eq. exact E.
    + right. apply in_filter_neq. split; [apply IH; exact H|]. apply key_eqb_neq in E. congruence.
Qed.

Lemma first_occ_NoDup l : NoDup (first_occ l).
Proof.
  induction l as [|a l IH]; cbn [first_occ]; constructor.
  - intros H. apply in_filter_neq in H. tauto.
  - apply NoDup_filter. exact IH.
Qed.

Lemma count_key_notin k l : ~ In k l -> count_key k l = 0.
Proof.
  induction l as [|x l IH]; intros H; [reflexivity|]. cbn [count_key].
  destruct (key_eqb k x) eqn:E.
  - apply key_eqb_eq in E. subst. exfalso. apply H. left. reflexivity.
  - rewrite IH; [reflexivity|]. intros H'. apply H. right. exact H'.
Qed.

Lemma count_key_pos k l : In k l -> 0 < count_key k l.
Proof.
  induction l as [|x l IH]; intros H; [contradiction|]. cbn [count_key].
  destruct H as [->|H]; [rewrite key_eqb_refl; lia|]. specialize (IH H). lia.
Qed.

Lemma count_key_le k l : count_key k l <= length l.
Proof. induction l as [|x l IH]; cbn [count_key length]; [lia|]. destruct (key_eqb k x); lia. Qed.

Lemma list_sum_cons x l : list_sum (x :: l) = x + list_sum l.
Proof. reflexivity. Qed.

Lemma sum_split_key (f : key -> nat) k l :
  NoDup l ->
  list_sum (map f l) =
  (if mem_key k l then f k else 0) + list_sum (map f (filter (fun y => negb (key_eqb k y)) l)).
Proof.
  induction l as [|x l IH]; intros ND; [reflexivity|]. inversion ND as [|? ? Hx ND']; subst.
  unfold mem_key. cbn [map filter existsb]. fold (mem_key k l). rewrite list_sum_cons, (IH ND').
  destruct (key_eqb k x) eqn:E; cbn [negb orb].
  - apply key_eqb_eq in E. subst x. destruct (mem_key k l) eqn:M; [apply mem_key_In in M; contradiction|]. lia.
  - cbn [map]. rewrite list_sum_cons. lia.
Qed.

Lemma count_first_occ l : list_sum (map (fun k => count_key k l) (first_occ l)) = length l.
Proof.
  induction l as [|k t IH]; [reflexivity|]. cbn [first_occ map length]. rewrite list_sum_cons.
  cbn [count_key]. rewrite key_eqb_refl.
  rewrite (map_ext_in (fun k' => count_key k' (k :: t)) (fun k' => count_key k' t)).
  - rewrite <- IH. rewrite (sum_split_key (fun k' => count_key k' t) k (first_occ t) (first_occ_NoDup t)).
    destruct (mem_key k (first_occ t)) eqn:M; [lia|].
    rewrite (count_key_notin k t); [lia|]. intros H. apply first_occ_In in H. apply mem_key_In in H. congruence.
  - intros k' Hk'. apply in_filter_neq in Hk'. destruct Hk' as [_ Hne]. cbn [count_key].
    destruct (key_eqb k' k) eqn:E; [apply key_eqb_eq in E; contradiction|]. reflexivity.
Qed.

Lemma qsum_qfrac (g : key -> nat) n l :
  (qsum (map (fun k => qfrac (g k) n) l) == qfrac (list_sum (map g l)) n)%Q.
Proof.
  unfold qfrac. induction l as [|x l IH]; cbn [map].
  - cbn. unfold Qdiv. ring.
  - rewrite qsum_cons, list_sum_cons, IH, Nat2Z.inj_add, inject_Z_plus. unfold Qdiv. ring.
Qed.

Lemma qfrac_same n : 0 < n -> (qfrac n n == 1)%Q.
Proof.
  intros H. unfold qfrac. apply Qmult_inv_r. intros E.
  unfold Qeq, inject_Z in E. cbn [Qnum Qden] in E. lia.
Qed.

Lemma qfrac_nonneg a b : (0 <= qfrac a b)%Q.
Proof.
  unfold qfrac, Qdiv. apply Qmult_le_0_compat.
  - change 0%Q with (inject_Z 0). rewrite <- Zle_Qle. lia.
  - apply Qinv_le_0_compat. change 0%Q with (inject_Z 0). rewrite <- Zle_Qle. lia.
Qed.

Lemma empirical_keys jds : map fst (empirical jds) = first_occ jds.
Proof. unfold empirical. rewrite map_map. cbn [fst]. apply map_id. Qed.

Lemma empirical_value jds k v :
  In (k, v) (empirical jds) -> v = qfrac (count_key k jds) (length jds) /\ In k jds.
Proof.
  unfold empirical. rewrite in_map_iff. intros (k' & E & Hk). injection E as -> <-.
  split; [reflexivity|]. apply first_occ_In. exact Hk.
Qed.

Lemma empirical_sum jds : jds <> [] -> (qsum (map snd (empirical jds)) == 1)%Q.
Proof.
  intros Hne. unfold empirical. rewrite map_map. cbn [snd].
  rewrite (qsum_qfrac (fun k => count_key k jds)). rewrite count_first_occ.
  apply qfrac_same. destruct jds; [contradiction|cbn; lia].
Qed.

Lemma empirical_spec eps jds : (0 <= eps)%Q ->
  LawSpec eps (fun k => In k jds) (fun k => qfrac (count_key k jds) (length jds)) (empirical jds).
Proof.
  intros He. unfold LawSpec. rewrite empirical_keys. split; [apply first_occ_NoDup|]. split.
  - intros k. apply first_occ_In.
  - rewrite Forall_forall. intros [k v] H. apply empirical_value in H. destruct H as [-> _].
    cbn [fst snd]. apply Close_exact. exact He.
Qed.

Lemma empirical_nonneg jds : Forall (fun kv => 0 <= snd kv)%Q (empirical jds).
Proof.
  rewrite Forall_forall. intros [k v] H. apply empirical_value in H. destruct H as [-> _]. apply qfrac_nonneg.
Qed.

(* ====================================================================== *)
(* ranges and boxes *)
Lemma zrange_In lo hi x : In x (zrange lo hi) <-> (lo <= x < hi)%Z.
Proof.
  unfold zrange. rewrite in_map_iff. split.
  - intros (i & <- & Hi). apply in_seq in Hi. lia.
  - intros H. exists (Z.to_nat (x - lo)). split; [lia|]. apply in_seq. lia.
Qed.

Lemma zrange_NoDup lo hi : NoDup (zrange lo hi).
Proof.
  unfold zrange. apply Injective_map_NoDup; [|apply seq_NoDup].
  intros a b H. lia.
Qed.

Lemma box_In rs k : In k (box rs) <-> Forall2 (fun x r => In x r) k rs.
Proof.
  revert k. induction rs as [|r rs IH]; intros k; cbn [box].
  - split; [intros [<-|[]]; constructor|intros H; inversion H; left; reflexivity].
  - rewrite in_flat_map. split.
    + intros (x & Hx & Hk). apply in_map_iff in Hk. destruct Hk as (k' & <- & Hk').
      constructor; [exact Hx|apply IH; exact Hk'].
    + intros H. inversion H as [|x ? k' ? Hx Hk']; subst. exists x. split; [exact Hx|].
      apply in_map. apply IH. exact Hk'.
Qed.

Lemma NoDup_app_disj {A} (a b : list A) :
  NoDup a -> (forall x, In x a -> In x b -> False) -> NoDup b -> NoDup (a ++ b).
Proof.
  induction a as [|x a IH]; intros Ha Hd Hb; [exact Hb|]. inversion Ha as [|? ? Hx Ha']; subst.
  cbn. constructor.
  - rewrite in_app_iff. intros [H|H]; [contradiction|]. apply (Hd x); [left; reflexivity|exact H].
  - apply IH; auto. intros y Hy. apply Hd. right. exact Hy.
Qed.

Lemma box_NoDup rs : Forall (fun r => NoDup r) rs -> NoDup (box rs).
Proof.
  induction 1 as [|r rs Hr _ IH]; cbn [box]; [repeat constructor; intros []|].
  induction Hr as [|x r Hx Hr IHr]; cbn [flat_map]; [constructor|].
  apply NoDup_app_disj; [| |exact IHr].
  - apply Injective_map_NoDup; [|exact IH]. intros a b E. injection E. auto.
  - intros k H1 H2. apply in_map_iff in H1. destruct H1 as (k1 & <- & _).
    apply in_flat_map in H2. destruct H2 as (y & Hy & H2). apply in_map_iff in H2.
    destruct H2 as (k2 & E & _). injection E as -> _. contradiction.
Qed.

(* ====================================================================== *)
(* marginal loader, direct mode *)
Lemma eval_prod_cons f fs x k : eval_prod (f :: fs) (x :: k) = (f x * eval_prod fs k)%Q.
Proof. reflexivity. Qed.

Lemma marg_sums_cons f fs r rs : marg_sums (f :: fs) (r :: rs) = qsum (map f r) :: marg_sums fs rs.
Proof. reflexivity. Qed.

(* the normaliser is the product of the marginal sums (distributivity over the box) *)
Lemma box_sum_prod ranges : forall fs, length ranges <= length fs ->
  (qsum (map (eval_prod fs) (box ranges)) == qprod (marg_sums fs ranges))%Q.
Proof.
  induction ranges as [|r rs IH]; intros fs Hl.
  - unfold marg_sums, qsum, qprod. destruct fs; cbn [box map eval_prod combine fold_right]; ring.
  - destruct fs as [|f fs]; [cbn in Hl; lia|]. cbn [length] in Hl.
    rewrite marg_sums_cons, qprod_cons. rewrite <- (IH fs) by lia. cbn [box].
    induction r as [|x r IHr]; cbn [flat_map map].
    + unfold qsum. cbn [fold_right]. ring.
    + rewrite map_app, qsum_app, IHr, qsum_cons, map_map.
      rewrite (qsum_map_ext (fun k => eval_prod (f :: fs) (x :: k)) (fun k => f x * eval_prod fs k)%Q)
        by (intros k _; rewrite eval_prod_cons; reflexivity).
      rewrite (qsum_map_scale_l (eval_prod fs) (f x) (box rs)). ring.
Qed.

Definition in_half_box (bounds : list (Z * Z)) (k : key) : Prop :=
  Forall2 (fun x b => (fst b <= x < snd b)%Z) k bounds.
Definition in_closed_box (bounds : list (Z * Z)) (k : key) : Prop :=
  Forall2 (fun x b => (fst b <= x <= snd b)%Z) k bounds.

Lemma Forall2_map_r {A B C} (P : A -> C -> Prop) (g : B -> C) a b :
  Forall2 P a (map g b) <-> Forall2 (fun x y => P x (g y)) a b.
Proof.
  revert a. induction b as [|y b IH]; intros a; cbn [map].
  - split; intros H; inversion H; constructor.
  - split; intros H; inversion H; subst; constructor; auto; apply IH; auto.
Qed.

Lemma box_half_In bounds k : In k (box (map half_open bounds)) <-> in_half_box bounds k.
Proof.
  rewrite box_In, Forall2_map_r. apply Forall2_iff. intros x b. unfold half_open. apply zrange_In.
Qed.

Lemma box_closed_In bounds k : In k (box (map closed bounds)) <-> in_closed_box bounds k.
Proof.
  rewrite box_In, Forall2_map_r. apply Forall2_iff. intros x b. unfold closed. rewrite zrange_In. lia.
Qed.

Lemma box_half_NoDup bounds : NoDup (box (map half_open bounds)).
Proof. apply box_NoDup. apply Forall_map. apply Forall_forall. intros b _. apply zrange_NoDup. Qed.

Lemma box_closed_NoDup bounds : NoDup (box (map closed bounds)).
Proof. apply box_NoDup. apply Forall_map. apply Forall_forall. intros b _. apply zrange_NoDup. Qed.

Lemma Close_eq eps x q : (0 <= eps)%Q -> (x == q)%Q -> Close eps x q.
Proof.
  intros He E. unfold Close. setoid_replace (x - q)%Q with 0%Q by (rewrite E; ring).
  change (Qabs 0) with 0%Q. apply Qmult_le_0_compat; [exact He|].
  destruct (Qle_bool 1 (Qabs q)); [apply Qabs_nonneg|discriminate].
Qed.

Definition marg_total (fs : list (Z -> Q)) (bounds : list (Z * Z)) : Q :=
  qprod (marg_sums fs (map half_open bounds)).

(* when the direct mode succeeds, and what it returns *)
Theorem marginal_direct_ok fs bounds d :
  marginal_direct fs bounds = Ok d ->
  map fst d = box (map half_open bounds) /\
  (box (map half_open bounds) <> [] -> length bounds <= length fs /\ ~ (marg_total fs bounds == 0)%Q) /\
  (forall k v, In (k, v) d -> (v == marginal_law fs (map half_open bounds) k)%Q) /\
  (d <> [] -> (qsum (map snd d) == 1)%Q).
Proof.
  unfold marginal_direct, marg_total. set (ranges := map half_open bounds).
  destruct (box ranges) as [|k0 ks] eqn:EB.
  - intros E. injection E as <-. repeat split; try reflexivity; try contradiction.
  - rewrite <- EB. destruct (Nat.ltb_spec (length fs) (length bounds)) as [Hlt|Hge]; [discriminate|].
    assert (Hlen : length ranges <= length fs) by (unfold ranges; rewrite map_length; exact Hge).
    set (vals := map (fun k => (k, eval_prod fs k)) (box ranges)).
    assert (Htot : (qsum (map snd vals) == qprod (marg_sums fs ranges))%Q).
    { unfold vals. rewrite map_map. cbn [snd]. apply box_sum_prod. exact Hlen. }
    destruct (Qeq_bool (qsum (map snd vals)) 0) eqn:EZ; [discriminate|].
    assert (Hnz : ~ (qsum (map snd vals) == 0)%Q) by (intros H; apply Qeq_bool_iff in H; congruence).
    intros E. injection E as <-. split; [|split; [|split]].
    + unfold vals. rewrite !map_map. cbn [fst]. apply map_id.
    + intros _. split; [exact Hge|]. rewrite <- Htot. exact Hnz.
    + intros k v H. apply in_map_iff in H. destruct H as ([k' e] & E & H). cbn [fst snd] in E.
      injection E as -> <-. unfold vals in H. apply in_map_iff in H. destruct H as (k'' & E & _).
      injection E as -> <-. unfold marginal_law. rewrite Htot. reflexivity.
    + intros _. rewrite map_map. cbn [snd].
      rewrite (qsum_map_div (fun kv : key * Q => snd kv) (qsum (map snd vals)) vals).
      apply Qmult_inv_r. exact Hnz.
Qed.

Theorem marginal_direct_total fs bounds :
  length bounds <= length fs -> ~ (marg_total fs bounds == 0)%Q ->
  exists d, marginal_direct fs bounds = Ok d.
Proof.
  intros Hl Hnz. unfold marginal_direct. set (ranges := map half_open bounds).
  destruct (box ranges) as [|k0 ks] eqn:EB; [eexists; reflexivity|]. rewrite <- EB.
  destruct (Nat.ltb_spec (length fs) (length bounds)) as [Hlt|Hge]; [lia|].
  destruct (Qeq_bool _ 0) eqn:EZ; [|eexists; reflexivity]. exfalso. apply Hnz.
  apply Qeq_bool_iff in EZ. rewrite map_map in EZ. cbn [snd] in EZ. unfold marg_total. fold ranges.
  rewrite <- box_sum_prod by (unfold ranges; rewrite map_length; exact Hl). exact EZ.
Qed.

(* the two error branches *)
Theorem marginal_direct_err fs bounds e :
  marginal_direct fs bounds = Err e ->
  box (map half_open bounds) <> [] /\
  ((e = E_Index /\ length fs < length bounds) \/
   (e = E_ZeroDiv /\ length bounds <= length fs /\ (marg_total fs bounds == 0)%Q)).
Proof.
  unfold marginal_direct, marg_total. set (ranges := map half_open bounds).
  destruct (box ranges) as [|k0 ks] eqn:EB; [discriminate|]. rewrite <- EB.
  destruct (Nat.ltb_spec (length fs) (length bounds)) as [Hlt|Hge].
  - intros E. injection E as <-. split; [rewrite EB; discriminate|]. left. split; [reflexivity|exact Hlt].
  - destruct (Qeq_bool _ 0) eqn:EZ; [|discriminate]. intros E. injection E as <-.
    split; [rewrite EB; discriminate|]. right. split; [reflexivity|].
    split; [exact Hge|]. apply Qeq_bool_iff in EZ. rewrite map_map in EZ. cbn [snd] in EZ.
    rewrite <- box_sum_prod by (unfold ranges; rewrite map_length; exact Hge). exact EZ.
Qed.

Theorem marginal_direct_spec eps fs bounds d :
  (0 <= eps)%Q -> marginal_direct fs bounds = Ok d ->
  LawSpec eps (in_half_box bounds) (marginal_law fs (map half_open bounds)) d.
Proof.
  intros He E. destruct (marginal_direct_ok fs bounds d E) as (K & _ & V & _). unfold LawSpec.
  rewrite K. split; [apply box_half_NoDup|]. split; [intros k; apply box_half_In|].
  rewrite Forall_forall. intros [k v] H. cbn [fst snd]. apply Close_eq; [exact He|]. apply V. exact H.
Qed.

Lemma eval_prod_nonneg fs k :
  (forall f x, In f fs -> 0 <= f x)%Q -> (0 <= eval_prod fs k)%Q.
Proof.
  revert fs. induction k as [|x k IH]; intros fs H; [destruct fs; cbn [eval_prod]; lra|].
  destruct fs as [|f fs]; [cbn; apply Qle_refl|]. rewrite eval_prod_cons.
  apply Qmult_le_0_compat; [apply H; left; reflexivity|]. apply IH. intros g y Hg. apply H. right. exact Hg.
Qed.

Theorem marginal_direct_nonneg fs bounds d :
  (forall f x, In f fs -> 0 <= f x)%Q -> marginal_direct fs bounds = Ok d ->
  Forall (fun kv => 0 <= snd kv)%Q d.
Proof.
  intros Hf E. destruct (marginal_direct_ok fs bounds d E) as (K & NZ & V & _).
  rewrite Forall_forall. intros [k v] H. cbn [snd]. rewrite (V k v H). unfold marginal_law.
  assert (Hne : box (map half_open bounds) <> []).
  { rewrite <- K. intros E0. apply map_eq_nil in E0. subst d. contradiction. }
  destruct (NZ Hne) as [Hl Hnz]. unfold marg_total in Hnz.
  assert (Hp : (0 <= qprod (marg_sums fs (map half_open bounds)))%Q).
  { rewrite <- box_sum_prod by (rewrite map_length; exact Hl). apply qsum_nonneg. apply Forall_map.
    apply Forall_forall. intros k' _. apply eval_prod_nonneg. exact Hf. }
  unfold Qdiv. apply Qmult_le_0_compat; [apply eval_prod_nonneg; exact Hf|].
  apply Qinv_le_0_compat. exact Hp.
Qed.
