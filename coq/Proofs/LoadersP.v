(* Proofs about Model/Loaders.v (C06): laws of the manual / empirical / marginal / function loaders,
   the dispatcher, and the verified checker. *)
From Coq Require Import List ZArith QArith Qabs Bool Arith Lia ZifyBool Setoid Lqa FinFun.
From GV Require Import Lib.Tree Lib.QSumL Lib.ReflL Model.Loaders.
Import ListNotations.
Local Open Scope nat_scope.

(* ====================================================================== *)
(* keys *)
Lemma key_eqb_eq a b : key_eqb a b = true <-> a = b.
Proof.
  revert b. induction a as [|x a IH]; intros [|y b]; cbn; try (split; [discriminate|discriminate]); [tauto|].
  rewrite andb_true_iff, Z.eqb_eq, IH. split; [intros [-> ->]; reflexivity|intros H; injection H; auto].
Qed.

Lemma key_eqb_refl a : key_eqb a a = true.
Proof. apply key_eqb_eq. reflexivity. Qed.

Lemma key_eqb_neq a b : key_eqb a b = false <-> a <> b.
Proof. rewrite <- key_eqb_eq. destruct (key_eqb a b); split; congruence. Qed.

Lemma key_eqb_sym a b : key_eqb a b = key_eqb b a.
Proof.
  destruct (key_eqb a b) eqn:E1, (key_eqb b a) eqn:E2; try reflexivity.
  - apply key_eqb_eq in E1. subst. rewrite key_eqb_refl in E2. discriminate.
  - apply key_eqb_eq in E2. subst. rewrite key_eqb_refl in E1. discriminate.
Qed.

Lemma mem_key_In k l : mem_key k l = true <-> In k l.
Proof.
  unfold mem_key. rewrite existsb_exists. split.
  - intros (x & Hx & E). apply key_eqb_eq in E. subst. exact Hx.
  - intros H. exists k. split; [exact H|apply key_eqb_refl].
Qed.

Lemma nodup_keys_NoDup l : nodup_keys l = true <-> NoDup l.
Proof.
  induction l as [|k t IH]; cbn.
  - split; [constructor|reflexivity].
  - rewrite andb_true_iff, negb_true_iff, IH. split.
    + intros [H1 H2]. constructor; [|exact H2]. rewrite <- mem_key_In. congruence.
    + intros H. inversion H as [|? ? H1 H2]; subst. split; [|exact H2].
      destruct (mem_key k t) eqn:E; [|reflexivity]. apply mem_key_In in E. contradiction.
Qed.

(* ====================================================================== *)
(* closeness *)
Definition Close (eps x q : Q) : Prop :=
  (Qabs (x - q) <= eps * (if Qle_bool 1 (Qabs q) then Qabs q else 1))%Q.

Lemma qclose_iff eps x q : qclose eps x q = true <-> Close eps x q.
Proof. unfold qclose, Close. apply Qle_bool_iff. Qed.

Lemma Close_exact eps q : (0 <= eps)%Q -> Close eps q q.
Proof.
  intros He. unfold Close. setoid_replace (q - q)%Q with 0%Q by ring. cbn [Qabs].
  change (Qabs 0) with 0%Q. apply Qmult_le_0_compat; [exact He|].
  destruct (Qle_bool 1 (Qabs q)); [apply Qabs_nonneg|discriminate].
Qed.

Lemma Close_zero x q : Close 0 x q <-> (x == q)%Q.
Proof.
  unfold Close. rewrite Qmult_0_l. split.
  - intros H. pose proof (Qle_Qabs (x - q)) as H1. pose proof (Qle_Qabs (- (x - q))) as H2.
    rewrite Qabs_opp in H2. lra.
  - intros E. setoid_replace (x - q)%Q with 0%Q by (rewrite E; ring). apply Qle_refl.
Qed.

(* ====================================================================== *)
(* the law specification and its checker *)
Definition LawSpec (eps : Q) (Sup : key -> Prop) (law : key -> Q) (obs : dist) : Prop :=
  NoDup (map fst obs) /\
  (forall k, In k (map fst obs) <-> Sup k) /\
  Forall (fun kv => Close eps (snd kv) (law (fst kv))) obs.

Lemma law_check_iff eps support (Sup : key -> Prop) law obs :
  (forall k, In k support <-> Sup k) ->
  (law_check eps support law obs = true <-> LawSpec eps Sup law obs).
Proof.
  intros HS. unfold law_check, LawSpec.
  rewrite !andb_true_iff, nodup_keys_NoDup, !forallb_Forall.
  assert (A : Forall (fun k => mem_key k support = true) (map fst obs) /\
              Forall (fun k => mem_key k (map fst obs) = true) support
              <-> forall k, In k (map fst obs) <-> Sup k).
  { rewrite !Forall_forall. split.
    - intros [H1 H2] k. rewrite <- HS. split; intros H.
      + apply mem_key_In. apply H1. exact H.
      + apply mem_key_In. apply H2. exact H.
    - intros H. split; intros k Hk; apply mem_key_In; [apply HS, H, Hk|apply H, HS, Hk]. }
  assert (B : Forall (fun kv => qclose eps (snd kv) (law (fst kv)) = true) obs
              <-> Forall (fun kv => Close eps (snd kv) (law (fst kv))) obs).
  { rewrite !Forall_forall. split; intros H kv Hkv; apply qclose_iff, H, Hkv. }
  rewrite B. tauto.
Qed.

(* ====================================================================== *)
(* the empirical law (convert_jds_to_jdd) *)
Lemma in_filter_neq k x l : In x (filter (fun y => negb (key_eqb k y)) l) <-> In x l /\ x <> k.
Proof.
  rewrite filter_In, negb_true_iff, key_eqb_neq. split; intros [A B]; split; auto; congruence.
Qed.

Lemma first_occ_In l k : In k (first_occ l) <-> In k l.
Proof.
  induction l as [|a l IH]; cbn [first_occ In]; [tauto|]. split.
  - intros [->|H]; [left; reflexivity|]. apply in_filter_neq in H. right. apply IH. tauto.
  - intros [->|H]; [left; reflexivity|]. destruct (key_eqb a k) eqn:E.
    + left. apply key_eqb_eq. exact E.
    + right. apply in_filter_neq. split; [apply IH; exact H|]. apply key_eqb_neq in E. congruence.
Qed.

Lemma first_occ_NoDup l : NoDup (first_occ l).
Proof.
  induction l as [|a l IH]; cbn [first_occ]; constructor.
  - intros H. apply in_filter_neq in H. tauto.
  - apply NoDup_filter. exact IH.
Qed.

Lemma count_key_notin k l : ~ In k l -> count_key k l = 0.
Proof.
  induction l as [|x l IH]; intros H; [reflexivity|]. cbn [count_key].
  destruct (key_eqb k x) eqn:E.
  - apply key_eqb_eq in E. subst. exfalso. apply H. left. reflexivity.
  - rewrite IH; [reflexivity|]. intros H'. apply H. right. exact H'.
Qed.

Lemma count_key_pos k l : In k l -> 0 < count_key k l.
Proof.
  induction l as [|x l IH]; intros H; [contradiction|]. cbn [count_key].
  destruct H as [->|H]; [rewrite key_eqb_refl; lia|]. specialize (IH H). lia.
Qed.

Lemma count_key_le k l : count_key k l <= length l.
Proof. induction l as [|x l IH]; cbn [count_key length]; [lia|]. destruct (key_eqb k x); lia. Qed.

Lemma list_sum_cons x l : list_sum (x :: l) = x + list_sum l.
Proof. reflexivity. Qed.

Lemma sum_split_key (f : key -> nat) k l :
  NoDup l ->
  list_sum (map f l) =
  (if mem_key k l then f k else 0) + list_sum (map f (filter (fun y => negb (key_eqb k y)) l)).
Proof.
  induction l as [|x l IH]; intros ND; [reflexivity|]. inversion ND as [|? ? Hx ND']; subst.
  unfold mem_key. cbn [map filter existsb]. fold (mem_key k l). rewrite list_sum_cons, (IH ND').
  destruct (key_eqb k x) eqn:E; cbn [negb orb].
  - apply key_eqb_eq in E. subst x. destruct (mem_key k l) eqn:M; [apply mem_key_In in M; contradiction|]. lia.
  - cbn [map]. rewrite list_sum_cons. lia.
Qed.

Lemma count_first_occ l : list_sum (map (fun k => count_key k l) (first_occ l)) = length l.
Proof.
  induction l as [|k t IH]; [reflexivity|]. cbn [first_occ map length]. rewrite list_sum_cons.
  cbn [count_key]. rewrite key_eqb_refl.
  rewrite (map_ext_in (fun k' => count_key k' (k :: t)) (fun k' => count_key k' t)).
  - rewrite <- IH. rewrite (sum_split_key (fun k' => count_key k' t) k (first_occ t) (first_occ_NoDup t)).
    destruct (mem_key k (first_occ t)) eqn:M; [lia|].
    rewrite (count_key_notin k t); [lia|]. intros H. apply first_occ_In in H. apply mem_key_In in H. congruence.
  - intros k' Hk'. apply in_filter_neq in Hk'. destruct Hk' as [_ Hne]. cbn [count_key].
    destruct (key_eqb k' k) eqn:E; [apply key_eqb_eq in E; contradiction|]. reflexivity.
Qed.

Lemma qsum_qfrac (g : key -> nat) n l :
  (qsum (map (fun k => qfrac (g k) n) l) == qfrac (list_sum (map g l)) n)%Q.
Proof.
  unfold qfrac. induction l as [|x l IH]; cbn [map].
  - cbn. unfold Qdiv. ring.
  - rewrite qsum_cons, list_sum_cons, IH, Nat2Z.inj_add, inject_Z_plus. unfold Qdiv. ring.
Qed.

Lemma qfrac_same n : 0 < n -> (qfrac n n == 1)%Q.
Proof.
  intros H. unfold qfrac. apply Qmult_inv_r. intros E.
  unfold Qeq, inject_Z in E. cbn [Qnum Qden] in E. lia.
Qed.

Lemma qfrac_nonneg a b : (0 <= qfrac a b)%Q.
Proof.
  unfold qfrac, Qdiv. apply Qmult_le_0_compat.
  - change 0%Q with (inject_Z 0). rewrite <- Zle_Qle. lia.
  - apply Qinv_le_0_compat. change 0%Q with (inject_Z 0). rewrite <- Zle_Qle. lia.
Qed.

Lemma empirical_keys jds : map fst (empirical jds) = first_occ jds.
Proof. unfold empirical. rewrite map_map. cbn [fst]. apply map_id. Qed.

Lemma empirical_value jds k v :
  In (k, v) (empirical jds) -> v = qfrac (count_key k jds) (length jds) /\ In k jds.
Proof.
  unfold empirical. rewrite in_map_iff. intros (k' & E & Hk). injection E as -> <-.
  split; [reflexivity|]. apply first_occ_In. exact Hk.
Qed.

Lemma empirical_sum jds : jds <> [] -> (qsum (map snd (empirical jds)) == 1)%Q.
Proof.
  intros Hne. unfold empirical. rewrite map_map. cbn [snd].
  rewrite (qsum_qfrac (fun k => count_key k jds)). rewrite count_first_occ.
  apply qfrac_same. destruct jds; [contradiction|cbn; lia].
Qed.

Lemma empirical_spec eps jds : (0 <= eps)%Q ->
  LawSpec eps (fun k => In k jds) (fun k => qfrac (count_key k jds) (length jds)) (empirical jds).
Proof.
  intros He. unfold LawSpec. rewrite empirical_keys. split; [apply first_occ_NoDup|]. split.
  - intros k. apply first_occ_In.
  - rewrite Forall_forall. intros [k v] H. apply empirical_value in H. destruct H as [-> _].
    cbn [fst snd]. apply Close_exact. exact He.
Qed.

Lemma empirical_nonneg jds : Forall (fun kv => 0 <= snd kv)%Q (empirical jds).
Proof.
  rewrite Forall_forall. intros [k v] H. apply empirical_value in H. destruct H as [-> _]. apply qfrac_nonneg.
Qed.

(* ====================================================================== *)
(* ranges and boxes *)
Lemma zrange_In lo hi x : In x (zrange lo hi) <-> (lo <= x < hi)%Z.
Proof.
  unfold zrange. rewrite in_map_iff. split.
  - intros (i & <- & Hi). apply in_seq in Hi. lia.
  - intros H. exists (Z.to_nat (x - lo)). split; [lia|]. apply in_seq. lia.
Qed.

Lemma zrange_NoDup lo hi : NoDup (zrange lo hi).
Proof.
  unfold zrange. apply Injective_map_NoDup; [|apply seq_NoDup].
  intros a b H. lia.
Qed.

Lemma box_In rs k : In k (box rs) <-> Forall2 (fun x r => In x r) k rs.
Proof.
  revert k. induction rs as [|r rs IH]; intros k; cbn [box].
  - split; [intros [<-|[]]; constructor|intros H; inversion H; left; reflexivity].
  - rewrite in_flat_map. split.
    + intros (x & Hx & Hk). apply in_map_iff in Hk. destruct Hk as (k' & <- & Hk').
      constructor; [exact Hx|apply IH; exact Hk'].
    + intros H. inversion H as [|x ? k' ? Hx Hk']; subst. exists x. split; [exact Hx|].
      apply in_map. apply IH. exact Hk'.
Qed.

Lemma NoDup_app_disj {A} (a b : list A) :
  NoDup a -> (forall x, In x a -> In x b -> False) -> NoDup b -> NoDup (a ++ b).
Proof.
  induction a as [|x a IH]; intros Ha Hd Hb; [exact Hb|]. inversion Ha as [|? ? Hx Ha']; subst.
  cbn. constructor.
  - rewrite in_app_iff. intros [H|H]; [contradiction|]. apply (Hd x); [left; reflexivity|exact H].
  - apply IH; auto. intros y Hy. apply Hd. right. exact Hy.
Qed.

Lemma box_NoDup rs : Forall (fun r => NoDup r) rs -> NoDup (box rs).
Proof.
  induction 1 as [|r rs Hr _ IH]; cbn [box]; [repeat constructor; intros []|].
  induction Hr as [|x r Hx Hr IHr]; cbn [flat_map]; [constructor|].
  apply NoDup_app_disj; [| |exact IHr].
  - apply Injective_map_NoDup; [|exact IH]. intros a b E. injection E. auto.
  - intros k H1 H2. apply in_map_iff in H1. destruct H1 as (k1 & <- & _).
    apply in_flat_map in H2. destruct H2 as (y & Hy & H2). apply in_map_iff in H2.
    destruct H2 as (k2 & E & _). injection E as -> _. contradiction.
Qed.

(* ====================================================================== *)
(* marginal loader, direct mode *)
Lemma eval_prod_cons f fs x k : eval_prod (f :: fs) (x :: k) = (f x * eval_prod fs k)%Q.
Proof. reflexivity. Qed.

Lemma marg_sums_cons f fs r rs : marg_sums (f :: fs) (r :: rs) = qsum (map f r) :: marg_sums fs rs.
Proof. reflexivity. Qed.

(* the normaliser is the product of the marginal sums (distributivity over the box) *)
Lemma box_sum_prod ranges : forall fs, length ranges <= length fs ->
  (qsum (map (eval_prod fs) (box ranges)) == qprod (marg_sums fs ranges))%Q.
Proof.
  induction ranges as [|r rs IH]; intros fs Hl.
  - unfold marg_sums, qsum, qprod. destruct fs; cbn [box map eval_prod combine fold_right]; ring.
  - destruct fs as [|f fs]; [cbn in Hl; lia|]. cbn [length] in Hl.
    rewrite marg_sums_cons, qprod_cons. rewrite <- (IH fs) by lia. cbn [box].
    induction r as [|x r IHr]; cbn [flat_map map].
    + unfold qsum. cbn [fold_right]. ring.
    + rewrite map_app, qsum_app, IHr, qsum_cons, map_map.
      rewrite (qsum_map_ext (fun k => eval_prod (f :: fs) (x :: k)) (fun k => f x * eval_prod fs k)%Q)
        by (intros k _; rewrite eval_prod_cons; reflexivity).
      rewrite (qsum_map_scale_l (eval_prod fs) (f x) (box rs)). ring.
Qed.

Definition in_half_box (bounds : list (Z * Z)) (k : key) : Prop :=
  Forall2 (fun x b => (fst b <= x < snd b)%Z) k bounds.
Definition in_closed_box (bounds : list (Z * Z)) (k : key) : Prop :=
  Forall2 (fun x b => (fst b <= x <= snd b)%Z) k bounds.

Lemma Forall2_map_r {A B C} (P : A -> C -> Prop) (g : B -> C) a b :
  Forall2 P a (map g b) <-> Forall2 (fun x y => P x (g y)) a b.
Proof.
  revert a. induction b as [|y b IH]; intros a; cbn [map].
  - split; intros H; inversion H; constructor.
  - split; intros H; inversion H; subst; constructor; auto; apply IH; auto.
Qed.

Lemma box_half_In bounds k : In k (box (map half_open bounds)) <-> in_half_box bounds k.
Proof.
  rewrite box_In, Forall2_map_r. apply Forall2_iff. intros x b. unfold half_open. apply zrange_In.
Qed.

Lemma box_closed_In bounds k : In k (box (map closed bounds)) <-> in_closed_box bounds k.
Proof.
  rewrite box_In, Forall2_map_r. apply Forall2_iff. intros x b. unfold closed. rewrite zrange_In. lia.
Qed.

Lemma box_half_NoDup bounds : NoDup (box (map half_open bounds)).
Proof. apply box_NoDup. apply Forall_map. apply Forall_forall. intros b _. apply zrange_NoDup. Qed.

Lemma box_closed_NoDup bounds : NoDup (box (map closed bounds)).
Proof. apply box_NoDup. apply Forall_map. apply Forall_forall. intros b _. apply zrange_NoDup. Qed.

Lemma Close_eq eps x q : (0 <= eps)%Q -> (x == q)%Q -> Close eps x q.
Proof.
  intros He E. unfold Close. setoid_replace (x - q)%Q with 0%Q by (rewrite E; ring).
  change (Qabs 0) with 0%Q. apply Qmult_le_0_compat; [exact He|].
  destruct (Qle_bool 1 (Qabs q)); [apply Qabs_nonneg|discriminate].
Qed.

Definition marg_total (fs : list (Z -> Q)) (bounds : list (Z * Z)) : Q :=
  qprod (marg_sums fs (map half_open bounds)).

(* when the direct mode succeeds, and what it returns *)
Theorem marginal_direct_ok fs bounds d :
  marginal_direct fs bounds = Ok d ->
  map fst d = box (map half_open bounds) /\
  (box (map half_open bounds) <> [] -> length bounds <= length fs /\ ~ (marg_total fs bounds == 0)%Q) /\
  (forall k v, In (k, v) d -> (v == marginal_law fs (map half_open bounds) k)%Q) /\
  (d <> [] -> (qsum (map snd d) == 1)%Q).
Proof.
  unfold marginal_direct, marg_total. set (ranges := map half_open bounds).
  destruct (box ranges) as [|k0 ks] eqn:EB.
  - intros E. injection E as <-. repeat split; try reflexivity; try contradiction.
  - rewrite <- EB. destruct (Nat.ltb_spec (length fs) (length bounds)) as [Hlt|Hge]; [discriminate|].
    assert (Hlen : length ranges <= length fs) by (unfold ranges; rewrite map_length; exact Hge).
    set (vals := map (fun k => (k, eval_prod fs k)) (box ranges)).
    assert (Htot : (qsum (map snd vals) == qprod (marg_sums fs ranges))%Q).
    { unfold vals. rewrite map_map. cbn [snd]. apply box_sum_prod. exact Hlen. }
    destruct (Qeq_bool (qsum (map snd vals)) 0) eqn:EZ; [discriminate|].
    assert (Hnz : ~ (qsum (map snd vals) == 0)%Q) by (intros H; apply Qeq_bool_iff in H; congruence).
    intros E. injection E as <-. split; [|split; [|split]].
    + unfold vals. rewrite !map_map. cbn [fst]. apply map_id.
    + intros _. split; [exact Hge|]. rewrite <- Htot. exact Hnz.
    + intros k v H. apply in_map_iff in H. destruct H as ([k' e] & E & H). cbn [fst snd] in E.
      injection E as -> <-. unfold vals in H. apply in_map_iff in H. destruct H as (k'' & E & _).
      injection E as -> <-. unfold marginal_law. rewrite Htot. reflexivity.
    + intros _. rewrite map_map. cbn [snd].
      rewrite (qsum_map_div (fun kv : key * Q => snd kv) (qsum (map snd vals)) vals).
      apply Qmult_inv_r. exact Hnz.
Qed.

Theorem marginal_direct_total fs bounds :
  length bounds <= length fs -> ~ (marg_total fs bounds == 0)%Q ->
  exists d, marginal_direct fs bounds = Ok d.
Proof.
  intros Hl Hnz. unfold marginal_direct. set (ranges := map half_open bounds).
  destruct (box ranges) as [|k0 ks] eqn:EB; [eexists; reflexivity|]. rewrite <- EB.
  destruct (Nat.ltb_spec (length fs) (length bounds)) as [Hlt|Hge]; [lia|].
  destruct (Qeq_bool _ 0) eqn:EZ; [|eexists; reflexivity]. exfalso. apply Hnz.
  apply Qeq_bool_iff in EZ. rewrite map_map in EZ. cbn [snd] in EZ. unfold marg_total. fold ranges.
  rewrite <- box_sum_prod by (unfold ranges; rewrite map_length; exact Hl). exact EZ.
Qed.

(* the two error branches *)
Theorem marginal_direct_err fs bounds e :
  marginal_direct fs bounds = Err e ->
  box (map half_open bounds) <> [] /\
  ((e = E_Index /\ length fs < length bounds) \/
   (e = E_ZeroDiv /\ length bounds <= length fs /\ (marg_total fs bounds == 0)%Q)).
Proof.
  unfold marginal_direct, marg_total. set (ranges := map half_open bounds).
  destruct (box ranges) as [|k0 ks] eqn:EB; [discriminate|]. rewrite <- EB.
  destruct (Nat.ltb_spec (length fs) (length bounds)) as [Hlt|Hge].
  - intros E. injection E as <-. split; [rewrite EB; discriminate|]. left. split; [reflexivity|exact Hlt].
  - destruct (Qeq_bool _ 0) eqn:EZ; [|discriminate]. intros E. injection E as <-.
    split; [rewrite EB; discriminate|]. right. split; [reflexivity|].
    split; [exact Hge|]. apply Qeq_bool_iff in EZ. rewrite map_map in EZ. cbn [snd] in EZ.
    rewrite <- box_sum_prod by (unfold ranges; rewrite map_length; exact Hge). exact EZ.
Qed.

Theorem marginal_direct_spec eps fs bounds d :
  (0 <= eps)%Q -> marginal_direct fs bounds = Ok d ->
  LawSpec eps (in_half_box bounds) (marginal_law fs (map half_open bounds)) d.
Proof.
  intros He E. destruct (marginal_direct_ok fs bounds d E) as (K & _ & V & _). unfold LawSpec.
  rewrite K. split; [apply box_half_NoDup|]. split; [intros k; apply box_half_In|].
  rewrite Forall_forall. intros [k v] H. cbn [fst snd]. apply Close_eq; [exact He|]. apply V. exact H.
Qed.

Lemma eval_prod_nonneg fs k :
  (forall f x, In f fs -> 0 <= f x)%Q -> (0 <= eval_prod fs k)%Q.
Proof.
  revert fs. induction k as [|x k IH]; intros fs H; [destruct fs; cbn [eval_prod]; lra|].
  destruct fs as [|f fs]; [cbn; apply Qle_refl|]. rewrite eval_prod_cons.
  apply Qmult_le_0_compat; [apply H; left; reflexivity|]. apply IH. intros g y Hg. apply H. right. exact Hg.
Qed.

Theorem marginal_direct_nonneg fs bounds d :
  (forall f x, In f fs -> 0 <= f x)%Q -> marginal_direct fs bounds = Ok d ->
  Forall (fun kv => 0 <= snd kv)%Q d.
Proof.
  intros Hf E. destruct (marginal_direct_ok fs bounds d E) as (K & NZ & V & _).
  rewrite Forall_forall. intros [k v] H. cbn [snd]. rewrite (V k v H). unfold marginal_law.
  assert (Hne : box (map half_open bounds) <> []).
  { rewrite <- K. intros E0. apply map_eq_nil in E0. subst d. contradiction. }
  destruct (NZ Hne) as [Hl Hnz]. unfold marg_total in Hnz.
  assert (Hp : (0 <= qprod (marg_sums fs (map half_open bounds)))%Q).
  { rewrite <- box_sum_prod by (rewrite map_length; exact Hl). apply qsum_nonneg. apply Forall_map.
    apply Forall_forall. intros k' _. apply eval_prod_nonneg. exact Hf. }
  unfold Qdiv. apply Qmult_le_0_compat; [apply eval_prod_nonneg; exact Hf|].
  apply Qinv_le_0_compat. exact Hp.
Qed.

(* ====================================================================== *)
(* function and manual loaders *)
Theorem function_loader_spec eps fp bounds :
  (0 <= eps)%Q -> LawSpec eps (in_closed_box bounds) fp (function_loader fp bounds).
Proof.
  intros He. unfold LawSpec, function_loader. rewrite map_map. cbn [fst]. rewrite map_id.
  split; [apply box_closed_NoDup|]. split; [intros k; apply box_closed_In|].
  rewrite Forall_forall. intros [k v] H. apply in_map_iff in H. destruct H as (k' & E & _).
  injection E as -> <-. cbn [fst snd]. apply Close_exact. exact He.
Qed.

Lemma function_loader_keys fp bounds : map fst (function_loader fp bounds) = box (map closed bounds).
Proof. unfold function_loader. rewrite map_map. cbn [fst]. apply map_id. Qed.

Lemma function_loader_value fp bounds k v : In (k, v) (function_loader fp bounds) -> v = fp k.
Proof.
  unfold function_loader. intros H. apply in_map_iff in H. destruct H as (k' & E & _).
  injection E as -> <-. reflexivity.
Qed.

Lemma flookup_In d k v : NoDup (map fst d) -> In (k, v) d -> flookup d k = v.
Proof.
  induction d as [|[k' v'] d IH]; intros ND H; [contradiction|]. cbn [map fst] in ND.
  inversion ND as [|? ? Hk ND']; subst. cbn [flookup]. destruct H as [E|H].
  - injection E as -> ->. rewrite key_eqb_refl. reflexivity.
  - destruct (key_eqb k k') eqn:E; [|apply IH; assumption].
    apply key_eqb_eq in E. subst k'. exfalso. apply Hk. apply (in_map fst) in H. exact H.
Qed.

Theorem manual_spec eps d :
  (0 <= eps)%Q -> NoDup (map fst d) -> LawSpec eps (fun k => In k (map fst d)) (flookup d) d.
Proof.
  intros He ND. unfold LawSpec. split; [exact ND|]. split; [tauto|].
  rewrite Forall_forall. intros [k v] H. cbn [fst snd]. rewrite (flookup_In d k v ND H).
  apply Close_exact. exact He.
Qed.

(* ====================================================================== *)
(* marginal loader, sampling mode *)
Definition expected_calls (fs : list (Z -> Q)) (bounds : list (Z * Z)) (n : nat) : list call :=
  map (fun fb => (closed (snd fb), map (fst fb) (closed (snd fb)), n)) (combine fs bounds).

Lemma sampling_calls_ok fs bounds n cs :
  sampling_calls fs bounds n = Ok cs -> length bounds <= length fs /\ cs = expected_calls fs bounds n.
Proof.
  revert fs cs. induction bounds as [|b bs IH]; intros fs cs E.
  - assert (E0 : cs = []) by (destruct fs; cbn in E; injection E as <-; reflexivity). subst cs.
    split; [cbn; lia|]. unfold expected_calls. destruct fs; reflexivity.
  - destruct fs as [|f fs]; [discriminate|]. cbn [sampling_calls] in E. destruct (sampling_calls fs bs n) as [cs'|e] eqn:E'; [|discriminate].
    injection E as <-. destruct (IH fs cs' E') as [Hl ->]. split; [cbn; lia|reflexivity].
Qed.

Lemma sampling_calls_err fs bounds n e :
  sampling_calls fs bounds n = Err e -> e = E_Index /\ length fs < length bounds.
Proof.
  revert fs. induction bounds as [|b bs IH]; intros fs E; [destruct fs; discriminate|].
  destruct fs as [|f fs]; [injection E as <-; split; [reflexivity|cbn; lia]|]. cbn [sampling_calls] in E.
  destruct (sampling_calls fs bs n) as [cs'|e'] eqn:E'; [discriminate|]. injection E as <-.
  destruct (IH fs E') as [-> Hl]. split; [reflexivity|cbn; lia].
Qed.

Definition cols_of (cs : list call) (draws : list (list nat)) : list (list Z) :=
  map (fun cd => picks (fst (fst (fst cd))) (snd cd)) (combine cs draws).

(* one list of n valid indices per dimension *)
Definition DrawsOk (bounds : list (Z * Z)) (n : nat) (draws : list (list nat)) : Prop :=
  Forall2 (fun idxs b => length idxs = n /\ Forall (fun i => i < length (closed b)) idxs) draws bounds.

Lemma picks_nth pop idxs r : r < length idxs -> nth r (picks pop idxs) 0%Z = nth (nth r idxs 0) pop 0%Z.
Proof.
  intros H. unfold picks. rewrite (nth_indep _ 0%Z ((fun i => nth i pop 0%Z) 0)) by (rewrite map_length; exact H).
  apply (map_nth (fun i => nth i pop 0%Z)).
Qed.

Lemma cols_in_ranges fs bounds n draws :
  length bounds <= length fs -> DrawsOk bounds n draws ->
  Forall2 (fun col b => forall r, r < n -> In (nth r col 0%Z) (closed b))
          (cols_of (expected_calls fs bounds n) draws) bounds.
Proof.
  intros Hl HD. revert fs Hl. induction HD as [|idxs b draws bounds [Hlen Hidx] _ IH]; intros fs Hl.
  - unfold expected_calls, cols_of. destruct fs; cbn; constructor.
  - destruct fs as [|f fs]; [cbn in Hl; lia|]. unfold expected_calls, cols_of. cbn [combine map fst snd].
    constructor.
    + intros r Hr. rewrite picks_nth by lia. apply nth_In. rewrite Forall_forall in Hidx.
      apply Hidx. apply nth_In. lia.
    + apply IH. cbn in Hl. lia.
Qed.

Lemma stack_rows_In cols n k : In k (stack_rows cols n) <-> exists r, r < n /\ k = map (fun c => nth r c 0%Z) cols.
Proof.
  unfold stack_rows. rewrite in_map_iff. split.
  - intros (r & <- & Hr). apply in_seq in Hr. exists r. split; [lia|reflexivity].
  - intros (r & Hr & ->). exists r. split; [reflexivity|apply in_seq; lia].
Qed.

Lemma Forall2_map_l {A B C} (P : C -> B -> Prop) (g : A -> C) a b :
  Forall2 P (map g a) b <-> Forall2 (fun x y => P (g x) y) a b.
Proof.
  revert b. induction a as [|x a IH]; intros b; cbn [map].
  - split; intros H; inversion H; constructor.
  - split; intros H; inversion H; subst; constructor; auto; apply IH; auto.
Qed.

Theorem marginal_sampling_ok fs bounds n draws cs d :
  marginal_sampling fs bounds n draws = Ok (cs, d) ->
  bounds <> [] /\ length bounds <= length fs /\ cs = expected_calls fs bounds n /\
  d = empirical (stack_rows (cols_of cs draws) n).
Proof.
  unfold marginal_sampling. destruct (sampling_calls fs bounds n) as [cs'|e] eqn:E; [|discriminate].
  destruct (sampling_calls_ok _ _ _ _ E) as [Hl ->]. destruct bounds as [|b bs]; [discriminate|].
  intros H. injection H as <- <-. repeat split; auto. discriminate.
Qed.

Theorem marginal_sampling_err fs bounds n draws e :
  marginal_sampling fs bounds n draws = Err e ->
  (e = E_Index /\ length fs < length bounds) \/ (e = E_Value /\ bounds = []).
Proof.
  unfold marginal_sampling. destruct (sampling_calls fs bounds n) as [cs'|e'] eqn:E.
  - destruct bounds; [|discriminate]. intros H. injection H as <-. right. split; reflexivity.
  - intros H. injection H as <-. left. apply (sampling_calls_err _ _ _ _ E).
Qed.

(* sampling mode: the result is the empirical law of the column-stacked answers; its support lies in the
   CLOSED box; it sums to one *)
Theorem marginal_sampling_support fs bounds n draws cs d :
  marginal_sampling fs bounds n draws = Ok (cs, d) -> DrawsOk bounds n draws ->
  forall k, In k (map fst d) -> in_closed_box bounds k.
Proof.
  intros E HD k Hk. destruct (marginal_sampling_ok _ _ _ _ _ _ E) as (_ & Hl & -> & ->).
  rewrite empirical_keys in Hk. apply (proj1 (first_occ_In _ _)) in Hk. apply (proj1 (stack_rows_In _ _ _)) in Hk.
  destruct Hk as (r & Hr & ->). unfold in_closed_box. apply Forall2_map_l.
  pose proof (cols_in_ranges fs bounds n draws Hl HD) as F.
  eapply Forall2_impl; [|exact F]. intros col b H. cbn. specialize (H r Hr).
  unfold closed in H. apply zrange_In in H. lia.
Qed.

Theorem marginal_sampling_sum fs bounds n draws cs d :
  marginal_sampling fs bounds n draws = Ok (cs, d) -> 0 < n -> (qsum (map snd d) == 1)%Q.
Proof.
  intros E Hn. destruct (marginal_sampling_ok _ _ _ _ _ _ E) as (_ & _ & _ & ->).
  apply empirical_sum. unfold stack_rows. destruct n; [lia|]. cbn. discriminate.
Qed.

(* ====================================================================== *)
(* both construction paths *)
Definition res_dist (r : res (list (list call) * dist)) : res dist :=
  match r with Ok (_, d) => Ok d | Err e => Err e end.

Definition deterministic (l : loader) : Prop :=
  match l with LMargSampling _ _ _ => False | _ => True end.

Theorem dispatch_eq_construct l rounds rounds' :
  deterministic l -> res_dist (dispatch l rounds) = res_dist (construct l rounds').
Proof.
  intros D. destruct l; try contradiction; unfold dispatch, construct; cbn [create res_dist]; try reflexivity.
  destruct (marginal_direct fs bounds); reflexivity.
Qed.

(* sampling: the dispatcher's result is what a direct construction gives for the answers of its SECOND round *)
Theorem dispatch_sampling fs bounds n rounds rounds' :
  nth 1 rounds [] = nth 0 rounds' [] ->
  res_dist (dispatch (LMargSampling fs bounds n) rounds) = res_dist (construct (LMargSampling fs bounds n) rounds').
Proof.
  intros E. unfold dispatch, construct. cbn [create]. rewrite E. unfold marginal_sampling.
  destruct (sampling_calls fs bounds n) as [cs|e]; [|reflexivity]. destruct bounds; reflexivity.
Qed.

(* ====================================================================== *)
(* the Prop-level specification of every loader and the equivalence with the checker *)
Definition CallEq (a b : call) : Prop :=
  fst (fst a) = fst (fst b) /\ Forall2 Qeq (snd (fst a)) (snd (fst b)) /\ snd a = snd b.

Lemma call_eqb_iff a b : call_eqb a b = true <-> CallEq a b.
Proof.
  unfold call_eqb, CallEq. split.
  - intros H. apply andb_true_iff in H. destruct H as [H D]. apply andb_true_iff in H. destruct H as [H C].
    apply andb_true_iff in H. destruct H as [A B]. split; [apply key_eqb_eq; exact A|]. split.
    + apply (list_eqb_rel Qeq_bool Qeq Qeq_bool_iff). rewrite B, C. reflexivity.
    + apply Nat.eqb_eq. exact D.
  - intros (A & B & D). apply (list_eqb_rel Qeq_bool Qeq Qeq_bool_iff) in B. apply andb_true_iff in B.
    destruct B as [B C]. rewrite (proj2 (key_eqb_eq _ _) A), B, C, (proj2 (Nat.eqb_eq _ _) D). reflexivity.
Qed.

Lemma calls_eqb_iff a b : calls_eqb a b = true <-> Forall2 CallEq a b.
Proof. unfold calls_eqb. apply (list_eqb_rel call_eqb CallEq call_eqb_iff). Qed.

Definition RoundOk (cs : list call) (n : nat) (ds : list (list nat)) : Prop :=
  length ds = length cs /\
  Forall (fun cd => length (snd cd) = n /\ Forall (fun i => i < length (fst (fst (fst cd)))) (snd cd))
         (combine cs ds).

Definition NonNeg (obs : dist) : Prop := Forall (fun kv => 0 <= snd kv)%Q obs.

Lemma nonneg_vals_iff obs : nonneg_vals obs = true <-> NonNeg obs.
Proof.
  unfold nonneg_vals, NonNeg. rewrite forallb_Forall. apply Forall_iff. intros kv. apply Qle_bool_iff.
Qed.

(* sampling mode: every logged round asked choices(closed range_i, [f_i(k)], k = n) for every dimension, the
   answers are valid indices, and the exposed map is the empirical law of the column-stacked answers of the
   last round *)
Definition SamplingSpec (fs : list (Z -> Q)) (bounds : list (Z * Z)) (n : nat)
           (logged : list (list call)) (rounds : list (list (list nat))) (obs : dist) : Prop :=
  exists cs, sampling_calls fs bounds n = Ok cs /\
    bounds <> [] /\ logged <> [] /\ length logged = length rounds /\
    Forall (fun lg => Forall2 CallEq cs lg) logged /\
    Forall (RoundOk cs n) rounds /\
    let rows := stack_rows (cols_of cs (last rounds [])) n in
    LawSpec tol (fun k => In k rows) (fun k => qfrac (count_key k rows) n) obs.

Lemma length_zero_iff {A} (l : list A) : negb (Nat.eqb (length l) 0) = true <-> l <> [].
Proof. destruct l; cbn; split; congruence. Qed.

Lemma sampling_check_iff fs bounds n logged rounds obs :
  sampling_check fs bounds n logged rounds obs = true <-> SamplingSpec fs bounds n logged rounds obs.
Proof.
  unfold sampling_check, SamplingSpec. destruct (sampling_calls fs bounds n) as [cs|e].
  - rewrite !andb_true_iff, !length_zero_iff, Nat.eqb_eq, !forallb_Forall.
    rewrite (law_check_iff tol _ (fun k => In k (stack_rows (cols_of cs (last rounds [])) n)))
      by (intros k; apply first_occ_In).
    assert (A : Forall (fun x => calls_eqb cs x = true) logged <-> Forall (fun lg => Forall2 CallEq cs lg) logged).
    { apply Forall_iff. intros lg. apply calls_eqb_iff. }
    assert (B : Forall (fun x => (length x =? length cs) &&
                   forallb (fun cd => (length (snd cd) =? n) &&
                              forallb (fun i => i <? length (fst (fst (fst cd)))) (snd cd)) (combine cs x) = true) rounds
                <-> Forall (RoundOk cs n) rounds).
    { apply Forall_iff. intros ds. unfold RoundOk. rewrite andb_true_iff, Nat.eqb_eq, forallb_Forall.
      apply and_iff_both; [tauto|]. apply Forall_iff. intros cd.
      rewrite andb_true_iff, Nat.eqb_eq, forallb_Forall. apply and_iff_both; [tauto|].
      apply Forall_iff. intros i. apply Nat.ltb_lt. }
    unfold cols_of. rewrite A, B. split.
    + intros H. exists cs. tauto.
    + intros (cs' & E & H). injection E as <-. tauto.
  - split; [discriminate|]. intros (cs & E & _). discriminate.
Qed.

Definition LoaderSpec (l : loader) (logged : list (list call)) (rounds : list (list (list nat)))
           (obs : dist) : Prop :=
  match l with
  | LManual d => LawSpec 0 (fun k => In k (map fst d)) (flookup d) obs
  | LEmpirical jds =>
      LawSpec tol (fun k => In k jds) (fun k => qfrac (count_key k jds) (length jds)) obs /\ NonNeg obs
  | LMargDirect fs b => LawSpec tol (in_half_box b) (marginal_law fs (map half_open b)) obs
  | LMargSampling fs b n => SamplingSpec fs b n logged rounds obs /\ NonNeg obs
  | LFunction fp b => LawSpec 0 (in_closed_box b) fp obs
  end.

Theorem loader_check_iff l logged rounds obs :
  loader_check l logged rounds obs = true <-> LoaderSpec l logged rounds obs.
Proof.
  destruct l; cbn [loader_check LoaderSpec].
  - apply law_check_iff. tauto.
  - rewrite andb_true_iff, nonneg_vals_iff. apply and_iff_both; [|tauto].
    apply law_check_iff. intros k. apply first_occ_In.
  - apply law_check_iff. intros k. apply box_half_In.
  - rewrite andb_true_iff, nonneg_vals_iff, sampling_check_iff. tauto.
  - apply law_check_iff. intros k. apply box_closed_In.
Qed.

Lemma stack_rows_length cols n : length (stack_rows cols n) = n.
Proof. unfold stack_rows. rewrite map_length, seq_length. reflexivity. Qed.

Lemma tol_nonneg : (0 <= tol)%Q.
Proof. unfold tol. discriminate. Qed.

Lemma CallEq_refl c : CallEq c c.
Proof. unfold CallEq. repeat split. induction (snd (fst c)); constructor; [reflexivity|assumption]. Qed.

Lemma Forall2_CallEq_refl cs : Forall2 CallEq cs cs.
Proof. induction cs; constructor; [apply CallEq_refl|assumption]. Qed.

(* the model's output satisfies the specification: direct construction ... *)
Theorem construct_satisfies_spec l ds cs d :
  construct l [ds] = Ok (cs, d) ->
  match l with
  | LManual d0 => NoDup (map fst d0)
  | LMargSampling fs b n => RoundOk (expected_calls fs b n) n ds
  | _ => True
  end ->
  LoaderSpec l cs [ds] d.
Proof.
  unfold construct. cbn [nth]. destruct l; cbn [create LoaderSpec].
  - intros E ND. injection E as <- <-. apply manual_spec; [apply Qle_refl|exact ND].
  - intros E _. injection E as <- <-. split; [apply empirical_spec, tol_nonneg|apply empirical_nonneg].
  - destruct (marginal_direct fs bounds) as [d0|e] eqn:EM; [|discriminate]. intros E _. injection E as <- <-.
    apply marginal_direct_spec; [apply tol_nonneg|exact EM].
  - destruct (marginal_sampling fs bounds n ds) as [[cs0 d0]|e] eqn:EM; [|discriminate].
    intros E RO. injection E as <- <-. destruct (marginal_sampling_ok _ _ _ _ _ _ EM) as (Hne & Hl & -> & ->).
    split; [|apply empirical_nonneg]. exists (expected_calls fs bounds n).
    assert (SC : sampling_calls fs bounds n = Ok (expected_calls fs bounds n)).
    { unfold marginal_sampling in EM. destruct (sampling_calls fs bounds n) as [c|e] eqn:ES; [|discriminate].
      destruct (sampling_calls_ok _ _ _ _ ES) as [_ ->]. reflexivity. }
    split; [exact SC|]. split; [exact Hne|]. split; [discriminate|]. split; [reflexivity|].
    split; [constructor; [apply Forall2_CallEq_refl|constructor]|].
    split; [constructor; [exact RO|constructor]|].
    cbn [last]. pose proof (empirical_spec tol (stack_rows (cols_of (expected_calls fs bounds n) ds) n) tol_nonneg) as H.
    rewrite stack_rows_length in H. exact H.
  - intros E _. injection E as <- <-. apply function_loader_spec. apply Qle_refl.
Qed.

(* ... and the dispatcher path (constructor + second create_jdd) *)
Theorem dispatch_satisfies_spec l ds0 ds1 cs d :
  dispatch l [ds0; ds1] = Ok (cs, d) ->
  match l with
  | LManual d0 => NoDup (map fst d0)
  | LMargSampling fs b n => RoundOk (expected_calls fs b n) n ds0 /\ RoundOk (expected_calls fs b n) n ds1
  | _ => True
  end ->
  LoaderSpec l cs [ds0; ds1] d.
Proof.
  unfold dispatch. cbn [nth]. destruct l; cbn [create LoaderSpec].
  - intros E ND. injection E as <- <-. apply manual_spec; [apply Qle_refl|exact ND].
  - intros E _. injection E as <- <-. split; [apply empirical_spec, tol_nonneg|apply empirical_nonneg].
  - destruct (marginal_direct fs bounds) as [d0|e] eqn:EM; [|discriminate]. intros E _. injection E as <- <-.
    apply marginal_direct_spec; [apply tol_nonneg|exact EM].
  - destruct (marginal_sampling fs bounds n ds0) as [[cs0 d0]|e] eqn:EM0; [|discriminate].
    destruct (marginal_sampling fs bounds n ds1) as [[cs1 d1]|e] eqn:EM1; [|discriminate].
    intros E [RO0 RO1]. injection E as <- <-.
    destruct (marginal_sampling_ok _ _ _ _ _ _ EM0) as (Hne & Hl & -> & _).
    destruct (marginal_sampling_ok _ _ _ _ _ _ EM1) as (_ & _ & -> & ->).
    split; [|apply empirical_nonneg]. exists (expected_calls fs bounds n).
    assert (SC : sampling_calls fs bounds n = Ok (expected_calls fs bounds n)).
    { unfold marginal_sampling in EM0. destruct (sampling_calls fs bounds n) as [c|e] eqn:ES; [|discriminate].
      destruct (sampling_calls_ok _ _ _ _ ES) as [_ ->]. reflexivity. }
    split; [exact SC|]. split; [exact Hne|]. split; [discriminate|]. split; [reflexivity|].
    split; [constructor; [apply Forall2_CallEq_refl|constructor; [apply Forall2_CallEq_refl|constructor]]|].
    split; [constructor; [exact RO0|constructor; [exact RO1|constructor]]|].
    cbn [last]. pose proof (empirical_spec tol (stack_rows (cols_of (expected_calls fs bounds n) ds1) n) tol_nonneg) as H.
    rewrite stack_rows_length in H. exact H.
  - intros E _. injection E as <- <-. apply function_loader_spec. apply Qle_refl.
Qed.

(* consequences of the law specification used in Props/C06.v *)
Lemma LawSpec_exact_value Sup law obs k v :
  LawSpec 0 Sup law obs -> In (k, v) obs -> (v == law k)%Q.
Proof.
  intros (_ & _ & F) H. rewrite Forall_forall in F. specialize (F (k, v) H). cbn [fst snd] in F.
  apply Close_zero. exact F.
Qed.

(* ====================================================================== *)
(* packaged statements for Props/C06.v *)
Lemma c06_manual d ds : create (LManual d) ds = Ok ([], d).
Proof. reflexivity. Qed.

Lemma c06_empirical jds :
  create (LEmpirical jds) [] = Ok ([], empirical jds) /\
  NoDup (map fst (empirical jds)) /\
  (forall k, In k (map fst (empirical jds)) <-> In k jds) /\
  (forall k v, In (k, v) (empirical jds) -> v = qfrac (count_key k jds) (length jds) /\ (0 <= v)%Q) /\
  (jds <> [] -> (qsum (map snd (empirical jds)) == 1)%Q).
Proof.
  split; [reflexivity|]. rewrite empirical_keys. split; [apply first_occ_NoDup|].
  split; [intros k; apply first_occ_In|]. split; [|apply empirical_sum].
  intros k v H. destruct (empirical_value jds k v H) as [-> _]. split; [reflexivity|apply qfrac_nonneg].
Qed.

Lemma c06_marginal_direct fs bounds d :
  marginal_direct fs bounds = Ok d ->
  NoDup (map fst d) /\
  (forall k, In k (map fst d) <-> in_half_box bounds k) /\
  (forall k v, In (k, v) d ->
     (v == eval_prod fs k / qprod (marg_sums fs (map half_open bounds)))%Q) /\
  (d <> [] -> (qsum (map snd d) == 1)%Q) /\
  ((forall f x, In f fs -> 0 <= f x)%Q -> Forall (fun kv => 0 <= snd kv)%Q d).
Proof.
  intros E. destruct (marginal_direct_ok fs bounds d E) as (K & _ & V & S).
  rewrite K. split; [apply box_half_NoDup|]. split; [intros k; apply box_half_In|].
  split; [exact V|]. split; [exact S|]. intros Hf. eapply marginal_direct_nonneg; eauto.
Qed.

Lemma c06_marginal_sampling fs bounds n draws cs d :
  marginal_sampling fs bounds n draws = Ok (cs, d) ->
  cs = expected_calls fs bounds n /\
  d = empirical (stack_rows (cols_of cs draws) n) /\
  (DrawsOk bounds n draws -> forall k, In k (map fst d) -> in_closed_box bounds k) /\
  (0 < n -> (qsum (map snd d) == 1)%Q).
Proof.
  intros E. destruct (marginal_sampling_ok _ _ _ _ _ _ E) as (_ & _ & H1 & H2).
  split; [exact H1|]. split; [exact H2|]. split.
  - intros HD. eapply marginal_sampling_support; eauto.
  - eapply marginal_sampling_sum; eauto.
Qed.

Lemma c06_function fp bounds :
  create (LFunction fp bounds) [] = Ok ([], function_loader fp bounds) /\
  NoDup (map fst (function_loader fp bounds)) /\
  (forall k, In k (map fst (function_loader fp bounds)) <-> in_closed_box bounds k) /\
  (forall k v, In (k, v) (function_loader fp bounds) -> v = fp k).
Proof.
  split; [reflexivity|]. rewrite function_loader_keys. split; [apply box_closed_NoDup|].
  split; [intros k; apply box_closed_In|]. apply function_loader_value.
Qed.

(* ---------- the full sampling-limit statement (NOT proved; kept visible as C06_full) ---------- *)
Fixpoint all_idx_lists (m n : nat) : list (list nat) :=
  match n with
  | O => [[]]
  | S n' => flat_map (fun i => map (cons i) (all_idx_lists m n')) (seq 0 m)
  end.

Fixpoint all_draws (cs : list call) (n : nat) : list (list (list nat)) :=
  match cs with
  | [] => [[]]
  | c :: cs' => flat_map (fun ix => map (cons ix) (all_draws cs' n)) (all_idx_lists (length (fst (fst c))) n)
  end.

(* probability of one answer sequence under independent draws following the weights (the trusted law of
   random.choices, C05) *)
Definition dim_prob (c : call) (idxs : list nat) : Q :=
  qprod (map (fun i => nth i (snd (fst c)) 0 / qsum (snd (fst c)))%Q idxs).
Definition draws_prob (cs : list call) (draws : list (list nat)) : Q :=
  qprod (map (fun cd => dim_prob (fst cd) (snd cd)) (combine cs draws)).

Definition sampling_deviates (fs : list (Z -> Q)) (bounds : list (Z * Z)) (n : nat) (eps : Q)
           (draws : list (list nat)) : bool :=
  match marginal_sampling fs bounds n draws with
  | Ok (_, d) => existsb (fun k => negb (Qle_bool (Qabs (flookup d k - marginal_law fs (map closed bounds) k)) eps))
                         (box (map closed bounds))
  | Err _ => true
  end.
